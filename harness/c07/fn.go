//go:build verif

package main

// Function-level ops of C07: the real guards and filters (dnsclient exchange,
// dnsname suffix comparison, checkGlueRR/usableAddr, extractDelegationInfo /
// validReferral / progressingReferral / filterAuthorityRecords /
// clearAdditional, filterCacheableAnswer) run on generated inputs; the result
// is canonicalised for the Lean model and judged by an independent oracle that
// works from the property text (own label splitter, own address classifier).

import (
	"context"
	"encoding/binary"
	"errors"
	"fmt"
	"io"
	"net"
	"net/http"
	"net/http/httptest"
	"net/netip"
	"os"
	"sort"
	"strings"
	"sync"
	"time"

	"github.com/miekg/dns"
	"github.com/semihalev/sdns/internal/dnsclient"
	"github.com/semihalev/sdns/internal/dnsname"
	"github.com/semihalev/sdns/internal/dnsutil"
	"github.com/semihalev/sdns/internal/verif/vlib"
	"github.com/semihalev/sdns/middleware"
	"github.com/semihalev/sdns/middleware/cache"
	"github.com/semihalev/sdns/middleware/resolver"
)

// ---------------------------------------------------------------- oracle helpers

// oLabels splits a presentation name into lower-cased labels (RFC 1035
// §5.1 escapes: a backslash quotes the next character), root = no labels.
// Written for the oracle; shares nothing with internal/dnsname.
func oLabels(name string) []string {
	var out []string
	cur := []byte{}
	for i := 0; i < len(name); i++ {
		c := name[i]
		switch {
		case c == '\\' && i+1 < len(name):
			cur = append(cur, c, name[i+1])
			i++
		case c == '.':
			out = append(out, strings.ToLower(string(cur)))
			cur = cur[:0]
		default:
			cur = append(cur, c)
		}
	}
	if len(cur) > 0 {
		out = append(out, strings.ToLower(string(cur)))
	}
	if name == "." {
		return nil
	}
	return out
}

// oShared is the number of labels two names share from the right.
func oShared(a, b string) int {
	la, lb := oLabels(a), oLabels(b)
	n := 0
	for n < len(la) && n < len(lb) && la[len(la)-1-n] == lb[len(lb)-1-n] {
		n++
	}
	return n
}

// oInside: name is zone or below it, label-wise.
func oInside(zone, name string) bool { return oShared(zone, name) == len(oLabels(zone)) }

var ownIfaces = func() map[netip.Addr]bool {
	out := map[netip.Addr]bool{}
	as, _ := net.InterfaceAddrs()
	for _, a := range as {
		if n, ok := a.(*net.IPNet); ok {
			if ad, ok := netip.AddrFromSlice(n.IP); ok {
				out[ad.Unmap()] = true
			}
		}
	}
	return out
}()

func oLoopback(a netip.Addr) bool {
	a = a.Unmap()
	if a.Is4() {
		return a.As4()[0] == 127
	}
	return a == netip.IPv6Loopback()
}

func fail(sig, detail string, args ...any) string {
	return "FAIL sig=" + sig + " " + fmt.Sprintf(detail, args...)
}

func listOrDash(xs []string) string {
	if len(xs) == 0 {
		return "-"
	}
	return strings.Join(xs, ",")
}

func splitList(s, sep string) []string {
	if s == "-" || s == "" {
		return nil
	}
	return strings.Split(s, sep)
}

// ---------------------------------------------------------------- name cmp

func execNameCmp(f []string) vlib.Res {
	a, b := f[2], f[3]
	n := dnsname.CompareSuffix(a, b)
	sub := dnsname.Sub(a, b)
	or := "ok"
	// the oracle speaks about fully qualified names only (what the wire codec produces)
	if strings.HasSuffix(a, ".") && strings.HasSuffix(b, ".") && !strings.HasSuffix(a, "\\.") && !strings.HasSuffix(b, "\\.") {
		if want := oShared(a, b); want != n {
			or = fail("name/shared-label-count", "a=%s b=%s want=%d got=%d", a, b, want, n)
		} else if oInside(a, b) != sub {
			or = fail("name/sub", "zone=%s name=%s want=%v got=%v", a, b, oInside(a, b), sub)
		}
	} else {
		or = "-"
	}
	tags := ""
	if n > 0 || strings.HasSuffix(strings.ToLower(b), strings.ToLower(a)) {
		tags = "nt"
	}
	return vlib.Res{Impl: fmt.Sprintf("n=%d sub=%s la=%d lb=%d", n, vlib.B(sub), dns.CountLabel(a), dns.CountLabel(b)), Oracle: or, Tags: tags}
}

// ---------------------------------------------------------------- exchange

type fakeAddr struct{}

func (fakeAddr) Network() string { return "fake" }
func (fakeAddr) String() string  { return "fake" }

// fakeStream is a net.Conn fed from a byte stream (TCP framing is the code's own).
type fakeStream struct {
	buf   []byte
	wrote int
}

func (c *fakeStream) Read(p []byte) (int, error) {
	if len(c.buf) == 0 {
		return 0, os.ErrDeadlineExceeded
	}
	n := copy(p, c.buf)
	c.buf = c.buf[n:]
	return n, nil
}
func (c *fakeStream) Write(p []byte) (int, error)        { c.wrote++; return len(p), nil }
func (c *fakeStream) Close() error                       { return nil }
func (c *fakeStream) LocalAddr() net.Addr                { return fakeAddr{} }
func (c *fakeStream) RemoteAddr() net.Addr               { return fakeAddr{} }
func (c *fakeStream) SetDeadline(t time.Time) error      { return nil }
func (c *fakeStream) SetReadDeadline(t time.Time) error  { return nil }
func (c *fakeStream) SetWriteDeadline(t time.Time) error { return nil }

// fakePacket additionally is a net.PacketConn: one datagram per Read.
type fakePacket struct {
	fakeStream
	grams [][]byte
	used  int
}

func (c *fakePacket) Read(p []byte) (int, error) {
	if c.used >= len(c.grams) {
		return 0, os.ErrDeadlineExceeded
	}
	g := c.grams[c.used]
	c.used++
	return copy(p, g), nil
}
func (c *fakePacket) ReadFrom(p []byte) (int, net.Addr, error) {
	n, err := c.Read(p)
	return n, fakeAddr{}, err
}
func (c *fakePacket) WriteTo(p []byte, _ net.Addr) (int, error) { return len(p), nil }

type xq struct {
	name   string
	qt, qc uint16
}

func parseXQ(s string) xq {
	p := strings.Split(s, "/")
	return xq{p[0], uint16(vlib.Atoi(p[1])), uint16(vlib.Atoi(p[2]))}
}

type xcand struct {
	kind  string // "e" unparsable, "s" short, "m" message
	id    uint16
	qs    []xq
	flags string
}

func parseCands(s string) []xcand {
	var out []xcand
	for _, c := range splitList(s, ";") {
		switch c {
		case "e", "s":
			out = append(out, xcand{kind: c})
		default:
			idS, qsS, _ := strings.Cut(c, ":")
			// header flags ride behind the id: t = TC, a = AA, n/s/f = rcode NXDOMAIN/SERVFAIL/FORMERR, x = QR clear
			flags := strings.TrimLeft(idS, "0123456789")
			idS = idS[:len(idS)-len(flags)]
			x := xcand{kind: "m", id: uint16(vlib.Atoi(idS)), flags: flags}
			for _, q := range splitList(qsS, "+") {
				x.qs = append(x.qs, parseXQ(q))
			}
			out = append(out, x)
		}
	}
	return out
}

func candBytes(i int, c xcand) []byte {
	switch c.kind {
	case "e":
		// a header promising one question and then nothing parsable
		return []byte{0, 1, 0x80, 0, 0, 1, 0, 0, 0, 0, 0, 0, 0xc0}
	case "s":
		return []byte{1, 2, 3, 4, 5}
	}
	m := new(dns.Msg)
	m.Id = c.id
	m.Response = true
	for _, fl := range c.flags {
		switch fl {
		case 't':
			m.Truncated = true
		case 'a':
			m.Authoritative = true
		case 'n':
			m.Rcode = dns.RcodeNameError
		case 's':
			m.Rcode = dns.RcodeServerFailure
		case 'f':
			m.Rcode = dns.RcodeFormatError
		case 'x':
			m.Response = false
		}
	}
	for _, q := range c.qs {
		m.Question = append(m.Question, dns.Question{Name: q.name, Qtype: q.qt, Qclass: q.qc})
	}
	// the marker tells the driver which candidate came back
	m.Answer = []dns.RR{&dns.TXT{Hdr: dns.RR_Header{Name: "marker.", Rrtype: dns.TypeTXT, Class: dns.ClassINET, Ttl: 1}, Txt: []string{fmt.Sprint(i)}}}
	b, err := m.Pack()
	if err != nil {
		panic("candidate does not pack: " + err.Error())
	}
	return b
}

func execXchg(f []string) vlib.Res {
	udp := f[2] == "udp"
	qid := uint16(vlib.Atoi(f[3]))
	req := new(dns.Msg)
	req.Id = qid
	var rq *xq
	if f[4] != "-" {
		q := parseXQ(f[4])
		rq = &q
		req.Question = []dns.Question{{Name: q.name, Qtype: q.qt, Qclass: q.qc}}
	}
	cands := parseCands(f[5])
	var conn net.Conn
	var pk *fakePacket
	var st *fakeStream
	if udp {
		pk = &fakePacket{}
		for i, c := range cands {
			pk.grams = append(pk.grams, candBytes(i, c))
		}
		conn = pk
	} else {
		st = &fakeStream{}
		for i, c := range cands {
			b := candBytes(i, c)
			var l [2]byte
			binary.BigEndian.PutUint16(l[:], uint16(len(b)))
			st.buf = append(st.buf, l[:]...)
			st.buf = append(st.buf, b...)
		}
		conn = st
	}
	total := 0
	if st != nil {
		total = len(st.buf)
	}
	co := &dnsclient.Conn{Conn: conn}
	resp, _, err := co.Exchange(req)
	used := 0
	if udp {
		used = pk.used
	} else if total != len(st.buf) {
		used = 1
	}
	impl := ""
	idx := -1
	switch {
	case err == nil && resp != nil:
		if len(resp.Answer) == 1 {
			if t, ok := resp.Answer[0].(*dns.TXT); ok && len(t.Txt) == 1 {
				idx = vlib.Atoi(t.Txt[0])
			}
		}
		impl = fmt.Sprintf("ok %d", idx)
	case errors.Is(err, dns.ErrId):
		impl = "err id"
	case errors.Is(err, dnsclient.ErrQuestion):
		impl = "err question"
	case err != nil:
		impl = "err read"
	default:
		impl = "nil nil"
	}
	impl += fmt.Sprintf(" used=%d", used)
	// oracle: whatever was accepted must carry the query's id and exactly its question
	or := "ok"
	if idx >= 0 {
		c := cands[idx]
		switch {
		case c.kind != "m":
			or = fail("xchg/accepted-unparsable", "idx=%d", idx)
		case c.id != qid:
			or = fail("xchg/accepted-wrong-id/"+f[2], "want=%d got=%d", qid, c.id)
		case rq != nil && (len(c.qs) != 1 || c.qs[0].qt != rq.qt || c.qs[0].qc != rq.qc ||
			strings.Join(oLabels(c.qs[0].name), "\x00") != strings.Join(oLabels(rq.name), "\x00")):
			or = fail("xchg/accepted-wrong-question/"+f[2], "asked=%v got=%v", *rq, c.qs)
		}
	} else if err == nil {
		or = fail("xchg/no-error-no-identified-reply", "")
	}
	tags := "xchg-" + f[2]
	if len(cands) >= 2 {
		tags += ",nt"
	}
	if strings.ContainsAny(f[5], "tanfsx") && strings.Contains(f[5], "t:") {
		tags += ",xchg-tc"
	}
	if len(cands) >= 6 {
		tags += ",xchg-burst"
	}
	if strings.HasPrefix(f[5], "0:") || strings.Contains(f[5], ";0:") || strings.Contains(f[5], ";0t") {
		tags += ",xchg-id0"
	}
	return vlib.Res{Impl: impl, Oracle: or, Tags: tags}
}

// ---------------------------------------------------------------- DoH transport of dnsclient.Client

var (
	dohOnce sync.Once
	dohSrv  *httptest.Server
	dohMu   sync.Mutex
	dohBody []byte
	dohCode int
	dohCT   string
)

// doh run <qid> <q|-> <cand> <skipq t|f>     cand as in xchg (one HTTP response body), or h = HTTP 500, c = wrong content type
func execDoH(f []string) vlib.Res {
	dohOnce.Do(func() {
		dohSrv = httptest.NewServer(http.HandlerFunc(func(w http.ResponseWriter, r *http.Request) {
			io.Copy(io.Discard, r.Body)
			dohMu.Lock()
			body, code, ct := dohBody, dohCode, dohCT
			dohMu.Unlock()
			w.Header().Set("Content-Type", ct)
			w.WriteHeader(code)
			w.Write(body)
		}))
	})
	qid := uint16(vlib.Atoi(f[2]))
	req := new(dns.Msg)
	req.Id = qid
	var rq *xq
	if f[3] != "-" {
		q := parseXQ(f[3])
		rq = &q
		req.Question = []dns.Question{{Name: q.name, Qtype: q.qt, Qclass: q.qc}}
	}
	var cand xcand
	code, ct := 200, "application/dns-message"
	switch f[4] {
	case "h":
		code = 500
		cand = xcand{kind: "e"}
	case "c":
		ct = "text/plain"
		cand = xcand{kind: "e"}
	default:
		cand = parseCands(f[4])[0]
	}
	dohMu.Lock()
	dohBody, dohCode, dohCT = candBytes(0, cand), code, ct
	dohMu.Unlock()
	skipq := f[5] == "t"
	c := &dnsclient.Client{Proto: "doh", DoHURL: dohSrv.URL + "/dns-query", DoHClient: dohSrv.Client(), Timeout: 2 * time.Second, SkipQuestionCheck: skipq}
	resp, _, err := c.Exchange(context.Background(), req, "")
	impl := ""
	switch {
	case err == nil && resp != nil:
		impl = "ok 0"
	case errors.Is(err, dnsclient.ErrQuestion):
		impl = "err question"
	case err != nil && strings.Contains(err.Error(), "ID mismatch"):
		impl = "err id"
	case err != nil:
		impl = "err read"
	default:
		impl = "nil nil"
	}
	or := "ok"
	if err == nil {
		switch {
		case cand.kind != "m":
			or = fail("doh/accepted-unparsable", "")
		case cand.id != qid && cand.id != 0:
			or = fail("doh/accepted-wrong-id", "want=%d (or 0) got=%d", qid, cand.id)
		case rq != nil && !skipq && (len(cand.qs) != 1 || cand.qs[0].qt != rq.qt || cand.qs[0].qc != rq.qc ||
			strings.Join(oLabels(cand.qs[0].name), "\x00") != strings.Join(oLabels(rq.name), "\x00")):
			or = fail("doh/accepted-wrong-question", "asked=%v got=%v", *rq, cand.qs)
		}
	}
	tags := "nt,doh"
	if qid == 0 {
		tags += ",doh-qid0"
	}
	return vlib.Res{Impl: impl, Oracle: or, Tags: tags}
}

// ---------------------------------------------------------------- dnsclient.Client over real loopback sockets (udp, then tcp after TC=1)

type cliServer struct {
	addr string
	mu   sync.Mutex
	udp  [][]byte // datagrams sent, in order, for every query received
	tcp  [][]byte // frames written, in order, on every accepted connection's first query
}

var (
	cliOnce sync.Once
	cliSrv  *cliServer
)

func startCliServer() *cliServer {
	var pc net.PacketConn
	var ln net.Listener
	var err error
	for try := 0; try < 50; try++ {
		pc, err = net.ListenPacket("udp", "127.0.0.1:0")
		if err != nil {
			panic(err)
		}
		ln, err = net.Listen("tcp", pc.LocalAddr().String())
		if err == nil {
			break
		}
		pc.Close()
	}
	if err != nil {
		panic(err)
	}
	s := &cliServer{addr: pc.LocalAddr().String()}
	go func() {
		buf := make([]byte, 65535)
		for {
			_, from, err := pc.ReadFrom(buf)
			if err != nil {
				return
			}
			s.mu.Lock()
			out := s.udp
			s.mu.Unlock()
			for _, b := range out {
				pc.WriteTo(b, from)
			}
		}
	}()
	go func() {
		for {
			c, err := ln.Accept()
			if err != nil {
				return
			}
			go func(c net.Conn) {
				defer c.Close()
				c.SetDeadline(time.Now().Add(2 * time.Second))
				var l [2]byte
				if _, err := io.ReadFull(c, l[:]); err != nil {
					return
				}
				if _, err := io.ReadFull(c, make([]byte, binary.BigEndian.Uint16(l[:]))); err != nil {
					return
				}
				s.mu.Lock()
				out := s.tcp
				s.mu.Unlock()
				for _, b := range out {
					frame := make([]byte, 2+len(b))
					binary.BigEndian.PutUint16(frame, uint16(len(b)))
					copy(frame[2:], b)
					c.Write(frame)
				}
				// wait for the client to hang up
				io.Copy(io.Discard, c)
			}(c)
		}
	}()
	return s
}

// cli run <qid> <q|-> <udp cands|-> <tcp cands|-> <skipq t|f>      (Client{Proto: "udp"}: forwarder / failover transport)
func execCli(f []string) vlib.Res {
	cliOnce.Do(func() { cliSrv = startCliServer() })
	qid := uint16(vlib.Atoi(f[2]))
	req := new(dns.Msg)
	req.Id = qid
	var rq *xq
	if f[3] != "-" {
		q := parseXQ(f[3])
		rq = &q
		req.Question = []dns.Question{{Name: q.name, Qtype: q.qt, Qclass: q.qc}}
	}
	ucs, tcs := parseCands(f[4]), parseCands(f[5])
	var ub, tb [][]byte
	for i, c := range ucs {
		ub = append(ub, candBytes(i, c))
	}
	for i, c := range tcs {
		tb = append(tb, candBytes(100+i, c))
	}
	cliSrv.mu.Lock()
	cliSrv.udp, cliSrv.tcp = ub, tb
	cliSrv.mu.Unlock()
	skipq := f[6] == "t"
	c := &dnsclient.Client{Proto: "udp", Timeout: 120 * time.Millisecond, SkipQuestionCheck: skipq}
	resp, _, err := c.Exchange(context.Background(), req, cliSrv.addr)
	impl := ""
	var got *xcand
	switch {
	case err == nil && resp != nil:
		idx := -1
		if len(resp.Answer) == 1 {
			if t, ok := resp.Answer[0].(*dns.TXT); ok && len(t.Txt) == 1 {
				idx = vlib.Atoi(t.Txt[0])
			}
		}
		switch {
		case idx >= 100 && idx-100 < len(tcs):
			impl = fmt.Sprintf("ok t%d", idx-100)
			got = &tcs[idx-100]
		case idx >= 0 && idx < len(ucs):
			impl = fmt.Sprintf("ok u%d", idx)
			got = &ucs[idx]
		default:
			impl = "ok ?"
		}
	case errors.Is(err, dns.ErrId):
		impl = "err id"
	case errors.Is(err, dnsclient.ErrQuestion):
		impl = "err question"
	case err != nil:
		impl = "err read"
	default:
		impl = "nil nil"
	}
	or := "ok"
	if got != nil {
		switch {
		case got.id != qid:
			or = fail("cli/accepted-wrong-id/"+impl[3:4], "want=%d got=%d", qid, got.id)
		case rq != nil && !skipq && (len(got.qs) != 1 || got.qs[0].qt != rq.qt || got.qs[0].qc != rq.qc ||
			strings.Join(oLabels(got.qs[0].name), "\x00") != strings.Join(oLabels(rq.name), "\x00")):
			or = fail("cli/accepted-wrong-question/"+impl[3:4], "asked=%v got=%v", *rq, got.qs)
		}
	} else if err == nil {
		or = fail("cli/no-error-no-identified-reply", "")
	}
	tags := "nt,cli"
	if strings.HasPrefix(impl, "ok t") || len(tcs) > 0 {
		tags += ",cli-tcpleg"
	}
	return vlib.Res{Impl: impl, Oracle: or, Tags: tags}
}

// ---------------------------------------------------------------- searchCache (authority selection on the warm-cache route)

// scache run <zones|-> <qname> <qtype>
func execSearchCache(f []string) vlib.Res {
	zones := splitList(f[2], ",")
	qname := f[3]
	qtype := uint16(vlib.Atoi(f[4]))
	zone, level := resolver.VerifC07SearchCache(zones, qname, qtype)
	or := "ok"
	// the servers of a cached zone may only be asked about names at or below that zone
	// (a DS question belongs to the parent side: the zone must be a proper ancestor)
	if !oInside(zone, qname) {
		or = fail("scache/asked-servers-of-a-zone-the-name-is-not-in", "zone=%s qname=%s", zone, qname)
	} else if qtype == dns.TypeDS && zone != "." && len(oLabels(zone)) >= len(oLabels(qname)) {
		or = fail("scache/ds-question-sent-to-the-child-side", "zone=%s qname=%s", zone, qname)
	}
	return vlib.Res{Impl: fmt.Sprintf("zone=%s level=%d", strings.ToLower(zone), level), Oracle: or, Tags: "nt,scache"}
}

// ---------------------------------------------------------------- glue

func ipOf(hexs string) net.IP { return net.IP(vlib.UnHex(hexs)) }

func addrHex(a netip.Addr) string { return vlib.Hex(a.AsSlice()) }

func execGlueNew(f []string) vlib.Res {
	// the local-interface set as the resolver package captured it at init is
	// on the op line (the model's parameter); the oracle compares it with the
	// driver's own enumeration.
	have := map[netip.Addr]bool{}
	for _, h := range splitList(f[2], ",") {
		if a, ok := netip.AddrFromSlice(vlib.UnHex(h)); ok {
			have[a.Unmap()] = true
		}
	}
	or := "ok"
	for a := range ownIfaces {
		if !have[a] {
			or = fail("glue/local-set-misses-interface-address", "%s", a)
		}
	}
	return vlib.Res{Impl: "ok", Oracle: or}
}

type gextra struct {
	owner, typ string
	ip         net.IP
}

func execGlueRun(f []string) vlib.Res {
	ipv6 := f[2] == "t"
	level := vlib.Atoi(f[3])
	qname := f[4]
	hosts := splitList(f[5], ",")
	var extras []gextra
	resp := new(dns.Msg)
	resp.Question = []dns.Question{{Name: qname, Qtype: dns.TypeA, Qclass: dns.ClassINET}}
	probeSet := map[string]bool{}
	for _, h := range hosts {
		probeSet[strings.ToLower(h)] = true // the glue caches are keyed case-insensitively
	}
	for _, e := range splitList(f[6], ";") {
		p := strings.Split(e, "/")
		g := gextra{owner: p[0], typ: p[1], ip: ipOf(p[2])}
		extras = append(extras, g)
		hdr := dns.RR_Header{Name: g.owner, Class: dns.ClassINET, Ttl: 60}
		switch g.typ {
		case "A":
			hdr.Rrtype = dns.TypeA
			resp.Extra = append(resp.Extra, &dns.A{Hdr: hdr, A: g.ip})
		case "AAAA":
			hdr.Rrtype = dns.TypeAAAA
			resp.Extra = append(resp.Extra, &dns.AAAA{Hdr: hdr, AAAA: g.ip})
		default:
			hdr.Rrtype = dns.TypeTXT
			resp.Extra = append(resp.Extra, &dns.TXT{Hdr: hdr, Txt: []string{"x"}})
		}
		probeSet[strings.ToLower(g.owner)] = true
	}
	var probe []string
	for p := range probeSet {
		probe = append(probe, p)
	}
	sort.Strings(probe)
	g := resolver.VerifC07CheckGlue(resp, hosts, level, ipv6, probe)

	var srv []string
	var srvAddrs []netip.Addr
	for _, s := range g.Servers {
		ap, err := netip.ParseAddrPort(s)
		if err != nil || ap.Port() != 53 {
			srv = append(srv, "bad:"+s)
			continue
		}
		srv = append(srv, addrHex(ap.Addr()))
		srvAddrs = append(srvAddrs, ap.Addr())
	}
	cacheStr := func(m map[string][]netip.Addr) string {
		var parts []string
		for _, n := range probe {
			if as, ok := m[n]; ok {
				var hs []string
				for _, a := range as {
					hs = append(hs, addrHex(a))
				}
				parts = append(parts, n+"="+strings.Join(hs, "+"))
			}
		}
		return listOrDash(parts)
	}
	impl := fmt.Sprintf("srv=%s f4=%s f6=%s c4=%s c6=%s", listOrDash(srv), listOrDash(g.FoundV4), listOrDash(g.FoundV6), cacheStr(g.CacheV4), cacheStr(g.CacheV6))

	// oracle
	or := "ok"
	hostOK := map[string]bool{}
	for _, h := range hosts {
		hostOK[strings.ToLower(h)] = true
	}
	usedAddr := map[netip.Addr]bool{}
	judge := func(m map[string][]netip.Addr) {
		for n, as := range m {
			if !hostOK[strings.ToLower(n)] {
				or = fail("glue/accepted-host-not-in-ns-set", "host=%s", n)
			}
			if oShared(n, qname) < level {
				or = fail("glue/accepted-out-of-bailiwick", "host=%s qname=%s level=%d", n, qname, level)
			}
			for _, a := range as {
				usedAddr[a.Unmap()] = true
				if oLoopback(a) {
					or = fail("glue/accepted-loopback", "host=%s addr=%s", n, a)
				} else if ownIfaces[a.Unmap()] {
					or = fail("glue/accepted-local-interface", "host=%s addr=%s", n, a)
				}
			}
		}
	}
	judge(g.CacheV4)
	judge(g.CacheV6)
	for _, a := range srvAddrs {
		switch {
		case oLoopback(a):
			or = fail("glue/server-loopback", "addr=%s", a)
		case ownIfaces[a.Unmap()]:
			or = fail("glue/server-local-interface", "addr=%s", a)
		case !usedAddr[a.Unmap()]:
			or = fail("glue/server-without-accepted-glue", "addr=%s", a)
		}
	}
	tags := ""
	if len(extras) >= 1 && len(hosts) >= 1 {
		tags = "nt"
	}
	return vlib.Res{Impl: impl, Oracle: or, Tags: tags}
}

func execUsable(f []string) vlib.Res {
	ip := ipOf(f[2])
	a, ok := resolver.VerifC07UsableAddr(ip)
	impl := "rej"
	or := "ok"
	if ok {
		impl = "ok " + addrHex(a)
		if oLoopback(a) {
			or = fail("usable/accepted-loopback", "%s", a)
		} else if ownIfaces[a.Unmap()] {
			or = fail("usable/accepted-local-interface", "%s", a)
		}
	}
	return vlib.Res{Impl: impl, Oracle: or, Tags: "nt"}
}

// ---------------------------------------------------------------- referral

type nsrr struct {
	kind, owner, target string
	class               uint16
	ttl                 uint32
}

func parseNsSection(s string) ([]nsrr, []dns.RR) {
	var out []nsrr
	var rrs []dns.RR
	for _, e := range splitList(s, ";") {
		p := strings.Split(e, "/")
		x := nsrr{kind: p[0]}
		switch p[0] {
		case "N":
			x.owner, x.class, x.ttl, x.target = p[1], uint16(vlib.Atoi(p[2])), uint32(vlib.Atoi(p[3])), p[4]
			rrs = append(rrs, &dns.NS{Hdr: dns.RR_Header{Name: x.owner, Rrtype: dns.TypeNS, Class: x.class, Ttl: x.ttl}, Ns: x.target})
		case "S":
			rrs = append(rrs, &dns.SOA{Hdr: dns.RR_Header{Name: "soa.", Rrtype: dns.TypeSOA, Class: dns.ClassINET, Ttl: 5}, Ns: "a.", Mbox: "b."})
		case "R":
			rrs = append(rrs, &dns.RRSIG{Hdr: dns.RR_Header{Name: "sig.", Rrtype: dns.TypeRRSIG, Class: dns.ClassINET, Ttl: 5}, TypeCovered: dns.TypeNS, SignerName: "sig."})
		case "C":
			rrs = append(rrs, &dns.NSEC{Hdr: dns.RR_Header{Name: "nsec.", Rrtype: dns.TypeNSEC, Class: dns.ClassINET, Ttl: 5}, NextDomain: "z."})
		case "3":
			rrs = append(rrs, &dns.NSEC3{Hdr: dns.RR_Header{Name: "nsec3.", Rrtype: dns.TypeNSEC3, Class: dns.ClassINET, Ttl: 5}})
		case "D":
			rrs = append(rrs, &dns.DS{Hdr: dns.RR_Header{Name: "ds.", Rrtype: dns.TypeDS, Class: dns.ClassINET, Ttl: 5}})
		default: // "O": an address record in the authority section
			x.owner = p[1]
			rrs = append(rrs, &dns.A{Hdr: dns.RR_Header{Name: x.owner, Rrtype: dns.TypeA, Class: dns.ClassINET, Ttl: 5}, A: net.IPv4(198, 18, 0, 1)})
		}
		out = append(out, x)
	}
	return out, rrs
}

func referralOracle(kind, owner, authZone, qname string) string {
	la, lo := len(oLabels(authZone)), len(oLabels(owner))
	if !oInside(authZone, owner) || lo <= la {
		why := "sideways"
		switch {
		case oInside(authZone, owner) && lo == la:
			why = "self"
		case oInside(owner, authZone):
			why = "upward"
		}
		return fail(kind+"/accepted-not-strictly-below-asked-zone/"+why, "referral=%s asked=%s", owner, authZone)
	}
	if !oInside(owner, qname) {
		return fail(kind+"/accepted-off-path", "referral=%s qname=%s", owner, qname)
	}
	return "ok"
}

func execRefRun(f []string) vlib.Res {
	authZone, qname := f[2], f[3]
	q := dns.Question{Name: qname, Qtype: uint16(vlib.Atoi(f[4])), Qclass: uint16(vlib.Atoi(f[5]))}
	abs, rrs := parseNsSection(f[6])
	resp := new(dns.Msg)
	resp.Question = []dns.Question{q}
	resp.Ns = rrs
	info := resolver.VerifC07Extract(resp)
	valid := resolver.VerifC07ValidReferral(resp, authZone, q)
	prog := "-"
	owner := "-"
	if info.HasNS {
		owner = info.Owner
		prog = vlib.B(resolver.VerifC07Progressing(info.Owner, authZone, qname))
	}
	filt := resolver.VerifC07FilterAuthority(rrs)
	var kept []string
	j := 0
	for i, rr := range rrs {
		if j < len(filt) && filt[j] == rr {
			kept = append(kept, fmt.Sprint(i))
			j++
		}
	}
	if j != len(filt) {
		kept = append(kept, "extra")
	}
	impl := fmt.Sprintf("ns=%s cls=%d ttl=%d hosts=%s soa=%s inc=%s prog=%s valid=%s filt=%s", owner, info.Class, info.TTL,
		listOrDash(info.Hosts), vlib.B(info.HasSOA), vlib.B(info.Incoherent), prog, vlib.B(valid), listOrDash(kept))

	or := "ok"
	// hosts may only come from NS records of the anchoring owner/class
	var first *nsrr
	okHost := map[string]bool{}
	minTTL := uint32(0)
	mixed := false
	for i := range abs {
		x := &abs[i]
		if x.kind != "N" {
			continue
		}
		if first == nil {
			first = x
			minTTL = x.ttl
		}
		if strings.ToLower(x.owner) == strings.ToLower(first.owner) && x.class == first.class {
			okHost[strings.ToLower(x.target)] = true
			if x.ttl < minTTL {
				minTTL = x.ttl
			}
		} else {
			mixed = true
		}
	}
	for _, h := range info.Hosts {
		if !okHost[h] {
			or = fail("ref/host-from-foreign-ns-record", "host=%s", h)
		}
	}
	if info.HasNS && info.TTL > minTTL {
		or = fail("ref/lease-longer-than-min-ttl", "got=%d min=%d", info.TTL, minTTL)
	}
	for i, rr := range rrs {
		keep := false
		for _, k := range filt {
			if k == rr {
				keep = true
			}
		}
		if keep && (abs[i].kind == "N" || abs[i].kind == "O" || abs[i].kind == "D") {
			or = fail("ref/negative-authority-kept-non-proof-record", "idx=%d kind=%s", i, abs[i].kind)
		}
	}
	if valid {
		switch {
		case first == nil:
			or = fail("ref/accepted-without-ns", "")
		case mixed:
			or = fail("ref/accepted-mixed-owner-or-class", "")
		case first.class != q.Qclass:
			or = fail("ref/accepted-wrong-class", "ns=%d q=%d", first.class, q.Qclass)
		default:
			if o := referralOracle("ref", first.owner, authZone, qname); o != "ok" {
				or = o
			}
		}
	}
	tags := ""
	if first != nil {
		tags = "nt"
	}
	return vlib.Res{Impl: impl, Oracle: or, Tags: tags}
}

func execProgRun(f []string) vlib.Res {
	got := resolver.VerifC07Progressing(f[2], f[3], f[4])
	or := "ok"
	if got {
		or = referralOracle("prog", f[2], f[3], f[4])
	}
	return vlib.Res{Impl: vlib.B(got), Oracle: or, Tags: "nt"}
}

// ---------------------------------------------------------------- cache filter / section clearing

func execCachef(f []string) vlib.Res {
	qname := f[2]
	res := new(dns.Msg)
	res.Question = []dns.Question{{Name: qname, Qtype: dns.TypeA, Qclass: dns.ClassINET}}
	type ar struct {
		owner   string
		typ     uint16
		covered uint16
	}
	var abs []ar
	for _, e := range splitList(f[3], ";") {
		p := strings.Split(e, "/")
		a := ar{p[0], uint16(vlib.Atoi(p[1])), uint16(vlib.Atoi(p[2]))}
		abs = append(abs, a)
		hdr := dns.RR_Header{Name: a.owner, Rrtype: a.typ, Class: dns.ClassINET, Ttl: 30}
		switch a.typ {
		case dns.TypeRRSIG:
			res.Answer = append(res.Answer, &dns.RRSIG{Hdr: hdr, TypeCovered: a.covered, SignerName: "s."})
		case dns.TypeDNAME:
			res.Answer = append(res.Answer, &dns.DNAME{Hdr: hdr, Target: "t."})
		case dns.TypeCNAME:
			tgt := "t."
			if len(p) > 3 {
				tgt = p[3]
			}
			res.Answer = append(res.Answer, &dns.CNAME{Hdr: hdr, Target: tgt})
		case dns.TypeA:
			res.Answer = append(res.Answer, &dns.A{Hdr: hdr, A: net.IPv4(198, 18, 0, 2)})
		default:
			res.Answer = append(res.Answer, &dns.RFC3597{Hdr: hdr, Rdata: ""})
		}
	}
	orig := append([]dns.RR(nil), res.Answer...)
	out := cache.VerifC07FilterCacheableAnswer(res)
	var kept []string
	or := "ok"
	j := 0
	for i, rr := range orig {
		if j < len(out.Answer) && out.Answer[j] == rr {
			kept = append(kept, fmt.Sprint(i))
			j++
			a := abs[i]
			if !(strings.ToLower(a.owner) == strings.ToLower(qname) || a.typ == dns.TypeDNAME || (a.typ == dns.TypeRRSIG && a.covered == dns.TypeDNAME)) {
				or = fail("cachef/kept-record-of-foreign-owner", "q=%s owner=%s type=%d", qname, a.owner, a.typ)
			}
		}
	}
	if j != len(out.Answer) {
		or = fail("cachef/invented-or-reordered-records", "")
	}
	if len(res.Answer) != len(orig) {
		or = fail("cachef/input-mutated", "")
	}
	tags := ""
	if len(abs) >= 2 {
		tags = "nt"
	}
	return vlib.Res{Impl: "keep=" + listOrDash(kept), Oracle: or, Tags: tags}
}

// execRelay: dnsutil.FilterRRsToZone exactly as Resolver.answer applies it to
// the upstream's answer section (zone = the zone whose servers were asked).
func execRelay(f []string) vlib.Res {
	zone := f[2]
	var owners []string
	var rrs []dns.RR
	for _, e := range splitList(f[3], ";") {
		p := strings.Split(e, "/")
		typ := uint16(vlib.Atoi(p[1]))
		owners = append(owners, p[0])
		hdr := dns.RR_Header{Name: p[0], Rrtype: typ, Class: dns.ClassINET, Ttl: 30}
		switch typ {
		case dns.TypeRRSIG:
			rrs = append(rrs, &dns.RRSIG{Hdr: hdr, TypeCovered: uint16(vlib.Atoi(p[2])), SignerName: "s."})
		case dns.TypeDNAME:
			rrs = append(rrs, &dns.DNAME{Hdr: hdr, Target: "t."})
		case dns.TypeCNAME:
			rrs = append(rrs, &dns.CNAME{Hdr: hdr, Target: "www.victim.test."})
		case dns.TypeNS:
			rrs = append(rrs, &dns.NS{Hdr: hdr, Ns: "ns.evil.test."})
		case dns.TypeA:
			rrs = append(rrs, &dns.A{Hdr: hdr, A: net.IPv4(198, 18, 66, 66)})
		default:
			rrs = append(rrs, &dns.RFC3597{Hdr: hdr, Rdata: ""})
		}
	}
	out := dnsutil.FilterRRsToZone(rrs, zone)
	var kept []string
	or := "ok"
	j := 0
	for i, rr := range rrs {
		if j < len(out) && out[j] == rr {
			kept = append(kept, fmt.Sprint(i))
			j++
			if !oInside(zone, owners[i]) {
				or = fail("relay/kept-record-owned-outside-asked-zone", "zone=%s owner=%s", zone, owners[i])
			}
		}
	}
	if j != len(out) {
		or = fail("relay/invented-or-reordered-records", "")
	}
	tags := ""
	if len(rrs) >= 2 {
		tags = "nt"
	}
	return vlib.Res{Impl: "keep=" + listOrDash(kept), Oracle: or, Tags: tags}
}

// ---------------------------------------------------------------- searchAddrs

func execNsAddr(f []string) vlib.Res {
	msg := new(dns.Msg)
	type ar struct {
		typ string
		ip  net.IP
	}
	var abs []ar
	for _, e := range splitList(f[2], ";") {
		p := strings.Split(e, "/")
		a := ar{p[1], ipOf(p[2])}
		abs = append(abs, a)
		hdr := dns.RR_Header{Name: p[0], Class: dns.ClassINET, Ttl: 60}
		switch a.typ {
		case "A":
			hdr.Rrtype = dns.TypeA
			msg.Answer = append(msg.Answer, &dns.A{Hdr: hdr, A: a.ip})
		case "AAAA":
			hdr.Rrtype = dns.TypeAAAA
			msg.Answer = append(msg.Answer, &dns.AAAA{Hdr: hdr, AAAA: a.ip})
		default:
			hdr.Rrtype = dns.TypeCNAME
			msg.Answer = append(msg.Answer, &dns.CNAME{Hdr: hdr, Target: "t."})
		}
	}
	addrs, found := resolver.VerifC07SearchAddrs(msg)
	var hs []string
	or := "ok"
	for _, a := range addrs {
		hs = append(hs, addrHex(a))
		from := false
		for _, x := range abs {
			if ad, ok := netip.AddrFromSlice(x.ip); ok && ad.Unmap() == a && x.typ != "X" {
				from = true
			}
		}
		switch {
		case oLoopback(a):
			or = fail("nsaddr/took-loopback", "%s", a)
		case ownIfaces[a.Unmap()]:
			or = fail("nsaddr/took-local-interface", "%s", a)
		case !from:
			or = fail("nsaddr/address-not-in-any-record", "%s", a)
		}
	}
	if found != (len(addrs) > 0) {
		or = fail("nsaddr/found-flag-disagrees", "")
	}
	return vlib.Res{Impl: "addrs=" + listOrDash(hs), Oracle: or, Tags: "nt"}
}

// ---------------------------------------------------------------- referral glue, then the NS-address lookup

type nsSubQueryer struct {
	kind  string // F = error, R = response
	rcode int
	rrs   []dns.RR
	asked int
}

func (q *nsSubQueryer) Query(ctx context.Context, req *dns.Msg) (*dns.Msg, error) {
	q.asked++
	if q.kind == "F" {
		return nil, errors.New("sub-pipeline failed")
	}
	m := new(dns.Msg)
	m.SetReply(req)
	m.Rcode = q.rcode
	m.Answer = q.rrs
	return m, nil
}

func addrRRs(s, sep string) ([]dns.RR, []gextra) {
	var rrs []dns.RR
	var abs []gextra
	for _, e := range splitList(s, sep) {
		p := strings.Split(e, "/")
		g := gextra{owner: p[0], typ: p[1], ip: ipOf(p[2])}
		abs = append(abs, g)
		hdr := dns.RR_Header{Name: g.owner, Class: dns.ClassINET, Ttl: 60}
		switch g.typ {
		case "A":
			hdr.Rrtype = dns.TypeA
			rrs = append(rrs, &dns.A{Hdr: hdr, A: g.ip})
		case "AAAA":
			hdr.Rrtype = dns.TypeAAAA
			rrs = append(rrs, &dns.AAAA{Hdr: hdr, AAAA: g.ip})
		default:
			hdr.Rrtype = dns.TypeTXT
			rrs = append(rrs, &dns.TXT{Hdr: hdr, Txt: []string{"x"}})
		}
	}
	return rrs, abs
}

// nslookup run <ipv6 t|f> <level> <qname> <hosts|-> <extras|-> <host> <v6lookup t|f> <sub: F | R<rcode>:<rr+rr…|->>
func execNsLookup(f []string) vlib.Res {
	ipv6 := f[2] == "t"
	level := vlib.Atoi(f[3])
	qname := f[4]
	hosts := splitList(f[5], ",")
	resp := new(dns.Msg)
	resp.Question = []dns.Question{{Name: qname, Qtype: dns.TypeA, Qclass: dns.ClassINET}}
	extraRRs, extras := addrRRs(f[6], ";")
	resp.Extra = extraRRs
	host := f[7]
	v6lookup := f[8] == "t"
	sub := &nsSubQueryer{kind: f[9][:1]}
	var subAbs []gextra
	if sub.kind == "R" {
		rc, rrs, _ := strings.Cut(f[9][1:], ":")
		sub.rcode = vlib.Atoi(rc)
		sub.rrs, subAbs = addrRRs(rrs, "+")
	}
	addrs, err := resolver.VerifC07GlueThenLookup(context.Background(), resp, hosts, level, ipv6, host, v6lookup, sub)
	var hs []string
	for _, a := range addrs {
		hs = append(hs, addrHex(a))
	}
	impl := "addrs=" + listOrDash(hs)
	if err != nil {
		impl = "err"
	}
	// oracle: every address is in-bailiwick glue of the referral for exactly this host, or a usable address of the
	// host's own lookup; never loopback / local
	or := "ok"
	inSet := false
	for _, h := range hosts {
		if strings.EqualFold(h, host) {
			inSet = true
		}
	}
	for _, a := range addrs {
		from := false
		for _, e := range extras {
			if ad, ok := netip.AddrFromSlice(e.ip); ok && ad.Unmap() == a && strings.EqualFold(e.owner, host) && inSet &&
				oShared(e.owner, qname) >= level && ((e.typ == "A" && !v6lookup) || (e.typ == "AAAA" && v6lookup && ipv6)) {
				from = true
			}
		}
		for _, e := range subAbs {
			if ad, ok := netip.AddrFromSlice(e.ip); ok && ad.Unmap() == a && e.typ != "X" && sub.asked > 0 {
				from = true
			}
		}
		switch {
		case oLoopback(a):
			or = fail("nslookup/loopback-address", "%s", a)
		case ownIfaces[a.Unmap()]:
			or = fail("nslookup/local-interface-address", "%s", a)
		case !from:
			or = fail("nslookup/address-from-neither-accepted-glue-nor-own-lookup", "host=%s addr=%s", host, a)
		}
	}
	tags := "nt,nslookup"
	if sub.asked == 0 {
		tags += ",nslookup-cached"
	}
	return vlib.Res{Impl: impl, Oracle: or, Tags: tags}
}

// ---------------------------------------------------------------- processDelegation over a history of referrals

type delegQueryer struct{ subs map[string]*nsSubQueryer }

func (q *delegQueryer) Query(ctx context.Context, req *dns.Msg) (*dns.Msg, error) {
	if s, ok := q.subs[strings.ToLower(req.Question[0].Name)]; ok {
		return s.Query(ctx, req)
	}
	return nil, errors.New("sub-pipeline failed")
}

var (
	delegCur   *resolver.VerifC07Deleg
	delegQ     *delegQueryer
	delegNames map[string]bool
)

// deleg new
// deleg ref <authZone> <level> <qname> <qclass> <ns section> <extras|-> <subs|->     subs: host=F | host=R:<rr+rr…|->  separated by '|'
func execDeleg(f []string) vlib.Res {
	if f[1] == "new" {
		delegQ = &delegQueryer{subs: map[string]*nsSubQueryer{}}
		delegCur = resolver.VerifC07NewDeleg(delegQ)
		delegNames = map[string]bool{}
		delegSeen = map[string]bool{}
		return vlib.Res{Impl: "ok", Oracle: "-"}
	}
	if delegCur == nil {
		return vlib.Res{Impl: "no-case", Oracle: "-"}
	}
	authZone, level, qname := f[2], vlib.Atoi(f[3]), f[4]
	q := dns.Question{Name: qname, Qtype: dns.TypeA, Qclass: uint16(vlib.Atoi(f[5]))}
	abs, rrs := parseNsSection(f[6])
	resp := new(dns.Msg)
	resp.Question = []dns.Question{q}
	resp.Ns = rrs
	extraRRs, extras := addrRRs(f[7], ";")
	resp.Extra = extraRRs
	delegQ.subs = map[string]*nsSubQueryer{}
	subAbs := map[string][]gextra{}
	for _, e := range splitList(f[8], "|") {
		name, val, _ := strings.Cut(e, "=")
		s := &nsSubQueryer{kind: val[:1]}
		if s.kind == "R" {
			var a []gextra
			s.rrs, a = addrRRs(strings.TrimPrefix(val[1:], ":"), "+")
			subAbs[strings.ToLower(name)] = a
		}
		if _, dup := delegQ.subs[strings.ToLower(name)]; !dup {
			delegQ.subs[strings.ToLower(name)] = s
		}
	}
	for _, x := range abs {
		if x.kind == "N" {
			delegNames[strings.ToLower(x.target)] = true
		}
	}
	for _, e := range extras {
		delegNames[strings.ToLower(e.owner)] = true
	}
	res := delegCur.Process(context.Background(), authZone, level, q, resp)
	var ds, gs []string
	dm := delegCur.Delegations()
	or := "ok"
	var zones []string
	for z := range dm {
		zones = append(zones, z)
	}
	sort.Slice(zones, func(i, j int) bool { return strings.ToLower(zones[i]) < strings.ToLower(zones[j]) })
	good := func(where string, a netip.Addr) {
		if oLoopback(a) {
			or = fail("deleg/"+where+"-holds-loopback", "%s", a)
		} else if ownIfaces[a.Unmap()] {
			or = fail("deleg/"+where+"-holds-local-interface-address", "%s", a)
		}
	}
	for _, z := range zones {
		var hs []string
		for _, a := range dm[z] {
			ap, err := netip.ParseAddrPort(a)
			if err != nil {
				hs = append(hs, "bad:"+a)
				continue
			}
			hs = append(hs, addrHex(ap.Addr()))
			good("delegation", ap.Addr())
		}
		sort.Strings(hs)
		ds = append(ds, strings.ToLower(z)+"="+strings.Join(hs, "+"))
	}
	var names []string
	for n := range delegNames {
		names = append(names, n)
	}
	sort.Strings(names)
	for _, n := range names {
		if as := delegCur.Glue(n); len(as) > 0 {
			var hs []string
			for _, a := range as {
				hs = append(hs, addrHex(a))
				good("glue-cache", a)
			}
			gs = append(gs, n+"="+strings.Join(hs, "+"))
		}
	}
	// the delegation this referral stored (if it is new) must be strictly below the zone asked and on the path
	var first *nsrr
	for i := range abs {
		if abs[i].kind == "N" {
			first = &abs[i]
			break
		}
	}
	if first != nil && or == "ok" {
		if _, stored := dm[first.owner]; stored && (res == "maxdepth" || res == "nil") {
			if o := referralOracle("deleg", first.owner, authZone, qname); o != "ok" && !delegSeen[strings.ToLower(first.owner)] {
				or = o
			}
		}
	}
	for z := range dm {
		delegSeen[strings.ToLower(z)] = true
	}
	return vlib.Res{Impl: fmt.Sprintf("res=%s d=%s g=%s", res, listOrDash(ds), listOrDash(gs)), Oracle: or, Tags: "nt,deleg,deleg-" + res}
}

var delegSeen = map[string]bool{}

// ---------------------------------------------------------------- pickFallbackResponse (what lookup hands back when nobody won)

// fallback run <response-error rcodes|-> <number of invalid referrals> <fatal kinds|->     fatal: w a n (work limit, attempt limit, network)
func execFallback(f []string) vlib.Res {
	var resps, cfgs []*dns.Msg
	for i, rc := range splitList(f[2], ",") {
		m := new(dns.Msg)
		m.Rcode = vlib.Atoi(rc)
		m.Id = uint16(1000 + i)
		resps = append(resps, m)
	}
	for i := 0; i < vlib.Atoi(f[3]); i++ {
		m := new(dns.Msg)
		m.Id = uint16(2000 + i)
		m.Ns = []dns.RR{&dns.NS{Hdr: dns.RR_Header{Name: "victim.test.", Rrtype: dns.TypeNS, Class: dns.ClassINET, Ttl: 60}, Ns: "ns.evil.test."}}
		cfgs = append(cfgs, m)
	}
	fatal := ""
	if f[4] != "-" {
		fatal = f[4]
	}
	m, e := resolver.VerifC07PickFallback(resps, cfgs, fatal)
	impl := "err " + e
	or := "ok"
	if e == "" {
		switch {
		case m == nil:
			impl = "nil"
		case m.Id >= 2000:
			impl = fmt.Sprintf("config %d", m.Id-2000)
			// an invalid referral is the last resort among messages: only when no authority sent a proper negative reply
			if len(resps) > 0 {
				or = fail("fallback/invalid-referral-preferred-to-a-response", "responses=%s", f[2])
			}
		default:
			impl = fmt.Sprintf("resp %d", m.Id-1000)
		}
	}
	return vlib.Res{Impl: impl, Oracle: or, Tags: "nt,fallback"}
}

// ---------------------------------------------------------------- the alias chase (Cache.additionalAnswer)

type chRR struct {
	owner  string
	typ    uint16
	target string
}

func parseChRRs(s, sep string) []chRR {
	var out []chRR
	for _, e := range splitList(s, sep) {
		p := strings.Split(e, "/")
		r := chRR{owner: p[0], typ: uint16(vlib.Atoi(p[1]))}
		if len(p) > 2 {
			r.target = p[2]
		}
		out = append(out, r)
	}
	return out
}

func (r chRR) rr(serial int) dns.RR {
	hdr := dns.RR_Header{Name: r.owner, Rrtype: r.typ, Class: dns.ClassINET, Ttl: 60}
	switch r.typ {
	case dns.TypeCNAME:
		return &dns.CNAME{Hdr: hdr, Target: r.target}
	case dns.TypeA:
		return &dns.A{Hdr: hdr, A: net.IPv4(198, 18, 9, byte(serial))}
	case dns.TypeAAAA:
		return &dns.AAAA{Hdr: hdr, AAAA: net.ParseIP("2001:db8::1")}
	case dns.TypeTXT:
		return &dns.TXT{Hdr: hdr, Txt: []string{"t"}}
	case dns.TypeDNAME:
		return &dns.DNAME{Hdr: hdr, Target: "t."}
	}
	return &dns.RFC3597{Hdr: hdr, Rdata: ""}
}

func chText(rr dns.RR) string {
	h := rr.Header()
	if c, ok := rr.(*dns.CNAME); ok {
		return fmt.Sprintf("%s/%d/%s", h.Name, h.Rrtype, c.Target)
	}
	return fmt.Sprintf("%s/%d", h.Name, h.Rrtype)
}

type chaseSub struct {
	kind   string // L limit, F fail, R response
	rcode  int
	ns     int
	answer []chRR
}

type chaseQueryer struct {
	script map[string]chaseSub
	asked  []string
	qtypes []uint16
	rd     []bool
}

func (q *chaseQueryer) Query(ctx context.Context, req *dns.Msg) (*dns.Msg, error) {
	name := req.Question[0].Name
	q.asked = append(q.asked, name)
	q.qtypes = append(q.qtypes, req.Question[0].Qtype)
	q.rd = append(q.rd, req.RecursionDesired)
	sub, ok := q.script[name]
	if !ok || sub.kind == "F" {
		return nil, errors.New("sub-pipeline failed")
	}
	if sub.kind == "L" {
		return nil, middleware.ErrRecursionWorkLimit
	}
	m := new(dns.Msg)
	m.SetReply(req)
	m.Rcode = sub.rcode
	for i, r := range sub.answer {
		m.Answer = append(m.Answer, r.rr(100+i))
	}
	for i := 0; i < sub.ns; i++ {
		m.Ns = append(m.Ns, &dns.NS{Hdr: dns.RR_Header{Name: "zone.", Rrtype: dns.TypeNS, Class: dns.ClassINET, Ttl: 60}, Ns: fmt.Sprintf("ns%d.zone.", i)})
	}
	return m, nil
}

// chase run <qname> <qtype> <rcode> <answer|-> <script|->
// script: target=L | target=F | target=R<rcode>:<ns>:<rr+rr+...>   entries separated by ';'
func execChase(f []string) vlib.Res {
	qname := f[2]
	qtype := uint16(vlib.Atoi(f[3]))
	msg := new(dns.Msg)
	msg.SetQuestion(qname, qtype)
	msg.Response = true
	msg.Rcode = vlib.Atoi(f[4])
	orig := parseChRRs(f[5], ";")
	for i, r := range orig {
		msg.Answer = append(msg.Answer, r.rr(i))
	}
	qy := &chaseQueryer{script: map[string]chaseSub{}}
	for _, e := range splitList(f[6], ";") {
		name, val, _ := strings.Cut(e, "=")
		sub := chaseSub{kind: val[:1]}
		if sub.kind == "R" {
			p := strings.SplitN(val[1:], ":", 3)
			sub.rcode, sub.ns = vlib.Atoi(p[0]), vlib.Atoi(p[1])
			if len(p) > 2 {
				sub.answer = parseChRRs(p[2], "+")
			}
		}
		if _, dup := qy.script[name]; !dup {
			qy.script[name] = sub // the first entry for a target counts
		}
	}
	out := cache.VerifC07AdditionalAnswer(context.Background(), qy, msg)
	var an []string
	for _, rr := range out.Answer {
		an = append(an, chText(rr))
	}
	impl := fmt.Sprintf("rcode=%d an=%s asked=%s", out.Rcode, listOrDash(an), listOrDash(qy.asked))

	// oracle: provenance of every answer record and of every sub-query
	or := "ok"
	have := map[string]bool{}
	aliasTargets := map[string]bool{}
	note := func(rs []chRR) {
		for _, r := range rs {
			if r.typ == dns.TypeCNAME {
				have[fmt.Sprintf("%s/%d/%s", r.owner, r.typ, r.target)] = true
				aliasTargets[r.target] = true
			} else {
				have[fmt.Sprintf("%s/%d", r.owner, r.typ)] = true
			}
		}
	}
	note(orig)
	seen := map[string]bool{}
	for i, t := range qy.asked {
		switch {
		case !aliasTargets[t]:
			or = fail("chase/asked-a-name-that-is-no-alias-target", "%s", t)
		case seen[t]:
			or = fail("chase/asked-a-target-twice", "%s", t)
		case t == qname:
			or = fail("chase/asked-its-own-question", "%s", t)
		case qy.qtypes[i] != qtype:
			or = fail("chase/asked-another-type", "%d", qy.qtypes[i])
		case !qy.rd[i]:
			or = fail("chase/sub-query-without-rd", "%s", t)
		}
		seen[t] = true
		if sub, ok := qy.script[t]; ok && sub.kind == "R" {
			note(sub.answer)
		}
	}
	if len(qy.asked) > 10 {
		or = fail("chase/more-than-ten-sub-queries", "%d", len(qy.asked))
	}
	for _, a := range an {
		if !have[a] {
			or = fail("chase/answer-record-of-unknown-provenance", "%s", a)
		}
	}
	tags := ""
	if len(qy.asked) > 0 {
		tags = fmt.Sprintf("nt,chase%d", len(qy.asked))
	}
	return vlib.Res{Impl: impl, Oracle: or, Tags: tags}
}

func execClr(f []string) vlib.Res {
	req := new(dns.Msg)
	req.SetQuestion("q.test.", dns.TypeA)
	if f[2] == "t" {
		req.SetEdns0(1232, true)
	}
	resp := new(dns.Msg)
	resp.SetReply(req)
	resp.Answer = []dns.RR{&dns.A{Hdr: dns.RR_Header{Name: "q.test.", Rrtype: dns.TypeA, Class: dns.ClassINET, Ttl: 5}, A: net.IPv4(198, 18, 0, 3)}}
	for i := 0; i < vlib.Atoi(f[4]); i++ {
		resp.Ns = append(resp.Ns, &dns.NS{Hdr: dns.RR_Header{Name: "victim.test.", Rrtype: dns.TypeNS, Class: dns.ClassINET, Ttl: 5}, Ns: "ns.evil.test."})
	}
	for i := 0; i < vlib.Atoi(f[5]); i++ {
		resp.Extra = append(resp.Extra, &dns.A{Hdr: dns.RR_Header{Name: "www.victim.test.", Rrtype: dns.TypeA, Class: dns.ClassINET, Ttl: 5}, A: net.IPv4(198, 18, 66, 66)})
	}
	var out *dns.Msg
	switch f[3] {
	case "-":
		out = resolver.VerifC07ClearAdditional(req, resp)
	case "t":
		out = resolver.VerifC07ClearAdditional(req, resp, true)
	default:
		out = resolver.VerifC07ClearAdditional(req, resp, false)
	}
	nonOpt := 0
	opt := false
	for _, rr := range out.Extra {
		if rr.Header().Rrtype == dns.TypeOPT {
			opt = true
		} else {
			nonOpt++
		}
	}
	or := "ok"
	if len(out.Ns) != 0 {
		or = fail("clr/authority-kept-on-positive-answer", "n=%d", len(out.Ns))
	}
	if f[3] != "t" && nonOpt != 0 {
		or = fail("clr/additional-kept-on-positive-answer", "n=%d", nonOpt)
	}
	return vlib.Res{Impl: fmt.Sprintf("ns=%d extra=%d opt=%s ans=%d", len(out.Ns), nonOpt, vlib.B(opt), len(out.Answer)), Oracle: or, Tags: "nt"}
}
