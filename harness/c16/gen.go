//go:build verif

package main

import (
	"fmt"

	"github.com/semihalev/sdns/internal/cache"
	"github.com/semihalev/sdns/internal/verif/vlib"
)

// Every random choice comes from r. The generator reads the driver's own
// state (reference maps, raw slot layout, recorded victims) between ops: emit
// executes the op synchronously, and the implementation is deterministic, so
// a run replays exactly from its seed.

const (
	hugeA = uint64(1) << 63
	hugeB = ^uint64(0)
)

// candidate key for the brute-force searches: random 64-bit, small, or a
// random number of leading zero bits.
func cand(r *vlib.R) uint64 {
	switch r.Intn(3) {
	case 0:
		return r.U64()
	case 1:
		return uint64(r.Intn(5000)) + 1
	}
	return r.U64() >> uint(r.Intn(60))
}

// search draws candidates until want of them satisfy ok (distinct, non-zero,
// not yet used); gives up after a bounded number of tries.
func search(r *vlib.R, used map[uint64]bool, want, tries int, ok func(k uint64) bool) []uint64 {
	var out []uint64
	for i := 0; i < tries && len(out) < want; i++ {
		k := cand(r)
		if k == 0 || used[k] || !ok(k) {
			continue
		}
		used[k] = true
		out = append(out, k)
	}
	return out
}

func val(r *vlib.R) uint64 {
	switch r.Intn(12) {
	case 0:
		return 0
	case 1:
		return hugeB
	}
	return uint64(r.Intn(100000))
}

type keyPool struct {
	cluster []uint64 // same primary slot (and same segment where there are segments)
	neigh   []uint64 // adjacent primary slots / same segment
	other   []uint64 // sequential, random, huge
	all     []uint64
}

func (p *keyPool) finish() {
	p.all = append(append(append([]uint64{0}, p.cluster...), p.neigh...), p.other...)
}

// pick: zero key ~10%, cluster 45%, neighbours 20%, others 25%.
func (p *keyPool) pick(r *vlib.R) uint64 {
	x := r.Intn(100)
	switch {
	case x < 10:
		return 0
	case x < 55 && len(p.cluster) > 0:
		return vlib.Pick(r, p.cluster)
	case x < 75 && len(p.neigh) > 0:
		return vlib.Pick(r, p.neigh)
	case len(p.other) > 0:
		return vlib.Pick(r, p.other)
	}
	return vlib.Pick(r, p.all)
}

func presentKeys(ref map[uint64]uint64) []uint64 { return sortedKeysU(ref) }

func pickPresent(r *vlib.R, ref map[uint64]uint64, p *keyPool) uint64 {
	ks := presentKeys(ref)
	if len(ks) == 0 {
		return p.pick(r)
	}
	return vlib.Pick(r, ks)
}

func pickAbsent(r *vlib.R, ref map[uint64]uint64, p *keyPool) uint64 {
	for i := 0; i < 8; i++ {
		k := vlib.Pick(r, p.all)
		if _, in := ref[k]; !in {
			return k
		}
	}
	return cand(r) | hugeA
}

// ---------------------------------------------------------------- umap

// umapPool builds the key pool of a umap case with the REAL index function,
// on a scratch map of the same length n and one of the doubled length.
func umapPool(r *vlib.R, capv int) (*keyPool, int) {
	s1 := cache.NewUInt64Map[uint64](capv)
	s2 := cache.NewUInt64Map[uint64](capv)
	cache.VerifUMapGrow(s2)
	n := cache.VerifUMapDataLen(s1)
	idx1 := func(k uint64) int { return cache.VerifPrimaryIndex(s1, k) }
	idx2 := func(k uint64) int { return cache.VerifPrimaryIndex(s2, k) }
	t := vlib.Pick(r, []int{n - 1, n - 1, n - 2, 0, 1, r.Intn(n)})
	t2 := t
	if r.Bool() {
		t2 = t + n
	}
	used := map[uint64]bool{}
	p := &keyPool{}
	cs := r.Range(3, 7)
	stay := r.Range(1, cs) // these also collide in the doubled table
	p.cluster = search(r, used, stay, 400000, func(k uint64) bool { return idx2(k) == t2 })
	p.cluster = append(p.cluster, search(r, used, cs-len(p.cluster), 400000, func(k uint64) bool { return idx1(k) == t })...)
	for _, d := range []int{1, 2, n - 1} {
		w := (t + d) % n
		p.neigh = append(p.neigh, search(r, used, r.Range(1, 2), 200000, func(k uint64) bool { return idx1(k) == w })...)
	}
	if r.Bool() { // a second cluster right behind the first: overlapping runs
		w := (t + 1) % n
		p.neigh = append(p.neigh, search(r, used, r.Range(2, 3), 200000, func(k uint64) bool { return idx1(k) == w })...)
	}
	for k := uint64(1); k <= uint64(r.Range(3, 8)); k++ {
		if !used[k] {
			used[k] = true
			p.other = append(p.other, k)
		}
	}
	for i := 0; i < 3; i++ {
		if k := r.U64(); k != 0 && !used[k] {
			used[k] = true
			p.other = append(p.other, k)
		}
	}
	p.other = append(p.other, hugeA, hugeB)
	for _, k := range aliasFamily(r)[:6] {
		if k != 0 && !used[k] {
			used[k] = true
			p.other = append(p.other, k)
		}
	}
	p.finish()
	return p, n
}

// runStartKey picks a present key that sits at the start / in the first half
// of an occupied run of >= 2 slots (deleting it forces a backward shift).
func runStartKey(r *vlib.R, slots []uint64) (uint64, bool) {
	L := len(slots)
	type run struct{ start, n int }
	var runs []run
	for i := 0; i < L; i++ {
		if slots[i] == 0 || slots[(i-1+L)%L] != 0 {
			continue
		}
		n := 0
		for j := i; slots[j%L] != 0 && n < L; j++ {
			n++
		}
		if n >= 2 {
			runs = append(runs, run{i, n})
		}
	}
	if len(runs) == 0 {
		return 0, false
	}
	ru := vlib.Pick(r, runs)
	pos := r.Intn((ru.n + 1) / 2)
	return slots[(ru.start+pos)%L], true
}

func genUmap(r *vlib.R, emit func(string)) {
	capv := vlib.Pick(r, []int{0, 0, 0, 3, 8, 8, 8, 9, 12, 13, 24, 40})
	emit(fmt.Sprintf("umap new %d", capv))
	p, _ := umapPool(r, capv)
	put := func(k uint64) { emit(fmt.Sprintf("umap put %d %d", k, val(r))) }

	if r.Chance(1, 4) {
		// fill to the growth threshold -1 / exactly / +1 distinct non-zero
		// keys, with and without the zero key
		ga := cache.VerifUMapGrowAt(um)
		target := ga + r.Range(-1, 1)
		if r.Bool() {
			put(0)
		}
		var ks []uint64
		ks = append(append(append(ks, p.cluster...), p.neigh...), p.other...)
		for i := 0; i < target; i++ {
			if i < len(ks) {
				put(ks[i])
			} else {
				put(r.U64() | 1)
			}
		}
		emit("umap dump")
		emit("umap slots")
		if r.Bool() {
			put(0)
			emit("umap slots")
		}
	} else {
		// warm-up: the colliding keys first, so that later removals hit
		// occupied runs
		w := r.Range(2, 6)
		for i := 0; i < w; i++ {
			if i < len(p.cluster) && r.Chance(3, 4) {
				put(p.cluster[i])
			} else if len(p.neigh) > 0 {
				put(vlib.Pick(r, p.neigh))
			}
		}
	}

	nops := r.Range(30, 250)
	for i := 0; i < nops; i++ {
		removed := false
		switch x := r.Intn(100); {
		case x < 30: // put, often a re-put of a present key
			if r.Chance(1, 3) && len(uRef) > 0 {
				put(pickPresent(r, uRef, p))
			} else {
				k := p.pick(r)
				for j := 0; j < 3; j++ { // prefer a key that is not stored yet
					if _, in := uRef[k]; !in {
						break
					}
					k = p.pick(r)
				}
				put(k)
			}
		case x < 45:
			if r.Chance(2, 3) {
				emit(fmt.Sprintf("umap get %d", pickPresent(r, uRef, p)))
			} else {
				emit(fmt.Sprintf("umap get %d", p.pick(r)))
			}
		case x < 50:
			emit(fmt.Sprintf("umap has %d", p.pick(r)))
		case x < 72 && len(uRef) < 4 && r.Chance(2, 3):
			// nearly empty table: refill with a burst instead of deleting
			for j := r.Range(2, 6); j > 0; j-- {
				put(pickAbsent(r, uRef, p))
			}
		case x < 72: // del, biased to the start / middle of a run
			var k uint64
			switch y := r.Intn(10); {
			case y < 5:
				var ok bool
				if k, ok = runStartKey(r, cache.VerifUMapSlots(um)); !ok {
					k = pickPresent(r, uRef, p)
				}
			case y < 8:
				k = pickPresent(r, uRef, p)
			default:
				k = p.pick(r)
			}
			before := len(uRef)
			emit(fmt.Sprintf("umap del %d", k))
			removed = len(uRef) < before
		case x < 77:
			emit(fmt.Sprintf("umap pine %d %d", p.pick(r), val(r)))
		case x < 83: // evict
			n := cache.VerifUMapDataLen(um)
			var off uint64
			switch r.Intn(4) {
			case 0:
				off = uint64(r.Intn(n))
			case 1:
				off = uint64(n + r.Intn(3*n))
			case 2:
				off = uint64(vlib.Pick(r, []int{0, n - 1, n, n + 1, 2*n - 1}))
			default:
				off = r.U64() >> 2
			}
			var skip uint64
			switch r.Intn(3) {
			case 0:
				skip = pickPresent(r, uRef, p)
			case 1:
				skip = pickAbsent(r, uRef, p)
			}
			before := len(uRef)
			emit(fmt.Sprintf("umap evict %d %d %d", off, r.Intn(5), skip))
			removed = len(uRef) < before
		case x < 86:
			emit("umap len")
		case x < 90:
			emit("umap dump")
		case x < 95:
			emit("umap slots")
		case x < 97:
			emit(vlib.Pick(r, []string{"umap iter", "umap keys", "umap values", fmt.Sprintf("umap first %d", r.Intn(len(uRef)+2))}))
		case x < 99:
			if cache.VerifUMapDataLen(um) <= 256 {
				emit("umap grow")
			} else {
				emit("umap slots")
			}
		default:
			emit("umap clear")
		}
		if removed && r.Bool() {
			emit("umap slots")
		}
	}
	emit("umap dump")
}

// ---------------------------------------------------------------- segmap / cache

// segPool builds keys that share a segment AND a primary slot, keys of the
// same segment, keys of the following segment (where the toll spills to),
// the zero key, sequential and random keys.
func segPool[V any](r *vlib.R, m *cache.SegmentUInt64Map[V]) *keyPool {
	cnt := uint(m.SegmentCount())
	n := cache.VerifUMapDataLen(cache.VerifSegmentData(m, 0))
	seg := func(k uint64) uint { return cache.VerifSegIndex(m, k) }
	idx := func(k uint64) int { return cache.VerifPrimaryIndex(cache.VerifSegmentData(m, 0), k) }
	s := uint(r.Intn(int(cnt)))
	t := vlib.Pick(r, []int{n - 1, n - 2, 0, r.Intn(n)})
	used := map[uint64]bool{}
	p := &keyPool{}
	p.cluster = search(r, used, r.Range(3, 6), 3000000, func(k uint64) bool { return seg(k) == s && idx(k) == t })
	near := map[int]bool{(t + 1) % n: true, (t + 2) % n: true, (t + n - 1) % n: true}
	p.neigh = search(r, used, r.Range(2, 4), 1500000, func(k uint64) bool { return seg(k) == s && near[idx(k)] })
	p.neigh = append(p.neigh, search(r, used, r.Range(1, 3), 400000, func(k uint64) bool { return seg(k) == s })...)
	nx := (s + 1) % cnt
	p.neigh = append(p.neigh, search(r, used, r.Range(2, 3), 400000, func(k uint64) bool { return seg(k) == nx })...)
	for k := uint64(1); k <= uint64(r.Range(3, 8)); k++ {
		if !used[k] {
			used[k] = true
			p.other = append(p.other, k)
		}
	}
	for i := 0; i < 3; i++ {
		if k := r.U64(); k != 0 && !used[k] {
			used[k] = true
			p.other = append(p.other, k)
		}
	}
	p.other = append(p.other, hugeA, hugeB)
	for _, k := range aliasFamily(r)[:6] {
		if k != 0 && !used[k] {
			used[k] = true
			p.other = append(p.other, k)
		}
	}
	p.finish()
	return p
}

func genSegmap(r *vlib.R, emit func(string)) {
	emit(fmt.Sprintf("segmap new %d %d", r.Intn(10), vlib.Pick(r, []int{0, 0, r.Intn(201), r.Intn(201), 128, 200})))
	p := segPool(r, sm)
	capv := r.Range(1, 24)
	if r.Bool() {
		capv = r.Range(1, 7)
	}
	if r.Bool() {
		// warm-up with plain Set: SetWithCap then starts above capacity
		w := r.Range(2, 10)
		for i := 0; i < w; i++ {
			emit(fmt.Sprintf("segmap set %d %d", p.pick(r), val(r)))
		}
	}
	nops := r.Range(30, 200)
	for i := 0; i < nops; i++ {
		switch x := r.Intn(100); {
		case x < 15:
			emit(fmt.Sprintf("segmap set %d %d", p.pick(r), val(r)))
		case x < 50:
			if r.Chance(1, 20) {
				capv = max(0, capv+r.Range(-3, 3))
			}
			k := p.pick(r)
			if r.Chance(1, 4) && len(sRef) > 0 {
				k = pickPresent(r, sRef, p)
			}
			emit(fmt.Sprintf("segmap setcap %d %d %d", k, val(r), capv))
			var v []uint64
			if sPend != nil {
				v = sPend.victims
			}
			emit(fmt.Sprintf("segmap evicted %d %d %s", k, capv, joinKeys(v)))
		case x < 65:
			if r.Chance(2, 3) {
				emit(fmt.Sprintf("segmap get %d", pickPresent(r, sRef, p)))
			} else {
				emit(fmt.Sprintf("segmap get %d", p.pick(r)))
			}
		case x < 77:
			k := p.pick(r)
			if r.Chance(2, 3) {
				k = pickPresent(r, sRef, p)
			}
			emit(fmt.Sprintf("segmap del %d", k))
		case x < 80:
			emit(fmt.Sprintf("segmap has %d", p.pick(r)))
		case x < 84:
			emit(fmt.Sprintf("segmap pine %d %d", p.pick(r), val(r)))
		case x < 88:
			emit("segmap len")
		case x < 90:
			emit("segmap reach")
		case x < 91:
			emit(vlib.Pick(r, []string{"segmap keys", "segmap values", fmt.Sprintf("segmap first %d", r.Intn(len(sRef)+2))}))
		case x < 93:
			emit("segmap dump")
		case x < 94:
			// the segment of a present key, a random one, or out of range
			i := r.Intn(sm.SegmentCount() + 2)
			if r.Bool() && len(sRef) > 0 {
				i = int(cache.VerifSegIndex(sm, pickPresent(r, sRef, p)))
			}
			emit(fmt.Sprintf("segmap clearseg %d", i))
		case x < 95:
			emit("segmap clear")
		default:
			// a sweep with one write landing mid-way: insert of a fresh key,
			// update or delete of a stored one
			j := r.Intn(len(sRef) + 2)
			if r.Chance(2, 3) {
				j = r.Intn(3)
			}
			switch r.Intn(3) {
			case 0:
				emit(fmt.Sprintf("segmap sweep %d set %d %d", j, pickAbsent(r, sRef, p), val(r)))
			case 1:
				emit(fmt.Sprintf("segmap sweep %d set %d %d", j, p.pick(r), val(r)))
			default:
				emit(fmt.Sprintf("segmap sweep %d del %d 0", j, pickPresent(r, sRef, p)))
			}
		}
	}
	emit("segmap len")
	emit("segmap reach")
	emit("segmap dump")
}

// tokenFor picks the `old` token of a cas/cad: the current one 50%, one with
// the same payload but another identity 25%, random 25%.
func tokenFor(r *vlib.R, k uint64) uint64 {
	cur, ok := cRef[k]
	// the nil token (0): what a miss yields. Often on absent / removed keys,
	// sometimes on present ones (only a STORED nil may match it).
	if (!ok && r.Chance(1, 2)) || (ok && r.Chance(1, 8)) {
		return 0
	}
	x := r.Intn(4)
	switch {
	case ok && x < 2:
		return cur
	case ok && x == 2:
		var same []uint64
		for id := uint64(1); id <= 12; id++ {
			if id != cur && id%3 == cur%3 {
				same = append(same, id)
			}
		}
		return vlib.Pick(r, same)
	}
	return uint64(r.Range(1, 12))
}

func genCache(r *vlib.R, emit func(string)) {
	size := r.Range(1, 40)
	if r.Chance(1, 20) {
		size = 0
	} else if r.Chance(1, 3) {
		size = r.Range(1, 6)
	}
	emit(fmt.Sprintf("cache new %d", size))
	p := segPool(r, cache.VerifCacheSegMap(cc))
	tok := func() uint64 {
		if r.Chance(1, 10) {
			return 0 // nil value
		}
		return uint64(r.Range(1, 12))
	}
	var removed []uint64 // keys that were stored once and are gone now
	key := func() uint64 {
		x := r.Intn(10)
		if x < 5 && len(cRef) > 0 {
			return pickPresent(r, cRef, p)
		}
		if x < 7 && len(removed) > 0 {
			return vlib.Pick(r, removed)
		}
		if x == 7 {
			return 0
		}
		return p.pick(r)
	}

	nops := r.Range(30, 200)
	ever := map[uint64]bool{}
	for i := 0; i < nops; i++ {
		for _, k := range sortedKeysU(cRef) {
			ever[k] = true
		}
		removed = removed[:0]
		for _, k := range sortedKeysB(ever) {
			if _, in := cRef[k]; !in {
				removed = append(removed, k)
			}
		}
		switch x := r.Intn(100); {
		case x < 35:
			k := p.pick(r)
			if r.Chance(1, 4) && len(cRef) > 0 {
				k = pickPresent(r, cRef, p)
			}
			emit(fmt.Sprintf("cache add %d %d", k, tok()))
			var v []uint64
			if cPend != nil {
				v = cPend.victims
			}
			emit(fmt.Sprintf("cache evicted %d %s", k, joinKeys(v)))
		case x < 50:
			emit(fmt.Sprintf("cache get %d", key()))
		case x < 60:
			emit(fmt.Sprintf("cache remove %d", key()))
		case x < 75:
			k := key()
			emit(fmt.Sprintf("cache cas %d %d %d", k, tokenFor(r, k), tok()))
			if r.Chance(1, 3) {
				emit(fmt.Sprintf("cache get %d", k))
			}
		case x < 87:
			k := key()
			emit(fmt.Sprintf("cache cad %d %d", k, tokenFor(r, k)))
		case x < 91:
			emit("cache len")
		case x < 92:
			emit("cache reach")
		case x < 97:
			j := r.Intn(len(cRef) + 2)
			if r.Chance(2, 3) {
				j = r.Intn(3)
			}
			if r.Chance(2, 3) {
				emit(fmt.Sprintf("cache sweep %d add %d %d", j, pickAbsent(r, cRef, p), tok()))
			} else {
				emit(fmt.Sprintf("cache sweep %d remove %d 0", j, key()))
			}
		default:
			emit("cache dump")
		}
	}
	emit("cache len")
	emit("cache reach")
	emit("cache dump")
}

// ---------------------------------------------------------------- lim

func genLim(r *vlib.R, emit func(string)) {
	// rate 0 = burst 0 (every bucket empty from the start), 1 = one query
	// empties it, 10 = the usual case
	rate := vlib.Pick(r, []int{0, 1, 1, 10})
	emit(fmt.Sprintf("lim new %d %d", vlib.Pick(r, []int{r.Intn(7), r.Intn(7), 30, 40}), rate))
	pool := []uint64{0, 1, 2, 3, hugeB}
	pool = append(pool, aliasFamily(r)...)
	for len(pool) < 20 {
		pool = append(pool, r.U64())
	}
	spendAll := r.Chance(1, 3) // every client spends its burst right away
	nops := r.Range(20, 70)
	for i := 0; i < nops; i++ {
		switch x := r.Intn(20); {
		case x < 12:
			k := vlib.Pick(r, pool)
			emit(fmt.Sprintf("lim get %d", k))
			var v []uint64
			if lPend != nil {
				v = lPend.victims
			}
			emit(fmt.Sprintf("lim evicted %d %s", k, joinKeys(v)))
			if spendAll || r.Chance(1, 4) {
				emit(fmt.Sprintf("lim spend %d", k))
			}
		case x < 14:
			emit(fmt.Sprintf("lim has %d", vlib.Pick(r, pool)))
		case x < 16:
			emit(fmt.Sprintf("lim spend %d", vlib.Pick(r, pool)))
		case x < 17:
			emit(fmt.Sprintf("lim cookie %d", vlib.Pick(r, pool)))
		case x < 18:
			emit("lim cleanup none")
		case x < 19 && r.Chance(1, 3):
			emit("lim cleanup all")
		default:
			emit("lim len")
		}
	}
	emit("lim len")
}

// ---------------------------------------------------------------- conc

// genLimChurn: a limiter store above the 1000-entry mark, where evictOne
// samples the first entry of the map iteration instead of the oldest.
func genLimChurn(r *vlib.R, tier string, emit func(string)) {
	mx := r.Range(1100, 1500)
	fresh := 8000
	if tier == "thorough" {
		fresh = 30000
	}
	emit(fmt.Sprintf("lim new %d 10", mx))
	emit(fmt.Sprintf("lim churn %d %d %d", mx, fresh, r.U64()>>1))
	// limiter state must not matter: rate 0 (burst 0), and clients that spend
	// their whole burst at once (every stored bucket is empty)
	emit(fmt.Sprintf("lim churn %d %d %d 0 f", r.Range(2, 1300), 2500, r.U64()>>1))
	emit(fmt.Sprintf("lim churn %d %d %d %d t", r.Range(2, 1300), 2500, r.U64()>>1, vlib.Pick(r, []int{1, 3, 10})))
	// boundary: exactly 1000 / 1001 entries (the sampling starts above 1000)
	emit(fmt.Sprintf("lim churn %d %d %d", vlib.Pick(r, []int{999, 1000, 1001, 1002}), 3000, r.U64()>>1))
}

func genConc(r *vlib.R, tier string, emit func(string)) {
	emit("conc new")
	maxOps := 3000
	if tier == "thorough" {
		maxOps = 12000
	}
	capv := vlib.Pick(r, []int{1, 2, r.Range(3, 16), r.Range(8, 64), r.Range(32, 200)})
	keyspace := min(256, capv*r.Range(2, 8)+r.Intn(8)) // more keys than capacity: the toll is paid all the time
	if r.Chance(1, 4) {
		keyspace = max(2, capv-r.Intn(capv+1)) // never over capacity
	}
	emit(fmt.Sprintf("conc run %d %d %d %d %d %d", r.Range(4, 8), capv, r.Range(2, 8), r.Range(500, maxOps), keyspace, r.U64()>>1))
}

// genSparse: capacities far below the number of segments. Every resident sits
// in ONE segment a, the writer's key in segment b = a+delta with delta running
// over the whole ring (the segment right after, right BEFORE, opposite,
// anywhere): the writer's own segment cannot pay the toll, so the neighbour
// walk has to find segment a wherever it lies relative to b.
func genSparse(r *vlib.R, emit func(string)) {
	useCache := r.Bool()
	capv := r.Range(1, 4)
	var cnt uint
	var segOf func(k uint64) uint
	if useCache {
		emit(fmt.Sprintf("cache new %d", capv))
		inner := cache.VerifCacheSegMap(cc)
		cnt = uint(inner.SegmentCount())
		segOf = func(k uint64) uint { return cache.VerifSegIndex(inner, k) }
	} else {
		emit(fmt.Sprintf("segmap new %d 0", vlib.Pick(r, []int{4, 6, 8})))
		cnt = uint(sm.SegmentCount())
		segOf = func(k uint64) uint { return cache.VerifSegIndex(sm, k) }
	}
	used := map[uint64]bool{}
	add := func(k uint64) {
		if useCache {
			emit(fmt.Sprintf("cache add %d %d", k, r.Range(1, 12)))
			var v []uint64
			if cPend != nil {
				v = cPend.victims
			}
			emit(fmt.Sprintf("cache evicted %d %s", k, joinKeys(v)))
		} else {
			emit(fmt.Sprintf("segmap setcap %d %d %d", k, val(r), capv))
			var v []uint64
			if sPend != nil {
				v = sPend.victims
			}
			emit(fmt.Sprintf("segmap evicted %d %d %s", k, capv, joinKeys(v)))
		}
	}
	clearAll := func() {
		if useCache {
			for _, k := range sortedKeysU(cRef) {
				emit(fmt.Sprintf("cache remove %d", k))
			}
		} else {
			emit("segmap clear")
		}
	}
	deltas := []uint{1, cnt - 1, 2, cnt - 2, cnt / 2, uint(1 + r.Intn(int(cnt)-1)), uint(1 + r.Intn(int(cnt)-1))}
	for _, d := range deltas {
		a := uint(r.Intn(int(cnt)))
		b := (a + d) % cnt
		res := collideSearch(r, used, capv, func(k uint64) bool { return segOf(k) == a })
		for _, k := range res {
			add(k) // fills to capacity, all in segment a
		}
		ws := collideSearch(r, used, r.Range(1, 3), func(k uint64) bool { return segOf(k) == b })
		for _, k := range ws {
			add(k) // over capacity from a segment that holds nothing else
		}
		if useCache {
			emit("cache len")
			emit("cache reach")
		} else {
			emit("segmap len")
			emit("segmap reach")
		}
		clearAll()
	}
}

// aliasFamily: keys that collide under any narrowing of the 64-bit key (taking
// the low or high half, xor- or add-folding the halves, swapping them): built
// from two 32-bit values a, b.
func aliasFamily(r *vlib.R) []uint64 {
	a, b := r.U64()&0xffffffff, r.U64()&0xffffffff
	if r.Bool() {
		a, b = uint64(1+r.Intn(4)), uint64(1+r.Intn(4))
	}
	return []uint64{a, b, a << 32, b << 32, a<<32 | b, b<<32 | a, a<<32 | a, a ^ b, (a + b) & 0xffffffff, 1, 1 << 32, 1<<32 | 1}
}

// genRing: one key in EVERY segment (first and last included), then the
// whole-table operations: Clear, ClearSegment at the boundaries, iteration,
// length — anything that walks the segments must cover the whole ring.
func genRing(r *vlib.R, emit func(string)) {
	emit(fmt.Sprintf("segmap new %d 0", vlib.Pick(r, []int{4, 4, 5, 6, 8})))
	cnt := uint(sm.SegmentCount())
	used := map[uint64]bool{}
	fill := func() {
		for sgi := uint(0); sgi < cnt; sgi++ {
			if cnt > 32 && sgi > 2 && sgi < cnt-3 && !r.Chance(1, 8) {
				continue
			}
			i := sgi
			ks := collideSearch(r, used, 1, func(k uint64) bool { return cache.VerifSegIndex(sm, k) == i })
			for _, k := range ks {
				emit(fmt.Sprintf("segmap set %d %d", k, val(r)))
			}
		}
	}
	fill()
	emit("segmap reach")
	emit("segmap keys")
	emit("segmap clear")
	emit("segmap len")
	emit("segmap reach")
	fill()
	for _, i := range []uint{cnt - 1, 0, cnt, cnt - 2, 1} {
		emit(fmt.Sprintf("segmap clearseg %d", i))
	}
	emit("segmap dump")
	emit(fmt.Sprintf("segmap sweep %d set %d 7", r.Intn(3), r.U64()|1))
	emit("segmap clear")
	emit("segmap dump")
}

// genFail: the failure cache: generations recorded, renewed after expiry
// (CompareAndSwap), reset (CompareAndDelete), looked up; clock injected.
func genFail(r *vlib.R, emit func(string)) {
	ini := uint64(1+r.Intn(4)) * 1e9
	mx := ini * uint64(vlib.Pick(r, []int{1, 2, 3, 8, 16, 60}))
	if mx > 300e9 {
		mx = 300e9
	}
	emit(fmt.Sprintf("fail new %d %d %d", vlib.Pick(r, []int{64, 64, 200}), ini, mx))
	now := uint64(0)
	retry := map[uint64]uint64{}
	nq := uint64(r.Range(2, 6))
	nops := r.Range(20, 60)
	for i := 0; i < nops; i++ {
		q := uint64(r.Intn(int(nq)))
		// move the clock: often exactly to / just before / just after the retry time, sometimes far beyond
		switch r.Intn(6) {
		case 0:
		case 1:
			if t, ok := retry[q]; ok && t >= now {
				now = t
			}
		case 2:
			if t, ok := retry[q]; ok && t > now+1 {
				now = t - 1
			}
		case 3:
			if t, ok := retry[q]; ok && t >= now {
				now = t + mx + uint64(r.Intn(3))*1e9 - 1e9
			}
		default:
			now += uint64(r.Intn(5)) * 5e8
		}
		switch x := r.Intn(20); {
		case x < 8:
			emit(fmt.Sprintf("fail record %d %d", q, now))
			if w, ok := fcRef[q]; ok {
				retry[q] = w[1]
			}
		case x < 11: // zone-wide failures: ancestors of the deeper names
			z := uint64(r.Intn(int(nq)))
			emit(fmt.Sprintf("fail zrecord %d %d", z, now))
			if w, ok := fcZRef[z]; ok {
				retry[q] = w[1]
			}
		case x < 15:
			emit(fmt.Sprintf("fail lookup %d %d", q, now))
		case x < 16:
			emit(fmt.Sprintf("fail reset %d", q))
			delete(retry, q)
		case x < 17:
			emit(fmt.Sprintf("fail zreset %d", r.Intn(int(nq))))
		case x < 18:
			emit(fmt.Sprintf("fail rmatch %d", q))
		case x < 19:
			emit(fmt.Sprintf("fail purge %d", q))
		default:
			emit("fail len")
		}
	}
	// a failed authority tree: zone states on several ancestors plus an exact
	// state, then a fresh useful answer for the deepest name (ResetMatching) and
	// an operator purge
	now += mx + 1e9
	deep := nq - 1
	for z := uint64(0); z <= deep; z++ {
		if r.Chance(2, 3) || z == 0 || z == deep {
			emit(fmt.Sprintf("fail zrecord %d %d", z, now))
		}
	}
	emit(fmt.Sprintf("fail record %d %d", deep, now))
	emit(fmt.Sprintf("fail lookup %d %d", deep, now+1))
	if deep >= 1 {
		emit(fmt.Sprintf("fail purge %d", deep-1))
	}
	emit(fmt.Sprintf("fail rmatch %d", deep))
	emit(fmt.Sprintf("fail lookup %d %d", deep, now+1))
	emit("fail len")
}

// genAns: the answer caches (PositiveCache / NegativeCache): live and already
// expired entries stored over each other, looked up, removed.
func genAns(r *vlib.R, kind string, emit func(string)) {
	if kind == "" {
		kind = vlib.Pick(r, []string{"pos", "neg"})
	}
	emit(fmt.Sprintf("ans new %s %d", kind, 64))
	keys := []uint64{0, 1, 2, r.U64(), r.U64(), hugeB}
	tok := uint64(2)
	nops := r.Range(15, 50)
	for i := 0; i < nops; i++ {
		k := vlib.Pick(r, keys)
		switch x := r.Intn(10); {
		case x < 4:
			tok += 2
			t := tok
			if r.Chance(1, 3) {
				t++ // an entry that is already expired when stored
			}
			emit(fmt.Sprintf("ans set %d %d", k, t))
			if r.Chance(2, 3) {
				emit(fmt.Sprintf("ans get %d", k))
			}
		case x < 8:
			emit(fmt.Sprintf("ans get %d", k))
		case x < 9:
			emit(fmt.Sprintf("ans remove %d", k))
		default:
			emit("ans len")
		}
	}
	emit("ans len")
}

// genStall: "writers never wait on a global lock" scenarios (see stall.go).
func genStall(r *vlib.R, tier string, emit func(string)) {
	emit("conc new")
	emit(fmt.Sprintf("conc stall segmap %d %d", vlib.Pick(r, []int{2, 2, 1, 3}), r.U64()>>1))
	emit(fmt.Sprintf("conc stall cache %d %d", vlib.Pick(r, []int{2, 2, 1, 3}), r.U64()>>1))
	// several goroutines on ONE key arriving while its segment is write-locked
	for mode := 0; mode <= 3; mode++ {
		emit(fmt.Sprintf("conc dup %s %d %d", vlib.Pick(r, []string{"cache", "segmap"}), mode, r.U64()>>1))
	}
	emit(fmt.Sprintf("conc dup cache %d %d", vlib.Pick(r, []int{0, 3}), r.U64()>>1))
	// readers / capacity-checking writers arriving while a segment is busy
	for mode := 0; mode <= 2; mode++ {
		emit(fmt.Sprintf("conc gate cache %d %d", mode, r.U64()>>1))
		emit(fmt.Sprintf("conc gate segmap %d %d", mode, r.U64()>>1))
	}
	emit(fmt.Sprintf("conc gate cache 2 %d", r.U64()>>1))
	// the limiter store's calls racing each other behind its one lock
	for mode := 0; mode <= 3; mode++ {
		emit(fmt.Sprintf("conc limrace %d %d", mode, r.U64()>>1))
	}
	emit(fmt.Sprintf("conc limrace 0 %d", r.U64()>>1))
	// the expiry-cleanup route of the answer caches racing a republishing writer
	for mode := 0; mode <= 2; mode++ {
		emit(fmt.Sprintf("conc failrace %d %d", mode, r.U64()>>1))
	}
	for i := 0; i < 5; i++ {
		emit(fmt.Sprintf("conc failrace 1 %d", r.U64()>>1))
	}
	emit(fmt.Sprintf("conc expire neg 3000 %d", r.U64()>>1))
	emit(fmt.Sprintf("conc expire pos 3000 %d", r.U64()>>1))
	if tier == "thorough" {
		for mode := 0; mode <= 3; mode++ {
			for i := 0; i < 6; i++ {
				emit(fmt.Sprintf("conc limrace %d %d", mode, r.U64()>>1))
			}
		}
		for mode := 0; mode <= 2; mode++ {
			for i := 0; i < 4; i++ {
				emit(fmt.Sprintf("conc gate cache %d %d", mode, r.U64()>>1))
				emit(fmt.Sprintf("conc gate segmap %d %d", mode, r.U64()>>1))
			}
		}
		for mode := 0; mode <= 3; mode++ {
			for i := 0; i < 4; i++ {
				emit(fmt.Sprintf("conc dup cache %d %d", mode, r.U64()>>1))
				emit(fmt.Sprintf("conc dup segmap %d %d", mode, r.U64()>>1))
			}
		}
		for d := 1; d <= 3; d++ {
			emit(fmt.Sprintf("conc stall segmap %d %d", d, r.U64()>>1))
			emit(fmt.Sprintf("conc stall cache %d %d", d, r.U64()>>1))
		}
	}
}

// ---------------------------------------------------------------- long probe runs

// collideSearch finds `want` distinct non-zero keys accepted by ok, from
// candidates of every magnitude.
func collideSearch(r *vlib.R, used map[uint64]bool, want int, ok func(k uint64) bool) []uint64 {
	var out []uint64
	for tries := 0; len(out) < want && tries < 40000000; tries++ {
		k := r.U64()
		switch tries % 3 {
		case 1:
			k >>= uint(r.Intn(60))
		case 2:
			k = uint64(tries) // small sequential candidates as well
		}
		if k == 0 || used[k] || !ok(k) {
			continue
		}
		used[k] = true
		out = append(out, k)
	}
	return out
}

// genUmapLong: one occupied run far longer than any bound a lookup might put
// on its probe walk: 129..~300 keys sharing 1-3 adjacent home slots of a
// 256/512/1024/2048-slot table (no growth below 0.75), optionally wrapping
// around the array end. Every stored key must stay readable however deep it
// sits; deletions inside the run shift hundreds of entries.
func genUmapLong(r *vlib.R, emit func(string)) {
	capv := vlib.Pick(r, []int{150, 300, 300, 600, 1200})
	emit(fmt.Sprintf("umap new %d", capv))
	n, ga := cache.VerifUMapDataLen(um), cache.VerifUMapGrowAt(um)
	scratch := cache.NewUInt64Map[uint64](capv)
	run := r.Range(129, min(ga-2, 320))
	if r.Chance(1, 4) {
		run = vlib.Pick(r, []int{127, 128, 129, 130, 255, 256, 257})
		run = min(run, ga-2)
	}
	homes := vlib.Pick(r, []int{1, 1, 2, 3})
	h0 := vlib.Pick(r, []int{n - 1, n - run/2, n - run - 1, r.Intn(n), 0})
	h0 = ((h0 % n) + n) % n
	used := map[uint64]bool{}
	keys := collideSearch(r, used, run, func(k uint64) bool {
		d := (cache.VerifPrimaryIndex(scratch, k) - h0 + n) % n
		return d < homes
	})
	far := func() uint64 { // a key deep in the run (inserted late)
		lo := len(keys) * 2 / 3
		return keys[lo+r.Intn(len(keys)-lo)]
	}
	for i, k := range keys {
		emit(fmt.Sprintf("umap put %d %d", k, val(r)))
		if i > 120 && r.Chance(1, 12) {
			emit(fmt.Sprintf("umap get %d", k))
			emit(fmt.Sprintf("umap has %d", k))
		}
	}
	emit("umap slots")
	emit("umap len")
	nops := r.Range(40, 90)
	for i := 0; i < nops; i++ {
		switch x := r.Intn(100); {
		case x < 25:
			emit(fmt.Sprintf("umap get %d", far()))
		case x < 35:
			emit(fmt.Sprintf("umap has %d", far()))
		case x < 50:
			emit(fmt.Sprintf("umap put %d %d", far(), val(r)))
		case x < 70: // delete near the head / in the middle: a long backward shift
			emit(fmt.Sprintf("umap del %d", keys[r.Intn(len(keys)*2/3+1)]))
			if r.Chance(1, 4) {
				emit("umap slots")
			}
		case x < 76:
			emit(fmt.Sprintf("umap pine %d %d", vlib.Pick(r, keys), val(r)))
		case x < 84:
			emit(fmt.Sprintf("umap evict %d %d %d", (h0+r.Intn(run))%n, r.Range(1, 3), far()))
		case x < 90:
			emit(fmt.Sprintf("umap put %d %d", vlib.Pick(r, keys), val(r))) // re-insert deleted ones
		case x < 94:
			emit("umap put 0 5")
		default:
			emit("umap len")
		}
	}
	emit("umap dump")
}

// genSegLong: the same inside ONE segment of the segmented table / of a
// cache.Cache: 129..185 keys that share a segment and the low 8 bits of the
// slot hash, so they collide at every size the segment's table grows through
// (8 .. 256 slots). Lookups, CAS and compare-delete on the deepest keys.
func genSegLong(r *vlib.R, emit func(string)) {
	useCache := r.Bool()
	run := r.Range(129, 185)
	var m256 = cache.NewUInt64Map[uint64](150) // 256 slots: the 8-bit slot index
	var segOf func(k uint64) uint
	var cnt uint
	if useCache {
		emit(fmt.Sprintf("cache new %d", r.Range(run+20, 3*run)))
		inner := cache.VerifCacheSegMap(cc)
		cnt = uint(inner.SegmentCount())
		segOf = func(k uint64) uint { return cache.VerifSegIndex(inner, k) }
	} else {
		emit("segmap new 8 0")
		cnt = uint(sm.SegmentCount())
		segOf = func(k uint64) uint { return cache.VerifSegIndex(sm, k) }
	}
	s := uint(r.Intn(int(cnt)))
	t := vlib.Pick(r, []int{255, 250, 200, r.Intn(256), 0})
	used := map[uint64]bool{}
	keys := collideSearch(r, used, run, func(k uint64) bool {
		return segOf(k) == s && cache.VerifPrimaryIndex(m256, k) == t
	})
	if len(keys) < 10 {
		return
	}
	far := func() uint64 {
		lo := len(keys) * 2 / 3
		return keys[lo+r.Intn(len(keys)-lo)]
	}
	for i, k := range keys {
		if useCache {
			emit(fmt.Sprintf("cache add %d %d", k, r.Range(1, 12)))
			var v []uint64
			if cPend != nil {
				v = cPend.victims
			}
			emit(fmt.Sprintf("cache evicted %d %s", k, joinKeys(v)))
			if i > 120 && r.Chance(1, 10) {
				emit(fmt.Sprintf("cache get %d", k))
			}
		} else {
			emit(fmt.Sprintf("segmap set %d %d", k, val(r)))
			if i > 120 && r.Chance(1, 10) {
				emit(fmt.Sprintf("segmap get %d", k))
				emit(fmt.Sprintf("segmap has %d", k))
			}
		}
	}
	nops := r.Range(30, 70)
	for i := 0; i < nops; i++ {
		k := far()
		if r.Chance(1, 4) {
			k = vlib.Pick(r, keys)
		}
		if useCache {
			switch x := r.Intn(10); {
			case x < 3:
				emit(fmt.Sprintf("cache get %d", k))
			case x < 6:
				emit(fmt.Sprintf("cache cas %d %d %d", k, tokenFor(r, k), r.Range(1, 12)))
			case x < 8:
				emit(fmt.Sprintf("cache cad %d %d", k, tokenFor(r, k)))
			case x < 9:
				emit(fmt.Sprintf("cache remove %d", keys[r.Intn(len(keys)/2+1)]))
			default:
				emit("cache len")
			}
		} else {
			switch x := r.Intn(10); {
			case x < 4:
				emit(fmt.Sprintf("segmap get %d", k))
			case x < 5:
				emit(fmt.Sprintf("segmap has %d", k))
			case x < 7:
				emit(fmt.Sprintf("segmap del %d", keys[r.Intn(len(keys)/2+1)]))
			case x < 8:
				emit(fmt.Sprintf("segmap pine %d %d", k, val(r)))
			case x < 9:
				emit(fmt.Sprintf("segmap set %d %d", k, val(r)))
			default:
				emit("segmap len")
			}
		}
	}
	if useCache {
		emit("cache reach")
		emit("cache dump")
	} else {
		emit("segmap reach")
		emit("segmap dump")
	}
}

// ---------------------------------------------------------------- exhaustive small scope

// exhaustive: the 8-slot table, 4 non-zero keys whose primary slot is 7 (the
// last one: every probe chain wraps) and 1 key whose primary slot is 0;
// alphabet put_i / del_i, ALL sequences of length 5. The audit after every op
// judges every prefix; the final `umap slots` compares the raw layout.
func exhaustive(emit func(string)) {
	s := cache.NewUInt64Map[uint64](0)
	var keys []uint64
	for k := uint64(1); len(keys) < 4; k++ {
		if cache.VerifPrimaryIndex(s, k) == 7 {
			keys = append(keys, k)
		}
	}
	for k := uint64(1); len(keys) < 5; k++ {
		if cache.VerifPrimaryIndex(s, k) == 0 {
			keys = append(keys, k)
		}
	}
	const L = 5
	var seq [L]int
	total := 1
	for i := 0; i < L; i++ {
		total *= 10
	}
	for c := 0; c < total; c++ {
		x := c
		for i := L - 1; i >= 0; i-- {
			seq[i] = x % 10
			x /= 10
		}
		emit("umap new 0")
		for i, a := range seq {
			if a < 5 {
				emit(fmt.Sprintf("umap put %d %d", keys[a], 10*(i+1)+a))
			} else {
				emit(fmt.Sprintf("umap del %d", keys[a-5]))
			}
		}
		emit("umap slots")
	}
}

// ---------------------------------------------------------------- gen

func gen(r *vlib.R, n int, tier string, emit0 func(string)) {
	// vlib.NewR(seed) starts at seed*gamma+c and every draw adds gamma, so the
	// stream of seed k+1 is the stream of seed k shifted by one draw. Re-key
	// from the first output so that neighbouring seeds are unrelated.
	r = vlib.NewR(r.U64())
	count := 0
	emit := func(s string) { emit0(s); count++ }
	nconc := 2
	if tier == "thorough" {
		nconc = 6
	}
	for i := 0; i < nconc; i++ {
		genConc(r, tier, emit)
	}
	genStall(r, tier, emit)
	genSparse(r, emit)
	genSparse(r, emit)
	genAns(r, "pos", emit)
	genAns(r, "neg", emit)
	genFail(r, emit)
	genFail(r, emit)
	genRing(r, emit)
	genLimChurn(r, tier, emit)
	genUmapLong(r, emit)
	genSegLong(r, emit)
	if tier == "thorough" {
		for i := 0; i < 6; i++ {
			genUmapLong(r, emit)
			genSegLong(r, emit)
		}
		genLimChurn(r, tier, emit)
		exhaustive(emit)
	}
	start := count
	for count-start < n {
		switch x := r.Intn(100); {
		case x >= 99:
			genUmapLong(r, emit)
		case x >= 97:
			genSparse(r, emit)
		case x >= 94 && x < 95:
			if r.Bool() {
				genAns(r, "", emit)
			} else {
				genFail(r, emit)
			}
		case x >= 95:
			genSegLong(r, emit)
		case x < 50:
			genUmap(r, emit)
		case x < 70:
			genSegmap(r, emit)
		case x < 90:
			genCache(r, emit)
		default:
			genLim(r, emit)
		}
	}
}
