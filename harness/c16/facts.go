//go:build verif

package main

import (
	"go/ast"
	"go/parser"
	"go/token"
	"os"
	"path/filepath"
	"reflect"
	"sync"

	"github.com/semihalev/sdns/internal/cache"
	"github.com/semihalev/sdns/middleware/ratelimit"
)

var (
	tMutex   = reflect.TypeOf(sync.Mutex{})
	tRWMutex = reflect.TypeOf(sync.RWMutex{})
)

// lockFields counts the fields of struct type t that are a sync.Mutex /
// sync.RWMutex or a pointer to one.
func lockFields(t reflect.Type) int {
	for t.Kind() == reflect.Pointer {
		t = t.Elem()
	}
	if t.Kind() != reflect.Struct {
		return 0
	}
	n := 0
	for i := 0; i < t.NumField(); i++ {
		ft := t.Field(i).Type
		if ft.Kind() == reflect.Pointer {
			ft = ft.Elem()
		}
		if ft == tMutex || ft == tRWMutex {
			n++
		}
	}
	return n
}

// setWithCapShape walks func SetWithCap of segment_uint64_map.go in source
// order: maximum nesting depth of `.rwlock.Lock()/RLock()` versus
// `.rwlock.Unlock()/RUnlock()` calls, and the number of defer statements.
// (-1, -1) when the function cannot be found.
func setWithCapShape() (maxDepth, defers int) {
	repo := os.Getenv("VERIF_REPO")
	if repo == "" {
		repo = "/repo"
	}
	fset := token.NewFileSet()
	file, err := parser.ParseFile(fset, filepath.Join(repo, "internal/cache/segment_uint64_map.go"), nil, 0)
	if err != nil {
		return -1, -1
	}
	found := false
	for _, d := range file.Decls {
		fd, ok := d.(*ast.FuncDecl)
		if !ok || fd.Name.Name != "SetWithCap" || fd.Body == nil {
			continue
		}
		found = true
		depth := 0
		ast.Inspect(fd.Body, func(n ast.Node) bool {
			switch x := n.(type) {
			case *ast.DeferStmt:
				defers++
			case *ast.CallExpr:
				sel, ok := x.Fun.(*ast.SelectorExpr)
				if !ok {
					return true
				}
				recv, ok := sel.X.(*ast.SelectorExpr)
				if !ok || recv.Sel.Name != "rwlock" {
					return true
				}
				switch sel.Sel.Name {
				case "Lock", "RLock":
					depth++
					if depth > maxDepth {
						maxDepth = depth
					}
				case "Unlock", "RUnlock":
					depth--
				}
			}
			return true
		})
	}
	if !found {
		return -1, -1
	}
	return maxDepth, defers
}

func facts() map[string]any {
	var growPairs [][]int
	for _, c := range []int{0, 8, 9, 12, 13, 24, 25, 48, 100, 1000, 100000} {
		m := cache.NewUInt64Map[uint64](c)
		growPairs = append(growPairs, []int{cache.VerifUMapDataLen(m), cache.VerifUMapGrowAt(m)})
		for i := 0; i < 2; i++ {
			cache.VerifUMapGrow(m)
			growPairs = append(growPairs, []int{cache.VerifUMapDataLen(m), cache.VerifUMapGrowAt(m)})
		}
	}
	var segCounts []int
	for p := 0; p <= 10; p++ {
		segCounts = append(segCounts, cache.NewSegmentUInt64Map[uint64](uint8(p), 0).SegmentCount())
	}
	var cacheSegs []int
	for _, s := range []int{1, 2000, 200000, 2000000} {
		cacheSegs = append(cacheSegs, cache.VerifCacheSegMap(cache.New(s)).SegmentCount())
	}
	segMapT := reflect.TypeOf((*cache.SegmentUInt64Map[uint64])(nil)).Elem()
	segmentLocks := -1
	if f, ok := segMapT.FieldByName("segments"); ok {
		et := f.Type
		for et.Kind() == reflect.Slice || et.Kind() == reflect.Pointer || et.Kind() == reflect.Array {
			et = et.Elem()
		}
		segmentLocks = lockFields(et)
	}
	depth, defers := setWithCapShape()
	return map[string]any{
		"grow_pairs":                growPairs,
		"seg_counts":                segCounts,
		"cache_segments":            cacheSegs,
		"segmap_global_locks":       lockFields(segMapT),
		"cache_global_locks":        lockFields(reflect.TypeOf((*cache.Cache)(nil))) + lockFields(reflect.TypeOf((*cache.SyncUInt64Map[any])(nil))),
		"segment_locks":             segmentLocks,
		"setwithcap_max_lock_depth": depth,
		"setwithcap_defers":         defers,
		"limiter_global_locks":      lockFields(reflect.TypeOf((*ratelimit.LimiterStore)(nil))),
	}
}
