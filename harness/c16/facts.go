//go:build verif

package main

import (
	"go/ast"
	"go/parser"
	"go/token"
	"os"
	"path/filepath"
	"reflect"
	"sort"
	"sync"

	"github.com/semihalev/sdns/internal/cache"
	"github.com/semihalev/sdns/middleware/ratelimit"
)

var (
	tMutex   = reflect.TypeOf(sync.Mutex{})
	tRWMutex = reflect.TypeOf(sync.RWMutex{})
)

// lockFields counts the fields of struct type t that are a sync.Mutex /
// sync.RWMutex or a pointer to one.
func lockFields(t reflect.Type) int {
	for t.Kind() == reflect.Pointer {
		t = t.Elem()
	}
	if t.Kind() != reflect.Struct {
		return 0
	}
	n := 0
	for i := 0; i < t.NumField(); i++ {
		ft := t.Field(i).Type
		if ft.Kind() == reflect.Pointer {
			ft = ft.Elem()
		}
		if ft == tMutex || ft == tRWMutex {
			n++
		}
	}
	return n
}

// setWithCapShape walks func SetWithCap of segment_uint64_map.go in source
// order: maximum nesting depth of `.rwlock.Lock()/RLock()` versus
// `.rwlock.Unlock()/RUnlock()` calls, and the number of defer statements.
// (-1, -1) when the function cannot be found.
func setWithCapShape() (maxDepth, defers int) {
	repo := os.Getenv("VERIF_REPO")
	if repo == "" {
		repo = "/repo"
	}
	fset := token.NewFileSet()
	file, err := parser.ParseFile(fset, filepath.Join(repo, "internal/cache/segment_uint64_map.go"), nil, 0)
	if err != nil {
		return -1, -1
	}
	found := false
	for _, d := range file.Decls {
		fd, ok := d.(*ast.FuncDecl)
		if !ok || fd.Name.Name != "SetWithCap" || fd.Body == nil {
			continue
		}
		found = true
		depth := 0
		ast.Inspect(fd.Body, func(n ast.Node) bool {
			switch x := n.(type) {
			case *ast.DeferStmt:
				defers++
			case *ast.CallExpr:
				sel, ok := x.Fun.(*ast.SelectorExpr)
				if !ok {
					return true
				}
				recv, ok := sel.X.(*ast.SelectorExpr)
				if !ok || recv.Sel.Name != "rwlock" {
					return true
				}
				switch sel.Sel.Name {
				case "Lock", "RLock":
					depth++
					if depth > maxDepth {
						maxDepth = depth
					}
				case "Unlock", "RUnlock":
					depth--
				}
			}
			return true
		})
	}
	if !found {
		return -1, -1
	}
	return maxDepth, defers
}

// lockCalls walks one function body and counts the segment write-lock and
// read-lock acquisitions (`<x>.rwlock.Lock()` / `<x>.rwlock.RLock()`).
func lockCalls(body *ast.BlockStmt) (w, r int) {
	ast.Inspect(body, func(n ast.Node) bool {
		call, ok := n.(*ast.CallExpr)
		if !ok {
			return true
		}
		sel, ok := call.Fun.(*ast.SelectorExpr)
		if !ok {
			return true
		}
		recv, ok := sel.X.(*ast.SelectorExpr)
		if !ok || recv.Sel.Name != "rwlock" {
			return true
		}
		switch sel.Sel.Name {
		case "Lock":
			w++
		case "RLock":
			r++
		}
		return true
	})
	return
}

// mutatorsWithoutWriteLock lists the mutating methods of the segmented table
// and of Cache that do NOT take the segment WRITE lock (or that take a read
// lock): the compare-then-act of CompareAndSwap / CompareAndDelete and every
// Put/Del/Evict must run under the write lock of the key's segment.
// "<file>:missing" entries mean the source could not be read.
func mutatorsWithoutWriteLock() []string {
	repo := os.Getenv("VERIF_REPO")
	if repo == "" {
		repo = "/repo"
	}
	want := map[string][]string{
		"internal/cache/segment_uint64_map.go": {"Set", "SetWithCap", "PutIfNotExists", "Del", "Clear", "ClearSegment"},
		"internal/cache/cache.go":              {"CompareAndSwap", "CompareAndDelete"},
	}
	bad := []string{}
	for _, rel := range []string{"internal/cache/segment_uint64_map.go", "internal/cache/cache.go"} {
		fset := token.NewFileSet()
		file, err := parser.ParseFile(fset, filepath.Join(repo, rel), nil, 0)
		if err != nil {
			bad = append(bad, rel+":missing")
			continue
		}
		seen := map[string]bool{}
		for _, d := range file.Decls {
			fd, ok := d.(*ast.FuncDecl)
			if !ok || fd.Recv == nil || fd.Body == nil {
				continue
			}
			for _, name := range want[rel] {
				if fd.Name.Name != name {
					continue
				}
				seen[name] = true
				if w, r := lockCalls(fd.Body); w == 0 || r != 0 {
					bad = append(bad, name)
				} else if actsBeforeLock(fd.Body) {
					bad = append(bad, name+":act-before-lock")
				}
			}
		}
		for _, name := range want[rel] {
			if !seen[name] {
				bad = append(bad, name+":not-found")
			}
		}
	}
	return bad
}

func facts() map[string]any {
	var growPairs [][]int
	for _, c := range []int{0, 8, 9, 12, 13, 24, 25, 48, 100, 1000, 100000} {
		m := cache.NewUInt64Map[uint64](c)
		growPairs = append(growPairs, []int{cache.VerifUMapDataLen(m), cache.VerifUMapGrowAt(m)})
		for i := 0; i < 2; i++ {
			cache.VerifUMapGrow(m)
			growPairs = append(growPairs, []int{cache.VerifUMapDataLen(m), cache.VerifUMapGrowAt(m)})
		}
	}
	var segCounts []int
	for p := 0; p <= 10; p++ {
		segCounts = append(segCounts, cache.NewSegmentUInt64Map[uint64](uint8(p), 0).SegmentCount())
	}
	var cacheSegs []int
	for _, s := range []int{1, 2000, 200000, 2000000} {
		cacheSegs = append(cacheSegs, cache.VerifCacheSegMap(cache.New(s)).SegmentCount())
	}
	segMapT := reflect.TypeOf((*cache.SegmentUInt64Map[uint64])(nil)).Elem()
	segmentLocks := -1
	if f, ok := segMapT.FieldByName("segments"); ok {
		et := f.Type
		for et.Kind() == reflect.Slice || et.Kind() == reflect.Pointer || et.Kind() == reflect.Array {
			et = et.Elem()
		}
		segmentLocks = lockFields(et)
	}
	sampled := limiterSampledEvictions()
	depth, defers := setWithCapShape()
	return map[string]any{
		"grow_pairs":                        growPairs,
		"seg_counts":                        segCounts,
		"cache_segments":                    cacheSegs,
		"segmap_global_locks":               lockFields(segMapT),
		"cache_global_locks":                lockFields(reflect.TypeOf((*cache.Cache)(nil))) + lockFields(reflect.TypeOf((*cache.SyncUInt64Map[any])(nil))),
		"segment_locks":                     segmentLocks,
		"setwithcap_max_lock_depth":         depth,
		"setwithcap_defers":                 defers,
		"limiter_global_locks":              lockFields(reflect.TypeOf((*ratelimit.LimiterStore)(nil))),
		"mutators_without_write_lock":       mutatorsWithoutWriteLock(),
		"segmap_count_atomic":               countIsAtomic(segMapT),
		"cache_wrappers_touching_internals": cacheWrappersTouchingInternals(),
		"cache_delegations":                 cacheDelegations(),
		"limiter_cleanup_locks":             limiterCleanupLocks(),
		"limiter_sampled_evictions":         sampled[0],
		"limiter_sampled_victim_not_stored": sampled[1],
		"limiter_sampled_no_victim":         sampled[2],
		"limiter_sampled_own_key":           sampled[3],
		"expiry_cleanup_not_conditional":    expiryCleanupNotConditional(),
		"len_functions_touching_locks":      lenFunctionsTouchingLocks(),
		"segmap_trylocks":                   tryLocks(),
	}
}

// countIsAtomic: the global entry counter is a sync/atomic integer.
func countIsAtomic(t reflect.Type) bool {
	f, ok := t.FieldByName("count")
	return ok && f.Type.PkgPath() == "sync/atomic"
}

// actsBeforeLock: some table access (Get/Has/Put/PutIfNotExists/Del/
// EvictKeysAt/Clear/Len on a segment's table) occurs in source order before the
// first `.rwlock.Lock()` of the function — a check outside the critical
// section.
func actsBeforeLock(body *ast.BlockStmt) bool {
	firstLock, firstAct := token.NoPos, token.NoPos
	acts := map[string]bool{"Get": true, "Has": true, "Put": true, "PutIfNotExists": true, "Del": true,
		"EvictKeysAt": true, "Clear": true, "Len": true}
	ast.Inspect(body, func(n ast.Node) bool {
		call, ok := n.(*ast.CallExpr)
		if !ok {
			return true
		}
		sel, ok := call.Fun.(*ast.SelectorExpr)
		if !ok {
			return true
		}
		if recv, ok := sel.X.(*ast.SelectorExpr); ok && recv.Sel.Name == "rwlock" && sel.Sel.Name == "Lock" {
			if firstLock == token.NoPos {
				firstLock = call.Pos()
			}
			return true
		}
		if acts[sel.Sel.Name] && firstAct == token.NoPos {
			firstAct = call.Pos()
		}
		return true
	})
	return firstAct != token.NoPos && (firstLock == token.NoPos || firstAct < firstLock)
}

// cacheWrappersTouchingInternals lists the methods of cache.Cache, other than
// CompareAndSwap / CompareAndDelete, whose body mentions a segment lock, the
// global counter or a segment directly instead of delegating to the segmented
// table (whose methods are single critical sections).
func cacheWrappersTouchingInternals() []string {
	repo := os.Getenv("VERIF_REPO")
	if repo == "" {
		repo = "/repo"
	}
	bad := []string{}
	fset := token.NewFileSet()
	file, err := parser.ParseFile(fset, filepath.Join(repo, "internal/cache/cache.go"), nil, 0)
	if err != nil {
		return []string{"cache.go:missing"}
	}
	for _, d := range file.Decls {
		fd, ok := d.(*ast.FuncDecl)
		if !ok || fd.Recv == nil || fd.Body == nil || fd.Name.Name == "CompareAndSwap" || fd.Name.Name == "CompareAndDelete" {
			continue
		}
		touches := false
		ast.Inspect(fd.Body, func(n ast.Node) bool {
			if id, ok := n.(*ast.Ident); ok {
				switch id.Name {
				case "rwlock", "count", "getSegment", "segments":
					touches = true
				}
			}
			return true
		})
		if touches {
			bad = append(bad, fd.Name.Name)
		}
	}
	return bad
}

// cacheDelegations lists, for every method of cache.Cache other than
// CompareAndSwap / CompareAndDelete, "<method>:<methods it calls, in source
// order, joined by +>" (sorted).
func cacheDelegations() []string {
	repo := os.Getenv("VERIF_REPO")
	if repo == "" {
		repo = "/repo"
	}
	fset := token.NewFileSet()
	file, err := parser.ParseFile(fset, filepath.Join(repo, "internal/cache/cache.go"), nil, 0)
	if err != nil {
		return []string{"cache.go:missing"}
	}
	out := []string{}
	for _, d := range file.Decls {
		fd, ok := d.(*ast.FuncDecl)
		if !ok || fd.Recv == nil || fd.Body == nil || fd.Name.Name == "CompareAndSwap" || fd.Name.Name == "CompareAndDelete" {
			continue
		}
		calls := ""
		ast.Inspect(fd.Body, func(n ast.Node) bool {
			if call, ok := n.(*ast.CallExpr); ok {
				name := "?"
				switch f := call.Fun.(type) {
				case *ast.SelectorExpr:
					name = f.Sel.Name
				case *ast.Ident:
					name = f.Name
				}
				if name == "int" || name == "int64" { // conversions are not calls
					return true
				}
				if calls != "" {
					calls += "+"
				}
				calls += name
			}
			return true
		})
		out = append(out, fd.Name.Name+":"+calls)
	}
	sort.Strings(out)
	return out
}

// tryLocks counts TryLock / TryRLock calls in the segmented table and the
// cache: a reader or writer that gives up instead of waiting answers from no
// state at all.
func tryLocks() int {
	repo := os.Getenv("VERIF_REPO")
	if repo == "" {
		repo = "/repo"
	}
	n := 0
	for _, rel := range []string{"internal/cache/segment_uint64_map.go", "internal/cache/cache.go", "internal/cache/uint64_sync_map.go"} {
		fset := token.NewFileSet()
		file, err := parser.ParseFile(fset, filepath.Join(repo, rel), nil, 0)
		if err != nil {
			return -1
		}
		ast.Inspect(file, func(nd ast.Node) bool {
			if sel, ok := nd.(*ast.SelectorExpr); ok && (sel.Sel.Name == "TryLock" || sel.Sel.Name == "TryRLock") {
				n++
			}
			return true
		})
	}
	return n
}

// muCalls counts `.mu.Lock()` and `.mu.RLock()` calls in one function body.
func muCalls(body *ast.BlockStmt) (w, r int) {
	ast.Inspect(body, func(n ast.Node) bool {
		call, ok := n.(*ast.CallExpr)
		if !ok {
			return true
		}
		sel, ok := call.Fun.(*ast.SelectorExpr)
		if !ok {
			return true
		}
		recv, ok := sel.X.(*ast.SelectorExpr)
		if !ok || recv.Sel.Name != "mu" {
			return true
		}
		switch sel.Sel.Name {
		case "Lock":
			w++
		case "RLock":
			r++
		}
		return true
	})
	return
}

// limiterCleanupLocks: [exclusive, shared] acquisitions of the store lock in
// LimiterStore.Cleanup (expected [1, 0]: one critical section).
func limiterCleanupLocks() []int {
	repo := os.Getenv("VERIF_REPO")
	if repo == "" {
		repo = "/repo"
	}
	fset := token.NewFileSet()
	file, err := parser.ParseFile(fset, filepath.Join(repo, "middleware/ratelimit/limiter_store.go"), nil, 0)
	if err != nil {
		return []int{-1, -1}
	}
	for _, d := range file.Decls {
		if fd, ok := d.(*ast.FuncDecl); ok && fd.Recv != nil && fd.Body != nil && fd.Name.Name == "Cleanup" {
			w, r := muCalls(fd.Body)
			return []int{w, r}
		}
	}
	return []int{-1, -1}
}

// lenFunctionsTouchingLocks lists the length readers of the tables (Len,
// SegmentCount of the segmented table, Len of Cache / SyncUInt64Map) whose
// body mentions a segment lock or walks the segments.
func lenFunctionsTouchingLocks() []string {
	repo := os.Getenv("VERIF_REPO")
	if repo == "" {
		repo = "/repo"
	}
	bad := []string{}
	for _, rel := range []string{"internal/cache/segment_uint64_map.go", "internal/cache/cache.go", "internal/cache/uint64_sync_map.go"} {
		fset := token.NewFileSet()
		file, err := parser.ParseFile(fset, filepath.Join(repo, rel), nil, 0)
		if err != nil {
			return []string{rel + ":missing"}
		}
		for _, d := range file.Decls {
			fd, ok := d.(*ast.FuncDecl)
			if !ok || fd.Recv == nil || fd.Body == nil || (fd.Name.Name != "Len" && fd.Name.Name != "SegmentCount") {
				continue
			}
			touches := false
			ast.Inspect(fd.Body, func(n ast.Node) bool {
				switch x := n.(type) {
				case *ast.Ident:
					if x.Name == "rwlock" {
						touches = true
					}
				case *ast.RangeStmt:
					touches = true
				}
				return true
			})
			if touches {
				bad = append(bad, filepath.Base(rel)+":"+fd.Name.Name)
			}
		}
	}
	return bad
}

// expiryCleanupNotConditional lists the Get methods of the answer caches
// (positive_cache.go, negative_cache.go) whose body removes by key alone
// (Remove / Del / Add / Set) or does not call CompareAndDelete at all: the
// cleanup of an entry a reader found expired must be conditional on identity.
func expiryCleanupNotConditional() []string {
	repo := os.Getenv("VERIF_REPO")
	if repo == "" {
		repo = "/repo"
	}
	bad := []string{}
	for _, rel := range []string{"middleware/cache/positive_cache.go", "middleware/cache/negative_cache.go"} {
		fset := token.NewFileSet()
		file, err := parser.ParseFile(fset, filepath.Join(repo, rel), nil, 0)
		if err != nil {
			bad = append(bad, rel+":missing")
			continue
		}
		found := false
		for _, d := range file.Decls {
			fd, ok := d.(*ast.FuncDecl)
			if !ok || fd.Recv == nil || fd.Body == nil || fd.Name.Name != "Get" {
				continue
			}
			found = true
			cad, blunt := false, false
			ast.Inspect(fd.Body, func(n ast.Node) bool {
				if call, ok := n.(*ast.CallExpr); ok {
					if sel, ok := call.Fun.(*ast.SelectorExpr); ok {
						switch sel.Sel.Name {
						case "CompareAndDelete":
							cad = true
						case "Remove", "Del", "Add", "Set":
							blunt = true
						}
					}
				}
				return true
			})
			if !cad || blunt {
				bad = append(bad, filepath.Base(rel)+":Get")
			}
		}
		if !found {
			bad = append(bad, filepath.Base(rel)+":Get:not-found")
		}
	}
	return bad
}

// limiterSampledEvictions runs the real store ABOVE 1000 entries, where
// evictOne takes the first key Go's map iteration yields, and observes every
// eviction of a few thousand fresh inserts (several store sizes): returns
// [evictions observed, victims that were NOT a stored key, full-store inserts
// that evicted nothing, evictions of the key being inserted]. The model's
// only hypothesis on that path is "the iteration's first key is a stored key".
func limiterSampledEvictions() []int {
	out := []int{0, 0, 0, 0}
	next := uint64(1)
	for _, mx := range []int{1001, 1100, 1500, 2500} {
		s := ratelimit.NewLimiterStore(mx, 10)
		for i := 0; i < mx; i++ {
			s.Get(next)
			next += 0x9E3779B97F4A7C15
		}
		for i := 0; i < 1500; i++ {
			before := map[uint64]bool{}
			for _, k := range ratelimit.VerifLimiterKeys(s) {
				before[k] = true
			}
			k := next
			next += 0x9E3779B97F4A7C15
			s.Get(k)
			after := map[uint64]bool{}
			for _, x := range ratelimit.VerifLimiterKeys(s) {
				after[x] = true
			}
			gone := 0
			for x := range before {
				if !after[x] {
					gone++
				}
			}
			switch {
			case !after[k]:
				out[3]++
			case gone == 0:
				out[2]++
			default:
				out[0] += gone
			}
			for x := range after {
				if x != k && !before[x] {
					out[1]++ // something appeared that was neither stored nor inserted
				}
			}
			if len(after) != len(before)-gone+1 {
				out[1]++
			}
		}
	}
	return out
}
