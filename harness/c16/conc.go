//go:build verif

package main

import (
	"fmt"
	"runtime"
	"sync"
	"sync/atomic"

	"github.com/semihalev/sdns/internal/cache"
	"github.com/semihalev/sdns/internal/verif/vlib"
)

// concKeys builds the key table of one concurrent run: index 0 is the zero
// key, the rest alternates between a colliding cluster (same segment and same
// primary slot as a base key), same-segment keys, sequential and random keys.
// The index functions are the real ones (read through the exports).
func concKeys[V any](m *cache.SegmentUInt64Map[V], keyspace int, r *vlib.R) []uint64 {
	if keyspace < 1 {
		keyspace = 1
	}
	keys := make([]uint64, keyspace)
	used := map[uint64]bool{0: true}
	type base struct {
		seg uint
		idx int
	}
	var bases []base
	for i := 0; i < 3; i++ {
		b := r.U64() | 1
		s := cache.VerifSegIndex(m, b)
		bases = append(bases, base{s, cache.VerifPrimaryIndex(cache.VerifSegmentData(m, int(s)), b)})
	}
	find := func(ok func(k uint64) bool) uint64 {
		for tries := 0; tries < 400000; tries++ {
			k := r.U64()
			if tries%3 == 0 {
				k >>= uint(r.Intn(56))
			}
			if k == 0 || used[k] || !ok(k) {
				continue
			}
			return k
		}
		for {
			if k := r.U64(); k != 0 && !used[k] {
				return k
			}
		}
	}
	for j := 1; j < keyspace; j++ {
		b := bases[(j/4)%len(bases)]
		var k uint64
		switch j % 4 {
		case 0:
			k = find(func(k uint64) bool {
				s := cache.VerifSegIndex(m, k)
				return s == b.seg && cache.VerifPrimaryIndex(cache.VerifSegmentData(m, int(s)), k) == b.idx
			})
		case 1:
			k = find(func(k uint64) bool { return cache.VerifSegIndex(m, k) == b.seg })
		case 2:
			k = uint64(j)
			if used[k] {
				k = find(func(uint64) bool { return true })
			}
		default:
			k = find(func(uint64) bool { return true })
		}
		used[k] = true
		keys[j] = k
	}
	return keys
}

// concCheck is the quiescent-state judgement shared by both variants.
func concCheck(what string, t table, capv, writers int) string {
	seen := map[uint64]int{}
	var order []uint64
	t.ForEach(func(k, _ uint64) bool {
		seen[k]++
		if seen[k] == 1 {
			order = append(order, k)
		}
		return true
	})
	total := 0
	for _, c := range seen {
		total += c
	}
	for _, k := range order {
		if seen[k] > 1 {
			return fail("conc/duplicate", "%s: key=%d yielded %d times by ForEach after the writers stopped", what, k, seen[k])
		}
	}
	for _, k := range order {
		if _, ok := t.Get(k); !ok {
			return fail("conc/unreachable", "%s: key=%d is yielded by ForEach but Get does not find it", what, k)
		}
	}
	if t.Len() != total {
		return fail("conc/len-ne-reachable", "%s: Len()=%d but ForEach yields %d entries after the writers stopped", what, t.Len(), total)
	}
	if capv >= 1 && t.Len() > capv+writers {
		return fail("conc/over-capacity", "%s: Len()=%d capacity=%d writers=%d", what, t.Len(), capv, writers)
	}
	return "ok"
}

func execConc(op string, a []string) vlib.Res {
	switch op {
	case "new":
		return vlib.Res{Impl: "ok", Oracle: "-"}
	case "stall":
		return execStall(a)
	case "dup":
		return execDup(a)
	case "gate":
		return execGate(a)
	case "limrace":
		return execLimRace(a)
	case "expire":
		return execExpire(a)
	case "failrace":
		return execFailRace(a)
	case "run":
		if len(a) != 6 {
			break
		}
		pow, capv, writers, ops, keyspace := vlib.Atoi(a[0]), vlib.Atoi(a[1]), vlib.Atoi(a[2]), vlib.Atoi(a[3]), vlib.Atoi(a[4])
		seed := vlib.AtoU64(a[5])
		if writers < 1 {
			writers = 1
		}
		if writers > 64 {
			writers = 64
		}
		if ops > 200000 {
			ops = 200000
		}
		max1, fin1, v1 := concSegmap(pow, capv, writers, ops, keyspace, seed)
		max2, fin2, v2 := concCache(capv, writers, ops, keyspace, seed)
		return vlib.Res{Impl: fmt.Sprintf("ok max=%d final=%d cachemax=%d cachefinal=%d", max1, fin1, max2, fin2),
			Oracle: verdict(v1, v2), Tags: "nt,conc"}
	}
	return vlib.Res{Impl: "bad-op"}
}

// readers: two goroutines doing Get / ForEach / Len until the writers are
// done (bounded, never sleeping).
func startReaders(wg *sync.WaitGroup, done *atomic.Bool, maxLen *atomic.Int64, keys []uint64, seed uint64, t table, budget int) {
	for i := 0; i < 2; i++ {
		wg.Add(1)
		go func(i int) {
			defer wg.Done()
			rr := vlib.NewR(seed ^ (0xabcdef + uint64(i)))
			for n := 0; n < budget && !done.Load(); n++ {
				x := rr.U64()
				t.Get(keys[int((x>>8)%uint64(len(keys)))])
				if n%32 == 0 {
					t.ForEach(func(_, _ uint64) bool { return true })
				}
				l := int64(t.Len())
				for {
					cur := maxLen.Load()
					if l <= cur || maxLen.CompareAndSwap(cur, l) {
						break
					}
				}
				runtime.Gosched()
			}
		}(i)
	}
}

func concSegmap(pow, capv, writers, ops, keyspace int, seed uint64) (int64, int, string) {
	m := cache.NewSegmentUInt64Map[uint64](uint8(pow), capv)
	keys := concKeys(m, keyspace, vlib.NewR(seed))
	t := segT{m}
	var done atomic.Bool
	var maxLen atomic.Int64
	var rwg, wwg sync.WaitGroup
	startReaders(&rwg, &done, &maxLen, keys, seed, t, ops*writers)
	for w := 0; w < writers; w++ {
		wwg.Add(1)
		go func(w int) {
			defer wwg.Done()
			rr := vlib.NewR(seed + uint64(w))
			for i := 0; i < ops; i++ {
				x := rr.U64()
				k := keys[int((x>>8)%uint64(len(keys)))]
				switch p := x % 100; {
				case p < 60:
					m.SetWithCap(k, x>>16, int64(capv))
				case p < 85:
					m.Get(k)
				default:
					m.Del(k)
				}
			}
		}(w)
	}
	wwg.Wait()
	done.Store(true)
	rwg.Wait()
	return maxLen.Load(), t.Len(), concCheck("SegmentUInt64Map", t, capv, writers)
}

func concCache(capv, writers, ops, keyspace int, seed uint64) (int64, int, string) {
	c := cache.New(capv)
	keys := concKeys(cache.VerifCacheSegMap(c), keyspace, vlib.NewR(seed^0x5bd1e995))
	// a private token pool: distinct pointers, few enough that CAS/CAD old
	// tokens coincide with the stored one often.
	// toks[0] is the nil interface: CompareAndSwap(k, nil, v) must act only
	// on a STORED nil, never on a miss.
	toks := make([]any, 8)
	tokID := map[*box]uint64{}
	for i := 1; i < len(toks); i++ {
		b := &box{payload: uint64(i % 3)}
		toks[i] = b
		tokID[b] = uint64(i)
	}
	t := concCacheT{c, tokID}
	var done atomic.Bool
	var maxLen atomic.Int64
	var rwg, wwg sync.WaitGroup
	startReaders(&rwg, &done, &maxLen, keys, seed, t, ops*writers)
	for w := 0; w < writers; w++ {
		wwg.Add(1)
		go func(w int) {
			defer wwg.Done()
			rr := vlib.NewR(seed + 7777 + uint64(w))
			for i := 0; i < ops; i++ {
				x := rr.U64()
				k := keys[int((x>>8)%uint64(len(keys)))]
				tok := toks[int((x>>40)%uint64(len(toks)))]
				tok2 := toks[int((x>>48)%uint64(len(toks)))]
				switch p := x % 100; {
				case p < 45:
					c.Add(k, tok)
				case p < 65:
					c.Get(k)
				case p < 75:
					c.Remove(k)
				case p < 90:
					c.CompareAndSwap(k, tok, tok2)
				default:
					c.CompareAndDelete(k, tok)
				}
			}
		}(w)
	}
	wwg.Wait()
	done.Store(true)
	rwg.Wait()
	return maxLen.Load(), t.Len(), concCheck("cache.Cache", t, max(capv, 1), writers)
}

type concCacheT struct {
	c   *cache.Cache
	ids map[*box]uint64
}

func (t concCacheT) Get(k uint64) (uint64, bool) {
	v, ok := t.c.Get(k)
	if !ok {
		return 0, false
	}
	b, _ := v.(*box)
	return t.ids[b], true
}
func (t concCacheT) ForEach(f func(k, v uint64) bool) {
	t.c.ForEach(func(k uint64, v any) bool { b, _ := v.(*box); return f(k, t.ids[b]) })
}
func (t concCacheT) Len() int { return t.c.Len() }
