//go:build verif

// Correspondence driver for C16 (bounded concurrent tables behave as maps and
// stay within capacity).
//
// exec runs one op line against the real tables of sdns
// (internal/cache.UInt64Map, SegmentUInt64Map, Cache and
// middleware/ratelimit.LimiterStore) and judges the outcome with an oracle
// that is a plain Go map per subsystem plus a full audit of the real table
// after every op. The victim of an eviction is left free: the driver observes
// it (key set before minus key set after) and judges only the constraints the
// property imposes.
package main

import (
	"fmt"
	"iter"
	"sort"
	"strconv"
	"strings"
	"time"

	"github.com/semihalev/sdns/internal/cache"
	"github.com/semihalev/sdns/internal/verif/vlib"
	mcache "github.com/semihalev/sdns/middleware/cache"
	"github.com/semihalev/sdns/middleware/ratelimit"
)

// ---------------------------------------------------------------- tables

// table is the observable surface the audit needs.
type table interface {
	Get(k uint64) (uint64, bool)
	ForEach(f func(k, v uint64) bool)
	Len() int
}

type umapT struct{ m *cache.UInt64Map[uint64] }

func (t umapT) Get(k uint64) (uint64, bool)      { return t.m.Get(k) }
func (t umapT) ForEach(f func(k, v uint64) bool) { t.m.ForEach(f) }
func (t umapT) Len() int                         { return t.m.Len() }

type segT struct {
	m *cache.SegmentUInt64Map[uint64]
}

func (t segT) Get(k uint64) (uint64, bool)      { return t.m.Get(k) }
func (t segT) ForEach(f func(k, v uint64) bool) { t.m.ForEach(f) }
func (t segT) Len() int                         { return int(t.m.Len()) }

// box is the value stored in cache.Cache: one DISTINCT pointer per identity
// id, payload = id % 3 so that different identities have equal contents.
type box struct{ payload uint64 }

var (
	boxes = map[uint64]*box{}
	boxID = map[*box]uint64{}
)

const noID = ^uint64(0)

func boxFor(id uint64) *box {
	if b, ok := boxes[id]; ok {
		return b
	}
	b := &box{payload: id % 3}
	boxes[id] = b
	boxID[b] = id
	return b
}

// valFor maps a token id to the value handed to cache.Cache: id 0 is the nil
// interface (what a miss also yields), every other id one distinct pointer.
func valFor(id uint64) any {
	if id == 0 {
		return nil
	}
	return boxFor(id)
}

func idOf(v any) uint64 {
	if v == nil {
		return 0
	}
	b, ok := v.(*box)
	if !ok {
		return noID
	}
	id, ok := boxID[b]
	if !ok {
		return noID
	}
	return id
}

type cacheT struct{ c *cache.Cache }

func (t cacheT) Get(k uint64) (uint64, bool) {
	v, ok := t.c.Get(k)
	if !ok {
		return 0, false
	}
	return idOf(v), true
}
func (t cacheT) ForEach(f func(k, v uint64) bool) {
	t.c.ForEach(func(k uint64, v any) bool { return f(k, idOf(v)) })
}
func (t cacheT) Len() int { return t.c.Len() }

// ---------------------------------------------------------------- state

type pending struct {
	key     uint64
	victims []uint64
}

var (
	um    = cache.NewUInt64Map[uint64](0)
	uRef  = map[uint64]uint64{}
	uPool = map[uint64]bool{}

	sm    *cache.SegmentUInt64Map[uint64]
	sRef  = map[uint64]uint64{}
	sPool = map[uint64]bool{}
	sPend *pending

	cc    *cache.Cache
	cRef  = map[uint64]uint64{}
	cPool = map[uint64]bool{}
	cCap  int
	cPend *pending

	ls    *ratelimit.LimiterStore
	lRef  = map[uint64]bool{}
	lMax  int
	lPend *pending
	lIDs  = map[uint64]any{}
)

// ---------------------------------------------------------------- helpers

func u64s(v uint64) string { return strconv.FormatUint(v, 10) }

func joinKeys(ks []uint64) string {
	if len(ks) == 0 {
		return "-"
	}
	p := make([]string, len(ks))
	for i, k := range ks {
		p[i] = u64s(k)
	}
	return strings.Join(p, ",")
}

type kv struct{ k, v uint64 }

func pairsStr(ps []kv) string {
	if len(ps) == 0 {
		return "-"
	}
	p := make([]string, len(ps))
	for i, e := range ps {
		p[i] = u64s(e.k) + ":" + u64s(e.v)
	}
	return strings.Join(p, ",")
}

func iterPairs(t table) []kv {
	var out []kv
	t.ForEach(func(k, v uint64) bool { out = append(out, kv{k, v}); return true })
	return out
}

func sortedPairs(t table) []kv {
	ps := iterPairs(t)
	sort.SliceStable(ps, func(i, j int) bool { return ps[i].k < ps[j].k })
	return ps
}

func keySet(t table) map[uint64]bool {
	s := map[uint64]bool{}
	t.ForEach(func(k, _ uint64) bool { s[k] = true; return true })
	return s
}

func reach(t table) int {
	n := 0
	t.ForEach(func(_, _ uint64) bool { n++; return true })
	return n
}

// gone = keys of before that are not in after, ascending.
func gone(before, after map[uint64]bool) []uint64 {
	var out []uint64
	for k := range before {
		if !after[k] {
			out = append(out, k)
		}
	}
	sort.Slice(out, func(i, j int) bool { return out[i] < out[j] })
	return out
}

func sortedKeysU(m map[uint64]uint64) []uint64 {
	out := make([]uint64, 0, len(m))
	for k := range m {
		out = append(out, k)
	}
	sort.Slice(out, func(i, j int) bool { return out[i] < out[j] })
	return out
}

func sortedKeysB(m map[uint64]bool) []uint64 {
	out := make([]uint64, 0, len(m))
	for k := range m {
		out = append(out, k)
	}
	sort.Slice(out, func(i, j int) bool { return out[i] < out[j] })
	return out
}

func contains(ks []uint64, k uint64) bool {
	for _, x := range ks {
		if x == k {
			return true
		}
	}
	return false
}

func fail(sig, format string, a ...any) string {
	return "FAIL sig=" + sig + " " + fmt.Sprintf(format, a...)
}

func tagStr(tags []string) string { return strings.Join(tags, ",") }

func addTag(tags []string, t string) []string {
	for _, x := range tags {
		if x == t {
			return tags
		}
	}
	return append(tags, t)
}

// runOf measures the contiguous occupied run (cyclic) that holds key in a
// raw slot array: its length and whether it crosses the array end.
func runOf(slots []uint64, key uint64) (n int, wraps bool) {
	if key == 0 {
		return 0, false
	}
	idx := -1
	for i, k := range slots {
		if k == key {
			idx = i
			break
		}
	}
	if idx < 0 {
		return 0, false
	}
	L := len(slots)
	n = 1
	for i, c := idx, 0; c < L-1; c++ {
		j := (i + 1) % L
		if slots[j] == 0 {
			break
		}
		if j == 0 {
			wraps = true
		}
		n++
		i = j
	}
	for i, c := idx, 0; c < L-1 && n < L; c++ {
		j := (i - 1 + L) % L
		if slots[j] == 0 {
			break
		}
		if i == 0 {
			wraps = true
		}
		n++
		i = j
	}
	return n, wraps
}

// clusterTags adds cluster/nt (and wrap) when one of the removed keys sat in
// an occupied run of >= 3 slots of the layout taken BEFORE the removal.
func clusterTags(tags []string, slots []uint64, removed ...uint64) []string {
	for _, k := range removed {
		n, w := runOf(slots, k)
		if n >= 3 {
			tags = addTag(addTag(tags, "cluster"), "nt")
			if w {
				tags = addTag(tags, "wrap")
			}
		}
	}
	return tags
}

func segSlots[V any](m *cache.SegmentUInt64Map[V], k uint64) []uint64 {
	return cache.VerifUMapSlots(cache.VerifSegmentData(m, int(cache.VerifSegIndex(m, k))))
}

func segDataLen[V any](m *cache.SegmentUInt64Map[V], k uint64) int {
	return cache.VerifUMapDataLen(cache.VerifSegmentData(m, int(cache.VerifSegIndex(m, k))))
}

// ---------------------------------------------------------------- the audit

// audit compares the real table with the reference map in full:
//   - every reference key is returned by Get with the reference value
//   - ForEach yields every reference key exactly once and nothing else
//   - Len() == len(reference)
//   - no key of the case's pool that is absent from the reference is Get-able
//
// It returns "ok" or a FAIL verdict whose signature is <sub>/<op>/<reason>.
func audit(sub, op string, t table, ref map[uint64]uint64, pool map[uint64]bool) string {
	pre := sub + "/" + op + "/"
	keys := sortedKeysU(ref)
	for _, k := range keys {
		got, ok := t.Get(k)
		if !ok {
			return fail(pre+"unreachable", "key=%d stored with value %d is not returned by Get", k, ref[k])
		}
		if got != ref[k] {
			return fail(pre+"wrong-value", "key=%d want=%d got=%d", k, ref[k], got)
		}
	}
	seen := make(map[uint64]int, len(ref))
	dup, ghost, wrong := "", "", ""
	t.ForEach(func(k, v uint64) bool {
		seen[k]++
		if seen[k] == 2 && dup == "" {
			dup = fail(pre+"duplicate", "key=%d yielded more than once by ForEach", k)
		}
		want, ok := ref[k]
		if !ok {
			if ghost == "" {
				ghost = fail(pre+"ghost", "key=%d yielded by ForEach but it was removed or never stored", k)
			}
		} else if v != want && wrong == "" {
			wrong = fail(pre+"wrong-value", "key=%d ForEach value want=%d got=%d", k, want, v)
		}
		return true
	})
	for _, k := range keys {
		if seen[k] == 0 {
			return fail(pre+"unreachable", "key=%d is not yielded by ForEach", k)
		}
	}
	if wrong != "" {
		return wrong
	}
	if dup != "" {
		return dup
	}
	if ghost != "" {
		return ghost
	}
	for _, k := range sortedKeysB(pool) {
		if _, in := ref[k]; in {
			continue
		}
		if v, ok := t.Get(k); ok {
			return fail(pre+"ghost", "key=%d absent from the reference but Get returns %d", k, v)
		}
	}
	if t.Len() != len(ref) {
		return fail(pre+"miscounted", "Len()=%d reference holds %d", t.Len(), len(ref))
	}
	return "ok"
}

// first non-ok verdict wins.
func verdict(vs ...string) string {
	for _, v := range vs {
		if v != "" && v != "ok" {
			return v
		}
	}
	return "ok"
}

func optStr(v uint64, ok bool) string {
	if !ok {
		return "-"
	}
	return u64s(v)
}

// ---------------------------------------------------------------- exec

// tainted: once the oracle has failed an op of a case, the reference map and
// the table have parted ways and every later audit of that case would only
// repeat the same damage under another op's name. The first failure is the
// finding; the rest of the case is still executed and compared with the
// model but no longer judged (oracle "-", tag "tainted") until the next
// `<sub> new`.
var tainted = map[string]bool{}

var hung = map[string]bool{}

const opTimeout = 20 * time.Second

func exec(op string) vlib.Res {
	f := strings.Fields(op)
	if len(f) < 2 {
		return vlib.Res{Impl: "bad-op"}
	}
	if f[0] == "conc" {
		return execConc(f[1], f[2:])
	}
	if f[0] != "umap" && f[0] != "segmap" && f[0] != "cache" && f[0] != "lim" && f[0] != "ans" && f[0] != "fail" {
		return vlib.Res{Impl: "bad-op"}
	}
	// Watchdog: a (mutated) table must never hang the driver. Each op runs in
	// its own goroutine; one that does not return within opTimeout is reported
	// as a hang, and the rest of that case is skipped (its locks may be held)
	// until the next `<sub> new` builds fresh tables.
	if f[1] == "new" {
		hung[f[0]] = false
		tainted[f[0]] = false
	}
	if hung[f[0]] {
		return vlib.Res{Impl: "hung", Oracle: "-", Tags: "tainted"}
	}
	ch := make(chan vlib.Res, 1)
	go func() {
		defer func() {
			if p := recover(); p != nil {
				ch <- vlib.Res{Impl: "panic", Oracle: fail(f[0]+"/"+f[1]+"/panic", "%v", p), Tags: "panic"}
			}
		}()
		switch f[0] {
		case "umap":
			ch <- execUmap(f[1], f[2:])
		case "segmap":
			ch <- execSegmap(f[1], f[2:])
		case "cache":
			ch <- execCache(f[1], f[2:])
		case "ans":
			ch <- execAns(f[1], f[2:])
		case "fail":
			ch <- execFail(f[1], f[2:])
		default:
			ch <- execLim(f[1], f[2:])
		}
	}()
	var res vlib.Res
	select {
	case res = <-ch:
	case <-time.After(opTimeout):
		hung[f[0]] = true
		return vlib.Res{Impl: "hung", Oracle: fail(f[0]+"/"+f[1]+"/hang", "the operation did not return within %v (deadlock or endless loop)", opTimeout), Tags: "hang"}
	}
	if tainted[f[0]] {
		res.Oracle = "-"
		res.Tags = tagStr(addTag(strings.FieldsFunc(res.Tags, func(c rune) bool { return c == ',' }), "tainted"))
	} else if strings.HasPrefix(res.Oracle, "FAIL") {
		tainted[f[0]] = true
	}
	return res
}

func need(a []string, n int) bool { return len(a) == n }

func execUmap(op string, a []string) vlib.Res {
	t := umapT{um}
	var tags []string
	aud := func() string { return audit("umap", op, umapT{um}, uRef, uPool) }
	shape := func() string {
		return fmt.Sprintf("n=%d growat=%d", cache.VerifUMapDataLen(um), cache.VerifUMapGrowAt(um))
	}
	switch op {
	case "new":
		if !need(a, 1) {
			break
		}
		um = cache.NewUInt64Map[uint64](vlib.Atoi(a[0]))
		uRef = map[uint64]uint64{}
		uPool = map[uint64]bool{}
		return vlib.Res{Impl: shape(), Oracle: aud()}
	case "put":
		if !need(a, 2) {
			break
		}
		k, v := vlib.AtoU64(a[0]), vlib.AtoU64(a[1])
		uPool[k] = true
		n0 := cache.VerifUMapDataLen(um)
		um.Put(k, v)
		uRef[k] = v
		if cache.VerifUMapDataLen(um) != n0 {
			tags = append(tags, "grow", "nt")
		}
		if k == 0 {
			tags = addTag(tags, "zero")
		}
		return vlib.Res{Impl: fmt.Sprintf("len=%d", um.Len()), Oracle: aud(), Tags: tagStr(tags)}
	case "pine":
		if !need(a, 2) {
			break
		}
		k, v := vlib.AtoU64(a[0]), vlib.AtoU64(a[1])
		uPool[k] = true
		n0 := cache.VerifUMapDataLen(um)
		got, ins := um.PutIfNotExists(k, v)
		wantV, wantIns := v, true
		if old, ok := uRef[k]; ok {
			wantV, wantIns = old, false
		} else {
			uRef[k] = v
		}
		or := ""
		if got != wantV || ins != wantIns {
			or = fail("umap/pine/wrong-result", "key=%d want=(%d,%v) got=(%d,%v)", k, wantV, wantIns, got, ins)
		}
		if cache.VerifUMapDataLen(um) != n0 {
			tags = append(tags, "grow", "nt")
		}
		if k == 0 {
			tags = addTag(tags, "zero")
		}
		return vlib.Res{Impl: u64s(got) + " " + vlib.B(ins), Oracle: verdict(or, aud()), Tags: tagStr(tags)}
	case "get":
		if !need(a, 1) {
			break
		}
		k := vlib.AtoU64(a[0])
		uPool[k] = true
		got, ok := t.Get(k)
		want, wok := uRef[k]
		or := ""
		if ok != wok || (ok && got != want) {
			or = fail("umap/get/wrong-result", "key=%d want=%s got=%s", k, optStr(want, wok), optStr(got, ok))
		}
		if k == 0 {
			tags = addTag(tags, "zero")
		}
		return vlib.Res{Impl: optStr(got, ok), Oracle: verdict(or, aud()), Tags: tagStr(tags)}
	case "has":
		if !need(a, 1) {
			break
		}
		k := vlib.AtoU64(a[0])
		uPool[k] = true
		got := um.Has(k)
		_, want := uRef[k]
		or := ""
		if got != want {
			or = fail("umap/has/wrong-result", "key=%d want=%v got=%v", k, want, got)
		}
		return vlib.Res{Impl: vlib.B(got), Oracle: verdict(or, aud())}
	case "del":
		if !need(a, 1) {
			break
		}
		k := vlib.AtoU64(a[0])
		uPool[k] = true
		slots := cache.VerifUMapSlots(um)
		got := um.Del(k)
		_, want := uRef[k]
		delete(uRef, k)
		or := ""
		if got != want {
			or = fail("umap/del/wrong-result", "key=%d present=%v Del returned %v", k, want, got)
		}
		if want {
			tags = clusterTags(tags, slots, k)
		}
		if k == 0 {
			tags = addTag(tags, "zero")
		}
		return vlib.Res{Impl: vlib.B(got), Oracle: verdict(or, aud()), Tags: tagStr(tags)}
	case "evict":
		if !need(a, 3) {
			break
		}
		off, n, skip := vlib.Atoi(a[0]), vlib.Atoi(a[1]), vlib.AtoU64(a[2])
		uPool[skip] = true
		slots := cache.VerifUMapSlots(um)
		before := keySet(t)
		d := um.EvictKeysAt(off, n, skip)
		vict := gone(before, keySet(t))
		for _, w := range vict {
			delete(uRef, w)
		}
		or := ""
		if contains(vict, skip) {
			or = fail("umap/evict/evicted-own-key", "skip=%d was evicted (victims %s)", skip, joinKeys(vict))
		} else if d != len(vict) || d > n || d < 0 {
			or = fail("umap/evict/count", "returned %d, asked for at most %d, %d keys disappeared (%s)", d, n, len(vict), joinKeys(vict))
		}
		if len(vict) > 0 {
			tags = append(tags, "evict", "nt")
			tags = clusterTags(tags, slots, vict...)
			if contains(vict, 0) {
				tags = addTag(tags, "zero")
			}
		}
		return vlib.Res{Impl: fmt.Sprintf("d=%d ev=%s", d, joinKeys(vict)), Oracle: verdict(or, aud()), Tags: tagStr(tags)}
	case "clear":
		um.Clear()
		uRef = map[uint64]uint64{}
		return vlib.Res{Impl: "ok", Oracle: aud()}
	case "grow":
		cache.VerifUMapGrow(um)
		return vlib.Res{Impl: shape(), Oracle: aud(), Tags: "grow,nt"}
	case "len":
		got := um.Len()
		or := ""
		if got != len(uRef) {
			or = fail("umap/len/wrong-result", "Len()=%d reference holds %d", got, len(uRef))
		}
		return vlib.Res{Impl: strconv.Itoa(got), Oracle: verdict(or, aud())}
	case "dump":
		return vlib.Res{Impl: fmt.Sprintf("n=%d size=%d %s", cache.VerifUMapDataLen(um), um.Len(), pairsStr(sortedPairs(t))), Oracle: aud()}
	case "iter":
		return vlib.Res{Impl: pairsStr(iterPairs(t)), Oracle: aud()}
	case "keys", "values", "first":
		return iterOp("umap", op, a, um.Keys(), um.Values(), um.All(), uRef, aud)
	case "slots":
		sl := cache.VerifUMapSlots(um)
		p := make([]string, len(sl))
		for i, k := range sl {
			p[i] = u64s(k)
		}
		hz, zv := cache.VerifUMapZero(um)
		s := "-"
		if len(p) > 0 {
			s = strings.Join(p, ",")
		}
		return vlib.Res{Impl: s + " z=" + optStr(zv, hz), Oracle: aud()}
	}
	return vlib.Res{Impl: "bad-op"}
}

// insertWithCap is the shared judge of `segmap setcap` and `cache add`:
// do() performs the real insert; the victims are the keys that disappeared.
func insertWithCap(sub, op string, t table, ref map[uint64]uint64, pool map[uint64]bool,
	k, v uint64, capv int, slotsOf func() []uint64, dataLen func() int, do func()) (vlib.Res, *pending) {
	var tags []string
	pool[k] = true
	before := keySet(t)
	lenBefore := t.Len()
	slots := slotsOf()
	n0 := dataLen()
	do()
	after := keySet(t)
	vict := gone(before, after)
	// the written key is not a victim by construction of `gone` when it was
	// new; treat "written key absent afterwards" as the same violation.
	ref[k] = v
	for _, w := range vict {
		if w != k {
			delete(ref, w)
		}
	}
	or := ""
	if !after[k] {
		or = fail(sub+"/"+op+"/evicted-own-key", "key=%d is gone right after it was written (victims %s)", k, joinKeys(vict))
	} else if bound := max(capv, lenBefore); capv >= 1 && t.Len() > bound {
		or = fail(sub+"/"+op+"/over-capacity", "Len()=%d after the insert, capacity=%d, Len() before=%d", t.Len(), capv, lenBefore)
	}
	if len(vict) > 0 {
		tags = append(tags, "evict", "nt")
		tags = clusterTags(tags, slots, vict...)
	}
	if dataLen() != n0 {
		tags = addTag(addTag(tags, "grow"), "nt")
	}
	if k == 0 {
		tags = addTag(tags, "zero")
	}
	return vlib.Res{Impl: "ok", Oracle: verdict(or, audit(sub, op, t, ref, pool)), Tags: tagStr(tags)},
		&pending{key: k, victims: vict}
}

func evictedRes(sub string, p *pending, k uint64, victims string, t table, ref map[uint64]uint64, pool map[uint64]bool) vlib.Res {
	if p == nil || p.key != k || joinKeys(p.victims) != victims {
		return vlib.Res{Impl: "stale", Oracle: "-"}
	}
	return vlib.Res{Impl: fmt.Sprintf("len=%d", t.Len()), Oracle: audit(sub, "evicted", t, ref, pool)}
}

func execSegmap(op string, a []string) vlib.Res {
	if op == "new" {
		if !need(a, 2) {
			return vlib.Res{Impl: "bad-op"}
		}
		sm = cache.NewSegmentUInt64Map[uint64](uint8(vlib.Atoi(a[0])), vlib.Atoi(a[1]))
		sRef = map[uint64]uint64{}
		sPool = map[uint64]bool{}
		sPend = nil
		return vlib.Res{Impl: fmt.Sprintf("segs=%d", sm.SegmentCount()), Oracle: audit("segmap", op, segT{sm}, sRef, sPool)}
	}
	if sm == nil {
		return vlib.Res{Impl: "no-table"}
	}
	t := segT{sm}
	var tags []string
	aud := func() string { return audit("segmap", op, t, sRef, sPool) }
	switch op {
	case "set":
		if !need(a, 2) {
			break
		}
		k, v := vlib.AtoU64(a[0]), vlib.AtoU64(a[1])
		sPool[k] = true
		n0 := segDataLen(sm, k)
		sm.Set(k, v)
		sRef[k] = v
		if segDataLen(sm, k) != n0 {
			tags = append(tags, "grow", "nt")
		}
		if k == 0 {
			tags = addTag(tags, "zero")
		}
		return vlib.Res{Impl: fmt.Sprintf("len=%d", sm.Len()), Oracle: aud(), Tags: tagStr(tags)}
	case "setcap":
		if !need(a, 3) {
			break
		}
		k, v, capv := vlib.AtoU64(a[0]), vlib.AtoU64(a[1]), vlib.Atoi(a[2])
		res, p := insertWithCap("segmap", op, t, sRef, sPool, k, v, capv,
			func() []uint64 { return allSegSlots(sm) }, func() int { return segDataLen(sm, k) },
			func() { sm.SetWithCap(k, v, int64(capv)) })
		sPend = p
		return res
	case "evicted":
		if !need(a, 3) {
			break
		}
		p := sPend
		sPend = nil
		return evictedRes("segmap", p, vlib.AtoU64(a[0]), a[2], t, sRef, sPool)
	case "pine":
		if !need(a, 2) {
			break
		}
		k, v := vlib.AtoU64(a[0]), vlib.AtoU64(a[1])
		sPool[k] = true
		n0 := segDataLen(sm, k)
		got, ins := sm.PutIfNotExists(k, v)
		wantV, wantIns := v, true
		if old, ok := sRef[k]; ok {
			wantV, wantIns = old, false
		} else {
			sRef[k] = v
		}
		or := ""
		if got != wantV || ins != wantIns {
			or = fail("segmap/pine/wrong-result", "key=%d want=(%d,%v) got=(%d,%v)", k, wantV, wantIns, got, ins)
		}
		if segDataLen(sm, k) != n0 {
			tags = append(tags, "grow", "nt")
		}
		return vlib.Res{Impl: u64s(got) + " " + vlib.B(ins), Oracle: verdict(or, aud()), Tags: tagStr(tags)}
	case "get":
		if !need(a, 1) {
			break
		}
		k := vlib.AtoU64(a[0])
		sPool[k] = true
		got, ok := sm.Get(k)
		want, wok := sRef[k]
		or := ""
		if ok != wok || (ok && got != want) {
			or = fail("segmap/get/wrong-result", "key=%d want=%s got=%s", k, optStr(want, wok), optStr(got, ok))
		}
		return vlib.Res{Impl: optStr(got, ok), Oracle: verdict(or, aud())}
	case "has":
		if !need(a, 1) {
			break
		}
		k := vlib.AtoU64(a[0])
		sPool[k] = true
		got := sm.Has(k)
		_, want := sRef[k]
		or := ""
		if got != want {
			or = fail("segmap/has/wrong-result", "key=%d want=%v got=%v", k, want, got)
		}
		return vlib.Res{Impl: vlib.B(got), Oracle: verdict(or, aud())}
	case "del":
		if !need(a, 1) {
			break
		}
		k := vlib.AtoU64(a[0])
		sPool[k] = true
		slots := segSlots(sm, k)
		got := sm.Del(k)
		_, want := sRef[k]
		delete(sRef, k)
		or := ""
		if got != want {
			or = fail("segmap/del/wrong-result", "key=%d present=%v Del returned %v", k, want, got)
		}
		if want {
			tags = clusterTags(tags, slots, k)
		}
		if k == 0 {
			tags = addTag(tags, "zero")
		}
		return vlib.Res{Impl: vlib.B(got), Oracle: verdict(or, aud()), Tags: tagStr(tags)}
	case "len":
		got := sm.Len()
		or := ""
		if got != int64(len(sRef)) {
			or = fail("segmap/len/wrong-result", "Len()=%d reference holds %d", got, len(sRef))
		}
		return vlib.Res{Impl: strconv.FormatInt(got, 10), Oracle: verdict(or, aud())}
	case "reach":
		got := reach(t)
		or := ""
		if got != len(sRef) {
			or = fail("segmap/reach/wrong-result", "ForEach yields %d entries, reference holds %d", got, len(sRef))
		}
		return vlib.Res{Impl: strconv.Itoa(got), Oracle: verdict(or, aud())}
	case "clear":
		sm.Clear()
		sRef = map[uint64]uint64{}
		return vlib.Res{Impl: "ok", Oracle: aud()}
	case "clearseg":
		if !need(a, 1) {
			break
		}
		// which keys a segment holds is the implementation's business: the
		// oracle only demands that whatever disappeared is no longer
		// counted and everything else is intact.
		before := keySet(t)
		sm.ClearSegment(vlib.Atoi(a[0]))
		vict := gone(before, keySet(t))
		for _, w := range vict {
			delete(sRef, w)
		}
		if len(vict) > 0 {
			tags = append(tags, "clearseg", "nt")
		}
		return vlib.Res{Impl: fmt.Sprintf("len=%d", sm.Len()), Oracle: aud(), Tags: tagStr(tags)}
	case "dump":
		return vlib.Res{Impl: fmt.Sprintf("count=%d %s", sm.Len(), pairsStr(sortedPairs(t))), Oracle: aud()}
	case "keys", "values", "first":
		return iterOp("segmap", op, a, sm.Keys(), sm.Values(), sm.All(), sRef, aud)
	case "sweep":
		if !need(a, 4) || (a[1] != "set" && a[1] != "del") {
			break
		}
		k, v := vlib.AtoU64(a[2]), vlib.AtoU64(a[3])
		sPool[k] = true
		return sweepOp("segmap", t, sRef, sPool, vlib.Atoi(a[0]), k,
			func(cur uint64) bool { return cache.VerifSegIndex(sm, cur) == cache.VerifSegIndex(sm, k) },
			func() {
				if a[1] == "set" {
					sm.Set(k, v)
					sRef[k] = v
				} else {
					sm.Del(k)
					delete(sRef, k)
				}
			})
	}
	return vlib.Res{Impl: "bad-op"}
}

// sweepOp runs one ForEach during which, when the j-th entry is delivered,
// ONE write lands in another segment (the callback runs under the current
// segment's read lock, so a write to that same segment is skipped). The
// property's iterate clause, judged from the reference map alone: every entry
// that was stored before the sweep and is not the written key must be
// delivered exactly once with its value; nothing may be delivered that is
// neither in the map before nor after the write.
func sweepOp(sub string, t table, ref map[uint64]uint64, pool map[uint64]bool, j int, k uint64,
	sameSeg func(cur uint64) bool, write func()) vlib.Res {
	before := make(map[uint64]uint64, len(ref))
	for kk, vv := range ref {
		before[kk] = vv
	}
	var visited []kv
	w := "none"
	i := 0
	// the write is issued by ANOTHER goroutine while the callback waits for it:
	// a sweep that is busy in one segment must not stand in the way of a writer
	// to a different segment ("writers never wait on a global lock")
	wdone := make(chan struct{})
	blocked := false
	t.ForEach(func(k2, v2 uint64) bool {
		visited = append(visited, kv{k2, v2})
		if i == j {
			if sameSeg(k2) {
				w = "skipped"
			} else {
				go func() { defer close(wdone); write() }()
				select {
				case <-wdone:
				case <-time.After(3 * time.Second):
					blocked = true
				}
				w = "done"
			}
		}
		i++
		return true
	})
	or := ""
	if blocked {
		// the sweep is over: the writer can finish now (keeps the table and the reference in step)
		select {
		case <-wdone:
		case <-time.After(10 * time.Second):
		}
		or = fail(sub+"/sweep/writer-blocked-by-iteration", "a write to key %d, in another segment than the one the sweep was visiting (entry #%d), could not proceed until the whole sweep had returned", k, j)
	}
	seen := map[uint64]int{}
	for _, e := range visited {
		seen[e.k]++
		_, inB := before[e.k]
		_, inA := ref[e.k]
		switch {
		case seen[e.k] > 1 && or == "":
			or = fail(sub+"/sweep/duplicate", "key=%d delivered twice by one ForEach", e.k)
		case !inB && !inA && or == "":
			or = fail(sub+"/sweep/ghost", "key=%d delivered but stored neither before nor after the concurrent write", e.k)
		}
	}
	for _, kk := range sortedKeysU(before) {
		if kk == k {
			continue // the written key may or may not be seen
		}
		if seen[kk] == 0 && or == "" {
			or = fail(sub+"/sweep/missed-entry", "key=%d was stored during the whole sweep and never touched, but ForEach did not deliver it (write %s on key %d at entry #%d)", kk, w, k, j)
		}
	}
	for _, e := range visited {
		if e.k != k && or == "" && before[e.k] != e.v {
			or = fail(sub+"/sweep/wrong-value", "key=%d delivered with %d, stored %d", e.k, e.v, before[e.k])
		}
	}
	tags := ""
	if w == "done" {
		tags = "nt,sweep"
	}
	return vlib.Res{Impl: "w=" + w + " " + pairsStr(visited), Oracle: verdict(or, audit(sub, "sweep", t, ref, pool)), Tags: tags}
}

// iterOp drives the range-over-func iterators (Keys, Values, All) and an
// iteration that stops early. Oracle from the reference map: Keys yields every
// stored key exactly once, Values the multiset of stored values, a stopped
// iteration delivers exactly j+1 distinct stored pairs (or all, if fewer).
func iterOp(sub, op string, a []string, keys iter.Seq[uint64], values iter.Seq[uint64], all iter.Seq2[uint64, uint64],
	ref map[uint64]uint64, aud func() string) vlib.Res {
	or := ""
	switch op {
	case "keys":
		var ks []uint64
		seen := map[uint64]int{}
		for k := range keys {
			ks = append(ks, k)
			seen[k]++
			if _, in := ref[k]; (!in || seen[k] > 1) && or == "" {
				or = fail(sub+"/keys/wrong-result", "Keys() yields key=%d (stored=%v, %d times)", k, in, seen[k])
			}
		}
		if len(ks) != len(ref) && or == "" {
			or = fail(sub+"/keys/wrong-result", "Keys() yields %d keys, %d stored", len(ks), len(ref))
		}
		return vlib.Res{Impl: joinKeys(ks), Oracle: verdict(or, aud())}
	case "values":
		var vs []uint64
		want := map[uint64]int{}
		for _, v := range ref {
			want[v]++
		}
		for v := range values {
			vs = append(vs, v)
			want[v]--
		}
		for v, c := range want {
			if c != 0 && or == "" {
				or = fail(sub+"/values/wrong-result", "Values() yields value %d %+d times too few/many", v, c)
			}
		}
		return vlib.Res{Impl: joinKeys(vs), Oracle: verdict(or, aud())}
	case "first":
		if !need(a, 1) {
			break
		}
		j := vlib.Atoi(a[0])
		var ps []kv
		seen := map[uint64]bool{}
		for k, v := range all {
			ps = append(ps, kv{k, v})
			if rv, in := ref[k]; (!in || rv != v || seen[k]) && or == "" {
				or = fail(sub+"/first/wrong-result", "stopped iteration yields %d:%d (stored=%v, again=%v)", k, v, in, seen[k])
			}
			seen[k] = true
			if len(ps) == j+1 {
				break
			}
		}
		if want := min(j+1, len(ref)); len(ps) != want && or == "" {
			or = fail(sub+"/first/wrong-result", "iteration stopped after entry #%d delivered %d entries, want %d", j, len(ps), want)
		}
		return vlib.Res{Impl: pairsStr(ps), Oracle: verdict(or, aud())}
	}
	return vlib.Res{Impl: "bad-op"}
}

// allSegSlots concatenates the raw slot arrays of all segments separated by
// an empty slot, so that runOf finds a victim wherever it lived.
func allSegSlots[V any](m *cache.SegmentUInt64Map[V]) []uint64 {
	var out []uint64
	for i := 0; i < m.SegmentCount(); i++ {
		d := cache.VerifSegmentData(m, i)
		if d.Len() == 0 {
			continue
		}
		out = append(out, cache.VerifUMapSlots(d)...)
		out = append(out, 0)
	}
	return out
}

func execCache(op string, a []string) vlib.Res {
	if op == "new" {
		if !need(a, 1) {
			return vlib.Res{Impl: "bad-op"}
		}
		size := vlib.Atoi(a[0])
		cc = cache.New(size)
		cCap = max(size, 1) // "configured capacity"; New documents size < 1 as 1
		cRef = map[uint64]uint64{}
		cPool = map[uint64]bool{}
		cPend = nil
		return vlib.Res{Impl: "ok", Oracle: audit("cache", op, cacheT{cc}, cRef, cPool)}
	}
	if cc == nil {
		return vlib.Res{Impl: "no-table"}
	}
	t := cacheT{cc}
	inner := cache.VerifCacheSegMap(cc)
	var tags []string
	aud := func() string { return audit("cache", op, t, cRef, cPool) }
	switch op {
	case "add":
		if !need(a, 2) {
			break
		}
		k, id := vlib.AtoU64(a[0]), vlib.AtoU64(a[1])
		res, p := insertWithCap("cache", op, t, cRef, cPool, k, id, cCap,
			func() []uint64 { return allSegSlots(inner) }, func() int { return segDataLen(inner, k) },
			func() { cc.Add(k, valFor(id)) })
		cPend = p
		return res
	case "evicted":
		if !need(a, 2) {
			break
		}
		p := cPend
		cPend = nil
		return evictedRes("cache", p, vlib.AtoU64(a[0]), a[1], t, cRef, cPool)
	case "get":
		if !need(a, 1) {
			break
		}
		k := vlib.AtoU64(a[0])
		cPool[k] = true
		got, ok := t.Get(k)
		want, wok := cRef[k]
		or := ""
		if ok != wok || (ok && got != want) {
			or = fail("cache/get/wrong-result", "key=%d want=%s got=%s", k, optStr(want, wok), optStr(got, ok))
		}
		return vlib.Res{Impl: optStr(got, ok), Oracle: verdict(or, aud())}
	case "remove":
		if !need(a, 1) {
			break
		}
		k := vlib.AtoU64(a[0])
		cPool[k] = true
		slots := segSlots(inner, k)
		cc.Remove(k)
		_, was := cRef[k]
		delete(cRef, k)
		if was {
			tags = clusterTags(tags, slots, k)
		}
		return vlib.Res{Impl: "ok", Oracle: aud(), Tags: tagStr(tags)}
	case "cas", "cad":
		if (op == "cas" && !need(a, 3)) || (op == "cad" && !need(a, 2)) {
			break
		}
		k, old := vlib.AtoU64(a[0]), vlib.AtoU64(a[1])
		cPool[k] = true
		cur, present := cRef[k]
		want := present && cur == old
		slots := segSlots(inner, k)
		var got bool
		if op == "cas" {
			nw := vlib.AtoU64(a[2])
			got = cc.CompareAndSwap(k, valFor(old), valFor(nw))
			if want {
				cRef[k] = nw
			}
		} else {
			got = cc.CompareAndDelete(k, valFor(old))
			if want {
				delete(cRef, k)
				tags = clusterTags(tags, slots, k)
			}
		}
		or := ""
		if got && !want {
			or = fail("cache/"+op+"/acted-on-non-identical", "key=%d current=%s old=%d: acted although the identical value is not present",
				k, optStr(cur, present), old)
		} else if !got && want {
			or = fail("cache/"+op+"/refused-identical", "key=%d current=%d old=%d: refused although the identical value is present", k, cur, old)
		}
		if present && cur != old && cur%3 == old%3 {
			tags = addTag(addTag(tags, "ident"), "nt")
		}
		if old == 0 && !present {
			tags = addTag(addTag(tags, "nil-absent"), "nt")
		}
		if k == 0 {
			tags = addTag(tags, "zero")
		}
		return vlib.Res{Impl: vlib.B(got), Oracle: verdict(or, aud()), Tags: tagStr(tags)}
	case "len":
		got := cc.Len()
		or := ""
		if got != len(cRef) {
			or = fail("cache/len/wrong-result", "Len()=%d reference holds %d", got, len(cRef))
		}
		return vlib.Res{Impl: strconv.Itoa(got), Oracle: verdict(or, aud())}
	case "reach":
		got := reach(t)
		or := ""
		if got != len(cRef) {
			or = fail("cache/reach/wrong-result", "ForEach yields %d entries, reference holds %d", got, len(cRef))
		}
		return vlib.Res{Impl: strconv.Itoa(got), Oracle: verdict(or, aud())}
	case "dump":
		return vlib.Res{Impl: fmt.Sprintf("count=%d %s", cc.Len(), pairsStr(sortedPairs(t))), Oracle: aud()}
	case "sweep":
		if !need(a, 4) || (a[1] != "add" && a[1] != "remove") {
			break
		}
		k, id := vlib.AtoU64(a[2]), vlib.AtoU64(a[3])
		cPool[k] = true
		_, present := cRef[k]
		// an Add that would have to evict is not issued from inside a sweep:
		// its toll walk may need the very segment the sweep holds
		blocked := a[1] == "add" && !present && cc.Len() >= cCap
		return sweepOp("cache", t, cRef, cPool, vlib.Atoi(a[0]), k,
			func(cur uint64) bool {
				return blocked || cache.VerifSegIndex(inner, cur) == cache.VerifSegIndex(inner, k)
			},
			func() {
				if a[1] == "add" {
					cc.Add(k, valFor(id))
					cRef[k] = id
				} else {
					cc.Remove(k)
					delete(cRef, k)
				}
			})
	}
	return vlib.Res{Impl: "bad-op"}
}

// ---------------------------------------------------------------- answer caches

// `ans` ops drive middleware/cache.PositiveCache / NegativeCache (thin layers
// over cache.Cache with an expiry check in Get). Entry tokens: an ODD token is
// an entry that is already expired when it is stored (alternately by a lapsed
// TTL and by a lapsed delegation cut), an even one is live for an hour.
// Oracle from the property text: a key yields the value most recently stored
// under it — so after Set(k, expired) a Get(k) is a miss (never the older
// value), and Len counts what iteration/lookup can still reach.
var (
	ansC    answerCache
	ansRef  = map[uint64]uint64{}
	ansEnt  = map[uint64]*mcache.CacheEntry{}
	ansTok  = map[*mcache.CacheEntry]uint64{}
	ansFlip bool
)

func ansEntry(tok uint64) *mcache.CacheEntry {
	var e *mcache.CacheEntry
	switch {
	case tok%2 == 0:
		e = mcache.VerifC16Entry(false)
	case ansFlip:
		e = mcache.VerifC16EntryCut()
	default:
		e = mcache.VerifC16Entry(true)
	}
	ansFlip = !ansFlip
	ansTok[e] = tok
	return e
}

func execAns(op string, a []string) vlib.Res {
	if op == "new" {
		if !need(a, 2) {
			return vlib.Res{Impl: "bad-op"}
		}
		size := vlib.Atoi(a[1])
		switch a[0] {
		case "pos":
			ansC = mcache.NewPositiveCache(size, time.Second, time.Hour, nil)
		case "neg":
			ansC = mcache.NewNegativeCache(size, time.Second, time.Hour, nil)
		default:
			return vlib.Res{Impl: "bad-op"}
		}
		ansRef = map[uint64]uint64{}
		ansTok = map[*mcache.CacheEntry]uint64{}
		return vlib.Res{Impl: "ok", Oracle: "ok"}
	}
	if ansC == nil {
		return vlib.Res{Impl: "no-table"}
	}
	switch op {
	case "set":
		if !need(a, 2) {
			break
		}
		k, tok := vlib.AtoU64(a[0]), vlib.AtoU64(a[1])
		ansC.Set(k, ansEntry(tok))
		ansRef[k] = tok
		or := "ok"
		if ansC.Len() != len(ansRef) {
			or = fail("ans/set/miscounted", "Len()=%d after Set(%d, token %d), %d keys stored", ansC.Len(), k, tok, len(ansRef))
		}
		tags := ""
		if tok%2 == 1 {
			tags = "nt,expired-set"
		}
		return vlib.Res{Impl: fmt.Sprintf("len=%d", ansC.Len()), Oracle: or, Tags: tags}
	case "get":
		if !need(a, 1) {
			break
		}
		k := vlib.AtoU64(a[0])
		e, ok := ansC.Get(k)
		got := "-"
		if ok {
			got = u64s(ansTok[e])
		}
		want := "-"
		if tok, in := ansRef[k]; in {
			if tok%2 == 0 {
				want = u64s(tok)
			} else {
				delete(ansRef, k) // the lookup drops the expired entry
			}
		}
		or := "ok"
		switch {
		case got != want:
			or = fail("ans/get/not-most-recent", "Get(%d) yields %s, the value most recently stored under the key yields %s", k, got, want)
		case ansC.Len() != len(ansRef):
			or = fail("ans/get/miscounted", "Len()=%d after Get(%d), %d keys stored", ansC.Len(), k, len(ansRef))
		}
		return vlib.Res{Impl: fmt.Sprintf("%s len=%d", got, ansC.Len()), Oracle: or, Tags: "nt"}
	case "remove":
		if !need(a, 1) {
			break
		}
		k := vlib.AtoU64(a[0])
		ansC.Remove(k)
		delete(ansRef, k)
		or := "ok"
		if ansC.Len() != len(ansRef) {
			or = fail("ans/remove/miscounted", "Len()=%d, %d keys stored", ansC.Len(), len(ansRef))
		}
		return vlib.Res{Impl: fmt.Sprintf("len=%d", ansC.Len()), Oracle: or}
	case "len":
		or := "ok"
		if ansC.Len() != len(ansRef) {
			or = fail("ans/len/miscounted", "Len()=%d, %d keys stored", ansC.Len(), len(ansRef))
		}
		return vlib.Res{Impl: strconv.Itoa(ansC.Len()), Oracle: or}
	}
	return vlib.Res{Impl: "bad-op"}
}

// limAudit: the store holds exactly the reference keys.
func limAudit(op string) string {
	keys := ratelimit.VerifLimiterKeys(ls)
	have := map[uint64]bool{}
	for _, k := range keys {
		have[k] = true
	}
	for _, k := range sortedKeysB(lRef) {
		if !have[k] {
			return fail("lim/"+op+"/unreachable", "key=%d is no longer in the store", k)
		}
	}
	sort.Slice(keys, func(i, j int) bool { return keys[i] < keys[j] })
	for _, k := range keys {
		if !lRef[k] {
			return fail("lim/"+op+"/ghost", "key=%d is in the store but was never requested or was evicted", k)
		}
	}
	if ls.Len() != len(lRef) {
		return fail("lim/"+op+"/miscounted", "Len()=%d reference holds %d", ls.Len(), len(lRef))
	}
	return "ok"
}

func execLim(op string, a []string) vlib.Res {
	if op == "new" {
		if len(a) < 1 || len(a) > 2 {
			return vlib.Res{Impl: "bad-op"}
		}
		lMax = vlib.Atoi(a[0])
		rate := 10
		if len(a) == 2 {
			rate = vlib.Atoi(a[1])
		}
		ls = ratelimit.NewLimiterStore(lMax, rate)
		lRef = map[uint64]bool{}
		lIDs = map[uint64]any{}
		lPend = nil
		return vlib.Res{Impl: "ok", Oracle: limAudit(op)}
	}
	if op == "churn" {
		if len(a) != 3 && len(a) != 5 {
			return vlib.Res{Impl: "bad-op"}
		}
		rate, spend := 10, false
		if len(a) == 5 {
			rate, spend = vlib.Atoi(a[3]), a[4] == "t"
		}
		return limChurn(vlib.Atoi(a[0]), vlib.Atoi(a[1]), vlib.AtoU64(a[2]), rate, spend)
	}
	if ls == nil {
		return vlib.Res{Impl: "no-table"}
	}
	switch op {
	case "get":
		if !need(a, 1) {
			break
		}
		k := vlib.AtoU64(a[0])
		before := map[uint64]bool{}
		for _, x := range ratelimit.VerifLimiterKeys(ls) {
			before[x] = true
		}
		l := ls.Get(k)
		// distinct keys never alias: the limiter handed out for k must not be
		// the one another stored key currently owns
		aliasOf := uint64(0)
		aliased := false
		id := ratelimit.VerifLimiterID(l)
		for ok2, oid := range lIDs {
			if ok2 != k && oid == id && lRef[ok2] {
				aliasOf, aliased = ok2, true
			}
		}
		lIDs[k] = id
		// lastSeen is wall-clock nanoseconds: make sure the next touch gets a
		// strictly later stamp, so "least recently seen" is never a tie
		for t0 := time.Now().UnixNano(); time.Now().UnixNano() == t0; {
		}
		after := map[uint64]bool{}
		for _, x := range ratelimit.VerifLimiterKeys(ls) {
			after[x] = true
		}
		vict := gone(before, after)
		lRef[k] = true
		for _, w := range vict {
			if w != k {
				delete(lRef, w)
			}
		}
		or := ""
		switch {
		case l == nil:
			or = fail("lim/get/wrong-result", "Get(%d) returned nil", k)
		case aliased:
			or = fail("lim/get/aliased-keys", "Get(%d) returned the very limiter that key %d owns: two clients share one bucket", k, aliasOf)
		case !after[k]:
			or = fail("lim/get/evicted-own-key", "key=%d is not in the store right after Get (victims %s)", k, joinKeys(vict))
		case len(vict) > 1:
			or = fail("lim/get/multiple-victims", "one Get evicted %s", joinKeys(vict))
		case ls.Len() > max(lMax, 1):
			or = fail("lim/get/over-capacity", "Len()=%d max=%d", ls.Len(), lMax)
		}
		tags := ""
		if len(vict) > 0 {
			tags = "evict,nt"
		}
		lPend = &pending{key: k, victims: vict}
		return vlib.Res{Impl: "ok", Oracle: verdict(or, limAudit(op)), Tags: tags}
	case "evicted":
		if !need(a, 2) {
			break
		}
		p := lPend
		lPend = nil
		if p == nil || p.key != vlib.AtoU64(a[0]) || joinKeys(p.victims) != a[1] {
			return vlib.Res{Impl: "stale", Oracle: "-"}
		}
		return vlib.Res{Impl: fmt.Sprintf("len=%d", ls.Len()), Oracle: limAudit(op)}
	case "spend", "cookie":
		// the limiter's own state (an exhausted token bucket, a learnt
		// cookie) must not matter to the store: neither op changes the key set
		if !need(a, 1) {
			break
		}
		k := vlib.AtoU64(a[0])
		if op == "spend" {
			ratelimit.VerifLimiterSpend(ls, k)
		} else {
			ratelimit.VerifLimiterSetCookie(ls, k, "0123456789abcdef")
		}
		return vlib.Res{Impl: "ok", Oracle: limAudit(op), Tags: "limstate"}
	case "cleanup":
		if !need(a, 1) {
			break
		}
		switch a[0] {
		case "all": // cutoff in the future: every entry is older
			ls.Cleanup(-time.Hour)
			lRef = map[uint64]bool{}
		case "none": // cutoff an hour back: nothing is that old
			ls.Cleanup(time.Hour)
		default:
			return vlib.Res{Impl: "bad-op"}
		}
		return vlib.Res{Impl: fmt.Sprintf("len=%d", ls.Len()), Oracle: limAudit(op)}
	case "has":
		if !need(a, 1) {
			break
		}
		k := vlib.AtoU64(a[0])
		got := contains(ratelimit.VerifLimiterKeys(ls), k)
		or := ""
		if got != lRef[k] {
			or = fail("lim/has/wrong-result", "key=%d want=%v got=%v", k, lRef[k], got)
		}
		return vlib.Res{Impl: vlib.B(got), Oracle: verdict(or, limAudit(op))}
	case "len":
		got := ls.Len()
		or := ""
		if got != len(lRef) {
			or = fail("lim/len/wrong-result", "Len()=%d reference holds %d", got, len(lRef))
		}
		return vlib.Res{Impl: strconv.Itoa(got), Oracle: verdict(or, limAudit(op))}
	}
	return vlib.Res{Impl: "bad-op"}
}

// limChurn is self-contained (its own store, so a replay of the single op
// re-runs the whole scenario): fill a store of maxSize entries to capacity,
// then `fresh` inserts of never-seen keys, which is the only way to reach the
// sampled victim selection evictOne uses above 1000 entries. Judged from the
// property text alone: the key just written is still stored (present, and a
// second Get hands back the SAME limiter instead of minting a new bucket),
// and the store stays within max(maxSize, 1). Which other key goes is free.
func limChurn(maxSize, fresh int, seed uint64, rate int, spend bool) vlib.Res {
	if maxSize > 1<<16 {
		maxSize = 1 << 16
	}
	if fresh > 1<<18 {
		fresh = 1 << 18
	}
	s := ratelimit.NewLimiterStore(maxSize, rate)
	r := vlib.NewR(seed)
	used := map[uint64]bool{}
	bound := max(maxSize, 1)
	or := ""
	total := maxSize + fresh
	for i := 0; i < total && or == ""; i++ {
		var k uint64
		switch {
		case i == 0:
			k = 0
		case i%3 == 0:
			k = uint64(i)
		default:
			k = r.U64()
		}
		for used[k] {
			k = r.U64()
		}
		used[k] = true
		l1 := s.Get(k)
		if spend {
			// the client spends its whole burst at once: an empty bucket
			ratelimit.VerifLimiterSpend(s, k)
		}
		switch {
		case l1 == nil:
			or = fail("lim/churn/wrong-result", "insert #%d: Get(%d) returned nil", i, k)
		case !ratelimit.VerifLimiterHas(s, k):
			or = fail("lim/churn/evicted-own-key", "insert #%d (Len()=%d max=%d): key=%d is not in the store right after Get created it", i, s.Len(), maxSize, k)
		case s.Get(k) != l1:
			or = fail("lim/churn/evicted-own-key", "insert #%d (Len()=%d max=%d): a second Get(%d) returns another limiter than the one just handed out", i, s.Len(), maxSize, k)
		case s.Len() > bound:
			or = fail("lim/churn/over-capacity", "insert #%d: Len()=%d max=%d", i, s.Len(), maxSize)
		}
	}
	if or == "" {
		// re-reads of stored keys must neither evict nor grow
		n0 := s.Len()
		for _, k := range ratelimit.VerifLimiterKeys(s) {
			s.Get(k)
		}
		if s.Len() != n0 {
			or = fail("lim/churn/miscounted", "re-reading the stored keys changed Len() from %d to %d", n0, s.Len())
		}
	}
	return vlib.Res{Impl: fmt.Sprintf("ok len=%d", s.Len()), Oracle: verdict(or), Tags: "nt,churn"}
}

func main() { vlib.Main(&vlib.Driver{Facts: facts, Exec: exec, Gen: gen}) }
