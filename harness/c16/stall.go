//go:build verif

package main

import (
	"fmt"
	"runtime"
	"sync"
	"sync/atomic"
	"time"

	"github.com/semihalev/sdns/internal/cache"
	"github.com/semihalev/sdns/internal/verif/vlib"
	"github.com/semihalev/sdns/middleware/ratelimit"
)

// "Writers never wait on a global lock", judged dynamically.
//
// A ForEach callback that does not return pins ONE segment (ForEach holds
// that segment's read lock while the callback runs: public API, no hook). A
// first over-capacity writer W1 is steered so that its toll walk has to enter
// the pinned segment, where it legitimately parks. Everything that does not
// need the pinned segment must still complete while W1 is parked:
//
//   - W2: another over-capacity SetWithCap whose own segment cannot pay and
//     whose NEXT segment pays the whole toll (its walk ends before the pinned
//     segment),
//   - W3: ordinary Set / Get / Has / Del / PutIfNotExists / SetWithCap on
//     segments away from the pinned one.
//
// If W2 or W3 do not finish within stallTimeout although every lock they need
// is free, some lock wider than a segment is in their way. The timeout is
// only ever waited out in the failing case (normally these ops take
// microseconds); a setup that cannot be established is reported unjudged.

const (
	stallTimeout = 4 * time.Second
	setupTimeout = 5 * time.Second
)

type stallOps[V any] struct {
	m      *cache.SegmentUInt64Map[V]
	val    func(id uint64) V
	setcap func(k, id uint64, capv int64) // the capped insert under test (SetWithCap / Cache.Add)
	others func(keys []uint64)            // unrelated work on the given keys
	each   func(f func(k uint64) bool)    // the iteration used to pin a segment (nil: m.ForEach)
	watch  func(keys []uint64)            // read-only API calls made by bystanders (Len, lookups of unrelated keys)
	capv   int64
}

func waitClosed(ch <-chan struct{}, d time.Duration) bool {
	select {
	case <-ch:
		return true
	case <-time.After(d):
		return false
	}
}

func stallScenario[V any](what string, o stallOps[V], d int, seed uint64) (string, string) {
	m := o.m
	nseg := uint(m.SegmentCount())
	if nseg < 16 {
		return "setup-failed", "-"
	}
	r := vlib.NewR(seed)
	used := map[uint64]bool{0: true}
	keyIn := func(seg uint) uint64 {
		for {
			k := r.U64()
			if r.Bool() {
				k >>= uint(r.Intn(56))
			}
			if !used[k] && cache.VerifSegIndex(m, k) == seg%nseg {
				used[k] = true
				return k
			}
		}
	}
	if d < 1 {
		d = 1
	}
	if d > 3 {
		d = 3
	}
	if nseg < 64 {
		return "setup-failed", "-"
	}
	// the pinned segment has a HIGH index and the unrelated work happens at
	// LOWER indices: an API that collects several segment locks in index order
	// (and parks on the pinned one while holding the earlier ones) then stands
	// in the way of those writers
	s1 := nseg/2 + uint(r.Intn(int(nseg/2)-4))
	pin := s1 + uint(d)
	s2 := s1 - nseg/2
	kX := keyIn(pin)
	kE1, kE2 := keyIn(s2+1), keyIn(s2+1)
	kW1, kW2 := keyIn(s1), keyIn(s2)
	initial := []uint64{kX, kE1, kE2}
	var kA uint64
	if d >= 2 {
		// one entry on W1's way: W1 pays one of its two, is still over
		// capacity and walks on into the pinned segment
		kA = keyIn(s1 + 1)
		initial = append(initial, kA)
	}
	var otherKeys []uint64
	for j := uint(3); j < 9; j++ {
		otherKeys = append(otherKeys, keyIn(s2+j), keyIn(s2+j))
	}
	for _, k := range initial {
		m.Set(k, o.val(1))
	}
	// cap: d>=2 starts one above capacity, d==1 exactly at capacity
	capv := int64(len(initial))
	if d >= 2 {
		capv--
	}
	if o.capv > 0 {
		capv = o.capv // fixed by the table (cache.New): the caller sized it to fit
	}

	readerIn, release, readerDone := make(chan struct{}), make(chan struct{}), make(chan struct{})
	go func() {
		defer close(readerDone)
		each := o.each
		if each == nil {
			each = func(f func(k uint64) bool) { m.ForEach(func(k uint64, _ V) bool { return f(k) }) }
		}
		each(func(k uint64) bool {
			if k == kX {
				close(readerIn)
				<-release
			}
			return true
		})
	}()
	finish := func(chs ...chan struct{}) bool {
		close(release)
		ok := waitClosed(readerDone, 2*setupTimeout)
		for _, c := range chs {
			ok = waitClosed(c, 2*setupTimeout) && ok
		}
		return ok
	}
	if !waitClosed(readerIn, setupTimeout) {
		finish()
		return "setup-failed reader", "-"
	}

	w1Done := make(chan struct{})
	go func() { defer close(w1Done); o.setcap(kW1, 2, capv) }()
	deadline := time.Now().Add(setupTimeout)
	inWalk := func() bool {
		if d >= 2 {
			return !m.Has(kA) // W1 collected the entry on its way: it is inside the walk
		}
		return m.Has(kW1)
	}
	for !inWalk() {
		if time.Now().After(deadline) {
			finish(w1Done)
			// writer 1 needs only its own segment and the one next to it; neither is the pinned one
			return "w1-stalled", fail("conc/stall/writer-waited-on-unrelated-lock",
				"%s: %d segments, segment %d pinned by an iteration callback; a SetWithCap on segment %d did not even get through its own and the next segment within %v", what, nseg, pin%nseg, s1%nseg, setupTimeout)
		}
		runtime.Gosched()
		time.Sleep(50 * time.Microsecond)
	}
	time.Sleep(3 * time.Millisecond) // let W1 reach the pinned segment's lock
	select {
	case <-w1Done:
		finish()
		return "setup-failed w1-not-parked", "-"
	default:
	}

	// bystanders using the read-only API (Len, SegmentCount, lookups of
	// unrelated keys) while writer 1 is parked: whatever they do must not get
	// in the way of the writers below
	obsDone := make(chan struct{})
	go func() {
		defer close(obsDone)
		if o.watch != nil {
			o.watch(otherKeys)
		}
	}()
	for i := 0; i < 20; i++ {
		runtime.Gosched()
	}
	time.Sleep(2 * time.Millisecond)

	w2Done, w3Done := make(chan struct{}), make(chan struct{})
	go func() { defer close(w2Done); o.setcap(kW2, 3, capv) }()
	go func() { defer close(w3Done); o.others(otherKeys) }()
	w2ok := waitClosed(w2Done, stallTimeout)
	w3ok := waitClosed(w3Done, stallTimeout)
	w1Parked := true
	select {
	case <-w1Done:
		w1Parked = false
	default:
	}
	all := finish(w1Done, w2Done, w3Done, obsDone)
	detail := fmt.Sprintf("%s: %d segments, capacity %d, segment %d pinned by a ForEach callback, writer 1 (segment %d) parked in its toll walk", what, nseg, capv, pin%nseg, s1%nseg)
	switch {
	case !w2ok && w1Parked:
		return "w2-stalled", fail("conc/stall/writer-waited-on-unrelated-lock",
			"%s; an over-capacity SetWithCap on segment %d whose toll is paid entirely by segment %d did not finish within %v", detail, s2%nseg, (s2+1)%nseg, stallTimeout)
	case !w3ok && w1Parked:
		return "w3-stalled", fail("conc/stall/op-waited-on-unrelated-lock",
			"%s; while bystanders call Len()/lookups, Set/Get/Has/Del/PutIfNotExists/SetWithCap on segments %d.. did not finish within %v", detail, (s2+3)%nseg, stallTimeout)
	case !all:
		return "deadlock", fail("conc/stall/deadlock", "%s; goroutines did not finish after the pin was released", detail)
	case !w1Parked:
		return "setup-failed w1-finished-early", "-"
	}
	return "ok", "ok"
}

func execStall(a []string) vlib.Res {
	if len(a) != 3 {
		return vlib.Res{Impl: "bad-op"}
	}
	d, seed := vlib.Atoi(a[1]), vlib.AtoU64(a[2])
	var impl, or string
	switch a[0] {
	case "segmap":
		m := cache.NewSegmentUInt64Map[uint64](8, 256)
		impl, or = stallScenario("SegmentUInt64Map", stallOps[uint64]{
			m:      m,
			val:    func(id uint64) uint64 { return id },
			setcap: func(k, id uint64, capv int64) { m.SetWithCap(k, id, capv) },
			watch: func(keys []uint64) {
				for i := 0; i < 3; i++ {
					m.Len()
					m.SegmentCount()
					for _, k := range keys {
						m.Has(k)
					}
				}
			},
			others: func(keys []uint64) {
				for i, k := range keys {
					m.Set(k, uint64(i))
					m.Get(k)
					m.Has(k)
					m.PutIfNotExists(k, 9)
					m.SetWithCap(k, 7, 1<<40)
					if i%2 == 0 {
						m.Del(k)
					}
				}
			},
		}, d, seed)
		if or == "ok" {
			or = concCheck("SegmentUInt64Map after stall", segT{m}, 0, 0)
		}
	case "cache":
		// capacity is fixed by New: 3 entries + (d>=2: one more, started one above)
		capv := 3
		for id := uint64(1); id <= 5; id++ {
			boxFor(id) // pre-create: the goroutines below only read the token table
		}
		c := cache.New(capv)
		m := cache.VerifCacheSegMap(c)
		impl, or = stallScenario("cache.Cache", stallOps[any]{
			m:      m,
			val:    func(id uint64) any { return boxFor(id) },
			setcap: func(k, id uint64, _ int64) { c.Add(k, boxFor(id)) },
			each:   func(f func(k uint64) bool) { c.ForEach(func(k uint64, _ any) bool { return f(k) }) },
			watch: func(keys []uint64) {
				for i := 0; i < 3; i++ {
					c.Len()
					for _, k := range keys {
						c.Get(k)
					}
				}
			},
			others: func(keys []uint64) {
				for i, k := range keys {
					// uncapped inner Set so that these stay local to their segment
					m.Set(k, boxFor(4))
					c.Get(k)
					c.CompareAndSwap(k, boxFor(4), boxFor(5))
					if i%2 == 0 {
						c.CompareAndDelete(k, boxFor(5))
					} else {
						c.Remove(k)
					}
				}
			},
			capv: int64(capv),
		}, d, seed)
	default:
		return vlib.Res{Impl: "bad-op"}
	}
	return vlib.Res{Impl: impl, Oracle: or, Tags: "nt,conc,stall"}
}

// "Check and act in ONE critical section", judged dynamically.
//
// A busy writer holds the write lock of key K's segment (taken through the
// export). G goroutines arrive meanwhile, each with an operation on the SAME
// key K, and park on the segment lock. When the writer leaves they all run.
// Whatever the order, the outcome must be that of SOME serial order:
//   - removals (Remove / Del / CompareAndDelete with the stored token): K is
//     gone, exactly one of them removed it (at most one CompareAndDelete
//     reports true), Len() == number of reachable entries (a second remover
//     that finds nothing must not uncount anything);
//   - CompareAndSwap(K, stored, fresh_i): exactly one succeeds, K holds that
//     one's token;
//   - PutIfNotExists on an absent K: exactly one inserts, all get its value;
//   - Set/Add of K: one of the written values is stored, counted once.
//
// A look-then-lock-again implementation lets several goroutines pass the
// look together (they are admitted as readers at the same moment).
func dupScenario(kind string, mode int, seed uint64) (string, string) {
	r := vlib.NewR(seed)
	g := 2 + r.Intn(3)
	for id := uint64(1); id <= 12; id++ {
		boxFor(id)
	}
	var (
		m      *cache.SegmentUInt64Map[any]
		c      *cache.Cache
		sm2    *cache.SegmentUInt64Map[uint64]
		t      table
		tokIDs = map[*box]uint64{}
	)
	for id := uint64(1); id <= 12; id++ {
		tokIDs[boxFor(id)] = id
	}
	if kind == "cache" {
		c = cache.New(64)
		m = cache.VerifCacheSegMap(c)
		t = concCacheT{c, tokIDs}
	} else {
		sm2 = cache.NewSegmentUInt64Map[uint64](uint8(4+r.Intn(5)), 64)
		t = segT{sm2}
	}
	K := r.U64()
	if r.Chance(1, 6) {
		K = 0
	}
	others := []uint64{r.U64() | 1, r.U64() | 1, r.U64() | 1}
	put := func(k, id uint64) {
		if c != nil {
			c.Add(k, boxFor(id))
		} else {
			sm2.Set(k, id)
		}
	}
	for _, k := range others {
		if k != K {
			put(k, 9)
		}
	}
	present := mode != 2 // mode 2: PutIfNotExists / Set on an ABSENT key
	if present {
		put(K, 1)
	}
	lock := func() {
		if c != nil {
			cache.VerifSegLock(m, K)
		} else {
			cache.VerifSegLock(sm2, K)
		}
	}
	unlock := func() {
		if c != nil {
			cache.VerifSegUnlock(m, K)
		} else {
			cache.VerifSegUnlock(sm2, K)
		}
	}
	var trues atomic.Int64
	var started, wg sync.WaitGroup
	lock()
	for i := 0; i < g; i++ {
		started.Add(1)
		wg.Add(1)
		go func(i int) {
			defer wg.Done()
			started.Done()
			switch {
			case c != nil && mode == 0: // removals, mixed
				switch i % 2 {
				case 0:
					c.Remove(K)
				default:
					if c.CompareAndDelete(K, boxFor(1)) {
						trues.Add(1)
					}
				}
			case c != nil && mode == 1: // CAS with the same old token, distinct new ones
				if c.CompareAndSwap(K, boxFor(1), boxFor(uint64(2+i))) {
					trues.Add(1)
				}
			case c != nil && mode == 3: // only Remove
				c.Remove(K)
			case c != nil: // mode 2: Add of an absent key
				c.Add(K, boxFor(uint64(2+i)))
			case mode == 0 || mode == 3:
				if sm2.Del(K) {
					trues.Add(1)
				}
			case mode == 1:
				sm2.Set(K, uint64(2+i))
			default:
				if _, ins := sm2.PutIfNotExists(K, uint64(2+i)); ins {
					trues.Add(1)
				}
			}
		}(i)
	}
	started.Wait()
	for i := 0; i < 50; i++ {
		runtime.Gosched()
	}
	time.Sleep(3 * time.Millisecond) // let them park on the segment lock
	unlock()
	done := make(chan struct{})
	go func() { wg.Wait(); close(done) }()
	if !waitClosed(done, 2*setupTimeout) {
		return "deadlock", fail("conc/dup/deadlock", "%s: %d goroutines on key %d did not finish", kind, g, K)
	}
	what := fmt.Sprintf("%s, %d goroutines on key %d arriving while its segment is write-locked, mode %d", kind, g, K, mode)
	v, ok := t.Get(K)
	or := concCheck(what, t, 0, 0)
	if or == "ok" {
		switch {
		case (mode == 0 || mode == 3) && ok:
			or = fail("conc/dup/not-removed", "%s: key still stored after every remover finished", what)
		case mode == 0 && c != nil && trues.Load() > 1:
			or = fail("conc/dup/acted-twice", "%s: %d CompareAndDelete calls report having removed the one entry", what, trues.Load())
		case (mode == 0 || mode == 3) && c == nil && trues.Load() != 1:
			or = fail("conc/dup/acted-twice", "%s: %d Del calls report having removed the one entry", what, trues.Load())
		case mode == 1 && c != nil && (trues.Load() != 1 || !ok || v < 2 || v >= uint64(2+g)):
			or = fail("conc/dup/cas-not-exclusive", "%s: %d CompareAndSwap(K, stored, fresh) succeeded, key now holds token %d (present=%v)", what, trues.Load(), v, ok)
		case mode == 2 && c == nil && (trues.Load() != 1 || !ok):
			or = fail("conc/dup/pine-not-exclusive", "%s: %d PutIfNotExists inserted, present=%v", what, trues.Load(), ok)
		case (mode == 1 || mode == 2) && !ok:
			or = fail("conc/dup/lost", "%s: key absent after every writer finished", what)
		}
	}
	return fmt.Sprintf("ok g=%d", g), or
}

func execDup(a []string) vlib.Res {
	if len(a) != 3 || (a[0] != "cache" && a[0] != "segmap") {
		return vlib.Res{Impl: "bad-op"}
	}
	impl, or := dupScenario(a[0], vlib.Atoi(a[1]), vlib.AtoU64(a[2]))
	return vlib.Res{Impl: impl, Oracle: or, Tags: "nt,conc,dup"}
}

// "A reader waits for the truth; the capacity check sits inside the critical
// section", judged dynamically with staged arrivals.
//
//	mode 0: a busy writer holds the write lock of key K's segment; readers
//	        (Get / Has) of the stored, untouched key K arrive meanwhile. When
//	        the writer leaves every one of them must report K present with its
//	        value: "the segment is busy" is not "the key is absent".
//	mode 1: the same with the writer only QUEUED for the lock (an iteration
//	        callback holds the segment's read lock, a Set of another key of the
//	        segment waits behind it).
//	mode 2: the table sits W-1 .. 1 below capacity; W writers insert NEW keys
//	        and arrive while their segments are write-locked. Once all have
//	        returned (no writer in flight) Len() must be <= capacity: a
//	        capacity check made before the lock lets all of them through.
func gateScenario(kind string, mode int, seed uint64) (string, string) {
	r := vlib.NewR(seed)
	for id := uint64(1); id <= 12; id++ {
		boxFor(id)
	}
	tokIDs := map[*box]uint64{}
	for id := uint64(1); id <= 12; id++ {
		tokIDs[boxFor(id)] = id
	}
	g := 2 + r.Intn(3)
	capv := 6 + r.Intn(20)
	var (
		c   *cache.Cache
		mc  *cache.SegmentUInt64Map[any]
		sm2 *cache.SegmentUInt64Map[uint64]
		t   table
	)
	if kind == "cache" {
		c = cache.New(capv)
		mc = cache.VerifCacheSegMap(c)
		t = concCacheT{c, tokIDs}
	} else {
		sm2 = cache.NewSegmentUInt64Map[uint64](uint8(4+r.Intn(5)), 64)
		t = segT{sm2}
	}
	segOf := func(k uint64) uint {
		if c != nil {
			return cache.VerifSegIndex(mc, k)
		}
		return cache.VerifSegIndex(sm2, k)
	}
	lock := func(k uint64) {
		if c != nil {
			cache.VerifSegLock(mc, k)
		} else {
			cache.VerifSegLock(sm2, k)
		}
	}
	unlock := func(k uint64) {
		if c != nil {
			cache.VerifSegUnlock(mc, k)
		} else {
			cache.VerifSegUnlock(sm2, k)
		}
	}
	add := func(k, id uint64) {
		if c != nil {
			c.Add(k, boxFor(id))
		} else {
			sm2.SetWithCap(k, id, int64(capv))
		}
	}
	used := map[uint64]bool{}
	fresh := func(ok func(k uint64) bool) uint64 {
		for {
			k := r.U64()
			if r.Bool() {
				k >>= uint(r.Intn(56))
			}
			if !used[k] && ok(k) {
				used[k] = true
				return k
			}
		}
	}
	what := fmt.Sprintf("%s, capacity %d, mode %d", kind, capv, mode)
	waitAll := func(wg *sync.WaitGroup) bool {
		done := make(chan struct{})
		go func() { wg.Wait(); close(done) }()
		return waitClosed(done, 2*setupTimeout)
	}
	settle := func() {
		for i := 0; i < 50; i++ {
			runtime.Gosched()
		}
		time.Sleep(3 * time.Millisecond)
	}

	if mode == 0 || mode == 1 {
		K := fresh(func(uint64) bool { return true })
		if r.Chance(1, 6) && !used[0] {
			K = 0
			used[0] = true
		}
		add(K, 1)
		for i := 0; i < 3; i++ {
			add(fresh(func(k uint64) bool { return segOf(k) != segOf(K) }), 9)
		}
		var wg sync.WaitGroup
		var misses atomic.Int64
		var started sync.WaitGroup
		readers := func() {
			for i := 0; i < g; i++ {
				wg.Add(1)
				started.Add(1)
				go func(i int) {
					defer wg.Done()
					started.Done()
					var ok bool
					var v uint64
					switch {
					case c != nil:
						v, ok = t.Get(K)
					case i%2 == 0:
						v, ok = sm2.Get(K)
					default:
						ok = sm2.Has(K)
						v = 1
					}
					if !ok || v != 1 {
						misses.Add(1)
					}
				}(i)
			}
			started.Wait()
			settle()
		}
		if mode == 0 {
			lock(K)
			readers()
			unlock(K)
		} else {
			K2 := fresh(func(k uint64) bool { return segOf(k) == segOf(K) })
			pinned, release := make(chan struct{}), make(chan struct{})
			wg.Add(1)
			go func() {
				defer wg.Done()
				t.ForEach(func(k, _ uint64) bool {
					if k == K {
						close(pinned)
						<-release
					}
					return true
				})
			}()
			if !waitClosed(pinned, setupTimeout) {
				close(release)
				return "setup-failed", "-"
			}
			wg.Add(1)
			go func() { defer wg.Done(); add(K2, 2) }() // queues for the write lock behind the pin
			settle()
			readers()
			close(release)
		}
		if !waitAll(&wg) {
			return "deadlock", fail("conc/gate/deadlock", "%s: readers of key %d did not finish", what, K)
		}
		if n := misses.Load(); n > 0 {
			return "miss", fail("conc/gate/present-key-reported-absent",
				"%s: key %d was stored and untouched the whole time, but %d of %d lookups arriving while its segment was busy (write lock %s) reported it absent or with another value",
				what, K, n, g, map[int]string{0: "held", 1: "queued for"}[mode])
		}
		return "ok", concCheck(what, t, 0, 0)
	}

	// mode 2
	w := g
	fill := capv - 1 - r.Intn(w-1) // Len in [cap-W+1, cap-1]: W new keys must cross the capacity
	for i := 0; i < fill; i++ {
		add(fresh(func(uint64) bool { return true }), 9)
	}
	if t.Len() > capv {
		return "setup-failed", "-"
	}
	sameSeg := r.Bool()
	keys := make([]uint64, w)
	keys[0] = fresh(func(uint64) bool { return true })
	for i := 1; i < w; i++ {
		keys[i] = fresh(func(k uint64) bool { return !sameSeg || segOf(k) == segOf(keys[0]) })
	}
	lockedSeg := map[uint]uint64{}
	for _, k := range keys {
		if _, ok := lockedSeg[segOf(k)]; !ok {
			lockedSeg[segOf(k)] = k
			lock(k)
		}
	}
	var wg, started sync.WaitGroup
	for i := 0; i < w; i++ {
		wg.Add(1)
		started.Add(1)
		go func(i int) { defer wg.Done(); started.Done(); add(keys[i], uint64(2+i)) }(i)
	}
	started.Wait()
	settle()
	for _, k := range lockedSeg {
		unlock(k)
	}
	if !waitAll(&wg) {
		return "deadlock", fail("conc/gate/deadlock", "%s: %d writers did not finish", what, w)
	}
	if t.Len() > capv {
		return "over", fail("conc/gate/over-capacity-at-rest",
			"%s: %d writers inserted new keys into a table holding %d entries; all have returned and Len()=%d > capacity %d",
			what, w, fill, t.Len(), capv)
	}
	return "ok", concCheck(what, t, capv, 0)
}

func execGate(a []string) vlib.Res {
	if len(a) != 3 || (a[0] != "cache" && a[0] != "segmap") {
		return vlib.Res{Impl: "bad-op"}
	}
	impl, or := gateScenario(a[0], vlib.Atoi(a[1]), vlib.AtoU64(a[2]))
	return vlib.Res{Impl: impl, Oracle: or, Tags: "nt,conc,gate"}
}

// Limiter store under concurrency: LimiterStore has ONE lock, so every method
// must be one critical section. A busy holder keeps the store's write lock
// (export), the racing calls arrive and park, then all run.
//
//	mode 0: Cleanup(30min) || Get(k_i) for keys that have been idle for an hour
//	        (lastSeen shifted back through the export, no sleeping). In either
//	        serial order every k_i is stored afterwards (Cleanup first: Get
//	        re-creates it; Get first: the touch makes it fresh) and the limiter
//	        Get handed out is the stored one.
//	mode 1: the same with half of the keys fresh: Cleanup must not touch them.
//	mode 2: several Get(k) of ONE new key: all callers get the same limiter.
//	mode 3: Gets of new keys into a full store: Len stays within max.
func limRace(mode int, seed uint64) (string, string) {
	r := vlib.NewR(seed)
	n := 8 + r.Intn(40)
	mx := n + 8
	if mode == 3 {
		mx = 4 + r.Intn(8)
	}
	s := ratelimit.NewLimiterStore(mx, vlib.Pick(r, []int{0, 1, 10}))
	keys := make([]uint64, n)
	used := map[uint64]bool{}
	for i := range keys {
		k := r.U64()
		for used[k] {
			k = r.U64()
		}
		if i == 0 && r.Chance(1, 4) {
			k = 0
		}
		used[k] = true
		keys[i] = k
	}
	aged := map[uint64]bool{}
	if mode <= 1 {
		for i, k := range keys {
			s.Get(k)
			if mode == 0 || i%2 == 0 {
				ratelimit.VerifLimiterAge(s, k, time.Hour)
				aged[k] = true
			}
		}
	}
	type got struct {
		k uint64
		l any
	}
	res := make(chan got, 4*n)
	var wg, started sync.WaitGroup
	spawn := func(f func()) {
		wg.Add(1)
		started.Add(1)
		go func() { defer wg.Done(); started.Done(); f() }()
	}
	ratelimit.VerifLimiterLock(s)
	switch mode {
	case 0, 1:
		spawn(func() { s.Cleanup(30 * time.Minute) })
		for _, k := range keys {
			k := k
			spawn(func() { res <- got{k, ratelimit.VerifLimiterID(s.Get(k))} })
		}
	case 2:
		for i := 0; i < 6; i++ {
			spawn(func() { res <- got{keys[0], ratelimit.VerifLimiterID(s.Get(keys[0]))} })
		}
	default:
		for _, k := range keys {
			k := k
			spawn(func() { s.Get(k) })
		}
	}
	started.Wait()
	for i := 0; i < 50; i++ {
		runtime.Gosched()
	}
	time.Sleep(3 * time.Millisecond)
	ratelimit.VerifLimiterUnlock(s)
	done := make(chan struct{})
	go func() { wg.Wait(); close(done) }()
	if !waitClosed(done, 2*setupTimeout) {
		return "deadlock", fail("conc/limrace/deadlock", "mode %d: calls on the limiter store did not finish", mode)
	}
	close(res)
	what := fmt.Sprintf("LimiterStore max=%d, %d keys, mode %d", mx, n, mode)
	if s.Len() > max(mx, 1) {
		return "over", fail("conc/limrace/over-capacity", "%s: Len()=%d at rest", what, s.Len())
	}
	if len(ratelimit.VerifLimiterKeys(s)) != s.Len() {
		return "miscount", fail("conc/limrace/miscounted", "%s: Len()=%d, %d keys stored", what, s.Len(), len(ratelimit.VerifLimiterKeys(s)))
	}
	first := map[uint64]any{}
	for g := range res {
		if mode == 2 {
			if p, ok := first[g.k]; ok && p != g.l {
				return "twins", fail("conc/limrace/two-limiters-for-one-key", "%s: concurrent Get(%d) calls were handed different limiters", what, g.k)
			}
		}
		first[g.k] = g.l
		if !ratelimit.VerifLimiterHas(s, g.k) {
			return "lost", fail("conc/limrace/fresh-key-removed",
				"%s: key %d was looked up (touched or re-created) while Cleanup ran, yet it is not stored afterwards (idle before: %v)", what, g.k, aged[g.k])
		}
		if cur := ratelimit.VerifLimiterID(s.Get(g.k)); cur != g.l {
			return "orphan", fail("conc/limrace/orphaned-limiter",
				"%s: the limiter Get(%d) handed out during the race is not the one stored afterwards", what, g.k)
		}
	}
	if mode == 1 {
		for _, k := range keys {
			if !aged[k] && !ratelimit.VerifLimiterHas(s, k) {
				return "lost", fail("conc/limrace/fresh-key-removed", "%s: fresh key %d removed by Cleanup", what, k)
			}
		}
	}
	return "ok", "ok"
}

func execLimRace(a []string) vlib.Res {
	if len(a) != 2 {
		return vlib.Res{Impl: "bad-op"}
	}
	impl, or := limRace(vlib.Atoi(a[0]), vlib.AtoU64(a[1]))
	return vlib.Res{Impl: impl, Oracle: or, Tags: "nt,conc,limrace"}
}
