//go:build verif

package main

import (
	"fmt"
	"runtime"
	"sync/atomic"
	"time"

	"github.com/semihalev/sdns/internal/verif/vlib"
	mcache "github.com/semihalev/sdns/middleware/cache"
)

// The expiry-cleanup route of the answer caches (PositiveCache.Get /
// NegativeCache.Get): a reader that loaded an EXPIRED entry removes it, but
// only if it is still the identical entry. Raced against a writer that
// republishes a FRESH entry under the same key, every legal outcome leaves
// the fresh entry stored:
//
//	reader first:  expired entry removed, then the fresh one stored;
//	writer first:  the reader loads the fresh entry and returns it;
//	interleaved:   load(expired) - Set(fresh) - cleanup refuses (not identical).
//
// A cleanup that removes by key alone deletes the fresh entry in the third
// case. The window is a few dozen nanoseconds, so the two calls are released
// together from a spin barrier thousands of times, the writer with a varying
// head start / delay. Oracle: after each round the fresh entry is stored.
type answerCache interface {
	Get(key uint64) (*mcache.CacheEntry, bool)
	Set(key uint64, entry *mcache.CacheEntry)
	Remove(key uint64)
	Len() int
}

func expireRace(kind string, trials int, seed uint64) (string, string) {
	var ac answerCache
	switch kind {
	case "pos":
		ac = mcache.NewPositiveCache(64, time.Second, time.Hour, nil)
	case "neg":
		ac = mcache.NewNegativeCache(64, time.Second, time.Hour, nil)
	default:
		return "bad-op", "-"
	}
	if trials > 2000000 {
		trials = 2000000
	}
	r := vlib.NewR(seed)
	keys := []uint64{r.U64(), r.U64() >> 40, 0, r.U64()}
	var round, done atomic.Int64
	var delay atomic.Int64
	var cur atomic.Pointer[mcache.CacheEntry]
	var key atomic.Uint64
	stop := int64(trials) + 1
	worker := func(f func()) {
		for t := int64(1); ; t++ {
			for round.Load() < t {
				if round.Load() < 0 {
					return
				}
			}
			if t >= stop {
				return
			}
			f()
			done.Add(1)
		}
	}
	go worker(func() { ac.Get(key.Load()) }) // the stale reader
	go worker(func() {                       // the republishing writer
		for i := delay.Load(); i > 0; i-- {
			runtime.KeepAlive(i)
		}
		ac.Set(key.Load(), cur.Load())
	})
	lost := 0
	first := ""
	start := time.Now()
	for t := int64(1); t <= int64(trials); t++ {
		k := keys[int(t)%len(keys)]
		ac.Set(k, mcache.VerifC16Entry(true))
		fresh := mcache.VerifC16Entry(false)
		cur.Store(fresh)
		key.Store(k)
		delay.Store(int64(r.Intn(120)))
		done.Store(0)
		round.Store(t)
		for done.Load() < 2 {
			if time.Since(start) > 60*time.Second {
				round.Store(-1)
				return "timeout", fail("conc/expire/deadlock", "%s cache: Get || Set did not finish", kind)
			}
		}
		got, ok := ac.Get(k)
		if !ok || got != fresh {
			lost++
			if first == "" {
				first = fmt.Sprintf("round %d key %d: present=%v identical=%v", t, k, ok, got == fresh)
			}
		}
		ac.Remove(k)
	}
	round.Store(stop)
	if lost > 0 {
		return fmt.Sprintf("lost=%d", lost), fail("conc/expire/fresh-entry-deleted-by-stale-reader",
			"%s answer cache: in %d of %d rounds a Get that met an expired entry, racing a Set of a fresh entry under the same key, left the key without the fresh entry (%s)",
			kind, lost, trials, first)
	}
	return "ok", "ok"
}

func execExpire(a []string) vlib.Res {
	if len(a) != 3 {
		return vlib.Res{Impl: "bad-op"}
	}
	impl, or := expireRace(a[0], vlib.Atoi(a[1]), vlib.AtoU64(a[2]))
	return vlib.Res{Impl: impl, Oracle: or, Tags: "nt,conc,expire"}
}
