//go:build verif

package main

import (
	"fmt"
	"runtime"
	"sync"
	"time"

	"github.com/miekg/dns"
	"github.com/semihalev/sdns/internal/cache"
	"github.com/semihalev/sdns/internal/verif/vlib"
	mcache "github.com/semihalev/sdns/middleware/cache"
)

// `fail` ops drive the real middleware/cache.FailureCache through its public
// API with an injected clock. Its record / ResetQuestion retry loops are the
// production callers of Cache.CompareAndSwap / CompareAndDelete.
var (
	fc      *mcache.FailureCache
	fcBase  = time.Unix(1_700_000_000, 0)
	fcNow   time.Time
	fcInit  time.Duration
	fcMax   time.Duration
	fcRef   = map[uint64][2]uint64{} // question id -> (streak, retryAfter ns)
	fcClock sync.Mutex
)

// failName: name i is nested below name i-1 (name 0 = c16.example.), so the
// zone states of names 0..i are exactly the ancestor zones of name i.
func failName(i uint64) string {
	n := "c16.example."
	for j := uint64(1); j <= i && j <= 40; j++ {
		n = fmt.Sprintf("l%d.", j) + n
	}
	if i > 40 {
		n = fmt.Sprintf("x%d.", i) + n
	}
	return n
}

func failKey(q uint64) mcache.FailureQuestionKey {
	return mcache.FailureQuestionKey{Question: dns.Question{Name: failName(q), Qtype: dns.TypeA, Qclass: dns.ClassINET}}
}

func failZone(z uint64) mcache.FailureZoneKey {
	return mcache.FailureZoneKey{Zone: failName(z), Qclass: dns.ClassINET}
}

var fcZRef = map[uint64][2]uint64{} // zone id -> (streak, retryAfter ns)

// the oracle's own arithmetic: initial interval doubled per generation, capped
func failOracleBackoff(streak uint64) uint64 {
	ttl := uint64(fcInit)
	for g := uint64(1); g < streak; g++ {
		ttl *= 2
		if ttl >= uint64(fcMax) {
			return uint64(fcMax)
		}
	}
	if ttl > uint64(fcMax) {
		return uint64(fcMax)
	}
	return ttl
}

func execFail(op string, a []string) vlib.Res {
	if op == "new" {
		if !need(a, 3) {
			return vlib.Res{Impl: "bad-op"}
		}
		fcInit, fcMax = time.Duration(vlib.AtoI64(a[1])), time.Duration(vlib.AtoI64(a[2]))
		var err error
		fc, err = mcache.NewFailureCache(mcache.FailureCacheConfig{Size: vlib.Atoi(a[0]), InitialTTL: fcInit, MaxTTL: fcMax,
			Now: func() time.Time { fcClock.Lock(); defer fcClock.Unlock(); return fcNow }})
		if err != nil {
			fc = nil
			return vlib.Res{Impl: "config-rejected", Oracle: "-"}
		}
		fcRef = map[uint64][2]uint64{}
		fcZRef = map[uint64][2]uint64{}
		return vlib.Res{Impl: "ok", Oracle: "ok"}
	}
	if fc == nil {
		return vlib.Res{Impl: "no-table"}
	}
	setNow := func(ns uint64) {
		fcClock.Lock()
		fcNow = fcBase.Add(time.Duration(ns))
		fcClock.Unlock()
	}
	rel := func(t time.Time) uint64 { return uint64(t.Sub(fcBase)) }
	lenOr := func(or string) string {
		if or == "ok" && fc.Len() != len(fcRef)+len(fcZRef) {
			return fail("fail/"+op+"/miscounted", "Len()=%d, %d states recorded", fc.Len(), len(fcRef)+len(fcZRef))
		}
		return or
	}
	switch op {
	case "record", "zrecord":
		if !need(a, 2) {
			break
		}
		q, now := vlib.AtoU64(a[0]), vlib.AtoU64(a[1])
		setNow(now)
		ref := fcRef
		var hit mcache.FailureHit
		if op == "record" {
			hit = fc.RecordQuestion(failKey(q), "c16", nil)
		} else {
			ref = fcZRef
			hit = fc.RecordZone(failZone(q), "c16", nil)
		}
		want, had := ref[q]
		tags := ""
		switch {
		case !had:
			want = [2]uint64{1, now + uint64(fcInit)}
		case now < want[1]: // still active: idempotent
		default:
			s := want[0] + 1
			if now-want[1] >= uint64(fcMax) {
				s = 1
			}
			want = [2]uint64{s, now + failOracleBackoff(s)}
			tags = "nt,cas"
		}
		ref[q] = want
		or := "ok"
		if uint64(hit.Streak) != want[0] || rel(hit.RetryAfter) != want[1] {
			or = fail("fail/"+op+"/wrong-generation", "name %d at %d: streak=%d retry=%d, expected streak=%d retry=%d", q, now, hit.Streak, rel(hit.RetryAfter), want[0], want[1])
		}
		return vlib.Res{Impl: fmt.Sprintf("streak=%d retry=%d len=%d", hit.Streak, rel(hit.RetryAfter), fc.Len()), Oracle: lenOr(or), Tags: tags}
	case "rmatch", "purge":
		if !need(a, 1) {
			break
		}
		q := vlib.AtoU64(a[0])
		want := 0
		var got int
		if op == "rmatch" {
			// a fresh useful response for name q: its exact history and the
			// history of every ancestor zone (names 0..q) go
			if _, had := fcRef[q]; had {
				want++
				delete(fcRef, q)
			}
			for z := uint64(0); z <= q; z++ {
				if _, had := fcZRef[z]; had {
					want++
					delete(fcZRef, z)
				}
			}
			got = fc.ResetMatching(failKey(q))
		} else {
			// operator purge of the question: its state and the zone state owned by the same name
			if _, had := fcRef[q]; had {
				want++
				delete(fcRef, q)
			}
			if _, had := fcZRef[q]; had {
				want++
				delete(fcZRef, q)
			}
			got = fc.PurgeQuestion(failKey(q).Question)
		}
		or := "ok"
		if got != want {
			or = fail("fail/"+op+"/wrong-result", "name %d: %d states deleted, %d were recorded for it", q, got, want)
		}
		tags := ""
		if want > 0 {
			tags = "nt,cad"
		}
		return vlib.Res{Impl: fmt.Sprintf("removed=%d len=%d", got, fc.Len()), Oracle: lenOr(or), Tags: tags}
	case "reset", "zreset":
		if !need(a, 1) {
			break
		}
		q := vlib.AtoU64(a[0])
		ref := fcRef
		var got bool
		if op == "reset" {
			got = fc.ResetQuestion(failKey(q))
		} else {
			ref = fcZRef
			got = fc.ResetZone(failZone(q))
		}
		_, had := ref[q]
		delete(ref, q)
		or := "ok"
		if got != had {
			or = fail("fail/"+op+"/wrong-result", "reset of name %d = %v, state recorded = %v", q, got, had)
		}
		tags := ""
		if had {
			tags = "nt,cad"
		}
		return vlib.Res{Impl: fmt.Sprintf("%s len=%d", vlib.B(got), fc.Len()), Oracle: lenOr(or), Tags: tags}
	case "lookup":
		if !need(a, 2) {
			break
		}
		q, now := vlib.AtoU64(a[0]), vlib.AtoU64(a[1])
		setNow(now)
		hit, ok := fc.Lookup(failKey(q))
		want, had := fcRef[q]
		active := had && now < want[1]
		if !active {
			// otherwise the closest active ancestor-zone state: names q, q-1, …, 0
			for z := int64(q); z >= 0 && !active; z-- {
				if w, ok := fcZRef[uint64(z)]; ok && now < w[1] {
					want, active = w, true
				}
			}
		}
		or := "ok"
		if ok != active || (ok && (uint64(hit.Streak) != want[0] || rel(hit.RetryAfter) != want[1])) {
			or = fail("fail/lookup/wrong-result", "Lookup(%d) at %d: hit=%v, recorded active=%v", q, now, ok, active)
		}
		impl := "-"
		if ok {
			impl = fmt.Sprintf("streak=%d retry=%d", hit.Streak, rel(hit.RetryAfter))
		}
		return vlib.Res{Impl: impl, Oracle: lenOr(or)}
	case "len":
		return vlib.Res{Impl: fmt.Sprint(fc.Len()), Oracle: lenOr("ok")}
	}
	return vlib.Res{Impl: "bad-op"}
}

// failRace: G goroutines on ONE question arrive while the segment of its table
// key is write-locked (export), then all run; the clock stands still.
//
//	mode 0: all RecordQuestion on an EXPIRED state: exactly one new generation
//	        (every caller is handed the same streak / retryAfter, one step above
//	        the old streak) — a lost CompareAndSwap retries and finds it active.
//	mode 1: RecordQuestion || ResetQuestion: the state is either gone or a
//	        first generation (streak 1) or the one next generation; never lost
//	        count.
//	mode 2: all ResetQuestion: exactly one reports true.
func failRace(mode int, seed uint64) (string, string) {
	r := vlib.NewR(seed)
	ini, mx := time.Duration(1+r.Intn(4))*time.Second, time.Duration(8+r.Intn(200))*time.Second
	now := fcBase
	var clk sync.Mutex
	f, err := mcache.NewFailureCache(mcache.FailureCacheConfig{Size: 64, InitialTTL: ini, MaxTTL: mx,
		Now: func() time.Time { clk.Lock(); defer clk.Unlock(); return now }})
	if err != nil {
		return "setup-failed", "-"
	}
	q := failKey(r.U64() % 1000)
	for i := 0; i < 3; i++ {
		f.RecordQuestion(failKey(2000+uint64(i)), "c16", nil)
	}
	old := f.RecordQuestion(q, "c16", nil) // streak 1
	gens := r.Intn(3)
	for i := 0; i < gens; i++ { // a few more generations
		clk.Lock()
		now = old.RetryAfter
		clk.Unlock()
		old = f.RecordQuestion(q, "c16", nil)
	}
	clk.Lock()
	now = old.RetryAfter.Add(time.Duration(r.Intn(3)) * time.Second) // expired, clock stands still from here
	clk.Unlock()
	inner := cache.VerifCacheSegMap(mcache.VerifC16FailEntries(f))
	hash := mcache.VerifC16FailHash(q)
	g := 2 + r.Intn(4)
	type res struct {
		rec    bool
		streak uint32
		retry  time.Time
		ok     bool
	}
	out := make(chan res, g)
	var wg, started sync.WaitGroup
	cache.VerifSegLock(inner, hash)
	for i := 0; i < g; i++ {
		wg.Add(1)
		started.Add(1)
		go func(i int) {
			defer wg.Done()
			started.Done()
			if mode == 0 || (mode == 1 && i%2 == 0) {
				h := f.RecordQuestion(q, "c16", nil)
				out <- res{rec: true, streak: h.Streak, retry: h.RetryAfter}
			} else {
				out <- res{ok: f.ResetQuestion(q)}
			}
		}(i)
	}
	started.Wait()
	for i := 0; i < 50; i++ {
		runtime.Gosched()
	}
	time.Sleep(3 * time.Millisecond)
	cache.VerifSegUnlock(inner, hash)
	done := make(chan struct{})
	go func() { wg.Wait(); close(done) }()
	if !waitClosed(done, 2*setupTimeout) {
		return "deadlock", fail("conc/failrace/deadlock", "mode %d: FailureCache calls did not finish", mode)
	}
	close(out)
	what := fmt.Sprintf("FailureCache, %d goroutines on one question whose state (streak %d) has expired, mode %d", g, old.Streak, mode)
	reach := 0
	mcache.VerifC16FailEntries(f).ForEach(func(uint64, any) bool { reach++; return true })
	if f.Len() != reach {
		return "miscount", fail("conc/failrace/len-ne-reachable", "%s: Len()=%d, %d entries reachable", what, f.Len(), reach)
	}
	resets := 0
	var first *res
	for x := range out {
		x := x
		if !x.rec {
			if x.ok {
				resets++
			}
			continue
		}
		switch mode {
		case 0:
			if x.streak != old.Streak+1 {
				return "gen", fail("conc/failrace/generation-counted-twice", "%s: a caller was handed streak %d, one expiry is one generation (expected %d)", what, x.streak, old.Streak+1)
			}
			if first != nil && (first.streak != x.streak || !first.retry.Equal(x.retry)) {
				return "gen", fail("conc/failrace/generation-counted-twice", "%s: callers were handed different generations", what)
			}
			first = &x
		case 1:
			if x.streak != 1 && x.streak != old.Streak+1 {
				return "gen", fail("conc/failrace/generation-counted-twice", "%s: a recorder was handed streak %d", what, x.streak)
			}
		}
	}
	if mode == 2 && resets != 1 {
		return "reset", fail("conc/failrace/reset-not-exclusive", "%s: %d ResetQuestion calls report having deleted the one state", what, resets)
	}
	if mode == 1 && resets > 0 {
		// a successful reset wiped the history: whatever is stored now was
		// recorded after it and is a FIRST generation; the renewal computed
		// from the deleted state must not have been published over the reset
		if h, ok := f.Lookup(q); ok && h.Streak != 1 {
			return "stale", fail("conc/failrace/stale-generation-published", "%s: a ResetQuestion deleted the state, yet streak %d (built on the deleted state) is stored", what, h.Streak)
		}
	}
	if mode == 0 {
		if h, ok := f.Lookup(q); !ok || h.Streak != old.Streak+1 {
			return "lost", fail("conc/failrace/state-lost", "%s: afterwards Lookup hit=%v streak=%d", what, ok, h.Streak)
		}
	}
	return "ok", "ok"
}

func execFailRace(a []string) vlib.Res {
	if len(a) != 2 {
		return vlib.Res{Impl: "bad-op"}
	}
	impl, or := failRace(vlib.Atoi(a[0]), vlib.AtoU64(a[1]))
	return vlib.Res{Impl: impl, Oracle: or, Tags: "nt,conc,failrace"}
}
