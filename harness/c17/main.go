//go:build verif

// Correspondence driver for C17 (access control exact, clients only).
package main

import (
	"context"
	"fmt"
	"github.com/semihalev/sdns/middleware/cache"
	"github.com/semihalev/sdns/server"
	"net"
	"net/netip"
	"os"
	"strings"

	"github.com/miekg/dns"
	"github.com/semihalev/sdns/config"
	"github.com/semihalev/sdns/internal/ipset"
	"github.com/semihalev/sdns/internal/mock"
	"github.com/semihalev/sdns/internal/verif/vlib"
	"github.com/semihalev/sdns/middleware"
	"github.com/semihalev/sdns/middleware/accesslist"
	"github.com/semihalev/sdns/middleware/defaults"
	"github.com/semihalev/sdns/middleware/ratelimit"
	"github.com/semihalev/sdns/middleware/reflex"
	"github.com/semihalev/sdns/middleware/views"
)

// entry syntax on op lines:  4:<8 hex>/<bits>   6:<32 hex>/<bits>   bad:<hex of text>
type ent struct {
	ok   bool
	pfx  netip.Prefix // unmasked (host bits kept)
	text string
}

func parseEnt(s string) ent {
	if strings.HasPrefix(s, "bad:") {
		return ent{text: string(vlib.UnHex(s[4:]))}
	}
	fam, rest, _ := strings.Cut(s, ":")
	h, bitsS, _ := strings.Cut(rest, "/")
	b := vlib.UnHex(h)
	var a netip.Addr
	if fam == "4" {
		a = netip.AddrFrom4([4]byte(b))
	} else {
		a = netip.AddrFrom16([16]byte(b))
	}
	p := netip.PrefixFrom(a, vlib.Atoi(bitsS))
	return ent{ok: true, pfx: p, text: p.String()}
}

func parseEnts(s string) []ent {
	if s == "-" || s == "" {
		return nil
	}
	var out []ent
	for _, f := range strings.Split(s, ",") {
		out = append(out, parseEnt(f))
	}
	return out
}

func texts(es []ent) []string {
	out := make([]string, len(es))
	for i, e := range es {
		out[i] = e.text
	}
	return out
}

// address syntax: 4:<8 hex> | 6:<32 hex> | m:<8 hex> (IPv4-mapped IPv6)
func parseAddr(s string) netip.Addr {
	fam, h, _ := strings.Cut(s, ":")
	b := vlib.UnHex(h)
	switch fam {
	case "4":
		return netip.AddrFrom4([4]byte(b))
	case "m":
		var x [16]byte
		x[10], x[11] = 0xff, 0xff
		copy(x[12:], b)
		return netip.AddrFrom16(x)
	}
	return netip.AddrFrom16([16]byte(b))
}

// naive: the property oracle — "the address lies in at least one configured
// CIDR", by a per-prefix scan through net/netip (independent of ipset).
func naive(es []ent, a netip.Addr) bool {
	if a.Is4In6() {
		a = a.Unmap()
	}
	for _, e := range es {
		if e.ok && e.pfx.Masked().Contains(a) {
			return true
		}
	}
	return false
}

type keptReply struct {
	m    *dns.Msg
	snap string
}

var viewKept []keptReply

var viewLabels = []string{"viewzone.", "other.example.", "corp", "", "example.org.", "x.viewzone.", "lan.", "."}

type stub struct {
	ttl   int
	calls int
	q     middleware.Queryer
	pq    middleware.Queryer
}

func (s *stub) Name() string { return "stub" }
func (s *stub) ServeDNS(ctx context.Context, ch *middleware.Chain) {
	s.calls++
	m := new(dns.Msg)
	m.SetReply(ch.Request.Msg())
	if s.ttl > 0 {
		rr, _ := dns.NewRR(fmt.Sprintf("%s %d IN A 192.0.2.77", m.Question[0].Name, s.ttl))
		m.Answer = []dns.RR{rr}
	}
	_ = ch.Writer.WriteMsg(m)
	ch.Cancel()
}
func (s *stub) SetQueryer(q middleware.Queryer)         { s.q = q }
func (s *stub) SetPrefetchQueryer(q middleware.Queryer) { s.pq = q }

var (
	curSet     *ipset.Set
	curEnts    []ent
	curACL     *accesslist.List
	aclEnts    []ent
	curViews   *views.Views
	viewEnts   [][]ent
	viewTypes  [][]uint16
	dEnts      []ent
	dStub      *stub
	dPipe      *middleware.Pipeline
	dSlabChain *middleware.Chain
)

type chainLog struct {
	ran    []int
	writer int
}

type scripted struct {
	idx    int
	script string
	lg     *chainLog
}

func (h *scripted) Name() string { return fmt.Sprintf("h%d", h.idx) }
func (h *scripted) ServeDNS(ctx context.Context, ch *middleware.Chain) {
	h.lg.ran = append(h.lg.ran, h.idx)
	for _, a := range h.script {
		switch a {
		case 'n':
			ch.Next(ctx)
		case 'c':
			ch.Cancel()
		case 'w':
			m := new(dns.Msg)
			m.SetReply(ch.Request.Msg())
			if err := ch.Writer.WriteMsg(m); err == nil && h.lg.writer < 0 {
				h.lg.writer = h.idx
			}
		}
	}
}

type named struct{ n string }

func (h *named) Name() string                                       { return h.n }
func (h *named) ServeDNS(ctx context.Context, ch *middleware.Chain) { ch.Next(ctx) }

type namedCO struct {
	named
	co bool
}

func (h *namedCO) ClientOnly() bool { return h.co }

func subCacheHit(n int) vlib.Res {
	reg := middleware.NewRegistry()
	st := &stub{ttl: 300}
	var ch *cache.Cache
	reg.Register("cache", func(c *config.Config) middleware.Handler { ch = cache.New(c); return ch })
	reg.Register("stub", func(c *config.Config) middleware.Handler { return st })
	cfg := &config.Config{CacheSize: 4096, Expire: 600, RateLimit: 1}
	p := reg.Build(cfg)
	middleware.VerifAutoWire(p)
	defer func() {
		if ch != nil {
			ch.Stop()
		}
	}()
	ext := ""
	for i := 0; i < 4; i++ {
		w := mock.NewWriter("udp", "10.1.2.3:4242")
		c := p.NewChain()
		c.Reset(w, query())
		c.Next(context.Background())
		p.PutChain(c)
		ext += vlib.B(w.Written())
	}
	answered := 0
	for i := 0; i < n; i++ {
		resp, err := st.q.Query(context.Background(), query())
		if err == nil && resp != nil && len(resp.Answer) == 1 {
			answered++
		}
	}
	or := "ok"
	if answered != n {
		or = fmt.Sprintf("FAIL sig=sub/internal-query-hit-client-rate-limit answered=%d of %d ext=%s", answered, n, ext)
	}
	if !strings.Contains(ext, "f") {
		// the scenario needs the external client to have been limited at least once
		return vlib.Res{Impl: fmt.Sprintf("ext=%s int=%d", ext, answered), Oracle: or, Tags: "limiter-not-exhausted"}
	}
	return vlib.Res{Impl: fmt.Sprintf("ext=%s int=%d", ext, answered), Oracle: or, Tags: "nt"}
}

func contains(l []string, s string) bool {
	for _, x := range l {
		if x == s {
			return true
		}
	}
	return false
}

type identT struct{ ra net.Addr }

func (t *identT) LocalAddr() net.Addr         { return &net.TCPAddr{IP: net.IPv4(127, 0, 0, 1), Port: 53} }
func (t *identT) RemoteAddr() net.Addr        { return t.ra }
func (t *identT) WriteMsg(*dns.Msg) error     { return nil }
func (t *identT) Write(b []byte) (int, error) { return len(b), nil }
func (t *identT) Close() error                { return nil }

type identP struct {
	identT
	p string
}

func (t *identP) Proto() string { return t.p }

type identI struct {
	identT
	i bool
}

func (t *identI) Internal() bool { return t.i }

type identPI struct {
	identT
	p string
	i bool
}

func (t *identPI) Proto() string  { return t.p }
func (t *identPI) Internal() bool { return t.i }

// slabT is a reusable transport: the object stays, the peer changes.
type slabT struct {
	proto string
	udp   *net.UDPAddr
	tcp   *net.TCPAddr
	n     int
	last  *dns.Msg
}

func (t *slabT) LocalAddr() net.Addr { return &net.TCPAddr{IP: net.IPv4(127, 0, 0, 1), Port: 53} }
func (t *slabT) RemoteAddr() net.Addr {
	if t.proto == "udp" {
		return t.udp
	}
	return t.tcp
}
func (t *slabT) WriteMsg(m *dns.Msg) error   { t.n++; t.last = m; return nil }
func (t *slabT) Write(b []byte) (int, error) { t.n++; return len(b), nil }
func (t *slabT) Close() error                { return nil }

func parseAddrOr(s string) netip.Addr {
	if s == "i" {
		return netip.AddrFrom4([4]byte{127, 0, 0, 255})
	}
	return parseAddr(s)
}

var typeByName = map[string]uint16{"a": dns.TypeA, "aaaa": dns.TypeAAAA, "txt": dns.TypeTXT}

func viewRecord(t uint16, i int) string {
	switch t {
	case dns.TypeAAAA:
		return fmt.Sprintf("x.viewzone. 60 IN AAAA 2001:db8::%d", i+1)
	case dns.TypeTXT:
		return fmt.Sprintf("x.viewzone. 60 IN TXT \"v%d\"", i+1)
	}
	return fmt.Sprintf("x.viewzone. 60 IN A 10.9.0.%d", i+1)
}

func writerFor(a netip.Addr, internal bool, proto string) *mock.Writer {
	if internal {
		return mock.NewWriter(proto, "127.0.0.255:0")
	}
	return mock.NewWriter(proto, netip.AddrPortFrom(a, 4242).String())
}

func query() *dns.Msg {
	m := new(dns.Msg)
	m.SetQuestion("x.viewzone.", dns.TypeA)
	return m
}

func exec(op string) vlib.Res {
	f := strings.Fields(op)
	if len(f) < 2 {
		return vlib.Res{Impl: "bad-op"}
	}
	switch f[0] + " " + f[1] {
	case "ipset new":
		curEnts = parseEnts(f[2])
		set, bad := ipset.New(texts(curEnts))
		curSet = set
		nbad := 0
		for _, e := range curEnts {
			if !e.ok {
				nbad++
			}
		}
		or := "ok"
		if len(bad) != nbad {
			or = fmt.Sprintf("FAIL sig=ipset/new/bad-count want=%d got=%d", nbad, len(bad))
		}
		return vlib.Res{Impl: fmt.Sprintf("len=%d bad=%d", set.Len(), len(bad)), Oracle: or}
	case "ipset contains":
		a := parseAddr(f[2])
		got := curSet.Contains(a)
		want := naive(curEnts, a)
		or := "ok"
		if got != want {
			or = fmt.Sprintf("FAIL sig=ipset/contains/%s want=%v got=%v", map[bool]string{true: "widened", false: "narrowed"}[got], want, got)
		}
		tags := ""
		if len(curEnts) >= 2 {
			tags = "nt"
		}
		// ContainsIP must agree (it is what accesslist calls).
		if curSet.ContainsIP(net.IP(a.AsSlice())) != got {
			or = "FAIL sig=ipset/containsip-differs"
		}
		return vlib.Res{Impl: vlib.B(got), Oracle: or, Tags: tags}
	case "acl new":
		aclEnts = parseEnts(f[2])
		cfg := &config.Config{AccessList: texts(aclEnts)}
		curACL = accesslist.New(cfg)
		if len(aclEnts) == 0 {
			// the code's documented default: empty list = open
			aclEnts = []ent{parseEnt("4:00000000/0"), parseEnt("6:00000000000000000000000000000000/0")}
		}
		return vlib.Res{Impl: "ok"}
	case "acl serve":
		a := parseAddr(f[2])
		internal := f[3] == "t"
		proto := f[4]
		st := &stub{}
		ch := middleware.NewChain([]middleware.Handler{curACL, st})
		w := writerFor(a, internal, proto)
		ch.Reset(w, query())
		ch.Next(context.Background())
		want := internal || naive(aclEnts, a)
		got := st.calls == 1
		or := "ok"
		if got != want {
			or = fmt.Sprintf("FAIL sig=acl/serve/%s want-next=%v", map[bool]string{true: "denied-source-reached-handler", false: "allowed-source-dropped"}[got], want)
		}
		if !got && w.Written() {
			or = "FAIL sig=acl/serve/denied-source-got-reply"
		}
		return vlib.Res{Impl: fmt.Sprintf("next=%s written=%s", vlib.B(got), vlib.B(w.Written())), Oracle: or, Tags: "nt"}
	case "views new":
		// views new <ents>|<types>;<ents>|<types>;…   types: a+aaaa+txt or none
		viewEnts, viewTypes, viewKept = nil, nil, nil
		var vcs []config.ViewConfig
		for i, part := range strings.Split(f[2], ";") {
			es, ts, _ := strings.Cut(part, "|")
			// optional third field: which free-form label the view carries (it
			// names the view in logs and plays no part in who is answered)
			label := "viewzone."
			if t2, z, ok := strings.Cut(ts, "|"); ok {
				ts = t2
				label = viewLabels[vlib.Atoi(strings.TrimPrefix(z, "z"))%len(viewLabels)]
			}
			ents := parseEnts(es)
			viewEnts = append(viewEnts, ents)
			var types []uint16
			var answers []string
			if ts != "none" && ts != "" {
				for _, tn := range strings.Split(ts, "+") {
					types = append(types, typeByName[tn])
					answers = append(answers, viewRecord(typeByName[tn], i))
				}
			}
			viewTypes = append(viewTypes, types)
			vcs = append(vcs, config.ViewConfig{Zone: label, Networks: texts(ents), Answers: answers})
		}
		curViews = views.New(&config.Config{Views: vcs})
		return vlib.Res{Impl: "ok"}
	case "views serve":
		// views serve <addr> <internal> <qtype name>
		a := parseAddr(f[2])
		internal := f[3] == "t"
		qt := typeByName[f[4]]
		st := &stub{}
		ch := middleware.NewChain([]middleware.Handler{curViews, st})
		w := writerFor(a, internal, "udp")
		req := new(dns.Msg)
		req.SetQuestion("x.viewzone.", qt)
		ch.Reset(w, req)
		ch.Next(context.Background())
		got := "none"
		if st.calls == 0 && w.Written() && len(w.Msg().Answer) == 1 {
			switch rr := w.Msg().Answer[0].(type) {
			case *dns.A:
				got = fmt.Sprint(int(rr.A.To4()[3]))
			case *dns.AAAA:
				got = fmt.Sprint(int(rr.AAAA[15]))
			case *dns.TXT:
				got = strings.TrimPrefix(rr.Txt[0], "v")
			}
			if w.Msg().Answer[0].Header().Rrtype != qt {
				got = "wrong-type"
			}
		}
		// property oracle: the FIRST view (declaration order) containing the
		// client decides; it answers iff it holds the queried type, and no
		// later view is consulted.
		want := "none"
		if !internal {
			for i, es := range viewEnts {
				if naive(es, a) {
					for _, t := range viewTypes[i] {
						if t == qt {
							want = fmt.Sprint(i + 1)
						}
					}
					break
				}
			}
		}
		or := "ok"
		if got != want {
			or = fmt.Sprintf("FAIL sig=views/serve/wrong-view want=%s got=%s", want, got)
		}
		if (got == "none") != (st.calls == 1) {
			or = fmt.Sprintf("FAIL sig=views/serve/fallthrough-mismatch got=%s next=%d", got, st.calls)
		}
		// a transport may encode the reply only after the chain has returned (DoH,
		// DoH3 do): what was handed to an earlier client must still be what it was
		// handed, whatever was served since
		for _, k := range viewKept {
			if k.m.String() != k.snap && or == "ok" {
				or = "FAIL sig=views/serve/earlier-reply-changed-by-a-later-query"
			}
		}
		if w.Written() && st.calls == 0 {
			if len(viewKept) >= 16 {
				viewKept = viewKept[1:]
			}
			viewKept = append(viewKept, keptReply{w.Msg(), w.Msg().String()})
		}
		return vlib.Res{Impl: "view=" + got, Oracle: or, Tags: "nt"}
	case "dchain new":
		// dchain new <ents> <clientratelimit>: the REAL default chain from
		// recovery up to (not including) hostsfile, then the stub as the
		// answer surface, built the way sdns.go does (Register + Setup).
		dEnts = parseEnts(f[2])
		middleware.Reset()
		defaults.RegisterUpTo("hostsfile")
		dStub = &stub{}
		st := dStub
		middleware.Register("stub", func(*config.Config) middleware.Handler { return st })
		cfg := &config.Config{AccessList: texts(dEnts), ClientRateLimit: vlib.Atoi(f[3]),
			CookieSecret: "6c6f6f6b61686172646c6f6f6b6168617264"}
		middleware.Setup(cfg)
		dPipe = middleware.GlobalPipeline()
		dSlabChain = nil
		if len(dEnts) == 0 {
			dEnts = []ent{parseEnt("4:00000000/0"), parseEnt("6:00000000000000000000000000000000/0")}
		}
		return vlib.Res{Impl: "ok"}
	case "dchain serve", "dchain rlserve":
		// dchain serve <addr> <proto> <ednsver|-> <opcode> <cookie hex|->
		a := parseAddr(f[2])
		req := new(dns.Msg)
		req.SetQuestion("example.org.", dns.TypeA)
		req.Opcode = vlib.Atoi(f[5])
		if f[4] != "-" {
			req.SetEdns0(1232, false)
			o := req.IsEdns0()
			o.SetVersion(uint8(vlib.Atoi(f[4])))
			if f[6] != "-" {
				o.Option = append(o.Option, &dns.EDNS0_COOKIE{Code: dns.EDNS0COOKIE, Cookie: f[6]})
			}
		}
		w := writerFor(a, false, f[3])
		before := dStub.calls
		ch := dPipe.NewChain()
		ch.Reset(w, req)
		ch.Next(context.Background())
		dPipe.PutChain(ch)
		allowed := naive(dEnts, a)
		reached := dStub.calls != before
		or := "ok"
		if !allowed && w.Written() {
			or = fmt.Sprintf("FAIL sig=dchain/denied-source-got-reply rcode=%d edns=%s opcode=%s cookie=%v", w.Rcode(), f[4], f[5], f[6] != "-")
		} else if !allowed && reached {
			or = "FAIL sig=dchain/denied-source-reached-handler"
		}
		impl := "reply=" + vlib.B(w.Written())
		if f[1] == "rlserve" {
			impl = fmt.Sprintf("reply=%s rcode=%d", vlib.B(w.Written()), w.Rcode())
		}
		return vlib.Res{Impl: impl, Oracle: or, Tags: "nt"}
	case "dchain slab":
		// dchain slab <proto> <addr,addr,…>: ONE chain and ONE transport object
		// carried through several connections / datagrams, the way the server's
		// job slabs are reused. "i" is the resolver's internal sentinel source.
		// Every query is judged by the source it arrived from, not by what an
		// earlier use of the same slab saw.
		if dSlabChain == nil {
			dSlabChain = dPipe.NewChain()
		}
		t := &slabT{proto: f[2]}
		var got, want []string
		or := "ok"
		for _, as := range strings.Split(f[3], ",") {
			var ip net.IP
			port := 4242
			internal := as == "i"
			if internal {
				ip, port = net.IPv4(127, 0, 0, 255), 0
			} else {
				ip = net.IP(parseAddr(as).AsSlice())
			}
			if f[2] == "udp" {
				if t.udp == nil {
					t.udp = &net.UDPAddr{IP: make(net.IP, 0, 16)}
				}
				// the datagram job rewrites its source in place
				t.udp.IP = append(t.udp.IP[:0], ip...)
				t.udp.Port = port
			} else {
				t.tcp = &net.TCPAddr{IP: ip, Port: port}
			}
			t.n = 0
			before := dStub.calls
			dSlabChain.Reset(t, query())
			dSlabChain.Next(context.Background())
			allowed := internal || naive(dEnts, parseAddrOr(as))
			replied := t.n > 0
			got = append(got, vlib.B(replied))
			want = append(want, vlib.B(allowed))
			if !allowed && (replied || dStub.calls != before) {
				or = "FAIL sig=dchain/slab/denied-source-served-on-reused-transport proto=" + f[2]
			} else if allowed && !replied && or == "ok" {
				or = "FAIL sig=dchain/slab/allowed-source-dropped-on-reused-transport proto=" + f[2]
			}
		}
		_ = want
		return vlib.Res{Impl: "reply=" + strings.Join(got, ""), Oracle: or, Tags: "nt"}
	case "chain run":
		// chain run <script;script;…>: a real middleware.Chain of scripted
		// handlers (n = ch.Next, c = ch.Cancel, w = ch.Writer.WriteMsg, - = return
		// at once), served once the way a transport does.
		var hs []middleware.Handler
		lg := &chainLog{writer: -1}
		for i, sc := range strings.Split(f[2], ";") {
			if sc == "-" {
				sc = ""
			}
			hs = append(hs, &scripted{idx: i, script: sc, lg: lg})
		}
		ch := middleware.NewChain(hs)
		w := mock.NewWriter("udp", "10.1.2.3:4242")
		ch.Reset(w, query())
		ch.Next(context.Background())
		var ran []string
		for _, i := range lg.ran {
			ran = append(ran, fmt.Sprint(i))
		}
		wr := "-"
		if lg.writer >= 0 {
			wr = fmt.Sprint(lg.writer)
		}
		or := "ok"
		if (lg.writer >= 0) != w.Written() {
			or = "FAIL sig=chain/run/accepted-write-and-transport-disagree"
		}
		return vlib.Res{Impl: fmt.Sprintf("ran=%s writer=%s", strings.Join(ran, ","), wr), Oracle: or, Tags: "nt"}
	case "wire build":
		// wire build <name:flag,…>  flag t = ClientOnly() true, x = ClientOnly()
		// false, f = does not implement ClientOnly.  The real Registry.Build +
		// Pipeline.autoWire; which handlers the two internal pipelines hold.
		reg := middleware.NewRegistry()
		capt := &stub{}
		for _, part := range strings.Split(f[2], ",") {
			nm, fl, _ := strings.Cut(part, ":")
			var h middleware.Handler
			switch fl {
			case "t":
				h = &namedCO{named{nm}, true}
			case "x":
				h = &namedCO{named{nm}, false}
			default:
				h = &named{nm}
			}
			hh := h
			reg.Register(nm, func(*config.Config) middleware.Handler { return hh })
		}
		reg.Register("stub", func(*config.Config) middleware.Handler { return capt })
		p := reg.Build(&config.Config{})
		middleware.VerifAutoWire(p)
		q := middleware.VerifQueryerNames(capt.q)
		pq := middleware.VerifQueryerNames(capt.pq)
		or := "ok"
		for _, part := range strings.Split(f[2], ",") {
			nm, fl, _ := strings.Cut(part, ":")
			if fl == "t" && (contains(q, nm) || contains(pq, nm)) {
				or = "FAIL sig=wire/client-only-handler-in-internal-pipeline name=" + nm
			}
		}
		if contains(pq, "cache") {
			or = "FAIL sig=wire/cache-in-prefetch-pipeline"
		}
		return vlib.Res{Impl: fmt.Sprintf("q=%s pq=%s", strings.Join(q, ","), strings.Join(pq, ",")), Oracle: or, Tags: "nt"}
	case "ident derive":
		// ident derive <udp|tcp|other> <addr> <port> <tproto|-|e> <tinternal t|f|n>
		var ra net.Addr
		ip := net.IP(parseAddr(f[3]).AsSlice())
		port := vlib.Atoi(f[4])
		switch f[2] {
		case "udp":
			ra = &net.UDPAddr{IP: ip, Port: port}
		case "tcp":
			ra = &net.TCPAddr{IP: ip, Port: port}
		default:
			ra = &net.UnixAddr{Name: "x", Net: "unix"}
		}
		base := identT{ra: ra}
		var t middleware.Transport
		hasP, hasI := f[5] != "-", f[6] != "n"
		pr := f[5]
		if pr == "e" {
			pr = ""
		}
		switch {
		case hasP && hasI:
			t = &identPI{identT: base, p: pr, i: f[6] == "t"}
		case hasP:
			t = &identP{identT: base, p: pr}
		case hasI:
			t = &identI{identT: base, i: f[6] == "t"}
		default:
			t = &base
		}
		ch := middleware.NewChain(nil)
		ch.Reset(t, query())
		internal := ch.Writer.Internal()
		or := "ok"
		if internal && !(hasI && f[6] == "t") && !(port == 0 && f[2] != "other" && ip.Equal(net.IPv4(127, 0, 0, 255))) {
			or = "FAIL sig=ident/network-peer-treated-as-internal"
		}
		return vlib.Res{Impl: fmt.Sprintf("proto=%s internal=%s", ch.Writer.Proto(), vlib.B(internal)), Oracle: or, Tags: "nt"}
	case "views slab":
		// views slab <proto> <addr,addr,…> <qtype>: ONE chain [views, stub] and ONE
		// transport object carried through several peers (udp: the address is
		// rewritten in place, as the datagram job does). Each query is answered
		// from the view of ITS source.
		qt := typeByName[f[4]]
		t := &slabT{proto: f[2]}
		st := &stub{}
		ch := middleware.NewChain([]middleware.Handler{curViews, st})
		var outs []string
		or := "ok"
		for _, as := range strings.Split(f[3], ",") {
			a := parseAddr(as)
			ip := net.IP(a.AsSlice())
			if f[2] == "udp" {
				if t.udp == nil {
					t.udp = &net.UDPAddr{IP: make(net.IP, 0, 16)}
				}
				t.udp.IP = append(t.udp.IP[:0], ip...)
				t.udp.Port = 4242
			} else {
				t.tcp = &net.TCPAddr{IP: ip, Port: 4242}
			}
			t.n, t.last = 0, nil
			before := st.calls
			req := new(dns.Msg)
			req.SetQuestion("x.viewzone.", qt)
			ch.Reset(t, req)
			ch.Next(context.Background())
			got := "none"
			if st.calls == before && t.last != nil && len(t.last.Answer) == 1 {
				switch rr := t.last.Answer[0].(type) {
				case *dns.A:
					got = fmt.Sprint(int(rr.A.To4()[3]))
				case *dns.AAAA:
					got = fmt.Sprint(int(rr.AAAA[15]))
				case *dns.TXT:
					got = strings.TrimPrefix(rr.Txt[0], "v")
				}
			}
			want := "none"
			for i, es := range viewEnts {
				if naive(es, a) {
					for _, ty := range viewTypes[i] {
						if ty == qt {
							want = fmt.Sprint(i + 1)
						}
					}
					break
				}
			}
			if got != want && or == "ok" {
				or = fmt.Sprintf("FAIL sig=views/slab/answered-from-another-sources-view want=%s got=%s", want, got)
			}
			outs = append(outs, got)
		}
		return vlib.Res{Impl: "view=" + strings.Join(outs, ","), Oracle: or, Tags: "nt"}
	case "live run":
		// live run <ents> <peer,peer,…> <hdr>: the REAL server.Server with real UDP
		// and TCP sockets (source 127.0.0.1) and its DoH handler (peers as given),
		// over recovery → accesslist → edns → stub. hdr: - | xff | xri | fwd — a
		// forwarding header naming an ALLOWED address, which must not matter.
		return liveRun(f[2], strings.Split(f[3], ","), f[4])
	case "live tls":
		// live tls <ents>: the REAL server with its DoT, DoH (TLS socket) and DoQ
		// listeners, each asked from 127.0.0.1
		return liveTLS(f[2])
	case "dchain subq":
		// dchain subq <n>: n resolver-internal sub-queries (ordinary and prefetch
		// queryer) through the default chain built by "dchain new". They are never
		// subject to the access list — and the chains they borrow go back to a pool
		// the next client query draws from, which must not inherit their exemption.
		n := vlib.Atoi(f[2])
		answered, panswered := 0, 0
		for i := 0; i < n; i++ {
			if dStub.q != nil {
				if resp, err := dStub.q.Query(context.Background(), query()); err == nil && resp != nil {
					answered++
				}
			}
			if dStub.pq != nil {
				if resp, err := dStub.pq.Query(context.Background(), query()); err == nil && resp != nil {
					panswered++
				}
			}
		}
		or := "ok"
		if answered != n || panswered != n {
			or = fmt.Sprintf("FAIL sig=dchain/subq/internal-query-hit-client-policy answered=%d prefetch-answered=%d of %d", answered, panswered, n)
		}
		return vlib.Res{Impl: fmt.Sprintf("answered=%d prefetch=%d", answered, panswered), Oracle: or, Tags: "subq"}
	case "ident raw":
		// ident raw <6:hex32|4:hex8> <port>: the Linux batched reader's sockaddr
		// decoder, then the current access list: the decision must be taken on the
		// datagram's own source (only a genuine ::ffff:a.b.c.d counts as IPv4).
		a := parseAddr(f[2])
		v6 := strings.HasPrefix(f[2], "6:") || strings.HasPrefix(f[2], "m:")
		raw := a.AsSlice()
		if v6 && len(raw) == 4 {
			raw = net.IP(raw).To16()
		}
		ra, ok := server.VerifC17RawPeer(v6, raw, vlib.Atoi(f[3]))
		if !ok || ra == nil {
			return vlib.Res{Impl: "undecodable", Oracle: "FAIL sig=ident/raw/sockaddr-not-decoded"}
		}
		st := &stub{}
		ch := middleware.NewChain([]middleware.Handler{curACL, st})
		ch.Reset(&identT{ra: ra}, query())
		ch.Next(context.Background())
		want := naive(aclEnts, a)
		got := st.calls == 1
		or := "ok"
		if got != want {
			or = fmt.Sprintf("FAIL sig=ident/raw/decision-not-on-the-datagrams-own-source want-next=%v seen=%s", want, ra.String())
		}
		return vlib.Res{Impl: "next=" + vlib.B(got), Oracle: or, Tags: "nt"}
	case "sub cachehit":
		// sub cachehit <n>: a hot cache entry whose per-entry client rate limit an
		// external client has just exhausted must still answer internal sub-queries.
		return subCacheHit(vlib.Atoi(f[2]))
	case "cfg load":
		// cfg load <label,label,…>: the views and the access list as an operator
		// writes them in the configuration FILE, through the real config.Load, then
		// the real views.New: declaration order is what "first matching view"
		// means. Every view i holds 10.0.0.0/8 (all overlap) and answers x.viewzone.
		// with 10.9.0.<i+1>; a client in 10/8 must get the FIRST declared view.
		labels := strings.Split(f[2], ",")
		var b strings.Builder
		b.WriteString("version = \"test\"\naccesslist = [")
		for i := range labels {
			fmt.Fprintf(&b, "\"10.%d.0.0/16\", ", len(labels)-i)
		}
		b.WriteString("]\n")
		for i, l := range labels {
			fmt.Fprintf(&b, "[[views]]\nzone = %q\nnetworks = [\"10.0.0.0/8\"]\nanswers = [\"x.viewzone. 60 IN A 10.9.0.%d\"]\n", l, i+1)
		}
		dir, _ := os.MkdirTemp(os.Getenv("VERIF_TMP"), "c17cfg")
		defer os.RemoveAll(dir)
		path := dir + "/sdns.conf"
		_ = os.WriteFile(path, []byte(fmt.Sprintf("directory = %q\n", dir+"/db")+b.String()), 0o600)
		cfg, err := config.Load(path, "test")
		if err != nil {
			return vlib.Res{Impl: "load-error", Oracle: "FAIL sig=cfg/load/valid-file-refused " + err.Error()}
		}
		var got []string
		for _, v := range cfg.Views {
			got = append(got, v.Zone)
		}
		vw := views.New(cfg)
		st := &stub{}
		ch := middleware.NewChain([]middleware.Handler{vw, st})
		w := mock.NewWriter("udp", "10.1.2.3:4242")
		ch.Reset(w, query())
		ch.Next(context.Background())
		first := "none"
		if w.Written() && len(w.Msg().Answer) == 1 {
			if a, ok := w.Msg().Answer[0].(*dns.A); ok {
				first = fmt.Sprint(int(a.A.To4()[3]))
			}
		}
		or := "ok"
		if strings.Join(got, ",") != f[2] {
			or = "FAIL sig=cfg/load/views-not-in-declaration-order got=" + strings.Join(got, ",")
		} else if first != "1" {
			or = "FAIL sig=cfg/load/first-declared-view-did-not-answer got=" + first
		}
		acl := strings.Join(cfg.AccessList, ",")
		return vlib.Res{Impl: fmt.Sprintf("views=%s first=%s acl=%d", strings.Join(got, ","), first, strings.Count(acl, ",")+1), Oracle: or, Tags: "nt"}
	case "sub query":
		// Internal sub-queries bypass every client-only policy: a
		// pipeline whose access list denies everything (and whose rate
		// limiter / reflex / views are on) must still answer the queryer.
		reg := middleware.NewRegistry()
		st := &stub{}
		reg.Register("accesslist", func(c *config.Config) middleware.Handler { return accesslist.New(c) })
		reg.Register("ratelimit", func(c *config.Config) middleware.Handler { return ratelimit.New(c) })
		reg.Register("reflex", func(c *config.Config) middleware.Handler { return reflex.New(c) })
		reg.Register("views", func(c *config.Config) middleware.Handler { return views.New(c) })
		reg.Register("stub", func(c *config.Config) middleware.Handler { return st })
		cfg := &config.Config{AccessList: []string{"192.0.2.1/32"}, ClientRateLimit: 1,
			Views: []config.ViewConfig{{Zone: "viewzone.", Networks: []string{"0.0.0.0/0", "::/0"}, Answers: []string{"x.viewzone. 60 IN A 10.9.0.1"}}}}
		cfg.ReflexEnabled = true
		cfg.ReflexBlockMode = true
		p := reg.Build(cfg)
		middleware.VerifAutoWire(p)
		n := vlib.Atoi(f[2])
		answered, panswered := 0, 0
		for i := 0; i < n; i++ {
			resp, err := st.q.Query(context.Background(), query())
			if err == nil && resp != nil && len(resp.Answer) == 0 {
				answered++
			}
			resp, err = st.pq.Query(context.Background(), query())
			if err == nil && resp != nil && len(resp.Answer) == 0 {
				panswered++
			}
		}
		or := "ok"
		if answered != n || panswered != n || st.calls != 2*n {
			or = fmt.Sprintf("FAIL sig=sub/internal-query-hit-client-policy answered=%d prefetch-answered=%d stub=%d of %d", answered, panswered, st.calls, n)
		}
		return vlib.Res{Impl: fmt.Sprintf("answered=%d prefetch=%d stub=%d", answered, panswered, st.calls), Oracle: or, Tags: "nt"}
	}
	return vlib.Res{Impl: "bad-op"}
}

func hex4(v uint32) string { return fmt.Sprintf("%08x", v) }

func genEnt(r *vlib.R, fam int, pool *[]netip.Prefix) string {
	if r.Chance(1, 25) {
		bads := []string{"not-a-cidr", "10.0.0.0/33", "300.1.1.1/8", "::/129", "10.0.0.0", "", "1.2.3.4/", "fe80::/64%eth0", "0.0.0.0/00x", "10.0.0.0/-1"}
		return "bad:" + vlib.Hex([]byte(vlib.Pick(r, bads)))
	}
	width := 32
	if fam == 6 {
		width = 128
	}
	var bits int
	switch r.Intn(6) {
	case 0:
		bits = vlib.Pick(r, []int{0, 1, width - 1, width})
	case 1:
		if fam == 6 {
			bits = vlib.Pick(r, []int{63, 64, 65, 127, 128, 1, 62})
		} else {
			bits = vlib.Pick(r, []int{8, 16, 24, 31, 32})
		}
	default:
		bits = r.Intn(width + 1)
	}
	var addr []byte
	if len(*pool) > 0 && r.Chance(3, 5) {
		// derive from an earlier prefix: nest, abut, duplicate
		base := vlib.Pick(r, *pool)
		if (fam == 4) == base.Addr().Is4() {
			addr = base.Addr().AsSlice()
			switch r.Intn(4) {
			case 0: // duplicate address, other length
			case 1: // adjacent range: add one block
				blk := base.Bits()
				if blk > 0 {
					i := (blk - 1) / 8
					addr[i] += 1 << uint(7-(blk-1)%8)
				}
			case 2: // nested deeper
				if base.Bits() < width {
					bits = base.Bits() + 1 + r.Intn(width-base.Bits())
				}
				extra := r.Bytes(len(addr))
				for i := range addr {
					m := byte(0)
					for b := 0; b < 8; b++ {
						if i*8+b >= base.Bits() {
							m |= 1 << uint(7-b)
						}
					}
					addr[i] |= extra[i] & m
				}
			case 3:
				bits = base.Bits()
			}
			if r.Chance(1, 4) {
				// a sibling on the other side of a machine-word sign bit: same
				// upper bits, top bit of the first or (IPv6) of the ninth octet
				// flipped, and a prefix long enough to keep that bit
				at := 0
				if fam == 6 && r.Chance(2, 3) {
					at = 8
				}
				addr = base.Addr().AsSlice()
				addr[at] ^= 0x80
				min := at*8 + 1
				if bits < min {
					bits = min + r.Intn(width-min+1)
				}
			}
		}
	}
	if fam == 6 && r.Chance(1, 8) {
		// an entry written in IPv4-mapped form, ::ffff:a.b.c.d/N: it is an IPv6
		// prefix like any other (N < 96 reaches far beyond the mapped block), and
		// it never stands for the IPv4 network a.b.c.d/(N-96): a mapped SOURCE
		// counts as IPv4, a mapped ENTRY is not turned into an IPv4 one
		addr = make([]byte, 16)
		addr[10], addr[11] = 0xff, 0xff
		copy(addr[12:], r.Bytes(4))
		if len(*pool) > 0 && r.Chance(1, 2) {
			if b := vlib.Pick(r, *pool); b.Addr().Is4() {
				copy(addr[12:], b.Addr().AsSlice())
			}
		}
		bits = vlib.Pick(r, []int{96, 104, 112, 120, 128, 24, 16, 8, 95, 97, 0, 64})
	}
	if addr == nil {
		addr = r.Bytes(width / 8)
		if r.Chance(1, 6) {
			for i := range addr {
				addr[i] = vlib.Pick(r, []byte{0, 0xff, 0x80, 0x7f})
			}
		}
	}
	var a netip.Addr
	if fam == 4 {
		a = netip.AddrFrom4([4]byte(addr))
	} else {
		a = netip.AddrFrom16([16]byte(addr))
	}
	p := netip.PrefixFrom(a, bits)
	*pool = append(*pool, p)
	return fmt.Sprintf("%d:%s/%d", fam, vlib.Hex(addr), bits)
}

func genList(r *vlib.R, maxN int) (string, []netip.Prefix) {
	n := r.Intn(maxN + 1)
	var pool []netip.Prefix
	var parts []string
	if r.Chance(1, 10) {
		// a non-empty list in which EVERY entry fails to parse: nothing is
		// allowed (the open default is for an empty configuration only)
		bads := []string{"10.0.0.0.8", "192.168.1.0/33", "localhost", "not-a-cidr", "::/129", "10.0.0.0", "1.2.3.4/"}
		for i, m := 0, 1+r.Intn(3); i < m; i++ {
			parts = append(parts, "bad:"+vlib.Hex([]byte(vlib.Pick(r, bads))))
		}
		return strings.Join(parts, ","), nil
	}
	for i := 0; i < n; i++ {
		fam := 4
		if r.Chance(2, 5) {
			fam = 6
		}
		parts = append(parts, genEnt(r, fam, &pool))
	}
	if len(parts) == 0 {
		return "-", nil
	}
	return strings.Join(parts, ","), pool
}

func addBig(b []byte, d int) []byte {
	out := append([]byte(nil), b...)
	for i := len(out) - 1; i >= 0 && d != 0; i-- {
		v := int(out[i]) + d
		out[i] = byte(v & 0xff)
		if v < 0 {
			d = -1
		} else if v > 255 {
			d = 1
		} else {
			d = 0
		}
	}
	return out
}

func genAddr(r *vlib.R, pool []netip.Prefix) string {
	if len(pool) > 0 && r.Chance(4, 5) {
		p := vlib.Pick(r, pool).Masked()
		lo := p.Addr().AsSlice()
		hi := append([]byte(nil), lo...)
		for i := range hi {
			for b := 0; b < 8; b++ {
				if i*8+b >= p.Bits() {
					hi[i] |= 1 << uint(7-b)
				}
			}
		}
		var x []byte
		switch r.Intn(6) {
		case 0:
			x = lo
		case 1:
			x = hi
		case 2:
			x = addBig(lo, -1)
		case 3:
			x = addBig(hi, 1)
		case 4:
			x = addBig(lo, 1)
		default:
			x = addBig(hi, -1)
		}
		if len(x) == 4 {
			if r.Chance(1, 4) {
				return "m:" + vlib.Hex(x)
			}
			return "4:" + vlib.Hex(x)
		}
		return "6:" + vlib.Hex(x)
	}
	switch r.Intn(3) {
	case 0:
		return "4:" + vlib.Hex(r.Bytes(4))
	case 1:
		return "m:" + vlib.Hex(r.Bytes(4))
	}
	return "6:" + vlib.Hex(r.Bytes(16))
}

func gen(r *vlib.R, n int, tier string, emit func(string)) {
	emit("sub query 5")
	emit("sub cachehit 6")
	for i := 0; i < 3; i++ {
		labs := []string{"wifi-guests", "all-lan", "vpnnet", "lannet", "Zeta", "alpha", "m1", "b"}
		for k := len(labs) - 1; k > 0; k-- {
			j := r.Intn(k + 1)
			labs[k], labs[j] = labs[j], labs[k]
		}
		emit("cfg load " + strings.Join(labs[:2+r.Intn(5)], ","))
	}
	// real sockets and the real DoH handler: a few lists that do / do not
	// contain the loopback source, DoH peers in and out, forwarding headers
	lives := 4
	if tier == "thorough" {
		lives = 16
	}
	for i := 0; i < lives; i++ {
		l, pool := genList(r, 4)
		if r.Chance(1, 2) {
			if l == "-" {
				l = "4:7f000000/8"
			} else {
				l += ",4:7f000000/8"
			}
			pool = append(pool, netip.MustParsePrefix("127.0.0.0/8"))
		}
		if l == "-" {
			l = "4:0a000000/8"
			pool = append(pool, netip.MustParsePrefix("10.0.0.0/8"))
		}
		var peers []string
		for j, m := 0, 2+r.Intn(3); j < m; j++ {
			peers = append(peers, genAddr(r, pool))
		}
		// peers a reverse proxy would have: loopback and private sources, whose
		// forwarding headers a server might be tempted to believe
		priv := []string{"4:7f0000ff", "m:7f0000ff", "4:7f000001", "4:0a010203", "4:c0a80207", "4:ac100505", "6:fd000000000000000000000000000001", "6:00000000000000000000000000000001", "m:c0a80207"}
		for j := 0; j < 3; j++ {
			peers = append(peers, vlib.Pick(r, priv))
		}
		emit(fmt.Sprintf("live run %s %s %s", l, strings.Join(peers, ","), vlib.Pick(r, []string{"-", "xff", "xri", "fwd"})))
	}
	// every encrypted listener of the real server, once with and once without the
	// loopback source in the list
	tlss := 1
	if tier == "thorough" {
		tlss = 4
	}
	for i := 0; i < tlss; i++ {
		l, _ := genList(r, 3)
		if l == "-" {
			l = "4:0a000000/8"
		}
		emit("live tls " + l)
		emit("live tls " + l + ",4:7f000000/8")
	}
	for n > 0 {
		switch k := r.Intn(10); {
		case k < 6:
			l, pool := genList(r, 12)
			emit("ipset new " + l)
			q := 4 + r.Intn(12)
			for i := 0; i < q; i++ {
				emit("ipset contains " + genAddr(r, pool))
			}
			n -= q + 1
		case k < 8:
			l, pool := genList(r, 6)
			emit("acl new " + l)
			q := 3 + r.Intn(6)
			for i := 0; i < q; i++ {
				emit(fmt.Sprintf("acl serve %s %s %s", genAddr(r, pool), vlib.B(r.Chance(1, 6)), vlib.Pick(r, []string{"udp", "tcp", "doh"})))
			}
			// the resolver's own sentinel address arriving from a real port is a client
			emit(fmt.Sprintf("acl serve %s f %s", vlib.Pick(r, []string{"4:7f0000ff", "m:7f0000ff"}), vlib.Pick(r, []string{"udp", "tcp", "doh"})))
			n--
			// the batched UDP reader's own sockaddr decoding: v6 sources that merely
			// look like a mapped address in their LAST 64 bits are still v6
			for j := 0; j < 2; j++ {
				a := genAddr(r, pool)
				if strings.HasPrefix(a, "4:") && r.Chance(1, 2) {
					// x:x:x:x:0:ffff:a.b.c.d — interface id 0:ffff:<v4 inside the list>
					a = "6:" + vlib.Hex(r.Bytes(8)) + "0000ffff" + a[2:]
				}
				emit(fmt.Sprintf("ident raw %s %d", a, 1+r.Intn(65535)))
			}
			n -= 2
			n -= q + 1
		case k == 9 && r.Chance(1, 2):
			// dispatch, wiring and identity: the glue between the access list
			// and everything behind it
			for i, m := 0, 6+r.Intn(8); i < m; i++ {
				switch r.Intn(3) {
				case 0:
					var scs []string
					for j, nh := 0, 1+r.Intn(6); j < nh; j++ {
						sc := ""
						for a, na := 0, r.Intn(4); a < na; a++ {
							sc += vlib.Pick(r, []string{"n", "n", "n", "c", "w"})
						}
						if sc == "" {
							sc = "-"
						}
						if r.Chance(1, 4) {
							sc = vlib.Pick(r, []string{"n", "c", "wc", "nn", "nw", "cn"})
						}
						scs = append(scs, sc)
					}
					emit("chain run " + strings.Join(scs, ";"))
				case 1:
					pool := []string{"recovery", "metrics", "accesslist", "ratelimit", "reflex", "views", "edns", "hostsfile", "cache", "resolver", "a", "b"}
					for i := len(pool) - 1; i > 0; i-- {
						j := r.Intn(i + 1)
						pool[i], pool[j] = pool[j], pool[i]
					}
					var parts []string
					for _, nm := range pool[:1+r.Intn(len(pool))] {
						parts = append(parts, nm+":"+vlib.Pick(r, []string{"t", "f", "f", "x"}))
					}
					emit("wire build " + strings.Join(parts, ","))
				default:
					addr := vlib.Pick(r, []string{"4:7f0000ff", "m:7f0000ff", "4:7f000001", "4:7f0000fe", "6:00000000000000000000000000000001", "4:0a000001"})
					emit(fmt.Sprintf("ident derive %s %s %s %s %s", vlib.Pick(r, []string{"udp", "tcp", "other"}), addr,
						vlib.Pick(r, []string{"0", "0", "53", "4242", "65535"}), vlib.Pick(r, []string{"-", "-", "e", "doh", "doq", "tcp"}), vlib.Pick(r, []string{"n", "n", "f", "t"})))
				}
			}
			n -= 10
		case k == 8 && r.Chance(1, 2):
			// the real default chain ahead of the answer surface: a denied
			// source must get nothing whatever it sends (EDNS version,
			// opcode, cookies), with and without the rate limiter
			l, pool := genList(r, 5)
			rl := 0
			verb := "serve"
			if r.Chance(1, 3) {
				rl, verb = 1+r.Intn(3), "rlserve"
			}
			emit(fmt.Sprintf("dchain new %s %d", l, rl))
			q := 4 + r.Intn(8)
			prevCookie := ""
			for i := 0; i < q; i++ {
				ver := vlib.Pick(r, []string{"-", "0", "0", "1", "7", "255"})
				opc := vlib.Pick(r, []string{"0", "0", "0", "1", "2", "4", "5", "9"})
				ck := "-"
				if ver != "-" && r.Chance(1, 2) {
					switch {
					case prevCookie != "" && r.Chance(1, 2):
						// same client cookie, forged server part
						ck = prevCookie[:16] + vlib.Hex(r.Bytes(8+r.Intn(9)))
					default:
						ck = vlib.Hex(r.Bytes(8))
					}
					prevCookie = ck
				}
				if r.Chance(1, 3) {
					// resolver-internal sub-queries in between: their pooled
					// chains must not hand their exemption to the next client
					emit(fmt.Sprintf("dchain subq %d", 1+r.Intn(3)))
					n--
				}
				emit(fmt.Sprintf("dchain %s %s %s %s %s %s", verb, genAddr(r, pool), vlib.Pick(r, []string{"udp", "tcp", "doh"}), ver, opc, ck))
			}
			if rl == 0 {
				for k := 0; k < 2; k++ {
					var as []string
					for j, m := 0, 2+r.Intn(5); j < m; j++ {
						if r.Chance(1, 8) {
							as = append(as, "i")
						} else {
							as = append(as, genAddr(r, pool))
						}
					}
					emit(fmt.Sprintf("dchain slab %s %s", vlib.Pick(r, []string{"udp", "tcp"}), strings.Join(as, ",")))
				}
				n -= 2
			}
			n -= q + 1
		default:
			nv := 1 + r.Intn(4)
			var parts []string
			var pool []netip.Prefix
			tsets := []string{"a", "aaaa", "txt", "a+aaaa", "a+txt", "aaaa+txt", "a+aaaa+txt", "none"}
			var first string
			for i := 0; i < nv; i++ {
				l, p := genList(r, 4)
				if i > 0 && r.Chance(1, 2) {
					l = first // overlapping / identical networks across views
				} else if i > 0 && len(pool) > 0 && r.Chance(1, 2) {
					// a WIDER network that starts where a network of an earlier view
					// starts (10.0.0.0/24 declared first, then 10.0.0.0/8): sources in
					// the wider one and outside the narrower one belong to this view
					b := vlib.Pick(r, pool).Masked()
					if b.Bits() > 0 {
						fam, hexa := 4, vlib.Hex(b.Addr().AsSlice())
						if b.Addr().Is6() {
							fam = 6
						}
						wide := netip.PrefixFrom(b.Addr(), r.Intn(b.Bits()))
						l = fmt.Sprintf("%d:%s/%d", fam, hexa, wide.Bits())
						p = []netip.Prefix{wide}
					}
				}
				if i == 0 {
					first = l
				}
				part := l + "|" + vlib.Pick(r, tsets)
				if r.Chance(1, 2) {
					part += fmt.Sprintf("|z%d", r.Intn(len(viewLabels)))
				}
				parts = append(parts, part)
				pool = append(pool, p...)
			}
			emit("views new " + strings.Join(parts, ";"))
			q := 4 + r.Intn(8)
			for i := 0; i < q; i++ {
				emit(fmt.Sprintf("views serve %s %s %s", genAddr(r, pool), vlib.B(r.Chance(1, 8)), vlib.Pick(r, []string{"a", "aaaa", "txt"})))
			}
			for k := 0; k < 2; k++ {
				var as []string
				for j, m := 0, 2+r.Intn(5); j < m; j++ {
					as = append(as, genAddr(r, pool))
				}
				emit(fmt.Sprintf("views slab %s %s %s", vlib.Pick(r, []string{"udp", "udp", "tcp"}), strings.Join(as, ","), vlib.Pick(r, []string{"a", "aaaa", "txt"})))
			}
			n -= q + 3
		}
	}
}

func facts() map[string]any {
	reg := middleware.NewRegistry()
	_ = reg
	// default chain order, from the generated defaults package itself
	defaults.Register()
	names := middleware.DefaultRegistry.List()
	cfg := &config.Config{AccessList: []string{"192.0.2.1/32"}, ClientRateLimit: 1}
	cfg.ReflexEnabled = true
	cfg.ReflexBlockMode = true
	co := func(h middleware.Handler) bool {
		c, ok := h.(middleware.ClientOnly)
		return ok && c.ClientOnly()
	}
	// ClientOnly() of every handler of the default chain, asked of the
	// handlers the registered constructors build.
	full := &config.Config{AccessList: []string{"192.0.2.1/32"}, ClientRateLimit: 1, Directory: os.TempDir()}
	full.ReflexEnabled = true
	p := middleware.DefaultRegistry.Build(full)
	var cos []bool
	for _, n := range names {
		h := p.Get(n)
		cos = append(cos, h != nil && co(h))
	}
	out := map[string]any{
		"chain_clientonly":      cos,
		"chain_order":           names,
		"clientonly_accesslist": co(accesslist.New(cfg)),
		"clientonly_ratelimit":  co(ratelimit.New(cfg)),
		"clientonly_reflex":     co(reflex.New(cfg)),
		"clientonly_views":      co(views.New(cfg)),
	}
	poolFacts(out)
	return out
}

func main() { vlib.Main(&vlib.Driver{Facts: facts, Exec: exec, Gen: gen}) }
