package main

import (
	"encoding/base64"
	"fmt"
	"net"
	"net/http"
	"net/http/httptest"
	"net/netip"
	"strings"
	"time"

	"github.com/miekg/dns"
	"github.com/semihalev/sdns/config"
	"github.com/semihalev/sdns/internal/verif/srvh"
	"github.com/semihalev/sdns/server"
	"github.com/semihalev/sdns/internal/verif/vlib"
)

// firstAllowed returns an address inside the list, for the forwarding headers.
func firstAllowed(es []ent) string {
	for _, e := range es {
		if e.ok {
			return e.pfx.Addr().String()
		}
	}
	return "10.0.0.1"
}

func liveRun(entS string, peers []string, hdr string) vlib.Res {
	es := parseEnts(entS)
	l := srvh.Start(srvh.Opts{Handlers: []string{"recovery", "accesslist", "edns", "cache"}, Listen: true,
		Tweak: func(cfg *config.Config) { cfg.AccessList = texts(es) }})
	defer l.Stop()
	l.Stub.Set(func(req *dns.Msg) *dns.Msg {
		m := new(dns.Msg)
		m.SetReply(req)
		// a cacheable answer: whatever a front end may remember of it must not
		// stand in for the access decision of the next source
		if len(req.Question) == 1 && req.Question[0].Qtype == dns.TypeA {
			rr, _ := dns.NewRR(req.Question[0].Name + " 60 IN A 192.0.2.77")
			m.Answer = []dns.RR{rr}
		}
		return m
	})
	q := new(dns.Msg)
	q.SetQuestion("live.example.", dns.TypeA)
	loop := netip.MustParseAddr("127.0.0.1")
	loopAllowed := naive(es, loop)
	or := "ok"
	fail := func(s string) {
		if or == "ok" {
			or = "FAIL sig=" + s
		}
	}
	var outs []string
	// real sockets, source 127.0.0.1
	for _, proto := range []string{"udp", "tcp"} {
		before := l.Stub.Calls.Load()
		c := &dns.Client{Net: proto, Timeout: 400 * time.Millisecond}
		if loopAllowed {
			c.Timeout = 2 * time.Second
		}
		resp, _, err := c.Exchange(q.Copy(), l.Addr)
		got := err == nil && resp != nil
		outs = append(outs, proto+"="+vlib.B(got))
		if !loopAllowed && (got || l.Stub.Calls.Load() != before) {
			fail("live/" + proto + "/denied-source-served")
		}
		if loopAllowed && !got {
			fail("live/" + proto + "/allowed-source-dropped")
		}
	}
	// several queries pipelined in ONE segment on one TCP connection (RFC 7766):
	// a denied source hears nothing for any of them, an allowed one gets them all
	{
		before := l.Stub.Calls.Load()
		const k = 3
		var seg []byte
		for i := 0; i < k; i++ {
			qq := q.Copy()
			qq.Id = uint16(0x4100 + i)
			b, _ := qq.Pack()
			seg = append(seg, byte(len(b)>>8), byte(len(b)))
			seg = append(seg, b...)
		}
		got := 0
		if conn, err := net.DialTimeout("tcp", l.Addr, time.Second); err == nil {
			conn.Write(seg)
			wait := 400 * time.Millisecond
			if loopAllowed {
				wait = 2 * time.Second
			}
			conn.SetReadDeadline(time.Now().Add(wait))
			var buf []byte
			tmp := make([]byte, 4096)
			for {
				n, err := conn.Read(tmp)
				buf = append(buf, tmp[:n]...)
				for len(buf) >= 2 && len(buf) >= 2+int(buf[0])<<8+int(buf[1]) {
					buf = buf[2+int(buf[0])<<8+int(buf[1]):]
					got++
				}
				if err != nil || got >= k {
					break
				}
			}
			if len(buf) > 0 {
				got++ // a partial frame is bytes sent all the same
			}
			conn.Close()
		}
		outs = append(outs, fmt.Sprintf("tcpp=%d", got))
		if !loopAllowed && (got > 0 || l.Stub.Calls.Load() != before) {
			fail("live/tcp/denied-source-served-pipelined")
		}
		if loopAllowed && got != k {
			fail("live/tcp/allowed-source-dropped-pipelined")
		}
	}
	// a UDP packet the strict wire parser declines (unknown EDNS option) takes the
	// decoded fallback / worker replay: the source is judged all the same
	{
		before := l.Stub.Calls.Load()
		qq := q.Copy()
		qq.SetEdns0(1232, false)
		o := qq.IsEdns0()
		o.Option = append(o.Option, &dns.EDNS0_LOCAL{Code: 65001, Data: []byte{0xbe, 0xef}})
		c := &dns.Client{Net: "udp", Timeout: 400 * time.Millisecond}
		if loopAllowed {
			c.Timeout = 2 * time.Second
		}
		resp, _, err := c.Exchange(qq, l.Addr)
		got := err == nil && resp != nil
		outs = append(outs, "udpx="+vlib.B(got))
		if !loopAllowed && (got || l.Stub.Calls.Load() != before) {
			fail("live/udp/denied-source-served-on-decoded-fallback")
		}
		if loopAllowed && !got {
			fail("live/udp/allowed-source-dropped-on-decoded-fallback")
		}
	}
	// the DoH handler, any peer
	q0 := q.Copy()
	q0.Id = 0 // the cache-friendly form RFC 8484 recommends: byte-identical for every client
	pk, _ := q0.Pack()
	var dohs []string
	// two passes: whoever asks second has been preceded by every other peer
	for pass, list := 0, append(append([]string(nil), peers...), peers...); pass < len(list); pass++ {
		ps := list[pass]
		a := parseAddr(ps)
		before := l.Stub.Calls.Load()
		r := httptest.NewRequest(http.MethodGet, "/dns-query?dns="+base64.RawURLEncoding.EncodeToString(pk), nil)
		r.RemoteAddr = net.JoinHostPort(a.String(), "4242")
		ok := firstAllowed(es)
		switch hdr {
		case "xff":
			r.Header.Set("X-Forwarded-For", ok+", 203.0.113.7")
		case "xri":
			r.Header.Set("X-Real-IP", ok)
		case "fwd":
			r.Header.Set("Forwarded", "for="+ok)
		}
		rec := httptest.NewRecorder()
		l.Srv.ServeHTTP(rec, r)
		body := rec.Body.Bytes()
		m := new(dns.Msg)
		got := rec.Code == 200 && len(body) >= 12 && m.Unpack(body) == nil && m.Response
		if pass < len(peers) {
			dohs = append(dohs, vlib.B(got))
		}
		allowed := naive(es, a)
		if !allowed && (got || l.Stub.Calls.Load() != before) {
			fail(fmt.Sprintf("live/doh/denied-source-served hdr=%s", hdr))
		}
		if allowed && !got {
			fail("live/doh/allowed-source-dropped")
		}
	}
	outs = append(outs, "doh="+strings.Join(dohs, ""))
	// two decoded-path requests overlapping in time: while an allowed client's
	// query waits in resolution, a denied source's query arrives (here: from inside
	// the stub, i.e. on the same scheduler thread, where a pooled object handed out
	// twice would be met). Each is judged by its own source, and each reply goes to
	// its own client.
	{
		var allowedPeer, deniedPeer string
		for _, ps := range peers {
			if naive(es, parseAddr(ps)) {
				allowedPeer = ps
			} else {
				deniedPeer = ps
			}
		}
		ov := "-"
		if allowedPeer != "" && deniedPeer != "" {
			mk := func(ps, name string) *http.Request {
				qq := new(dns.Msg)
				qq.SetQuestion(name, dns.TypeA)
				b, _ := qq.Pack()
				r := httptest.NewRequest(http.MethodGet, "/dns-query?dns="+base64.RawURLEncoding.EncodeToString(b), nil)
				r.RemoteAddr = net.JoinHostPort(parseAddr(ps).String(), "4243")
				return r
			}
			isReply := func(rec *httptest.ResponseRecorder) bool {
				m := new(dns.Msg)
				body := rec.Body.Bytes()
				return rec.Code == 200 && len(body) >= 12 && m.Unpack(body) == nil && m.Response
			}
			// a completed request first: whatever it returns to the pools is there now
			l.Srv.ServeHTTP(httptest.NewRecorder(), mk(allowedPeer, "warm.example."))
			var inner *httptest.ResponseRecorder
			innerStub := int64(-1)
			l.Stub.Set(func(req *dns.Msg) *dns.Msg {
				if len(req.Question) == 1 && req.Question[0].Name == "slow.example." && inner == nil {
					inner = httptest.NewRecorder()
					before := l.Stub.Calls.Load()
					l.Srv.ServeHTTP(inner, mk(deniedPeer, "other.example."))
					innerStub = l.Stub.Calls.Load() - before
				}
				m := new(dns.Msg)
				m.SetReply(req)
				return m
			})
			outer := httptest.NewRecorder()
			l.Srv.ServeHTTP(outer, mk(allowedPeer, "slow.example."))
			ov = vlib.B(isReply(outer))
			if inner != nil {
				ov += vlib.B(isReply(inner))
				if isReply(inner) || innerStub > 0 {
					fail("live/doh/denied-source-served-while-another-query-was-in-flight")
				}
			}
			if !isReply(outer) {
				fail("live/doh/allowed-source-lost-its-reply-to-an-overlapping-query")
			}
		}
		outs = append(outs, "overlap="+ov)
	}
	// the engines' own entry, any source: one raw datagram / stream frame handed to
	// ServeRaw (and to the inline pass + worker replay) on a strict-slot job — read
	// just now, and read so long ago that its whole query budget is spent. Whatever
	// the server does about a spent budget, a source outside the list hears nothing
	// and nothing behind the list runs.
	{
		var raws []string
		for i, ps := range peers {
			a := parseAddr(ps)
			allowed := naive(es, a)
			var remote net.Addr = &net.UDPAddr{IP: net.IP(a.AsSlice()), Port: 5300 + i}
			if i%2 == 1 {
				remote = &net.TCPAddr{IP: net.IP(a.AsSlice()), Port: 5300 + i}
			}
			serve := func(age time.Duration, inline bool) (wrote bool, reached bool) {
				qq := q.Copy()
				qq.Id = uint16(0x5200 + i)
				if age > 0 {
					qq.Question[0].Name = fmt.Sprintf("stale%d.example.", i)
				}
				b, _ := qq.Pack()
				before := l.Stub.Calls.Load()
				job := &server.VerifJob{Remote: remote}
				rt := time.Now().Add(-age)
				if inline && l.Srv.InlineReady() {
					if !l.Srv.ServeRawInline(job, b, rt) {
						l.Srv.ServeRawReplay(job, b, rt)
					}
				} else {
					l.Srv.ServeRaw(job, b, rt)
				}
				return len(job.Writes) > 0, l.Stub.Calls.Load() != before
			}
			wrote, reached := serve(0, false)
			raws = append(raws, vlib.B(wrote))
			if !allowed && (wrote || reached) {
				fail("live/raw/denied-source-served")
			}
			if allowed && !wrote {
				fail("live/raw/allowed-source-dropped")
			}
			for _, inline := range []bool{false, true} {
				if w2, r2 := serve(30*time.Second, inline); !allowed && (w2 || r2) {
					fail(fmt.Sprintf("live/raw/denied-source-served-after-its-budget-was-spent inline=%v", inline))
				}
			}
		}
		outs = append(outs, "raw="+strings.Join(raws, ""))
	}
	return vlib.Res{Impl: strings.Join(outs, " "), Oracle: or, Tags: "nt,live"}
}
