package main

import (
	"context"
	"crypto/ecdsa"
	"crypto/elliptic"
	"crypto/rand"
	"crypto/tls"
	"crypto/x509"
	"crypto/x509/pkix"
	"encoding/base64"
	"encoding/pem"
	"fmt"
	"io"
	"math/big"
	"net"
	"net/http"
	"net/netip"
	"os"
	"path/filepath"
	"strings"
	"time"

	"github.com/miekg/dns"
	"github.com/quic-go/quic-go"
	"github.com/semihalev/sdns/config"
	"github.com/semihalev/sdns/internal/verif/srvh"
	"github.com/semihalev/sdns/internal/verif/vlib"
)

func freeDualPort() int {
	for i := 0; i < 100; i++ {
		pc, err := net.ListenPacket("udp", "127.0.0.1:0")
		if err != nil {
			continue
		}
		port := pc.LocalAddr().(*net.UDPAddr).Port
		ln, err := net.Listen("tcp", fmt.Sprintf("127.0.0.1:%d", port))
		pc.Close()
		if err != nil {
			continue
		}
		ln.Close()
		return port
	}
	return 0
}

func writeSelfSigned(dir string) (certFile, keyFile string, err error) {
	key, err := ecdsa.GenerateKey(elliptic.P256(), rand.Reader)
	if err != nil {
		return "", "", err
	}
	tmpl := &x509.Certificate{SerialNumber: big.NewInt(17), Subject: pkix.Name{CommonName: "c17.test"},
		NotBefore: time.Now().Add(-time.Hour), NotAfter: time.Now().Add(24 * time.Hour),
		KeyUsage: x509.KeyUsageDigitalSignature, ExtKeyUsage: []x509.ExtKeyUsage{x509.ExtKeyUsageServerAuth},
		IPAddresses: []net.IP{net.IPv4(127, 0, 0, 1)}, DNSNames: []string{"localhost"}}
	der, err := x509.CreateCertificate(rand.Reader, tmpl, tmpl, &key.PublicKey, key)
	if err != nil {
		return "", "", err
	}
	kb, err := x509.MarshalECPrivateKey(key)
	if err != nil {
		return "", "", err
	}
	certFile, keyFile = filepath.Join(dir, "c17.cert"), filepath.Join(dir, "c17.key")
	if err = os.WriteFile(certFile, pem.EncodeToMemory(&pem.Block{Type: "CERTIFICATE", Bytes: der}), 0o600); err != nil {
		return
	}
	err = os.WriteFile(keyFile, pem.EncodeToMemory(&pem.Block{Type: "EC PRIVATE KEY", Bytes: kb}), 0o600)
	return
}

// liveTLS starts the REAL server with every encrypted listener it has (DoT, DoH
// over a real TLS socket, DoQ) next to UDP/TCP and asks each from 127.0.0.1:
// a source the list does not hold hears nothing on any of them and nothing behind
// the list runs; one it holds is answered on all of them. A machine that cannot
// start the listeners (descriptor limits of the certificate watcher) is reported
// as not judged, never as a verdict.
func liveTLS(entS string) (res vlib.Res) {
	es := parseEnts(entS)
	var l *srvh.Live
	var dot, doh, doq string
	func() {
		defer func() {
			if r := recover(); r != nil {
				l = nil
			}
		}()
		l = srvh.Start(srvh.Opts{Handlers: []string{"recovery", "accesslist", "edns", "cache"}, Listen: true,
			Tweak: func(cfg *config.Config) {
				cfg.AccessList = texts(es)
				c, k, err := writeSelfSigned(cfg.Directory)
				if err != nil {
					panic(err)
				}
				cfg.TLSCertificate, cfg.TLSPrivateKey = c, k
				dot = fmt.Sprintf("127.0.0.1:%d", freeDualPort())
				doh = fmt.Sprintf("127.0.0.1:%d", freeDualPort())
				doq = fmt.Sprintf("127.0.0.1:%d", freeDualPort())
				cfg.BindTLS, cfg.BindDOH, cfg.BindDOQ = dot, doh, doq
			}})
	}()
	if l == nil {
		return vlib.Res{Impl: "dot=- doh=- doq=-", Oracle: "ok", Tags: "nt,live-tls,live-tls-setup-failed"}
	}
	defer l.Stop()
	l.Stub.Set(func(req *dns.Msg) *dns.Msg {
		m := new(dns.Msg)
		m.SetReply(req)
		return m
	})
	q := new(dns.Msg)
	q.SetQuestion("livetls.example.", dns.TypeA)
	allowed := naive(es, netip.MustParseAddr("127.0.0.1"))
	wait := 500 * time.Millisecond
	if allowed {
		wait = 3 * time.Second
	}
	tcfg := &tls.Config{InsecureSkipVerify: true} //nolint:gosec // loopback test server
	or := "ok"
	fail := func(s string) {
		if or == "ok" {
			or = "FAIL sig=" + s
		}
	}
	judge := func(proto string, got bool, before int64) string {
		if !allowed && (got || l.Stub.Calls.Load() != before) {
			fail("live/" + proto + "/denied-source-served")
		}
		if allowed && !got {
			fail("live/" + proto + "/allowed-source-dropped")
		}
		return proto + "=" + vlib.B(got)
	}
	var outs []string
	up := func(addr string) bool { // the listener goroutines bind asynchronously
		for i := 0; i < 100; i++ {
			c, err := net.DialTimeout("tcp", addr, 100*time.Millisecond)
			if err == nil {
				c.Close()
				return true
			}
			time.Sleep(20 * time.Millisecond)
		}
		return false
	}
	if !up(dot) || !up(doh) {
		return vlib.Res{Impl: "dot=- doh=- doq=-", Oracle: "ok", Tags: "nt,live-tls,live-tls-setup-failed"}
	}
	// DoT
	{
		before := l.Stub.Calls.Load()
		c := &dns.Client{Net: "tcp-tls", Timeout: wait, TLSConfig: tcfg}
		resp, _, err := c.Exchange(q.Copy(), dot)
		outs = append(outs, judge("dot", err == nil && resp != nil, before))
	}
	// DoH through the real HTTPS listener
	{
		before := l.Stub.Calls.Load()
		pk, _ := q.Pack()
		hc := &http.Client{Timeout: wait + time.Second, Transport: &http.Transport{TLSClientConfig: tcfg, DisableKeepAlives: true}}
		got := false
		if resp, err := hc.Get("https://" + doh + "/dns-query?dns=" + base64.RawURLEncoding.EncodeToString(pk)); err == nil {
			body, _ := io.ReadAll(resp.Body)
			resp.Body.Close()
			m := new(dns.Msg)
			got = resp.StatusCode == 200 && len(body) >= 12 && m.Unpack(body) == nil && m.Response
		}
		outs = append(outs, judge("doh", got, before))
	}
	// DoQ: one query on one stream; a denied source gets the stream closed empty
	{
		before := l.Stub.Calls.Load()
		got, dialed := false, false
		ctx, cancel := context.WithTimeout(context.Background(), 4*time.Second)
		qc := &tls.Config{InsecureSkipVerify: true, NextProtos: []string{"doq"}} //nolint:gosec // loopback test server
		var conn *quic.Conn
		var err error
		for i := 0; i < 20 && conn == nil; i++ {
			conn, err = quic.DialAddr(ctx, doq, qc, nil)
			if err != nil {
				conn = nil
				time.Sleep(50 * time.Millisecond)
			}
		}
		if conn != nil {
			dialed = true
			if stream, err := conn.OpenStreamSync(ctx); err == nil {
				qq := q.Copy()
				qq.Id = 0
				b, _ := qq.Pack()
				stream.Write(append([]byte{byte(len(b) >> 8), byte(len(b))}, b...))
				stream.Close()
				stream.SetReadDeadline(time.Now().Add(wait))
				data, _ := io.ReadAll(stream)
				got = len(data) > 0
			}
			conn.CloseWithError(0, "")
		}
		cancel()
		if !dialed {
			outs = append(outs, "doq=-")
		} else {
			outs = append(outs, judge("doq", got, before))
		}
	}
	tags := "nt,live-tls"
	if strings.Contains(strings.Join(outs, " "), "doq=-") {
		tags += ",live-doq-not-dialed"
	}
	return vlib.Res{Impl: strings.Join(outs, " "), Oracle: or, Tags: tags}
}
