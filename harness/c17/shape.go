package main

import (
	"bytes"
	"go/ast"
	"go/parser"
	"go/printer"
	"go/token"
	"os"
	"path/filepath"
	"sort"
	"strings"
)

func repoDir() string {
	if d := os.Getenv("VERIF_REPO"); d != "" {
		return d
	}
	return "/repo"
}

func src(fset *token.FileSet, n ast.Node) string {
	var b bytes.Buffer
	_ = printer.Fprint(&b, fset, n)
	return b.String()
}

// poolFacts reads the tree under check (go/ast) for the discipline the pooled
// chains rest on (Model/Chain.lean, `Pools`):
//   - pool_unpaired: functions (middleware, server, non-test) in which the receivers
//     of x.NewChain() and y.PutChain(ch) differ, or that hold more PutChain than
//     NewChain call sites — a chain goes back once, to the pipeline it was drawn from;
//   - pool_foreign_access: `chainPool` reached through anything but the method's
//     own receiver in middleware/pipeline.go — a pipeline touches only its own pool;
//   - pool_new_binds_own: the pool's constructor builds chains over the pipeline's
//     own handler list.
func poolFacts(out map[string]any) {
	unpaired, foreign := []string{}, []string{}
	bindsOwn := false
	fset := token.NewFileSet()
	for _, dir := range []string{"middleware", "server", "server/doh", "server/doq"} {
		ents, err := os.ReadDir(filepath.Join(repoDir(), dir))
		if err != nil {
			continue
		}
		for _, e := range ents {
			n := e.Name()
			if e.IsDir() || !strings.HasSuffix(n, ".go") || strings.HasSuffix(n, "_test.go") || strings.HasPrefix(n, "zz_") {
				continue
			}
			f, err := parser.ParseFile(fset, filepath.Join(repoDir(), dir, n), nil, 0)
			if err != nil {
				continue
			}
			for _, d := range f.Decls {
				fd, ok := d.(*ast.FuncDecl)
				if !ok || fd.Body == nil {
					continue
				}
				recvName := ""
				if fd.Recv != nil && len(fd.Recv.List) == 1 && len(fd.Recv.List[0].Names) == 1 {
					recvName = fd.Recv.List[0].Names[0].Name
				}
				news, puts := map[string]bool{}, map[string]bool{}
				nNew, nPut := 0, 0
				ast.Inspect(fd.Body, func(x ast.Node) bool {
					switch v := x.(type) {
					case *ast.CallExpr:
						if s, ok := v.Fun.(*ast.SelectorExpr); ok {
							if id, isPkg := s.X.(*ast.Ident); isPkg && id.Name == "middleware" {
								return true
							}
							if s.Sel.Name == "NewChain" && len(v.Args) == 0 {
								news[src(fset, s.X)] = true
								nNew++
							}
							if s.Sel.Name == "PutChain" && len(v.Args) == 1 {
								puts[src(fset, s.X)] = true
								nPut++
							}
						}
					case *ast.SelectorExpr:
						if dir == "middleware" && n == "pipeline.go" && v.Sel.Name == "chainPool" {
							if id, ok := v.X.(*ast.Ident); !ok || id.Name != "p" || (recvName != "p" && fd.Name.Name != "newPipeline") {
								foreign = append(foreign, fd.Name.Name+":"+src(fset, v))
							}
						}
					}
					return true
				})
				if len(news) > 0 || len(puts) > 0 {
					same := len(news) == len(puts)
					for k := range news {
						if !puts[k] {
							same = false
						}
					}
					// a function that only draws (long-lived chain) is not a pairing breach;
					// one that returns more often than it draws puts ONE chain into the pool
					// twice, and two later requests then share it
					if len(puts) > 0 && (!same || nPut > nNew) {
						unpaired = append(unpaired, dir+"/"+n+":"+fd.Name.Name)
					}
				}
				if dir == "middleware" && n == "pipeline.go" && fd.Name.Name == "newPipeline" {
					ast.Inspect(fd.Body, func(x ast.Node) bool {
						as, ok := x.(*ast.AssignStmt)
						if !ok || len(as.Lhs) != 1 || len(as.Rhs) != 1 || src(fset, as.Lhs[0]) != "p.chainPool.New" {
							return true
						}
						if fl, ok := as.Rhs[0].(*ast.FuncLit); ok && len(fl.Body.List) == 1 {
							if rs, ok := fl.Body.List[0].(*ast.ReturnStmt); ok && len(rs.Results) == 1 {
								if c, ok := rs.Results[0].(*ast.CallExpr); ok && len(c.Args) >= 1 &&
									strings.EqualFold(src(fset, c.Fun), "newChain") && src(fset, c.Args[0]) == "p.handlers" {
									bindsOwn = true
								}
							}
						}
						return true
					})
				}
			}
		}
	}
	sort.Strings(unpaired)
	sort.Strings(foreign)
	out["pool_unpaired"] = unpaired
	out["pool_foreign_access"] = foreign
	out["pool_new_binds_own"] = bindsOwn
}
