//go:build verif

// Correspondence driver for C13 (cached failures, RFC 9520): the real
// FailureCache / Store / ResponseWriter.WriteMsg / resolver admission filters
// driven by op lines, next to an independent reference oracle (oracle.go).
package main

import (
	"context"
	"errors"
	"fmt"
	"net/netip"
	"sort"
	"strings"
	"sync"
	"time"

	"github.com/miekg/dns"
	"github.com/semihalev/sdns/config"
	"github.com/semihalev/sdns/internal/mock"
	"github.com/semihalev/sdns/internal/verif/vlib"
	"github.com/semihalev/sdns/middleware"
	"github.com/semihalev/sdns/middleware/cache"
	"github.com/semihalev/sdns/middleware/resolver"
)

// ---------------------------------------------------------------- state

var (
	fc      *cache.FailureCache // nil when NewFailureCache rejected the config
	full    *cache.Cache
	st      *cache.Store
	st2     *cache.Store // a Store with empty answer caches around the same failure cache (sget)
	nowNS   int64
	cfgMin  int64 // validated bounds of the current case (ns)
	cfgMax  int64
	enabled bool

	lastRetry int64 // retryAfter of the last hit any op returned (generator aid)
)

func clock() time.Time { return time.Unix(0, nowNS) }

func setNow(s string) { nowNS = vlib.AtoI64(s) }

// ---------------------------------------------------------------- parsing

func nameOf(h string) string { return string(vlib.UnHex(h)) }

func hexName(s string) string { return vlib.Hex([]byte(s)) }

// scope syntax: -  |  4:<8 hex>/<bits>  |  6:<32 hex>/<bits>
func parseScope(s string) netip.Prefix {
	if s == "-" {
		return netip.Prefix{}
	}
	fam, rest, _ := strings.Cut(s, ":")
	h, bitsS, _ := strings.Cut(rest, "/")
	b := vlib.UnHex(h)
	var a netip.Addr
	if fam == "4" {
		a = netip.AddrFrom4([4]byte(b))
	} else {
		a = netip.AddrFrom16([16]byte(b))
	}
	return netip.PrefixFrom(a, vlib.Atoi(bitsS))
}

func fmtScope(p netip.Prefix) string {
	if !p.IsValid() {
		return "-"
	}
	fam := "6"
	if p.Addr().Is4() {
		fam = "4"
	}
	return fmt.Sprintf("%s:%s/%d", fam, vlib.Hex(p.Addr().AsSlice()), p.Bits())
}

// question key fields: <name hex> <type> <class> <cd> <scope>
func parseQ(f []string) cache.FailureQuestionKey {
	return cache.FailureQuestionKey{
		Question: dns.Question{Name: nameOf(f[0]), Qtype: uint16(vlib.Atoi(f[1])), Qclass: uint16(vlib.Atoi(f[2]))},
		CD:       f[3] == "t",
		Scope:    parseScope(f[4]),
	}
}

func provOf(n string) cache.FailureProvenance { return cache.FailureProvenance("p" + n) }

func provNum(p cache.FailureProvenance) string {
	switch p {
	case "response":
		return "1"
	case "authority":
		return "2"
	case "seed":
		return "9"
	}
	return strings.TrimPrefix(string(p), "p")
}

func fmtHit(h cache.FailureHit) string {
	lastRetry = h.RetryAfter.UnixNano()
	head := fmt.Sprintf("streak=%d retry=%d prov=%s wit=%d", h.Streak, h.RetryAfter.UnixNano(), provNum(h.Provenance), cache.VerifC13WitnessID(h))
	switch h.Kind {
	case cache.FailureKindQuestion:
		q := h.Question
		return fmt.Sprintf("q %s key=%s/%d/%d/%s/%s", head, hexName(q.Question.Name), q.Question.Qtype, q.Question.Qclass, vlib.B(q.CD), fmtScope(q.Scope))
	case cache.FailureKindZone:
		return fmt.Sprintf("z %s key=%s/%d", head, hexName(h.Zone.Zone), h.Zone.Qclass)
	}
	return fmt.Sprintf("kind%d %s", h.Kind, head)
}

func fmtLookup(h cache.FailureHit, ok bool) string {
	if !ok {
		return "miss"
	}
	return fmtHit(h)
}

// ---------------------------------------------------------------- contexts

// ctx flags: a string over {e (ended: cancelled), d (ended: deadline passed),
// b (best-effort), w (work limit latched)} or "-".
func buildCtx(flags string) (context.Context, context.CancelFunc) {
	ctx := context.Background()
	cancel := func() {}
	ctx, _ = middleware.EnsureResolutionAttemptGuard(ctx)
	if strings.Contains(flags, "w") {
		led := middleware.NewRecursionWorkLedger(middleware.RecursionWorkPolicy{Mode: middleware.RecursionWorkEnforce, MaxOutboundQueries: 1})
		_ = led.Debit(middleware.RecursionWorkOutboundQuery)
		_ = led.Debit(middleware.RecursionWorkOutboundQuery)
		ctx = middleware.WithRecursionWork(ctx, led)
	}
	if strings.Contains(flags, "b") {
		ctx = middleware.WithBestEffortRecursionWork(ctx)
	}
	if strings.Contains(flags, "d") {
		var c context.CancelFunc
		ctx, c = context.WithDeadline(ctx, time.Now().Add(-time.Hour))
		cancel = c
	}
	if strings.Contains(flags, "e") {
		var c context.CancelFunc
		ctx, c = context.WithCancel(ctx)
		c()
	}
	if strings.Contains(flags, "p") {
		ctx = pastDeadlineCtx{ctx}
	}
	return ctx, cancel
}

// pastDeadlineCtx is a request context at the instant its deadline has passed
// on the wall clock while the runtime has not yet published it: Deadline() is
// in the past, Err() is still nil, Done() not closed.
type pastDeadlineCtx struct{ context.Context }

func (pastDeadlineCtx) Deadline() (time.Time, bool) { return time.Now().Add(-time.Millisecond), true }

var errOther = errors.New("dial tcp 192.0.2.1:53: connection refused")

func causeErr(c string) error {
	wrap := false
	if strings.HasPrefix(c, "w:") {
		wrap = true
		c = c[2:]
	}
	var e error
	switch c {
	case "none":
		return nil
	case "work":
		e = middleware.ErrRecursionWorkLimit
	case "attempt":
		e = &middleware.ResolutionAttemptLimitError{Question: dns.Question{Name: "x.", Qtype: 1, Qclass: 1}, Endpoint: "192.0.2.1:53", Transport: "udp"}
	case "probe":
		e = middleware.ErrFailureProbeLimit
	case "shed":
		e = middleware.ErrLocalLoadShed
	case "maxrec":
		e = middleware.ErrMaxRecursion
	case "canceled":
		e = context.Canceled
	case "deadline":
		e = context.DeadlineExceeded
	default:
		e = errOther
	}
	if wrap {
		e = fmt.Errorf("exchange: %w", e)
	}
	return e
}

func classifyErr(err error) string {
	switch {
	case err == nil:
		return "none"
	case errors.Is(err, middleware.ErrRecursionWorkLimit):
		return "work"
	case errors.Is(err, middleware.ErrResolutionAttemptLimit):
		return "attempt"
	case errors.Is(err, middleware.ErrFailureProbeLimit):
		return "probe"
	case errors.Is(err, middleware.ErrLocalLoadShed):
		return "shed"
	case errors.Is(err, middleware.ErrMaxRecursion):
		return "maxrec"
	case errors.Is(err, context.Canceled):
		return "canceled"
	case errors.Is(err, context.DeadlineExceeded):
		return "deadline"
	}
	return "other"
}

func localCause(c string) bool {
	c = strings.TrimPrefix(c, "w:")
	return c == "work" || c == "attempt" || c == "probe" || c == "shed" || c == "maxrec" || c == "canceled" || c == "deadline"
}

// zoneStore counts what the resolver publishes.
type zoneStore struct{ recorded, cleared int }

func (z *zoneStore) Get(*dns.Msg) (*dns.Msg, bool)             { return nil, false }
func (z *zoneStore) SetFromResponse(*dns.Msg, bool, time.Time) {}
func (z *zoneStore) RecordZoneFailure(dns.Question, string)    { z.recorded++ }
func (z *zoneStore) ClearZoneFailure(dns.Question, string)     { z.cleared++ }

// ---------------------------------------------------------------- exec

func newReq(k cache.FailureQuestionKey) *dns.Msg {
	m := new(dns.Msg)
	m.Id = 4242
	m.RecursionDesired = true
	m.CheckingDisabled = k.CD
	m.Question = []dns.Question{k.Question}
	return m
}

// exec runs one op and tags it for the evidence's input distribution.
func exec(op string) vlib.Res {
	res := execOp(op)
	f := strings.Fields(op)
	if len(f) >= 2 {
		tags := []string{"op=" + f[1]}
		switch first, _, _ := strings.Cut(res.Impl, " "); first {
		case "q", "z", "miss", "hit", "none", "nocache":
			tags = append(tags, "res="+first)
		}
		if strings.Contains(op, " t 4:") || strings.Contains(op, " f 4:") || strings.Contains(op, " t 6:") || strings.Contains(op, " f 6:") {
			tags = append(tags, "ecs")
		}
		if res.Tags != "" {
			tags = append(tags, res.Tags)
		}
		res.Tags = strings.Join(tags, ",")
	}
	return res
}

func execOp(op string) vlib.Res {
	f := strings.Fields(op)
	if len(f) < 2 || f[0] != "fail" {
		return vlib.Res{Impl: "bad-op"}
	}
	a := f[2:]
	switch f[1] {
	case "new":
		return execNew(a)
	case "backoffcfg":
		// fail backoffcfg <min> <max> <streak>: stateless form
		c, err := cache.NewFailureCache(cache.FailureCacheConfig{Size: 8, InitialTTL: time.Duration(vlib.AtoI64(a[0])), MaxTTL: time.Duration(vlib.AtoI64(a[1]))})
		if err != nil {
			return vlib.Res{Impl: "nocache"}
		}
		defer c.Stop()
		mn, mx := cache.VerifC13TTLs(c)
		got := int64(cache.VerifC13Backoff(c, uint32(vlib.AtoU64(a[2]))))
		return vlib.Res{Impl: fmt.Sprint(got), Oracle: oracleBackoffPoint(c, int64(mn), int64(mx), vlib.AtoU64(a[2]), got), Tags: "nt"}
	case "cacheable":
		return execCacheable(a)
	case "zonerec":
		return execZoneRec(a)
	case "hle":
		return execHLE(a)
	case "pick":
		return execPick(a)
	case "response":
		return execResponse(a)
	case "l3zone":
		return execL3Zone(a)
	case "l3shed":
		return execL3Shed(a)
	case "nss":
		return execNss(a)
	case "l3id":
		return execL3ID(a)
	case "l3deadline":
		return execL3Deadline(a)
	case "l3trunc":
		return execL3Trunc(a)
	case "l3v6":
		return execL3V6(a)
	case "nss6":
		return execNss6(a)
	case "cb":
		return execCB(a)
	case "qs":
		return execQS(a)
	}
	if fc == nil {
		return vlib.Res{Impl: "nocache"}
	}
	switch f[1] {
	case "recq": // <q key 5> <now> <prov> <wit>
		k := parseQ(a)
		setNow(a[5])
		ref.observe(refQ(k), cache.VerifC13QuestionHash(k))
		h := fc.RecordQuestion(k, provOf(a[6]), cache.VerifC13Witness(vlib.AtoU64(a[7])))
		return vlib.Res{Impl: fmtHit(h), Oracle: ref.recorded(refQ(k), h, "recq"), Tags: "nt"}
	case "race": // <q key 5> <now> <n>: n concurrent recorders of one failure
		k := parseQ(a)
		setNow(a[5])
		n := vlib.Atoi(a[6])
		ref.observe(refQ(k), cache.VerifC13QuestionHash(k))
		hits := make([]cache.FailureHit, n)
		var wg sync.WaitGroup
		start := make(chan struct{})
		for i := 0; i < n; i++ {
			wg.Add(1)
			go func(i int) {
				defer wg.Done()
				<-start
				hits[i] = fc.RecordQuestion(k, provOf("3"), nil)
			}(i)
		}
		close(start)
		wg.Wait()
		or := ref.recorded(refQ(k), hits[0], "race")
		for _, h := range hits[1:] {
			if h.Streak != hits[0].Streak || !h.RetryAfter.Equal(hits[0].RetryAfter) {
				or = fmt.Sprintf("FAIL sig=race/concurrent-recorders-advanced-more-than-once %d/%d vs %d/%d", hits[0].Streak, hits[0].RetryAfter.UnixNano(), h.Streak, h.RetryAfter.UnixNano())
			}
		}
		return vlib.Res{Impl: fmtHit(hits[0]), Oracle: or, Tags: "nt"}
	case "recz": // <zone> <class> <now> <prov>
		k := cache.FailureZoneKey{Zone: nameOf(a[0]), Qclass: uint16(vlib.Atoi(a[1]))}
		setNow(a[2])
		ref.observe(refZ(k), cache.VerifC13ZoneHash(k))
		h := fc.RecordZone(k, provOf(a[3]), nil)
		return vlib.Res{Impl: fmtHit(h), Oracle: ref.recorded(refZ(k), h, "recz"), Tags: "nt"}
	case "lookup": // <q key 5> <now>
		k := parseQ(a)
		setNow(a[5])
		h, ok := fc.Lookup(k)
		return vlib.Res{Impl: fmtLookup(h, ok), Oracle: ref.judgeLookup(k, h, ok, "lookup"), Tags: "nt"}
	case "lookupw": // <wire hex> <type> <class> <cd> <now>
		w := vlib.UnHex(a[0])
		qt, qc, cd := uint16(vlib.Atoi(a[1])), uint16(vlib.Atoi(a[2])), a[3] == "t"
		setNow(a[4])
		h, ok := fc.LookupWire(w, qt, qc, cd)
		return vlib.Res{Impl: fmtLookup(h, ok), Oracle: ref.judgeLookupWire(w, qt, qc, cd, h, ok, "lookupw"), Tags: "nt"}
	case "retrykey": // <q key 5> <now>
		k := parseQ(a)
		setNow(a[5])
		return execRetryKey(k, func(k cache.FailureQuestionKey) (uint64, bool) { return fc.RetryKey(k) },
			func(k cache.FailureQuestionKey) (cache.FailureHit, bool) { return fc.Lookup(k) }, "retrykey")
	case "resetq":
		k := parseQ(a)
		got := fc.ResetQuestion(k)
		ref.resetQ(k)
		return vlib.Res{Impl: vlib.B(got), Oracle: "ok"}
	case "resetz":
		k := cache.FailureZoneKey{Zone: nameOf(a[0]), Qclass: uint16(vlib.Atoi(a[1]))}
		got := fc.ResetZone(k)
		ref.resetZ(k)
		return vlib.Res{Impl: vlib.B(got), Oracle: "ok"}
	case "resetm":
		k := parseQ(a)
		got := fc.ResetMatching(k)
		ref.resetMatching(k)
		return vlib.Res{Impl: fmt.Sprint(got), Oracle: ref.afterSuccess(k, "resetm"), Tags: "nt"}
	case "purge": // <name> <type> <class>
		q := dns.Question{Name: nameOf(a[0]), Qtype: uint16(vlib.Atoi(a[1])), Qclass: uint16(vlib.Atoi(a[2]))}
		got := fc.PurgeQuestion(q)
		ref.purge(q)
		return vlib.Res{Impl: fmt.Sprint(got), Oracle: "ok"}
	case "evictq":
		cache.VerifC13Remove(fc, cache.VerifC13QuestionHash(parseQ(a)))
		return vlib.Res{Impl: "ok"}
	case "evictz":
		cache.VerifC13Remove(fc, cache.VerifC13ZoneHash(cache.FailureZoneKey{Zone: nameOf(a[0]), Qclass: uint16(vlib.Atoi(a[1]))}))
		return vlib.Res{Impl: "ok"}
	case "seed":
		return execSeed(a)
	case "backoff":
		got := int64(cache.VerifC13Backoff(fc, uint32(vlib.AtoU64(a[0]))))
		return vlib.Res{Impl: fmt.Sprint(got), Oracle: oracleBackoffPoint(fc, cfgMin, cfgMax, vlib.AtoU64(a[0]), got), Tags: "nt"}
	case "len":
		return vlib.Res{Impl: fmt.Sprint(fc.Len())}
	case "audit":
		return vlib.Res{Impl: "unmodelled-by-go", Oracle: ref.audit()}

	// ---- Store level (the rfc9520 switch, CD strips the witness, scoped writes)
	case "srecq": // <q key 5> <now> <wit>
		k := parseQ(a)
		setNow(a[5])
		before := fc.Len()
		ref.observe(refQ(k), cache.VerifC13QuestionHash(k))
		st.RecordFailure(newReq(k), k.Scope, "response", cache.VerifC13Witness(vlib.AtoU64(a[6])))
		h, ok := fc.Lookup(k)
		or := ref.storeWrite(before, "srecq")
		if enabled {
			if ok && h.Kind == cache.FailureKindQuestion {
				or = worst(or, ref.recorded(refQ(k), h, "srecq"))
				if k.CD && h.Provenance == "response" && cache.VerifC13WitnessID(h) != 0 {
					or = "FAIL sig=store/srecq/cd-kept-witness"
				}
			}
		}
		return vlib.Res{Impl: fmt.Sprintf("len=%d %s", fc.Len(), fmtLookup(h, ok)), Oracle: or, Tags: "nt"}
	case "srecz": // <qclass> <zone> <now>
		qc := uint16(vlib.Atoi(a[0]))
		zone := nameOf(a[1])
		setNow(a[2])
		before := fc.Len()
		ref.observe(refZ(cache.FailureZoneKey{Zone: zone, Qclass: qc}), cache.VerifC13ZoneHash(cache.FailureZoneKey{Zone: zone, Qclass: qc}))
		st.RecordZoneFailure(dns.Question{Name: "x." + zone, Qtype: 1, Qclass: qc}, zone)
		or := ref.storeWrite(before, "srecz")
		if zone == "" && fc.Len() != before {
			or = "FAIL sig=store/srecz/empty-zone-recorded"
		}
		if enabled && zone != "" {
			// read the recorded zone state back from its own slot (a Lookup of
			// the zone's name would be shadowed by an exact question state)
			zk := cache.FailureZoneKey{Zone: zone, Qclass: qc}
			if ra, streak, ok := preState(refZ(zk), cache.VerifC13ZoneHash(zk)); ok {
				or = worst(or, ref.recorded(refZ(zk), cache.FailureHit{Kind: cache.FailureKindZone, Streak: streak, RetryAfter: time.Unix(0, ra), Zone: zk}, "srecz"))
			}
		}
		return vlib.Res{Impl: fmt.Sprintf("len=%d", fc.Len()), Oracle: or, Tags: "nt"}
	case "sclearz": // <qclass> <zone>
		qc := uint16(vlib.Atoi(a[0]))
		zone := nameOf(a[1])
		before := fc.Len()
		st.ClearZoneFailure(dns.Question{Name: "x." + zone, Qtype: 1, Qclass: qc}, zone)
		or := ref.storeWrite(before, "sclearz")
		if enabled && zone != "" {
			ref.resetZ(cache.FailureZoneKey{Zone: zone, Qclass: qc})
		}
		return vlib.Res{Impl: fmt.Sprintf("len=%d", fc.Len()), Oracle: or}
	case "slookup": // <q key 5> <now>
		k := parseQ(a)
		setNow(a[5])
		h, ok := st.LookupFailure(newReq(k), k.Scope)
		or := ref.judgeLookup(k, h, ok, "slookup")
		if !enabled && ok {
			or = "FAIL sig=store/slookup/disabled-served"
		}
		return vlib.Res{Impl: fmtLookup(h, ok), Oracle: or, Tags: "nt"}
	case "slookupw":
		w := vlib.UnHex(a[0])
		qt, qc, cd := uint16(vlib.Atoi(a[1])), uint16(vlib.Atoi(a[2])), a[3] == "t"
		setNow(a[4])
		h, ok := st.LookupFailureWire(w, qt, qc, cd)
		or := ref.judgeLookupWire(w, qt, qc, cd, h, ok, "slookupw")
		if !enabled && ok {
			or = "FAIL sig=store/slookupw/disabled-served"
		}
		return vlib.Res{Impl: fmtLookup(h, ok), Oracle: or, Tags: "nt"}
	case "sget": // <q key 4: name type class cd> <now> <opt t/f>
		k := parseQ(append(append([]string{}, a[:4]...), "-"))
		setNow(a[4])
		req := newReq(k)
		if a[5] == "t" {
			req.SetEdns0(1232, true)
		}
		// the request tree a resolver-private sub-query (DS/DNSKEY walk) runs in
		ctx := context.Background()
		if len(a) > 6 {
			switch a[6] {
			case "ecsctx":
				ctx = middleware.MarkClientECS(ctx)
			case "ecsopt":
				if req.IsEdns0() == nil {
					req.SetEdns0(1232, false)
				}
				req.IsEdns0().Option = append(req.IsEdns0().Option, ecsOption(netip.MustParsePrefix("203.0.113.0/24"), 0))
			}
		}
		resp, ok := st2.GetWithContext(ctx, req)
		if !ok {
			or := "ok"
			if _, active := fc.Lookup(k); active && enabled {
				// a miss here starts a resolution: upstream traffic during the backoff
				or = "FAIL sig=sget/active-failure-not-served-to-sub-query tree=" + strings.Join(a[6:], "")
			}
			return vlib.Res{Impl: "miss", Oracle: or, Tags: "nt"}
		}
		or := judgeResponse(req, resp, "sget")
		if !enabled {
			or = "FAIL sig=store/sget/disabled-served"
		}
		h, hok := fc.Lookup(k)
		or = worst(or, ref.judgeLookup(k, h, hok, "sget"))
		return vlib.Res{Impl: "hit " + fmtResp(resp), Oracle: or, Tags: "nt"}
	case "sretrykey":
		k := parseQ(a)
		setNow(a[5])
		r := execRetryKey(k, func(k cache.FailureQuestionKey) (uint64, bool) { return st.FailureRetryKey(newReq(k), k.Scope) },
			func(k cache.FailureQuestionKey) (cache.FailureHit, bool) { return st.LookupFailure(newReq(k), k.Scope) }, "sretrykey")
		if !enabled && r.Impl != "none" {
			r.Oracle = "FAIL sig=store/sretrykey/disabled-served"
		}
		return r
	case "sresetm":
		k := parseQ(a)
		before := fc.Len()
		cache.VerifC13ResetMatching(st, k.Question, k.CD, k.Scope)
		or := ref.storeWrite(before, "sresetm")
		if enabled {
			ref.resetMatching(k)
			or = worst(or, ref.afterSuccess(k, "sresetm"))
		}
		return vlib.Res{Impl: fmt.Sprintf("len=%d", fc.Len()), Oracle: or, Tags: "nt"}
	case "spurge":
		q := dns.Question{Name: nameOf(a[0]), Qtype: uint16(vlib.Atoi(a[1])), Qclass: uint16(vlib.Atoi(a[2]))}
		before := fc.Len()
		st.Purge(q)
		or := ref.storeWrite(before, "spurge")
		if enabled {
			ref.purge(q)
		}
		return vlib.Res{Impl: fmt.Sprintf("len=%d", fc.Len()), Oracle: or}
	case "sset": // <name> <type> <class> <keycd> <scope> <class: useful|servfail|other> <now>
		return execSet(a)
	case "fserve": // <name> <type> <class> <cd> <opt> <now> <primary> <fallback>
		return execFServe(a)
	case "wserve": // <name> <type> <class> <cd> <opt> <now>
		return execWServe(a)
	case "cohort": // <now> <n> <q key 5>
		return execCohort(a)
	case "probe": // <now> <n> then n × <q key 5>
		return execProbe(a)
	case "eserve": // <q key 5 (scope = the client's ECS source prefix)> <now> <outcome> <response SCOPE bits>
		return execServeECS(a)
	case "alias": // <name> <class> <cd> <opt t/f> <now> <target outcome>
		return execAlias(a)
	case "serve": // <name> <type> <class> <cd> <opt t/f> <now> <upstream outcome>
		return execServe(a)
	case "write": // <ctxflags> <mark> <q key 5> <now> <wit> <useful|nxdomain|servfail|refused>
		return execWrite(a)
	}
	return vlib.Res{Impl: "bad-op"}
}

func worst(a, b string) string {
	if strings.HasPrefix(a, "FAIL") {
		return a
	}
	if strings.HasPrefix(b, "FAIL") {
		return b
	}
	if a == "" || a == "-" {
		return b
	}
	return a
}

func execNew(a []string) vlib.Res {
	if full != nil {
		full.Stop()
	}
	fc, full, st = nil, nil, nil
	size := vlib.Atoi(a[0])
	mn, mx := vlib.AtoI64(a[1]), vlib.AtoI64(a[2])
	enabled = a[3] == "t"
	expire := 600
	if len(a) > 4 {
		expire = vlib.Atoi(a[4])
	}
	nowNS = 0
	ref = newRef()
	// the cache exactly as the server builds it from the configuration; every
	// op of the case runs on the failure cache Cache.New derived from it
	en := enabled
	cfg := &config.Config{CacheSize: 1024, RFC9520: &en, Expire: uint32(expire)}
	cfg.RecursionFirewall.FailureCacheSize = size
	cfg.RecursionFirewall.FailureCacheMinTTL.Duration = time.Duration(mn)
	cfg.RecursionFirewall.FailureCacheMaxTTL.Duration = time.Duration(mx)
	cfg.ECS = config.ECSConfig{Enabled: true, ForwardV4Max: 24, ForwardV6Max: 56, MinScopeV4: 24, MinScopeV6: 56}
	full = cache.New(cfg)
	built := cache.VerifC13FailureOf(full)
	cache.VerifC13SetNow(built, clock)
	bmin, bmax := cache.VerifC13TTLs(built)
	builtS := fmt.Sprintf(" cache=%d/%d", int64(bmin), int64(bmax))
	st = cache.VerifC13StoreOf(full)
	or := "ok"
	switch {
	case int64(bmax) > int64(5*time.Minute) || int64(bmin) < int64(time.Second) || bmin > bmax:
		or = fmt.Sprintf("FAIL sig=new/cache-bounds-outside-limits min=%d max=%d", int64(bmin), int64(bmax))
	case cache.VerifC13Disabled(st) == enabled:
		or = "FAIL sig=new/rfc9520-switch-not-wired"
	}
	// the same setting handed to NewFailureCache directly: what the property
	// text allows as a configuration
	c, err := cache.NewFailureCache(cache.FailureCacheConfig{Size: size, InitialTTL: time.Duration(mn), MaxTTL: time.Duration(mx), Now: clock})
	effMin, effMax := mn, mx
	if effMin == 0 {
		effMin = int64(5 * time.Second)
	}
	if effMax == 0 {
		effMax = int64(5 * time.Minute)
	}
	if err != nil {
		code := "other"
		switch {
		case strings.Contains(err.Error(), "size"):
			code = "size"
		case strings.Contains(err.Error(), "initial TTL must"):
			code = "initial"
		case strings.Contains(err.Error(), "at least the initial"):
			code = "max"
		case strings.Contains(err.Error(), "five minutes"):
			code = "ceiling"
		}
		return vlib.Res{Impl: "err=" + code + builtS, Oracle: or}
	}
	gmin, gmax := cache.VerifC13TTLs(c)
	c.Stop()
	switch {
	case int64(gmax) > int64(5*time.Minute):
		or = fmt.Sprintf("FAIL sig=new/max-above-ceiling max=%d", int64(gmax))
	case int64(gmin) > int64(gmax):
		or = "FAIL sig=new/min-above-max"
	case int64(gmin) != effMin || int64(gmax) != effMax:
		or = fmt.Sprintf("FAIL sig=new/bounds-differ-from-config min=%d max=%d", int64(gmin), int64(gmax))
	case bmin != gmin || bmax != gmax:
		// a valid operator setting must be what the server's cache runs with,
		// whatever the unrelated settings (expire, cache size, ...) are
		or = fmt.Sprintf("FAIL sig=new/cache-built-from-config-ignores-valid-bounds configured=%d/%d built=%d/%d expire=%d", int64(gmin), int64(gmax), int64(bmin), int64(bmax), expire)
	}
	fc = built
	cfgMin, cfgMax = int64(gmin), int64(gmax)
	st2 = cache.NewStore(cache.NewPositiveCache(16, time.Second, time.Hour, &cache.CacheMetrics{}), cache.NewNegativeCache(16, time.Second, time.Hour, &cache.CacheMetrics{}), cache.CacheConfig{Size: 16}, fc)
	cache.VerifC13SetDisabled(st2, !enabled)
	if o := oracleBackoffSweep(fc, cfgMin, cfgMax); o != "ok" && or == "ok" {
		or = o
	}
	return vlib.Res{Impl: fmt.Sprintf("ok %d %d", int64(gmin), int64(gmax)) + builtS, Oracle: or}
}

// retry keys are raw 64-bit hashes: canonicalise to WHICH retained state the
// key names (the exact question, or a zone on the path).
func execRetryKey(k cache.FailureQuestionKey, retry func(cache.FailureQuestionKey) (uint64, bool),
	look func(cache.FailureQuestionKey) (cache.FailureHit, bool), entry string) vlib.Res {
	key, ok := retry(k)
	if !ok {
		return vlib.Res{Impl: "none", Oracle: "ok", Tags: "nt"}
	}
	or := "ok"
	if _, active := look(k); active {
		or = "FAIL sig=" + entry + "/key-while-active"
	}
	impl := "?"
	nk := cache.VerifC13NormalizeQuestion(k)
	if key == cache.VerifC13QuestionHash(k) {
		impl = "q"
	} else {
		// every textual suffix that starts after a dot is a candidate zone
		name := nk.Question.Name
		cands := []string{name, "."}
		for i := 0; i < len(name); i++ {
			if name[i] == '.' && i+1 < len(name) {
				cands = append(cands, name[i+1:])
			}
		}
		for _, z := range cands {
			if key == cache.VerifC13ZoneHash(cache.FailureZoneKey{Zone: z, Qclass: k.Question.Qclass}) {
				impl = "z:" + hexName(z)
				// single probe: any other request below the same zone, and any
				// respelling of this one, must derive the same generation key.
				for _, v := range retryVariants(k, z) {
					if _, active := look(v); active {
						continue
					}
					if k2, ok2 := retry(v); !ok2 || k2 != key {
						or = fmt.Sprintf("FAIL sig=%s/variants-differ variant=%s", entry, hexName(v.Question.Name))
					}
				}
				break
			}
		}
	}
	if impl == "q" {
		// closest-zone history must take precedence, or every name below a
		// failed zone elects its own probe
		if anc, good := ancestorsRaw(k.Question.Name); good {
			for _, e := range cache.VerifC13Entries(fc) {
				if e.Kind != cache.FailureKindZone || e.Zone.Qclass != k.Question.Qclass || e.Hash != cache.VerifC13ZoneHash(e.Zone) {
					continue
				}
				for _, z := range anc {
					if zc, ok2 := canonRaw(e.Zone.Zone); ok2 && zc == z {
						or = "FAIL sig=" + entry + "/exact-key-although-zone-history-on-path zone=" + hexName(z)
					}
				}
			}
		}
		up := k
		up.Question.Name = strings.ToUpper(k.Question.Name)
		if k2, ok2 := retry(up); !ok2 || k2 != key {
			or = "FAIL sig=" + entry + "/case-variant-differs"
		}
	}
	if impl == "?" {
		or = "FAIL sig=" + entry + "/key-names-no-state-on-path"
	}
	return vlib.Res{Impl: impl, Oracle: or, Tags: "nt"}
}

func retryVariants(k cache.FailureQuestionKey, zone string) []cache.FailureQuestionKey {
	up := k
	up.Question.Name = strings.ToUpper(k.Question.Name)
	other := k
	other.Question.Qtype = k.Question.Qtype + 1
	other.CD = !k.CD
	sib := k
	if zone == "." {
		sib.Question.Name = "zzprobe-c13."
	} else {
		sib.Question.Name = "zzprobe-c13." + zone
	}
	sib.Scope = netip.Prefix{}
	return []cache.FailureQuestionKey{up, other, sib}
}

// fail seed <q|z> <target key…> <q|z> <entry key…> <streak> <retryAfter>
func execSeed(a []string) vlib.Res {
	var hash uint64
	i := 0
	if a[0] == "q" {
		hash = cache.VerifC13QuestionHash(parseQ(a[1:6]))
		i = 6
	} else {
		hash = cache.VerifC13ZoneHash(cache.FailureZoneKey{Zone: nameOf(a[1]), Qclass: uint16(vlib.Atoi(a[2]))})
		i = 3
	}
	if a[i] == "q" {
		k := parseQ(a[i+1 : i+6])
		streak, ra := uint32(vlib.AtoU64(a[i+6])), vlib.AtoI64(a[i+7])
		cache.VerifC13SeedQuestion(fc, hash, k, streak, time.Unix(0, ra))
		if hash == cache.VerifC13QuestionHash(k) {
			ref.seeded(refQ(k), ra, streak)
		}
	} else {
		k := cache.FailureZoneKey{Zone: nameOf(a[i+1]), Qclass: uint16(vlib.Atoi(a[i+2]))}
		streak, ra := uint32(vlib.AtoU64(a[i+3])), vlib.AtoI64(a[i+4])
		cache.VerifC13SeedZone(fc, hash, k, streak, time.Unix(0, ra))
		if hash == cache.VerifC13ZoneHash(k) {
			ref.seeded(refZ(k), ra, streak)
		}
	}
	return vlib.Res{Impl: "ok"}
}

func buildResponse(k cache.FailureQuestionKey, class string) *dns.Msg {
	req := newReq(k)
	res := new(dns.Msg)
	res.SetReply(req)
	res.CheckingDisabled = k.CD
	switch class {
	case "useful":
		res.Rcode = dns.RcodeSuccess
		res.Answer = []dns.RR{&dns.TXT{Hdr: dns.RR_Header{Name: k.Question.Name, Rrtype: k.Question.Qtype, Class: k.Question.Qclass, Ttl: 60}, Txt: []string{"ok"}}}
		if k.Question.Qtype != dns.TypeTXT {
			// an answer of the asked type keeps additionalAnswer from chasing
			res.Answer = []dns.RR{&dns.RFC3597{Hdr: dns.RR_Header{Name: k.Question.Name, Rrtype: k.Question.Qtype, Class: k.Question.Qclass, Ttl: 60}, Rdata: "00"}}
		}
	case "nxdomain":
		res.Rcode = dns.RcodeNameError
	case "nodata": // NOERROR, no answer, SOA in the authority section (the normal DS answer of an insecure delegation)
		res.Rcode = dns.RcodeSuccess
		res.Ns = []dns.RR{&dns.SOA{Hdr: dns.RR_Header{Name: k.Question.Name, Rrtype: dns.TypeSOA, Class: k.Question.Qclass, Ttl: 60}, Ns: "ns.invalid.", Mbox: "h.invalid.", Serial: 1, Refresh: 60, Retry: 60, Expire: 60, Minttl: 60}}
	case "servfail":
		res.Rcode = dns.RcodeServerFailure
	case "refused":
		res.Rcode = dns.RcodeRefused
	case "other": // NOTIMP carried by an AXFR question is a meta query: neither useful nor a failure record
		res.Rcode = dns.RcodeSuccess
		res.Question[0].Qtype = dns.TypeAXFR
	}
	return res
}

// fail sset <name> <type> <class> <keycd> <scope> <useful|nxdomain|servfail|refused> <now>
func execSet(a []string) vlib.Res {
	k := parseQ(a[:5])
	class := a[5]
	setNow(a[6])
	res := buildResponse(k, class)
	before := fc.Len()
	{
		g := k
		g.Scope = netip.Prefix{}
		ref.observe(refQ(g), cache.VerifC13QuestionHash(g))
	}
	if k.Scope.IsValid() {
		key := cache.CacheKey{Question: k.Question, CD: k.CD, Scope: k.Scope}.Hash()
		st.SetFromResponseScoped(key, res, k.Scope, time.Time{}, 0)
	} else {
		st.SetFromResponse(res, k.CD, time.Time{})
	}
	or := ref.storeWrite(before, "sset")
	global := k
	global.Scope = netip.Prefix{}
	scoped := k.Scope.IsValid() && k.Scope.Bits() != 0
	if enabled && !scoped {
		switch class {
		case "useful", "nxdomain", "nodata":
			ref.resetQ(global)
			if h, ok := fc.Lookup(global); ok && h.Kind == cache.FailureKindQuestion {
				or = "FAIL sig=store/sset/useful-answer-left-question-suppressed"
			}
			// this route (resolver-private DS/DNSKEY sub-queries) never passes the client
			// writer: the Store's own reset is all there is. No history may survive.
			if _, _, left := preState(refQ(global), cache.VerifC13QuestionHash(global)); left {
				or = "FAIL sig=store/sset/useful-answer-left-question-history class=" + class
			}
		case "servfail", "refused":
			if h, ok := fc.Lookup(global); ok && h.Kind == cache.FailureKindQuestion {
				or = worst(or, ref.recorded(refQ(global), h, "sset"))
			}
		}
	}
	if enabled && scoped && fc.Len() != before {
		or = "FAIL sig=store/sset/scoped-write-touched-shared-failure-state"
	}
	h, ok := fc.Lookup(global)
	return vlib.Res{Impl: fmt.Sprintf("len=%d %s", fc.Len(), fmtLookup(h, ok)), Oracle: or, Tags: "nt"}
}

// fail write <ctxflags> <mark> <q key 5> <now> <wit> <class>
func execWrite(a []string) vlib.Res {
	flags, mark := a[0], a[1]
	k := parseQ(a[2:7])
	setNow(a[7])
	wit := vlib.AtoU64(a[8])
	class := a[9]
	ctx, cancel := buildCtx(flags)
	defer cancel()
	res := buildResponse(k, class)
	switch {
	case strings.HasPrefix(mark, "else:"):
		middleware.MarkRequestLocalFailureResponse(ctx, buildResponse(k, class), causeErr(mark[5:]))
	case mark != "none":
		middleware.MarkRequestLocalFailureResponse(ctx, res, causeErr(mark))
	}
	ch := middleware.NewChain(nil)
	w := mock.NewWriter("udp", "192.0.2.77:4242")
	req := newReq(k)
	ch.Reset(w, req)
	before := fc.Len()
	beforeEntries := snapshot()
	ref.observe(refQ(k), cache.VerifC13QuestionHash(k))
	err := cache.VerifC13WriteMsg(full, ctx, ch.Writer, req, k.Scope, cache.VerifC13Witness(wit), res)
	or := ref.storeWrite(before, "write")
	local := strings.ContainsAny(flags, "edbwp") || (!strings.HasPrefix(mark, "else:") && localCause(mark))
	failure := class == "servfail" || class == "refused"
	h, ok := fc.Lookup(k)
	if enabled {
		switch {
		case failure && local:
			if snapshot() != beforeEntries {
				or = fmt.Sprintf("FAIL sig=write/request-local-failure-became-shared-state flags=%s mark=%s", flags, mark)
			}
		case failure:
			if ok && h.Kind == cache.FailureKindQuestion {
				or = worst(or, ref.recorded(refQ(k), h, "write"))
				if k.CD && h.Provenance == "response" && cache.VerifC13WitnessID(h) != 0 {
					or = "FAIL sig=write/cd-kept-witness"
				}
			}
		default: // a useful answer resets the backoff (exact + covering zones)
			global := k
			global.Scope = netip.Prefix{}
			ref.resetQ(global)
			ref.resetMatching(k)
			or = worst(or, ref.afterSuccess(k, "write"))
		}
	}
	_ = err // transport packing of odd names is not this property's business
	return vlib.Res{Impl: fmt.Sprintf("len=%d %s", fc.Len(), fmtLookup(h, ok)), Oracle: or, Tags: "nt"}
}

// upstream is the scripted handler behind the cache: it stands for the
// resolver and counts how often the cache let a request through.
type upstream struct {
	calls   int
	k       cache.FailureQuestionKey
	outcome string
}

func (u *upstream) Name() string { return "upstream" }
func (u *upstream) ServeDNS(ctx context.Context, ch *middleware.Chain) {
	u.calls++
	class := u.outcome
	if strings.HasPrefix(class, "local:") {
		class = "servfail"
	}
	res := buildResponse(u.k, class)
	if strings.HasPrefix(u.outcome, "local:") {
		ctx, _ = middleware.EnsureResolutionAttemptGuard(ctx)
		middleware.MarkRequestLocalFailureResponse(ctx, res, causeErr(u.outcome[6:]))
	}
	_ = ch.Writer.WriteMsg(res)
	ch.Cancel()
}

// fail serve <name> <type> <class> <cd> <opt> <now> <servfail|refused|nxdomain|useful|local:<cause>>
// One client request through the real Cache.ServeDNS with a scripted upstream.
func execServe(a []string) vlib.Res {
	k := parseQ(append(append([]string{}, a[:4]...), "-"))
	setNow(a[5])
	up := &upstream{k: k, outcome: a[6]}
	ch := middleware.NewChain([]middleware.Handler{full, up})
	w := mock.NewWriter("udp", "192.0.2.77:4242")
	req := newReq(k)
	if a[4] == "t" {
		req.SetEdns0(1232, true)
		o := req.IsEdns0()
		o.Option = append(o.Option, &dns.EDNS0_COOKIE{Code: dns.EDNS0COOKIE, Cookie: "0102030405060708"})
	}
	cache.VerifC13ForgetAnswers(full, k.Question) // an earlier sset/write may have cached an answer
	pre, preOK := fc.Lookup(k)
	before := snapshot()
	ref.observe(refQ(k), cache.VerifC13QuestionHash(k))
	ch.Reset(w, req)
	ch.Next(context.Background())
	cache.VerifC13ForgetAnswers(full, k.Question)
	reply := w.Msg()
	or := "ok"
	var impl string
	h, ok := fc.Lookup(k)
	switch {
	case reply == nil:
		impl = "noreply"
		or = "FAIL sig=serve/no-reply"
	case up.calls == 0:
		impl = "hit upstream=0 " + fmtResp(reply)
		or = judgeResponse(req, reply, "serve")
		if !preOK {
			or = "FAIL sig=serve/answered-without-upstream-although-nothing-is-suppressed"
		} else {
			or = worst(or, ref.judgeLookup(k, pre, preOK, "serve"))
		}
		if !enabled {
			or = "FAIL sig=serve/disabled-served-from-failure-cache"
		}
		if snapshot() != before {
			or = worst(or, "FAIL sig=serve/hit-changed-state")
		}
	default:
		impl = fmt.Sprintf("miss upstream=%d rcode=%d len=%d %s", up.calls, reply.Rcode, fc.Len(), fmtLookup(h, ok))
		if preOK && enabled {
			or = "FAIL sig=serve/active-failure-went-upstream"
		}
		if !enabled && snapshot() != before {
			or = "FAIL sig=serve/disabled-but-state-changed"
		}
		if enabled {
			switch {
			case strings.HasPrefix(a[6], "local:") && localCause(a[6][6:]):
				if snapshot() != before {
					or = "FAIL sig=serve/request-local-failure-became-shared-state cause=" + a[6][6:]
				}
			case a[6] == "servfail" || a[6] == "refused" || strings.HasPrefix(a[6], "local:"):
				if ok && h.Kind == cache.FailureKindQuestion {
					or = worst(or, ref.recorded(refQ(k), h, "serve"))
				}
			default:
				ref.resetQ(k)
				ref.resetMatching(k)
				or = worst(or, ref.afterSuccess(k, "serve"))
			}
		}
	}
	return vlib.Res{Impl: impl, Oracle: or, Tags: "nt"}
}

// ecsUpstream is the scripted handler behind the cache for ECS clients: its
// answers carry an ECS option whose SCOPE is scripted (0 = global answer).
type ecsUpstream struct {
	calls   int
	k       cache.FailureQuestionKey
	outcome string
	rs      int
}

func (u *ecsUpstream) Name() string { return "ecs-upstream" }
func (u *ecsUpstream) ServeDNS(ctx context.Context, ch *middleware.Chain) {
	u.calls++
	class := u.outcome
	if strings.HasPrefix(class, "local:") {
		class = "servfail"
	}
	res := buildResponse(u.k, class)
	if strings.HasPrefix(u.outcome, "local:") {
		ctx, _ = middleware.EnsureResolutionAttemptGuard(ctx)
		middleware.MarkRequestLocalFailureResponse(ctx, res, causeErr(u.outcome[6:]))
	}
	if (class == "useful" || class == "nxdomain") && u.rs >= 0 {
		res.SetEdns0(1232, false)
		res.IsEdns0().Option = append(res.IsEdns0().Option, ecsOption(u.k.Scope, uint8(u.rs)))
	}
	_ = ch.Writer.WriteMsg(res)
	ch.Cancel()
}

func ecsOption(p netip.Prefix, scope uint8) *dns.EDNS0_SUBNET {
	fam := uint16(2)
	if p.Addr().Is4() {
		fam = 1
	}
	return &dns.EDNS0_SUBNET{Code: dns.EDNS0SUBNET, Family: fam, SourceNetmask: uint8(p.Bits()), SourceScope: scope, Address: p.Masked().Addr().AsSlice()}
}

// fail eserve <name> <type> <class> <cd> <client ECS source prefix> <now> <outcome> <response SCOPE bits | -1 no option>
// One ECS client request through the real Cache.ServeDNS (ECS-aware caching on).
func execServeECS(a []string) vlib.Res {
	k := parseQ(a[:5])
	setNow(a[5])
	rs := vlib.Atoi(a[7])
	up := &ecsUpstream{k: k, outcome: a[6], rs: rs}
	ch := middleware.NewChain([]middleware.Handler{full, up})
	w := mock.NewWriter("udp", "192.0.2.77:4242")
	req := newReq(k)
	req.SetEdns0(1232, false)
	req.IsEdns0().Option = append(req.IsEdns0().Option, ecsOption(k.Scope, 0))
	cache.VerifC13ForgetAnswersScoped(full, k.Question, k.Scope)
	pre, preOK := fc.Lookup(k)
	before := snapshot()
	ref.observe(refQ(k), cache.VerifC13QuestionHash(k))
	ch.Reset(w, req)
	ch.Next(context.Background())
	cache.VerifC13ForgetAnswersScoped(full, k.Question, k.Scope)
	reply := w.Msg()
	h, ok := fc.Lookup(k)
	or := "ok"
	var impl string
	switch {
	case reply == nil:
		impl, or = "noreply", "FAIL sig=eserve/no-reply"
	case up.calls == 0:
		impl = "hit upstream=0 " + fmtResp(reply)
		or = judgeResponse(req, reply, "eserve")
		if !preOK {
			or = "FAIL sig=eserve/answered-without-upstream-although-nothing-is-suppressed"
		} else {
			or = worst(or, ref.judgeLookup(k, pre, preOK, "eserve"))
		}
		if !enabled {
			or = "FAIL sig=eserve/disabled-served-from-failure-cache"
		}
	default:
		impl = fmt.Sprintf("miss upstream=%d rcode=%d len=%d %s", up.calls, reply.Rcode, fc.Len(), fmtLookup(h, ok))
		if preOK && enabled {
			or = "FAIL sig=eserve/active-failure-went-upstream"
		}
		if !enabled && snapshot() != before {
			or = "FAIL sig=eserve/disabled-but-state-changed"
		}
		if enabled {
			switch {
			case strings.HasPrefix(a[6], "local:") && localCause(a[6][6:]):
				if snapshot() != before {
					or = "FAIL sig=eserve/request-local-failure-became-shared-state cause=" + a[6][6:]
				}
			case a[6] == "servfail" || a[6] == "refused" || strings.HasPrefix(a[6], "local:"):
				if ok && h.Kind == cache.FailureKindQuestion {
					or = worst(or, ref.recorded(refQ(k), h, "eserve"))
				}
			default:
				// the recovery is real for the audience that asked, whatever
				// audience the answer itself is filed under
				ref.resetQ(k)
				ref.resetMatching(k)
				if rs <= 0 || rs > k.Scope.Addr().BitLen() { // no / zero / over-long SCOPE: a shared answer
					g := k
					g.Scope = netip.Prefix{}
					ref.resetQ(g)
				}
				or = worst(or, ref.afterSuccess(k, "eserve"))
			}
		}
	}
	return vlib.Res{Impl: impl, Oracle: or, Tags: "nt"}
}

// aliasUpstream answers the alias question with a CNAME only, so the cache
// has to chase the target through its queryer.
type aliasUpstream struct {
	calls  int
	k      cache.FailureQuestionKey
	target string
}

func (u *aliasUpstream) Name() string { return "alias-upstream" }
func (u *aliasUpstream) ServeDNS(_ context.Context, ch *middleware.Chain) {
	u.calls++
	res := new(dns.Msg)
	res.SetReply(newReq(u.k))
	res.CheckingDisabled = u.k.CD
	res.Answer = []dns.RR{&dns.CNAME{Hdr: dns.RR_Header{Name: u.k.Question.Name, Rrtype: dns.TypeCNAME, Class: u.k.Question.Qclass, Ttl: 300}, Target: u.target}}
	_ = ch.Writer.WriteMsg(res)
	ch.Cancel()
}

// targetQueryer plays the sub-pipeline that resolves the alias target. Like
// the resolver handler it reports a request-local rejection as a SERVFAIL
// RESPONSE carrying exact request-local provenance (no Go error).
type targetQueryer struct {
	calls   int
	outcome string
}

func (q *targetQueryer) Query(ctx context.Context, req *dns.Msg) (*dns.Msg, error) {
	q.calls++
	resp := new(dns.Msg)
	switch {
	case strings.HasPrefix(q.outcome, "local:"):
		resp.SetRcode(req, dns.RcodeServerFailure)
		ctx, _ = middleware.EnsureResolutionAttemptGuard(ctx)
		middleware.MarkRequestLocalFailureResponse(ctx, resp, causeErr(q.outcome[6:]))
	case strings.HasPrefix(q.outcome, "err:"):
		return nil, causeErr(q.outcome[4:])
	case q.outcome == "servfail":
		resp.SetRcode(req, dns.RcodeServerFailure)
	case q.outcome == "refused":
		resp.SetRcode(req, dns.RcodeRefused)
	default:
		resp.SetReply(req)
		resp.Answer = []dns.RR{&dns.A{Hdr: dns.RR_Header{Name: req.Question[0].Name, Rrtype: dns.TypeA, Class: req.Question[0].Qclass, Ttl: 60}, A: []byte{192, 0, 2, 9}}}
	}
	return resp, nil
}

// fail alias <name> <class> <cd> <opt> <now> <local:<cause>|err:attempt|servfail|refused|ok>
// A client asks for an alias (type A) through the real Cache.ServeDNS; the
// upstream answers with the CNAME only and the cache chases the target through
// its queryer. When the target leg fails for a reason local to the request
// tree, a SECOND, independent client repeats the query at the same instant.
func execAlias(a []string) vlib.Res {
	k := parseQ([]string{a[0], "1", a[1], a[2], "-"})
	setNow(a[4])
	outcome := a[5]
	up := &aliasUpstream{k: k, target: "tgt.alias-target-c13.example."}
	tq := &targetQueryer{outcome: outcome}
	full.SetQueryer(tq)
	defer full.SetQueryer(nil)
	client := func(addr string) *dns.Msg {
		cache.VerifC13ForgetAnswers(full, k.Question)
		ch := middleware.NewChain([]middleware.Handler{full, up})
		w := mock.NewWriter("udp", addr)
		req := newReq(k)
		if a[3] == "t" {
			req.SetEdns0(1232, true)
		}
		ch.Reset(w, req)
		ctx, _ := middleware.EnsureResolutionAttemptGuard(context.Background())
		ch.Next(ctx)
		cache.VerifC13ForgetAnswers(full, k.Question)
		return w.Msg()
	}
	pre, preOK := fc.Lookup(k)
	before := snapshot()
	ref.observe(refQ(k), cache.VerifC13QuestionHash(k))
	reply := client("192.0.2.77:4242")
	if reply == nil {
		return vlib.Res{Impl: "noreply", Oracle: "FAIL sig=alias/no-reply", Tags: "nt"}
	}
	if up.calls == 0 {
		or := judgeResponse(nil, reply, "alias")
		if reply.IsEdns0() != nil {
			or = "ok" // judged by fail serve; here only the gate matters
		}
		if !preOK {
			or = "FAIL sig=alias/answered-without-upstream-although-nothing-is-suppressed"
		} else {
			or = worst(or, ref.judgeLookup(k, pre, preOK, "alias"))
		}
		if !enabled {
			or = "FAIL sig=alias/disabled-served-from-failure-cache"
		}
		return vlib.Res{Impl: "hit upstream=0 target=0 rcode=" + fmt.Sprint(reply.Rcode), Oracle: or, Tags: "nt"}
	}
	or := "ok"
	local := (strings.HasPrefix(outcome, "local:") && localCause(outcome[6:])) || outcome == "err:attempt"
	rcode := reply.Rcode
	switch {
	case local:
		if snapshot() != before {
			or = fmt.Sprintf("FAIL sig=alias/request-local-target-failure-became-shared-state target=%s", outcome)
		}
		// an independent second client must reach the upstream again
		upBefore := up.calls
		replyB := client("192.0.2.78:4343")
		if up.calls != upBefore+1 {
			or = worst(or, "FAIL sig=alias/second-client-answered-from-first-clients-local-failure")
		}
		if replyB != nil {
			for _, c := range edeCodes(replyB) {
				if c == 13 {
					or = worst(or, "FAIL sig=alias/second-client-got-cached-error-ede")
				}
			}
		}
		if snapshot() != before {
			or = worst(or, fmt.Sprintf("FAIL sig=alias/request-local-target-failure-became-shared-state target=%s", outcome))
		}
	case outcome == "ok":
		if enabled {
			ref.resetQ(k)
			ref.resetMatching(k)
			or = ref.afterSuccess(k, "alias")
		}
	default: // a genuine failure of the target leg MAY be shared
		if h, ok := fc.Lookup(k); ok && enabled && h.Kind == cache.FailureKindQuestion {
			or = ref.recorded(refQ(k), h, "alias")
		}
	}
	if !enabled && snapshot() != before {
		or = "FAIL sig=alias/disabled-but-state-changed"
	}
	h, ok := fc.Lookup(k)
	return vlib.Res{Impl: fmt.Sprintf("miss upstream=%d target=%d rcode=%d len=%d %s", up.calls, tq.calls, rcode, fc.Len(), fmtLookup(h, ok)), Oracle: or, Tags: "nt"}
}

// snapshot is a canonical rendering of every retained state.
func snapshot() string {
	var rows []string
	for _, e := range cache.VerifC13Entries(fc) {
		rows = append(rows, fmt.Sprintf("%016x/%d/%d/%d/%s/%d/%d/%v/%s/%s/%d", e.Hash, e.Kind, e.Streak, e.RetryAfter.UnixNano(),
			hexName(e.Question.Question.Name), e.Question.Question.Qtype, e.Question.Question.Qclass, e.Question.CD, fmtScope(e.Question.Scope),
			hexName(e.Zone.Zone), e.Zone.Qclass))
	}
	sort.Strings(rows)
	return strings.Join(rows, ";")
}

// fail cacheable <ctxflags> <mark>
func execCacheable(a []string) vlib.Res {
	flags, mark := a[0], a[1]
	ctx, cancel := buildCtx(flags)
	defer cancel()
	res := new(dns.Msg)
	res.Rcode = dns.RcodeServerFailure
	switch {
	case strings.HasPrefix(mark, "else:"):
		middleware.MarkRequestLocalFailureResponse(ctx, new(dns.Msg), causeErr(mark[5:]))
	case mark != "none":
		middleware.MarkRequestLocalFailureResponse(ctx, res, causeErr(mark))
	}
	got := cache.VerifC13Cacheable(ctx, res)
	local := strings.ContainsAny(flags, "edbwp") || (!strings.HasPrefix(mark, "else:") && localCause(mark))
	or := "ok"
	if got && local {
		or = fmt.Sprintf("FAIL sig=cacheable/request-local-cause-admitted flags=%s mark=%s", flags, mark)
	}
	return vlib.Res{Impl: vlib.B(got), Oracle: or, Tags: "nt"}
}

// fail zonerec <ctxflags> <zoneEmpty t/f> <cause>
func execZoneRec(a []string) vlib.Res {
	ctx, cancel := buildCtx(a[0])
	defer cancel()
	zone := "example.com."
	if a[1] == "t" {
		zone = ""
	}
	zs := &zoneStore{}
	resolver.VerifC13RecordZoneFailure(zs, ctx, dns.Question{Name: "www.example.com.", Qtype: 1, Qclass: 1}, zone, causeErr(a[2]))
	got := zs.recorded > 0
	cause := strings.TrimPrefix(a[2], "w:")
	local := strings.ContainsAny(a[0], "edbp") || cause == "work" || cause == "attempt" || cause == "maxrec" || cause == "canceled" || cause == "deadline"
	or := "ok"
	if got && local {
		or = fmt.Sprintf("FAIL sig=zonerec/request-local-cause-recorded flags=%s cause=%s", a[0], a[2])
	}
	if got && zone == "" {
		or = "FAIL sig=zonerec/empty-zone-recorded"
	}
	return vlib.Res{Impl: vlib.B(got), Oracle: or, Tags: "nt"}
}

// fail hle <ctxflags> <zoneEmpty> <nsl> <fatal t/f> <cause>
func execHLE(a []string) vlib.Res {
	ctx, cancel := buildCtx(a[0])
	defer cancel()
	zone := "example.com."
	if a[1] == "t" {
		zone = ""
	}
	if a[2] == "t" {
		ctx = resolver.VerifC13NSLContext(ctx)
	}
	err := causeErr(a[4])
	if err == nil {
		err = errOther
	}
	if a[3] == "t" {
		err = resolver.VerifC13Fatal(err)
	}
	zs := &zoneStore{}
	out := resolver.VerifC13HandleLookupError(zs, ctx, err, dns.Question{Name: "www.example.com.", Qtype: 1, Qclass: 1}, zone)
	got := zs.recorded > 0
	or := "ok"
	cause := strings.TrimPrefix(a[4], "w:")
	local := strings.ContainsAny(a[0], "edbp") || (cause != "other" && cause != "none" && cause != "probe" && cause != "shed")
	if got && local {
		or = fmt.Sprintf("FAIL sig=hle/request-local-cause-recorded flags=%s cause=%s", a[0], a[4])
	}
	if got && a[3] != "t" {
		or = "FAIL sig=hle/non-fatal-error-recorded"
	}
	if out == nil {
		or = "FAIL sig=hle/error-swallowed"
	}
	return vlib.Res{Impl: vlib.B(got), Oracle: or, Tags: "nt"}
}

// fail pick <resp rcodes csv|-> <nconfig> <fatal causes csv|->
func execPick(a []string) vlib.Res {
	var resp, conf []*dns.Msg
	var fatal []error
	anyNX, anyWork, anyAttempt := false, false, false
	if a[0] != "-" {
		for _, s := range strings.Split(a[0], ",") {
			m := new(dns.Msg)
			m.Rcode = vlib.Atoi(s)
			anyNX = anyNX || m.Rcode == dns.RcodeNameError
			resp = append(resp, m)
		}
	}
	for i := 0; i < vlib.Atoi(a[1]); i++ {
		m := new(dns.Msg)
		m.Ns = []dns.RR{&dns.NS{Hdr: dns.RR_Header{Name: "bogus.", Rrtype: dns.TypeNS, Class: 1}, Ns: "ns.bogus."}}
		conf = append(conf, m)
	}
	if a[2] != "-" {
		for _, s := range strings.Split(a[2], ",") {
			fatal = append(fatal, causeErr(s))
			c := strings.TrimPrefix(s, "w:")
			anyWork = anyWork || c == "work"
			anyAttempt = anyAttempt || c == "attempt"
		}
	}
	m, err := resolver.VerifC13PickFallback(resp, conf, fatal)
	var impl string
	or := "ok"
	if err != nil {
		impl = fmt.Sprintf("err:%s:%s", vlib.B(resolver.VerifC13IsFatal(err)), classifyErr(err))
		// a zone failure may be published from a FATAL error only: that must
		// mean no server answered NXDOMAIN/any response and nothing local.
		if resolver.VerifC13IsFatal(err) && (len(resp) > 0 || len(conf) > 0 || anyWork || anyAttempt) {
			or = "FAIL sig=pick/fatal-although-a-server-responded-or-local-limit"
		}
	} else {
		impl = fmt.Sprintf("resp:%d", m.Rcode)
		if m.Rcode != dns.RcodeNameError && m.Rcode != dns.RcodeSuccess && anyNX {
			or = "FAIL sig=pick/failure-rcode-preferred-over-nxdomain"
		}
		if anyWork {
			or = "FAIL sig=pick/work-limit-hidden-behind-response"
		}
	}
	return vlib.Res{Impl: impl, Oracle: or, Tags: "nt"}
}

func fmtResp(r *dns.Msg) string {
	opt := "-"
	if o := r.IsEdns0(); o != nil {
		var codes []string
		for _, e := range o.Option {
			info := 0
			if ede, ok := e.(*dns.EDNS0_EDE); ok {
				info = int(ede.InfoCode)
			}
			codes = append(codes, fmt.Sprintf("%d:%d", e.Option(), info))
		}
		opt = fmt.Sprintf("%d/%s/%s", o.UDPSize(), vlib.B(o.Do()), strings.Join(codes, ","))
	}
	return fmt.Sprintf("qr=%s rcode=%d ra=%s aa=%s ad=%s tc=%s rd=%s cd=%s an=%d ns=%d opt=%s", vlib.B(r.Response), r.Rcode, vlib.B(r.RecursionAvailable),
		vlib.B(r.Authoritative), vlib.B(r.AuthenticatedData), vlib.B(r.Truncated), vlib.B(r.RecursionDesired), vlib.B(r.CheckingDisabled),
		len(r.Answer), len(r.Ns), opt)
}

// judgeResponse: SERVFAIL, EDE 13 iff the client sent OPT, nothing of the
// client's options echoed, no records.
func judgeResponse(req, r *dns.Msg, entry string) string {
	if r.Rcode != dns.RcodeServerFailure {
		return "FAIL sig=" + entry + "/response/not-servfail"
	}
	if len(r.Answer) != 0 || len(r.Ns) != 0 || r.AuthenticatedData || r.Authoritative || r.Truncated || !r.Response {
		return "FAIL sig=" + entry + "/response/not-clean"
	}
	var reqOpt *dns.OPT
	if req != nil {
		reqOpt = req.IsEdns0()
	}
	o := r.IsEdns0()
	if (reqOpt != nil) != (o != nil) {
		return "FAIL sig=" + entry + "/response/opt-iff-client-opt"
	}
	if o == nil {
		if len(r.Extra) != 0 {
			return "FAIL sig=" + entry + "/response/extra-without-opt"
		}
		return "ok"
	}
	if len(r.Extra) != 1 || len(o.Option) != 1 {
		return "FAIL sig=" + entry + "/response/client-options-copied-or-extra-records"
	}
	ede, ok := o.Option[0].(*dns.EDNS0_EDE)
	if !ok || ede.InfoCode != 13 {
		return "FAIL sig=" + entry + "/response/ede-13-missing"
	}
	return "ok"
}

// fail response <nil|plain|opt> <rd> <cd> <udp> <do> <client option codes csv|->
func execResponse(a []string) vlib.Res {
	var req *dns.Msg
	if a[0] != "nil" {
		req = new(dns.Msg)
		req.SetQuestion("www.example.com.", dns.TypeA)
		req.RecursionDesired = a[1] == "t"
		req.CheckingDisabled = a[2] == "t"
		req.AuthenticatedData = true
		if a[0] == "opt" {
			req.SetEdns0(uint16(vlib.Atoi(a[3])), a[4] == "t")
			o := req.IsEdns0()
			if a[5] != "-" {
				for _, c := range strings.Split(a[5], ",") {
					switch vlib.Atoi(c) {
					case 10:
						o.Option = append(o.Option, &dns.EDNS0_COOKIE{Code: dns.EDNS0COOKIE, Cookie: "0102030405060708"})
					case 3:
						o.Option = append(o.Option, &dns.EDNS0_NSID{Code: dns.EDNS0NSID, Nsid: "aa"})
					case 8:
						o.Option = append(o.Option, &dns.EDNS0_SUBNET{Code: dns.EDNS0SUBNET, Family: 1, SourceNetmask: 24, Address: []byte{192, 0, 2, 0}})
					case 12:
						o.Option = append(o.Option, &dns.EDNS0_PADDING{Padding: make([]byte, 7)})
					case 15:
						o.Option = append(o.Option, &dns.EDNS0_EDE{InfoCode: 22, ExtraText: "client junk"})
					default:
						o.Option = append(o.Option, &dns.EDNS0_LOCAL{Code: uint16(vlib.Atoi(c)), Data: []byte{1}})
					}
				}
			}
		}
	}
	hit := cache.FailureHit{Kind: cache.FailureKindQuestion, Streak: 1}
	r := hit.Response(req)
	return vlib.Res{Impl: fmtResp(r), Oracle: judgeResponse(req, r, "response"), Tags: "nt"}
}

func facts() map[string]any { return factsImpl() }

func main() { vlib.Main(&vlib.Driver{Facts: facts, Exec: exec, Gen: gen}) }
