//go:build verif

package main

// fail fserve <name> <type> <class> <cd> <opt> <now> <primary outcome> <fallback outcome>
// One client request through cache → FAILOVER → scripted primary, with a real
// loopback fallback server behind the failover middleware. When the primary
// path ends in SERVFAIL the failover rebuilds the query and asks the fallback;
// what comes back is what the cache writer files. Whatever route produced the
// final response, failure state may only be filed (and success only reset)
// under the CLIENT's question: name, type, CLASS, CD, audience.

import (
	"context"
	"fmt"
	"net"
	"sort"
	"strings"
	"sync"
	"sync/atomic"

	"github.com/miekg/dns"
	"github.com/semihalev/sdns/config"
	"github.com/semihalev/sdns/internal/mock"
	"github.com/semihalev/sdns/internal/verif/vlib"
	"github.com/semihalev/sdns/middleware"
	"github.com/semihalev/sdns/middleware/cache"
	"github.com/semihalev/sdns/middleware/failover"
)

var (
	fbOnce    sync.Once
	fbAddr    string
	fbOutcome atomic.Value // string
	fbQueries atomic.Int64
	fbHandler *failover.Failover
)

func startFallback() {
	pc, err := net.ListenPacket("udp", "127.0.0.1:0")
	if err != nil {
		panic(err)
	}
	fbAddr = pc.LocalAddr().String()
	fbOutcome.Store("servfail")
	srv := &dns.Server{PacketConn: pc, Handler: dns.HandlerFunc(func(w dns.ResponseWriter, req *dns.Msg) {
		fbQueries.Add(1)
		m := new(dns.Msg)
		q := req.Question[0]
		switch fbOutcome.Load().(string) {
		case "useful":
			m.SetReply(req)
			rdata := map[uint16]string{dns.TypeA: "c0000209", dns.TypeAAAA: "20010db8000000000000000000000009", dns.TypeTXT: "026f6b"}[q.Qtype]
			if rdata == "" {
				rdata = "00"
			}
			m.Answer = []dns.RR{&dns.RFC3597{Hdr: dns.RR_Header{Name: q.Name, Rrtype: q.Qtype, Class: q.Qclass, Ttl: 60}, Rdata: rdata}}
		case "nxdomain":
			m.SetRcode(req, dns.RcodeNameError)
		case "refused":
			m.SetRcode(req, dns.RcodeRefused)
		default:
			m.SetRcode(req, dns.RcodeServerFailure)
		}
		_ = w.WriteMsg(m)
	})}
	go func() { _ = srv.ActivateAndServe() }()
	fbHandler = failover.New(&config.Config{FallbackServers: []string{fbAddr}})
}

func entryIDs() map[string]bool {
	out := map[string]bool{}
	for _, e := range cache.VerifC13Entries(fc) {
		if e.Kind == cache.FailureKindQuestion {
			q := e.Question
			out[fmt.Sprintf("q/%s/%d/%d/%v/%s@%d/%d", strings.ToLower(q.Question.Name), q.Question.Qtype, q.Question.Qclass, q.CD, fmtScope(q.Scope), e.Streak, e.RetryAfter.UnixNano())] = true
		}
	}
	return out
}

func execFServe(a []string) vlib.Res {
	fbOnce.Do(startFallback)
	k := parseQ(append(append([]string{}, a[:4]...), "-"))
	setNow(a[5])
	primary, fallback := a[6], a[7]
	fbOutcome.Store(fallback)
	fb0 := fbQueries.Load()
	up := &upstream{k: k, outcome: primary}
	ch := middleware.NewChain([]middleware.Handler{full, fbHandler, up})
	w := mock.NewWriter("udp", "192.0.2.77:4242")
	req := newReq(k)
	if a[4] == "t" {
		req.SetEdns0(1232, true)
	}
	cache.VerifC13ForgetAnswers(full, k.Question)
	pre, preOK := fc.Lookup(k)
	beforeIDs := entryIDs()
	before := snapshot()
	ref.observe(refQ(k), cache.VerifC13QuestionHash(k))
	ch.Reset(w, req)
	ch.Next(context.Background())
	cache.VerifC13ForgetAnswers(full, k.Question)
	// the answer may also have been filed under another question: forget those too
	for _, c := range []uint16{1, 3, 4} {
		q := k.Question
		q.Qclass = c
		cache.VerifC13ForgetAnswers(full, q)
	}
	reply := w.Msg()
	asked := fbQueries.Load() - fb0
	h, ok := fc.Lookup(k)
	or := "ok"
	var impl string
	switch {
	case reply == nil:
		impl, or = "noreply", "FAIL sig=fserve/no-reply"
	case up.calls == 0:
		impl = "hit upstream=0 " + fmtResp(reply)
		or = judgeResponse(req, reply, "fserve")
		if !preOK {
			or = "FAIL sig=fserve/answered-without-upstream-although-nothing-is-suppressed"
		} else {
			or = worst(or, ref.judgeLookup(k, pre, preOK, "fserve"))
		}
		if !enabled {
			or = "FAIL sig=fserve/disabled-served-from-failure-cache"
		}
	default:
		impl = fmt.Sprintf("miss upstream=%d fallback=%d rcode=%d len=%d %s", up.calls, asked, reply.Rcode, fc.Len(), fmtLookup(h, ok))
		if preOK && enabled {
			or = "FAIL sig=fserve/active-failure-went-upstream"
		}
		// every question state this request created or changed must be the client's own
		want := fmt.Sprintf("q/%s/%d/%d/%v/-@", strings.ToLower(cacheCanon(k.Question.Name)), k.Question.Qtype, k.Question.Qclass, k.CD)
		var foreign []string
		for id := range entryIDs() {
			if !beforeIDs[id] && !strings.HasPrefix(id, want) {
				foreign = append(foreign, id[:strings.Index(id, "@")])
			}
		}
		sort.Strings(foreign)
		switch {
		case len(foreign) > 0:
			or = "FAIL sig=fserve/failure-filed-under-another-identity filed=" + strings.Join(foreign, ",")
		case !enabled && snapshot() != before:
			or = "FAIL sig=fserve/disabled-but-state-changed"
		case enabled && reply.Rcode == dns.RcodeSuccess || reply.Rcode == dns.RcodeNameError:
			if enabled {
				ref.resetQ(k)
				ref.resetMatching(k)
				or = worst(or, ref.afterSuccess(k, "fserve"))
			}
		case enabled && ok && h.Kind == cache.FailureKindQuestion:
			or = worst(or, ref.recorded(refQ(k), h, "fserve"))
		}
	}
	return vlib.Res{Impl: impl, Oracle: or, Tags: "nt"}
}

func cacheCanon(name string) string { return dns.CanonicalName(name) }
