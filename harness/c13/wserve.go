//go:build verif

package main

// fail wserve <name> <type> <class> <cd> <opt> <now>
// One WIRE-BORN client request (packed query → Request.ParseWire → undecoded
// chain) through the real Cache.ServeDNS: the wire fast path (serveWire →
// serveCompositeFromWire → Store.LookupFailureWire → FailureCache.LookupWire →
// the denial-miss witness gate) runs first and falls back to the decoded
// ladder. The upstream behind the cache fails request-locally, so the op
// leaves no state. Compared with the model: a hit on this route is exactly a
// `lookupWire` hit of the shared audience.

import (
	"context"
	"fmt"
	"net"
	"time"

	"github.com/miekg/dns"
	"github.com/semihalev/sdns/internal/verif/vlib"
	"github.com/semihalev/sdns/middleware"
	"github.com/semihalev/sdns/middleware/cache"
)

type captureTransport struct {
	wire [][]byte
	msgs []*dns.Msg
}

func (t *captureTransport) LocalAddr() net.Addr {
	return &net.UDPAddr{IP: net.IPv4(127, 0, 0, 1), Port: 53}
}
func (t *captureTransport) RemoteAddr() net.Addr {
	return &net.UDPAddr{IP: net.IPv4(192, 0, 2, 79), Port: 4242}
}
func (t *captureTransport) Close() error { return nil }
func (t *captureTransport) Write(b []byte) (int, error) {
	t.wire = append(t.wire, append([]byte(nil), b...))
	return len(b), nil
}
func (t *captureTransport) WriteMsg(m *dns.Msg) error {
	t.msgs = append(t.msgs, m)
	return nil
}

func (t *captureTransport) reply() *dns.Msg {
	if len(t.msgs) > 0 {
		return t.msgs[len(t.msgs)-1]
	}
	if len(t.wire) > 0 {
		m := new(dns.Msg)
		if m.Unpack(t.wire[len(t.wire)-1]) == nil {
			return m
		}
	}
	return nil
}

func execWServe(a []string) vlib.Res {
	k := parseQ(append(append([]string{}, a[:4]...), "-"))
	setNow(a[5])
	q := newReq(k)
	if a[4] == "t" {
		q.SetEdns0(1232, true)
	}
	raw, err := q.Pack()
	if err != nil {
		return vlib.Res{Impl: "unpackable", Oracle: "-"}
	}
	var req middleware.Request
	if !req.ParseWire(raw, time.Now(), nil) {
		return vlib.Res{Impl: "unparsable", Oracle: "-"}
	}
	// what the packed name decodes to is the question the server sees
	var parsed dns.Msg
	_ = parsed.Unpack(raw)
	seen := k
	seen.Question = parsed.Question[0]
	cache.VerifC13ForgetAnswers(full, seen.Question)
	pre, preOK := fc.Lookup(seen)
	before := snapshot()
	up := &upstream{k: seen, outcome: "local:attempt"}
	tr := &captureTransport{}
	ch := middleware.NewChain([]middleware.Handler{full, up})
	ch.ResetWire(tr, &req)
	ch.AllowDirectPack() // what the server's owned UDP/TCP listeners declare
	ch.Next(context.Background())
	cache.VerifC13ForgetAnswers(full, seen.Question)
	reply := tr.reply()
	or := "ok"
	var impl string
	switch {
	case reply == nil:
		impl, or = "noreply", "FAIL sig=wserve/no-reply"
	case up.calls == 0:
		impl = fmt.Sprintf("hit upstream=0 rcode=%d", reply.Rcode)
		if len(tr.wire) > 0 {
			// bytes served below the edns layer carry no OPT by contract (edns appends the
			// client's OPT and the EDE): only the header and emptiness are this route's business
			if reply.Rcode != dns.RcodeServerFailure || len(reply.Answer)+len(reply.Ns) != 0 || reply.AuthenticatedData || reply.Authoritative {
				or = "FAIL sig=wserve/response/not-clean-servfail"
			}
		} else {
			or = judgeResponse(q, reply, "wserve")
		}
		if !preOK {
			or = "FAIL sig=wserve/answered-without-upstream-although-nothing-is-suppressed"
		} else {
			or = worst(or, ref.judgeLookup(seen, pre, preOK, "wserve"))
		}
		if !enabled {
			or = "FAIL sig=wserve/disabled-served-from-failure-cache"
		}
	default:
		impl = fmt.Sprintf("miss upstream=%d rcode=%d", up.calls, reply.Rcode)
		if preOK && enabled {
			or = "FAIL sig=wserve/active-failure-went-upstream"
		}
	}
	if snapshot() != before {
		or = worst(or, "FAIL sig=wserve/state-changed")
	}
	tags := "nt"
	if up.calls == 0 && reply != nil {
		if len(tr.wire) > 0 {
			tags += ",route=wire"
		} else {
			tags += ",route=msg"
		}
	}
	return vlib.Res{Impl: impl, Oracle: or, Tags: tags}
}
