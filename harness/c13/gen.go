//go:build verif

package main

import (
	"fmt"
	"strings"
	"time"

	"github.com/miekg/dns"
	"github.com/semihalev/sdns/config"
	"github.com/semihalev/sdns/internal/verif/vlib"
	"github.com/semihalev/sdns/middleware/cache"
)

const sec = int64(time.Second)

// ---------------------------------------------------------------- names

type nm [][]byte // labels, leftmost first; empty = root

func lbl(ss ...string) nm {
	var n nm
	for _, s := range ss {
		n = append(n, []byte(s))
	}
	return n
}

func (n nm) wire(r *vlib.R, flip bool) []byte {
	var w []byte
	for _, l := range n {
		w = append(w, byte(len(l)))
		for _, b := range l {
			if flip && r.Bool() {
				if b >= 'a' && b <= 'z' {
					b -= 32
				} else if b >= 'A' && b <= 'Z' {
					b += 32
				}
			}
			w = append(w, b)
		}
	}
	return append(w, 0)
}

// pres spells the name in presentation form; variant 0 is what a decoder
// produces, others flip case / drop the final dot / use redundant escapes.
func (n nm) pres(r *vlib.R, variant int) string {
	s := presentLabels(n)
	switch variant {
	case 1: // case flips
		b := []byte(s)
		for i := range b {
			if r.Bool() {
				if b[i] >= 'a' && b[i] <= 'z' {
					b[i] -= 32
				} else if b[i] >= 'A' && b[i] <= 'Z' {
					b[i] += 32
				}
			}
		}
		// never flip a byte that follows a backslash into a different escape
		s = string(b)
	case 2: // unrooted spelling
		if s != "." {
			s = strings.TrimSuffix(s, ".")
		}
	case 3: // upper case
		s = strings.ToUpper(s)
	case 4: // a redundant escape in front of the first letter
		if s != "." && s[0] != '\\' && !isDigit(s[0]) {
			s = "\\" + s
		}
	}
	return s
}

func (n nm) parent() nm {
	if len(n) == 0 {
		return n
	}
	return n[1:]
}

func (n nm) child(l string) nm { return append(nm{[]byte(l)}, n...) }

var bases = []nm{
	lbl("example", "com"), lbl("a", "example", "com"), lbl("test"), lbl("sub", "dom", "example", "net"),
	lbl("Example", "COM"), lbl("ex.ample", "com"), lbl("ex\\ample", "org"), lbl("sp ace", "example", "com"),
	lbl("b\x01n", "example", "com"),
}

// pool of related names around a base: self, children, deep names, parents,
// siblings whose TEXT ends with the base's text but whose labels do not.
func poolFor(r *vlib.R, b nm) []nm {
	p := []nm{b, b.child("www"), b.child("WWW"), b.child("b").child("a"), b.parent(), b.parent().parent(), nm{},
		b.child("x.y"), b.child("back\\slash"), b.child("l8").child("l7").child("l6").child("l5").child("l4").child("l3").child("l2").child("l1")}
	if len(b) > 0 {
		sib := append(nm{append([]byte("not"), b[0]...)}, b[1:]...)
		p = append(p, sib, sib.child("www"))
		// a label that CONTAINS the base's first label after an escaped dot:
		// "x.example" + rest: textually "x\.example.com." ends in "example.com."
		esc := append(nm{append([]byte("x."), b[0]...)}, b[1:]...)
		p = append(p, esc, esc.child("www"))
		other := append(nm{}, b[:len(b)-1]...)
		other = append(other, []byte("org"))
		p = append(p, other)
	}
	return p
}

var (
	qtypes  = []int{1, 28, 16, 6, 2, 255, 65}
	classes = []int{1, 1, 1, 3}
	scopes  = []string{"-", "-", "-", "4:0a000000/8", "4:0a010000/16", "4:0a0102ff/24", "4:0a010200/24", "4:0a012e00/24",
		"6:20010db8000000000000000000000001/32", "6:20010db8000000000000000000000000/32", "4:0a010203/0", "4:0a010203/33", "6:20010db8000000000000000000000001/129", "4:c0000201/32"}
)

type qspec struct {
	name  string
	t, c  int
	cd    bool
	scope string
}

func (q qspec) String() string {
	return fmt.Sprintf("%s %d %d %s %s", hexName(q.name), q.t, q.c, vlib.B(q.cd), q.scope)
}

type zspec struct {
	zone string
	c    int
}

func (z zspec) String() string { return fmt.Sprintf("%s %d", hexName(z.zone), z.c) }

// ---------------------------------------------------------------- generator

type caseGen struct {
	r    *vlib.R
	emit func(string)
	n    *int
	pool []nm
	t    int64
	mn   int64
	mx   int64
	qs   []qspec
	zs   []zspec
	live bool
}

func (g *caseGen) out(format string, a ...any) {
	g.emit(fmt.Sprintf(format, a...))
	*g.n--
}

// viaStore: go through the Store gate (always when rfc9520 is off: that is
// where the switch must hold).
func (g *caseGen) viaStore() string {
	if !enabled && g.r.Chance(2, 3) || g.r.Chance(1, 5) {
		return "s"
	}
	return ""
}

func (g *caseGen) name() nm { return vlib.Pick(g.r, g.pool) }

// spellings no decoder produces (dangling backslash, empty labels, empty
// name): dns.CanonicalName is not idempotent on the first kind, and the model
// mirrors the double normalisation; the oracle does not judge them.
var oddNames = []string{"tail\\", "a.tail\\", "", "..", "a..b.", "a\\.", "\\", ".a.", "x\\\\", "ab\\12", "q\\300.example.com."}

func (g *caseGen) presOf(n nm) string {
	if g.r.Chance(1, 30) {
		return vlib.Pick(g.r, oddNames)
	}
	v := 0
	if g.r.Chance(2, 5) {
		v = g.r.Intn(5)
	}
	return n.pres(g.r, v)
}

func (g *caseGen) freshQ() qspec {
	return qspec{g.presOf(g.name()), vlib.Pick(g.r, qtypes), vlib.Pick(g.r, classes), g.r.Chance(1, 3), vlib.Pick(g.r, scopes)}
}

// a question related to a recorded one: identical, or differing in exactly
// one dimension, or a descendant / sibling name.
func (g *caseGen) relatedQ() qspec {
	if g.r.Chance(1, 8) {
		return g.freshQ()
	}
	if len(g.zs) > 0 && g.r.Chance(1, 3) {
		z := vlib.Pick(g.r, g.zs)
		pre := vlib.Pick(g.r, []string{"", "www.", "a.b.", "WWW.", "x\\.y.", "not"})
		name := pre + z.zone
		if z.zone == "." && pre != "" {
			name = pre
		}
		return qspec{name, vlib.Pick(g.r, qtypes), z.c, g.r.Chance(1, 3), vlib.Pick(g.r, scopes)}
	}
	if len(g.qs) == 0 {
		return g.freshQ()
	}
	q := vlib.Pick(g.r, g.qs)
	switch g.r.Intn(9) {
	case 0:
		q.t = vlib.Pick(g.r, qtypes)
	case 1:
		q.c = 4 - q.c // 1 <-> 3
	case 2:
		q.cd = !q.cd
	case 3:
		q.scope = vlib.Pick(g.r, scopes)
	case 4:
		q.name = strings.ToUpper(q.name)
	case 5:
		q.name = g.presOf(g.name())
	case 6:
		q.name = "not" + q.name
	}
	return q
}

func (g *caseGen) relatedZ() zspec {
	if len(g.zs) == 0 || g.r.Chance(1, 4) {
		return zspec{g.presOf(g.name()), vlib.Pick(g.r, classes)}
	}
	z := vlib.Pick(g.r, g.zs)
	switch g.r.Intn(5) {
	case 0:
		z.c = 4 - z.c
	case 1:
		z.zone = strings.ToUpper(z.zone)
	case 2:
		z.zone = "not" + z.zone
	}
	return z
}

// pick the next instant: boundaries of the last returned retryAfter ±1ns,
// the quiet-period boundary retryAfter+max ±1ns, small and huge gaps.
func (g *caseGen) step() int64 {
	lr := lastRetry
	var t int64
	switch k := g.r.Intn(20); {
	case k < 9: // stay inside the generation that is probably active
		t = vlib.Pick(g.r, []int64{g.t, g.t + 1, g.t + i63(g.r, g.mn/2+1)})
	case k < 15: // boundaries of the last returned retryAfter and of the quiet period
		t = vlib.Pick(g.r, []int64{lr - 1, lr, lr + 1, lr + g.mx - 1, lr + g.mx, lr + g.mx + 1, lr + i63(g.r, g.mx+1)})
	case k < 18:
		t = g.t + i63(g.r, 2*g.mx+2)
	default:
		t = g.t + 3600*sec + i63(g.r, sec)
	}
	if t < g.t && !g.r.Chance(1, 12) {
		t = g.t
	}
	if t < 0 {
		t = 0
	}
	g.t = t
	return t
}

func genNew(r *vlib.R) (size int, mn, mx int64, valid bool) {
	type cfg struct {
		size   int
		mn, mx int64
	}
	fixed := []cfg{{4096, 0, 0}, {4096, sec, sec}, {4096, sec, 300 * sec}, {4096, 5 * sec, 300 * sec}, {4096, 2 * sec, 3 * sec},
		{4096, 3 * sec / 2, 10 * sec}, {4096, 7 * sec, 100 * sec}, {4096, 300 * sec, 300 * sec}, {4096, 0, 60 * sec}, {4096, 30 * sec, 0},
		// rejected
		{64, sec, 301 * sec}, {64, sec, 300*sec + 1}, {64, sec - 1, 10 * sec}, {64, 10 * sec, 5 * sec}, {64, 0, 3 * sec},
		{64, -sec, 5 * sec}, {0, 0, 0}, {-3, sec, sec}, {64, sec, 600 * sec}, {64, 301 * sec, 0}, {64, 400 * sec, 400 * sec}, {64, sec, -sec}}
	var c cfg
	if r.Chance(1, 2) {
		c = vlib.Pick(r, fixed)
	} else {
		c.size = 4096
		c.mn = sec + i63(r, 299*sec)
		if r.Chance(1, 3) {
			c.mn = sec * (1 + i63(r, 20))
		}
		c.mx = c.mn + i63(r, 300*sec-c.mn+1)
		if r.Chance(1, 8) {
			c.mx = c.mn
		}
	}
	emn, emx := c.mn, c.mx
	if emn == 0 {
		emn = 5 * sec
	}
	if emx == 0 {
		emx = 300 * sec
	}
	valid = c.size > 0 && emn >= sec && emx >= emn && emx <= 300*sec
	return c.size, c.mn, c.mx, valid
}

func gen(r *vlib.R, n int, tier string, emit func(string)) {
	// vlib.NewR(seed) starts consecutive seeds one step apart on the SAME
	// splitmix64 sequence; re-key from a scrambled output so that seeds 1..5
	// are unrelated streams (everything still derives from VERIF_SEED).
	r = vlib.NewR(r.U64() ^ 0xc13c13c13c13c13)
	probeBudget = 45
	if tier == "thorough" {
		probeBudget = 150
	}
	genL3(r, tier, emit, &n)
	genBreaker(r, emit, &n, map[bool]int{false: 6, true: 60}[tier == "thorough"])
	// single upstream attempts through the real queryServer: what reaches the breaker
	qsOut := []string{"reply0", "reply2", "reply3", "reply5", "reply9", "drop", "attempt", "work", "ended", "pastdeadline", "cancelmid", "deadlinemid"}
	for i := map[bool]int{false: 14, true: 60}[tier == "thorough"]; i > 0; i-- {
		emit("fail qs " + vlib.Pick(r, qsOut))
		n--
	}
	genStateless(r, emit, &n, 40)
	for n > 0 {
		size, mn, mx, valid := genNew(r)
		en := !r.Chance(1, 6)
		// unrelated settings of the same config must not bend the failure-cache bounds
		expire := vlib.Pick(r, []int{600, 600, 0, 1, 4, 5, 20, 59, 120, 299, 301, 86400})
		emit(fmt.Sprintf("fail new %d %d %d %s %d", size, mn, mx, vlib.B(en), expire))
		n--
		g := &caseGen{r: r, emit: emit, n: &n, pool: poolFor(r, vlib.Pick(r, bases)), t: 1000 * sec, live: valid}
		g.mn, g.mx = cfgMin, cfgMax
		if !valid || fc == nil {
			g.mn, g.mx = 5*sec, 300*sec
			g.out("fail recq %s %d 3 0", g.freshQ(), g.t)
			g.out("fail lookup %s %d", g.freshQ(), g.t)
			g.out("fail backoff %d", r.Intn(9))
			continue
		}
		lastRetry = g.t
		steps := 12 + r.Intn(40)
		if tier == "thorough" {
			steps += r.Intn(60)
		}
		for i := 0; i < steps && n > 0; i++ {
			g.one()
		}
		if r.Chance(1, 3) {
			g.out("fail audit")
		}
		if r.Chance(1, 5) {
			genStateless(r, emit, &n, 4)
		}
	}
}

func (g *caseGen) wireOf(q qspec) string {
	// prefer the wire form of a pool name; its presentation is what recq used
	n := g.name()
	for _, c := range g.pool {
		if strings.EqualFold(presentLabels(c), q.name) || strings.EqualFold(strings.TrimSuffix(presentLabels(c), "."), q.name) {
			n = c
			break
		}
	}
	w := n.wire(g.r, g.r.Chance(1, 2))
	if g.r.Chance(1, 12) {
		switch g.r.Intn(6) {
		case 0:
			w = w[:len(w)-1] // no root
		case 1:
			w = append(w, 0) // trailing byte
		case 2:
			if len(w) > 1 {
				w[0] = 0xc0 // pointer
			}
		case 3:
			if len(w) > 1 {
				w[0] = 64 // reserved label type / overrun
			}
		case 4:
			w = nil
		case 5:
			big := []byte{}
			for len(big) < 250 {
				big = append(big, 9, 'a', 'b', 'c', 'd', 'e', 'f', 'g', 'h', 'i')
			}
			w = append(big, w...)
		}
	}
	return vlib.Hex(w)
}

func (g *caseGen) one() {
	r := g.r
	if r.Chance(1, 90) {
		g.probe()
		return
	}
	if r.Chance(1, 70) {
		g.audiences()
		return
	}
	switch k := r.Intn(100); {
	case k < 14: // record a question (often one recorded before: idempotent / renewal)
		q := g.relatedQ()
		if len(g.qs) > 0 && r.Chance(3, 5) {
			q = vlib.Pick(r, g.qs)
			if r.Chance(1, 3) {
				q.name = strings.ToUpper(q.name)
			}
		}
		g.qs = append(g.qs, q)
		g.out("fail recq %s %d %d %d", q, g.step(), 3+r.Intn(3), r.Intn(3))
		if !enabled || r.Chance(1, 6) {
			g.out("fail slookup %s %d", q, g.t)
			if q.scope == "-" || r.Chance(1, 4) {
				g.out("fail sget %s %d %d %s %d %s %s", hexName(q.name), q.t, q.c, vlib.B(q.cd), g.t, vlib.B(r.Bool()), vlib.Pick(r, []string{"plain", "ecsctx", "ecsopt"}))
				g.out("fail slookupw %s %d %d %s %d", g.wireOf(q), q.t, q.c, vlib.B(q.cd), g.t)
			}
			g.out("fail sretrykey %s %d", q, lastRetry+i63(r, 3))
			g.out("fail srecq %s %d %d", q, lastRetry+i63(r, 3), r.Intn(3))
			g.out("fail len")
		} else if r.Chance(1, 2) {
			g.out("fail lookup %s %d", q, g.step())
		}
	case k < 24: // record a zone
		z := g.relatedZ()
		if len(g.zs) > 0 && r.Chance(3, 5) {
			z = vlib.Pick(r, g.zs)
		}
		g.zs = append(g.zs, z)
		g.out("fail recz %s %d %d", z, g.step(), 3+r.Intn(3))
		if r.Chance(1, 3) {
			if _, ok := wireOfPres(z.zone); ok {
				// the DS/DNSKEY walk below a failed zone, in a CD / client-ECS request tree
				g.out("fail sget %s %d %d %s %d %s %s", hexName(z.zone), vlib.Pick(r, []int{43, 48, 1}), z.c, vlib.B(r.Bool()), g.t, vlib.B(r.Bool()), vlib.Pick(r, []string{"plain", "ecsctx", "ecsopt"}))
			}
		}
	case k < 46:
		g.out("fail %slookup %s %d", g.viaStore(), g.relatedQ(), g.step())
	case k < 54:
		q := g.relatedQ()
		g.out("fail %slookupw %s %d %d %s %d", g.viaStore(), g.wireOf(q), q.t, q.c, vlib.B(q.cd), g.step())
	case k < 62:
		g.out("fail %sretrykey %s %d", g.viaStore(), g.relatedQ(), g.step())
	case k < 65:
		g.out("fail resetq %s", g.relatedQ())
	case k < 67:
		g.out("fail resetz %s", g.relatedZ())
	case k < 71:
		q := g.relatedQ()
		g.out("fail resetm %s", q)
		if r.Chance(1, 2) {
			g.out("fail recq %s %d 3 0", q, g.step())
		}
	case k < 73:
		q := g.relatedQ()
		g.out("fail purge %s %d %d", hexName(q.name), q.t, q.c)
	case k < 75:
		if r.Bool() {
			g.out("fail evictq %s", g.relatedQ())
		} else {
			g.out("fail evictz %s", g.relatedZ())
		}
	case k < 81:
		g.seed()
	case k < 82:
		g.alias()
	case k < 84:
		if len(g.qs) > 0 {
			g.out("fail race %s %d %d", vlib.Pick(r, g.qs), g.step(), 2+r.Intn(7))
		}
	case k < 85:
		g.out("fail backoff %d", vlib.Pick(r, []int{0, 1, 2, 3, 4, 5, 6, 7, 8, 9, 10, 16, 31, 32, 33, 63, 64, 65, 1000, 4294967295}))
		g.out("fail len")
	case k < 88:
		q := g.relatedQ()
		g.qs = append(g.qs, q)
		g.out("fail srecq %s %d %d", q, g.step(), r.Intn(3))
	case k < 90:
		z := g.relatedZ()
		g.zs = append(g.zs, z)
		zone := hexName(z.zone)
		if r.Chance(1, 10) {
			zone = "-"
		}
		g.out("fail srecz %d %s %d", z.c, zone, g.step())
		if r.Chance(1, 3) {
			g.out("fail sclearz %d %s", z.c, zone)
		}
	case k < 93:
		q := g.relatedQ()
		switch r.Intn(4) {
		case 0:
			g.out("fail slookup %s %d", q, g.step())
		case 1:
			g.out("fail slookupw %s %d %d %s %d", g.wireOf(q), q.t, q.c, vlib.B(q.cd), g.step())
		case 2:
			g.out("fail sretrykey %s %d", q, g.step())
		case 3:
			g.out("fail sget %s %d %d %s %d %s %s", hexName(q.name), q.t, q.c, vlib.B(q.cd), g.step(), vlib.B(r.Bool()), vlib.Pick(r, []string{"plain", "ecsctx", "ecsopt"}))
		}
	case k < 94:
		q := g.relatedQ()
		if r.Bool() {
			g.out("fail sresetm %s", q)
		} else {
			g.out("fail spurge %s %d %d", hexName(q.name), q.t, q.c)
		}
	case k < 95:
		q := g.relatedQ()
		g.qs = append(g.qs, q)
		g.out("fail sset %s %s %d", q, vlib.Pick(r, []string{"useful", "nxdomain", "nodata", "servfail", "refused", "other"}), g.step())
	case k < 96:
		if r.Bool() {
			g.recovery()
		} else {
			g.probe()
		}
	case k < 97:
		g.alias2()
	case k < 98:
		switch r.Intn(3) {
		case 0:
			g.serve()
		case 1:
			g.wserve()
		default:
			g.fserve()
		}
	default:
		q := g.relatedQ()
		g.qs = append(g.qs, q)
		flags := vlib.Pick(r, []string{"-", "-", "-", "-", "e", "d", "p", "b", "w", "bw", "ed"})
		mark := vlib.Pick(r, []string{"none", "none", "none", "work", "attempt", "probe", "shed", "w:shed", "maxrec", "canceled", "deadline", "other", "w:attempt", "w:deadline", "else:work", "else:canceled"})
		class := vlib.Pick(r, []string{"servfail", "servfail", "refused", "useful", "nxdomain"})
		g.out("fail write %s %s %s %d %d %s", flags, mark, q, g.step(), r.Intn(3), class)
		g.out("fail lookup %s %d", q, g.t)
	}
}

// wireOfPres encodes a presentation name (decoded by the oracle's scanner).
func wireOfPres(s string) (string, bool) {
	c, ok := canonRaw(s)
	if !ok {
		return "", false
	}
	ls, _, _, ok := scanName(c)
	if !ok {
		return "", false
	}
	var w []byte
	for _, l := range ls {
		if len(l) > 63 {
			return "", false
		}
		w = append(w, byte(len(l)))
		w = append(w, l...)
	}
	w = append(w, 0)
	return vlib.Hex(w), len(w) <= 255
}

func (g *caseGen) alsoWire(q qspec, t int64) {
	if w, ok := wireOfPres(q.name); ok {
		g.out("fail %slookupw %s %d %d %s %d", g.viaStore(), w, q.t, q.c, vlib.B(q.cd), t)
	}
}

// one question fails for ONE audience (the shared one or an ECS source prefix);
// at the same instant every other audience asks through every Store / ServeDNS
// read route: only the audience that failed may be suppressed.
func (g *caseGen) audiences() {
	r := g.r
	q := g.relatedQ()
	if c, ok := canonRaw(q.name); !ok || len(c) > 200 || q.name == "" {
		q.name = "aud.example.com."
	} else if _, ok := wireOfPres(q.name); !ok {
		q.name = "aud.example.com."
	}
	q.t, q.c = vlib.Pick(r, []int{1, 28, 16}), 1
	auds := []string{"-", "4:cb007100/24", "4:cb007200/24", "4:0a010000/16", "6:20010db8000000000000000000000000/32", "4:0a010203/0"}
	q.scope = vlib.Pick(r, auds)
	g.qs = append(g.qs, q)
	if r.Bool() {
		g.out("fail srecq %s %d %d", q, g.t, r.Intn(3))
	} else {
		g.out("fail write - none %s %d %d servfail", q, g.t, r.Intn(3))
	}
	for _, a := range auds {
		o := q
		o.scope = a
		switch r.Intn(4) {
		case 0:
			g.out("fail slookup %s %d", o, g.t)
		case 1:
			g.out("fail sretrykey %s %d", o, lastRetry+i63(r, 2))
		case 2:
			if a != "-" && a != "4:0a010203/0" {
				g.out("fail eserve %s %d local:attempt 0", o, g.t)
			} else {
				g.out("fail serve %s %d %d %s %s %d local:attempt", hexName(o.name), o.t, o.c, vlib.B(o.cd), vlib.B(r.Bool()), g.t)
			}
		case 3:
			if probeBudget > 0 {
				probeBudget--
				if r.Chance(1, 3) { // an ordinary cohort: identical questions, the leader's SERVFAIL is shareable
					q := g.relatedQ()
					if c, ok := canonRaw(q.name); !ok || len(c) > 200 || q.name == "" {
						q.name = "cohort.example.com."
					} else if _, ok := wireOfPres(q.name); !ok {
						q.name = "cohort.example.com."
					}
					q.t, q.c = vlib.Pick(r, []int{1, 28, 16}), 1
					q.scope = vlib.Pick(r, []string{"-", "-", "4:cb007100/24", "4:0a010000/16"})
					g.qs = append(g.qs, q)
					g.out("fail cohort %d %d %s", g.step(), 2+r.Intn(4), q)
					g.out("fail lookup %s %d", q, g.t)
					return
				}
				g.out("fail probe %d 2 %s %s", g.t, o, q)
			} else {
				g.out("fail slookup %s %d", o, g.t)
			}
		}
	}
}

var probeBudget int

// several clients arriving together behind one retained failure generation:
// different names / types / CD bits / ECS audiences below an expired zone
// failure (one probe), the same exact question from several audiences, and
// unrelated questions (one leader each).
func (g *caseGen) probe() {
	r := g.r
	if probeBudget <= 0 { // each batch waits ~70 ms for the single-flight to settle
		g.recovery()
		return
	}
	probeBudget--
	zone := "probe" + fmt.Sprint(r.Intn(3)) + ".example.com."
	cls := 1
	withZone := r.Chance(3, 4)
	if withZone {
		g.zs = append(g.zs, zspec{zone, cls})
		if r.Bool() {
			g.out("fail recz %s %d %d", zspec{zone, cls}, g.t, 3)
		} else {
			g.out("fail srecz %d %s %d", cls, hexName(zone), g.t)
		}
	}
	scopes := []string{"-", "-", "4:cb007100/24", "4:0a010000/16", "4:c6336400/24", "6:20010db8000000000000000000000000/32"}
	n := 2 + r.Intn(4)
	var reqs []string
	base := qspec{"a." + zone, vlib.Pick(r, []int{1, 28, 16}), cls, false, vlib.Pick(r, scopes)}
	for i := 0; i < n; i++ {
		q := base
		switch r.Intn(5) {
		case 0: // identical
		case 1:
			q.name = fmt.Sprintf("n%d.%s", r.Intn(3), zone)
		case 2:
			q.scope = vlib.Pick(r, scopes)
		case 3:
			q.t = vlib.Pick(r, []int{1, 28, 16})
			q.cd = r.Bool()
		case 4:
			q.name = fmt.Sprintf("x%d.other%d.example.com.", r.Intn(2), r.Intn(2))
		}
		if r.Chance(1, 5) { // an apex question: the failed zone's own name (SOA / NS / DNSKEY / A …)
			q.name = zone
			q.t = vlib.Pick(r, []int{6, 2, 48, 1})
		}
		reqs = append(reqs, q.String())
	}
	// inside the backoff (served), exactly at / after its end (one probe), much later
	t := vlib.Pick(r, []int64{g.t + 1, lastRetry - 1, lastRetry, lastRetry + 1, lastRetry + i63(r, g.mx)})
	if t < g.t {
		t = g.t
	}
	g.t = t
	g.out("fail probe %d %d %s", g.t, n, strings.Join(reqs, " "))
}

// fail -> backoff over -> the probe succeeds -> fail again: the second episode
// must start at the minimum, for every audience (no ECS, ECS source prefixes)
// and whatever audience the recovering answer is filed under (no ECS option,
// SCOPE 0, a narrower / wider / equal SCOPE), at WriteMsg and ServeDNS level.
func (g *caseGen) recovery() {
	r := g.r
	q := g.relatedQ()
	if _, ok := wireOfPres(q.name); !ok || q.name == "" {
		q.name = "flaky.example.com."
	}
	q.t = vlib.Pick(r, []int{1, 28, 16})
	q.c = 1
	q.scope = vlib.Pick(r, []string{"-", "4:cb007100/24", "4:cb007105/24", "4:0a010000/16", "4:0a000000/8", "6:20010db8000000000000000000000000/32", "6:20010db8aaaa00000000000000000001/48"})
	g.qs = append(g.qs, q)
	viaServe := r.Chance(2, 3)
	viaStore := !viaServe && r.Bool() // the resolver-private sub-query route: Store.SetFromResponse only
	if viaStore {
		q.scope = "-"
		q.t = vlib.Pick(r, []int{43, 48, 1})
	}
	rs := vlib.Pick(r, []int{-1, 0, 0, 8, 16, 24, 32, 48})
	fail := func() {
		out := vlib.Pick(r, []string{"servfail", "servfail", "refused"})
		switch {
		case viaServe && q.scope != "-":
			g.out("fail eserve %s %d %s %d", q, g.t, out, rs)
		case viaServe:
			g.out("fail serve %s %d %d %s %s %d %s", hexName(q.name), q.t, q.c, vlib.B(q.cd), vlib.B(r.Bool()), g.t, out)
		case viaStore:
			g.out("fail sset %s %s %d", q, out, g.t)
		default:
			g.out("fail write - none %s %d %d %s", q, g.t, r.Intn(3), out)
		}
	}
	succeed := func() {
		out := vlib.Pick(r, []string{"useful", "useful", "nxdomain"})
		switch {
		case viaServe && q.scope != "-":
			g.out("fail eserve %s %d %s %d", q, g.t, out, rs)
		case viaServe:
			g.out("fail serve %s %d %d %s %s %d %s", hexName(q.name), q.t, q.c, vlib.B(q.cd), vlib.B(r.Bool()), g.t, out)
		case viaStore:
			g.out("fail sset %s %s %d", q, vlib.Pick(r, []string{"useful", "nxdomain", "nodata", "nodata"}), g.t)
		default:
			g.out("fail write - none %s %d 0 %s", q, g.t, out)
		}
	}
	episodes := 1 + r.Intn(2)
	for e := 0; e < episodes; e++ {
		fails := 1 + r.Intn(3)
		for i := 0; i < fails; i++ {
			fail()
			if r.Chance(1, 3) {
				fail() // inside the backoff: answered from the failure cache / idempotent
			}
			g.t = lastRetry + i63(r, 3)
		}
		succeed()
		g.out("fail retrykey %s %d", q, g.t)
		g.out("fail lookup %s %d", q, g.t)
		g.t += 2*sec + i63(r, g.mx)
	}
	fail()
	g.out("fail lookup %s %d", q, g.t)
}

// alias questions whose CNAME target leg fails or succeeds (fail alias).
func (g *caseGen) alias2() {
	r := g.r
	q := g.relatedQ()
	if _, ok := wireOfPres(q.name); !ok || q.name == "." || q.name == "" {
		q.name = "alias.example.com."
	}
	q.t, q.c, q.scope = 1, 1, "-"
	g.qs = append(g.qs, q)
	outs := []string{"local:attempt", "local:attempt", "local:work", "local:deadline", "local:canceled", "local:maxrec", "local:probe", "local:shed", "err:attempt", "servfail", "refused", "local:other", "ok"}
	n := 1 + r.Intn(3)
	for i := 0; i < n; i++ {
		g.out("fail alias %s %d %s %s %d %s", hexName(q.name), q.c, vlib.B(q.cd), vlib.B(r.Bool()), g.step(), vlib.Pick(r, outs))
	}
}

// the failover route: cache → failover → scripted primary, real loopback
// fallback server; classes IN and CH, CD 0/1, failing / recovering fallback.
func (g *caseGen) fserve() {
	r := g.r
	q := g.relatedQ()
	if c, ok := canonRaw(q.name); !ok || len(c) > 200 {
		q.name = "fo.example.com."
	} else if _, ok := wireOfPres(q.name); !ok {
		q.name = "fo.example.com."
	} else {
		ls, _, _, _ := scanName(c)
		var bl [][]byte
		for _, l := range ls {
			bl = append(bl, []byte(l))
		}
		q.name = presentLabels(bl)
	}
	q.t = vlib.Pick(r, []int{1, 16, 28})
	q.c = vlib.Pick(r, []int{1, 1, 3, 3, 4})
	q.scope = "-"
	g.qs = append(g.qs, q)
	prim := []string{"servfail", "servfail", "servfail", "refused", "useful", "nxdomain", "local:attempt", "local:deadline", "local:probe", "local:shed", "local:other"}
	fb := []string{"servfail", "servfail", "refused", "useful", "nxdomain"}
	for i := 2 + r.Intn(3); i > 0; i-- {
		g.out("fail fserve %s %d %d %s %s %d %s %s", hexName(q.name), q.t, q.c, vlib.B(q.cd), vlib.B(r.Bool()), g.step(), vlib.Pick(r, prim), vlib.Pick(r, fb))
		if r.Chance(1, 3) { // the neighbour in the other class must be untouched
			o := q
			o.c = 4 - q.c
			if o.c < 1 {
				o.c = 1
			}
			g.out("fail lookup %s %d", o, g.t)
		}
	}
}

// wire-born requests (packed query, undecoded chain): the wire fast path of the
// cache first, the decoded ladder as fallback; exact and zone states, CD 0/1,
// inside the backoff, at its boundary and after it.
func (g *caseGen) wserve() {
	r := g.r
	q := g.relatedQ()
	if len(g.zs) > 0 && r.Chance(1, 2) {
		z := vlib.Pick(r, g.zs)
		q = qspec{"www." + z.zone, vlib.Pick(r, []int{1, 28, 16}), 1, r.Bool(), "-"}
		if z.zone == "." {
			q.name = "www."
		}
	}
	q.t = vlib.Pick(r, []int{1, 28, 16})
	q.c = 1
	// only the spelling a decoder hands the server for the packed name (redundant escapes
	// such as "\\t" vanish on the wire; the failure cache identifies names by their spelling)
	if c, ok := canonRaw(q.name); !ok || len(c) > 200 {
		q.name = "www.example.com."
	} else if _, ok := wireOfPres(q.name); !ok {
		q.name = "www.example.com."
	} else {
		ls, _, _, _ := scanName(c)
		var bl [][]byte
		for _, l := range ls {
			bl = append(bl, []byte(l))
		}
		q.name = presentLabels(bl)
	}
	// make sure there is something to be behind: a fresh zone or question failure of the shared audience
	if r.Chance(1, 2) {
		zone := q.name
		if i := strings.Index(q.name, "."); i >= 0 && i+1 < len(q.name) && r.Bool() {
			zone = q.name[i+1:]
		}
		if _, ok := canonRaw(zone); ok && !strings.HasSuffix(strings.TrimSuffix(zone, "."), "\\") {
			g.zs = append(g.zs, zspec{zone, 1})
			g.out("fail recz %s %d 3", zspec{zone, 1}, g.t)
		}
	} else {
		g.out("fail recq %s %d 3 0", qspec{q.name, q.t, 1, q.cd, "-"}, g.t)
	}
	for i := 1 + r.Intn(3); i > 0; i-- {
		t := g.t
		if i > 1 || r.Bool() {
			t = g.step()
		}
		g.out("fail wserve %s %d %d %s %s %d", hexName(q.name), q.t, q.c, vlib.B(q.cd), vlib.B(r.Bool()), t)
		if r.Chance(1, 3) {
			q.cd = !q.cd
		}
	}
}

// a short client session through the real Cache.ServeDNS: the upstream fails,
// the repeats inside the backoff must not reach it, the first one after it may.
func (g *caseGen) serve() {
	r := g.r
	q := g.relatedQ()
	q.t = vlib.Pick(r, []int{1, 28, 16})
	q.c = 1
	q.scope = "-"
	if _, ok := wireOfPres(q.name); !ok {
		q.name = "www.example.com."
	}
	g.qs = append(g.qs, q)
	key := fmt.Sprintf("%s %d %d %s", hexName(q.name), q.t, q.c, vlib.B(q.cd))
	outs := []string{"servfail", "servfail", "refused", "nxdomain", "useful", "local:work", "local:attempt", "local:probe", "local:shed", "local:maxrec", "local:canceled", "local:deadline", "local:other"}
	n := 2 + r.Intn(4)
	for i := 0; i < n; i++ {
		g.out("fail serve %s %s %d %s", key, vlib.B(r.Bool()), g.step(), vlib.Pick(r, outs))
	}
}

// forged collisions: an entry for one identity stored under the key of another.
func (g *caseGen) seed() {
	r := g.r
	tgt := g.relatedQ()
	ra := g.t + 1 + i63(r, g.mx)
	streak := 1 + r.Intn(6)
	switch r.Intn(6) {
	case 0, 1: // question that differs in exactly one dimension
		e := tgt
		switch r.Intn(5) {
		case 0:
			e.name = "not" + e.name
		case 1:
			e.t = e.t + 1
		case 2:
			e.c = 4 - e.c
		case 3:
			e.cd = !e.cd
		case 4:
			if e.scope == "-" {
				e.scope = "4:0a010200/24"
			} else {
				e.scope = "-"
			}
		}
		g.out("fail seed q %s q %s %d %d", tgt, e, streak, ra)
		g.out("fail lookup %s %d", tgt, g.t)
		g.alsoWire(tgt, g.t)
		g.out("fail retrykey %s %d", tgt, ra+1)
		g.out("fail lookup %s %d", e, g.t)
	case 2: // a zone state under a question key
		g.out("fail seed q %s z %s %d %d %d", tgt, hexName(tgt.name), tgt.c, streak, ra)
		g.out("fail lookup %s %d", tgt, g.t)
		g.alsoWire(tgt, g.t)
	case 3: // a sibling zone under the key of an ancestor zone of the target
		z := g.relatedZ()
		sib := zspec{"not" + z.zone, z.c}
		if r.Bool() {
			sib = zspec{z.zone, 4 - z.c}
		}
		g.out("fail seed z %s z %s %d %d", z, sib, streak, ra)
		child := qspec{"www." + z.zone, 1, z.c, false, "-"}
		if z.zone == "." {
			child.name = "www."
		}
		g.out("fail lookup %s %d", child, g.t)
		g.alsoWire(child, g.t)
		g.out("fail retrykey %s %d", child, ra+1)
		g.out("fail recz %s %d 4", z, g.t)
	case 4: // a question state under a zone key
		z := g.relatedZ()
		g.out("fail seed z %s q %s %d %d", z, qspec{z.zone, 6, z.c, false, "-"}, streak, ra)
		g.out("fail lookup %s %d", qspec{z.zone, 1, z.c, false, "-"}, g.t)
		g.alsoWire(qspec{z.zone, 1, z.c, false, "-"}, g.t)
	case 5: // a faithful state with a chosen streak / retryAfter (renewal from a high streak)
		g.qs = append(g.qs, tgt)
		g.out("fail seed q %s q %s %d %d", tgt, tgt, vlib.Pick(r, []int{1, 2, 3, 5, 9, 30, 4294967294, 4294967295}), ra)
		g.t = ra + i63(r, g.mx+2)
		g.out("fail recq %s %d 3 0", tgt, g.t)
	}
}

// a collision that needs no forging: the key preimage has no length framing
// between the name and the ECS bytes, so  (N, 10.1.46.0/24)  and
// (N ++ 0x04 0x18 0x0a 0x01 '.', no scope)  are the same 64-bit key.
func (g *caseGen) alias() {
	n := vlib.Pick(g.r, []string{"example.com.", "www.example.com.", "a."})
	scoped := qspec{n, 1, 1, false, "4:0a012e00/24"}
	plain := qspec{n + "\x04\x18\x0a\x01.", 1, 1, false, "-"}
	first, second := scoped, plain
	if g.r.Bool() {
		first, second = plain, scoped
	}
	g.out("fail recq %s %d 3 1", first, g.step())
	g.out("fail lookup %s %d", second, g.t)
	g.out("fail retrykey %s %d", second, lastRetry+1)
	g.out("fail resetq %s", second)
	g.out("fail recq %s %d 4 2", second, g.t)
	g.out("fail lookup %s %d", first, g.t)
	g.out("fail lookup %s %d", second, g.t)
}

// system-level scenarios: a zone with several differently scripted servers.
// Three fast failures plus one slower healthy server in every position, mixes
// with drops, and all-failing controls.
func genL3(r *vlib.R, tier string, emit func(string), n *int) {
	fails := []string{"s", "r", "n"}
	k := 3
	if tier == "thorough" {
		k = 10
	}
	for i := 0; i < k; i++ {
		m := 4 + r.Intn(2)
		spec := make([]string, m)
		for j := range spec {
			spec[j] = vlib.Pick(r, fails)
		}
		spec[r.Intn(m)] = "h"
		if i%3 == 2 {
			spec[(r.Intn(m-1)+1+indexOf(spec, "h"))%m] = "d"
		}
		emit(fmt.Sprintf("fail l3zone %s %d", strings.Join(spec, ","), 150+r.Intn(151)))
		*n--
	}
	// load shed at the resolver's own admission is request-local (real load, ~2 s each)
	if tier == "thorough" {
		emit("fail l3shed global")
		emit("fail l3shed zone")
		emit("fail l3shed nested")
		*n -= 3
	} else {
		emit("fail l3shed " + vlib.Pick(r, []string{"global", "zone", "nested", "nested"}))
		*n--
	}
	emit("fail l3zone x 0") // a lone healthy server stating a bare NXDOMAIN (no SOA): a denial, not a zone failure
	*n--
	emit(fmt.Sprintf("fail l3zone %s,x,%s 0", vlib.Pick(r, fails), vlib.Pick(r, fails))) // one server denies the name: NXDOMAIN, no zone failure
	*n--
	// the identity a failure is filed under is the client's: dnssec switch × CD × outcome path
	ids := 2
	if tier == "thorough" {
		ids = 8
	}
	for i := 0; i < ids; i++ {
		path := vlib.Pick(r, []string{"drop", "drop", "servfail", "refused", "ok"})
		if i == 0 {
			path = "drop" // the Go-error path of the handler
		}
		emit(fmt.Sprintf("fail l3id %s %s %s %d", vlib.Pick(r, []string{"off", "off", "on"}), vlib.B(i%2 == 1 || r.Chance(1, 4)), path, vlib.Pick(r, []int{1, 28, 16})))
		*n--
	}
	// impatient clients on a slow healthy zone: deadlines are request-local (circuit breaker, failure state)
	emit(fmt.Sprintf("fail l3deadline %d %d %d %d", 6+r.Intn(2), 250+r.Intn(100), 40+r.Intn(60), 1+r.Intn(2)))
	*n--
	// a first tree runs out of budget while collecting NS addresses; the next one must not inherit a truncated delegation
	emit(fmt.Sprintf("fail l3trunc %d %d", 3+r.Intn(2), 4))
	*n--
	// the detached IPv6 NS-address job is optional enrichment under every accounting mode
	if tier == "thorough" {
		for _, m := range []string{"off", "shadow", "enforce"} {
			emit(fmt.Sprintf("fail l3v6 %s %s", m, vlib.Pick(r, []string{"servfail", "refused"})))
			*n--
		}
	} else {
		emit(fmt.Sprintf("fail l3v6 %s %s", vlib.Pick(r, []string{"off", "off", "shadow", "enforce"}), vlib.Pick(r, []string{"servfail", "refused"})))
		*n--
	}
	if r.Bool() { // 2 s each (the job's start-up grace): every other quick run, always in thorough
		emit(fmt.Sprintf("fail nss6 %s %d", vlib.B(r.Chance(1, 3)), 1+r.Intn(3))) // mostly without a ledger (accounting off)
		*n--
	}
	if tier == "thorough" {
		emit("fail nss6 t 2")
		emit("fail nss6 f 2")
		*n -= 2
	}
	emit("fail l3zone s,r,s,s 0") // control: every server fails, the zone failure may be recorded
	emit(fmt.Sprintf("fail l3zone f,%s,%s 0", vlib.Pick(r, fails), vlib.Pick(r, fails)))
	*n -= 2
}

func indexOf(xs []string, x string) int {
	for i, v := range xs {
		if v == x {
			return i
		}
	}
	return 0
}

// circuit-breaker sessions: a few addresses, failures in a row, successes in
// between, re-admission around the 30 s mark, idle clean-up around 300 s.
// (whole-second advances; the totals 29 s and 300 s since an address's last
// failure are skipped — there the real breaker's truncated time stamp makes
// the outcome depend on the wall clock's sub-second phase.)
func genBreaker(r *vlib.R, emit func(string), n *int, sessions int) {
	for s := 0; s < sessions; s++ {
		emit("fail cb new")
		*n--
		servers := []string{"192.0.2.1:53", "192.0.2.2:53", "[2001:db8::1]:53"}
		elapsed := map[string]int64{}
		for i := 10 + r.Intn(30); i > 0; i-- {
			adv := vlib.Pick(r, []int64{0, 0, 0, 0, 1, 2, 5, 9, 10, 20, 27, 28, 30, 31, 33, 60, 270, 299, 301, 400})
			for bad := true; bad; {
				bad = false
				for _, e := range elapsed {
					if e+adv == 29 || e+adv == 300 {
						adv++
						bad = true
					}
				}
			}
			for k := range elapsed {
				elapsed[k] += adv
			}
			srv := vlib.Pick(r, servers)
			switch k := r.Intn(20); {
			case k < 11:
				emit(fmt.Sprintf("fail cb %d fail %s", adv, srv))
				elapsed[srv] = 0
			case k < 16:
				emit(fmt.Sprintf("fail cb %d can %s", adv, srv))
			case k < 19:
				emit(fmt.Sprintf("fail cb %d ok %s", adv, srv))
			default:
				emit(fmt.Sprintf("fail cb %d clean", adv))
				for k, e := range elapsed {
					if e > 300 {
						delete(elapsed, k)
					}
				}
			}
			*n--
		}
		// trip one address (five or more failures in a row), then ask around the 30 s mark
		victim := vlib.Pick(r, servers)
		for i := 5 + r.Intn(3); i > 0; i-- {
			emit(fmt.Sprintf("fail cb %d fail %s", vlib.Pick(r, []int64{0, 0, 1, 2}), victim))
			*n--
		}
		at := int64(0)
		for _, target := range []int64{0, 1, 27, 28, 30, 31, 33, 60, 89, 91, 120, 299, 301} {
			if r.Chance(1, 3) {
				continue
			}
			emit(fmt.Sprintf("fail cb %d can %s", target-at, victim))
			*n--
			at = target
			if target >= 30 { // re-admitted: fail again a few times, or succeed
				switch r.Intn(4) {
				case 0:
					emit(fmt.Sprintf("fail cb 0 ok %s", victim))
					*n--
				case 1:
					for i := 5; i > 0; i-- {
						emit(fmt.Sprintf("fail cb 0 fail %s", victim))
						*n--
					}
					at = 0
					emit(fmt.Sprintf("fail cb 2 can %s", victim))
					emit(fmt.Sprintf("fail cb 29 can %s", victim)) // 31 s after the last failure
					*n -= 2
					at = 31
				}
				break
			}
		}
		emit("fail cb 400 clean")
		*n--
	}
}

func genStateless(r *vlib.R, emit func(string), n *int, k int) {
	flags := []string{"-", "e", "d", "p", "p", "b", "w", "eb", "bw", "dw", "pw", "edbw"}
	marks := []string{"none", "work", "attempt", "probe", "shed", "w:shed", "maxrec", "canceled", "deadline", "other", "w:work", "w:attempt", "w:canceled", "w:deadline", "w:other", "else:work", "else:deadline"}
	causes := []string{"none", "work", "attempt", "probe", "shed", "maxrec", "canceled", "deadline", "other", "w:work", "w:attempt", "w:maxrec", "w:canceled", "w:deadline", "w:other"}
	for i := 0; i < k; i++ {
		switch r.Intn(7) {
		case 6:
			// name-server address sub-lookups of a glueless delegation: at most one hard
			// and one soft request-local cause per op (the result is then order independent)
			hard := vlib.Pick(r, []string{"work", "maxrec", "canceled", "deadline"})
			soft := vlib.Pick(r, []string{"attempt", "shed"})
			var outs []string
			for j := 1 + r.Intn(4); j > 0; j-- {
				outs = append(outs, vlib.Pick(r, []string{"f", "f", "e", "a", "a", "l:" + soft, "l:" + soft, "x:" + soft, "l:" + hard, "x:w:" + hard, "x:other", "l:other"}))
			}
			emit("fail nss " + strings.Join(outs, ","))
		case 0:
			emit(fmt.Sprintf("fail cacheable %s %s", vlib.Pick(r, flags), vlib.Pick(r, marks)))
		case 1:
			emit(fmt.Sprintf("fail zonerec %s %s %s", vlib.Pick(r, flags), vlib.B(r.Chance(1, 6)), vlib.Pick(r, causes)))
		case 2:
			emit(fmt.Sprintf("fail hle %s %s %s %s %s", vlib.Pick(r, flags), vlib.B(r.Chance(1, 8)), vlib.B(r.Chance(1, 5)), vlib.B(r.Chance(2, 3)), vlib.Pick(r, causes)))
		case 3:
			var rc, ft []string
			for j := r.Intn(4); j > 0; j-- {
				rc = append(rc, fmt.Sprint(vlib.Pick(r, []int{2, 2, 5, 3, 1, 4, 9})))
			}
			for j := r.Intn(4); j > 0; j-- {
				ft = append(ft, vlib.Pick(r, []string{"other", "other", "w:deadline", "canceled", "attempt", "work", "w:other"}))
			}
			nc := r.Intn(3)
			if len(rc) == 0 && len(ft) == 0 && nc == 0 {
				nc = 1 // the all-empty call is zlog.Fatal (no root servers)
			}
			j := func(x []string) string {
				if len(x) == 0 {
					return "-"
				}
				return strings.Join(x, ",")
			}
			emit(fmt.Sprintf("fail pick %s %d %s", j(rc), nc, j(ft)))
		case 4:
			var codes []string
			for j := r.Intn(4); j > 0; j-- {
				codes = append(codes, fmt.Sprint(vlib.Pick(r, []int{10, 3, 8, 12, 15, 65001})))
			}
			cs := "-"
			if len(codes) > 0 {
				cs = strings.Join(codes, ",")
			}
			emit(fmt.Sprintf("fail response %s %s %s %d %s %s", vlib.Pick(r, []string{"nil", "plain", "opt", "opt", "opt"}), vlib.B(r.Bool()), vlib.B(r.Bool()),
				vlib.Pick(r, []int{512, 1232, 4096, 65535, 0}), vlib.B(r.Bool()), cs))
		case 5:
			mn := sec + i63(r, 299*sec)
			mx := mn + i63(r, 300*sec-mn+1)
			emit(fmt.Sprintf("fail backoffcfg %d %d %d", mn, mx, vlib.Pick(r, []int{0, 1, 2, 3, 4, 5, 7, 9, 12, 40, 4294967295})))
		}
		*n--
	}
}

// ---------------------------------------------------------------- facts

func factsImpl() map[string]any {
	f := map[string]any{}
	// the hard ceiling: the largest max TTL NewFailureCache accepts, probed at
	// second granularity up to one hour and at ±1ns around five minutes.
	var maxAccepted int64
	probe := func(mx int64) {
		if c, err := cache.NewFailureCache(cache.FailureCacheConfig{Size: 8, InitialTTL: time.Second, MaxTTL: time.Duration(mx)}); err == nil {
			_, gmax := cache.VerifC13TTLs(c)
			if int64(gmax) > maxAccepted {
				maxAccepted = int64(gmax)
			}
			c.Stop()
		}
	}
	for s := int64(1); s <= 3600; s++ {
		probe(s * sec)
	}
	probe(300*sec - 1)
	probe(300*sec + 1)
	f["max_accepted_max_ttl_ns"] = maxAccepted
	var minAccepted int64 = 1 << 62
	for _, mn := range []int64{1, sec / 2, sec - 1, sec, sec + 1, 2 * sec} {
		if c, err := cache.NewFailureCache(cache.FailureCacheConfig{Size: 8, InitialTTL: time.Duration(mn), MaxTTL: 300 * time.Second}); err == nil {
			gmin, _ := cache.VerifC13TTLs(c)
			if int64(gmin) < minAccepted {
				minAccepted = int64(gmin)
			}
			c.Stop()
		}
	}
	f["min_accepted_initial_ttl_ns"] = minAccepted
	// defaults: the zero config, and what the config package feeds Cache.New
	if c, err := cache.NewFailureCache(cache.FailureCacheConfig{Size: 8}); err == nil {
		gmin, gmax := cache.VerifC13TTLs(c)
		f["default_initial_ns"] = int64(gmin)
		f["default_max_ns"] = int64(gmax)
		c.Stop()
	}
	rf := config.RecursionFirewallConfig{}
	rf.Normalize()
	f["config_default_min_ns"] = int64(rf.FailureCacheMinTTL.Duration)
	f["config_default_max_ns"] = int64(rf.FailureCacheMaxTTL.Duration)
	f["rfc9520_default_on"] = (&config.Config{}).RFC9520Enabled()
	off := false
	f["rfc9520_off_switch"] = !(&config.Config{RFC9520: &off}).RFC9520Enabled()
	// the real backoff function over streaks 0..64 for several configurations
	cfgs := [][2]int64{{5 * sec, 300 * sec}, {sec, 300 * sec}, {sec, sec}, {2 * sec, 3 * sec}, {3 * sec / 2, 10 * sec}, {7 * sec, 100 * sec}, {300 * sec, 300 * sec}, {1234567891, 299999999999}}
	var tables [][]int64
	var cfgList [][]int64
	for _, c := range cfgs {
		fcx, err := cache.NewFailureCache(cache.FailureCacheConfig{Size: 8, InitialTTL: time.Duration(c[0]), MaxTTL: time.Duration(c[1])})
		if err != nil {
			continue
		}
		var row []int64
		for s := uint32(0); s <= 64; s++ {
			row = append(row, int64(cache.VerifC13Backoff(fcx, s)))
		}
		fcx.Stop()
		tables = append(tables, row)
		cfgList = append(cfgList, []int64{c[0], c[1]})
	}
	f["backoff_cfgs"] = cfgList
	f["backoff_tables"] = tables
	// EDE code and rcode of a cached-failure reply, with and without OPT
	req := newReq(cache.FailureQuestionKey{})
	req.Question[0].Name = "x."
	req.SetEdns0(1232, false)
	resp := cache.FailureHit{}.Response(req)
	f["response_rcode"] = resp.Rcode
	nopt := 0
	if o := resp.IsEdns0(); o != nil {
		nopt = len(o.Option)
	}
	f["response_ede_codes"] = edeCodes(resp)
	f["response_option_count"] = nopt
	f["ede_text"] = cache.VerifC13EDEText()
	return f
}

func edeCodes(m *dns.Msg) []int {
	out := []int{}
	if o := m.IsEdns0(); o != nil {
		for _, e := range o.Option {
			if x, ok := e.(*dns.EDNS0_EDE); ok {
				out = append(out, int(x.InfoCode))
			}
		}
	}
	return out
}

func i63(r *vlib.R, n int64) int64 {
	if n <= 0 {
		return 0
	}
	return int64(r.U64() % uint64(n))
}
