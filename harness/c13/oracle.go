//go:build verif

package main

// Independent reference for C13. It never calls the functions under test to
// decide anything; it re-derives from the op history what the property text
// allows:
//
//   * a question hit must be for exactly the asked name (label for label,
//     case-insensitively), type, class, CD and normalised ECS audience;
//   * a zone hit must name a zone that is a label-wise ancestor-or-self of
//     the asked name, same class;
//   * either is justified only by an actual recorded failure of exactly that
//     question / zone since the last success, and only inside the envelope
//     failTime_i + min(max, min·2^i) (i = consecutive failure index), never
//     past the 5 minute ceiling;
//   * a record starts at min, never more than doubles, stays in [min, max],
//     and a record during an active generation changes nothing.
//
// Names are decoded by a forward scanner over the presentation escapes
// (miekg counts backslashes backwards — a different algorithm).

import (
	"fmt"
	"net/netip"
	"strings"
	"time"

	"github.com/miekg/dns"
	"github.com/semihalev/sdns/middleware/cache"
)

const ceilingNS = int64(5 * time.Minute)

func isDigit(b byte) bool { return b >= '0' && b <= '9' }

func foldB(b byte) byte {
	if b >= 'A' && b <= 'Z' {
		return b + 32
	}
	return b
}

// scanName walks a presentation name: the decoded (folded) labels and the
// byte offsets at which a new label starts. ok=false for a dangling
// backslash or an empty interior label (nothing the wire can produce).
func scanName(s string) (labels []string, starts []int, fq bool, ok bool) {
	if s == "." {
		return nil, nil, true, true
	}
	var cur []byte
	starts = []int{0}
	i := 0
	fq = false
	for i < len(s) {
		c := s[i]
		switch {
		case c == '\\':
			if i+1 >= len(s) {
				return nil, nil, false, false
			}
			if i+3 < len(s) && isDigit(s[i+1]) && isDigit(s[i+2]) && isDigit(s[i+3]) {
				v := int(s[i+1]-'0')*100 + int(s[i+2]-'0')*10 + int(s[i+3]-'0')
				if v > 255 {
					return nil, nil, false, false
				}
				cur = append(cur, foldB(byte(v)))
				i += 4
			} else {
				cur = append(cur, foldB(s[i+1]))
				i += 2
			}
			fq = false
		case c == '.':
			if len(cur) == 0 {
				return nil, nil, false, false
			}
			labels = append(labels, string(cur))
			cur = nil
			i++
			fq = true
			if i < len(s) {
				starts = append(starts, i)
			}
		default:
			cur = append(cur, foldB(c))
			i++
			fq = false
		}
	}
	if len(cur) > 0 {
		labels = append(labels, string(cur))
	}
	return labels, starts, fq, true
}

// canonRaw: the folded, rooted spelling (what identifies retained state).
func canonRaw(s string) (string, bool) {
	_, _, fq, ok := scanName(s)
	if !ok {
		return "", false
	}
	if !fq {
		s += "."
	}
	b := []byte(s)
	for i := range b {
		b[i] = foldB(b[i])
	}
	return string(b), true
}

// ancestorsRaw: the rooted spellings of the name itself, each parent and the root.
func ancestorsRaw(s string) ([]string, bool) {
	c, ok := canonRaw(s)
	if !ok {
		return nil, false
	}
	_, starts, _, ok := scanName(c)
	if !ok {
		return nil, false
	}
	var out []string
	for _, st := range starts {
		out = append(out, c[st:])
	}
	if c != "." {
		out = append(out, ".")
	}
	return out, true
}

func labelsSuffix(zone, name []string) bool {
	if len(zone) > len(name) {
		return false
	}
	off := len(name) - len(zone)
	for i := range zone {
		if zone[i] != name[off+i] {
			return false
		}
	}
	return true
}

func normScope(p netip.Prefix) string {
	if !p.IsValid() || p.Bits() == 0 {
		return "-"
	}
	return p.Masked().String()
}

type refKeyT struct {
	kind   byte
	name   string
	qtype  uint16
	qclass uint16
	cd     bool
	scope  string
	bad    bool
}

func refQ(k cache.FailureQuestionKey) refKeyT {
	c, ok := canonRaw(k.Question.Name)
	return refKeyT{kind: 'q', name: c, qtype: k.Question.Qtype, qclass: k.Question.Qclass, cd: k.CD, scope: normScope(k.Scope), bad: !ok}
}

func refZ(k cache.FailureZoneKey) refKeyT {
	c, ok := canonRaw(k.Zone)
	return refKeyT{kind: 'z', name: c, qclass: k.Qclass, bad: !ok}
}

type refSt struct {
	fails   []int64 // start of every backoff generation since the last success
	seedEnd int64
	seedGen int // a seeded state stands for this many earlier consecutive failures
	lastRA  int64
	lastTTL int64
}

type refT struct{ m map[refKeyT]*refSt }

func newRef() *refT { return &refT{m: map[refKeyT]*refSt{}} }

var ref = newRef()

func (r *refT) get(k refKeyT) *refSt {
	s := r.m[k]
	if s == nil {
		s = &refSt{}
		r.m[k] = s
	}
	return s
}

func capMax() int64 {
	if cfgMax > ceilingNS {
		return ceilingNS
	}
	return cfgMax
}

// envelope: the latest instant the history allows suppression to last.
func (s *refSt) envelope() int64 {
	end := s.seedEnd
	for i, t := range s.fails {
		allow := cfgMin
		for g := i + s.seedGen; g > 0 && allow < capMax(); g-- {
			allow *= 2
		}
		if allow > capMax() {
			allow = capMax()
		}
		if t+allow > end {
			end = t + allow
		}
	}
	return end
}

// retained state for exactly key k at its own slot, as the implementation
// holds it right now (observation, used to tell first / active / renewal).
func preState(k refKeyT, hash uint64) (ra int64, streak uint32, ok bool) {
	for _, e := range cache.VerifC13Entries(fc) {
		if e.Hash != hash {
			continue
		}
		switch {
		case k.kind == 'q' && e.Kind == cache.FailureKindQuestion:
			if refQ(e.Question) == k {
				return e.RetryAfter.UnixNano(), e.Streak, true
			}
		case k.kind == 'z' && e.Kind == cache.FailureKindZone:
			if refZ(e.Zone) == k {
				return e.RetryAfter.UnixNano(), e.Streak, true
			}
		}
	}
	return 0, 0, false
}

var (
	preRA     int64
	preStreak uint32
	preOK     bool
)

// observe must be called before a record op.
func (r *refT) observe(k refKeyT, hash uint64) {
	preRA, preStreak, preOK = preState(k, hash)
	recObserved = true
}

// recorded judges what a record op returned (nowNS is the record time).
func (r *refT) recorded(k refKeyT, h cache.FailureHit, entry string) string {
	if k.bad {
		return "-"
	}
	s := r.get(k)
	ra := h.RetryAfter.UnixNano()
	ttl := ra - nowNS
	defer func() { recObserved = false }()
	if recObserved && preOK && nowNS < preRA {
		if ra != preRA || h.Streak != preStreak {
			return fmt.Sprintf("FAIL sig=%s/record/active-generation-changed was=%d now=%d", entry, preRA, ra)
		}
		return "ok"
	}
	if !recObserved && s.lastRA != 0 && nowNS < s.lastRA && ra == s.lastRA {
		return "ok" // store-level record inside the generation it created earlier
	}
	switch {
	case ttl < cfgMin:
		return fmt.Sprintf("FAIL sig=%s/record/backoff-below-min ttl=%d", entry, ttl)
	case ttl > ceilingNS:
		return fmt.Sprintf("FAIL sig=%s/record/backoff-above-ceiling ttl=%d", entry, ttl)
	case ttl > cfgMax:
		return fmt.Sprintf("FAIL sig=%s/record/backoff-above-max ttl=%d", entry, ttl)
	}
	if recObserved && !preOK {
		if ttl != cfgMin {
			return fmt.Sprintf("FAIL sig=%s/record/first-failure-not-min ttl=%d", entry, ttl)
		}
		if h.Streak != 1 {
			return fmt.Sprintf("FAIL sig=%s/record/first-failure-streak streak=%d", entry, h.Streak)
		}
	}
	if len(s.fails) == 0 && s.seedEnd == 0 && ttl != cfgMin {
		return fmt.Sprintf("FAIL sig=%s/record/backoff-not-reset-after-success ttl=%d", entry, ttl)
	}
	if recObserved && preOK {
		if uint64(h.Streak) > uint64(preStreak)+1 {
			return fmt.Sprintf("FAIL sig=%s/record/streak-jumped %d->%d", entry, preStreak, h.Streak)
		}
		if s.lastRA == preRA && s.lastTTL > 0 && ttl > 2*s.lastTTL {
			return fmt.Sprintf("FAIL sig=%s/record/more-than-doubles prev=%d ttl=%d", entry, s.lastTTL, ttl)
		}
	}
	s.fails = append(s.fails, nowNS)
	s.lastRA, s.lastTTL = ra, ttl
	return "ok"
}

var recObserved bool

func (r *refT) seeded(k refKeyT, ra int64, streak uint32) {
	if k.bad {
		return
	}
	s := r.get(k)
	if ra > s.seedEnd {
		s.seedEnd = ra
	}
	if int(streak) > s.seedGen || streak > 1<<20 {
		s.seedGen = 64
		if streak < 64 {
			s.seedGen = int(streak)
		}
	}
	s.lastRA, s.lastTTL = 0, 0
}

func (r *refT) resetQ(k cache.FailureQuestionKey) { delete(r.m, refQ(k)) }
func (r *refT) resetZ(k cache.FailureZoneKey)     { delete(r.m, refZ(k)) }

func (r *refT) resetMatching(k cache.FailureQuestionKey) {
	delete(r.m, refQ(k))
	anc, ok := ancestorsRaw(k.Question.Name)
	if !ok {
		return
	}
	for _, z := range anc {
		delete(r.m, refKeyT{kind: 'z', name: z, qclass: k.Question.Qclass})
	}
}

func (r *refT) purge(q dns.Question) {
	c, ok := canonRaw(q.Name)
	if !ok {
		return
	}
	for k := range r.m {
		if k.name != c || k.qclass != q.Qclass {
			continue
		}
		if k.kind == 'z' || k.qtype == q.Qtype {
			delete(r.m, k)
		}
	}
}

// afterSuccess: right after a useful answer for k nothing may suppress k
// through state that answer covered (its exact question, zones above it).
func (r *refT) afterSuccess(k cache.FailureQuestionKey, entry string) string {
	if refQ(k).bad {
		return "-"
	}
	h, ok := fc.Lookup(k)
	if !ok {
		if _, retry := fc.RetryKey(k); retry {
			return "FAIL sig=" + entry + "/success/retry-generation-survives"
		}
		return "ok"
	}
	return fmt.Sprintf("FAIL sig=%s/success/still-suppressed kind=%d", entry, h.Kind)
}

func (r *refT) storeWrite(before int, entry string) string {
	if !enabled && fc.Len() != before {
		return "FAIL sig=store/" + entry + "/disabled-but-state-changed"
	}
	return "ok"
}

func (r *refT) justify(k refKeyT, ra int64, entry, what string) string {
	s := r.m[k]
	if s == nil || (len(s.fails) == 0 && s.seedEnd == 0) {
		return fmt.Sprintf("FAIL sig=%s/%s/no-failure-of-this-since-last-success", entry, what)
	}
	end := s.envelope()
	if nowNS >= end {
		return fmt.Sprintf("FAIL sig=%s/%s/suppressed-past-backoff-envelope end=%d now=%d", entry, what, end, nowNS)
	}
	if ra > end {
		return fmt.Sprintf("FAIL sig=%s/%s/retry-after-past-envelope end=%d ra=%d", entry, what, end, ra)
	}
	return "ok"
}

func (r *refT) judgeHit(askLabels []string, askRaw string, qtype, qclass uint16, cd bool, scope string, h cache.FailureHit, entry string) string {
	ra := h.RetryAfter.UnixNano()
	if nowNS >= ra {
		return fmt.Sprintf("FAIL sig=%s/hit-at-or-after-retry-after ra=%d now=%d", entry, ra, nowNS)
	}
	switch h.Kind {
	case cache.FailureKindQuestion:
		hk := refQ(h.Question)
		if hk.bad {
			return "-"
		}
		hl, _, _, _ := scanName(h.Question.Question.Name)
		dim := ""
		switch {
		case !labelsSuffix(hl, askLabels) || len(hl) != len(askLabels):
			dim = "name"
		case h.Question.Question.Qtype != qtype:
			dim = "type"
		case h.Question.Question.Qclass != qclass:
			dim = "class"
		case h.Question.CD != cd:
			dim = "cd"
		case hk.scope != scope:
			dim = "audience"
		}
		if dim != "" {
			return fmt.Sprintf("FAIL sig=%s/question-hit-for-other-%s", entry, dim)
		}
		return r.justify(refKeyT{kind: 'q', name: askRaw, qtype: qtype, qclass: qclass, cd: cd, scope: scope}, ra, entry, "question-hit")
	case cache.FailureKindZone:
		zk := refZ(h.Zone)
		if zk.bad {
			return "-"
		}
		zl, _, _, _ := scanName(h.Zone.Zone)
		if !labelsSuffix(zl, askLabels) {
			return fmt.Sprintf("FAIL sig=%s/zone-hit-not-an-ancestor", entry)
		}
		if h.Zone.Qclass != qclass {
			return fmt.Sprintf("FAIL sig=%s/zone-hit-other-class", entry)
		}
		return r.justify(zk, ra, entry, "zone-hit")
	}
	return "FAIL sig=" + entry + "/hit-of-unknown-kind"
}

func (r *refT) judgeLookup(k cache.FailureQuestionKey, h cache.FailureHit, ok bool, entry string) string {
	if !ok {
		return "ok"
	}
	raw, good := canonRaw(k.Question.Name)
	if !good {
		return "-"
	}
	labels, _, _, _ := scanName(raw)
	return r.judgeHit(labels, raw, k.Question.Qtype, k.Question.Qclass, k.CD, normScope(k.Scope), h, entry)
}

// wireLabels decodes an uncompressed wire name.
func wireLabels(w []byte) ([][]byte, bool) {
	var out [][]byte
	i := 0
	for {
		if i >= len(w) {
			return nil, false
		}
		c := int(w[i])
		i++
		if c == 0 {
			break
		}
		if c > 63 || i+c > len(w) {
			return nil, false
		}
		out = append(out, w[i:i+c])
		i += c
	}
	if i != len(w) || len(w) > 255 {
		return nil, false
	}
	return out, true
}

// presentLabels spells wire labels the way a decoder would hand them to the
// cache (RFC 1035 master-file escapes).
func presentLabels(ls [][]byte) string {
	if len(ls) == 0 {
		return "."
	}
	var sb strings.Builder
	for _, l := range ls {
		for _, b := range l {
			switch {
			case strings.IndexByte(". '@;()\"\\", b) >= 0:
				sb.WriteByte('\\')
				sb.WriteByte(b)
			case b < 0x20 || b > 0x7e:
				fmt.Fprintf(&sb, "\\%03d", b)
			default:
				sb.WriteByte(b)
			}
		}
		sb.WriteByte('.')
	}
	return sb.String()
}

func (r *refT) judgeLookupWire(w []byte, qtype, qclass uint16, cd bool, h cache.FailureHit, ok bool, entry string) string {
	if !ok {
		return "ok"
	}
	ls, good := wireLabels(w)
	if !good {
		// a malformed wire name identifies nothing: only a zone state for a
		// well-formed suffix could be justified, which we do not attempt.
		return "-"
	}
	raw, good := canonRaw(presentLabels(ls))
	if !good {
		return "-"
	}
	labels, _, _, _ := scanName(raw)
	return r.judgeHit(labels, raw, qtype, qclass, cd, "-", h, entry)
}

// audit: every retained state must be explainable by the history (kept as an
// op so shrinking can keep it as the failing line).
func (r *refT) audit() string {
	for _, e := range cache.VerifC13Entries(fc) {
		ra := e.RetryAfter.UnixNano()
		var k refKeyT
		own := uint64(0)
		if e.Kind == cache.FailureKindQuestion {
			k = refQ(e.Question)
			own = cache.VerifC13QuestionHash(e.Question)
		} else {
			k = refZ(e.Zone)
			own = cache.VerifC13ZoneHash(e.Zone)
		}
		if k.bad || own != e.Hash {
			continue // under a foreign key it can never be served
		}
		s := r.m[k]
		if s == nil {
			if ra > nowNS {
				return "FAIL sig=audit/active-state-without-recorded-failure"
			}
			continue
		}
		if end := s.envelope(); ra > end && ra > nowNS {
			return fmt.Sprintf("FAIL sig=audit/retained-retry-after-past-envelope ra=%d end=%d", ra, end)
		}
	}
	return "ok"
}

// ---- backoff envelope straight from the property text

func oracleBackoffPoint(c *cache.FailureCache, mn, mx int64, streak uint64, got int64) string {
	switch {
	case got < mn:
		return fmt.Sprintf("FAIL sig=backoff/below-min streak=%d got=%d", streak, got)
	case got > mx:
		return fmt.Sprintf("FAIL sig=backoff/above-max streak=%d got=%d", streak, got)
	case got > ceilingNS:
		return fmt.Sprintf("FAIL sig=backoff/above-ceiling streak=%d got=%d", streak, got)
	case streak <= 1 && got != mn:
		return fmt.Sprintf("FAIL sig=backoff/first-not-min got=%d", got)
	}
	if streak >= 2 && streak < 1<<32 {
		prev := int64(cache.VerifC13Backoff(c, uint32(streak-1)))
		if got > 2*prev {
			return fmt.Sprintf("FAIL sig=backoff/more-than-doubles streak=%d prev=%d got=%d", streak, prev, got)
		}
	}
	return "ok"
}

func oracleBackoffSweep(c *cache.FailureCache, mn, mx int64) string {
	for s := uint64(0); s <= 72; s++ {
		if o := oracleBackoffPoint(c, mn, mx, s, int64(cache.VerifC13Backoff(c, uint32(s)))); o != "ok" {
			return o
		}
	}
	return "ok"
}
