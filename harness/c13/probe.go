//go:build verif

package main

// fail probe <now> <n> then n × <name type class cd scope>
// n clients arrive TOGETHER at the real Cache.ServeDNS while the upstream is
// held: every leader the single-flight elects is parked in the scripted
// upstream, everybody else waits for its leader. The number of parked leaders
// is the number of distinct dedup keys ServeDNS derived — for requests behind
// an expired failure that must be ONE per retained generation (the closest
// zone's, else the exact question's), whatever their names, types, CD bits
// and ECS audiences. The held upstream then fails request-locally, so the op
// leaves no state behind.

import (
	"context"
	"fmt"
	"sync"
	"sync/atomic"
	"time"

	"github.com/miekg/dns"
	"github.com/semihalev/sdns/internal/mock"
	"github.com/semihalev/sdns/internal/verif/vlib"
	"github.com/semihalev/sdns/middleware"
	"github.com/semihalev/sdns/middleware/cache"
)

type heldUpstream struct {
	arrived   atomic.Int32
	release   chan struct{}
	shareable bool // answer with an ordinary (shareable) SERVFAIL instead of a request-local one
}

func (u *heldUpstream) Name() string { return "held-upstream" }
func (u *heldUpstream) ServeDNS(ctx context.Context, ch *middleware.Chain) {
	u.arrived.Add(1)
	<-u.release
	res := new(dns.Msg)
	res.SetRcode(ch.Request.Msg(), dns.RcodeServerFailure)
	if !u.shareable {
		ctx, _ = middleware.EnsureResolutionAttemptGuard(ctx)
		middleware.MarkRequestLocalFailureResponse(ctx, res, middleware.ErrResolutionAttemptLimit)
	}
	_ = ch.Writer.WriteMsg(res)
	ch.Cancel()
}

func execProbe(a []string) vlib.Res {
	setNow(a[0])
	n := vlib.Atoi(a[1])
	var keys []cache.FailureQuestionKey
	for i := 0; i < n; i++ {
		keys = append(keys, parseQ(a[2+5*i:7+5*i]))
	}
	before := snapshot()
	// reference: which retained generation each request stands behind
	groups := map[string]bool{}
	hitsWant := 0
	for _, k := range keys {
		cache.VerifC13ForgetAnswersScoped(full, k.Question, k.Scope)
		if _, ok := fc.Lookup(k); ok && enabled {
			hitsWant++
			continue
		}
		groups[probeGroup(k)] = true
	}
	up := &heldUpstream{release: make(chan struct{})}
	var finished atomic.Int32
	var wg sync.WaitGroup
	for i, k := range keys {
		wg.Add(1)
		go func(i int, k cache.FailureQuestionKey) {
			defer wg.Done()
			defer finished.Add(1)
			ch := middleware.NewChain([]middleware.Handler{full, up})
			w := mock.NewWriter("udp", fmt.Sprintf("192.0.2.%d:4242", 10+i))
			req := newReq(k)
			if k.Scope.IsValid() {
				req.SetEdns0(1232, false)
				req.IsEdns0().Option = append(req.IsEdns0().Option, ecsOption(k.Scope, 0))
			}
			ch.Reset(w, req)
			ctx, cancel := context.WithTimeout(context.Background(), 20*time.Second)
			defer cancel()
			ch.Next(ctx)
		}(i, k)
	}
	// settle: every request is either finished (served from the failure cache),
	// parked in the upstream (a leader) or waiting for a leader
	stable, last := 0, int32(-1)
	for t := 0; t < 400 && stable < 12; t++ {
		time.Sleep(5 * time.Millisecond)
		cur := up.arrived.Load()*1000 + finished.Load()
		if cur == last && up.arrived.Load()+finished.Load() > 0 {
			stable++
		} else {
			stable = 0
		}
		last = cur
	}
	leaders, hits := int(up.arrived.Load()), int(finished.Load())
	close(up.release)
	wg.Wait()
	for _, k := range keys {
		cache.VerifC13ForgetAnswersScoped(full, k.Question, k.Scope)
	}
	or := "ok"
	switch {
	case leaders > len(groups):
		or = fmt.Sprintf("FAIL sig=probe/more-than-one-probe-leader-per-generation leaders=%d generations=%d", leaders, len(groups))
	case enabled && hits < hitsWant:
		or = "FAIL sig=probe/active-failure-went-upstream"
	case snapshot() != before:
		or = "FAIL sig=probe/request-local-probe-failure-became-shared-state"
	}
	return vlib.Res{Impl: fmt.Sprintf("leaders=%d hits=%d", leaders, hits), Oracle: or, Tags: "nt"}
}

// probeGroup names the retained generation a request must join: the closest
// zone with retained (verified) state on its path in its class, else its own
// exact question and audience. Independent of RetryKey: label-wise ancestors
// from the oracle's own scanner, state from the entry listing.
func probeGroup(k cache.FailureQuestionKey) string {
	exact := fmt.Sprintf("q/%v", refQ(k))
	if !enabled {
		return exact
	}
	anc, ok := ancestorsRaw(k.Question.Name)
	if !ok {
		return exact
	}
	zones := map[string]bool{}
	for _, e := range cache.VerifC13Entries(fc) {
		if e.Kind == cache.FailureKindZone && e.Zone.Qclass == k.Question.Qclass && e.Hash == cache.VerifC13ZoneHash(e.Zone) {
			if zc, good := canonRaw(e.Zone.Zone); good {
				zones[zc] = true
			}
		}
	}
	for _, z := range anc {
		if zones[z] {
			return "z/" + z
		}
	}
	return exact
}

// fail cohort <now> <n> <name type class cd scope>
// n identical requests arrive together; the one leader's resolution ends in an
// ordinary SERVFAIL, which is recorded. The followers wake up inside the
// backoff that has just begun: they must be answered from the failure cache
// (SERVFAIL, EDE 13) — the upstream is asked exactly once for the whole cohort.
func execCohort(a []string) vlib.Res {
	setNow(a[0])
	n := vlib.Atoi(a[1])
	k := parseQ(a[2:7])
	cache.VerifC13ForgetAnswersScoped(full, k.Question, k.Scope)
	_, preOK := fc.Lookup(k)
	ref.observe(refQ(k), cache.VerifC13QuestionHash(k))
	up := &heldUpstream{release: make(chan struct{}), shareable: true}
	var finished atomic.Int32
	var wg sync.WaitGroup
	replies := make([]*dns.Msg, n)
	for i := 0; i < n; i++ {
		wg.Add(1)
		go func(i int) {
			defer wg.Done()
			defer finished.Add(1)
			ch := middleware.NewChain([]middleware.Handler{full, up})
			w := mock.NewWriter("udp", fmt.Sprintf("192.0.2.%d:4242", 10+i))
			req := newReq(k)
			req.SetEdns0(1232, false)
			if k.Scope.IsValid() {
				req.IsEdns0().Option = append(req.IsEdns0().Option, ecsOption(k.Scope, 0))
			}
			ch.Reset(w, req)
			ctx, cancel := context.WithTimeout(context.Background(), 20*time.Second)
			defer cancel()
			ch.Next(ctx)
			replies[i] = w.Msg()
		}(i)
	}
	stable, last := 0, int32(-1)
	for t := 0; t < 400 && stable < 12; t++ {
		time.Sleep(5 * time.Millisecond)
		cur := up.arrived.Load()*1000 + finished.Load()
		if cur == last && up.arrived.Load()+finished.Load() > 0 {
			stable++
		} else {
			stable = 0
		}
		last = cur
	}
	close(up.release)
	wg.Wait()
	cache.VerifC13ForgetAnswersScoped(full, k.Question, k.Scope)
	calls := int(up.arrived.Load())
	ede13 := 0
	for _, m := range replies {
		if m != nil {
			for _, c := range edeCodes(m) {
				if c == 13 {
					ede13++
				}
			}
		}
	}
	h, ok := fc.Lookup(k)
	or := "ok"
	switch {
	case enabled && preOK && calls > 0:
		or = "FAIL sig=cohort/active-failure-went-upstream"
	case enabled && calls > 1:
		or = fmt.Sprintf("FAIL sig=cohort/followers-went-upstream-inside-the-leaders-backoff upstream=%d of %d", calls, n)
	case enabled && ok && h.Kind == cache.FailureKindQuestion && !preOK:
		or = ref.recorded(refQ(k), h, "cohort")
	}
	if !enabled {
		// with the switch off nothing is shared: every waiter may ask for itself
		return vlib.Res{Impl: fmt.Sprintf("disabled len=%d", fc.Len()), Oracle: ref.storeWrite(fc.Len(), "cohort"), Tags: "nt"}
	}
	return vlib.Res{Impl: fmt.Sprintf("upstream=%d len=%d %s", calls, fc.Len(), fmtLookup(h, ok)), Oracle: or, Tags: "nt"}
}
