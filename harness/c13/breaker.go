//go:build verif

package main

// fail cb new | fail cb <advance s> <can|fail|ok|clean> [server]
// The resolver's per-address circuit breaker (middleware/resolver/
// circuit_breaker.go) driven through accessors. The breaker reads the wall
// clock; a clock advance is emulated by moving every stored lastFailure into
// the past. An open breaker makes Resolver.lookup treat the address as failed
// without asking it — which is how a zone failure can be published for
// servers nobody asked — so what it may refuse is part of C13: only an address
// with five failures in a row and no success since, and only for 30 s after
// the last of them.

import (
	"fmt"
	"time"

	"github.com/semihalev/sdns/internal/verif/vlib"
	"github.com/semihalev/sdns/middleware/resolver"
)

type cbRef struct {
	streak  int   // consecutive failures since the last success / re-admission
	elapsed int64 // whole seconds since the last failure
	seen    bool
}

var (
	cbReal *resolver.VerifC13CB
	cbHist map[string]*cbRef
)

func execCB(a []string) vlib.Res {
	if a[0] == "new" {
		cbReal = resolver.VerifC13NewCB()
		cbHist = map[string]*cbRef{}
		return vlib.Res{Impl: "ok"}
	}
	if cbReal == nil {
		return vlib.Res{Impl: "nocb"}
	}
	adv := vlib.AtoI64(a[0])
	if adv > 0 {
		cbReal.Shift(adv)
		for _, h := range cbHist {
			h.elapsed += adv
		}
	}
	srv := ""
	if len(a) > 2 {
		srv = a[2]
	}
	h := cbHist[srv]
	if h == nil && srv != "" {
		h = &cbRef{}
		cbHist[srv] = h
	}
	state := func() string {
		c, d, ok := cbReal.State(srv)
		if !ok {
			return "none"
		}
		return fmt.Sprintf("count=%d disabled=%s", c, vlib.B(d))
	}
	switch a[1] {
	case "can":
		got := cbReal.CanQuery(srv)
		or := "ok"
		switch {
		case !got && h.streak < 5:
			or = fmt.Sprintf("FAIL sig=cb/refused-without-five-consecutive-failures streak=%d", h.streak)
		case !got && h.elapsed > 30:
			or = fmt.Sprintf("FAIL sig=cb/refused-more-than-30s-after-the-last-failure elapsed=%d", h.elapsed)
		}
		if got && h.seen && h.streak >= 5 && h.elapsed >= 30 {
			h.streak = 0 // re-admitted: the count starts over
		}
		return vlib.Res{Impl: vlib.B(got) + " " + state(), Oracle: or, Tags: "nt"}
	case "fail":
		cbReal.RecordFailure(srv)
		h.streak++
		h.elapsed = 0
		h.seen = true
		return vlib.Res{Impl: state(), Oracle: "ok", Tags: "nt"}
	case "ok":
		cbReal.RecordSuccess(srv)
		h.streak = 0
		or := "ok"
		if !cbReal.CanQuery(srv) {
			or = "FAIL sig=cb/refused-right-after-a-success"
		}
		return vlib.Res{Impl: state(), Oracle: or, Tags: "nt"}
	case "clean":
		cbReal.CleanupOnce(time.Now().Unix())
		for s, x := range cbHist {
			if x.elapsed > 300 {
				delete(cbHist, s)
			}
		}
		return vlib.Res{Impl: fmt.Sprintf("len=%d", cbReal.Len()), Oracle: "ok", Tags: "nt"}
	}
	return vlib.Res{Impl: "bad-op"}
}
