//go:build verif

package main

// fail qs <outcome>
// ONE upstream attempt through the real Resolver.queryServer against a scripted
// loopback authority; what it feeds to the per-address circuit breaker is read
// back from the live resolver's breaker. Only authority-side evidence may count:
// a reply of any rcode closes the breaker for the address, silence / a
// connection error while the request is still live counts as a failure, and an
// attempt refused or cut short for the request tree's own reasons (attempt
// limit, work budget, cancellation, client deadline) counts as nothing.

import (
	"context"
	"fmt"
	"net"
	"strings"
	"time"

	"github.com/miekg/dns"
	"github.com/semihalev/sdns/config"
	"github.com/semihalev/sdns/internal/verif/l3"
	"github.com/semihalev/sdns/internal/verif/vlib"
	"github.com/semihalev/sdns/middleware"
	"github.com/semihalev/sdns/middleware/resolver"
)

var (
	qsPipe *l3.Pipe
	qsSrv  *l3.Server
	qsSeq  int
)

func execQS(a []string) vlib.Res {
	if qsPipe == nil {
		w := l3.NewWorld(false)
		z := w.AddZone("qs.", l3.ZoneOpts{})
		z.Add("*.qs. 60 IN A 192.0.2.99")
		qsSrv = z.Servers[0]
		qsPipe = l3.NewPipe(w, l3.PipeOpts{Tweak: func(cfg *config.Config) {
			cfg.Timeout.Duration = 250 * time.Millisecond
		}})
	}
	outcome := a[0]
	addr := net.JoinHostPort(qsSrv.IP.String(), "53")
	cb := resolver.VerifC13CBOf(qsPipe.Resolver)
	// a known starting point for this address: two failures on record
	cb.RecordFailure(addr)
	cb.RecordSuccess(addr)
	cb.RecordFailure(addr)
	cb.RecordFailure(addr)
	qsSeq++
	req := new(dns.Msg)
	req.SetQuestion(fmt.Sprintf("n%d.qs.", qsSeq), dns.TypeA)
	req.RecursionDesired = false
	ctx, _ := middleware.EnsureResolutionAttemptGuard(context.Background())
	var work *middleware.RecursionWorkLedger
	cancel := func() {}
	switch {
	case strings.HasPrefix(outcome, "reply"):
		rc := vlib.Atoi(outcome[5:])
		qsSrv.SetBehaviour(l3.Behaviour{Rcode: func(dns.Question) int {
			if rc == 0 {
				return -1
			}
			return rc
		}})
	default:
		qsSrv.SetBehaviour(l3.Behaviour{Drop: func(dns.Question, bool) bool { return true }})
	}
	switch outcome {
	case "attempt": // the request tree already spent its three attempts on this tuple
		for i := 0; i < 4; i++ {
			_ = middleware.BeginResolutionAttempt(ctx, req.Question[0], addr, "udp")
		}
		qsSrv.SetBehaviour(l3.Behaviour{})
	case "work": // the tree's outbound budget is exhausted
		work = middleware.NewRecursionWorkLedger(middleware.RecursionWorkPolicy{Mode: middleware.RecursionWorkEnforce, MaxOutboundQueries: 1})
		_ = work.Debit(middleware.RecursionWorkOutboundQuery)
		ctx = middleware.WithRecursionWork(ctx, work)
		qsSrv.SetBehaviour(l3.Behaviour{})
	case "ended": // cancelled before the attempt starts
		var c context.CancelFunc
		ctx, c = context.WithCancel(ctx)
		c()
	case "pastdeadline":
		ctx = pastDeadlineCtx{ctx}
	case "cancelmid": // the client goes away while the (silent) server is being waited for
		var c context.CancelFunc
		ctx, c = context.WithCancel(ctx)
		cancel = c
		time.AfterFunc(60*time.Millisecond, c)
	case "deadlinemid": // the client's own deadline passes first
		ctx, cancel = context.WithTimeout(ctx, 60*time.Millisecond)
	}
	defer cancel()
	resp, err, sent := resolver.VerifC13QueryServer(qsPipe.Resolver, ctx, work, req, addr)
	count, disabled, _ := cb.State(addr)
	feed := "none"
	switch {
	case count == 3:
		feed = "failure"
	case count == 0:
		feed = "success"
	case count != 2:
		feed = fmt.Sprintf("count=%d", count)
	}
	cb.RecordSuccess(addr)
	// the oracle, from the property text: local causes are no evidence about the authority
	or := "ok"
	local := outcome == "attempt" || outcome == "work" || outcome == "ended" || outcome == "pastdeadline" || outcome == "cancelmid" || outcome == "deadlinemid"
	switch {
	case local && feed == "failure":
		or = "FAIL sig=qs/request-local-outcome-counted-against-the-authority outcome=" + outcome
	case strings.HasPrefix(outcome, "reply") && feed != "success":
		or = "FAIL sig=qs/a-reply-did-not-close-the-breaker outcome=" + outcome
	case disabled:
		or = "FAIL sig=qs/breaker-opened-by-one-attempt"
	}
	res := "nothing"
	switch {
	case sent && err != nil:
		res = "err"
	case sent && resp != nil:
		res = fmt.Sprintf("resp:%d", resp.Rcode)
	}
	if local && res == "err" || local && res == "nothing" {
		res = "local"
	}
	return vlib.Res{Impl: fmt.Sprintf("feed=%s result=%s", feed, res), Oracle: or, Tags: "nt"}
}
