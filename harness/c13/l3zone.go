//go:build verif

package main

// System-level scenario for "a zone failure only if EVERY server of the zone
// failed": the real edns → cache → resolver pipeline against loopback
// authorities (harness/l3). The zone multi.test. has one server per entry of
// the behaviour list; the scripted result loop of Resolver.lookup — which the
// Lean model only transcribes — is what runs here.

import (
	"context"
	"fmt"
	"strings"
	"sync"
	"sync/atomic"
	"time"

	"github.com/miekg/dns"
	"github.com/semihalev/sdns/config"
	"github.com/semihalev/sdns/internal/mock"
	"github.com/semihalev/sdns/internal/verif/l3"
	"github.com/semihalev/sdns/internal/verif/vlib"
	"github.com/semihalev/sdns/middleware"
	"github.com/semihalev/sdns/middleware/cache"
	"github.com/semihalev/sdns/middleware/resolver"
)

const (
	l3Timeout      = 2 * time.Second // per upstream exchange: far above every scripted delay
	l3QueryTimeout = 10 * time.Second
)

// recStore sits between the resolver and the cache's Store and notes what the
// resolver PUBLISHES (a later useful reply of the same request resets the
// state again, so the retained state alone would hide a wrong record).
type recStore struct {
	inner  *cache.Store
	mu     sync.Mutex
	record []string
	clear  []string
}

func (s *recStore) Get(req *dns.Msg) (*dns.Msg, bool) { return s.inner.Get(req) }
func (s *recStore) GetWithContext(ctx context.Context, req *dns.Msg) (*dns.Msg, bool) {
	return s.inner.GetWithContext(ctx, req)
}
func (s *recStore) SetFromResponse(resp *dns.Msg, keyCD bool, cutUntil time.Time) {
	s.inner.SetFromResponse(resp, keyCD, cutUntil)
}
func (s *recStore) SetFromResponseWithCut(resp *dns.Msg, keyCD bool, cutUntil time.Time, cutKey uint64) {
	s.inner.SetFromResponseWithCut(resp, keyCD, cutUntil, cutKey)
}
func (s *recStore) RecordZoneFailure(q dns.Question, zone string) {
	s.mu.Lock()
	s.record = append(s.record, strings.ToLower(zone))
	s.mu.Unlock()
	s.inner.RecordZoneFailure(q, zone)
}
func (s *recStore) ClearZoneFailure(q dns.Question, zone string) {
	s.mu.Lock()
	s.clear = append(s.clear, strings.ToLower(zone))
	s.mu.Unlock()
	s.inner.ClearZoneFailure(q, zone)
}

type l3Result struct {
	published []string // zones the resolver published as failed during the first query
	rcode     int
	answered  bool
	zones     []string // zone failure states retained afterwards
	sibling   int      // rcode of the follow-up sibling query (-1 none)
	sibEDE13  bool
	sibAsked  bool // the sibling query reached some server of the zone
	healthyUp bool
	denied    bool // some server stated a denial (NXDOMAIN): a usable response
}

// behaviours: s servfail, r refused, n notimp, d drop, h healthy after delay, f healthy at once
func runL3Zone(spec []string, delay time.Duration) l3Result {
	w := l3.NewWorld(false)
	defer w.Close()
	w.AddZone("test.", l3.ZoneOpts{})
	z := w.AddZone("multi.test.", l3.ZoneOpts{NSTTL: 3600})
	z.Add("www.multi.test. 300 IN A 192.0.2.200", "mail.multi.test. 300 IN A 192.0.2.201")
	servers := []*l3.Server{z.Servers[0]}
	for len(servers) < len(spec) {
		servers = append(servers, w.AddServer("multi.test."))
	}
	healthy, denied := false, false
	for i, b := range spec {
		rc := -1
		switch b {
		case "s":
			rc = dns.RcodeServerFailure
		case "r":
			rc = dns.RcodeRefused
		case "n":
			rc = dns.RcodeNotImplemented
		case "x":
			rc = dns.RcodeNameError
			denied = true
		}
		switch {
		case rc >= 0:
			code := rc
			servers[i].SetBehaviour(l3.Behaviour{Rcode: func(dns.Question) int { return code }})
		case b == "d":
			servers[i].SetBehaviour(l3.Behaviour{Drop: func(dns.Question, bool) bool { return true }})
		case b == "h":
			healthy = true
			servers[i].SetBehaviour(l3.Behaviour{Delay: func(dns.Question, bool) time.Duration { return delay }})
		default:
			healthy = true
		}
	}
	p := l3.NewPipe(w, l3.PipeOpts{Tweak: func(cfg *config.Config) {
		cfg.Timeout.Duration = l3Timeout
		cfg.QueryTimeout.Duration = l3QueryTimeout
	}})
	defer p.Close()
	rec := &recStore{inner: cache.VerifC13StoreOf(p.Cache)}
	p.Handler.SetStore(rec)
	res := l3Result{sibling: -1, healthyUp: healthy, denied: denied}
	if r := p.Query("www.multi.test.", dns.TypeA, l3.Flags{}); r != nil {
		res.rcode = r.Rcode
		res.answered = len(r.Answer) > 0
	} else {
		res.rcode = -1
	}
	rec.mu.Lock()
	res.published = append([]string(nil), rec.record...)
	rec.mu.Unlock()
	fcx := cache.VerifC13FailureOf(p.Cache)
	for _, e := range cache.VerifC13Entries(fcx) {
		if e.Kind == cache.FailureKindZone {
			res.zones = append(res.zones, e.Zone.Zone)
		}
	}
	if healthy {
		var before int64
		for _, s := range servers {
			before += s.UDPQueries.Load() + s.TCPQueries.Load()
		}
		if r := p.Query("mail.multi.test.", dns.TypeA, l3.Flags{}); r != nil {
			res.sibling = r.Rcode
			for _, c := range edeCodes(r) {
				if c == 13 {
					res.sibEDE13 = true
				}
			}
		}
		var after int64
		for _, s := range servers {
			after += s.UDPQueries.Load() + s.TCPQueries.Load()
		}
		res.sibAsked = after > before
	}
	return res
}

func judgeL3Zone(r l3Result) string {
	for _, z := range r.published {
		if z != "multi.test." {
			return "FAIL sig=l3zone/zone-failure-published-for-a-zone-whose-servers-are-healthy zone=" + hexName(z)
		}
	}
	if len(r.published) > 0 && (r.healthyUp || r.denied) {
		return "FAIL sig=l3zone/zone-failure-published-although-a-server-gave-a-usable-response"
	}
	for _, z := range r.zones {
		if z != "multi.test." {
			// the parents' and the root's servers are healthy in every scenario
			return "FAIL sig=l3zone/zone-failure-for-a-zone-whose-servers-are-healthy zone=" + hexName(z)
		}
	}
	if !r.healthyUp {
		return "ok" // every server failed: a zone failure MAY be recorded
	}
	switch {
	case len(r.zones) > 0:
		return "FAIL sig=l3zone/zone-failure-recorded-although-a-healthy-server-answers"
	case r.rcode != dns.RcodeSuccess || !r.answered:
		return fmt.Sprintf("FAIL sig=l3zone/servfail-although-a-healthy-server-answered-within-the-timeout rcode=%d", r.rcode)
	case r.sibEDE13 || (r.sibling != dns.RcodeSuccess && !r.sibAsked):
		return "FAIL sig=l3zone/sibling-name-suppressed-without-upstream-traffic"
	}
	return "ok"
}

// fail l3zone <behaviour csv> <delay ms>
func execL3Zone(a []string) vlib.Res {
	spec := strings.Split(a[0], ",")
	delay := time.Duration(vlib.Atoi(a[1])) * time.Millisecond
	r := runL3Zone(spec, delay)
	or := judgeL3Zone(r)
	if strings.HasPrefix(or, "FAIL") {
		// timing is never the verdict: a genuine defect fails again on a fresh world
		r2 := runL3Zone(spec, delay)
		if o2 := judgeL3Zone(r2); !strings.HasPrefix(o2, "FAIL") {
			or = "ok"
		} else {
			or = o2
		}
	}
	// what the client saw and whether the zone was published as failed: compared with
	// the model's transcription of the result loop (`lookupFold`, `resolveRecordsZone`)
	want := "failure"
	for _, b := range spec {
		if b == "x" && want == "failure" {
			want = "nxdomain"
		}
		if b == "h" || b == "f" {
			want = "answer"
		}
	}
	if l3Class(r) != want {
		r = runL3Zone(spec, delay) // timing is never the verdict
	}
	zone := false // did the resolver publish the zone as failed (even if a reply of the same request reset it again)
	for _, z := range append(append([]string{}, r.zones...), r.published...) {
		zone = zone || z == "multi.test."
	}
	return vlib.Res{Impl: fmt.Sprintf("class=%s zone=%s", l3Class(r), vlib.B(zone)), Oracle: or, Tags: "nt"}
}

func l3Class(r l3Result) string {
	switch {
	case r.rcode == dns.RcodeSuccess && r.answered:
		return "answer"
	case r.rcode == dns.RcodeNameError:
		return "nxdomain"
	case r.rcode < 0:
		return "noreply"
	}
	return "failure"
}

// fail l3shed <global|zone>
// Load shed at the resolver's own admission (errResolutionCapacity: every
// in-flight resolution slot taken; errZoneCapacity: this zone's in-flight
// quota taken) is a failure local to the shed request. Real load, no export:
// slow.test. answers after a long delay and pins the slot(s); a request for
// another name is shed meanwhile; once the load is gone the same request is
// repeated at once. It must reach the (healthy) authorities again and must not
// be answered from shared failure state.
func execL3Shed(a []string) vlib.Res {
	kind := a[0]
	if kind == "nested" {
		return execL3ShedNested()
	}
	w := l3.NewWorld(false)
	defer w.Close()
	w.AddZone("test.", l3.ZoneOpts{})
	slow := w.AddZone("slow.test.", l3.ZoneOpts{NSTTL: 3600})
	fast := w.AddZone("fast.test.", l3.ZoneOpts{NSTTL: 3600})
	slow.Add("*.slow.test. 300 IN A 192.0.2.210")
	fast.Add("www.fast.test. 300 IN A 192.0.2.211")
	hold := 1500 * time.Millisecond
	maxc := 1
	pin := 1
	victim := "www.fast.test."
	if kind == "zone" {
		maxc = 64 // per-zone quota = max(64/16, 16) = 16
		pin = 16
		victim = "victim.slow.test."
	}
	p := l3.NewPipe(w, l3.PipeOpts{Tweak: func(cfg *config.Config) {
		cfg.Timeout.Duration = 4 * time.Second
		cfg.QueryTimeout.Duration = 12 * time.Second
		cfg.MaxConcurrentQueries = maxc
	}})
	defer p.Close()
	// warm the delegations so that the pinned lookups sit at slow.test. only
	p.Query("warm.slow.test.", dns.TypeA, l3.Flags{})
	p.Query("www.fast.test.", dns.TypeTXT, l3.Flags{})
	srv := slow.Servers[0]
	base := srv.UDPQueries.Load()
	srv.SetBehaviour(l3.Behaviour{Delay: func(q dns.Question, _ bool) time.Duration {
		if strings.HasPrefix(q.Name, "pin") {
			return hold
		}
		return 0
	}})
	done := make(chan struct{}, pin)
	for i := 0; i < pin; i++ {
		go func(i int) {
			p.Query(fmt.Sprintf("pin%d.slow.test.", i), dns.TypeA, l3.Flags{Client: fmt.Sprintf("10.9.0.%d:4000", i+1)})
			done <- struct{}{}
		}(i)
	}
	deadline := time.Now().Add(hold / 2)
	for srv.UDPQueries.Load() < base+int64(pin) && time.Now().Before(deadline) {
		time.Sleep(time.Millisecond)
	}
	pinned := srv.UDPQueries.Load() >= base+int64(pin)
	shed := p.Query(victim, dns.TypeA, l3.Flags{Client: "10.9.1.1:4000"})
	for i := 0; i < pin; i++ {
		<-done
	}
	// the load is gone: an independent client repeats the question
	u0, t0, _ := w.TotalQueries()
	again := p.Query(victim, dns.TypeA, l3.Flags{Client: "10.9.1.2:4000"})
	u1, t1, _ := w.TotalQueries()
	wasShed := shed != nil && shed.Rcode == dns.RcodeServerFailure
	impl := fmt.Sprintf("pinned=%s shed=%s shed-ede=%v again=%d again-ede=%v upstream=%d", vlib.B(pinned), vlib.B(wasShed), edeOf(shed), rc(again), edeOf(again), (u1-u0)+(t1-t0))
	or := "-" // no shedding provoked (timing): nothing to judge
	if pinned && wasShed {
		or = "ok"
		ede13 := false
		if again != nil {
			for _, c := range edeCodes(again) {
				ede13 = ede13 || c == 13
			}
		}
		var retained []string
		for _, e := range cache.VerifC13Entries(cache.VerifC13FailureOf(p.Cache)) {
			if e.Kind == cache.FailureKindQuestion {
				retained = append(retained, e.Question.Question.Name)
			} else {
				retained = append(retained, "zone:"+e.Zone.Zone)
			}
		}
		if ede13 || (rc(again) == dns.RcodeServerFailure && (u1-u0)+(t1-t0) == 0) {
			or = fmt.Sprintf("FAIL sig=l3shed/%s/shed-load-became-shared-failure retained=%s", kind, strings.Join(retained, ","))
		}
	}
	return vlib.Res{Impl: impl, Oracle: or, Tags: "nt"}
}

func rc(m *dns.Msg) int {
	if m == nil {
		return -1
	}
	return m.Rcode
}

func edeOf(m *dns.Msg) []int {
	if m == nil {
		return nil
	}
	return edeCodes(m)
}

// fail l3shed nested
// The shed lookup is a SUB-lookup: child.test. is delegated without glue to
// name servers whose addresses live in nsfarm.test.; nsfarm.test.'s in-flight
// quota is pinned by slow lookups, so the name-server address lookups for
// child.test. are shed. child.test.'s own servers are healthy and were never
// asked: no zone failure for child.test. may become shared state.
func execL3ShedNested() vlib.Res {
	w := l3.NewWorld(false)
	defer w.Close()
	w.AddZone("test.", l3.ZoneOpts{})
	farm := w.AddZone("nsfarm.test.", l3.ZoneOpts{NSTTL: 3600})
	child := w.AddZone("child.test.", l3.ZoneOpts{NSTTL: 3600, NSHosts: []string{"nsc1.nsfarm.test.", "nsc2.nsfarm.test."}, NoGlue: true})
	child.Add("www.child.test. 300 IN A 192.0.2.220", "mail.child.test. 300 IN A 192.0.2.221")
	ip := child.Servers[0].IP.String()
	farm.Add("nsc1.nsfarm.test. 3600 IN A "+ip, "nsc2.nsfarm.test. 3600 IN A "+ip, "*.pins.nsfarm.test. 300 IN A 192.0.2.222")
	hold := 1500 * time.Millisecond
	pin := 16
	p := l3.NewPipe(w, l3.PipeOpts{Tweak: func(cfg *config.Config) {
		cfg.Timeout.Duration = 4 * time.Second
		cfg.QueryTimeout.Duration = 12 * time.Second
		cfg.MaxConcurrentQueries = 64 // per-zone quota 16
	}})
	defer p.Close()
	p.Query("warm.pins.nsfarm.test.", dns.TypeA, l3.Flags{})
	srv := farm.Servers[0]
	base := srv.UDPQueries.Load()
	srv.SetBehaviour(l3.Behaviour{Delay: func(q dns.Question, _ bool) time.Duration {
		if strings.HasPrefix(q.Name, "pin") {
			return hold
		}
		return 0
	}})
	done := make(chan struct{}, pin)
	for i := 0; i < pin; i++ {
		go func(i int) {
			p.Query(fmt.Sprintf("pin%d.pins.nsfarm.test.", i), dns.TypeA, l3.Flags{Client: fmt.Sprintf("10.9.0.%d:4000", i+1)})
			done <- struct{}{}
		}(i)
	}
	deadline := time.Now().Add(hold / 2)
	for srv.UDPQueries.Load() < base+int64(pin) && time.Now().Before(deadline) {
		time.Sleep(time.Millisecond)
	}
	pinned := srv.UDPQueries.Load() >= base+int64(pin)
	childBefore := child.Servers[0].UDPQueries.Load() + child.Servers[0].TCPQueries.Load()
	shed := p.Query("www.child.test.", dns.TypeA, l3.Flags{Client: "10.9.1.1:4000"})
	childAsked := child.Servers[0].UDPQueries.Load()+child.Servers[0].TCPQueries.Load() > childBefore
	for i := 0; i < pin; i++ {
		<-done
	}
	var retained []string
	for _, e := range cache.VerifC13Entries(cache.VerifC13FailureOf(p.Cache)) {
		if e.Kind == cache.FailureKindQuestion {
			retained = append(retained, e.Question.Question.Name)
		} else {
			retained = append(retained, "zone:"+e.Zone.Zone)
		}
	}
	u0, t0, _ := w.TotalQueries()
	again := p.Query("mail.child.test.", dns.TypeA, l3.Flags{Client: "10.9.1.2:4000"})
	u1, t1, _ := w.TotalQueries()
	wasShed := shed != nil && shed.Rcode == dns.RcodeServerFailure && !childAsked
	impl := fmt.Sprintf("pinned=%s shed=%s shed-ede=%v again=%d again-ede=%v upstream=%d retained=%s", vlib.B(pinned), vlib.B(wasShed), edeOf(shed), rc(again), edeOf(again), (u1-u0)+(t1-t0), strings.Join(retained, ","))
	or := "-"
	if pinned && wasShed {
		or = "ok"
		ede13 := false
		for _, c := range edeOf(again) {
			ede13 = ede13 || c == 13
		}
		if len(retained) > 0 || ede13 || (rc(again) == dns.RcodeServerFailure && (u1-u0)+(t1-t0) == 0) {
			or = "FAIL sig=l3shed/nested/shed-sub-lookup-became-shared-failure retained=" + strings.Join(retained, ",")
		}
	}
	return vlib.Res{Impl: impl, Oracle: or, Tags: "nt"}
}

// ---- the name-server address sub-lookups of a glueless delegation

var (
	nssPipe *l3.Pipe // one real resolver, built on first use (never torn down)
	nssSeq  atomic.Uint64
)

// nssQueryer scripts the address lookup of each name-server host.
type nssQueryer struct{ outcome map[string]string }

func (q *nssQueryer) Query(ctx context.Context, req *dns.Msg) (*dns.Msg, error) {
	o := q.outcome[strings.ToLower(req.Question[0].Name)]
	resp := new(dns.Msg)
	switch {
	case o == "a":
		resp.SetReply(req)
		resp.Answer = []dns.RR{&dns.A{Hdr: dns.RR_Header{Name: req.Question[0].Name, Rrtype: dns.TypeA, Class: 1, Ttl: 60}, A: []byte{198, 51, 100, 77}}}
	case o == "e":
		resp.SetReply(req)
	case strings.HasPrefix(o, "l:"):
		resp.SetRcode(req, dns.RcodeServerFailure)
		middleware.MarkRequestLocalFailureResponse(ctx, resp, causeErr(o[2:]))
	case strings.HasPrefix(o, "x:"):
		return nil, causeErr(o[2:])
	default:
		resp.SetRcode(req, dns.RcodeServerFailure)
	}
	return resp, nil
}

// fail nss <outcome csv>   a address | e empty NOERROR | f SERVFAIL | l:<cause> SERVFAIL response marked
// request-local | x:<cause> Go error.  Runs the real Resolver.lookupV4Nss; "noservers" is what makes
// processDelegation publish the zone as unreachable.
func execNss(a []string) vlib.Res {
	if nssPipe == nil {
		w := l3.NewWorld(false)
		nssPipe = l3.NewPipe(w, l3.PipeOpts{})
	}
	outs := strings.Split(a[0], ",")
	seq := nssSeq.Add(1)
	q := &nssQueryer{outcome: map[string]string{}}
	var hosts []string
	anyLocal := false
	for i, o := range outs {
		h := fmt.Sprintf("h%d-%d.nss-c13.example.", i, seq)
		hosts = append(hosts, h)
		q.outcome[h] = o
		if len(o) > 2 && localCause(o[2:]) {
			anyLocal = true
		}
	}
	ctx, _ := middleware.EnsureResolutionAttemptGuard(context.Background())
	key := 0xc13000000 + seq
	n, err := resolver.VerifC13LookupV4Nss(nssPipe.Resolver, q, ctx, fmt.Sprintf("z%d.nss-c13.example.", seq), hosts, key)
	impl := "noservers"
	switch {
	case err != nil:
		impl = "err:" + classifyErr(err)
	case n > 0:
		impl = "servers"
	}
	// the provisional delegation lookupV4Nss publishes while it is still collecting
	_, derr := resolver.VerifDelegations(nssPipe.Resolver).Get(key)
	left := derr == nil
	impl += " prov=" + vlib.B(left)
	or := "ok"
	if left && err != nil {
		or = "FAIL sig=nss/aborted-collection-left-a-truncated-provisional-delegation outcomes=" + a[0]
	}
	if strings.HasPrefix(impl, "noservers") && anyLocal {
		or = "FAIL sig=nss/request-local-sub-lookup-failure-counted-as-unreachable-zone outcomes=" + a[0]
	}
	return vlib.Res{Impl: impl, Oracle: or, Tags: "nt"}
}

// fail l3id <dnssec on|off> <client cd t/f> <drop|servfail|refused|ok> <qtype>
// The identity a failure is filed under is the CLIENT's, on every outcome path
// of the real resolver handler (Go-error path: every server silent; response
// path: failure rcodes) and for both settings of the dnssec switch (with
// dnssec off the handler forces CD=1 on what it sends upstream and must hand
// the client's bit back). Real edns → cache → resolver pipeline, loopback
// authorities. Afterwards every retained QUESTION state must be exactly the
// asked (name, type, class, client CD, shared audience).
func execL3ID(a []string) vlib.Res {
	dnssecOn, cd, scenario := a[0] == "on", a[1] == "t", a[2]
	qtype := uint16(vlib.Atoi(a[3]))
	w := l3.NewWorld(dnssecOn)
	defer w.Close()
	w.AddZone("test.", l3.ZoneOpts{Signed: dnssecOn, PublishDS: dnssecOn})
	z := w.AddZone("ident.test.", l3.ZoneOpts{Signed: dnssecOn, PublishDS: dnssecOn, NSTTL: 3600})
	z.Add("www.ident.test. 300 IN A 192.0.2.230", "www.ident.test. 300 IN TXT \"x\"", "www.ident.test. 300 IN AAAA 2001:db8::230")
	s2 := w.AddServer("ident.test.")
	for _, srv := range []*l3.Server{z.Servers[0], s2} {
		switch scenario {
		case "drop":
			srv.SetBehaviour(l3.Behaviour{Drop: func(dns.Question, bool) bool { return true }})
		case "servfail":
			srv.SetBehaviour(l3.Behaviour{Rcode: func(dns.Question) int { return dns.RcodeServerFailure }})
		case "refused":
			srv.SetBehaviour(l3.Behaviour{Rcode: func(dns.Question) int { return dns.RcodeRefused }})
		}
	}
	p := l3.NewPipe(w, l3.PipeOpts{DNSSEC: dnssecOn, Tweak: func(cfg *config.Config) {
		cfg.Timeout.Duration = 300 * time.Millisecond
		cfg.QueryTimeout.Duration = 8 * time.Second
	}})
	defer p.Close()
	r := p.Query("www.ident.test.", qtype, l3.Flags{CD: cd, DO: dnssecOn})
	var qs []string
	zoneCovered := false
	for _, e := range cache.VerifC13Entries(cache.VerifC13FailureOf(p.Cache)) {
		if e.Kind == cache.FailureKindQuestion {
			q := e.Question
			qs = append(qs, fmt.Sprintf("%s/%d/%d/%s/%s", strings.ToLower(q.Question.Name), q.Question.Qtype, q.Question.Qclass, vlib.B(q.CD), fmtScope(q.Scope)))
		} else {
			zoneCovered = true
		}
	}
	want := fmt.Sprintf("www.ident.test./%d/1/%s/-", qtype, vlib.B(cd))
	or := "ok"
	for _, q := range qs {
		if q != want {
			or = fmt.Sprintf("FAIL sig=l3id/failure-filed-under-another-identity client=%s filed=%s dnssec=%s path=%s", want, q, a[0], scenario)
		}
	}
	// an independent client with the OTHER CD value: unless a zone failure covers
	// the name, it never failed and must reach the authorities
	if scenario != "ok" && !zoneCovered && or == "ok" {
		u0, t0, _ := w.TotalQueries()
		r2 := p.Query("www.ident.test.", qtype, l3.Flags{CD: !cd, DO: dnssecOn, Client: "10.9.2.2:4000"})
		u1, t1, _ := w.TotalQueries()
		for _, c := range edeOf(r2) {
			if c == 13 && (u1-u0)+(t1-t0) == 0 {
				or = "FAIL sig=l3id/other-cd-value-suppressed-by-this-clients-failure"
			}
		}
	}
	rec := "-"
	if len(qs) > 0 {
		rec = strings.Join(qs, ",")
	}
	return vlib.Res{Impl: fmt.Sprintf("rcode=%d recorded=%s", rc(r), rec), Oracle: or, Tags: "nt"}
}

// queryWithDeadline is l3.Pipe.Exchange with the CLIENT's own deadline.
func queryWithDeadline(p *l3.Pipe, name string, qtype uint16, client string, d time.Duration) *dns.Msg {
	req := new(dns.Msg)
	req.SetQuestion(dns.Fqdn(name), qtype)
	req.RecursionDesired = true
	req.SetEdns0(1232, false)
	w := mock.NewWriter("udp", client)
	ch := p.P.NewChain()
	defer p.P.PutChain(ch)
	ch.Reset(w, req)
	ctx, cancel := context.WithTimeout(context.Background(), d)
	defer cancel()
	ch.Next(ctx)
	if !w.Written() {
		return nil
	}
	return w.Msg()
}

// fail l3deadline <impatient clients> <server delay ms> <client deadline ms> <servers>
// Clients that give up early on a slow but healthy zone are failures local to
// those requests: their deadlines cutting upstream attempts short must leave
// nothing behind (no failure state, no opened circuit breaker) that makes a
// later, patient client fail without the zone's servers being asked.
func execL3Deadline(a []string) vlib.Res {
	n, delay, dl, nsrv := vlib.Atoi(a[0]), time.Duration(vlib.Atoi(a[1]))*time.Millisecond, time.Duration(vlib.Atoi(a[2]))*time.Millisecond, vlib.Atoi(a[3])
	w := l3.NewWorld(false)
	defer w.Close()
	w.AddZone("test.", l3.ZoneOpts{})
	z := w.AddZone("slow.test.", l3.ZoneOpts{NSTTL: 3600})
	z.Add("*.slow.test. 300 IN A 192.0.2.240")
	servers := []*l3.Server{z.Servers[0]}
	for len(servers) < nsrv {
		servers = append(servers, w.AddServer("slow.test."))
	}
	for _, s := range servers {
		s.SetBehaviour(l3.Behaviour{Delay: func(q dns.Question, _ bool) time.Duration {
			if strings.HasPrefix(q.Name, "imp") {
				return delay
			}
			return 0
		}})
	}
	p := l3.NewPipe(w, l3.PipeOpts{Tweak: func(cfg *config.Config) {
		cfg.Timeout.Duration = 2 * time.Second
		cfg.QueryTimeout.Duration = 10 * time.Second
	}})
	defer p.Close()
	p.Query("warm.slow.test.", dns.TypeA, l3.Flags{})
	gaveUp := 0
	for i := 0; i < n; i++ {
		r := queryWithDeadline(p, fmt.Sprintf("imp%d.slow.test.", i), dns.TypeA, fmt.Sprintf("10.9.3.%d:4000", i+1), dl)
		if r == nil || r.Rcode != dns.RcodeSuccess {
			gaveUp++
		}
		time.Sleep(delay + 60*time.Millisecond) // let the abandoned attempts drain
	}
	var before int64
	for _, s := range servers {
		before += s.UDPQueries.Load() + s.TCPQueries.Load()
	}
	patient := p.Query("patient.slow.test.", dns.TypeA, l3.Flags{Client: "10.9.4.1:4000"})
	var after int64
	for _, s := range servers {
		after += s.UDPQueries.Load() + s.TCPQueries.Load()
	}
	var retained []string
	for _, e := range cache.VerifC13Entries(cache.VerifC13FailureOf(p.Cache)) {
		if e.Kind == cache.FailureKindQuestion {
			retained = append(retained, e.Question.Question.Name)
		} else {
			retained = append(retained, "zone:"+e.Zone.Zone)
		}
	}
	or := "-"
	impl := "patient=answer retained=-"
	if gaveUp == n { // every impatient client really gave up (otherwise nothing to judge)
		or = "ok"
		ok := patient != nil && patient.Rcode == dns.RcodeSuccess && len(patient.Answer) > 0
		switch {
		case len(retained) > 0:
			or = "FAIL sig=l3deadline/client-deadlines-became-shared-failure-state retained=" + strings.Join(retained, ",")
		case !ok && after == before:
			or = "FAIL sig=l3deadline/patient-client-failed-without-the-zone-being-asked"
		case !ok:
			or = fmt.Sprintf("FAIL sig=l3deadline/patient-client-failed rcode=%d", rc(patient))
		}
		if !ok || len(retained) > 0 {
			impl = fmt.Sprintf("patient=%d retained=%s", rc(patient), strings.Join(retained, ","))
		}
	}
	return vlib.Res{Impl: impl, Oracle: or, Tags: "nt"}
}

// fail l3trunc <dead hosts> <outbound budget>
// A glueless delegation whose first name-server hosts point at dead addresses
// and whose last host is healthy. A first request tree runs out of its
// outbound-query budget while it is still collecting name-server addresses;
// a second, independent tree follows. The zone has a healthy server: it must
// not be published as failed, and the second client must get the answer (or
// at least its own budget's verdict — never a zone-wide failure).
func execL3Trunc(a []string) vlib.Res {
	dead, budget := vlib.Atoi(a[0]), vlib.Atoi(a[1])
	w := l3.NewWorld(false)
	defer w.Close()
	w.AddZone("test.", l3.ZoneOpts{})
	farm := w.AddZone("nsfarm.test.", l3.ZoneOpts{NSTTL: 3600})
	var hosts []string
	for i := 0; i <= dead; i++ {
		hosts = append(hosts, fmt.Sprintf("n%02d.nsfarm.test.", i))
	}
	many := w.AddZone("many.test.", l3.ZoneOpts{NSTTL: 3600, NSHosts: hosts, NoGlue: true})
	many.Add("www.many.test. 300 IN A 192.0.2.250", "mail.many.test. 300 IN A 192.0.2.251")
	var deadSrv []*l3.Server
	for i := 0; i < dead; i++ {
		s := w.NewServer(fmt.Sprintf("dead%d", i))
		s.SetBehaviour(l3.Behaviour{Drop: func(dns.Question, bool) bool { return true }})
		deadSrv = append(deadSrv, s)
		farm.Add(fmt.Sprintf("%s 3600 IN A %s", hosts[i], s.IP.String()))
	}
	farm.Add(fmt.Sprintf("%s 3600 IN A %s", hosts[dead], many.Servers[0].IP.String()))
	p := l3.NewPipe(w, l3.PipeOpts{Tweak: func(cfg *config.Config) {
		cfg.Timeout.Duration = 150 * time.Millisecond
		cfg.QueryTimeout.Duration = 10 * time.Second
		cfg.RecursionFirewall.Mode = config.RecursionFirewallModeEnforce
		cfg.RecursionFirewall.MaxOutboundQueries = uint32(budget)
	}})
	defer p.Close()
	zones := func() []string {
		var out []string
		for _, e := range cache.VerifC13Entries(cache.VerifC13FailureOf(p.Cache)) {
			if e.Kind == cache.FailureKindZone {
				out = append(out, e.Zone.Zone)
			}
		}
		return out
	}
	first := p.Query("www.many.test.", dns.TypeA, l3.Flags{Client: "10.9.5.1:4000"})
	z1 := zones()
	second := p.Query("mail.many.test.", dns.TypeA, l3.Flags{Client: "10.9.5.2:4000"})
	z2 := zones()
	healthyAsked := many.Servers[0].UDPQueries.Load() + many.Servers[0].TCPQueries.Load()
	impl := fmt.Sprintf("first=%d/%v zones1=%v second=%d/%v zones2=%v healthy-asked=%d", rc(first), edeOf(first), z1, rc(second), edeOf(second), z2, healthyAsked)
	or := "ok"
	for _, z := range append(z1, z2...) {
		if z == "many.test." && healthyAsked == 0 {
			or = "FAIL sig=l3trunc/zone-failure-for-a-zone-whose-healthy-server-was-never-asked"
		}
	}
	return vlib.Res{Impl: impl, Oracle: or, Tags: "nt"}
}

// fail l3v6 <recursion_firewall mode off|shadow|enforce> <aaaa outcome servfail|refused|nodata>
// The detached IPv6 name-server address job (Resolver.lookupV6Nss) is optional
// enrichment of a delegation that already works over IPv4. Its failures are
// never shared state, whatever the accounting mode. Real pipeline with IPv6
// access on; child.test. is delegated to hosts in nsfarm.test. that have A
// records only; AAAA questions at nsfarm.test. fail. The client's own query
// succeeds; afterwards nothing may be retained for anybody.
func execL3V6(a []string) vlib.Res {
	mode, aaaa := a[0], a[1]
	w := l3.NewWorld(false)
	defer w.Close()
	w.AddZone("test.", l3.ZoneOpts{})
	farm := w.AddZone("nsfarm.test.", l3.ZoneOpts{NSTTL: 3600})
	child := w.AddZone("child.test.", l3.ZoneOpts{NSTTL: 3600, NSHosts: []string{"nsc1.nsfarm.test.", "nsc2.nsfarm.test."}, NoGlue: true})
	child.Add("www.child.test. 300 IN A 192.0.2.220")
	ip := child.Servers[0].IP.String()
	farm.Add("nsc1.nsfarm.test. 3600 IN A "+ip, "nsc2.nsfarm.test. 3600 IN A "+ip)
	srv := farm.Servers[0]
	base := srv.UDPQueries.Load()
	var aaaaSeen atomic.Int64
	srv.SetBehaviour(l3.Behaviour{Rcode: func(q dns.Question) int {
		if q.Qtype != dns.TypeAAAA {
			return -1
		}
		aaaaSeen.Add(1)
		switch aaaa {
		case "servfail":
			return dns.RcodeServerFailure
		case "refused":
			return dns.RcodeRefused
		}
		return -1 // honest NODATA
	}})
	_ = base
	p := l3.NewPipe(w, l3.PipeOpts{Tweak: func(cfg *config.Config) {
		cfg.IPv6Access = true
		cfg.Timeout.Duration = 500 * time.Millisecond
		cfg.QueryTimeout.Duration = 8 * time.Second
		cfg.RecursionFirewall.Mode = config.RecursionFirewallMode(mode)
	}})
	defer p.Close()
	r := p.Query("www.child.test.", dns.TypeA, l3.Flags{})
	// wait for the detached job: it starts after a short grace, asks AAAA for every host
	deadline := time.Now().Add(4 * time.Second)
	for time.Now().Before(deadline) && aaaaSeen.Load() < 2 {
		time.Sleep(10 * time.Millisecond)
	}
	time.Sleep(300 * time.Millisecond)
	var retained []string
	for _, e := range cache.VerifC13Entries(cache.VerifC13FailureOf(p.Cache)) {
		if e.Kind == cache.FailureKindQuestion {
			retained = append(retained, fmt.Sprintf("%s/%d", e.Question.Question.Name, e.Question.Question.Qtype))
		} else {
			retained = append(retained, "zone:"+e.Zone.Zone)
		}
	}
	impl := "answer retained=-"
	or := "ok"
	if aaaaSeen.Load() == 0 {
		or = "-" // the optional job never ran: nothing to judge
	}
	if rc(r) != dns.RcodeSuccess || len(retained) > 0 {
		impl = fmt.Sprintf("rcode=%d retained=%s", rc(r), strings.Join(retained, ","))
	}
	if len(retained) > 0 {
		or = "FAIL sig=l3v6/optional-ipv6-enrichment-failure-became-shared-state retained=" + strings.Join(retained, ",") + " mode=" + mode
	}
	return vlib.Res{Impl: impl, Oracle: or, Tags: "nt"}
}

// v6Queryer records under which request-tree marks the AAAA sub-lookups run.
type v6Queryer struct {
	asked      int
	bestEffort int
}

func (q *v6Queryer) Query(ctx context.Context, req *dns.Msg) (*dns.Msg, error) {
	q.asked++
	if middleware.IsBestEffortRecursionWork(ctx) {
		q.bestEffort++
	}
	resp := new(dns.Msg)
	resp.SetRcode(req, dns.RcodeServerFailure)
	return resp, nil
}

// fail nss6 <ledger t/f> <hosts>
// The real Resolver.lookupV6Nss with a scripted queryer: every AAAA sub-lookup
// of the detached job must run marked as optional (best-effort) work — with
// and without a recursion-work ledger in the tree — because that mark is what
// keeps its failures out of the failure cache and out of zone records.
var nss6Pipe *l3.Pipe // a resolver with IPv6 access (it owns the IPv6 glue cache the job consults)

func execNss6(a []string) vlib.Res {
	if nss6Pipe == nil {
		w := l3.NewWorld(false)
		nss6Pipe = l3.NewPipe(w, l3.PipeOpts{Tweak: func(cfg *config.Config) { cfg.IPv6Access = true }})
	}
	ledger, n := a[0] == "t", vlib.Atoi(a[1])
	seq := nssSeq.Add(1)
	var hosts []string
	for i := 0; i < n; i++ {
		hosts = append(hosts, fmt.Sprintf("h%d-%d.nss6-c13.example.", i, seq))
	}
	ctx, _ := middleware.EnsureResolutionAttemptGuard(context.Background())
	if ledger {
		ctx = middleware.WithRecursionWork(ctx, middleware.NewRecursionWorkLedger(middleware.RecursionWorkPolicy{Mode: middleware.RecursionWorkShadow, MaxOutboundQueries: 100, MaxInternalQueries: 100}))
	}
	q := &v6Queryer{}
	resolver.VerifC13LookupV6Nss(nss6Pipe.Resolver, q, ctx, fmt.Sprintf("z%d.nss6-c13.example.", seq), hosts)
	or := "ok"
	if q.bestEffort != q.asked {
		or = fmt.Sprintf("FAIL sig=nss6/optional-enrichment-sub-lookup-ran-unmarked ledger=%s unmarked=%d", a[0], q.asked-q.bestEffort)
	}
	return vlib.Res{Impl: fmt.Sprintf("asked=%d besteffort=%d", q.asked, q.bestEffort), Oracle: or, Tags: "nt"}
}
