//go:build verif

package main

import (
	"encoding/binary"
	"net/netip"

	"github.com/miekg/dns"
	"github.com/semihalev/sdns/internal/dnsutil"
	"github.com/semihalev/sdns/internal/wire"
	"github.com/semihalev/sdns/middleware/edns"
	"github.com/semihalev/sdns/server"
)

// countVals are the section-count values of the complete accept table.
var countVals = []int{0, 1, 2, 3}

func b2i(b bool) int {
	if b {
		return 1
	}
	return 0
}

// facts: constants and finite tables read from the compiled tree.
func facts() map[string]any {
	codes := server.VerifC06VerdictCodes()
	norm := func(v int) int { // 0 ok 1 ignore 2 notimp 3 formerr, by NAME
		for i, c := range codes {
			if c == v {
				return i
			}
		}
		return 9
	}
	// complete table of header classes: QR x opcode 0..15 x counts {0,1,2,3}^4.
	// Entry i = ((qr*16+op)*4+qd)*4+an holds the 16 verdicts for (ns, ar) as
	// base-4 digits, digit position ns*4+ar (least significant first).
	var table []int
	for qr := 0; qr < 2; qr++ {
		for op := 0; op < 16; op++ {
			for _, qd := range countVals {
				for _, an := range countVals {
					packed, mul := 0, 1
					for _, ns := range countVals {
						for _, ar := range countVals {
							fl := uint16(qr)<<15 | uint16(op)<<11
							v := norm(server.VerifC06AcceptHeader(fl, uint16(qd), uint16(an), uint16(ns), uint16(ar)))
							packed += v * mul
							mul *= 4
						}
					}
					table = append(table, packed)
				}
			}
		}
	}
	// far-out counts and the other flag bits must not matter
	var extreme [][]int
	for _, fl := range []int{0x0000, 0x0100, 0x0130, 0x07FF, 0x8000, 0x87FF, 0x2000, 0x7800} {
		for _, c := range [][4]int{{1, 0, 0, 0}, {1, 65535, 0, 0}, {1, 0, 65535, 0}, {1, 0, 0, 65535}, {65535, 0, 0, 0}, {256, 0, 0, 0}, {1, 1, 1, 2}, {1, 2, 1, 2}} {
			v := norm(server.VerifC06AcceptHeader(uint16(fl), uint16(c[0]), uint16(c[1]), uint16(c[2]), uint16(c[3])))
			extreme = append(extreme, []int{fl, c[0], c[1], c[2], c[3], v})
		}
	}
	// header accessors on single-bit flag words
	var bits [][]int
	for b := 0; b < 16; b++ {
		h := wire.Header{Flags: 1 << uint(b)}
		bits = append(bits, []int{b, b2i(h.QR()), h.Opcode(), b2i(h.AD()), h.Rcode()})
	}
	// ApplyReply on all-zero and all-one flag words
	var apply [][]int
	for _, in := range []int{0x0000, 0xFFFF, 0x0400, 0x8180} {
		for _, opc := range []int{0, 1, 4, 15} {
			for rd := 0; rd < 2; rd++ {
				for cd := 0; cd < 2; cd++ {
					body := make([]byte, 12)
					binary.BigEndian.PutUint16(body[2:], uint16(in))
					wire.ApplyReply(body, 0xBEEF, opc, rd == 1, cd == 1)
					apply = append(apply, []int{in, opc, rd, cd, int(binary.BigEndian.Uint16(body[2:])), int(binary.BigEndian.Uint16(body))})
				}
			}
		}
	}
	// the size SetEdns0 grants for an advertised size
	var clamp [][]int
	for _, adv := range []int{0, 1, 100, 511, 512, 513, 1000, 1231, 1232, 1233, 1452, 4096, 65535} {
		m := new(dns.Msg)
		m.SetQuestion("x.", dns.TypeA)
		m.SetEdns0(uint16(adv), false)
		_, size, _, _, _ := dnsutil.SetEdns0(m, nil, netip.Addr{})
		clamp = append(clamp, []int{adv, size})
	}
	m := new(dns.Msg)
	m.SetQuestion("x.", dns.TypeA)
	_, noOptSize, _, _, _ := dnsutil.SetEdns0(m, nil, netip.Addr{})
	return map[string]any{
		"default_msg_size": dnsutil.DefaultMsgSize,
		"min_msg_size":     dns.MinMsgSize,
		"max_msg_size":     dns.MaxMsgSize,
		"noopt_size":       noOptSize,
		"code_nsid":        int(dns.EDNS0NSID),
		"code_ecs":         int(dns.EDNS0SUBNET),
		"code_cookie":      int(dns.EDNS0COOKIE),
		"code_keepalive":   int(dns.EDNS0TCPKEEPALIVE),
		"code_padding":     int(dns.EDNS0PADDING),
		"code_ede":         int(dns.EDNS0EDE),
		"keepalive_units":  int(edns.VerifC06KeepaliveUnits()),
		"rcode_formerr":    dns.RcodeFormatError,
		"rcode_notimp":     dns.RcodeNotImplemented,
		"rcode_badvers":    dns.RcodeBadVers,
		"opcode_query":     dns.OpcodeQuery,
		"opcode_notify":    dns.OpcodeNotify,
		"accept_table":     table,
		"accept_extreme":   extreme,
		"hdr_bits":         bits,
		"apply_reply":      apply,
		"clamp_table":      clamp,
	}
}
