//go:build verif

// Transport level: the REAL server.Server (srvh) with pipeline
// [recovery, edns, cache?, scripted upstream], driven through every entry the
// harness offers. Only the oracle judges these ops (the Lean side prints
// `unmodelled`), except packets the listeners reject on their header, whose
// exact rejection bytes the model predicts.
//
//	srv new <nsid hex|-> <secret t|f> <ecs t|f> <ka> <cache t|f>
//	srv q <entry> <Q> <R>        entry: rawudp rawtcp inline msgdoh msgdoq http httpget sockudp socktcp sockdoq
//	srv raw <entry> <hex packet> <R>   entry: sockudp socktcp (malformed / rejected packets)
//	srv stop
package main

import (
	"bytes"
	"encoding/base64"
	"encoding/binary"
	"fmt"
	"io"
	"net"
	"net/http"
	"net/http/httptest"
	"strings"
	"time"

	"github.com/miekg/dns"
	"github.com/semihalev/sdns/config"
	"github.com/semihalev/sdns/internal/verif/srvh"
	"github.com/semihalev/sdns/internal/verif/vlib"
	"github.com/semihalev/sdns/middleware/cache"
)

var (
	live    *srvh.Live
	liveCfg deployCfg
	udpConn *net.UDPConn
	tcpConn net.Conn
	sentSeq uint16 = 0x7000
	// liveScripts: upstream response per (lower-case) question name
	liveScripts = map[string]aR{}
)

func stopLive() {
	if udpConn != nil {
		udpConn.Close()
		udpConn = nil
	}
	if tcpConn != nil {
		tcpConn.Close()
		tcpConn = nil
	}
	stopDoQ()
	if live != nil {
		live.Stop()
		live = nil
	}
}

func startLive(c deployCfg, withCache bool, rateLimit int, as112 bool) {
	stopLive()
	hs := []string{"recovery", "edns"}
	if as112 {
		hs = append(hs, "as112")
	}
	if rateLimit > 0 {
		hs = append(hs, "ratelimit")
	}
	if withCache {
		hs = append(hs, "cache")
	}
	live = srvh.Start(srvh.Opts{Handlers: hs, Listen: true, Tweak: func(cfg *config.Config) {
		cfg.NSID = string(c.nsid)
		if c.secret {
			cfg.CookieSecret = secretText
		}
		cfg.ECS.Enabled = c.ecs
		cfg.ClientRateLimit = rateLimit
	}})
	liveCfg = c
	liveScripts = map[string]aR{}
	startDoQ()
}

func remoteFor(entry string) (net.Addr, string) {
	ip := net.ParseIP(clientIP)
	switch entry {
	case "rawtcp", "msgdoh", "msgdoq":
		return &net.TCPAddr{IP: ip, Port: 4242}, clientIP
	case "sockudp", "socktcp", "sockdoq":
		return nil, "127.0.0.1"
	}
	return &net.UDPAddr{IP: ip, Port: 4242}, clientIP
}

func kindOf(entry string) entryKind {
	switch entry {
	case "rawudp", "inline":
		return entryKind{proto: "udp"}
	case "rawtcp":
		return entryKind{proto: "tcp"}
	case "msgdoh", "http", "httpget":
		return entryKind{proto: "doh"}
	case "msgdoq":
		return entryKind{proto: "doq"}
	case "sockudp":
		return entryKind{proto: "udp", listener: true}
	case "socktcp":
		return entryKind{proto: "tcp", listener: true}
	case "sockdoq":
		return entryKind{proto: "doq"}
	}
	panic("entry " + entry)
}

// sentinel: a plain well-formed query whose reply marks "the server has got
// past everything sent before it".
func sentinel() ([]byte, uint16) {
	sentSeq++
	if sentSeq > 0x7fff {
		sentSeq = 0x7001
	}
	m := new(dns.Msg)
	m.SetQuestion("sentinel.c06.test.", dns.TypeA)
	m.Id = sentSeq
	b, _ := m.Pack()
	return b, sentSeq
}

const grace = 25 * time.Millisecond

// udpExchange sends pkt and returns the datagram answering it (matched by
// id), or nil. With a sentinel it also proves silence: the sentinel's reply
// arrived and nothing carrying pkt's id did, even a little later.
func udpExchange(pkt []byte, expectSilence bool) []byte {
	if udpConn == nil {
		ra, _ := net.ResolveUDPAddr("udp", live.Addr)
		c, err := net.DialUDP("udp", nil, ra)
		if err != nil {
			panic(err)
		}
		udpConn = c
	}
	// drain leftovers
	buf := make([]byte, 65535)
	for {
		udpConn.SetReadDeadline(time.Now().Add(time.Millisecond))
		if _, err := udpConn.Read(buf); err != nil {
			break
		}
	}
	udpConn.Write(pkt)
	var sid uint16
	if expectSilence || len(pkt) < 12 {
		var s []byte
		s, sid = sentinel()
		udpConn.Write(s)
	}
	// The socket was drained and only this packet (and the sentinel) is
	// outstanding, so ANY datagram that is not the sentinel's reply answers
	// it — whatever ID it carries.
	var got []byte
	deadline := time.Now().Add(1500 * time.Millisecond)
	for {
		udpConn.SetReadDeadline(deadline)
		n, err := udpConn.Read(buf)
		if err != nil {
			return got
		}
		if sid != 0 && n >= 2 && binary.BigEndian.Uint16(buf) == sid {
			deadline = time.Now().Add(grace)
			continue
		}
		if got == nil {
			got = append([]byte(nil), buf[:n]...)
		}
		if sid == 0 {
			return got
		}
	}
}

func readFrame(c net.Conn) ([]byte, error) {
	var l [2]byte
	if _, err := io.ReadFull(c, l[:]); err != nil {
		return nil, err
	}
	b := make([]byte, binary.BigEndian.Uint16(l[:]))
	if _, err := io.ReadFull(c, b); err != nil {
		return nil, err
	}
	return b, nil
}

func frame(p []byte) []byte {
	return append(binary.BigEndian.AppendUint16(nil, uint16(len(p))), p...)
}

func tcpExchange(pkt []byte, expectSilence bool) []byte {
	if tcpConn == nil {
		c, err := net.DialTimeout("tcp", live.Addr, time.Second)
		if err != nil {
			panic(err)
		}
		tcpConn = c
	}
	out := frame(pkt)
	var sid uint16
	if expectSilence || len(pkt) < 12 {
		var s []byte
		s, sid = sentinel()
		out = append(out, frame(s)...)
	}
	tcpConn.SetWriteDeadline(time.Now().Add(time.Second))
	if _, err := tcpConn.Write(out); err != nil {
		tcpConn.Close()
		tcpConn = nil
		return nil
	}
	// One connection, one outstanding frame (plus the sentinel): any frame
	// that is not the sentinel's reply answers it.
	var got []byte
	deadline := time.Now().Add(1500 * time.Millisecond)
	for {
		tcpConn.SetReadDeadline(deadline)
		b, err := readFrame(tcpConn)
		if err != nil {
			if ne, ok := err.(net.Error); !ok || !ne.Timeout() || sid == 0 {
				tcpConn.Close()
				tcpConn = nil
			}
			return got
		}
		if sid != 0 && len(b) >= 2 && binary.BigEndian.Uint16(b) == sid {
			deadline = time.Now().Add(grace)
			continue
		}
		if got == nil {
			got = b
		}
		if sid == 0 {
			return got
		}
	}
}

func summarize(reply []byte) string {
	if reply == nil {
		return "silent"
	}
	if len(reply) <= 12 {
		return "bytes=" + vlib.Hex(reply)
	}
	fl := binary.BigEndian.Uint16(reply[2:])
	return fmt.Sprintf("len=%d rc=%d tc=%s ad=%s", len(reply), fl&0xF, vlib.B(fl&0x0200 != 0), vlib.B(fl&0x0020 != 0))
}

func execSrv(f []string) vlib.Res {
	switch f[1] {
	case "new":
		c := parseDeploy(f[2:6])
		rl, as112 := 0, false
		for _, t := range f[7:] {
			switch {
			case strings.HasPrefix(t, "rl="):
				rl = vlib.Atoi(strings.TrimPrefix(t, "rl="))
			case t == "as112":
				as112 = true
			}
		}
		startLive(c, f[6] == "t", rl, as112)
		return vlib.Res{Impl: "ok"}
	case "stop":
		stopLive()
		return vlib.Res{Impl: "ok"}
	case "seed":
		// admit a response into the live cache as an earlier resolution left it
		if live == nil || live.Cache == nil {
			return vlib.Res{Impl: "no-cache"}
		}
		q, r := parseQ(f[2]), parseR(f[3])
		req := new(dns.Msg)
		if err := req.Unpack(rawQuery(q)); err != nil {
			return vlib.Res{Impl: "undecodable"}
		}
		cache.VerifC06Seed(live.Cache, buildUpstream(r, req))
		liveScripts[strings.ToLower(qnameOf(q.id))] = r
		return vlib.Res{Impl: "ok"}
	}
	if live == nil {
		return vlib.Res{Impl: "no-server"}
	}
	entry := f[2]
	var pkt []byte
	var r aR
	var tags string
	var q aQ
	isQ := f[1] == "q"
	if isQ {
		q, r = parseQ(f[3]), parseR(f[4])
		pkt = rawQuery(q)
	} else {
		pkt = vlib.UnHex(f[3])
		r = parseR(f[4])
		if len(f) > 5 && (f[5] == "dec=f") != (new(dns.Msg).Unpack(pkt) != nil) {
			return vlib.Res{Impl: "bad-dec-token"}
		}
	}
	// The upstream is scripted per question name: this op's R for its own
	// name, and for any other name (an alias chase, a sub-query) the R a
	// previous op registered for it.
	curName := ""
	if isQ {
		curName = strings.ToLower(qnameOf(q.id))
	}
	live.Stub.Set(func(req *dns.Msg) *dns.Msg {
		if len(req.Question) > 0 {
			n := strings.ToLower(req.Question[0].Name)
			if sc, ok := liveScripts[n]; ok && n != curName {
				return buildUpstream(sc, req)
			}
		}
		return buildUpstream(r, req)
	})
	if isQ && r.mode == 'e' {
		liveScripts[curName] = r
	}
	live.Stub.Panic = func(*dns.Msg) bool { return r.mode == 'p' || r.mode == 'P' }
	calls0 := live.Stub.Calls.Load()
	chase0, skip0 := cache.VerifC06WireCounters()
	remote, rip := remoteFor(entry)
	ek := kindOf(entry)
	var reply []byte
	extra := ""
	preJudge := ""
	switch entry {
	case "rawudp", "rawtcp":
		writes, handled, strict := live.Raw(pkt, remote)
		if len(writes) > 0 {
			reply = writes[0]
		}
		// ServeRaw's contract with the engines: false = undecodable body, the
		// engine answers FORMERR in place. A body the library cannot decode
		// must therefore come back unhandled and unwritten.
		if v := viewQuery(pkt); v.hdrOK && !v.decodable && (handled || len(writes) > 0) {
			preJudge = fail("srv/"+entry+"/verdict/undecodable-body-accepted", fmt.Sprintf("handled=%v writes=%d", handled, len(writes)))
		}
		extra = fmt.Sprintf(" handled=%s strict=%s writes=%d", vlib.B(handled), vlib.B(strict), len(writes))
	case "inline":
		writes, _, replayed := live.RawInline(pkt, remote)
		if len(writes) > 0 {
			reply = writes[0]
		}
		extra = fmt.Sprintf(" replayed=%s writes=%d", vlib.B(replayed), len(writes))
	case "msgdoh", "msgdoq":
		m := new(dns.Msg)
		if err := m.Unpack(pkt); err != nil {
			return vlib.Res{Impl: "undecodable", Oracle: "-"}
		}
		w := live.Msg(m, remote, ek.proto)
		switch {
		case len(w.Raws) > 0:
			reply = w.Raws[0]
		case len(w.Msgs) > 0:
			b, err := packReply(w.Msgs[0])
			if err != nil {
				return vlib.Res{Impl: "unpackable", Oracle: fail("srv/"+entry+"/reply/unpackable", err.Error())}
			}
			reply = b
		}
		// the in-process writer stands for the DoQ stream writer, which is the
		// one that zeroes the ID; it is not in the loop here.
		ek.proto = map[string]string{"doh": "doh", "doq": "doq-noid"}[ek.proto]
	case "http":
		req := httptest.NewRequest(http.MethodPost, "/dns-query", bytes.NewReader(pkt))
		req.Header.Set("Content-Type", "application/dns-message")
		req.RemoteAddr = clientIP + ":4242"
		rec := httptest.NewRecorder()
		live.Srv.ServeHTTP(rec, req)
		if rec.Code == 200 {
			reply = rec.Body.Bytes()
		} else {
			extra = fmt.Sprintf(" http=%d", rec.Code)
		}
	case "httpget":
		req := httptest.NewRequest(http.MethodGet, "/dns-query?dns="+base64.RawURLEncoding.EncodeToString(pkt), nil)
		req.RemoteAddr = clientIP + ":4242"
		rec := httptest.NewRecorder()
		live.Srv.ServeHTTP(rec, req)
		if rec.Code == 200 {
			reply = rec.Body.Bytes()
		} else {
			extra = fmt.Sprintf(" http=%d", rec.Code)
		}
	case "sockudp":
		reply = udpExchange(pkt, len(pkt) >= 3 && pkt[2]&0x80 != 0)
	case "socktcp":
		reply = tcpExchange(pkt, len(pkt) >= 3 && pkt[2]&0x80 != 0)
	case "sockdoq":
		reply = doqExchange(pkt)
	}
	d := liveCfg.deploy()
	d.remoteIP = rip
	or := judgeHinted("srv/"+entry, ek, d, pkt, reply, r)
	if preJudge != "" {
		or = preJudge
	}
	impl := summarize(reply)
	if !isQ {
		// rejected-on-header packets: the model predicts these bytes exactly
		extra = ""
	} else {
		hit := live.Stub.Calls.Load() == calls0
		tags = ruleTags(q, r, ek.proto, nil)
		if hit && reply != nil {
			tags = appendTag(tags, "no-upstream-call")
		}
		if c1, s1 := cache.VerifC06WireCounters(); c1 > chase0 {
			tags = appendTag(tags, "wire-chase-composed")
		} else if s1 > skip0 {
			tags = appendTag(tags, "wire-chase-declined")
		}
		if reply != nil && len(reply) > 3 && reply[2]&0x02 != 0 {
			tags = appendTag(tags, "r-truncate")
		}
	}
	if !isQ {
		tags = "nt,malformed"
	}
	tags = appendTag(tags, "e-"+entry)
	return vlib.Res{Impl: impl + extra, Oracle: or, Tags: tags}
}

func appendTag(tags, t string) string {
	if tags == "" {
		return t
	}
	return tags + "," + t
}
