//go:build verif

package main

import "github.com/semihalev/sdns/internal/verif/vlib"

func gen(r *vlib.R, n int, tier string, emit func(string)) {
}
