//go:build verif

// Generator for C06. Every random choice comes from r.
package main

import (
	"encoding/binary"
	"fmt"

	"github.com/miekg/dns"
	"github.com/semihalev/sdns/internal/verif/vlib"
	"github.com/semihalev/sdns/middleware/edns"
)

var advSizes = []int{0, 1, 256, 511, 512, 513, 600, 1000, 1231, 1232, 1233, 1400, 1452, 4096, 65535}

func genClientOptions(r *vlib.R) []aOption {
	var os []aOption
	add := func(c int, d []byte) { os = append(os, aOption{code: c, data: d}) }
	if r.Chance(2, 5) {
		switch r.Intn(6) {
		case 0:
			add(optCookie, r.Bytes(24)) // client + an old server cookie
		case 1:
			add(optCookie, r.Bytes(4)) // too short to be a client cookie
		default:
			add(optCookie, r.Bytes(8))
		}
	}
	if r.Chance(1, 3) {
		if r.Chance(1, 4) {
			add(optECS, append([]byte{0, 2, 56, 0}, r.Bytes(7)...))
		} else {
			add(optECS, append([]byte{0, 1, 24, 0}, r.Bytes(3)...))
		}
	}
	if r.Chance(1, 4) {
		if r.Bool() {
			add(optKeepalive, nil)
		} else {
			add(optKeepalive, []byte{0x00, 0x64})
		}
	}
	if r.Chance(1, 3) {
		add(optNSID, nil)
	}
	if r.Chance(1, 6) {
		add(optPadding, make([]byte, r.Intn(40)))
	}
	if r.Chance(1, 8) {
		add(65001, r.Bytes(1+r.Intn(6)))
	}
	if r.Chance(1, 12) {
		add(optEDE, append([]byte{0, byte(r.Intn(30))}, []byte("client")...))
	}
	// shuffle
	for i := len(os) - 1; i > 0; i-- {
		j := r.Intn(i + 1)
		os[i], os[j] = os[j], os[i]
	}
	return os
}

func genQ(r *vlib.R) aQ {
	q := aQ{id: 1 + r.Intn(0x6fff)}
	if r.Chance(1, 5) {
		q.id = 0x8001 + r.Intn(0x7ffe)
	}
	if r.Chance(1, 16) {
		q.opcode = 1 + r.Intn(15)
	}
	q.rd, q.ad, q.cd = r.Chance(4, 5), r.Chance(1, 3), r.Chance(1, 4)
	switch r.Intn(8) {
	case 0:
		q.qtype = int(dns.TypeRRSIG)
	case 1:
		q.qtype = int(dns.TypeTXT)
	case 2:
		q.qtype = int(dns.TypeAAAA)
	case 3:
		// the DNSSEC record types themselves and their neighbours: only RRSIG is
		// an exception to the DO=0 filter
		q.qtype = int(vlib.Pick(r, []uint16{dns.TypeNSEC, dns.TypeNSEC3, dns.TypeNSEC, dns.TypeNSEC3, dns.TypeDNSKEY, dns.TypeDS,
			dns.TypeNSEC3PARAM, dns.TypeNS, dns.TypeSOA, dns.TypeMX, dns.TypeANY, dns.TypeSIG, dns.TypeCDS, 65280}))
	default:
		q.qtype = int(dns.TypeA)
	}
	q.qlen = len(wireName(qnameOf(q.id))) + 4
	if r.Chance(1, 3) {
		q.mask = r.Intn(64) // a 0x20-randomising client
	}
	if r.Chance(1, 8) {
		q.qclass = vlib.Pick(r, []int{3, 4, 254, 255, 7, 3}) // CH, HS, NONE, ANY, unassigned
	}
	if r.Chance(3, 4) {
		o := aOpt{present: true, do: r.Bool()}
		if r.Chance(2, 3) {
			o.udp = vlib.Pick(r, advSizes)
		} else {
			o.udp = r.Intn(65536)
		}
		if r.Chance(1, 12) {
			o.ver = vlib.Pick(r, []int{1, 1, 2, 255})
		}
		o.opts = genClientOptions(r)
		q.opt = o
	}
	return q
}

func genUpstreamOptions(r *vlib.R) []aOption {
	var os []aOption
	add := func(c int, d []byte) { os = append(os, aOption{code: c, data: d}) }
	if r.Chance(1, 3) {
		add(optECS, append([]byte{0, 1, 24, 24}, r.Bytes(3)...))
	}
	if r.Chance(1, 3) {
		add(optCookie, r.Bytes(vlib.Pick(r, []int{8, 16, 24, 40})))
	}
	if r.Chance(1, 3) {
		add(optKeepalive, []byte{0x12, 0x34})
	}
	if r.Chance(1, 5) {
		add(optPadding, make([]byte, r.Intn(64)))
	}
	if r.Chance(1, 5) {
		add(65002, r.Bytes(1+r.Intn(8)))
	}
	if r.Chance(1, 4) {
		add(optEDE, append([]byte{0, byte(r.Intn(30))}, []byte(vlib.Pick(r, []string{"", "stale", "upstream said so"}))...))
	}
	if r.Chance(1, 6) {
		add(optNSID, []byte("upns"))
	}
	for i := len(os) - 1; i > 0; i-- {
		j := r.Intn(i + 1)
		os[i], os[j] = os[j], os[i]
	}
	return os
}

// estOptLen: the OPT a client can legitimately be handed back (for aiming at
// the size boundary only).
func estOptLen(q aQ, cfg deployCfg, proto string) int {
	if !q.opt.present {
		return 0
	}
	n := 11
	for _, o := range q.opt.opts {
		switch {
		case o.code == optCookie && len(o.data) >= 8:
			n += 44
		case o.code == optNSID && len(cfg.nsid) > 0:
			n += 4 + len(cfg.nsid)
		case o.code == optKeepalive && proto == "tcp":
			n += 6
		}
	}
	return n
}

func limitOf(q aQ) int {
	adv := 512
	if q.opt.present {
		adv = q.opt.udp
	}
	return max(512, min(adv, 1232))
}

// forceMix >= 0 pins genR's DNSSEC content choice (see `mix` there).
var forceMix = -1

// genR builds an upstream response for q. target > 0 asks for a total reply
// size near target bytes (with `jitter` added to the last payload).
func genR(r *vlib.R, q aQ, cfg deployCfg, proto string, target int, jitter int) aR {
	u := aR{mode: 'e'}
	if r.Chance(1, 30) {
		u.mode = 'n'
	} else if r.Chance(1, 25) {
		u.mode = vlib.Pick(r, []byte{'p', 'P'})
	}
	switch r.Intn(10) {
	case 0:
		u.rcode = dns.RcodeNameError
	case 1:
		u.rcode = dns.RcodeServerFailure
	case 2:
		u.rcode = dns.RcodeRefused
	case 3:
		if q.opt.present && q.opt.ver == 0 && q.opcode == 0 {
			u.rcode = 16 + r.Intn(8)
		}
	}
	u.ad, u.aa, u.tc, u.ra, u.z = r.Bool(), r.Chance(1, 5), r.Chance(1, 20), r.Chance(4, 5), r.Chance(1, 30)
	id := 0
	next := func(kind byte, p int) aRR {
		id++
		x := aRR{kind: kind, id: id, p: p, owner: 'q'}
		if r.Chance(1, 4) {
			x.owner = 'u'
		}
		measure(&x, q.id)
		return x
	}
	// DNSSEC content: 0,1 none; 2,3 fully signed (every denial record with its
	// RRSIG); 4 denial records WITHOUT any signature; 5 each record signed or
	// not by a coin; 6 NSEC only; 7 NSEC3 only; 8 RRSIG only (no denial record)
	mix := r.Intn(9)
	if forceMix >= 0 {
		mix = forceMix
	}
	signed := mix == 2 || mix == 3 || mix == 8
	sigFor := func() bool { return signed || (mix == 5 && r.Bool()) }
	nan := r.Intn(4)
	if u.rcode == dns.RcodeNameError || (forceMix >= 0 && r.Bool()) {
		nan = 0
	}
	for i := 0; i < nan; i++ {
		u.an = append(u.an, next('A', r.Intn(48)))
		if sigFor() {
			u.an = append(u.an, next('S', vlib.Pick(r, []int{64, 96, 128})))
		}
	}
	if mix >= 4 && mix <= 7 && r.Chance(1, 5) {
		u.an = append(u.an, next(vlib.Pick(r, []byte{'N', '3'}), 0)) // a stray denial record in the answer
	}
	if q.qtype == int(dns.TypeRRSIG) && r.Chance(2, 3) {
		u.an = append(u.an, next('S', 64))
	}
	if nan == 0 || r.Chance(1, 4) || mix >= 4 {
		u.ns = append(u.ns, next('A', 30))
		if sigFor() {
			u.ns = append(u.ns, next('S', 64))
		}
		k := 0
		switch {
		case mix == 2 || mix == 3:
			k = r.Intn(3)
		case mix >= 4 && mix <= 7:
			k = 1 + r.Intn(2)
		}
		for ; k > 0; k-- {
			kind := vlib.Pick(r, []byte{'N', '3'})
			if mix == 6 {
				kind = 'N'
			} else if mix == 7 {
				kind = '3'
			}
			u.ns = append(u.ns, next(kind, 0))
			if sigFor() {
				u.ns = append(u.ns, next('S', 64))
			}
		}
	}
	for k := r.Intn(3); k > 0 && r.Chance(1, 2); k-- {
		u.ex = append(u.ex, next('A', r.Intn(20)))
	}
	if signed && r.Chance(1, 4) {
		u.ex = append(u.ex, next('S', 64)) // signatures in additional are not the property's business
	}
	if r.Chance(11, 20) {
		u.opt = aOpt{present: true, udp: vlib.Pick(r, []int{512, 1232, 4096}), do: r.Bool(), opts: genUpstreamOptions(r)}
		if r.Chance(1, 6) {
			u.opt = aOpt{present: true, same: true}
		}
		if r.Chance(1, 25) {
			u.opt.ver = 1
		}
		pos := r.Intn(len(u.ex) + 1)
		ex := append([]aRR(nil), u.ex[:pos]...)
		ex = append(ex, aRR{kind: 'O'})
		u.ex = append(ex, u.ex[pos:]...)
		if !u.opt.same && r.Chance(1, 40) {
			// a malformed upstream: the same OPT twice
			u.ex = append(u.ex, aRR{kind: 'O'})
		}
	}
	if target > 0 {
		// pad with one big record so that the reply a DO-less / DO client gets is near target
		cur := 12 + q.qlen + estOptLen(q, cfg, proto)
		clientDO := q.opt.present && q.opt.do
		for _, sec := range [][]aRR{u.an, u.ns, u.ex} {
			for _, x := range sec {
				if x.kind == 'O' {
					continue
				}
				strip := (x.kind == 'S' || x.kind == 'N' || x.kind == '3') && !clientDO && q.qtype != int(dns.TypeRRSIG)
				if !strip {
					cur += x.cl
				}
			}
		}
		// a TXT record "i<id>" + chunks: overhead = owner(2) + 10 + 1+len("i<id>") + chunk length bytes
		need := target - cur
		if need > 40 {
			probe := next('A', 0)
			p := need - probe.cl
			p -= (p + 254) / 255 // one length byte per 255-byte chunk
			p += jitter
			if p < 0 {
				p = 0
			}
			big := aRR{kind: 'A', id: probe.id, p: p, owner: probe.owner}
			measure(&big, q.id)
			u.an = append(u.an, big)
		}
	}
	return u
}

// packedBodyLen: the length of the packed response without its OPT — what the
// byte path is handed (Pack compresses differently from Len's estimate, so
// this is measured, not summed).
func packedBodyLen(q aQ, u aR) int {
	req := new(dns.Msg)
	if err := req.Unpack(rawQuery(q)); err != nil {
		return 0
	}
	up := buildUpstream(u, req)
	var extra []dns.RR
	for _, rr := range up.Extra {
		if _, ok := rr.(*dns.OPT); !ok {
			extra = append(extra, rr)
		}
	}
	up.Extra = extra
	up.Compress = true
	b, err := up.Pack()
	if err != nil {
		return 0
	}
	return len(b)
}

// packedHitLens: packed length of the body a cache entry for (q, u) stores, and
// of the one it prepares for DO=0 clients (equal when nothing is stripped).
func packedHitLens(q aQ, u aR) string {
	full := packedBodyLen(q, u)
	su := u
	strip := func(rs []aRR) []aRR {
		var out []aRR
		for _, x := range rs {
			if x.kind == 'S' || x.kind == 'N' || x.kind == '3' {
				continue
			}
			out = append(out, x)
		}
		return out
	}
	su.an, su.ns = strip(u.an), strip(u.ns)
	return fmt.Sprintf("%d,%d", full, packedBodyLen(q, su))
}

func protoPick(r *vlib.R) string {
	return vlib.Pick(r, []string{"udp", "udp", "udp", "tcp", "tcp", "doh", "doq"})
}

func genCfg(r *vlib.R) deployCfg {
	c := deployCfg{secret: r.Bool(), ecs: r.Chance(1, 3), ka: int(edns.VerifC06KeepaliveUnits())}
	if r.Bool() {
		c.nsid = []byte(vlib.Pick(r, []string{"ns1", "sdns-node-07.example"}))
	}
	return c
}

func cfgArgs(c deployCfg) string {
	return fmt.Sprintf("%s %s %s %d", vlib.Hex(c.nsid), vlib.B(c.secret), vlib.B(c.ecs), c.ka)
}

func genAccept(r *vlib.R) string {
	fl := r.Intn(65536)
	if r.Chance(2, 3) {
		fl = r.Intn(2)<<15 | r.Intn(16)<<11 | r.Intn(2048)
	}
	cnt := func() int {
		if r.Chance(1, 8) {
			return r.Intn(65536)
		}
		return vlib.Pick(r, []int{0, 0, 1, 1, 1, 2, 3, 65535})
	}
	qd := 1
	if r.Chance(1, 2) {
		qd = cnt()
	}
	small := func() int {
		if r.Chance(1, 2) {
			return 0
		}
		return cnt()
	}
	return fmt.Sprintf("accept hdr %d %d %d %d %d", fl, qd, small(), small(), small())
}

// malformed packets for the real listeners
// badOptions: OPT option lists whose payloads are out of shape in ways a
// decoder may or may not refuse (whether miekg refuses is the oracle's call).
func badOptions(r *vlib.R) []aOption {
	v4 := func(mask, scope byte, n int) []byte { return append([]byte{0, 1, mask, scope}, r.Bytes(n)...) }
	v6 := func(mask, scope byte, n int) []byte { return append([]byte{0, 2, mask, scope}, r.Bytes(n)...) }
	var o aOption
	switch r.Intn(14) {
	case 0: // scope above the family maximum, everything else in order
		o = aOption{optECS, v4(24, byte(33+r.Intn(223)), 3)}
	case 1:
		o = aOption{optECS, v6(56, byte(129+r.Intn(127)), 7)}
	case 2: // source prefix above the family maximum
		o = aOption{optECS, v4(byte(33+r.Intn(100)), 0, 4)}
	case 3:
		o = aOption{optECS, v6(byte(129+r.Intn(100)), 0, 16)}
	case 4: // unknown family
		o = aOption{optECS, append([]byte{0, byte(3 + r.Intn(200)), 8, 0}, r.Bytes(1)...)}
	case 5: // family 0 with a prefix
		o = aOption{optECS, []byte{0, 0, 8, 0, 1}}
	case 6: // shorter than its fixed part
		o = aOption{optECS, r.Bytes(r.Intn(4))}
	case 7: // address longer / shorter than the prefix needs
		o = aOption{optECS, v4(24, 0, vlib.Pick(r, []int{0, 1, 2, 4, 9}))}
	case 8:
		o = aOption{optKeepalive, r.Bytes(vlib.Pick(r, []int{1, 3, 4}))}
	case 9:
		o = aOption{optCookie, r.Bytes(vlib.Pick(r, []int{1, 5, 7, 41, 60}))}
	case 10:
		o = aOption{optEDE, r.Bytes(r.Intn(2))}
	case 11: // scope at the maximum exactly (well formed)
		o = aOption{optECS, v4(24, 32, 3)}
	case 12:
		o = aOption{optECS, v6(56, 128, 7)}
	default: // two cookies
		return []aOption{{optCookie, r.Bytes(8)}, {optCookie, r.Bytes(8)}}
	}
	os := []aOption{o}
	if r.Chance(1, 3) {
		os = append(os, aOption{optCookie, r.Bytes(8)})
	}
	if r.Chance(1, 4) {
		os = append([]aOption{{optNSID, nil}}, os...)
	}
	return os
}

// genMalformed: a body class crossed with a header class, over the question
// of `from` when given (so that the packet may hit a cached answer).
func genMalformed(r *vlib.R, from *aQ) []byte {
	q := genQ(r)
	if from != nil {
		q.id, q.qlen, q.qtype = from.id, from.qlen, from.qtype
	}
	q.opcode = 0
	q.opt.ver = 0
	body := r.Intn(11)
	if body == 10 {
		q.opt = aOpt{present: true, udp: vlib.Pick(r, []int{512, 1232, 4096}), do: r.Bool(), opts: badOptions(r)}
	}
	base := rawQuery(q)
	switch body {
	case 0, 1: // a fine body
	case 2: // no question
		base = base[:12]
		binary.BigEndian.PutUint16(base[4:], 0)
		binary.BigEndian.PutUint16(base[10:], 0)
	case 3: // two questions
		qs := base[12 : 12+q.qlen]
		nb := append([]byte(nil), base[:12+q.qlen]...)
		nb = append(nb, qs...)
		nb = append(nb, base[12+q.qlen:]...)
		binary.BigEndian.PutUint16(nb[4:], 2)
		base = nb
	case 4: // QDCOUNT says one, body is missing
		base = base[:12]
		binary.BigEndian.PutUint16(base[10:], 0)
	case 5: // section counts that promise records which are not there
		binary.BigEndian.PutUint16(base[6+2*r.Intn(2):], uint16(1+r.Intn(3)))
	case 6: // truncated body
		if len(base) > 13 {
			base = base[:13+r.Intn(len(base)-13)]
		}
	case 7: // garbage after the header
		base = append(base[:12], r.Bytes(1+r.Intn(40))...)
	case 8: // too many additionals announced
		binary.BigEndian.PutUint16(base[10:], uint16(3+r.Intn(4)))
	case 9: // an option whose length runs past the OPT
		if q.opt.present {
			base = append(base[:len(base)-0], 0, 10, 0, 9, 1, 2)
			// RDLENGTH now covers a cookie header promising 9 bytes with 2 present
			off := 12 + q.qlen + 9
			if off+2 <= len(base) {
				binary.BigEndian.PutUint16(base[off:], binary.BigEndian.Uint16(base[off:])+6)
			}
		}
	}
	if len(base) < 4 {
		return base
	}
	fl := binary.BigEndian.Uint16(base[2:])
	switch r.Intn(12) {
	case 0, 1, 2, 3: // QUERY
	case 4, 5, 6: // NOTIFY: the one foreign opcode the header gate lets through
		fl = fl&^0x7800 | 4<<11
	case 7, 8: // every other opcode
		fl = fl&^0x7800 | uint16(vlib.Pick(r, []int{1, 2, 3, 5, 6, 7, 8, 9, 10, 11, 12, 13, 14, 15}))<<11
	case 9: // a response to nothing
		fl |= 0x8000
	case 10: // response bit with some opcode
		fl = fl&^0x7800 | 0x8000 | uint16(r.Intn(16))<<11
	case 11: // shorter than a header
		return base[:r.Intn(12)]
	}
	binary.BigEndian.PutUint16(base[2:], fl)
	return base
}

const plainR = "R:e:0:R:-:-:-:-"

// decTok: the DNS library's verdict on the packet, written on the op line so
// that the model can predict the engines' FORMERR for an undecodable body.
func decTok(pkt []byte) string {
	if new(dns.Msg).Unpack(pkt) != nil {
		return "dec=f"
	}
	return "dec=t"
}

func rawOp(entry string, pkt []byte) string {
	return fmt.Sprintf("srv raw %s %s %s %s", entry, vlib.Hex(pkt), plainR, decTok(pkt))
}

func gen(r *vlib.R, n int, tier string, emit func(string)) {
	budget := n
	emitN := func(s string) {
		emit(s)
		budget--
	}
	// ---- function level
	fnBudget := n * 6 / 10
	for budget > n-fnBudget {
		cfg := genCfg(r)
		emitN("edns new " + cfgArgs(cfg))
		for k := 20 + r.Intn(30); k > 0; k-- {
			switch x := r.Intn(20); {
			case x < 2:
				emitN("edns set0 " + genQ(r).String())
			case x < 3:
				// the byte path: edns WireReady/WriteWire, and what the cache hands it
				q := genQ(r)
				q.opcode, q.opt.ver = 0, 0
				proto := vlib.Pick(r, []string{"udp", "udp", "tcp", "tcp", "doh"})
				target := 0
				if proto == "udp" && r.Chance(1, 2) {
					target = limitOf(q) + vlib.Pick(r, []int{-2, -1, 0, 1, 2, 30})
				}
				u := genR(r, q, cfg, proto, target, 0)
				u.mode = 'e'
				if u.rcode > 15 {
					u.rcode = 0
				}
				if len(u.ex) > 0 && u.opt.same {
					u.opt = aOpt{present: true, udp: 1232, opts: genUpstreamOptions(r)}
				}
				if r.Bool() {
					emitN(fmt.Sprintf("edns wirewrite %s %s %d %s %s", vlib.Pick(r, []string{"d", "w"}), proto, packedBodyLen(q, u), q, u))
				} else {
					if r.Bool() {
						emitN(fmt.Sprintf("edns cachewire %s %s %s %d", vlib.B(r.Bool()), q, u, r.Intn(64)))
					} else {
						emitN(fmt.Sprintf("edns cachewire %s %s %s", vlib.B(r.Bool()), q, u))
					}
				}
			case x == 5 && r.Chance(1, 2):
				// the real failover middleware with two real fallback servers: the chain
				// below answers SERVFAIL (mostly), the fallbacks answer SERVFAIL / data / nothing
				q := genQ(r)
				q.opcode, q.opt.ver = 0, 0
				if r.Chance(5, 6) {
					q.rd = true
				}
				small := func(rc int) aR {
					u := aR{mode: 'e', rcode: rc, ra: true, ad: r.Bool()}
					if rc == 0 {
						a := aRR{kind: 'A', id: 1, p: r.Intn(40), owner: 'q'}
						measure(&a, q.id)
						u.an = []aRR{a}
						if r.Bool() {
							s2 := aRR{kind: 'S', id: 2, p: 64, owner: 'q'}
							measure(&s2, q.id)
							u.an = append(u.an, s2)
						}
					}
					if r.Chance(1, 3) {
						u.opt = aOpt{present: true, udp: 1232, do: true, opts: genUpstreamOptions(r)}
						u.ex = []aRR{{kind: 'O'}}
					}
					return u
				}
				rc := dns.RcodeServerFailure
				if r.Chance(1, 5) {
					rc = vlib.Pick(r, []int{0, dns.RcodeNameError, dns.RcodeRefused})
				}
				f := func() aR {
					// (a REFUSED from a fallback is the client library's to skip, not failover's to pass on)
					return small(vlib.Pick(r, []int{dns.RcodeServerFailure, dns.RcodeServerFailure, 0, dns.RcodeNameError}))
				}
				emitN(fmt.Sprintf("edns failover %s %s %s %s %s %s", vlib.Pick(r, []string{"d", "w"}), protoPick(r), q, small(rc), f(), f()))
			case x == 9 && r.Chance(1, 2):
				// the real rate limiter ahead of edns: a first query leaves a cookie on
				// record (or not), the second comes with the same / another / no cookie
				c1 := r.Bytes(8)
				q1 := genQ(r)
				q1.opcode, q1.opt, q1.qclass = 0, aOpt{present: true, udp: 1232}, 0
				if r.Chance(5, 6) {
					q1.opt.opts = []aOption{{optCookie, c1}}
				}
				q2 := genQ(r)
				q2.opcode = 0
				var keep []aOption
				for _, o := range q2.opt.opts {
					if o.code != optCookie {
						keep = append(keep, o)
					}
				}
				if q2.opt.present {
					sec := ""
					if cfg.secret {
						sec = secretText
					}
					switch r.Intn(4) {
					case 0: // the cookie on record, complete
						keep = append(keep, aOption{optCookie, serverCookieFor(clientIP, c1, sec)})
					case 1: // the same client half with a stale server half
						keep = append(keep, aOption{optCookie, append(append([]byte(nil), c1...), r.Bytes(32)...)})
					case 2: // another client
						keep = append(keep, aOption{optCookie, r.Bytes(8)})
					}
					q2.opt.opts = keep
				}
				proto := protoPick(r)
				if r.Bool() {
					proto = "udp" // BADCOOKIE is a UDP answer
				}
				u := genR(r, q2, cfg, proto, 0, 0)
				if u.mode != 'e' {
					u.mode = 'e'
				}
				k, sm := rlFacts(q1, q2, cfg.deploy().secret)
				emitN(fmt.Sprintf("edns ratelimit %s %s k=%s,s=%s %s %s %s", vlib.Pick(r, []string{"d", "w"}), proto, vlib.B(k), vlib.B(sm), q1, q2, u))
			case x == 8 && r.Chance(1, 2):
				// a private reverse name at the real AS112 handler, in every class
				q := genQ(r)
				q.id = arpaFrom + r.Intn(0x7000-arpaFrom)
				q.qlen = len(wireName(qnameOf(q.id))) + 4
				q.opcode = 0
				q.qtype = vlib.Pick(r, []int{int(dns.TypePTR), int(dns.TypePTR), int(dns.TypeA), int(dns.TypeSOA), int(dns.TypeNS), int(dns.TypeDS), int(dns.TypeTXT), int(dns.TypeANY)})
				if r.Bool() {
					q.qclass = vlib.Pick(r, []int{3, 4, 254, 255, 7})
				}
				emitN(fmt.Sprintf("edns as112 %s %s %s", vlib.Pick(r, []string{"d", "w", "w"}), protoPick(r), q))
			case x == 7 && r.Chance(1, 2):
				// the cache's byte-route alias chase: a bare alias (CNAME only) and its
				// target, admitted with independent AD bits, asked by any kind of client
				q := genQ(r)
				q.opcode, q.rd, q.mask, q.opt.ver, q.qclass = 0, true, 0, 0, 0
				q.qtype = int(dns.TypeTXT)
				var keep []aOption
				for _, o := range q.opt.opts {
					if o.code != optECS {
						keep = append(keep, o)
					}
				}
				q.opt.opts = keep
				if q.opt.present && q.opt.udp < 1232 && q.opt.udp != 0 {
					q.opt.udp = 1232
				}
				tq := aQ{id: q.id%0x6000 + 1, rd: true, cd: q.cd, qtype: q.qtype}
				if tq.id == q.id {
					tq.id++
				}
				tq.qlen = len(wireName(qnameOf(tq.id))) + 4
				rt := aR{mode: 'e', ra: true, ad: r.Bool()}
				for i := 1 + r.Intn(2); i > 0; i-- {
					a := aRR{kind: 'A', id: i, p: r.Intn(30), owner: 'q'}
					measure(&a, tq.id)
					rt.an = append(rt.an, a)
				}
				ra := aR{mode: 'e', ra: true, ad: r.Chance(2, 3), aa: r.Chance(1, 4), an: []aRR{{kind: 'C', id: 1, p: tq.id, owner: 'q'}}}
				emitN(fmt.Sprintf("edns hitchase %s %s %s %s %s %s", vlib.Pick(r, []string{"d", "w", "w", "w"}), vlib.Pick(r, []string{"udp", "tcp", "tcp"}), q, ra, tq, rt))
			case x == 6 && r.Chance(1, 4):
				// an entry that carries an extended error, hit over UDP with the
				// reply stepping across the client's limit: the OPT's EDE counts
				q := genQ(r)
				q.opcode, q.rd, q.mask, q.cd, q.qclass = 0, true, 0, false, 0
				q.qtype = int(dns.TypeA)
				q.opt = aOpt{present: true, udp: vlib.Pick(r, []int{512, 700, 1232, 4096}), do: r.Bool()}
				if r.Bool() {
					q.opt.opts = []aOption{{optCookie, r.Bytes(8)}}
				}
				ede := append([]byte{0, byte(r.Intn(25))}, []byte(vlib.Pick(r, []string{"", "stale", "upstream said so", "a rather long explanation of what went wrong upstream"}))...)
				st := r.U64()
				for j := -34; j <= 6; j += 4 {
					rr := vlib.NewR(st)
					u := genR(rr, q, cfg, "udp", limitOf(q), j)
					u.mode, u.tc, u.rcode, u.ra = 'e', false, 0, true
					for _, sec := range []*[]aRR{&u.an, &u.ns, &u.ex} {
						for i := range *sec {
							if (*sec)[i].kind != 'O' && (*sec)[i].owner != 'q' {
								(*sec)[i].owner = 'q'
								measure(&(*sec)[i], q.id)
							}
						}
					}
					hasO := false
					for _, x := range u.ex {
						if x.kind == 'O' {
							hasO = true
						}
					}
					if !hasO {
						u.ex = append(u.ex, aRR{kind: 'O'})
					}
					u.opt = aOpt{present: true, udp: 1232, opts: []aOption{{optEDE, ede}}}
					if j%8 == 2 {
						emitN(fmt.Sprintf("edns wirewrite %s udp %d %s %s", vlib.Pick(r, []string{"d", "w"}), packedBodyLen(q, u), q, u))
					} else {
						emitN(fmt.Sprintf("edns hit %s udp %s %s %s", vlib.Pick(r, []string{"d", "w"}), packedHitLens(q, u), q, u))
					}
				}
				k -= 10
			case x < 4 && r.Bool():
				// the real cache handler serving a hit (byte route when the writer
				// allows it, message route otherwise), behind the real edns
				q := genQ(r)
				q.opcode, q.rd, q.mask, q.opt.ver, q.qclass = 0, true, 0, 0, 0
				if _, known := dns.TypeToString[uint16(q.qtype)]; !known {
					q.qtype = int(dns.TypeA) // the cache drops a type it cannot name without a reply (C11's business)
				}
				var keep []aOption
				for _, o := range q.opt.opts {
					if o.code != optECS {
						keep = append(keep, o)
					}
				}
				q.opt.opts = keep
				proto := protoPick(r)
				target := 0
				if proto == "udp" && r.Chance(1, 3) {
					target = limitOf(q) + vlib.Pick(r, []int{-2, -1, 0, 1, 2, 40})
				}
				u := genR(r, q, cfg, proto, target, 0)
				u.mode, u.tc = 'e', false
				if u.rcode != dns.RcodeNameError {
					u.rcode = 0
				}
				if u.opt.same {
					u.opt = aOpt{present: true, udp: 1232, opts: genUpstreamOptions(r)}
				}
				// which records of a response the cache admits (owner in the
				// alias chain of the question) is C03/C07's business: every record
				// here is owned by the question name, and a NOERROR answer is not empty
				u.ra = true
				for _, sec := range []*[]aRR{&u.an, &u.ns, &u.ex} {
					for i := range *sec {
						if (*sec)[i].kind != 'O' && (*sec)[i].owner != 'q' {
							(*sec)[i].owner = 'q'
							measure(&(*sec)[i], q.id)
						}
					}
				}
				if u.rcode == 0 && len(u.an) == 0 {
					x := aRR{kind: 'A', id: 99, p: 12, owner: 'q'}
					measure(&x, q.id)
					u.an = []aRR{x}
				}
				emitN(fmt.Sprintf("edns hit %s %s %s %s %s", vlib.Pick(r, []string{"d", "w"}), proto, packedHitLens(q, u), q, u))
			case x < 4:
				q := genQ(r)
				q.opcode = 0
				if r.Chance(1, 8) {
					q.opcode = 1 + r.Intn(15)
				}
				u := genR(r, q, cfg, "tcp", 0, 0)
				u.mode = 'e'
				if r.Bool() {
					// the entry was admitted under another spelling of the same name
					emitN(fmt.Sprintf("edns tomsg %s %s %d", q, u, r.Intn(64)))
				} else {
					emitN(fmt.Sprintf("edns tomsg %s %s", q, u))
				}
			case x < 5:
				emitN(genAccept(r))
				// Request.ParseWire on a packet: plain, malformed, or with odd options
				var pkt []byte
				switch r.Intn(4) {
				case 0:
					pq := genQ(r)
					pq.opcode = 0
					pkt = rawQuery(pq)
				case 1:
					pq := genQ(r)
					pq.opcode, pq.opt = 0, aOpt{present: true, udp: 1232, do: r.Bool(), opts: badOptions(r)}
					pkt = rawQuery(pq)
				default:
					pkt = genMalformed(r, nil)
				}
				if r.Chance(1, 6) && len(pkt) > 12 {
					pkt[12+r.Intn(len(pkt)-12)] ^= byte(1 << uint(r.Intn(8)))
				}
				if len(pkt) > 0 {
					emitN("edns parsewire " + vlib.Hex(pkt))
				}
			case x < 9:
				// size boundary sweep on udp: the same pair with the payload stepping across the limit
				q := genQ(r)
				q.opcode = 0
				q.opt.ver = 0
				if q.opt.present && r.Chance(2, 3) {
					q.opt.udp = vlib.Pick(r, []int{511, 512, 513, 1231, 1232, 1233, 4096, 700})
				}
				path := vlib.Pick(r, []string{"d", "w"})
				st := r.U64()
				for j := -2; j <= 2; j++ {
					rr := vlib.NewR(st) // same structure, different padding
					u := genR(rr, q, cfg, "udp", limitOf(q), j)
					u.mode = 'e'
					emitN(fmt.Sprintf("edns serve %s udp %s %s", path, q, u))
				}
				k -= 4
			default:
				q := genQ(r)
				proto := protoPick(r)
				target := 0
				if r.Chance(1, 5) {
					target = vlib.Pick(r, []int{400, 600, 1300, 2500, 5000})
				}
				u := genR(r, q, cfg, proto, target, 0)
				emitN(fmt.Sprintf("edns serve %s %s %s %s", vlib.Pick(r, []string{"d", "w"}), proto, q, u))
			}
		}
	}
	if tier == "thorough" {
		// exhaustive small scope: DO x AD x CD x upstream AD x proto, with and without OPT
		cfg := deployCfg{nsid: []byte("ns1"), secret: true, ka: int(edns.VerifC06KeepaliveUnits())}
		emit("edns new " + cfgArgs(cfg))
		id := 100
		for _, proto := range []string{"udp", "tcp", "doh", "doq"} {
			for mask := 0; mask < 32; mask++ {
				id++
				q := aQ{id: id, rd: true, ad: mask&1 != 0, cd: mask&2 != 0, qtype: 1}
				q.qlen = len(wireName(qnameOf(q.id))) + 4
				if mask&4 != 0 {
					q.opt = aOpt{present: true, udp: 1232, do: mask&8 != 0}
				}
				s := aRR{kind: 'S', id: 2, p: 64, owner: 'q'}
				a := aRR{kind: 'A', id: 1, p: 10, owner: 'q'}
				measure(&s, q.id)
				measure(&a, q.id)
				u := aR{mode: 'e', ad: mask&16 != 0, ra: true, an: []aRR{a, s}}
				emit(fmt.Sprintf("edns serve d %s %s %s", proto, q, u))
				emit(fmt.Sprintf("edns serve w %s %s %s", proto, q, u))
			}
		}
		// every advertised size around the two thresholds
		for _, adv := range []int{505, 506, 507, 508, 509, 510, 511, 512, 513, 514, 515, 1228, 1229, 1230, 1231, 1232, 1233, 1234, 1235} {
			id++
			q := aQ{id: id, rd: true, qtype: 1, opt: aOpt{present: true, udp: adv}}
			q.qlen = len(wireName(qnameOf(q.id))) + 4
			emit("edns set0 " + q.String())
			for j := -3; j <= 3; j++ {
				rr := vlib.NewR(uint64(adv))
				u := genR(rr, q, cfg, "udp", limitOf(q), j)
				u.mode = 'e'
				emit(fmt.Sprintf("edns serve d udp %s %s", q, u))
			}
		}
	}

	// ---- transport level
	lives := 3
	if tier == "thorough" {
		lives = 8
	}
	per := budget / lives
	if per < 40 {
		per = 40
	}
	for l := 0; l < lives; l++ {
		cfg := genCfg(r)
		withCache := l%3 != 2
		if l%3 == 0 {
			// the AS112 empty zones answer reverse names of private space themselves
			emit(fmt.Sprintf("srv new %s %s as112", cfgArgs(cfg), vlib.B(withCache)))
		} else if l%3 == 1 {
			// the rate limiter (cookie check, BADCOOKIE) stands ahead of edns on this one
			emit(fmt.Sprintf("srv new %s %s rl=100000", cfgArgs(cfg), vlib.B(withCache)))
		} else {
			emit(fmt.Sprintf("srv new %s %s", cfgArgs(cfg), vlib.B(withCache)))
		}
		var pool []aQ
		for k := 0; k < per; k++ {
			entry := vlib.Pick(r, []string{"rawudp", "rawudp", "rawtcp", "inline", "msgdoh", "msgdoq", "http", "httpget", "sockudp", "sockudp", "socktcp", "socktcp", "sockdoq"})
			if r.Chance(1, 5) {
				var from *aQ
				if len(pool) > 0 && r.Bool() {
					from = &pool[r.Intn(len(pool))]
				}
				emit(rawOp(vlib.Pick(r, []string{"sockudp", "socktcp"}), genMalformed(r, from)))
				continue
			}
			if r.Chance(1, 12) {
				// the same malformed stream at the entries that have no header gate of their own
				emit(rawOp(vlib.Pick(r, []string{"http", "httpget", "msgdoh", "msgdoq", "rawudp", "rawudp", "rawtcp", "rawtcp", "inline"}), genMalformed(r, nil)))
				continue
			}
			if l%3 == 0 && r.Chance(1, 10) {
				// private reverse names in every class at the live AS112 handler
				aq := genQ(r)
				aq.id = arpaFrom + r.Intn(0x7000-arpaFrom)
				aq.qlen = len(wireName(qnameOf(aq.id))) + 4
				aq.opcode, aq.qtype, aq.opt.ver = 0, int(dns.TypePTR), 0
				for _, cl := range []int{1, 3, 4, 254, 255, 7} {
					hq := aq
					hq.qclass = cl
					emit(fmt.Sprintf("srv q %s %s %s", vlib.Pick(r, []string{"rawudp", "rawtcp", "inline", "sockudp", "socktcp", "msgdoh", "httpget", "sockdoq"}), hq, plainR))
				}
				k += 5
				continue
			}
			if r.Chance(1, 14) {
				// a resolution failure on record (RFC 9520), then the same question
				// again from clients with every mix of AD / CD / DO, on the byte
				// route and as messages
				fq := genQ(r)
				fq.opcode, fq.rd, fq.mask, fq.cd = 0, true, 0, r.Bool()
				fq.qtype = vlib.Pick(r, []int{int(dns.TypeA), int(dns.TypeAAAA), int(dns.TypeTXT)})
				if fq.opt.present {
					fq.opt.ver = 0
					fq.opt.opts = nil
				}
				fu := aR{mode: 'e', rcode: dns.RcodeServerFailure, ra: true}
				emit(fmt.Sprintf("srv q rawudp %s %s", fq, fu))
				for h := 0; h < 4; h++ {
					hq := fq
					hq.ad = r.Bool()
					switch r.Intn(3) {
					case 0:
						hq.opt = aOpt{}
					case 1:
						hq.opt = aOpt{present: true, udp: vlib.Pick(r, []int{512, 1232, 4096}), do: r.Bool()}
					default:
						hq.opt = aOpt{present: true, udp: 1232, do: false, opts: []aOption{{optCookie, r.Bytes(8)}}}
					}
					emit(fmt.Sprintf("srv q %s %s %s", vlib.Pick(r, []string{"rawudp", "rawtcp", "inline", "sockudp", "socktcp", "msgdoh", "sockdoq"}), hq, fu))
				}
				k += 4
				continue
			}
			if r.Chance(1, 12) {
				// alias chase out of the cache: a target and a bare alias to it
				// are warmed in with independent AD bits, then the alias is asked
				// again by clients that did / did not ask for AD, on the byte path
				// and on the message path
				tq := genQ(r)
				tq.opcode, tq.qtype, tq.cd, tq.mask, tq.rd = 0, int(dns.TypeTXT), false, 0, true
				tq.opt = aOpt{present: true, udp: 1232, do: true}
				tu := aR{mode: 'e', ra: true, ad: r.Bool()}
				ta := aRR{kind: 'A', id: 1, p: 10 + r.Intn(20), owner: 'q'}
				measure(&ta, tq.id)
				tu.an = []aRR{ta}
				seeded := withCache && r.Chance(2, 3)
				if seeded {
					emit(fmt.Sprintf("srv seed %s %s", tq, tu))
				} else {
					emit(fmt.Sprintf("srv q rawudp %s %s", tq, tu))
				}
				aq := genQ(r)
				for aq.id == tq.id {
					aq = genQ(r)
				}
				aq.opcode, aq.qtype, aq.cd, aq.mask, aq.rd = 0, int(dns.TypeTXT), false, 0, true
				aq.opt = aOpt{present: true, udp: 1232, do: true}
				au := aR{mode: 'e', ra: true, ad: r.Chance(2, 3)}
				au.an = []aRR{{kind: 'C', id: 1, p: tq.id, owner: 'q'}}
				if seeded {
					emit(fmt.Sprintf("srv seed %s %s", aq, au))
				} else {
					emit(fmt.Sprintf("srv q rawudp %s %s", aq, au))
				}
				for h := 0; h < 4; h++ {
					hq := aq
					hq.ad, hq.cd = r.Chance(1, 3), r.Chance(1, 6)
					switch r.Intn(3) {
					case 0:
						hq.opt = aOpt{}
					case 1:
						hq.opt = aOpt{present: true, udp: vlib.Pick(r, []int{512, 1232, 4096}), do: r.Chance(1, 4), opts: genClientOptions(r)}
					default:
						hq.opt = aOpt{present: true, udp: 1232}
					}
					emit(fmt.Sprintf("srv q %s %s %s", vlib.Pick(r, []string{"rawudp", "rawtcp", "inline", "sockudp", "socktcp", "msgdoh", "httpget", "sockdoq"}), hq, au))
				}
				k += 5
				continue
			}
			if r.Chance(1, 10) {
				// denial records with and without signatures, warmed into the
				// cache and then asked again by DO=0 clients on the byte path
				q := genQ(r)
				q.opcode, q.qtype = 0, vlib.Pick(r, []int{int(dns.TypeA), int(dns.TypeAAAA), int(dns.TypeTXT), int(dns.TypeNSEC), int(dns.TypeNSEC3), int(dns.TypeDNSKEY)})
				q.cd = false
				q.opt = aOpt{present: true, udp: 1232, do: false}
				forceMix = vlib.Pick(r, []int{4, 4, 5, 6, 7, 8, 2})
				u := genR(r, q, cfg, "udp", 0, 0)
				forceMix = -1
				u.mode, u.tc, u.rcode = 'e', false, 0
				emit(fmt.Sprintf("srv q rawudp %s %s", q, u))
				for h := 0; h < 3; h++ {
					hq := q
					hq.rd, hq.ad = q.rd, r.Chance(1, 4)
					if r.Bool() {
						hq.mask = r.Intn(64)
					}
					switch r.Intn(3) {
					case 0:
						hq.opt = aOpt{}
					case 1:
						hq.opt = aOpt{present: true, udp: vlib.Pick(r, []int{512, 1232, 4096}), do: false, opts: genClientOptions(r)}
					}
					emit(fmt.Sprintf("srv q %s %s %s", vlib.Pick(r, []string{"rawudp", "rawtcp", "inline", "sockudp", "socktcp"}), hq, u))
				}
				k += 3
				continue
			}
			q := genQ(r)
			if len(pool) > 0 && r.Chance(1, 3) {
				// ask an earlier question again (cache hit), possibly as a different kind of client
				old := vlib.Pick(r, pool)
				if r.Chance(1, 3) {
					q = old
				} else {
					q.id, q.qlen, q.qtype, q.opcode = old.id, old.qlen, old.qtype, 0
				}
				if r.Bool() {
					q.mask = r.Intn(64) // the same name in another spelling: still a hit
				}
			}
			pool = append(pool, q)
			proto := kindOf(entry).proto
			target := 0
			if r.Chance(1, 3) {
				target = limitOf(q) + vlib.Pick(r, []int{-40, -3, -1, 0, 1, 2, 40, 900, 3000})
			}
			u := genR(r, q, cfg, proto, target, 0)
			if u.mode != 'p' && u.mode != 'P' {
				u.mode = 'e'
			}
			emit(fmt.Sprintf("srv q %s %s %s", entry, q, u))
		}
		emit("srv stop")
	}
}
