//go:build verif

// The C06 oracle: judges the RAW reply bytes against the RAW query bytes,
// clause by clause, from the property text. It decodes both with the miekg
// library and reads header words by hand; it calls none of the functions under
// test (no SetEdns0, no edns writer, no acceptHeader) and knows nothing about
// what the upstream response looked like.
package main

import (
	"bytes"
	"encoding/binary"
	"fmt"

	"github.com/miekg/dns"
)

// deployment facts the property quantifies over ("NSID / cookie secret / ECS
// policy configured or not") — the oracle needs them to tell the server's own
// options from foreign ones.
type deploy struct {
	nsid     []byte // configured NSID bytes (nil = not configured)
	secret   string
	remoteIP string
}

type entryKind struct {
	proto    string // udp tcp doh doq
	listener bool   // a datagram/stream listener (engine-level accept rules apply)
}

const (
	optNSID      = 3
	optECS       = 8
	optCookie    = 10
	optKeepalive = 11
	optPadding   = 12
	optEDE       = 15
)

type qview struct {
	hdrOK                    bool
	id                       uint16
	flags                    uint16
	qd, an, ns, ar           uint16
	decodable                bool
	msg                      *dns.Msg
	hasOPT                   bool
	adv                      int
	do                       bool
	ver                      int
	clientCookie             []byte
	cookieOpts               [][]byte // every COOKIE option the query carried, whole
	wantsNSID, hasKA, hasECS bool
	opts                     []aOption
}

func viewQuery(raw []byte) qview {
	var v qview
	if len(raw) < 12 {
		return v
	}
	v.hdrOK = true
	v.id = binary.BigEndian.Uint16(raw)
	v.flags = binary.BigEndian.Uint16(raw[2:])
	v.qd, v.an, v.ns, v.ar = binary.BigEndian.Uint16(raw[4:]), binary.BigEndian.Uint16(raw[6:]), binary.BigEndian.Uint16(raw[8:]), binary.BigEndian.Uint16(raw[10:])
	m := new(dns.Msg)
	if err := m.Unpack(raw); err != nil {
		return v
	}
	v.decodable, v.msg = true, m
	for _, rr := range m.Extra {
		if o, ok := rr.(*dns.OPT); ok {
			v.hasOPT = true
			v.adv = int(o.UDPSize())
			v.do = o.Do()
			v.ver = int(o.Version())
			v.opts = optOptions(o)
		}
	}
	for _, o := range v.opts {
		switch o.code {
		case optCookie:
			v.cookieOpts = append(v.cookieOpts, o.data)
			if len(o.data) >= 8 {
				v.clientCookie = o.data[:8]
			}
		case optNSID:
			v.wantsNSID = true
		case optKeepalive:
			v.hasKA = true
		case optECS:
			v.hasECS = true
		}
	}
	return v
}

func (v qview) opcode() int { return int(v.flags>>11) & 0xF }
func (v qview) qr() bool    { return v.flags&0x8000 != 0 }
func (v qview) cd() bool    { return v.flags&0x0010 != 0 }
func (v qview) ad() bool    { return v.flags&0x0020 != 0 }

func fail(sig, detail string) string { return "FAIL sig=" + sig + " " + detail }

// udpLimit is the property's bound: max(512, min(advertised, 1232)); a client
// without EDNS advertises the classic 512.
func udpLimit(v qview) int {
	adv := 512
	if v.hasOPT {
		adv = v.adv
	}
	if adv > 1232 {
		adv = 1232
	}
	if adv < 512 {
		adv = 512
	}
	return adv
}

// judge returns "ok" or the first violated clause. reply == nil means the
// server stayed silent.
func judge(entry string, ek entryKind, d deploy, query []byte, reply []byte) string {
	return judgeHinted(entry, ek, d, query, reply, aR{})
}

// judgeHinted is judge; the scripted upstream response is used ONLY to label
// a failure (an offending option that is byte-identical to one the upstream
// put in its OPT gets the entry-independent signature of that defect class),
// never to decide whether the reply is acceptable.
func judgeHinted(entry string, ek entryKind, d deploy, query []byte, reply []byte, up aR) string {
	fromUpstream := func(o aOption) bool {
		if !up.opt.present || up.opt.same {
			return false
		}
		for _, x := range up.opt.opts {
			if x.code == o.code && bytes.Equal(x.data, o.data) {
				return true
			}
		}
		return false
	}
	const passThrough = "reply/option/upstream-option-passed-through"
	v := viewQuery(query)
	if !v.hdrOK {
		return "-" // shorter than a header: the property says nothing
	}
	e := entry

	// --- packets that are themselves responses are never answered
	if ek.listener && v.qr() {
		if reply != nil {
			return fail(e+"/qr-packet/answered", fmt.Sprintf("reply=%x", head(reply)))
		}
		return "ok"
	}
	if reply == nil {
		// A listener owes NOTIMP to a foreign opcode and FORMERR to a bad
		// QDCOUNT or an undecodable body: silence is not among the verdicts.
		if ek.listener && (v.opcode() != dns.OpcodeQuery || v.qd != 1 || !v.decodable) {
			return fail(e+"/verdict/rejectable-packet-unanswered", fmt.Sprintf("opcode=%d qd=%d decodable=%v", v.opcode(), v.qd, v.decodable))
		}
		// Silence towards a well-formed query is C11's business, not C06's.
		return "-"
	}
	if len(reply) < 12 {
		return fail(e+"/reply/short", fmt.Sprintf("len=%d", len(reply)))
	}
	rid := binary.BigEndian.Uint16(reply)
	rfl := binary.BigEndian.Uint16(reply[2:])
	rqd := binary.BigEndian.Uint16(reply[4:])
	ran, rns, rar := binary.BigEndian.Uint16(reply[6:]), binary.BigEndian.Uint16(reply[8:]), binary.BigEndian.Uint16(reply[10:])
	rcodeLow := int(rfl & 0xF)

	// --- every reply: QR, id, opcode
	if rfl&0x8000 == 0 {
		return fail(e+"/echo/qr-clear", "")
	}
	wantID := v.id
	if ek.proto == "doq" {
		wantID = 0
	}
	if rid != wantID {
		return fail(e+"/echo/id", fmt.Sprintf("want=%d got=%d", wantID, rid))
	}
	if int(rfl>>11)&0xF != v.opcode() {
		return fail(e+"/echo/opcode", fmt.Sprintf("want=%d got=%d", v.opcode(), int(rfl>>11)&0xF))
	}

	bare := len(reply) == 12 && rqd == 0 && ran == 0 && rns == 0 && rar == 0 &&
		(rcodeLow == dns.RcodeFormatError || rcodeLow == dns.RcodeNotImplemented)

	// --- listener verdicts
	if ek.listener {
		badOpcode := v.opcode() != dns.OpcodeQuery
		mustFormErr := v.qd != 1 || !v.decodable
		// "bad section counts": also what the decoder made of a lenient parse,
		// and counts no query has. Either verdict is right when a foreign
		// opcode meets such a packet.
		oddCounts := mustFormErr || len(v.msg.Question) != 1 || v.an > 1 || v.ns > 1 || v.ar > 2
		switch {
		case badOpcode && oddCounts:
			if rcodeLow != dns.RcodeNotImplemented && rcodeLow != dns.RcodeFormatError {
				return fail(e+"/verdict/opcode+counts", fmt.Sprintf("rcode=%d", rcodeLow))
			}
		case badOpcode:
			if rcodeLow != dns.RcodeNotImplemented {
				return fail(e+"/verdict/opcode-not-notimp", fmt.Sprintf("opcode=%d rcode=%d", v.opcode(), rcodeLow))
			}
		case mustFormErr:
			if rcodeLow != dns.RcodeFormatError {
				return fail(e+"/verdict/bad-packet-not-formerr", fmt.Sprintf("qd=%d decodable=%v rcode=%d", v.qd, v.decodable, rcodeLow))
			}
		}
	}
	if bare {
		return "ok"
	}

	rm := new(dns.Msg)
	if err := rm.Unpack(reply); err != nil {
		return fail(e+"/reply/undecodable", err.Error())
	}

	// --- unsupported EDNS version gets BADVERS
	if v.decodable && v.opcode() == 0 && v.qd == 1 && v.hasOPT && v.ver != 0 && (ek.proto == "udp" || ek.proto == "tcp") {
		if rm.Rcode == dns.RcodeBadCookie {
			// label only: the rate limiter's cookie check answered before edns saw the version
			return fail("reply/badcookie/ahead-of-version-check", fmt.Sprintf("entry=%s ver=%d", e, v.ver))
		}
		if rm.Rcode != dns.RcodeBadVers {
			return fail(e+"/verdict/version-not-badvers", fmt.Sprintf("ver=%d rcode=%d", v.ver, rm.Rcode))
		}
	}

	// --- question echoed
	if v.decodable && len(v.msg.Question) > 0 {
		if len(rm.Question) != 1 || rm.Question[0] != v.msg.Question[0] {
			return fail(e+"/echo/question", fmt.Sprintf("want=%v got=%v", v.msg.Question[0], rm.Question))
		}
	}

	// --- no OPT unless the query carried one
	var ropt *dns.OPT
	nopt := 0
	for _, rr := range rm.Extra {
		if o, ok := rr.(*dns.OPT); ok {
			ropt = o
			nopt++
		}
	}
	if ropt != nil && !v.hasOPT {
		if up.mode == 'P' {
			return fail("reply/panic-undecoded-servfail/opt-unsolicited", "entry="+e)
		}
		if up.mode == 'p' {
			// label only: the scripted handler panicked, the reply is the recovery middleware's
			return fail("reply/panic-servfail/opt-unsolicited", "entry="+e)
		}
		return fail(e+"/opt/unsolicited", "")
	}
	if nopt > 1 {
		upOpts := 0
		for _, x := range up.ex {
			if x.kind == 'O' {
				upOpts++
			}
		}
		if upOpts > 1 && up.opt.present {
			// label only: the upstream response itself carried several OPT records
			return fail("reply/opt/upstream-duplicate-opt-passed-through", fmt.Sprintf("entry=%s opts=%d", e, nopt))
		}
		return fail(e+"/opt/duplicate", fmt.Sprint(nopt))
	}

	// --- no RRSIG/NSEC/NSEC3 in answer or authority unless DO or qtype RRSIG
	askedRRSIG := v.decodable && len(v.msg.Question) > 0 && v.msg.Question[0].Qtype == dns.TypeRRSIG
	if !v.do && !askedRRSIG {
		for si, sec := range [][]dns.RR{rm.Answer, rm.Ns} {
			for _, rr := range sec {
				switch rr.Header().Rrtype {
				case dns.TypeRRSIG, dns.TypeNSEC, dns.TypeNSEC3:
					return fail(e+"/dnssec/unrequested-"+[]string{"answer", "authority"}[si], dns.TypeToString[rr.Header().Rrtype])
				}
			}
		}
	}

	// --- AD clear whenever the client set CD or set neither DO nor AD
	if rm.AuthenticatedData && (v.cd() || (!v.do && !v.ad())) {
		why := "neither-do-nor-ad"
		if v.cd() {
			why = "cd"
		}
		return fail(e+"/ad/set-"+why, "")
	}

	// --- options
	if ropt != nil {
		seen := map[int]int{}
		for _, o := range optOptions(ropt) {
			seen[o.code]++
			// a query that itself carried several cookies is outside what the
			// property describes; its cookies are judged one by one below
			if seen[o.code] > 1 && (o.code == optCookie || o.code == optKeepalive || o.code == optNSID) &&
				!(o.code == optCookie && len(v.cookieOpts) > 1) {
				if fromUpstream(o) && o.code != optKeepalive {
					return fail(passThrough, fmt.Sprintf("entry=%s duplicate code=%d", e, o.code))
				}
				return fail(e+"/option/duplicate", fmt.Sprintf("code=%d", o.code))
			}
			switch o.code {
			case optECS:
				if up.mode == 'P' {
					return fail("reply/panic-undecoded-servfail/client-ecs-reflected", fmt.Sprintf("entry=%s %x", e, o.data))
				}
				if up.mode == 'p' {
					return fail("reply/panic-servfail/client-ecs-reflected", fmt.Sprintf("entry=%s %x", e, o.data))
				}
				if rm.Rcode == dns.RcodeBadCookie {
					// label only: the rate limiter's BADCOOKIE, written ahead of the edns handler
					return fail("reply/badcookie/client-options-reflected", fmt.Sprintf("entry=%s ecs %x", e, o.data))
				}
				if rm.Rcode == dns.RcodeBadVers && v.hasOPT && v.ver != 0 {
					return fail("reply/badvers/client-ecs-reflected", fmt.Sprintf("entry=%s %x", e, o.data))
				}
				return fail(e+"/option/ecs-reflected", fmt.Sprintf("%x", o.data))
			case optKeepalive:
				if rm.Rcode == dns.RcodeBadCookie && (ek.proto != "tcp" || !v.hasKA) {
					return fail("reply/badcookie/client-options-reflected", fmt.Sprintf("entry=%s keepalive", e))
				}
				if ek.proto != "tcp" || !v.hasKA {
					return fail(e+"/option/keepalive-not-negotiated", fmt.Sprintf("proto=%s client-sent=%v data=%x", ek.proto, v.hasKA, o.data))
				}
			case optCookie:
				if v.clientCookie == nil {
					if fromUpstream(o) {
						return fail(passThrough, fmt.Sprintf("entry=%s cookie without client cookie %x", e, o.data))
					}
					return fail(e+"/option/cookie-without-client-cookie", fmt.Sprintf("%x", o.data))
				}
				okCookie := bytes.Equal(o.data, serverCookieFor(d.remoteIP, v.clientCookie, d.secret))
				if !okCookie && len(v.cookieOpts) > 1 {
					// several client cookies: the server cookie for any of them, or one of them handed back as sent
					for _, c := range v.cookieOpts {
						if bytes.Equal(o.data, c) || (len(c) >= 8 && bytes.Equal(o.data, serverCookieFor(d.remoteIP, c[:8], d.secret))) {
							okCookie = true
						}
					}
				}
				if !okCookie {
					if fromUpstream(o) {
						return fail(passThrough, fmt.Sprintf("entry=%s foreign cookie %x", e, o.data))
					}
					return fail(e+"/option/cookie-not-ours", fmt.Sprintf("%x", o.data))
				}
			case optNSID:
				if !v.wantsNSID || d.nsid == nil || !bytes.Equal(o.data, d.nsid) {
					if rm.Rcode == dns.RcodeBadCookie {
						return fail("reply/badcookie/client-options-reflected", fmt.Sprintf("entry=%s nsid request echoed", e))
					}
					if fromUpstream(o) {
						return fail(passThrough, fmt.Sprintf("entry=%s upstream nsid %x", e, o.data))
					}
					return fail(e+"/option/nsid-unrequested", fmt.Sprintf("asked=%v configured=%v data=%x", v.wantsNSID, d.nsid != nil, o.data))
				}
			case optEDE:
				// the server's own diagnostics
			default:
				if rm.Rcode == dns.RcodeBadCookie {
					return fail("reply/badcookie/client-options-reflected", fmt.Sprintf("entry=%s code=%d", e, o.code))
				}
				if fromUpstream(o) {
					return fail(passThrough, fmt.Sprintf("entry=%s code=%d", e, o.code))
				}
				return fail(e+"/option/foreign", fmt.Sprintf("code=%d", o.code))
			}
		}
	}

	// --- UDP size
	if ek.proto == "udp" {
		lim := udpLimit(v)
		if len(reply) > lim {
			onlyOPT := true
			for _, rr := range rm.Extra {
				if _, ok := rr.(*dns.OPT); !ok {
					onlyOPT = false
				}
			}
			if !(rm.Truncated && len(rm.Answer) == 0 && len(rm.Ns) == 0 && onlyOPT) {
				return fail(e+"/udp/oversize", fmt.Sprintf("len=%d limit=%d tc=%v an=%d ns=%d", len(reply), lim, rm.Truncated, len(rm.Answer), len(rm.Ns)))
			}
			// a TC=1 reply holding only question and OPT is what the property allows
		}
	}
	return "ok"
}

func head(b []byte) []byte {
	if len(b) > 16 {
		return b[:16]
	}
	return b
}
