//go:build verif

// A real DNS-over-QUIC front (the repository's doq.Server and its
// ResponseWriter, the one that zeroes the ID) over the live server, with a
// quic-go client on loopback.
package main

import (
	"context"
	"crypto/ecdsa"
	"crypto/elliptic"
	"crypto/rand"
	"crypto/tls"
	"crypto/x509"
	"crypto/x509/pkix"
	"io"
	"math/big"
	"net"
	"time"

	"github.com/quic-go/quic-go"
	"github.com/semihalev/sdns/server/doq"
)

var (
	doqSrv  *doq.Server
	doqPC   net.PacketConn
	doqConn *quic.Conn
	doqCert *tls.Certificate
)

func selfSigned() tls.Certificate {
	if doqCert != nil {
		return *doqCert
	}
	priv, err := ecdsa.GenerateKey(elliptic.P256(), rand.Reader)
	if err != nil {
		panic(err)
	}
	tmpl := x509.Certificate{SerialNumber: big.NewInt(6), Subject: pkix.Name{Organization: []string{"c06"}},
		NotBefore: time.Now().Add(-time.Hour), NotAfter: time.Now().Add(24 * time.Hour),
		KeyUsage: x509.KeyUsageDigitalSignature, ExtKeyUsage: []x509.ExtKeyUsage{x509.ExtKeyUsageServerAuth},
		DNSNames: []string{"localhost"}, BasicConstraintsValid: true}
	der, err := x509.CreateCertificate(rand.Reader, &tmpl, &tmpl, &priv.PublicKey, priv)
	if err != nil {
		panic(err)
	}
	c := tls.Certificate{Certificate: [][]byte{der}, PrivateKey: priv}
	doqCert = &c
	return c
}

func startDoQ() {
	pc, err := net.ListenPacket("udp", "127.0.0.1:0")
	if err != nil {
		panic(err)
	}
	doqPC = pc
	doqSrv = &doq.Server{Addr: pc.LocalAddr().String(), Handler: live.Srv}
	cfg := &tls.Config{Certificates: []tls.Certificate{selfSigned()}, MinVersion: tls.VersionTLS13}
	srv := doqSrv
	go func() { _ = srv.Serve(pc, cfg) }()
}

func stopDoQ() {
	if doqConn != nil {
		_ = doqConn.CloseWithError(0, "")
		doqConn = nil
	}
	if doqSrv != nil {
		_ = doqSrv.Shutdown()
		doqSrv = nil
	}
	if doqPC != nil {
		_ = doqPC.Close()
		doqPC = nil
	}
}

func doqExchange(pkt []byte) []byte {
	for attempt := 0; attempt < 2; attempt++ {
		if doqConn == nil {
			ctx, cancel := context.WithTimeout(context.Background(), 2*time.Second)
			c, err := quic.DialAddr(ctx, doqSrv.Addr, &tls.Config{InsecureSkipVerify: true, NextProtos: []string{"doq"}}, nil)
			cancel()
			if err != nil {
				continue
			}
			doqConn = c
		}
		ctx, cancel := context.WithTimeout(context.Background(), 2*time.Second)
		st, err := doqConn.OpenStreamSync(ctx)
		cancel()
		if err != nil {
			_ = doqConn.CloseWithError(0, "")
			doqConn = nil
			continue
		}
		_, _ = st.Write(frame(pkt))
		_ = st.Close()
		_ = st.SetReadDeadline(time.Now().Add(1500 * time.Millisecond))
		b, _ := io.ReadAll(st)
		if len(b) >= 2 && int(b[0])<<8|int(b[1]) == len(b)-2 {
			return b[2:]
		}
		if len(b) == 0 && attempt == 0 {
			// the server closes the whole connection on a protocol error
			_ = doqConn.CloseWithError(0, "")
			doqConn = nil
			return nil
		}
		return nil
	}
	return nil
}
