//go:build verif

// The real failover middleware behind the real recovery+edns, with two real
// fallback servers on loopback UDP/TCP whose answers are scripted per op.
//
//	edns failover <path d|w> <proto> <Q> <R> <F1> <F2>
//	    R  = what the chain below failover writes; F1/F2 = what the two
//	    fallback servers answer (R syntax; mode n = that server answers nothing useful: REFUSED is not sent, it stays silent)
package main

import (
	"net"
	"sync"

	"github.com/miekg/dns"
	"github.com/semihalev/sdns/middleware/failover"
)

type fallbackSrv struct {
	mu     sync.Mutex
	script aR
	addr   string
	udp    *dns.Server
	tcp    *dns.Server
}

func (f *fallbackSrv) ServeDNS(w dns.ResponseWriter, req *dns.Msg) {
	f.mu.Lock()
	sc := f.script
	f.mu.Unlock()
	if sc.mode != 'e' || len(req.Question) == 0 {
		return // silence: the client times out / moves on
	}
	_ = w.WriteMsg(buildUpstream(sc, req))
}

func startFallback() *fallbackSrv {
	f := &fallbackSrv{}
	// one port free for UDP and TCP alike (another process may hold the TCP side)
	var pc net.PacketConn
	var ln net.Listener
	for i := 0; ; i++ {
		var err error
		pc, err = net.ListenPacket("udp", "127.0.0.1:0")
		if err != nil {
			panic(err)
		}
		f.addr = pc.LocalAddr().String()
		ln, err = net.Listen("tcp", f.addr)
		if err == nil {
			break
		}
		pc.Close()
		if i > 200 {
			panic(err)
		}
	}
	f.udp = &dns.Server{PacketConn: pc, Handler: f}
	f.tcp = &dns.Server{Listener: ln, Handler: f}
	go func() { _ = f.udp.ActivateAndServe() }()
	go func() { _ = f.tcp.ActivateAndServe() }()
	return f
}

var (
	fallbacks   [2]*fallbackSrv
	failoverMW  *failover.Failover
	fallbackOne sync.Once
)

func ensureFallbacks() {
	fallbackOne.Do(func() {
		fallbacks[0], fallbacks[1] = startFallback(), startFallback()
		cfg := curCfg.config()
		cfg.FallbackServers = []string{fallbacks[0].addr, fallbacks[1].addr}
		failoverMW = failover.New(cfg)
	})
}
