//go:build verif

// Abstract syntax of the C06 op lines and the bridge between it and real
// miekg messages / raw packets.
//
//	Q:<id>[~<mask>]:<opcode>:<flags>:<qtype>:<qlen>:<opt>
//	    <qtype> may be written <qtype>.<qclass> for a class other than IN
//	    mask    0x20 spelling of the question name (bit i upper-cases its i-th letter)
//	    flags   subset of r(RD) a(AD) c(CD), "-" for none
//	    qlen    wire length of the question section (name + 4), checked
//	    opt     "-" | <udp>/<do t|f>/<version>/<options>
//	    options "-" | code.hex;code.hex…          (hex "-" = empty data)
//	R:<mode>:<rcode>:<flags>:<an>:<ns>:<ex>:<opt>
//	    mode    e = reply built with SetReply(request as the handler sees it)
//	            n = the handler writes nothing
//	            p = the handler panics (the recovery middleware answers)
//	            P = it panics before asking for the decoded request
//	    flags   subset of a(AD) A(AA) t(TC) R(RA) z(Z), "-" for none
//	    an/ns/ex "-" | rec;rec…   rec = <K>.<id>.<p>.<o>.<clen>.<ulen> | O
//	            K: S=RRSIG N=NSEC 3=NSEC3 A=other (TXT); p = payload bytes;
//	            C=CNAME (live-server ops only; p = id of the target query name);
//	            o: q = owner is the question name, u = a unique name;
//	            clen/ulen = compressed / uncompressed wire length (checked);
//	            O (only in ex) = position of the OPT record
//	    opt     as above, or "@" = the request's own OPT object is re-attached
package main

import (
	"crypto/sha256"
	"encoding/base32"
	"encoding/base64"
	"encoding/binary"
	"encoding/hex"
	"fmt"
	"sort"
	"strconv"
	"strings"

	"github.com/miekg/dns"
	"github.com/semihalev/sdns/internal/verif/vlib"
)

type aOption struct {
	code int
	data []byte
}

type aOpt struct {
	present bool
	same    bool // "@"
	udp     int
	do      bool
	ver     int
	opts    []aOption
}

type aQ struct {
	qclass     int // 0 = IN (written only when it is not)
	mask       int // 0x20 spelling: bit i upper-cases the i-th letter of the question name
	id, opcode int
	rd, ad, cd bool
	qtype      int
	qlen       int
	opt        aOpt
}

type aRR struct {
	kind   byte // S N 3 A O
	id, p  int
	owner  byte
	cl, ul int
}

type aR struct {
	mode              byte
	rcode             int
	ad, aa, tc, ra, z bool
	an, ns, ex        []aRR
	opt               aOpt
}

// ---------------------------------------------------------------- format

func fmtOptions(os []aOption) string {
	if len(os) == 0 {
		return "-"
	}
	parts := make([]string, len(os))
	for i, o := range os {
		parts[i] = fmt.Sprintf("%d.%s", o.code, vlib.Hex(o.data))
	}
	return strings.Join(parts, ";")
}

func (o aOpt) String() string {
	if !o.present {
		return "-"
	}
	if o.same {
		return "@"
	}
	return fmt.Sprintf("%d/%s/%d/%s", o.udp, vlib.B(o.do), o.ver, fmtOptions(o.opts))
}

func letters(pairs ...any) string {
	s := ""
	for i := 0; i+1 < len(pairs); i += 2 {
		if pairs[i+1].(bool) {
			s += pairs[i].(string)
		}
	}
	if s == "" {
		return "-"
	}
	return s
}

func (q aQ) String() string {
	if q.mask != 0 || (q.qclass != 0 && q.qclass != 1) {
		ids := fmt.Sprint(q.id)
		if q.mask != 0 {
			ids = fmt.Sprintf("%d~%d", q.id, q.mask)
		}
		qt := fmt.Sprint(q.qtype)
		if q.qclass != 0 && q.qclass != 1 {
			qt = fmt.Sprintf("%d.%d", q.qtype, q.qclass)
		}
		return fmt.Sprintf("Q:%s:%d:%s:%s:%d:%s", ids, q.opcode, letters("r", q.rd, "a", q.ad, "c", q.cd), qt, q.qlen, q.opt)
	}
	return fmt.Sprintf("Q:%d:%d:%s:%d:%d:%s", q.id, q.opcode, letters("r", q.rd, "a", q.ad, "c", q.cd), q.qtype, q.qlen, q.opt)
}

func fmtRRs(rs []aRR) string {
	if len(rs) == 0 {
		return "-"
	}
	parts := make([]string, len(rs))
	for i, r := range rs {
		if r.kind == 'O' {
			parts[i] = "O"
		} else {
			parts[i] = fmt.Sprintf("%c.%d.%d.%c.%d.%d", r.kind, r.id, r.p, r.owner, r.cl, r.ul)
		}
	}
	return strings.Join(parts, ";")
}

func (r aR) String() string {
	return fmt.Sprintf("R:%c:%d:%s:%s:%s:%s:%s", r.mode, r.rcode,
		letters("a", r.ad, "A", r.aa, "t", r.tc, "R", r.ra, "z", r.z),
		fmtRRs(r.an), fmtRRs(r.ns), fmtRRs(r.ex), r.opt)
}

// ---------------------------------------------------------------- parse

func parseOptions(s string) []aOption {
	if s == "-" || s == "" {
		return nil
	}
	var out []aOption
	for _, p := range strings.Split(s, ";") {
		c, h, _ := strings.Cut(p, ".")
		out = append(out, aOption{code: vlib.Atoi(c), data: vlib.UnHex(h)})
	}
	return out
}

func parseOpt(s string) aOpt {
	if s == "-" {
		return aOpt{}
	}
	if s == "@" {
		return aOpt{present: true, same: true}
	}
	f := strings.SplitN(s, "/", 4)
	if len(f) != 4 {
		panic("bad opt " + s)
	}
	return aOpt{present: true, udp: vlib.Atoi(f[0]), do: f[1] == "t", ver: vlib.Atoi(f[2]), opts: parseOptions(f[3])}
}

func parseQ(s string) aQ {
	f := strings.Split(s, ":")
	if len(f) != 7 || f[0] != "Q" {
		panic("bad Q " + s)
	}
	idS, maskS, _ := strings.Cut(f[1], "~")
	mask := 0
	if maskS != "" {
		mask = vlib.Atoi(maskS)
	}
	qtS, qcS, _ := strings.Cut(f[4], ".")
	f[4] = qtS
	qclass := 0
	if qcS != "" {
		qclass = vlib.Atoi(qcS)
	}
	return aQ{id: vlib.Atoi(idS), mask: mask, qclass: qclass, opcode: vlib.Atoi(f[2]),
		rd: strings.Contains(f[3], "r"), ad: strings.Contains(f[3], "a"), cd: strings.Contains(f[3], "c"),
		qtype: vlib.Atoi(f[4]), qlen: vlib.Atoi(f[5]), opt: parseOpt(f[6])}
}

func parseRRs(s string) []aRR {
	if s == "-" || s == "" {
		return nil
	}
	var out []aRR
	for _, p := range strings.Split(s, ";") {
		if p == "O" {
			out = append(out, aRR{kind: 'O'})
			continue
		}
		f := strings.Split(p, ".")
		if len(f) != 6 {
			panic("bad rr " + p)
		}
		out = append(out, aRR{kind: f[0][0], id: vlib.Atoi(f[1]), p: vlib.Atoi(f[2]), owner: f[3][0], cl: vlib.Atoi(f[4]), ul: vlib.Atoi(f[5])})
	}
	return out
}

func parseR(s string) aR {
	f := strings.Split(s, ":")
	if len(f) != 8 || f[0] != "R" {
		panic("bad R " + s)
	}
	return aR{mode: f[1][0], rcode: vlib.Atoi(f[2]),
		ad: strings.Contains(f[3], "a"), aa: strings.Contains(f[3], "A"), tc: strings.Contains(f[3], "t"),
		ra: strings.Contains(f[3], "R"), z: strings.Contains(f[3], "z"),
		an: parseRRs(f[4]), ns: parseRRs(f[5]), ex: parseRRs(f[6]), opt: parseOpt(f[7])}
}

// ---------------------------------------------------------------- real messages

const zone = "c06.test."

// qnameOf: the query name of an id. Ids from arpaFrom up live in one of the
// private-address reverse zones (the AS112 empty zones).
const arpaFrom = 0x6800

func qnameOf(id int) string {
	if id >= arpaFrom && id < 0x7000 {
		return fmt.Sprintf("q%d.10.in-addr.arpa.", id)
	}
	return fmt.Sprintf("q%d.%s", id, zone)
}

// spell applies a 0x20 mask to a name: bit i upper-cases its i-th letter.
func spell(name string, mask int) string {
	b := []byte(name)
	k := 0
	for i, c := range b {
		if c >= 'a' && c <= 'z' {
			if mask&(1<<uint(k)) != 0 {
				b[i] = c - 32
			}
			k++
		}
	}
	return string(b)
}

func wireName(name string) []byte {
	var b []byte
	for _, l := range strings.Split(strings.TrimSuffix(name, "."), ".") {
		if l == "" {
			continue
		}
		b = append(b, byte(len(l)))
		b = append(b, l...)
	}
	return append(b, 0)
}

func optRaw(o aOpt) []byte {
	var rd []byte
	for _, op := range o.opts {
		rd = binary.BigEndian.AppendUint16(rd, uint16(op.code))
		rd = binary.BigEndian.AppendUint16(rd, uint16(len(op.data)))
		rd = append(rd, op.data...)
	}
	b := []byte{0, 0, 41}
	b = binary.BigEndian.AppendUint16(b, uint16(o.udp))
	fl := uint16(0)
	if o.do {
		fl = 0x8000
	}
	b = append(b, 0, byte(o.ver))
	b = binary.BigEndian.AppendUint16(b, fl)
	b = binary.BigEndian.AppendUint16(b, uint16(len(rd)))
	return append(b, rd...)
}

// rawQuery is the packet a client would send for q.
func rawQuery(q aQ) []byte {
	fl := uint16(q.opcode&0xF) << 11
	if q.rd {
		fl |= 0x0100
	}
	if q.ad {
		fl |= 0x0020
	}
	if q.cd {
		fl |= 0x0010
	}
	b := binary.BigEndian.AppendUint16(nil, uint16(q.id))
	b = binary.BigEndian.AppendUint16(b, fl)
	ar := uint16(0)
	if q.opt.present {
		ar = 1
	}
	b = append(b, 0, 1, 0, 0, 0, 0)
	b = binary.BigEndian.AppendUint16(b, ar)
	b = append(b, wireName(spell(qnameOf(q.id), q.mask))...)
	b = binary.BigEndian.AppendUint16(b, uint16(q.qtype))
	qc := q.qclass
	if qc == 0 {
		qc = 1
	}
	b = binary.BigEndian.AppendUint16(b, uint16(qc))
	if q.opt.present {
		b = append(b, optRaw(q.opt)...)
	}
	return b
}

// realOPT decodes an abstract OPT through the library's own unpacker, so the
// option objects are exactly those a packet would have produced.
func realOPT(o aOpt) *dns.OPT {
	b := []byte{0, 0, 0, 0, 0, 0, 0, 0, 0, 0, 0, 1}
	b = append(b, optRaw(o)...)
	m := new(dns.Msg)
	if err := m.Unpack(b); err != nil || len(m.Extra) != 1 {
		panic(fmt.Sprintf("cannot build OPT %s: %v", o, err))
	}
	return m.Extra[0].(*dns.OPT)
}

func ownerOf(r aRR, qname string) string {
	if r.owner == 'q' {
		return qname
	}
	return fmt.Sprintf("u%d.", r.id)
}

func pattern(n int, seed int) []byte {
	b := make([]byte, n)
	for i := range b {
		b[i] = byte(0x41 + (seed+i)%23)
	}
	return b
}

// realRR builds the concrete record an abstract one stands for. The record id
// is recoverable from the rdata (idOf), so a reply can be abstracted back.
func realRR(r aRR, qname string) dns.RR {
	hdr := dns.RR_Header{Name: ownerOf(r, qname), Class: dns.ClassINET, Ttl: 300}
	switch r.kind {
	case 'S':
		hdr.Rrtype = dns.TypeRRSIG
		return &dns.RRSIG{Hdr: hdr, TypeCovered: dns.TypeTXT, Algorithm: 13, Labels: 3, OrigTtl: 300,
			Expiration: 1900000000, Inception: 1800000000, KeyTag: uint16(r.id), SignerName: zone,
			Signature: base64.StdEncoding.EncodeToString(pattern(r.p, r.id))}
	case 'N':
		hdr.Rrtype = dns.TypeNSEC
		return &dns.NSEC{Hdr: hdr, NextDomain: fmt.Sprintf("n%d.%s", r.id, zone), TypeBitMap: []uint16{dns.TypeA, dns.TypeRRSIG, dns.TypeNSEC}}
	case '3':
		hdr.Rrtype = dns.TypeNSEC3
		salt := fmt.Sprintf("%04x", r.id)
		return &dns.NSEC3{Hdr: hdr, Hash: 1, Iterations: 0, SaltLength: 2, Salt: salt, HashLength: 20,
			NextDomain: base32.HexEncoding.EncodeToString(pattern(20, r.id)), TypeBitMap: []uint16{dns.TypeA, dns.TypeRRSIG}}
	case 'C':
		// an alias: p is the id of the query name it points to
		hdr.Rrtype = dns.TypeCNAME
		return &dns.CNAME{Hdr: hdr, Target: qnameOf(r.p)}
	default:
		hdr.Rrtype = dns.TypeTXT
		body := string(pattern(r.p, r.id))
		txt := []string{fmt.Sprintf("i%d", r.id)}
		for len(body) > 255 {
			txt = append(txt, body[:255])
			body = body[255:]
		}
		if body != "" {
			txt = append(txt, body)
		}
		return &dns.TXT{Hdr: hdr, Txt: txt}
	}
}

// idOf: kind letter and id of a real record ("?" for records the harness did not build).
func idOf(rr dns.RR) string {
	switch v := rr.(type) {
	case *dns.OPT:
		return "O"
	case *dns.RRSIG:
		return "S" + strconv.Itoa(int(v.KeyTag))
	case *dns.NSEC:
		l := strings.SplitN(v.NextDomain, ".", 2)[0]
		return "N" + strings.TrimPrefix(l, "n")
	case *dns.NSEC3:
		n, _ := strconv.ParseUint(v.Salt, 16, 32)
		return "3" + strconv.Itoa(int(n))
	case *dns.SOA:
		return "A0" // the one record the harness does not build itself: an empty zone's SOA
	case *dns.CNAME:
		return "C" + strings.TrimPrefix(strings.SplitN(strings.ToLower(v.Target), ".", 2)[0], "q")
	case *dns.TXT:
		if len(v.Txt) > 0 && strings.HasPrefix(v.Txt[0], "i") {
			return "A" + v.Txt[0][1:]
		}
	}
	return "?" + strconv.Itoa(int(rr.Header().Rrtype))
}

// measure fills clen/ulen of a record: its contribution to Msg.Len() next to
// the question, with and without compression.
func measure(r *aRR, qid int) {
	qn := qnameOf(qid)
	base := new(dns.Msg)
	base.SetQuestion(qn, dns.TypeA)
	with := base.Copy()
	with.Answer = []dns.RR{realRR(*r, qn)}
	base.Compress, with.Compress = true, true
	r.cl = with.Len() - base.Len()
	base.Compress, with.Compress = false, false
	r.ul = with.Len() - base.Len()
}

func optLen(o []aOption) int {
	n := 11
	for _, x := range o {
		n += 4 + len(x.data)
	}
	return n
}

// buildUpstream constructs the response the scripted handler writes for the
// request it sees (req is the message as it reached the handler).
func buildUpstream(r aR, req *dns.Msg) *dns.Msg {
	if r.mode == 'n' || r.mode == 'p' || r.mode == 'P' {
		return nil
	}
	m := new(dns.Msg)
	m.SetReply(req)
	m.Rcode = r.rcode
	m.AuthenticatedData, m.Authoritative, m.Truncated, m.RecursionAvailable, m.Zero = r.ad, r.aa, r.tc, r.ra, r.z
	qn := req.Question[0].Name
	sec := func(rs []aRR) []dns.RR {
		var out []dns.RR
		for _, x := range rs {
			if x.kind == 'O' {
				if r.opt.same {
					if o := req.IsEdns0(); o != nil {
						out = append(out, o)
					}
				} else if r.opt.present {
					out = append(out, realOPT(r.opt))
				}
				continue
			}
			out = append(out, realRR(x, qn))
		}
		return out
	}
	m.Answer, m.Ns, m.Extra = sec(r.an), sec(r.ns), sec(r.ex)
	return m
}

// optOptions re-reads an OPT's options as (code, bytes) from its packed form.
func optOptions(o *dns.OPT) []aOption {
	buf := make([]byte, 70000)
	n, err := dns.PackRR(o, buf, 0, nil, false)
	if err != nil {
		return []aOption{{code: 65535, data: []byte("packerr")}}
	}
	rd := buf[11:n]
	var out []aOption
	for len(rd) >= 4 {
		c := int(binary.BigEndian.Uint16(rd))
		l := int(binary.BigEndian.Uint16(rd[2:]))
		if 4+l > len(rd) {
			break
		}
		out = append(out, aOption{code: c, data: append([]byte(nil), rd[4:4+l]...)})
		rd = rd[4+l:]
	}
	return out
}

// serverCookieFor: what RFC 7873-style server cookie this deployment hands
// the client (client half + SHA-256 over address text, client half in hex,
// secret) — computed here independently of the repository's helper.
func serverCookieFor(remoteIP string, client8 []byte, secret string) []byte {
	h := sha256.New()
	h.Write([]byte(remoteIP))
	h.Write([]byte(hex.EncodeToString(client8)))
	h.Write([]byte(secret))
	return append(append([]byte(nil), client8...), h.Sum(nil)...)
}

type absCtx struct {
	remoteIP string
	secret   string
}

// absOptions canonicalises reply options: a cookie that is exactly the
// deployment's server cookie for its own first 8 bytes prints as <client8>S.
func (c absCtx) absOptions(os []aOption) string {
	if len(os) == 0 {
		return "-"
	}
	parts := make([]string, len(os))
	for i, o := range os {
		if o.code == 10 && len(o.data) == 40 && string(serverCookieFor(c.remoteIP, o.data[:8], c.secret)) == string(o.data) {
			parts[i] = fmt.Sprintf("10.%sS", hex.EncodeToString(o.data[:8]))
			continue
		}
		parts[i] = fmt.Sprintf("%d.%s", o.code, vlib.Hex(o.data))
	}
	return strings.Join(parts, ";")
}

// absReply renders a reply message in the model's vocabulary.
func (c absCtx) absReply(m *dns.Msg, q *dns.Msg) string {
	if m == nil {
		return "none"
	}
	qs := "x"
	switch {
	case len(m.Question) == 0:
		qs = "0"
	case len(m.Question) == 1 && len(q.Question) > 0 && m.Question[0] == q.Question[0]:
		qs = "e"
	}
	ids := func(rs []dns.RR) string {
		if len(rs) == 0 {
			return "-"
		}
		p := make([]string, len(rs))
		for i, rr := range rs {
			p[i] = idOf(rr)
		}
		return strings.Join(p, ",")
	}
	opt := "-"
	var opts []string
	for _, rr := range m.Extra {
		if o, ok := rr.(*dns.OPT); ok {
			opts = append(opts, fmt.Sprintf("%d/%s/%d/%s", o.UDPSize(), vlib.B(o.Do()), o.Version(), c.absOptions(optOptions(o))))
		}
	}
	if len(opts) > 0 {
		opt = strings.Join(opts, "|")
	}
	fl := letters("q", m.Response, "A", m.Authoritative, "t", m.Truncated, "r", m.RecursionDesired,
		"R", m.RecursionAvailable, "z", m.Zero, "a", m.AuthenticatedData, "c", m.CheckingDisabled)
	return fmt.Sprintf("id=%d op=%d rc=%d fl=%s q=%s an=%s ns=%s ex=%s opt=%s", m.Id, m.Opcode, m.Rcode, fl, qs,
		ids(m.Answer), ids(m.Ns), ids(m.Extra), opt)
}

func sortedKeys(m map[string]int) []string {
	ks := make([]string, 0, len(m))
	for k := range m {
		ks = append(ks, k)
	}
	sort.Strings(ks)
	return ks
}
