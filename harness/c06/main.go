//go:build verif

// Correspondence driver for C06 (every reply respects what the client sent
// and negotiated).
//
// Op families:
//
//	edns new <nsid hex|-> <secret t|f> <ecs t|f> <keepalive units>
//	edns set0 <Q>                         real dnsutil.SetEdns0
//	edns serve <d|w> <proto> <Q> <R>      real edns.EDNS in a chain [edns, scripted handler];
//	                                      d = decoded request, w = wire-born request
//	edns tomsg <Q> <R>                    real cache.NewCacheEntry + CacheEntry.ToMsg
//	accept hdr <flags> <qd> <an> <ns> <ar>    real server.acceptHeader
//	srv new … / srv q … / srv raw …       the live server (srv.go), judged by the oracle
//
// The abstract syntax (Q / R tokens) is documented in abs.go, the oracle in
// oracle.go, the generator in gen.go.
package main

import (
	"context"
	"fmt"
	"net"
	"net/netip"
	"strings"
	"time"

	"github.com/miekg/dns"
	"github.com/semihalev/sdns/config"
	"github.com/semihalev/sdns/internal/dnsutil"
	"github.com/semihalev/sdns/internal/ecs"
	"github.com/semihalev/sdns/internal/verif/vlib"
	"github.com/semihalev/sdns/middleware"
	"github.com/semihalev/sdns/middleware/cache"
	"github.com/semihalev/sdns/middleware/edns"
	"github.com/semihalev/sdns/server"
)

const (
	clientIP   = "203.0.113.7"
	secretText = "c06-cookie-secret"
)

type deployCfg struct {
	nsid   []byte
	secret bool
	ecs    bool
	ka     int
}

func (c deployCfg) config() *config.Config {
	cfg := new(config.Config)
	cfg.NSID = string(c.nsid)
	if c.secret {
		cfg.CookieSecret = secretText
	}
	cfg.ECS.Enabled = c.ecs
	return cfg
}

func (c deployCfg) deploy() deploy {
	d := deploy{remoteIP: clientIP}
	if len(c.nsid) > 0 {
		d.nsid = c.nsid
	}
	if c.secret {
		d.secret = secretText
	}
	return d
}

func (c deployCfg) ctx() absCtx { return absCtx{remoteIP: clientIP, secret: c.deploy().secret} }

func parseDeploy(f []string) deployCfg {
	return deployCfg{nsid: vlib.UnHex(f[0]), secret: f[1] == "t", ecs: f[2] == "t", ka: vlib.Atoi(f[3])}
}

var (
	curCfg  deployCfg
	curEDNS *edns.EDNS
)

// capW is the harness's own transport: it records what reached it.
type capW struct {
	proto  string
	remote net.Addr
	msg    *dns.Msg
	raw    []byte
	n      int
}

func newCapW(proto string) *capW {
	w := &capW{proto: proto}
	ip := net.ParseIP(clientIP)
	if proto == "udp" {
		w.remote = &net.UDPAddr{IP: ip, Port: 4242}
	} else {
		w.remote = &net.TCPAddr{IP: ip, Port: 4242}
	}
	return w
}
func (w *capW) LocalAddr() net.Addr  { return &net.UDPAddr{IP: net.IPv4(127, 0, 0, 1), Port: 53} }
func (w *capW) RemoteAddr() net.Addr { return w.remote }
func (w *capW) Close() error         { return nil }
func (w *capW) Proto() string        { return w.proto }
func (w *capW) WriteMsg(m *dns.Msg) error {
	w.msg = m
	w.n++
	return nil
}
func (w *capW) Write(b []byte) (int, error) {
	w.raw = append([]byte(nil), b...)
	w.n++
	m := new(dns.Msg)
	if err := m.Unpack(b); err == nil {
		w.msg = m
	}
	return len(b), nil
}

// scripted is the handler standing where cache/resolver/forwarder are.
type scripted struct {
	r       aR
	q       aQ
	lensBad string
	seen    *dns.Msg
}

func (s *scripted) Name() string { return "scripted" }
func (s *scripted) ServeDNS(ctx context.Context, ch *middleware.Chain) {
	_, req := ch.Materialize(ctx)
	if req == nil {
		return
	}
	s.seen = req
	up := buildUpstream(s.r, req)
	if up != nil {
		s.lensBad = checkLens(s.q, s.r, up)
		_ = ch.Writer.WriteMsg(up)
	}
	ch.Cancel()
}

// checkLens: the lengths written on the op line are the lengths the real
// message has (so the model's arithmetic is about the real bytes).
func checkLens(q aQ, r aR, up *dns.Msg) string {
	cl, ul := 12+q.qlen, 12+q.qlen
	for _, sec := range [][]aRR{r.an, r.ns, r.ex} {
		for _, x := range sec {
			if x.kind != 'O' {
				cl += x.cl
				ul += x.ul
			}
		}
	}
	for _, rr := range up.Extra {
		if o, ok := rr.(*dns.OPT); ok {
			n := optLen(optOptions(o))
			cl += n
			ul += n
		}
	}
	c := *up
	c.Compress = true
	if c.Len() != cl {
		return fmt.Sprintf("bad-lens compressed line=%d real=%d", cl, c.Len())
	}
	c.Compress = false
	if c.Len() != ul {
		return fmt.Sprintf("bad-lens uncompressed line=%d real=%d", ul, c.Len())
	}
	return ""
}

func ruleTags(q aQ, r aR, proto string, reply *dns.Msg) string {
	var t []string
	has := func(os []aOption, code int) bool {
		for _, o := range os {
			if o.code == code {
				return true
			}
		}
		return false
	}
	sigs := false
	for _, sec := range [][]aRR{r.an, r.ns} {
		for _, x := range sec {
			if x.kind == 'S' || x.kind == 'N' || x.kind == '3' {
				sigs = true
			}
		}
	}
	upOPT := false
	for _, x := range r.ex {
		if x.kind == 'O' && r.opt.present {
			upOPT = true
		}
	}
	switch {
	case q.opcode != 0:
		t = append(t, "r-notimp")
	case q.opt.present && q.opt.ver != 0:
		t = append(t, "r-badvers")
	case r.mode == 'n':
	default:
		if sigs && !(q.opt.present && q.opt.do) {
			if q.qtype == int(dns.TypeRRSIG) {
				t = append(t, "r-rrsig-kept")
			} else {
				t = append(t, "r-dnssec-strip")
			}
		}
		if !q.opt.present && upOPT {
			t = append(t, "r-opt-drop")
		}
		if q.opt.present && !upOPT {
			t = append(t, "r-opt-add")
		}
		if q.opt.present && has(q.opt.opts, optECS) {
			t = append(t, "r-client-ecs")
		}
		if upOPT && !r.opt.same && has(r.opt.opts, optECS) {
			t = append(t, "r-upstream-ecs")
		}
		if upOPT && !r.opt.same && has(r.opt.opts, optKeepalive) {
			t = append(t, "r-upstream-keepalive")
		}
		if q.opt.present && has(q.opt.opts, optKeepalive) {
			t = append(t, "r-client-keepalive-"+proto)
		}
		if q.opt.present && has(q.opt.opts, optCookie) {
			t = append(t, "r-cookie")
		}
		if q.opt.present && has(q.opt.opts, optNSID) {
			t = append(t, "r-nsid")
		}
		if r.ad && (q.cd || !(q.ad || (q.opt.present && q.opt.do))) {
			t = append(t, "r-ad-clear")
		}
		if reply != nil && reply.Truncated && !r.tc {
			t = append(t, "r-truncate")
		}
	}
	if len(t) == 0 {
		return ""
	}
	return "nt," + strings.Join(t, ",")
}

func packReply(m *dns.Msg) ([]byte, error) {
	c := m.Copy()
	c.Compress = m.Compress
	return c.Pack()
}

func exec(op string) vlib.Res {
	f := strings.Fields(op)
	if len(f) < 2 {
		return vlib.Res{Impl: "bad-op"}
	}
	switch f[0] + " " + f[1] {
	case "edns new":
		curCfg = parseDeploy(f[2:])
		curEDNS = edns.New(curCfg.config())
		or := "ok"
		if int(edns.VerifC06KeepaliveUnits()) != curCfg.ka {
			or = "-"
		}
		return vlib.Res{Impl: "ok", Oracle: or}

	case "edns set0":
		q := parseQ(f[2])
		req := new(dns.Msg)
		if err := req.Unpack(rawQuery(q)); err != nil {
			return vlib.Res{Impl: "undecodable"}
		}
		var pol *ecs.Policy
		if curCfg.ecs {
			pol, _ = ecs.Build(true, 0, 0, 0, 0, nil)
		}
		opt, size, cookie, nsid, do := dnsutil.SetEdns0(req, pol, netip.MustParseAddr(clientIP))
		ck := cookie
		if ck == "" {
			ck = "-"
		}
		impl := fmt.Sprintf("size=%d cookie=%s nsid=%s do=%s opt=%d/%s/%d/%s attached=%s", size, ck, vlib.B(nsid), vlib.B(do),
			opt.UDPSize(), vlib.B(opt.Do()), opt.Version(), fmtOptions(optOptions(opt)), vlib.B(req.IsEdns0() == opt))
		// oracle: the size the writer will honour is the property's bound
		v := viewQuery(rawQuery(q))
		or := "ok"
		if v.hasOPT && size != udpLimit(v) {
			or = fail("set0/size-clamp", fmt.Sprintf("advertised=%d want=%d got=%d", v.adv, udpLimit(v), size))
		}
		for _, o := range optOptions(opt) {
			if o.code != optECS || !curCfg.ecs {
				or = fail("set0/client-option-forwarded", fmt.Sprintf("code=%d", o.code))
			}
		}
		tags := ""
		if q.opt.present {
			tags = "nt,set0"
		}
		return vlib.Res{Impl: impl, Oracle: or, Tags: tags}

	case "edns serve":
		path, proto := f[2], f[3]
		q, r := parseQ(f[4]), parseR(f[5])
		raw := rawQuery(q)
		if len(wireName(qnameOf(q.id)))+4 != q.qlen {
			return vlib.Res{Impl: "bad-lens qlen"}
		}
		orig := new(dns.Msg)
		if err := orig.Unpack(raw); err != nil {
			return vlib.Res{Impl: "undecodable"}
		}
		w := newCapW(proto)
		st := &scripted{r: r, q: q}
		ch := middleware.NewChain([]middleware.Handler{curEDNS, st})
		var rq middleware.Request
		wire := false
		if path == "w" && rq.ParseWire(raw, time.Now(), nil) {
			ch.ResetWire(w, &rq)
			wire = true
		} else {
			req := new(dns.Msg)
			_ = req.Unpack(raw)
			ch.Reset(w, req)
		}
		ch.Next(context.Background())
		ch.Finish()
		if st.lensBad != "" {
			return vlib.Res{Impl: st.lensBad}
		}
		impl := curCfg.ctx().absReply(w.msg, orig)
		if w.n > 1 {
			impl += fmt.Sprintf(" writes=%d", w.n)
		}
		or := "-"
		entry := "edns/serve-" + proto
		if w.msg != nil {
			packed, err := packReply(w.msg)
			if err != nil {
				or = fail(entry+"/reply/unpackable", err.Error())
			} else {
				// the harness writer stands in for the DoQ stream writer (the one
				// that zeroes the ID), so the ID is judged as an echo here
				jp := map[string]string{"doq": "doq-noid"}[proto]
				if jp == "" {
					jp = proto
				}
				or = judgeHinted(entry, entryKind{proto: jp}, curCfg.deploy(), raw, packed, r)
			}
		}
		tags := ruleTags(q, r, proto, w.msg)
		if wire {
			tags = strings.TrimPrefix(tags+",wireborn", ",")
		}
		return vlib.Res{Impl: impl, Oracle: or, Tags: tags}

	case "edns tomsg":
		q, r := parseQ(f[2]), parseR(f[3])
		raw := rawQuery(q)
		req := new(dns.Msg)
		if err := req.Unpack(raw); err != nil {
			return vlib.Res{Impl: "undecodable"}
		}
		up := buildUpstream(r, req)
		e := cache.NewCacheEntry(up, 60*time.Second, 0)
		if e == nil {
			return vlib.Res{Impl: "nocache", Oracle: "-"}
		}
		resp := e.ToMsg(req)
		impl := curCfg.ctx().absReply(resp, req)
		// oracle: the header is derived from the request
		or := "ok"
		switch {
		case resp == nil:
			or = "-"
		case !resp.Response:
			or = fail("tomsg/echo/qr-clear", "")
		case resp.Id != uint16(q.id):
			or = fail("tomsg/echo/id", "")
		case resp.Opcode != q.opcode:
			or = fail("tomsg/echo/opcode", "")
		case len(resp.Question) != 1 || resp.Question[0] != req.Question[0]:
			or = fail("tomsg/echo/question", "")
		case resp.AuthenticatedData && q.cd:
			or = fail("tomsg/ad/set-cd", "")
		case resp.IsEdns0() != nil && !q.opt.present:
			or = fail("tomsg/opt/unsolicited", "")
		}
		return vlib.Res{Impl: impl, Oracle: or, Tags: "nt,tomsg"}

	case "accept hdr":
		fl, qd, an, ns, ar := vlib.Atoi(f[2]), vlib.Atoi(f[3]), vlib.Atoi(f[4]), vlib.Atoi(f[5]), vlib.Atoi(f[6])
		got := server.VerifC06AcceptHeader(uint16(fl), uint16(qd), uint16(an), uint16(ns), uint16(ar))
		codes := server.VerifC06VerdictCodes()
		name := "?"
		for i, n := range []string{"ok", "ignore", "notimp", "formerr"} {
			if codes[i] == got {
				name = n
			}
		}
		// oracle, from the property: responses ignored; non-query opcodes NOTIMP
		// (Notify reaches the edns handler, which answers NOTIMP); QDCOUNT != 1 FORMERR.
		or := "ok"
		qr := fl&0x8000 != 0
		opc := (fl >> 11) & 0xF
		switch {
		case qr:
			if name != "ignore" {
				or = fail("accept/qr-not-ignored", name)
			}
		case name == "ignore":
			or = fail("accept/query-ignored", "")
		case opc != 0 && opc != 4:
			if name != "notimp" {
				or = fail("accept/opcode-not-notimp", fmt.Sprintf("opcode=%d verdict=%s", opc, name))
			}
		case opc == 4:
			if name == "ok" && qd != 1 {
				or = fail("accept/bad-qdcount-accepted", "")
			}
		case qd != 1:
			if name != "formerr" {
				or = fail("accept/bad-qdcount-accepted", fmt.Sprintf("qd=%d verdict=%s", qd, name))
			}
		}
		return vlib.Res{Impl: name, Oracle: or, Tags: "nt,accept"}

	case "srv new", "srv q", "srv raw", "srv stop":
		return execSrv(f)
	}
	return vlib.Res{Impl: "bad-op"}
}

func main() {
	defer stopLive() // a replay may end without `srv stop`
	vlib.Main(&vlib.Driver{Facts: facts, Exec: exec, Gen: gen})
}
