//go:build verif

// Correspondence driver for C06 (every reply respects what the client sent
// and negotiated).
//
// Op families:
//
//	edns new <nsid hex|-> <secret t|f> <ecs t|f> <keepalive units>
//	edns set0 <Q>                         real dnsutil.SetEdns0
//	edns serve <d|w> <proto> <Q> <R>      real edns.EDNS in a chain [edns, scripted handler];
//	                                      d = decoded request, w = wire-born request
//	edns tomsg <Q> <R>                    real cache.NewCacheEntry + CacheEntry.ToMsg
//	accept hdr <flags> <qd> <an> <ns> <ar>    real server.acceptHeader
//	srv new … / srv q … / srv raw …       the live server (srv.go), judged by the oracle
//
// The abstract syntax (Q / R tokens) is documented in abs.go, the oracle in
// oracle.go, the generator in gen.go.
package main

import (
	"context"
	"fmt"
	"net"
	"net/netip"
	"sort"
	"strings"
	"time"

	"github.com/miekg/dns"
	"github.com/semihalev/sdns/config"
	"github.com/semihalev/sdns/internal/dnsutil"
	"github.com/semihalev/sdns/internal/ecs"
	"github.com/semihalev/sdns/internal/verif/vlib"
	"github.com/semihalev/sdns/middleware"
	"github.com/semihalev/sdns/middleware/as112"
	"github.com/semihalev/sdns/middleware/cache"
	"github.com/semihalev/sdns/middleware/edns"
	"github.com/semihalev/sdns/middleware/ratelimit"
	"github.com/semihalev/sdns/middleware/recovery"
	"github.com/semihalev/sdns/server"
)

const (
	clientIP   = "203.0.113.7"
	secretText = "c06-cookie-secret"
)

type deployCfg struct {
	nsid   []byte
	secret bool
	ecs    bool
	ka     int
}

func (c deployCfg) config() *config.Config {
	cfg := new(config.Config)
	cfg.NSID = string(c.nsid)
	if c.secret {
		cfg.CookieSecret = secretText
	}
	cfg.ECS.Enabled = c.ecs
	return cfg
}

func (c deployCfg) deploy() deploy {
	d := deploy{remoteIP: clientIP}
	if len(c.nsid) > 0 {
		d.nsid = c.nsid
	}
	if c.secret {
		d.secret = secretText
	}
	return d
}

func (c deployCfg) ctx() absCtx { return absCtx{remoteIP: clientIP, secret: c.deploy().secret} }

func parseDeploy(f []string) deployCfg {
	return deployCfg{nsid: vlib.UnHex(f[0]), secret: f[1] == "t", ecs: f[2] == "t", ka: vlib.Atoi(f[3])}
}

var (
	curCfg  deployCfg
	curEDNS *edns.EDNS
)

// capW is the harness's own transport: it records what reached it.
type capW struct {
	proto  string
	remote net.Addr
	msg    *dns.Msg
	raw    []byte
	n      int
}

func newCapW(proto string) *capW {
	w := &capW{proto: proto}
	ip := net.ParseIP(clientIP)
	if proto == "udp" {
		w.remote = &net.UDPAddr{IP: ip, Port: 4242}
	} else {
		w.remote = &net.TCPAddr{IP: ip, Port: 4242}
	}
	return w
}
func (w *capW) LocalAddr() net.Addr  { return &net.UDPAddr{IP: net.IPv4(127, 0, 0, 1), Port: 53} }
func (w *capW) RemoteAddr() net.Addr { return w.remote }
func (w *capW) Close() error         { return nil }
func (w *capW) Proto() string        { return w.proto }
func (w *capW) WriteMsg(m *dns.Msg) error {
	w.msg = m
	w.n++
	return nil
}
func (w *capW) Write(b []byte) (int, error) {
	w.raw = append([]byte(nil), b...)
	w.n++
	m := new(dns.Msg)
	if err := m.Unpack(b); err == nil {
		w.msg = m
	}
	return len(b), nil
}

// scripted is the handler standing where cache/resolver/forwarder are.
type scripted struct {
	r       aR
	q       aQ
	lensBad string
	seen    *dns.Msg
}

func (s *scripted) Name() string { return "scripted" }
func (s *scripted) ServeDNS(ctx context.Context, ch *middleware.Chain) {
	if s.r.mode == 'P' {
		panic("c06: scripted handler panic before the request was decoded")
	}
	_, req := ch.Materialize(ctx)
	if req == nil {
		return
	}
	s.seen = req
	if s.r.mode == 'p' {
		panic("c06: scripted handler panic")
	}
	up := buildUpstream(s.r, req)
	if up != nil {
		s.lensBad = checkLens(s.q, s.r, up)
		_ = ch.Writer.WriteMsg(up)
	}
	ch.Cancel()
}

// wireScripted stands where the cache's byte path is: it hands the writer
// chain a packed body (no OPT) and the reply facts, through WireReady /
// WriteWire, exactly as a cache hit does.
type wireScripted struct {
	bodyLen int
	r       aR
	q       aQ
	out     string
	lensBad string
}

func (s *wireScripted) Name() string { return "wirescripted" }
func (s *wireScripted) ServeDNS(ctx context.Context, ch *middleware.Chain) {
	_, req := ch.Materialize(ctx)
	if req == nil {
		return
	}
	defer ch.Cancel()
	up := buildUpstream(s.r, req)
	info := middleware.WireInfo{Rcode: up.Rcode, AuthenticatedData: up.AuthenticatedData}
	edeLen := 0
	var extra []dns.RR
	for _, rr := range up.Extra {
		if o, ok := rr.(*dns.OPT); ok {
			for _, x := range optOptions(o) {
				if x.code == optEDE && len(x.data) >= 2 && !info.HasEDE {
					info.HasEDE, info.EDECode, info.EDEText = true, uint16(x.data[0])<<8|uint16(x.data[1]), string(x.data[2:])
					edeLen = 4 + len(x.data)
				}
			}
			continue
		}
		extra = append(extra, rr)
	}
	up.Extra = extra
	for _, sec := range [][]dns.RR{up.Answer, up.Ns} {
		for _, rr := range sec {
			switch rr.Header().Rrtype {
			case dns.TypeRRSIG, dns.TypeNSEC, dns.TypeNSEC3:
				info.HasDNSSEC = req.Question[0].Qtype != dns.TypeRRSIG
			}
		}
	}
	up.Compress = true
	packed, err := up.Pack()
	if err != nil {
		s.out = "packerr"
		return
	}
	if len(packed) != s.bodyLen {
		s.lensBad = fmt.Sprintf("bad-lens packed line=%d real=%d", s.bodyLen, len(packed))
		return
	}
	ww, ok := ch.Writer.(middleware.WireWriter)
	if !ok {
		s.out = "nowirewriter"
		return
	}
	cp, ready := ww.WireReady()
	if !ready {
		s.out = "notready"
		return
	}
	s.out = fmt.Sprintf("ready do=%s reserve=%d max=%d", vlib.B(cp.DO), cp.Reserve, cp.MaxSize)
	body := make([]byte, len(packed), len(packed)+cp.Reserve+edeLen)
	copy(body, packed)
	if err := ww.WriteWire(body, info); err != nil {
		if err == middleware.ErrWireFallback {
			s.out += " fallback"
		} else {
			s.out += " error"
		}
	}
}

// checkLens: the lengths written on the op line are the lengths the real
// message has (so the model's arithmetic is about the real bytes).
func checkLens(q aQ, r aR, up *dns.Msg) string {
	cl, ul := 12+q.qlen, 12+q.qlen
	for _, sec := range [][]aRR{r.an, r.ns, r.ex} {
		for _, x := range sec {
			if x.kind != 'O' {
				cl += x.cl
				ul += x.ul
			}
		}
	}
	for _, rr := range up.Extra {
		if o, ok := rr.(*dns.OPT); ok {
			n := optLen(optOptions(o))
			cl += n
			ul += n
		}
	}
	c := *up
	c.Compress = true
	if c.Len() != cl {
		return fmt.Sprintf("bad-lens compressed line=%d real=%d", cl, c.Len())
	}
	c.Compress = false
	if c.Len() != ul {
		return fmt.Sprintf("bad-lens uncompressed line=%d real=%d", ul, c.Len())
	}
	return ""
}

func ruleTags(q aQ, r aR, proto string, reply *dns.Msg) string {
	var t []string
	has := func(os []aOption, code int) bool {
		for _, o := range os {
			if o.code == code {
				return true
			}
		}
		return false
	}
	sigs := false
	for _, sec := range [][]aRR{r.an, r.ns} {
		for _, x := range sec {
			if x.kind == 'S' || x.kind == 'N' || x.kind == '3' {
				sigs = true
			}
		}
	}
	upOPT := false
	for _, x := range r.ex {
		if x.kind == 'O' && r.opt.present {
			upOPT = true
		}
	}
	switch {
	case q.opcode != 0:
		t = append(t, "r-notimp")
	case q.opt.present && q.opt.ver != 0:
		t = append(t, "r-badvers")
	case r.mode == 'n':
	case r.mode == 'p' || r.mode == 'P':
		t = append(t, "r-panic-servfail")
	default:
		if sigs && !(q.opt.present && q.opt.do) {
			if q.qtype == int(dns.TypeRRSIG) {
				t = append(t, "r-rrsig-kept")
			} else {
				t = append(t, "r-dnssec-strip")
			}
		}
		if !q.opt.present && upOPT {
			t = append(t, "r-opt-drop")
		}
		if q.opt.present && !upOPT {
			t = append(t, "r-opt-add")
		}
		if q.opt.present && has(q.opt.opts, optECS) {
			t = append(t, "r-client-ecs")
		}
		if upOPT && !r.opt.same && has(r.opt.opts, optECS) {
			t = append(t, "r-upstream-ecs")
		}
		if upOPT && !r.opt.same && has(r.opt.opts, optKeepalive) {
			t = append(t, "r-upstream-keepalive")
		}
		if q.opt.present && has(q.opt.opts, optKeepalive) {
			t = append(t, "r-client-keepalive-"+proto)
		}
		if q.opt.present && has(q.opt.opts, optCookie) {
			t = append(t, "r-cookie")
		}
		if q.opt.present && has(q.opt.opts, optNSID) {
			t = append(t, "r-nsid")
		}
		if r.ad && (q.cd || !(q.ad || (q.opt.present && q.opt.do))) {
			t = append(t, "r-ad-clear")
		}
		if reply != nil && reply.Truncated && !r.tc {
			t = append(t, "r-truncate")
		}
	}
	if len(t) == 0 {
		return ""
	}
	return "nt," + strings.Join(t, ",")
}

// rlFacts: what the rate limiter remembers after q1 (a server cookie, if q1 was
// an EDNS(0) query with a client cookie) and whether q2's cookie option is
// exactly that one.
func rlFacts(q1, q2 aQ, secret string) (known, same bool) {
	var remembered []byte
	if q1.opt.present && q1.opt.ver == 0 && q1.opcode == 0 {
		for _, o := range q1.opt.opts {
			if o.code == optCookie && len(o.data) >= 8 {
				remembered = serverCookieFor(clientIP, o.data[:8], secret)
				break
			}
		}
	}
	if remembered == nil {
		return false, false
	}
	for _, o := range q2.opt.opts {
		if o.code == optCookie && len(o.data) >= 8 {
			return true, string(o.data) == string(remembered)
		}
	}
	return true, false
}

// sortOptions orders the option list of a rendered reply.
func sortOptions(abs string) string {
	i := strings.LastIndex(abs, " opt=")
	if i < 0 {
		return abs
	}
	o := abs[i+5:]
	j := strings.LastIndex(o, "/")
	if j < 0 || strings.Contains(o, "|") {
		return abs
	}
	parts := strings.Split(o[j+1:], ";")
	sort.Strings(parts)
	return abs[:i+5] + o[:j+1] + strings.Join(parts, ";")
}

func packReply(m *dns.Msg) ([]byte, error) {
	c := m.Copy()
	c.Compress = m.Compress
	return c.Pack()
}

func exec(op string) vlib.Res {
	f := strings.Fields(op)
	if len(f) < 2 {
		return vlib.Res{Impl: "bad-op"}
	}
	switch f[0] + " " + f[1] {
	case "edns new":
		curCfg = parseDeploy(f[2:])
		curEDNS = edns.New(curCfg.config())
		or := "ok"
		if int(edns.VerifC06KeepaliveUnits()) != curCfg.ka {
			or = "-"
		}
		return vlib.Res{Impl: "ok", Oracle: or}

	case "edns set0":
		q := parseQ(f[2])
		req := new(dns.Msg)
		if err := req.Unpack(rawQuery(q)); err != nil {
			return vlib.Res{Impl: "undecodable"}
		}
		var pol *ecs.Policy
		if curCfg.ecs {
			pol, _ = ecs.Build(true, 0, 0, 0, 0, nil)
		}
		opt, size, cookie, nsid, do := dnsutil.SetEdns0(req, pol, netip.MustParseAddr(clientIP))
		ck := cookie
		if ck == "" {
			ck = "-"
		}
		impl := fmt.Sprintf("size=%d cookie=%s nsid=%s do=%s opt=%d/%s/%d/%s attached=%s", size, ck, vlib.B(nsid), vlib.B(do),
			opt.UDPSize(), vlib.B(opt.Do()), opt.Version(), fmtOptions(optOptions(opt)), vlib.B(req.IsEdns0() == opt))
		// oracle: the size the writer will honour is the property's bound
		v := viewQuery(rawQuery(q))
		or := "ok"
		if v.hasOPT && size != udpLimit(v) {
			or = fail("set0/size-clamp", fmt.Sprintf("advertised=%d want=%d got=%d", v.adv, udpLimit(v), size))
		}
		for _, o := range optOptions(opt) {
			if o.code != optECS || !curCfg.ecs {
				or = fail("set0/client-option-forwarded", fmt.Sprintf("code=%d", o.code))
			}
		}
		tags := ""
		if q.opt.present {
			tags = "nt,set0"
		}
		return vlib.Res{Impl: impl, Oracle: or, Tags: tags}

	case "edns serve":
		path, proto := f[2], f[3]
		q, r := parseQ(f[4]), parseR(f[5])
		raw := rawQuery(q)
		if len(wireName(qnameOf(q.id)))+4 != q.qlen {
			return vlib.Res{Impl: "bad-lens qlen"}
		}
		orig := new(dns.Msg)
		if err := orig.Unpack(raw); err != nil {
			return vlib.Res{Impl: "undecodable"}
		}
		w := newCapW(proto)
		st := &scripted{r: r, q: q}
		// the real recovery middleware stands in front, as in the default chain
		ch := middleware.NewChain([]middleware.Handler{recovery.New(curCfg.config()), curEDNS, st})
		var rq middleware.Request
		wire := false
		if path == "w" && rq.ParseWire(raw, time.Now(), nil) {
			ch.ResetWire(w, &rq)
			wire = true
		} else {
			req := new(dns.Msg)
			_ = req.Unpack(raw)
			ch.Reset(w, req)
		}
		ch.Next(context.Background())
		ch.Finish()
		if st.lensBad != "" {
			return vlib.Res{Impl: st.lensBad}
		}
		impl := curCfg.ctx().absReply(w.msg, orig)
		if w.n > 1 {
			impl += fmt.Sprintf(" writes=%d", w.n)
		}
		or := "-"
		entry := "edns/serve-" + proto
		if w.msg != nil {
			packed, err := packReply(w.msg)
			if err != nil {
				or = fail(entry+"/reply/unpackable", err.Error())
			} else {
				// the harness writer stands in for the DoQ stream writer (the one
				// that zeroes the ID), so the ID is judged as an echo here
				jp := map[string]string{"doq": "doq-noid"}[proto]
				if jp == "" {
					jp = proto
				}
				or = judgeHinted(entry, entryKind{proto: jp}, curCfg.deploy(), raw, packed, r)
			}
		}
		tags := ruleTags(q, r, proto, w.msg)
		if wire {
			tags = strings.TrimPrefix(tags+",wireborn", ",")
		}
		return vlib.Res{Impl: impl, Oracle: or, Tags: tags}

	case "edns wirewrite":
		path, proto := f[2], f[3]
		q, r := parseQ(f[5]), parseR(f[6])
		raw := rawQuery(q)
		orig := new(dns.Msg)
		if err := orig.Unpack(raw); err != nil {
			return vlib.Res{Impl: "undecodable"}
		}
		w := newCapW(proto)
		st := &wireScripted{r: r, q: q, bodyLen: vlib.Atoi(f[4])}
		ch := middleware.NewChain([]middleware.Handler{curEDNS, st})
		var rq middleware.Request
		if path == "w" && rq.ParseWire(raw, time.Now(), nil) {
			ch.ResetWire(w, &rq)
		} else {
			req := new(dns.Msg)
			_ = req.Unpack(raw)
			ch.Reset(w, req)
		}
		ch.AllowDirectPack() // the owned listeners declare their sockets raw byte sinks
		ch.Next(context.Background())
		ch.Finish()
		if st.lensBad != "" {
			return vlib.Res{Impl: st.lensBad}
		}
		impl := st.out
		or := "-"
		tags := "nt,wirewrite"
		if w.raw != nil {
			impl += " " + curCfg.ctx().absReply(w.msg, orig)
			or = judgeHinted("edns/wirewrite-"+proto, entryKind{proto: proto}, curCfg.deploy(), raw, w.raw, r)
			tags += ",wire-written"
		} else if strings.HasSuffix(impl, "fallback") {
			tags += ",wire-fallback"
		}
		return vlib.Res{Impl: impl, Oracle: or, Tags: tags}

	case "edns cachewire":
		do := f[2] == "t"
		q, r := parseQ(f[3]), parseR(f[4])
		req := new(dns.Msg)
		if err := req.Unpack(rawQuery(q)); err != nil {
			return vlib.Res{Impl: "undecodable"}
		}
		admitQ := q
		if len(f) > 5 {
			admitQ.mask = vlib.Atoi(f[5]) // admitted under another spelling of the name
		}
		admitReq := new(dns.Msg)
		_ = admitReq.Unpack(rawQuery(admitQ))
		up := buildUpstream(r, admitReq)
		e := cache.NewCacheEntry(up, 60*time.Second, 0)
		if e == nil {
			return vlib.Res{Impl: "nocache", Oracle: "-"}
		}
		_, has, _, stripped := cache.VerifC06WireFlags(e)
		impl := fmt.Sprintf("has=%s stripped=%s", vlib.B(has), vlib.B(stripped))
		body, info, ok := cache.VerifC06ServeWire(e, req, 0, do)
		or := "ok"
		if !ok {
			impl += " none"
		} else {
			m := new(dns.Msg)
			if err := m.Unpack(body); err != nil {
				return vlib.Res{Impl: impl + " badbody", Oracle: fail("cachewire/body-undecodable", err.Error())}
			}
			ede := "-"
			if info.HasEDE {
				ede = vlib.Hex(append([]byte{byte(info.EDECode >> 8), byte(info.EDECode)}, info.EDEText...))
			}
			impl += fmt.Sprintf(" info rc=%d ad=%s dnssec=%s ede=%s body %s", info.Rcode, vlib.B(info.AuthenticatedData), vlib.B(info.HasDNSSEC), ede, curCfg.ctx().absReply(m, req))
			// oracle: the contract the edns layer relies on, and the header echo
			carries := false
			for _, sec := range [][]dns.RR{m.Answer, m.Ns} {
				for _, rr := range sec {
					switch rr.Header().Rrtype {
					case dns.TypeRRSIG, dns.TypeNSEC, dns.TypeNSEC3:
						carries = true
					}
				}
			}
			switch {
			case !do && carries && !info.HasDNSSEC && q.qtype != int(dns.TypeRRSIG):
				or = fail("cachewire/dnssec/unflagged-body-for-do0", "")
			case m.Id != uint16(q.id) || !m.Response || m.Opcode != q.opcode || len(m.Question) != 1 || m.Question[0] != req.Question[0]:
				or = fail("cachewire/echo", "")
			case m.AuthenticatedData != info.AuthenticatedData:
				or = fail("cachewire/info-ad-differs", "")
			case m.AuthenticatedData && q.cd:
				or = fail("cachewire/ad/set-cd", "")
			case m.IsEdns0() != nil:
				or = fail("cachewire/body-carries-opt", "")
			}
		}
		return vlib.Res{Impl: impl, Oracle: or, Tags: "nt,cachewire"}

	case "edns hit":
		// the REAL cache handler between edns and a terminal that must not be
		// reached: the entry is admitted first, then the query is served as a hit
		path, proto := f[2], f[3]
		q, r := parseQ(f[5]), parseR(f[6])
		if packedHitLens(q, r) != f[4] {
			return vlib.Res{Impl: "bad-lens packed " + packedHitLens(q, r)}
		}
		raw := rawQuery(q)
		orig := new(dns.Msg)
		if err := orig.Unpack(raw); err != nil {
			return vlib.Res{Impl: "undecodable"}
		}
		ccfg := curCfg.config()
		ccfg.CacheSize, ccfg.Expire = 1024, 600
		c := cache.New(ccfg)
		defer c.Stop()
		admit := new(dns.Msg)
		_ = admit.Unpack(raw)
		up := buildUpstream(r, admit)
		if lb := checkLens(q, r, up); lb != "" {
			return vlib.Res{Impl: lb}
		}
		cache.VerifC06Seed(c, up)
		w := newCapW(proto)
		missed := false
		terminal := middleware.HandlerFunc(func(_ context.Context, ch *middleware.Chain) {
			missed = true
			ch.Cancel()
		})
		ch := middleware.NewChain([]middleware.Handler{recovery.New(ccfg), curEDNS, c, terminal})
		var rq middleware.Request
		wire := false
		if path == "w" && rq.ParseWire(raw, time.Now(), nil) {
			ch.ResetWire(w, &rq)
			wire = true
		} else {
			req := new(dns.Msg)
			_ = req.Unpack(raw)
			ch.Reset(w, req)
		}
		if proto == "udp" || proto == "tcp" {
			ch.AllowDirectPack()
		}
		chase0, _ := cache.VerifC06WireCounters()
		ch.Next(context.Background())
		ch.Finish()
		if missed {
			return vlib.Res{Impl: "miss", Oracle: "-", Tags: "hit-missed"}
		}
		reply := w.msg
		// byte and message route order the OPT's options differently (server
		// options first vs the entry's extended error first): compared as a set
		impl := sortOptions(curCfg.ctx().absReply(reply, orig))
		or := "-"
		tags := "nt,hit"
		if w.raw != nil {
			tags += ",hit-bytes"
			or = judgeHinted("edns/hit-"+proto, entryKind{proto: proto}, curCfg.deploy(), raw, w.raw, aR{})
		} else if reply != nil {
			tags += ",hit-msg"
			if packed, err := packReply(reply); err == nil {
				jp := map[string]string{"doq": "doq-noid"}[proto]
				if jp == "" {
					jp = proto
				}
				or = judgeHinted("edns/hit-"+proto, entryKind{proto: jp}, curCfg.deploy(), raw, packed, aR{})
			}
		}
		if c1, _ := cache.VerifC06WireCounters(); c1 > chase0 {
			tags += ",wire-chase-composed"
		}
		if wire {
			tags += ",wireborn"
		}
		return vlib.Res{Impl: impl, Oracle: or, Tags: tags}

	case "edns hitchase":
		// a bare alias and its target, both admitted; the alias asked on the byte route
		path, proto := f[2], f[3]
		q, ra := parseQ(f[4]), parseR(f[5])
		tq, rt := parseQ(f[6]), parseR(f[7])
		raw := rawQuery(q)
		orig := new(dns.Msg)
		if err := orig.Unpack(raw); err != nil {
			return vlib.Res{Impl: "undecodable"}
		}
		ccfg := curCfg.config()
		ccfg.CacheSize, ccfg.Expire = 1024, 600
		c := cache.New(ccfg)
		defer c.Stop()
		for _, pr := range []struct {
			q aQ
			r aR
		}{{q, ra}, {tq, rt}} {
			admit := new(dns.Msg)
			_ = admit.Unpack(rawQuery(pr.q))
			cache.VerifC06Seed(c, buildUpstream(pr.r, admit))
		}
		w := newCapW(proto)
		missed := false
		terminal := middleware.HandlerFunc(func(_ context.Context, ch *middleware.Chain) {
			missed = true
			ch.Cancel()
		})
		ch := middleware.NewChain([]middleware.Handler{recovery.New(ccfg), curEDNS, c, terminal})
		var rq middleware.Request
		if path == "w" && rq.ParseWire(raw, time.Now(), nil) {
			ch.ResetWire(w, &rq)
		} else {
			req := new(dns.Msg)
			_ = req.Unpack(raw)
			ch.Reset(w, req)
		}
		ch.AllowDirectPack()
		chase0, _ := cache.VerifC06WireCounters()
		ch.Next(context.Background())
		ch.Finish()
		c1, _ := cache.VerifC06WireCounters()
		if missed || w.raw == nil || c1 == chase0 {
			return vlib.Res{Impl: "declined", Oracle: "-", Tags: "hitchase-declined"}
		}
		impl := sortOptions(curCfg.ctx().absReply(w.msg, orig))
		or := judgeHinted("edns/hitchase-"+proto, entryKind{proto: proto}, curCfg.deploy(), raw, w.raw, aR{})
		return vlib.Res{Impl: impl, Oracle: or, Tags: "nt,hitchase,wire-chase-composed"}

	case "edns as112":
		// the real AS112 handler behind the real recovery+edns, for a private reverse name
		path, proto := f[2], f[3]
		q := parseQ(f[4])
		raw := rawQuery(q)
		orig := new(dns.Msg)
		if err := orig.Unpack(raw); err != nil {
			return vlib.Res{Impl: "undecodable"}
		}
		w := newCapW(proto)
		missed := false
		terminal := middleware.HandlerFunc(func(_ context.Context, ch *middleware.Chain) {
			missed = true
			ch.Cancel()
		})
		ch := middleware.NewChain([]middleware.Handler{recovery.New(curCfg.config()), curEDNS, as112.New(curCfg.config()), terminal})
		var rq middleware.Request
		wire := false
		if path == "w" && rq.ParseWire(raw, time.Now(), nil) {
			ch.ResetWire(w, &rq)
			wire = true
		} else {
			req := new(dns.Msg)
			_ = req.Unpack(raw)
			ch.Reset(w, req)
		}
		ch.Next(context.Background())
		ch.Finish()
		if missed {
			return vlib.Res{Impl: "passed-on", Oracle: "-"}
		}
		impl := curCfg.ctx().absReply(w.msg, orig)
		or := "-"
		if w.msg != nil {
			if packed, err := packReply(w.msg); err == nil {
				jp := map[string]string{"doq": "doq-noid"}[proto]
				if jp == "" {
					jp = proto
				}
				or = judgeHinted("edns/as112-"+proto, entryKind{proto: jp}, curCfg.deploy(), raw, packed, aR{})
			}
		}
		tags := "nt,as112"
		if wire {
			tags += ",wireborn"
		}
		if q.qclass > 1 {
			tags += ",class-not-in"
		}
		return vlib.Res{Impl: impl, Oracle: or, Tags: tags}

	case "edns ratelimit":
		// the REAL rate limiter ahead of the real recovery+edns: Q1 lets it remember a
		// cookie for this client (or not), Q2 is the query whose reply is compared
		path, proto, ks := f[2], f[3], f[4]
		q1, q2, r := parseQ(f[5]), parseQ(f[6]), parseR(f[7])
		rcfg := curCfg.config()
		rcfg.ClientRateLimit = 100000
		rl := ratelimit.New(rcfg)
		known, same := rlFacts(q1, q2, curCfg.deploy().secret)
		if ks != fmt.Sprintf("k=%s,s=%s", vlib.B(known), vlib.B(same)) {
			return vlib.Res{Impl: "bad-facts"}
		}
		var w *capW
		var st *scripted
		var orig *dns.Msg
		for i, q := range []aQ{q1, q2} {
			raw := rawQuery(q)
			orig = new(dns.Msg)
			if err := orig.Unpack(raw); err != nil {
				return vlib.Res{Impl: "undecodable"}
			}
			w = newCapW(proto)
			st = &scripted{r: r, q: q}
			if i == 0 {
				st.r = parseR(plainR)
			}
			ch := middleware.NewChain([]middleware.Handler{recovery.New(rcfg), rl, curEDNS, st})
			var rq middleware.Request
			if path == "w" && rq.ParseWire(raw, time.Now(), nil) {
				ch.ResetWire(w, &rq)
			} else {
				req := new(dns.Msg)
				_ = req.Unpack(raw)
				ch.Reset(w, req)
			}
			ch.Next(context.Background())
			ch.Finish()
		}
		if st.lensBad != "" {
			return vlib.Res{Impl: st.lensBad}
		}
		raw2 := rawQuery(q2)
		impl := curCfg.ctx().absReply(w.msg, orig)
		or := "-"
		tags := "nt,ratelimit"
		if w.msg != nil {
			if w.msg.Rcode == dns.RcodeBadCookie {
				tags += ",badcookie"
			}
			if packed, err := packReply(w.msg); err == nil {
				jp := map[string]string{"doq": "doq-noid"}[proto]
				if jp == "" {
					jp = proto
				}
				or = judgeHinted("edns/ratelimit-"+proto, entryKind{proto: jp}, curCfg.deploy(), raw2, packed, r)
			}
		}
		return vlib.Res{Impl: impl, Oracle: or, Tags: tags}

	case "edns failover":
		ensureFallbacks()
		path, proto := f[2], f[3]
		q, r := parseQ(f[4]), parseR(f[5])
		f1, f2 := parseR(f[6]), parseR(f[7])
		for i, sc := range []aR{f1, f2} {
			fallbacks[i].mu.Lock()
			fallbacks[i].script = sc
			fallbacks[i].mu.Unlock()
		}
		raw := rawQuery(q)
		orig := new(dns.Msg)
		if err := orig.Unpack(raw); err != nil {
			return vlib.Res{Impl: "undecodable"}
		}
		w := newCapW(proto)
		st := &scripted{r: r, q: q}
		ch := middleware.NewChain([]middleware.Handler{recovery.New(curCfg.config()), curEDNS, failoverMW, st})
		var rq middleware.Request
		if path == "w" && rq.ParseWire(raw, time.Now(), nil) {
			ch.ResetWire(w, &rq)
		} else {
			req := new(dns.Msg)
			_ = req.Unpack(raw)
			ch.Reset(w, req)
		}
		ch.Next(context.Background())
		ch.Finish()
		if st.lensBad != "" {
			return vlib.Res{Impl: st.lensBad}
		}
		impl := curCfg.ctx().absReply(w.msg, orig)
		or := "-"
		if w.msg != nil {
			if packed, err := packReply(w.msg); err != nil {
				or = fail("edns/failover-"+proto+"/reply/unpackable", err.Error())
			} else {
				jp := map[string]string{"doq": "doq-noid"}[proto]
				if jp == "" {
					jp = proto
				}
				or = judgeHinted("edns/failover-"+proto, entryKind{proto: jp}, curCfg.deploy(), raw, packed, aR{})
			}
		}
		tags := "nt,failover"
		if r.mode == 'e' && r.rcode == dns.RcodeServerFailure && q.rd && q.opcode == 0 {
			tags += ",failover-retried"
			if f1.rcode == dns.RcodeServerFailure && f2.rcode == dns.RcodeServerFailure {
				tags += ",failover-all-failed"
			}
		}
		return vlib.Res{Impl: impl, Oracle: or, Tags: tags}

	case "edns tomsg":
		q, r := parseQ(f[2]), parseR(f[3])
		raw := rawQuery(q)
		req := new(dns.Msg)
		if err := req.Unpack(raw); err != nil {
			return vlib.Res{Impl: "undecodable"}
		}
		// the entry is admitted from the answer to a query that may have spelled the name differently
		admitQ := q
		if len(f) > 4 {
			admitQ.mask = vlib.Atoi(f[4])
		}
		admitReq := new(dns.Msg)
		_ = admitReq.Unpack(rawQuery(admitQ))
		up := buildUpstream(r, admitReq)
		e := cache.NewCacheEntry(up, 60*time.Second, 0)
		if e == nil {
			return vlib.Res{Impl: "nocache", Oracle: "-"}
		}
		resp := e.ToMsg(req)
		impl := curCfg.ctx().absReply(resp, req)
		// oracle: the header is derived from the request
		or := "ok"
		switch {
		case resp == nil:
			or = "-"
		case !resp.Response:
			or = fail("tomsg/echo/qr-clear", "")
		case resp.Id != uint16(q.id):
			or = fail("tomsg/echo/id", "")
		case resp.Opcode != q.opcode:
			or = fail("tomsg/echo/opcode", "")
		case len(resp.Question) != 1 || resp.Question[0] != req.Question[0]:
			or = fail("tomsg/echo/question", "")
		case resp.AuthenticatedData && q.cd:
			or = fail("tomsg/ad/set-cd", "")
		case resp.IsEdns0() != nil && !q.opt.present:
			or = fail("tomsg/opt/unsolicited", "")
		}
		return vlib.Res{Impl: impl, Oracle: or, Tags: "nt,tomsg"}

	case "edns parsewire":
		raw := vlib.UnHex(f[2])
		var rq middleware.Request
		okw := rq.ParseWire(raw, time.Now(), nil)
		m := new(dns.Msg)
		derr := m.Unpack(raw)
		if !okw {
			return vlib.Res{Impl: "no", Oracle: "ok", Tags: "nt,parsewire-refused"}
		}
		optS := "-"
		if rq.HasOPT() {
			optS = fmt.Sprintf("%d/%s/%d", rq.UDPSize(), vlib.B(rq.DO()), rq.EDNSVersion())
		}
		impl := fmt.Sprintf("ok id=%d op=%d rd=%s ad=%s cd=%s qt=%d qc=%d nl=%d opt=%s ecs=%s nsid=%s ka=%s cookie=%s",
			rq.ID(), rq.Opcode(), vlib.B(rq.RD()), vlib.B(rq.AD()), vlib.B(rq.CD()), rq.Qtype(), rq.Qclass(), len(rq.WireName()),
			optS, vlib.B(rq.HasECS()), vlib.B(rq.HasNSID()), vlib.B(rq.HasTCPKeepalive()), vlib.Hex(rq.CookieEcho()))
		// oracle: a packet served without decoding must be one the library decodes,
		// and the facts read off the bytes must be the decoded ones
		or := "ok"
		switch {
		case derr != nil:
			or = fail("parsewire/admitted-undecodable", derr.Error())
		case len(m.Question) != 1 || m.Response || m.Opcode != 0:
			or = fail("parsewire/admitted-non-query", "")
		case m.Id != rq.ID() || m.Question[0].Qtype != rq.Qtype() || m.RecursionDesired != rq.RD() ||
			m.CheckingDisabled != rq.CD() || m.AuthenticatedData != rq.AD():
			or = fail("parsewire/facts-differ/header", "")
		default:
			o := m.IsEdns0()
			if (o != nil) != rq.HasOPT() {
				or = fail("parsewire/facts-differ/opt-presence", "")
			} else if o != nil && (o.UDPSize() != rq.UDPSize() || o.Do() != rq.DO() || o.Version() != rq.EDNSVersion()) {
				or = fail("parsewire/facts-differ/opt", "")
			}
		}
		return vlib.Res{Impl: impl, Oracle: or, Tags: "nt,parsewire-admitted"}

	case "accept hdr":
		fl, qd, an, ns, ar := vlib.Atoi(f[2]), vlib.Atoi(f[3]), vlib.Atoi(f[4]), vlib.Atoi(f[5]), vlib.Atoi(f[6])
		got := server.VerifC06AcceptHeader(uint16(fl), uint16(qd), uint16(an), uint16(ns), uint16(ar))
		codes := server.VerifC06VerdictCodes()
		name := "?"
		for i, n := range []string{"ok", "ignore", "notimp", "formerr"} {
			if codes[i] == got {
				name = n
			}
		}
		// oracle, from the property: responses ignored; non-query opcodes NOTIMP
		// (Notify reaches the edns handler, which answers NOTIMP); QDCOUNT != 1 FORMERR.
		or := "ok"
		qr := fl&0x8000 != 0
		opc := (fl >> 11) & 0xF
		switch {
		case qr:
			if name != "ignore" {
				or = fail("accept/qr-not-ignored", name)
			}
		case name == "ignore":
			or = fail("accept/query-ignored", "")
		case opc != 0 && opc != 4:
			if name != "notimp" {
				or = fail("accept/opcode-not-notimp", fmt.Sprintf("opcode=%d verdict=%s", opc, name))
			}
		case opc == 4:
			if name == "ok" && qd != 1 {
				or = fail("accept/bad-qdcount-accepted", "")
			}
		case qd != 1:
			if name != "formerr" {
				or = fail("accept/bad-qdcount-accepted", fmt.Sprintf("qd=%d verdict=%s", qd, name))
			}
		}
		return vlib.Res{Impl: name, Oracle: or, Tags: "nt,accept"}

	case "srv new", "srv q", "srv raw", "srv stop", "srv seed":
		return execSrv(f)
	}
	return vlib.Res{Impl: "bad-op"}
}

func main() {
	defer stopLive() // a replay may end without `srv stop`
	vlib.Main(&vlib.Driver{Facts: facts, Exec: exec, Gen: gen})
}
