//go:build verif

package main

import (
	"fmt"
	"net"
	"time"

	"github.com/miekg/dns"
	"github.com/semihalev/sdns/internal/verif/srvh"
	"github.com/semihalev/sdns/internal/verif/vlib"
)

func main() {
	vlib.Quiet()
	l := srvh.Start(srvh.Opts{Listen: true})
	defer l.Stop()
	l.Stub.Set(func(req *dns.Msg) *dns.Msg {
		m := new(dns.Msg)
		m.SetReply(req)
		m.RecursionAvailable = true
		rr, _ := dns.NewRR(req.Question[0].Name + " 300 IN A 192.0.2.53")
		m.Answer = []dns.RR{rr}
		return m
	})
	q := new(dns.Msg)
	q.SetQuestion("a.example.", dns.TypeA)
	q.SetEdns0(1232, false)
	raw, _ := q.Pack()
	for i := 0; i < 2; i++ {
		w, h, s := l.Raw(raw, &net.UDPAddr{IP: net.IPv4(203, 0, 113, 7), Port: 4242})
		m := new(dns.Msg)
		if len(w) > 0 {
			m.Unpack(w[0])
		}
		fmt.Println("raw:", len(w), h, s, m.Rcode, len(m.Answer), "stub calls", l.Stub.Calls.Load())
	}
	mw := l.Msg(q, &net.UDPAddr{IP: net.IPv4(203, 0, 113, 7), Port: 4242}, "udp")
	fmt.Println("msg:", len(mw.Msgs), mw.Msgs[0].Rcode, len(mw.Msgs[0].Answer))
	c := &dns.Client{Timeout: 2 * time.Second}
	r, _, err := c.Exchange(q, l.Addr)
	fmt.Println("udp socket:", err, r != nil && len(r.Answer) == 1)
	c.Net = "tcp"
	r, _, err = c.Exchange(q, l.Addr)
	fmt.Println("tcp socket:", err, r != nil && len(r.Answer) == 1)
}
