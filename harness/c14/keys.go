//go:build verif

// Deterministic key material for the C14 generator: RSA moduli built from
// primes found with math/big from the run's splitmix64 stream (crypto/rsa's
// GenerateKey ignores its reader and refuses small sizes), ECDSA keys from
// raw scalars with RFC 6979 signatures, Ed25519 keys from seeds.
package main

import (
	"crypto"
	"crypto/ecdsa"
	"crypto/ed25519"
	"crypto/elliptic"
	"encoding/asn1"
	"encoding/base64"
	"math/big"

	"github.com/semihalev/sdns/internal/verif/vlib"
)

var smallPrimes = func() []uint64 {
	var ps []uint64
	for i := uint64(3); i < 2000; i += 2 {
		ok := true
		for _, p := range ps {
			if i%p == 0 {
				ok = false
				break
			}
		}
		if ok {
			ps = append(ps, i)
		}
	}
	return ps
}()

func genPrime(r *vlib.R, bits int) *big.Int {
	nb := (bits + 7) / 8
	two := big.NewInt(2)
	for {
		x := new(big.Int).SetBytes(r.Bytes(nb))
		for i := bits; i < nb*8; i++ {
			x.SetBit(x, i, 0)
		}
		x.SetBit(x, bits-1, 1)
		x.SetBit(x, bits-2, 1)
		x.SetBit(x, 0, 1)
		var m, pp big.Int
		for k := 0; k < 6000; k++ {
			ok := true
			for _, p := range smallPrimes {
				if m.Mod(x, pp.SetUint64(p)).Sign() == 0 {
					ok = false
					break
				}
			}
			if ok && x.ProbablyPrime(1) {
				if x.BitLen() == bits {
					return x
				}
				break
			}
			x.Add(x, two)
		}
	}
}

type rsaMod struct {
	bits   int
	p, q   *big.Int
	n, phi *big.Int
}

// genRSAMod returns a modulus of exactly `bits` bits.
func genRSAMod(r *vlib.R, bits int) *rsaMod {
	pb := (bits + 1) / 2
	qb := bits - pb
	for {
		p, q := genPrime(r, pb), genPrime(r, qb)
		if p.Cmp(q) == 0 {
			continue
		}
		n := new(big.Int).Mul(p, q)
		if n.BitLen() != bits {
			continue
		}
		one := big.NewInt(1)
		phi := new(big.Int).Mul(new(big.Int).Sub(p, one), new(big.Int).Sub(q, one))
		return &rsaMod{bits: bits, p: p, q: q, n: n, phi: phi}
	}
}

// privExp returns d with e*d = 1 mod phi, or nil when e is not invertible.
func (m *rsaMod) privExp(e *big.Int) *big.Int {
	return new(big.Int).ModInverse(e, m.phi)
}

// rsaPubBytes is the RFC 3110 encoding. form: 1 = one length octet,
// 3 = zero octet + two length octets, 0 = the shortest that fits.
func rsaPubBytes(e, n *big.Int, form int) []byte {
	eb := e.Bytes()
	return rsaPubRaw(eb, n.Bytes(), form)
}

func rsaPubRaw(eb, nb []byte, form int) []byte {
	var out []byte
	if form == 3 || (form == 0 && len(eb) > 255) {
		out = append(out, 0, byte(len(eb)>>8), byte(len(eb)))
	} else {
		out = append(out, byte(len(eb)))
	}
	out = append(out, eb...)
	return append(out, nb...)
}

func b64(b []byte) string { return base64.StdEncoding.EncodeToString(b) }

// rsaSign is RSASSA-PKCS1-v1_5 by hand: EM^d mod n, left padded to k octets.
func rsaSign(n, d *big.Int, prefix, hashed []byte) []byte {
	k := (n.BitLen() + 7) / 8
	em := refEM(prefix, hashed, k)
	if em == nil {
		return nil
	}
	s := new(big.Int).Exp(new(big.Int).SetBytes(em), d, n)
	out := make([]byte, k)
	s.FillBytes(out)
	return out
}

type signer struct {
	kind string // rsa | ecdsa | ed
	alg  uint8
	pub  string // canonical base64 of the public key
	// rsa
	mod  *rsaMod
	e, d *big.Int
	// ecdsa
	ec   *ecdsa.PrivateKey
	size int
	// ed25519
	ed ed25519.PrivateKey
}

func newECDSASigner(r *vlib.R, alg uint8) *signer {
	curve, size := elliptic.P256(), 32
	if alg == 14 {
		curve, size = elliptic.P384(), 48
	}
	for {
		priv, err := ecdsa.ParseRawPrivateKey(curve, r.Bytes(size))
		if err != nil {
			continue
		}
		raw, err := priv.PublicKey.Bytes() // 04 || X || Y
		if err != nil {
			continue
		}
		return &signer{kind: "ecdsa", alg: alg, ec: priv, size: size, pub: b64(raw[1:])}
	}
}

func newEdSigner(r *vlib.R) *signer {
	priv := ed25519.NewKeyFromSeed(r.Bytes(32))
	return &signer{kind: "ed", alg: 15, ed: priv, pub: b64(priv.Public().(ed25519.PublicKey))}
}

// sign returns the raw DNSSEC signature octets over signed for algorithm alg.
func (s *signer) sign(alg uint8, signed []byte) []byte {
	switch s.kind {
	case "rsa":
		if s.d == nil || refPrefix[alg] == nil {
			return nil
		}
		return rsaSign(s.mod.n, s.d, refPrefix[alg], refHash(alg, signed))
	case "ecdsa":
		h := crypto.SHA256
		if s.alg == 14 {
			h = crypto.SHA384
		}
		der, err := s.ec.Sign(nil, refHash(s.alg, signed), h) // nil rand: RFC 6979
		if err != nil {
			return nil
		}
		var rs struct{ R, S *big.Int }
		if _, err := asn1.Unmarshal(der, &rs); err != nil {
			return nil
		}
		out := make([]byte, 2*s.size)
		rs.R.FillBytes(out[:s.size])
		rs.S.FillBytes(out[s.size:])
		return out
	case "ed":
		return ed25519.Sign(s.ed, signed)
	}
	return nil
}
