//go:build verif

package main

import (
	"bytes"
	"encoding/hex"
	"fmt"
	"math/big"
	"strings"
	"time"

	"github.com/miekg/dns"
	"github.com/semihalev/sdns/internal/verif/vlib"
)

// ---------------------------------------------------------------- key pool

type world struct {
	r       *vlib.R
	mods    []*rsaMod
	rsa     []*signer // (modulus, exponent) pairs, d == nil when e has no inverse
	others  []*signer // ECDSA P-256, P-384, Ed25519
	small   []*rsaMod // toy moduli for the raw verifier
	emit    func(string)
	left    int
	allKeys []*signer
	wide    []*signer // RSA keys inside the limits with an exponent crypto/rsa refuses, able to sign
	shapes  int       // how many leading entries of the last variants() list are signature shapes
}

var rsaSizesQuick = []int{512, 1023, 1024, 1025, 2048, 4096, 4097}

func bigFrom(s string) *big.Int {
	x, _ := new(big.Int).SetString(s, 0)
	return x
}

// exponents: small, the usual one, the stdlib ceiling and just above it,
// the mailbox.org value 2^32+1, 64 bits, and 65 bits (over the limit).
var exponents = []*big.Int{
	big.NewInt(3), big.NewInt(65537), big.NewInt(1<<31 - 1), bigFrom("0x8000000b"), bigFrom("0x100000001"),
	bigFrom("0xFFFFFFFFFFFFFFC5"), bigFrom("0x1000000000000000F"), big.NewInt(1), big.NewInt(65536), bigFrom("0x100000000"),
	bigFrom("0x10000000f"), bigFrom("0x80000001"),
}

// indices into exponents of the wide (more than 31 bits) ones that stay within the 64-bit limit
var wideExp = []int{3, 4, 5, 10, 11}

func newWorld(r *vlib.R, tier string, emit func(string), n int) *world {
	w := &world{r: r, emit: emit, left: n}
	for _, bits := range rsaSizesQuick {
		m := genRSAMod(r, bits)
		w.mods = append(w.mods, m)
		for _, e := range exponents {
			s := &signer{kind: "rsa", alg: 8, mod: m, e: e}
			if e.Bit(0) == 1 && e.Cmp(big.NewInt(1)) > 0 {
				s.d = m.privExp(e)
			}
			s.pub = b64(rsaPubBytes(e, m.n, 0))
			w.rsa = append(w.rsa, s)
		}
	}
	w.others = []*signer{newECDSASigner(r, 13), newECDSASigner(r, 14), newEdSigner(r), newECDSASigner(r, 13), newEdSigner(r)}
	for _, bits := range []int{128, 136, 160, 200, 256} {
		w.small = append(w.small, genRSAMod(r, bits))
	}
	w.allKeys = append(append([]*signer{}, w.rsa...), w.others...)
	for _, s := range w.rsa {
		if s.d != nil && s.e.BitLen() > 31 && s.mod.bits >= 1024 && s.mod.bits <= 4096 {
			w.wide = append(w.wide, s)
		}
	}
	return w
}

func (w *world) out(op string) { w.emit(op); w.left-- }

// ---------------------------------------------------------------- names

const labelAlphabet = "abcdefghijklmnopqrstuvwxyzABCDEFGHIJKLMNOPQRSTUVWXYZ0123456789-_"

func genLabel(r *vlib.R, plain bool) []byte {
	n := 1 + r.Intn(8)
	b := make([]byte, n)
	for i := range b {
		b[i] = labelAlphabet[r.Intn(len(labelAlphabet))]
	}
	if !plain && r.Chance(1, 8) {
		b[r.Intn(n)] = vlib.Pick(r, []byte{'.', '\\', ' ', 0, 0xff, '*', '"', ';', '@', 'K'})
	}
	return b
}

func genLabels(r *vlib.R, lo, hi int, plain bool) [][]byte {
	n := r.Range(lo, hi)
	out := make([][]byte, n)
	for i := range out {
		out[i] = genLabel(r, plain)
	}
	return out
}

func pres(wire []byte) string {
	s, _, err := dns.UnpackDomainName(wire, 0)
	if err != nil {
		panic("unpack name: " + err.Error())
	}
	return s
}

func recase(r *vlib.R, b []byte) []byte {
	out := append([]byte(nil), b...)
	for i, c := range out {
		if r.Bool() {
			if c >= 'a' && c <= 'z' {
				out[i] = c - 32
			} else if c >= 'A' && c <= 'Z' {
				out[i] = c + 32
			}
		}
	}
	return out
}

func recaseLabels(r *vlib.R, ls [][]byte) [][]byte {
	out := make([][]byte, len(ls))
	for i, l := range ls {
		out[i] = recase(r, l)
	}
	return out
}

// recaseStr flips the case of ASCII letters in a presentation string
// (escape digits are not letters, so the name it denotes keeps its labels).
func recaseStr(r *vlib.R, s string) string { return string(recase(r, []byte(s))) }

// ---------------------------------------------------------------- RRsets

// record types the generator can hand-pack. Name-bearing types whose names
// RFC 4034 §6.2 / RFC 6840 §5.1 fold, name-bearing types that are signed as
// published (NSEC, NXT, SVCB, HTTPS, LP, TALINK, NSAP-PTR),
// and types without names.
var rrTypes = []uint16{1, 28, 16, 15, 2, 12, 5, 33, 6, 39, 17, 48, 65280, 13,
	3, 4, 7, 8, 9, 14, 21, 26, 35, 36, 18, 47, 47, 64, 65, 107, 58, 23, 30, 50}

// nameLayout: octets before the names, number of consecutive names (0 = none known here).
func nameLayout(typ uint16, rd []byte) (skip, names int) {
	switch typ {
	case 2, 3, 4, 5, 7, 8, 9, 12, 39, 23, 47, 30:
		return 0, 1
	case 15, 18, 21, 36, 64, 65, 107:
		return 2, 1
	case 33:
		return 6, 1
	case 6, 14, 17, 58:
		return 0, 2
	case 26:
		return 2, 2
	case 35:
		off := 4
		for i := 0; i < 3 && off < len(rd); i++ {
			off += 1 + int(rd[off])
		}
		return off, 1
	}
	return 0, 0
}

func genRdata(r *vlib.R, typ uint16) []byte {
	name := func() []byte { return joinWireName(genLabels(r, 0, 3, false)) }
	switch typ {
	case 1:
		return r.Bytes(4)
	case 28:
		return r.Bytes(16)
	case 16, 13: // TXT, HINFO (two strings)
		k := 1 + r.Intn(3)
		if typ == 13 {
			k = 2
		}
		var out []byte
		for i := 0; i < k; i++ {
			n := r.Intn(12)
			out = append(out, byte(n))
			s := r.Bytes(n)
			if r.Chance(2, 3) {
				for j := range s {
					s[j] = labelAlphabet[int(s[j])%len(labelAlphabet)]
				}
			}
			out = append(out, s...)
		}
		return out
	case 15, 18, 21, 36, 64, 65, 107: // MX AFSDB RT KX; SVCB HTTPS (no parameters) LP
		return append(r.Bytes(2), name()...)
	case 2, 12, 5, 39, 3, 4, 7, 8, 9, 23: // single name
		return name()
	case 47, 30: // NSEC, and NXT which the library reads the same way: next name + a type bitmap
		return append(name(), vlib.Pick(r, [][]byte{{0, 1, 0x40}, {0, 6, 0x40, 0, 0, 0, 0, 3}, {0, 1, 0x62, 1, 1, 0x80}})...)
	case 50: // NSEC3: SHA-1, flags, iterations, salt, next hashed owner, type bitmap
		salt := r.Bytes(r.Intn(5))
		out := append([]byte{1, byte(r.Intn(2)), 0, byte(r.Intn(20)), byte(len(salt))}, salt...)
		out = append(out, 20)
		out = append(out, r.Bytes(20)...)
		return append(out, 0, 1, 0x40)
	case 14, 58: // MINFO; TALINK
		return append(name(), name()...)
	case 26: // PX
		return append(append(r.Bytes(2), name()...), name()...)
	case 35: // NAPTR
		out := r.Bytes(4)
		for i := 0; i < 3; i++ {
			n := r.Intn(6)
			out = append(out, byte(n))
			for j := 0; j < n; j++ {
				out = append(out, labelAlphabet[r.Intn(len(labelAlphabet))])
			}
		}
		return append(out, name()...)
	case 33:
		return append(r.Bytes(6), name()...)
	case 6:
		return append(append(name(), name()...), r.Bytes(20)...)
	case 17:
		return append(name(), name()...)
	case 48:
		return append([]byte{1, byte(r.Intn(2)), 3, byte(vlib.Pick(r, []int{8, 13, 15, 5}))}, r.Bytes(4+r.Intn(40))...)
	}
	return r.Bytes(r.Intn(24))
}

// genRRset builds 1..6 records sharing owner/type/class, with duplicates
// (exact, differing only in TTL, differing only in embedded-name case),
// prefix-related RDATA and a shuffled order.
func genRRset(r *vlib.R, owner []byte, typ uint16) []wireRR {
	class := uint16(1)
	if r.Chance(1, 20) {
		class = 3
	}
	n := 1 + r.Intn(4)
	var rrs []wireRR
	for i := 0; i < n; i++ {
		rrs = append(rrs, wireRR{owner: owner, typ: typ, class: class, ttl: uint32(r.Intn(100000)), rdata: genRdata(r, typ)})
	}
	if typ == 65280 && r.Chance(1, 2) {
		// RDATA where one is a prefix of another and where the shorter sorts later
		base := r.Bytes(1 + r.Intn(6))
		rrs = append(rrs, wireRR{owner: owner, typ: typ, class: class, ttl: 5, rdata: base},
			wireRR{owner: owner, typ: typ, class: class, ttl: 5, rdata: append(append([]byte(nil), base...), r.Bytes(1+r.Intn(4))...)},
			wireRR{owner: owner, typ: typ, class: class, ttl: 5, rdata: []byte{base[0] + 1}})
	}
	for k := r.Intn(3); k > 0; k-- {
		d := rrs[r.Intn(len(rrs))]
		switch r.Intn(3) {
		case 0:
			d.ttl = uint32(r.Intn(1000))
		case 1:
			d.rdata = recaseRdataNames(r, typ, d.rdata)
		}
		rrs = append(rrs, d)
	}
	for i := len(rrs) - 1; i > 0; i-- {
		j := r.Intn(i + 1)
		rrs[i], rrs[j] = rrs[j], rrs[i]
	}
	return rrs
}

// recaseRdataNames changes letter case inside RDATA (for name-bearing types
// the canonical form folds it away again; elsewhere it makes a new record).
func recaseRdataNames(r *vlib.R, typ uint16, rd []byte) []byte {
	skip, names := nameLayout(typ, rd)
	if names == 0 {
		return rd
	}
	out := append([]byte(nil), rd...)
	off := skip
	for n := 0; n < names; n++ {
		for off < len(out) && out[off] != 0 {
			l := int(out[off])
			if off+1+l > len(out) {
				return rd
			}
			copy(out[off+1:off+1+l], recase(r, out[off+1:off+1+l]))
			off += 1 + l
		}
		off++
	}
	return out
}

func wiresToken(rrs []wireRR) string {
	parts := make([]string, len(rrs))
	for i, rr := range rrs {
		parts[i] = vlib.Hex(rr.pack())
	}
	return strings.Join(parts, ",")
}

func canonToken(rrs []wireRR) string {
	parts := make([]string, len(rrs))
	for i, rr := range rrs {
		c, _ := canonRdata(rr.typ, rr.rdata)
		parts[i] = vlib.Hex(c)
	}
	return strings.Join(parts, ",")
}

// ---------------------------------------------------------------- base64 texts

func wrap(r *vlib.R, s string) string {
	if len(s) == 0 {
		return s
	}
	var b strings.Builder
	switch r.Intn(4) {
	case 0, 1: // fixed line length
		w := vlib.Pick(r, []int{64, 76, 4, 255, 256, 257, 1})
		nl := vlib.Pick(r, []string{"\n", "\r\n"})
		for i := 0; i < len(s); i += w {
			b.WriteString(s[i:min(i+w, len(s))])
			if i+w < len(s) || r.Bool() {
				b.WriteString(nl)
			}
		}
	case 2: // one break at a chosen place
		at := vlib.Pick(r, []int{0, 1, 2, 3, 4, 255, 256, 257, len(s) - 1, len(s), r.Intn(len(s) + 1)})
		at = max(0, min(at, len(s)))
		b.WriteString(s[:at] + "\n" + s[at:])
	default: // random breaks
		for i := 0; i < len(s); i++ {
			if r.Chance(1, 20) {
				b.WriteByte(vlib.Pick(r, []byte{'\n', '\r'}))
			}
			b.WriteByte(s[i])
		}
	}
	return b.String()
}

func mangle(r *vlib.R, s string) string {
	if len(s) == 0 {
		return vlib.Pick(r, []string{"=", "==", "A", "AA", "AAA", "\n", " ", "A==="})
	}
	i := r.Intn(len(s))
	switch r.Intn(9) {
	case 0:
		return s[:i] + vlib.Pick(r, []string{" ", "\t", "!", "-", "_", "\x00", "\xff", "."}) + s[i:]
	case 1:
		return s[:i] + "=" + s[i:]
	case 2:
		return s[:len(s)-1-r.Intn(min(3, len(s)))]
	case 3:
		return s + vlib.Pick(r, []string{"=", "==", "A", "AB", "ABC", "A=", "====", "=A"})
	case 4: // padding closes the stream exactly at a chunk boundary, material follows
		if len(s) >= 260 {
			return s[:252] + "QUE=" + s[256:]
		}
		return s + "QUE=" + s
	case 5:
		if len(s) >= 260 {
			return s[:252] + "QQ==" + s[256:]
		}
		return "QQ==" + s
	case 6:
		return strings.TrimRight(s, "=")
	case 7: // invalid character right at / around the chunk boundary
		at := vlib.Pick(r, []int{255, 256, 257, 511, 512})
		if at < len(s) {
			return s[:at] + "*" + s[at+1:]
		}
		return s + "*"
	}
	return s[:i] + "\n=" + s[i:]
}

var keyLens = []int{0, 1, 2, 3, 4, 5, 32, 64, 95, 96, 97, 130, 189, 190, 191, 192, 193, 194, 260, 383, 384, 385, 576, 577, 1000}

func genKeyText(r *vlib.R) string {
	n := vlib.Pick(r, keyLens)
	if r.Chance(1, 6) {
		n = r.Intn(700)
	}
	raw := r.Bytes(n)
	if r.Chance(1, 4) {
		// extreme sums: every carry out of the low 16 bits happens, and the running total sits
		// next to a 2^16 boundary at each chunk end
		pat := vlib.Pick(r, [][]byte{{0xff}, {0xff, 0xff, 0xff, 0xfe}, {0xff, 0x00}, {0x00, 0xff}, {0x80, 0x00}, {0}})
		for i := range raw {
			raw[i] = pat[i%len(pat)]
		}
		if n > 0 && r.Bool() {
			raw[r.Intn(n)] = byte(r.U64())
		}
	}
	s := b64(raw)
	switch r.Intn(10) {
	case 0, 1, 2:
		return wrap(r, s)
	case 3, 4:
		return mangle(r, s)
	case 5:
		return wrap(r, mangle(r, s))
	}
	return s
}

// ---------------------------------------------------------------- groups

func (w *world) genB64() {
	w.out("b64 new")
	w.out("b64 enc " + vlib.Hex(w.r.Bytes(vlib.Pick(w.r, []int{0, 1, 2, 3, 4, 5, 31, 32, 33, 191, 192, 193, 300}))))
	for i := 2 + w.r.Intn(5); i > 0; i-- {
		w.out("b64 dec " + hexStr(genKeyText(w.r)))
	}
}

var flagChoices = []int{0, 256, 257, 128, 384, 385, 0xFFFF, 1, 0x8000, 0x0100 | 0x0080}

func (w *world) genKeyTag() {
	r := w.r
	w.out("kt new")
	for i := 2 + r.Intn(5); i > 0; i-- {
		flags := vlib.Pick(r, flagChoices)
		if r.Chance(1, 5) {
			flags = r.Intn(65536)
		}
		proto := vlib.Pick(r, []int{3, 3, 3, 0, 255, r.Intn(256)})
		alg := vlib.Pick(r, []int{1, 1, 5, 7, 8, 10, 13, 14, 15, 0, 2, 3, 12, 16, 253, 255, r.Intn(256)})
		var pk string
		switch r.Intn(8) {
		case 0:
			pk = vlib.Pick(r, w.allKeys).pub
			if r.Chance(1, 2) {
				pk = wrap(r, pk)
			}
		case 1: // around the DS ceiling: 4092 octets of material
			n := vlib.Pick(r, []int{4089, 4090, 4091, 4092, 4093, 4094, 4095, 4096})
			pk = b64(r.Bytes(n))
			if r.Chance(1, 3) {
				pk = wrap(r, pk)
			}
		case 2, 3:
			pk = b64(carryKey(r, flags, proto, alg))
		default:
			pk = genKeyText(r)
		}
		w.out(fmt.Sprintf("kt tag %d %d %d %s", flags, proto, alg, hexStr(pk)))
	}
}

// carryKey builds key material whose running Appendix B sum, at the end of
// a 192-octet decode chunk, has its low 16 bits just below 2^16 and carries
// pending above them: any mishandling of the carry at a chunk boundary
// (dropped, folded early, folded twice) changes the tag.
func carryKey(r *vlib.R, flags, proto, alg int) []byte {
	chunks := 1 + r.Intn(3)
	key := r.Bytes(192 * chunks)
	if r.Bool() {
		for i := range key {
			key[i] = 0xff
		}
	}
	ac := uint64(flags>>8)<<8 + uint64(flags&0xff) + uint64(proto)<<8 + uint64(alg)
	for i, b := range key[:len(key)-2] {
		if i&1 == 0 {
			ac += uint64(b) << 8
		} else {
			ac += uint64(b)
		}
	}
	hi := ac >> 16
	want := uint64(0xFFFF) - uint64(r.Intn(int(hi)+1))/2 // low half lands in [0xFFFF-hi/2, 0xFFFF]
	delta := (want - ac) & 0xFFFF
	key[len(key)-2], key[len(key)-1] = byte(delta>>8), byte(delta)
	tail := r.Bytes(r.Intn(6))
	if r.Bool() {
		for i := range tail {
			tail[i] = 0
		}
	}
	if r.Chance(1, 3) {
		tail = nil // the key ends here: the carry is still pending when the final fold runs
	}
	return append(key, tail...)
}

func (w *world) genOversized() {
	r := w.r
	w.out("ov new")
	limit := 5456
	for i := 1 + r.Intn(3); i > 0; i-- {
		var s string
		fill := func(n int) string { return strings.Repeat(vlib.Pick(r, []string{"A", "Qk", "abcd"}), n)[:n] }
		switch r.Intn(8) {
		case 0:
			s = fill(limit + vlib.Pick(r, []int{-1, 0, 1, 2}))
		case 1: // long only because it is wrapped
			s = wrap(r, fill(limit-r.Intn(3)))
		case 2: // one line break inside the first limit+1 octets, material exactly limit / limit+1
			m := limit + r.Intn(2)
			at := r.Intn(limit)
			s = fill(at) + vlib.Pick(r, []string{"\n", "\r"}) + fill(m-at)
		case 3: // breaks only after the head
			s = fill(limit+r.Intn(2)) + strings.Repeat("\n", 1+r.Intn(50))
		case 4: // nothing but line breaks
			s = strings.Repeat("\r\n", limit)
		case 5: // material limit+1 reached late
			s = strings.Repeat("\n", 10) + fill(limit) + strings.Repeat("\r", r.Intn(30)) + fill(r.Intn(2))
		case 6:
			s = fill(r.Intn(400))
		default:
			s = wrap(r, fill(limit+1+r.Intn(40)))
		}
		w.out("ov check " + hexStr(s))
	}
}

func dsLine(owner string, flags, proto, alg int, pk string, dt int, want []byte) string {
	var ref []byte
	if kb, err := stdDecode(pk); err == nil {
		if ow, ok := packName(owner); ok {
			low, _, _ := lowerWireName(ow)
			ref = dsRefDigest(uint8(dt), append(append(low, byte(flags>>8), byte(flags), byte(proto), byte(alg)), kb...))
		}
	}
	return fmt.Sprintf("ds match %s %d %d %d %s %d %s %s", hexStr(owner), flags, proto, alg, hexStr(pk), dt, vlib.Hex(want), vlib.Hex(ref))
}

// libDigest is what the property's reference (DNSKEY.ToDS) computes, used
// only to aim the generator at matching digests.
func libDigest(owner string, flags, proto, alg int, pk string, dt int) []byte {
	k := &dns.DNSKEY{Hdr: dns.RR_Header{Name: owner, Rrtype: dns.TypeDNSKEY, Class: 1}, Flags: uint16(flags), Protocol: uint8(proto), Algorithm: uint8(alg), PublicKey: pk}
	if ds := safeLibToDS(k, uint8(dt)); ds != nil {
		b, _ := hex.DecodeString(ds.Digest)
		return b
	}
	return nil
}

func (w *world) dsCase(dt int) {
	r := w.r
	owner := pres(joinWireName(genLabels(r, 0, 3, r.Chance(3, 4))))
	flags := vlib.Pick(r, []int{257, 257, 256, 0, 385})
	proto := vlib.Pick(r, []int{3, 3, 3, 0})
	alg := vlib.Pick(r, []int{8, 13, 15, 5, 1, 250})
	var pk string
	switch r.Intn(7) {
	case 0:
		pk = vlib.Pick(r, w.allKeys).pub
	case 1:
		pk = wrap(r, vlib.Pick(r, w.allKeys).pub)
	case 2:
		pk = b64(r.Bytes(vlib.Pick(r, []int{4091, 4092, 4093})))
	case 3:
		pk = genKeyText(r)
	default:
		pk = b64(r.Bytes(1 + r.Intn(100)))
	}
	want := libDigest(owner, flags, proto, alg, pk, dt)
	if want == nil {
		want = r.Bytes(vlib.Pick(r, []int{20, 32, 48, 64}))
	}
	switch r.Intn(8) {
	case 0:
		want[r.Intn(len(want))] ^= 1 << uint(r.Intn(8))
	case 1:
		want = want[:len(want)-1]
	case 2:
		want = append(want, 0)
	case 3:
		want = nil
	case 4: // right digest, other owner case
		owner = recaseStr(r, owner)
	case 5: // the digest of another type presented under this one
		if o := libDigest(owner, flags, proto, alg, pk, vlib.Pick(r, []int{1, 2, 4, 5})); o != nil {
			want = o
		}
	}
	w.out(dsLine(owner, flags, proto, alg, pk, dt, want))
}

func (w *world) genDS() {
	w.out("ds new")
	for i := 2 + w.r.Intn(4); i > 0; i-- {
		w.dsCase(vlib.Pick(w.r, []int{1, 2, 4, 2, 2, 5, 0, 3, 6, 255, w.r.Intn(256)}))
	}
}

// digestText returns variants of a DS digest field: what the wire codec
// can produce (lower-case hex, possibly empty) and what only a hand-built
// record can hold (odd length, non-hex, upper case, padding).
func digestText(r *vlib.R, dig string, broken bool) string {
	if !broken {
		switch r.Intn(10) {
		case 0:
			b := []byte(dig)
			if len(b) > 0 {
				b[r.Intn(len(b))] = vlib.Pick(r, []byte{'0', 'f', '7'})
			}
			return string(b)
		case 1:
			return strings.ToUpper(dig)
		case 2:
			if len(dig) >= 2 {
				return dig[:len(dig)-2]
			}
		case 3:
			return dig + "00"
		}
		return dig
	}
	switch r.Intn(8) {
	case 0, 1:
		return "" // a DS whose RDATA stops after the digest type
	case 2:
		if len(dig) > 0 {
			return dig[:len(dig)-1] // odd length
		}
		return "a"
	case 3:
		return strings.Repeat("zz", max(1, len(dig)/2))
	case 4:
		return dig + " "
	case 5:
		return "0x" + dig
	case 6:
		if len(dig) > 2 {
			return dig[:1] + "g" + dig[2:]
		}
		return "g0"
	}
	return " "
}

func (w *world) genVerifyDS() {
	r := w.r
	w.out("dsv new")
	owner := pres(joinWireName(genLabels(r, 1, 3, true)))
	nk := r.Intn(4)
	if nk == 0 && r.Chance(2, 3) {
		nk = 1
	}
	var keys []*dns.DNSKEY
	for i := 0; i < nk; i++ {
		s := vlib.Pick(r, w.allKeys)
		alg := s.alg
		if s.kind == "rsa" {
			alg = vlib.Pick(r, []uint8{5, 7, 8, 10})
		}
		if r.Chance(1, 8) {
			alg = vlib.Pick(r, []uint8{1, 3, 12, 16, 250})
		}
		pk := s.pub
		if r.Chance(1, 8) {
			pk = wrap(r, pk)
		} else if r.Chance(1, 20) {
			pk = vlib.Pick(r, []string{"", b64(r.Bytes(4093)), mangle(r, pk)})
		}
		keys = append(keys, &dns.DNSKEY{Hdr: dns.RR_Header{Name: recaseStr(r, owner), Rrtype: dns.TypeDNSKEY, Class: 1},
			Flags: uint16(vlib.Pick(r, []int{257, 257, 257, 256, 1, 385})), Protocol: uint8(vlib.Pick(r, []int{3, 3, 3, 3, 2})), Algorithm: alg, PublicKey: pk})
	}
	var ktoks, rtoks []string
	for _, k := range keys {
		ktoks = append(ktoks, keyToken(k))
		rtoks = append(rtoks, keyRefDigests(k))
	}
	// shape of the DS set: how its supported records fail, and what sits next to them
	//   0 ordinary mix   1 every supported DS has an undecodable digest   2 only unsupported records
	//   3 empty set      4 supported records name no offered key          5 one good DS among broken ones
	// 6: right tag and digest, another supported algorithm   7: right tag and digest, another class
	shapes := []int{0, 1, 5, 6, 7, vlib.Pick(r, []int{2, 3, 4, 0, 1})}
	for _, shape := range shapes {
		w.dsSet(keys, ktoks, rtoks, owner, shape)
	}
}

func (w *world) dsSet(keys []*dns.DNSKEY, ktoks, rtoks []string, owner string, shape int) {
	r := w.r
	var dtoks []string
	nd := 1 + r.Intn(3)
	if shape == 3 {
		nd = 0
	}
	for i := 0; i < nd; i++ {
		var k *dns.DNSKEY
		if len(keys) > 0 {
			k = vlib.Pick(r, keys)
		} else {
			k = &dns.DNSKEY{Hdr: dns.RR_Header{Name: owner, Class: 1}, Flags: 257, Protocol: 3, Algorithm: 13, PublicKey: b64(r.Bytes(64))}
		}
		dt := vlib.Pick(r, []int{1, 2, 4, 2, 2})
		tag, _ := safeLibTag(k)
		alg := int(k.Algorithm)
		unsupportedRec := shape == 2 || (shape != 3 && r.Chance(1, 5))
		if unsupportedRec {
			if r.Bool() {
				dt = vlib.Pick(r, []int{0, 3, 5, 6, 255})
			} else {
				alg = vlib.Pick(r, []int{1, 3, 12, 16, 250, 0})
			}
		} else if alg != 5 && alg != 7 && alg != 8 && alg != 10 && alg != 13 && alg != 14 && alg != 15 {
			alg = 13 // keep the record a supported one
		}
		dig := hex.EncodeToString(libDigest(k.Hdr.Name, int(k.Flags), int(k.Protocol), int(k.Algorithm), k.PublicKey, dt))
		if dig == "" {
			dig = hex.EncodeToString(r.Bytes(vlib.Pick(r, []int{20, 32, 48})))
		}
		broken := shape == 1 || (shape == 5 && i > 0) || (shape == 0 && r.Chance(1, 6))
		if unsupportedRec {
			broken = r.Chance(1, 4)
		}
		dig = digestText(r, dig, broken)
		switch {
		case shape == 4:
			tag += uint16(1 + r.Intn(5))
		case shape == 6 && !unsupportedRec:
			for _, a := range []int{13, 8, 15, 14, 5} { // the digest covers the key's own algorithm octet, not the DS's
				if a != int(k.Algorithm) {
					alg = a
					break
				}
			}
		case shape == 0 && r.Chance(1, 8):
			tag++
		case shape == 0 && r.Chance(1, 8) && !unsupportedRec:
			alg = vlib.Pick(r, []int{8, 13, 15})
		}
		class := 1
		if r.Chance(1, 12) || (shape == 7 && !unsupportedRec) {
			class = 3
		}
		dtoks = append(dtoks, fmt.Sprintf("%s,%d,%d,%d,%d,%s", hexStr(recaseStr(r, owner)), class, tag, alg, dt, hexStr(dig)))
		if r.Chance(1, 4) {
			dtoks = append(dtoks, dtoks[len(dtoks)-1])
		}
	}
	for i := len(dtoks) - 1; i > 0; i-- {
		j := r.Intn(i + 1)
		dtoks[i], dtoks[j] = dtoks[j], dtoks[i]
	}
	tok := func(x []string) string {
		if len(x) == 0 {
			return "-"
		}
		return strings.Join(x, ";")
	}
	h := 0
	for _, c := range tok(dtoks) {
		h = (h*31 + int(c)) % 1000003
	}
	w.out("dsv verify " + tok(ktoks) + " " + tok(dtoks) + " " + tok(rtoks) +
		fmt.Sprintf(" g=%d,%d", []int{1, 2, 1000}[h%3], []int{0, 1, 2, 1000}[(h/3)%4]))
}

// ---------------------------------------------------------------- RSA pieces

func (w *world) genRSAParse() {
	r := w.r
	w.out("rsa new")
	for i := 2 + r.Intn(4); i > 0; i-- {
		eb := vlib.Pick(r, exponents).Bytes()
		nb := r.Bytes(vlib.Pick(r, []int{1, 2, 63, 64, 128, 129, 256}))
		if nb[0] == 0 {
			nb[0] = 0x80
		}
		var kb []byte
		switch r.Intn(12) {
		case 0:
			kb = rsaPubRaw(eb, nb, 3) // long form although the length fits one octet
		case 1:
			kb = rsaPubRaw(append([]byte{0}, eb...), nb, 1) // leading zero exponent
		case 2:
			kb = rsaPubRaw(eb, append([]byte{0}, nb...), 1) // leading zero modulus
		case 3:
			kb = rsaPubRaw(eb, nil, 1) // no modulus
		case 4:
			kb = []byte{byte(len(eb) + 1 + len(nb))} // length runs past the end
			kb = append(append(kb, eb...), nb...)
		case 5:
			kb = vlib.Pick(r, [][]byte{{}, {0}, {0, 0}, {0, 0, 0}, {0, 0, 0, 1}, {1}, {1, 3}, {0, 0, 1, 3, 5}})
		case 6:
			big := r.Bytes(256 + r.Intn(40)) // exponent longer than 255 octets: long form required
			big[0] |= 1
			kb = rsaPubRaw(big, nb, 0)
		case 7:
			kb = rsaPubRaw(append([]byte{0}, eb...), nb, 3)
		default:
			kb = rsaPubRaw(eb, nb, vlib.Pick(r, []int{0, 1, 3}))
		}
		pk := b64(kb)
		if r.Chance(1, 8) {
			pk = wrap(r, pk)
		} else if r.Chance(1, 10) {
			pk = mangle(r, pk)
		}
		w.out("rsa parse " + hexStr(pk))
	}
}

func pow2(k int) *big.Int { return new(big.Int).Lsh(big.NewInt(1), uint(k)) }

func (w *world) genRSAUsable() {
	r := w.r
	w.out("rsa new")
	one := big.NewInt(1)
	for i := 2 + r.Intn(4); i > 0; i-- {
		var n *big.Int
		switch r.Intn(8) {
		case 0:
			n = new(big.Int).Sub(pow2(1023), one) // 1023 bits
		case 1:
			n = pow2(1023) // 1024 bits, smallest
		case 2:
			n = new(big.Int).Sub(pow2(4096), one) // 4096 bits, largest
		case 3:
			n = pow2(4096) // 4097 bits
		case 4:
			n = new(big.Int).SetBytes(r.Bytes(r.Intn(20)))
		default:
			n = vlib.Pick(r, w.mods).n
		}
		var e *big.Int
		switch r.Intn(8) {
		case 0:
			e = new(big.Int).Set(n)
		case 1:
			e = new(big.Int).Sub(n, vlib.Pick(r, []*big.Int{one, big.NewInt(2)}))
		case 2:
			e = big.NewInt(int64(r.Intn(6)))
		case 3:
			e = new(big.Int).Add(pow2(vlib.Pick(r, []int{31, 32, 63, 64, 65})), big.NewInt(int64(vlib.Pick(r, []int{-1, 0, 1}))))
		default:
			e = vlib.Pick(r, exponents)
		}
		w.out(fmt.Sprintf("rsa usable %s %s", vlib.Hex(n.Bytes()), vlib.Hex(e.Bytes())))
	}
}

func padTo(b []byte, k int) []byte {
	if len(b) >= k {
		return b
	}
	return append(make([]byte, k-len(b)), b...)
}

// tamper returns variants of a signature: the clauses of the acceptance
// condition one at a time.
func tamper(r *vlib.R, sig []byte, n *big.Int) [][]byte {
	out := [][]byte{sig}
	if len(sig) == 0 {
		return append(out, []byte{0}, r.Bytes(8))
	}
	flip := append([]byte(nil), sig...)
	flip[r.Intn(len(flip))] ^= 1 << uint(r.Intn(8))
	cp := func() []byte { return append([]byte(nil), sig...) }
	half := len(sig) / 2
	out = append(out, flip, sig[:len(sig)-1], sig[1:], append([]byte{0}, sig...), append(cp(), 0), nil,
		append(cp(), r.Bytes(1+r.Intn(8))...),                     // a valid signature followed by extra octets
		append(cp(), sig...),                                      // ... or by itself
		append(append([]byte(nil), sig[half:]...), sig[:half]...), // halves swapped
		sig[:half])
	if n != nil {
		k := (n.BitLen() + 7) / 8
		// same residue, not below the modulus
		plus := new(big.Int).Add(new(big.Int).SetBytes(sig), n)
		if len(plus.Bytes()) <= k {
			out = append(out, padTo(plus.Bytes(), k))
		}
		out = append(out, padTo(n.Bytes(), k), padTo(new(big.Int).Sub(n, big.NewInt(1)).Bytes(), k), make([]byte, k))
		// shortest form of a value whose fixed-width form has leading zeros
		if sig[0] == 0 {
			out = append(out, bytes.TrimLeft(sig, "\x00"))
		}
	}
	return out
}

// nearMissSigs signs (EM'^d mod n) encoded messages that differ from the
// EMSA-PKCS1-v1_5 encoding in exactly one field: each check of the encoding
// has to reject on its own.
func nearMissSigs(r *vlib.R, n, d *big.Int, prefix, hashed []byte) [][]byte {
	k := (n.BitLen() + 7) / 8
	em := refEM(prefix, hashed, k)
	if em == nil || d == nil {
		return nil
	}
	t := len(prefix) + len(hashed)
	ps := k - t - 3
	var ems [][]byte
	mod := func(f func(e []byte)) {
		e := append([]byte(nil), em...)
		f(e)
		ems = append(ems, e)
	}
	mod(func(e []byte) { e[1] = 2 })
	mod(func(e []byte) { e[2+r.Intn(8)] = 0xfe })
	if ps > 8 {
		mod(func(e []byte) { e[2+8+r.Intn(ps-8)] = byte(r.Intn(255)) }) // padding past the first eight octets
		mod(func(e []byte) {
			for i := 2 + 8; i < 2+ps; i++ {
				e[i] = byte(1 + r.Intn(254))
			}
		})
		mod(func(e []byte) { e[2+ps-1] = 0 }) // separator one octet early
	}
	mod(func(e []byte) { e[2+ps] = 0xff })
	if len(prefix) > 0 {
		mod(func(e []byte) { e[3+ps+r.Intn(len(prefix))] ^= 0x01 })
	}
	mod(func(e []byte) { e[k-1-r.Intn(len(hashed))] ^= 0x80 })
	if len(prefix) > 0 { // the digest without its DigestInfo: 00 01 FF.. 00 || hash
		if bare := refEM(nil, hashed, k); bare != nil {
			ems = append(ems, bare)
		}
	}
	var out [][]byte
	for _, e := range ems {
		s := new(big.Int).Exp(new(big.Int).SetBytes(e), d, n)
		b := make([]byte, k)
		s.FillBytes(b)
		out = append(out, b)
	}
	return out
}

func (w *world) genRSARaw() {
	r := w.r
	w.out("rsa new")
	var n, e, d *big.Int
	if r.Chance(1, 5) {
		s := vlib.Pick(r, w.rsa)
		n, e, d = s.mod.n, s.e, s.d
	} else {
		m := vlib.Pick(r, w.small)
		n = m.n
		e = vlib.Pick(r, []*big.Int{big.NewInt(3), big.NewInt(5), big.NewInt(17), big.NewInt(65537), bigFrom("0x100000001"), big.NewInt(2), big.NewInt(1)})
		if e.Bit(0) == 1 {
			d = m.privExp(e)
		}
	}
	k := (n.BitLen() + 7) / 8
	prefix := r.Bytes(r.Intn(4))
	hashed := r.Bytes(1 + r.Intn(3))
	if k > 100 {
		alg := vlib.Pick(r, []uint8{5, 8, 10})
		prefix, hashed = refPrefix[alg], refHash(alg, r.Bytes(10))
	}
	if r.Chance(1, 10) { // EM does not fit: k < tLen + 11
		hashed = r.Bytes(k)
	}
	var sig []byte
	if d != nil {
		sig = rsaSign(n, d, prefix, hashed)
		// look for a signature whose fixed-width form starts with a zero octet
		if k < 40 && r.Chance(1, 3) {
			for t := 0; t < 600 && sig != nil && sig[0] != 0; t++ {
				hashed = r.Bytes(len(hashed))
				sig = rsaSign(n, d, prefix, hashed)
			}
		}
	}
	if sig == nil {
		sig = padTo(new(big.Int).Mod(new(big.Int).SetBytes(r.Bytes(k)), n).Bytes(), k)
	}
	for _, s := range append(tamper(r, sig, n), nearMissSigs(r, n, d, prefix, hashed)...) {
		w.out(fmt.Sprintf("rsa raw %s %s %s %s %s", vlib.Hex(n.Bytes()), vlib.Hex(e.Bytes()), vlib.Hex(prefix), vlib.Hex(hashed), vlib.Hex(s)))
	}
	if r.Chance(1, 3) { // other exponent / other hash under the same signature
		w.out(fmt.Sprintf("rsa raw %s %s %s %s %s", vlib.Hex(n.Bytes()), vlib.Hex(new(big.Int).Add(e, big.NewInt(2)).Bytes()), vlib.Hex(prefix), vlib.Hex(hashed), vlib.Hex(sig)))
		w.out(fmt.Sprintf("rsa raw %s %s %s %s %s", vlib.Hex(n.Bytes()), vlib.Hex(e.Bytes()), vlib.Hex(prefix), vlib.Hex(r.Bytes(len(hashed))), vlib.Hex(sig)))
	}
}

func (w *world) genRSAVerify() {
	r := w.r
	w.out("rsa new")
	s := vlib.Pick(r, w.rsa)
	if len(w.wide) > 0 && r.Chance(1, 3) {
		s = vlib.Pick(r, w.wide)
	}
	alg := vlib.Pick(r, []uint8{5, 7, 8, 10})
	signed := r.Bytes(1 + r.Intn(60))
	hashed := refHash(alg, signed)
	sig := s.sign(alg, signed)
	if sig == nil {
		k := (s.mod.n.BitLen() + 7) / 8
		sig = padTo(new(big.Int).Mod(new(big.Int).SetBytes(r.Bytes(k)), s.mod.n).Bytes(), k)
		if s.e.Cmp(big.NewInt(1)) == 0 {
			if em := refEM(refPrefix[alg], hashed, k); em != nil {
				sig = em // e = 1: the encoded message "verifies" itself
			}
		}
	}
	pk := s.pub
	switch r.Intn(10) {
	case 0:
		pk = wrap(r, pk)
	case 1:
		pk = b64(rsaPubBytes(s.e, s.mod.n, 3))
	case 2:
		pk = b64(rsaPubRaw(append([]byte{0}, s.e.Bytes()...), s.mod.n.Bytes(), 1))
	case 3:
		pk = b64(rsaPubRaw(s.e.Bytes(), append([]byte{0}, s.mod.n.Bytes()...), 1))
	}
	vs := append(tamper(r, sig, s.mod.n), nearMissSigs(r, s.mod.n, s.d, refPrefix[alg], hashed)...)
	for i, v := range vs {
		if i > 0 && s.mod.bits >= 4096 && r.Chance(1, 2) {
			continue
		}
		w.out(fmt.Sprintf("rsa vfy %d %s %s %s %s", alg, hexStr(pk), vlib.Hex(signed), vlib.Hex(hashed), vlib.Hex(v)))
	}
}

// ---------------------------------------------------------------- signed data

// unequalRRset: records whose RDATA lengths differ and whose content order
// and length order disagree (a shorter RDATA that sorts last, prefixes).
func unequalRRset(r *vlib.R, owner []byte, typ uint16) []wireRR {
	mk := func(rd []byte) wireRR {
		return wireRR{owner: owner, typ: typ, class: 1, ttl: uint32(r.Intn(900)), rdata: rd}
	}
	var rrs []wireRR
	switch typ {
	case 16: // TXT "a" "zzzz", TXT "b"
		rrs = []wireRR{mk([]byte{1, 'a', 4, 'z', 'z', 'z', 'z'}), mk([]byte{1, 'b'}), mk([]byte{1, 'a'})}
	case 15: // MX 10 a. / MX 5 longer.
		rrs = []wireRR{mk(append([]byte{0, 10}, joinWireName([][]byte{[]byte("a")})...)),
			mk(append([]byte{0, 5}, joinWireName(genLabels(r, 2, 3, true))...))}
	default:
		base := r.Bytes(2 + r.Intn(5))
		rrs = []wireRR{mk(base), mk(append(append([]byte(nil), base...), r.Bytes(1+r.Intn(4))...)), mk([]byte{base[0] + 1}), mk(nil)}
	}
	for i := len(rrs) - 1; i > 0; i-- {
		j := r.Intn(i + 1)
		rrs[i], rrs[j] = rrs[j], rrs[i]
	}
	return rrs
}

// octets that a name walker can trip over: the root-label value, separators and escapes of the
// presentation form, length-octet and compression-pointer look-alikes, the highest value
var trickyOctets = []byte{0x00, '.', '\\', ' ', '"', '*', 63, 64, 0xC0, 0xFF, ';', '@'}

// trickyOwners: every tricky octet at the start, in the middle and at the end of a label, in the
// first and in a later label.
func trickyOwner(r *vlib.R, b byte, where int) [][]byte {
	ls := genLabels(r, 2, 3, true)
	l := genLabel(r, true)
	l = append(l, 'x', 'y')
	switch where % 3 {
	case 0:
		l[0] = b
	case 1:
		l[len(l)/2] = b
	default:
		l[len(l)-1] = b
	}
	if where >= 3 {
		ls[1] = l
	} else {
		ls[0] = l
	}
	return ls
}

func (w *world) sdLine(typ uint16, labels int, signer, owner []byte, rrs []wireRR) {
	r := w.r
	low, _, _ := lowerWireName(signer)
	w.out(fmt.Sprintf("sd data %d %d %d %d %d %d %d %d %s %s %s %s %s", typ, rrs[0].class, vlib.Pick(r, []int{8, 13, 15}), labels, 300,
		uint32(r.U64()), uint32(r.U64()), r.Intn(65536), hexStr(pres(signer)), vlib.Hex(low), vlib.Hex(owner), canonToken(rrs), wiresToken(rrs)))
}

func (w *world) genSignedData() {
	r := w.r
	w.out("sd new")
	ownerLabels := genLabels(r, 0, 4, r.Chance(2, 3))
	if r.Chance(1, 6) && len(ownerLabels) > 0 {
		ownerLabels[0] = []byte("*")
	}
	owner := joinWireName(ownerLabels)
	typ := vlib.Pick(r, rrTypes)
	rrs := genRRset(r, owner, typ)
	cnt := len(ownerLabels)
	seen := map[int]bool{}
	for _, labels := range []int{cnt, cnt - 1, cnt - 2, cnt - 3, 1, 0, cnt + 1} { // every expansion depth, always
		labels = max(0, min(labels, 255))
		if seen[labels] {
			continue
		}
		seen[labels] = true
		var signer []byte
		if r.Chance(3, 4) && cnt > 0 {
			signer = joinWireName(recaseLabels(r, ownerLabels[r.Intn(cnt+1):]))
		} else {
			signer = joinWireName(genLabels(r, 0, 3, false))
		}
		low, _, _ := lowerWireName(signer)
		origTTL := vlib.Pick(r, []uint32{0, 1, 300, 3600, 0xFFFFFFFF, uint32(r.U64())})
		w.out(fmt.Sprintf("sd data %d %d %d %d %d %d %d %d %s %s %s %s %s", typ, rrs[0].class, vlib.Pick(r, []int{8, 13, 15, 5, 0, 255}), labels, origTTL,
			uint32(r.U64()), uint32(r.U64()), r.Intn(65536), hexStr(pres(signer)), vlib.Hex(low), vlib.Hex(owner), canonToken(rrs), wiresToken(rrs)))
		// the same set in another order / with a duplicate more
		for j := len(rrs) - 1; j > 0; j-- {
			k := r.Intn(j + 1)
			rrs[j], rrs[k] = rrs[k], rrs[j]
		}
		if r.Chance(1, 3) {
			rrs = append(rrs, rrs[r.Intn(len(rrs))])
		}
	}
}

// ---------------------------------------------------------------- binding

func (w *world) genBind() {
	r := w.r
	w.out("bind new")
	ed := w.others[2]
	zoneL := genLabels(r, 0, 2, r.Chance(4, 5))
	ownerL := append(genLabels(r, 0, 2, r.Chance(4, 5)), zoneL...)
	zone, owner := pres(joinWireName(zoneL)), pres(joinWireName(ownerL))
	for which := -2; which < 18; which++ { // every clause of the preflight once per group, plus two clean ones
		alg := 15
		if r.Chance(1, 6) {
			alg = vlib.Pick(r, []int{0, 99, 255, 3})
		}
		k := &dns.DNSKEY{Hdr: dns.RR_Header{Name: recaseStr(r, zone), Rrtype: dns.TypeDNSKEY, Class: 1}, Flags: 256, Protocol: 3, Algorithm: uint8(alg), PublicKey: ed.pub}
		kb, _ := stdDecode(ed.pub)
		sig := &dns.RRSIG{Hdr: dns.RR_Header{Name: recaseStr(r, owner), Rrtype: dns.TypeRRSIG, Class: 1}, TypeCovered: 1, Algorithm: uint8(alg),
			Labels: uint8(len(ownerL)), OrigTtl: 60, Expiration: 3500000000, Inception: 1000000000, SignerName: recaseStr(r, zone), Signature: b64(r.Bytes(64))}
		setName, setClass, setType := owner, 1, 1
		extra := ""
		switch which {
		case 0:
			k.Protocol = uint8(vlib.Pick(r, []int{0, 2, 4, 255}))
		case 1:
			k.Flags = uint16(vlib.Pick(r, []int{0, 1, 128, 0xFEFF}))
		case 2:
			k.Flags = 257
		case 3:
			sig.Algorithm = uint8(vlib.Pick(r, []int{13, 8, 14, 0}))
		case 4:
			sig.Hdr.Class = 3
		case 5:
			k.Hdr.Class = 3
		case 6:
			setClass = 3
		case 7:
			setType = 28
		case 8:
			sig.TypeCovered = 28
		case 9:
			sig.Labels = uint8(len(ownerL) + 1)
		case 10:
			sig.Labels = uint8(max(0, len(ownerL)-1))
		case 11: // signer that is a string suffix of the owner but not a label suffix
			if len(ownerL) > 0 && len(ownerL[0]) > 1 {
				cut := append([][]byte{ownerL[0][1:]}, ownerL[1:]...)
				sig.SignerName = pres(joinWireName(cut))
				k.Hdr.Name = sig.SignerName
			}
		case 12: // unrelated signer
			sig.SignerName = pres(joinWireName(genLabels(r, 1, 2, true)))
			if r.Bool() {
				k.Hdr.Name = sig.SignerName
			}
		case 13:
			sig.Hdr.Name = pres(joinWireName(genLabels(r, 1, 3, true)))
		case 14: // a second record that breaks the RRset
			extra = ";" + hexStr(vlib.Pick(r, []string{recaseStr(r, owner) + "x", owner})) + ":" + fmt.Sprint(vlib.Pick(r, []int{1, 3})) + ":" + fmt.Sprint(vlib.Pick(r, []int{1, 28}))
		case 15:
			sig.SignerName = strings.TrimSuffix(sig.SignerName, ".")
		case 16: // signer = the owner itself / the root
			sig.SignerName = vlib.Pick(r, []string{owner, "."})
			k.Hdr.Name = sig.SignerName
		case 17: // owner one label below an escaped-dot look-alike of the zone
			if len(zoneL) > 0 {
				fake := append([][]byte{append(append([]byte("x."), zoneL[0]...))}, zoneL[1:]...)
				setName = pres(joinWireName(fake))
				sig.Hdr.Name = setName
				sig.Labels = uint8(len(fake))
			}
		}
		sig.KeyTag = refKeyTag(k.Flags, k.Protocol, k.Algorithm, kb)
		if r.Chance(1, 12) {
			sig.KeyTag += uint16(1 + r.Intn(3))
		}
		set := hexStr(setName) + ":" + fmt.Sprint(setClass) + ":" + fmt.Sprint(setType)
		if r.Chance(1, 4) && extra == "" {
			extra = ";" + set
		}
		if r.Chance(1, 25) {
			set, extra = "-", ""
		}
		w.out("bind check k=" + keyToken(k) + " s=" + sigToken(sig) + " r=" + set + extra)
	}
}

// ---------------------------------------------------------------- full verification

type vcase struct {
	k   *dns.DNSKEY
	sig *dns.RRSIG
	rrs []wireRR
}

func (c vcase) line() string {
	h, x := sigCols(c.k, c.sig, c.rrs)
	rr := "-"
	if len(c.rrs) > 0 {
		rr = wiresToken(c.rrs)
	}
	return "vfy sig k=" + keyToken(c.k) + " s=" + sigToken(c.sig) + " rr=" + rr + " o=" + ownersCol(c.rrs) + " c=" + canonCol(c.rrs) +
		" sw=" + signerWireCol(c.sig) + " h=" + h + " x=" + x
}

func msgLine(zone string, keys []*dns.DNSKEY, sigs []*dns.RRSIG, rrs []wireRR, nAns int) string {
	tok := func(x []string) string {
		if len(x) == 0 {
			return "-"
		}
		return strings.Join(x, ";")
	}
	var ks, ss []string
	for _, k := range keys {
		ks = append(ks, keyToken(k))
	}
	for _, s := range sigs {
		ss = append(ss, sigToken(s))
	}
	rr := "-"
	if len(rrs) > 0 {
		rr = wiresToken(rrs)
	}
	sw, per, hx := msgCols(zone, nAns, keys, sigs, rrs, time.Now().Unix())
	var lib []dns.RR
	for _, w := range rrs {
		if rr, _, err := dns.UnpackRR(w.pack(), 0); err == nil {
			lib = append(lib, rr)
		}
	}
	// a governor for the second pass: from very tight to effectively unlimited, derived from the line itself
	h := 0
	for _, c := range sw + hx {
		h = (h*31 + int(c)) % 1000003
	}
	gov := fmt.Sprintf("%d,%d,%d", []int{1, 2, 3, 1000}[h%4], []int{1, 2, 4, 1000}[(h/4)%4], []int{0, 1, 2, 3, 5, 1000}[(h/16)%6])
	return fmt.Sprintf("vfy msg z=%s k=%s s=%s rr=%s a=%d o=%s c=%s sw=%s p=%s hx=%s tg=%s g=%s", hexStr(zone), tok(ks), tok(ss), rr, nAns,
		ownersCol(rrs), canonCol(rrs), sw, per, hx, targetsCol(lib), gov)
}

// genMessage drives VerifyRRSIG: one to three RRsets of one zone signed by
// one key, then one thing wrong (or nothing) per message.
func (w *world) genMessage() {
	r := w.r
	w.out("vfy new")
	s := vlib.Pick(r, w.others)
	if r.Chance(1, 3) {
		s = w.rsa[(2+r.Intn(2))*len(exponents)+vlib.Pick(r, []int{0, 1, 4})] // 1024 / 1025 bits; e = 3, 65537, 2^32+1
	}
	first, raw, ok := w.baseCaseOpt(s, baseOpts{plain: r.Chance(2, 3)})
	if !ok || first.k.Flags&256 == 0 || first.k.Protocol != 3 {
		return
	}
	zw, _ := packName(first.sig.SignerName)
	zoneL, _, _ := splitWireName(zw)
	cases := []vcase{first}
	for n := r.Intn(3); n > 0; n-- {
		c, _, ok := w.baseCaseOpt(s, baseOpts{zone: zoneL, key: first.k, plain: r.Chance(2, 3)})
		if ok {
			cases = append(cases, c)
		}
	}
	// a DNAME of the zone (signed) and the CNAME a resolver synthesises from it (unsigned)
	var dnameCase *vcase
	if dc, _, ok := w.baseCaseOpt(s, baseOpts{typ: 39, zone: zoneL, key: first.k, plain: true}); ok {
		dnameCase = &dc
	}
	// denial records: signed at their own owner, at a wildcard owner, and the wildcard's record renamed to an expansion
	for _, typ := range []uint16{47, 50} {
		for wild := 0; wild <= 2; wild++ {
			if c, _, ok := w.baseCaseOpt(s, baseOpts{typ: typ, zone: zoneL, key: first.k, plain: wild == 0, wild: wild}); ok {
				w.out(msgLine(first.sig.SignerName, []*dns.DNSKEY{first.k}, []*dns.RRSIG{c.sig}, c.rrs, len(c.rrs)))
			}
		}
	}
	for scenario := 0; scenario < 21; scenario++ {
		if scenario > 0 && scenario < 19 && r.Chance(1, 2) {
			continue
		}
		if scenario >= 12 && scenario <= 18 && dnameCase == nil {
			continue
		}
		keys := []*dns.DNSKEY{first.k}
		var sigs []*dns.RRSIG
		var rrs []wireRR
		for _, c := range cases {
			rrs = append(rrs, c.rrs...)
			sigs = append(sigs, c.sig)
		}
		nAns := len(rrs)
		victim := r.Intn(len(cases))
		switch scenario {
		case 1: // one RRset has no signature
			sigs = append(sigs[:victim:victim], sigs[victim+1:]...)
		case 2: // ... only a bad one
			bad := *sigs[victim]
			bad.Signature = b64(r.Bytes(max(1, len(raw))))
			sigs[victim] = &bad
		case 3: // ... only an expired / not yet valid one
			old := *sigs[victim]
			if r.Bool() {
				old.Expiration = 1200000000
			} else {
				old.Inception = 3400000000
			}
			sigs[victim] = &old
		case 4: // a record of another zone: fatal in the answer section, ignored in the authority section
			other := wireRR{owner: joinWireName(genLabels(r, 1, 2, true)), typ: 1, class: 1, ttl: 60, rdata: r.Bytes(4)}
			if r.Bool() {
				rrs = append([]wireRR{other}, rrs...)
				nAns++
			} else {
				rrs = append(rrs, other)
			}
		case 5: // an unsigned NS RRset: ignored in the authority section, needs a signature in the answer section
			ns := wireRR{owner: joinWireName(zoneL), typ: 2, class: first.k.Hdr.Class, ttl: 60, rdata: joinWireName(genLabels(r, 1, 2, true))}
			if r.Bool() {
				rrs = append(rrs, ns)
			} else {
				rrs = append([]wireRR{ns}, rrs...)
				nAns++
			}
		case 6:
			sigs = nil
		case 7:
			keys = nil
		case 8: // a decoy key with the same tag in front, a bad signature in front of the good one
			if d := collidingKey(r, first.k); d != nil {
				keys = append([]*dns.DNSKEY{d}, keys...)
			}
			bad := *sigs[victim]
			bad.Signature = b64(r.Bytes(max(1, len(raw))))
			sigs = append([]*dns.RRSIG{&bad}, sigs...)
		case 9: // owners of one RRset in different case: not an RRset
			c := cases[victim]
			ls, _, _ := splitWireName(c.rrs[0].owner)
			extra := c.rrs[0]
			extra.owner = joinWireName(recaseLabels(r, ls))
			extra.rdata = genRdata(r, extra.typ)
			rrs = append(rrs, extra)
			nAns = len(rrs)
		case 10: // part of the message moved to the authority section
			nAns = r.Intn(len(rrs) + 1)
		case 12, 13, 14, 15, 16, 17, 18:
			d := dnameCase.rrs[0]
			dl, _, _ := splitWireName(d.owner)
			dtl, _, _ := splitWireName(d.rdata)
			pre := genLabels(r, 1, 2, true)
			cn := wireRR{owner: joinWireName(append(append([][]byte{}, pre...), dl...)), typ: 5, class: d.class, ttl: 30,
				rdata: joinWireName(append(append([][]byte{}, recaseLabels(r, pre)...), recaseLabels(r, dtl)...))}
			dn := append([]wireRR(nil), dnameCase.rrs...)
			dsig := dnameCase.sig
			switch scenario {
			case 13: // target that the DNAME does not produce
				cn.rdata = joinWireName(append(genLabels(r, 1, 2, true), dtl...))
			case 14: // CNAME at the DNAME owner itself: not below it
				cn.owner = d.owner
				cn.rdata = joinWireName(dtl)
			case 15: // the DNAME is not signed
				dsig = nil
			case 16: // the DNAME lies outside the zone offered
				out := append(genLabels(r, 1, 1, true), []byte("other"))
				for i := range dn {
					dn[i].owner = joinWireName(out)
				}
				cn.owner = joinWireName(append(append([][]byte{}, pre...), out...))
				dsig = nil
			case 17: // the synthesised CNAME sits in the authority section
			case 18: // a CNAME below the DNAME whose prefix is not carried over
				cn.rdata = joinWireName(dtl)
			}
			rrs = append(rrs, dn...)
			if dsig != nil {
				sigs = append(sigs, dsig)
			}
			nAns = len(rrs)
			rrs = append(rrs, cn)
			if scenario != 17 {
				nAns = len(rrs)
			}
		case 19: // the signatures that verified over the genuine message, now over altered contents
			i := r.Intn(len(rrs))
			rrs = append([]wireRR(nil), rrs...)
			rrs[i].rdata = otherRdata(r, rrs[i].typ, rrs[i].rdata)
		case 20: // ... or with a record more
			extra := rrs[r.Intn(len(rrs))]
			extra.rdata = genRdata(r, extra.typ)
			rrs = append(append([]wireRR(nil), rrs...), extra)
			nAns = len(rrs)
		case 11: // the key offered is not the signer's / not a zone key
			k2 := *first.k
			if r.Bool() {
				k2.Flags &^= 256
			} else {
				k2.Hdr.Name = pres(joinWireName(genLabels(r, 1, 2, true)))
			}
			keys = []*dns.DNSKEY{&k2}
		}
		zone := first.sig.SignerName
		if r.Chance(1, 8) {
			zone = recaseStr(r, strings.TrimSuffix(zone, "."))
		}
		w.out(msgLine(zone, keys, sigs, rrs, nAns))
	}
}

// collidingKey builds key material of the same length with the same RFC
// 4034 key tag (the checksum is fixed by adjusting the last two octets).
func collidingKey(r *vlib.R, k *dns.DNSKEY) *dns.DNSKEY {
	kb, err := stdDecode(k.PublicKey)
	if err != nil || len(kb) < 4 {
		return nil
	}
	want := refKeyTag(k.Flags, k.Protocol, k.Algorithm, kb)
	nb := r.Bytes(len(kb))
	nb[0] = kb[0]
	for a := 0; a < 256; a++ {
		for b := 0; b < 256; b++ {
			nb[len(nb)-2], nb[len(nb)-1] = byte(a), byte(b)
			if refKeyTag(k.Flags, k.Protocol, k.Algorithm, nb) == want {
				c := *k
				c.PublicKey = b64(nb)
				return &c
			}
		}
	}
	return nil
}

func (w *world) baseCase(s *signer) (vcase, []byte, bool) { return w.baseCaseOpt(s, baseOpts{}) }

func (w *world) baseCaseType(s *signer, forceType uint16) (vcase, []byte, bool) {
	return w.baseCaseOpt(s, baseOpts{typ: forceType})
}

// baseOpts: typ != 0 fixes the record type and makes sure the names inside
// the RDATA carry upper-case letters; zone / key fix the signer zone and the
// DNSKEY (several RRsets of one message); class fixes the class.
type baseOpts struct {
	typ   uint16
	zone  [][]byte
	key   *dns.DNSKEY
	plain bool // no wildcard
	wild  int  // 1: the presented owner is an expansion of a wildcard, 2: the wildcard owner itself
}

func (w *world) baseCaseOpt(s *signer, o baseOpts) (vcase, []byte, bool) {
	r := w.r
	forceType := o.typ
	zoneL := genLabels(r, 0, 2, r.Chance(5, 6))
	if o.zone != nil {
		zoneL = o.zone
	}
	extra := genLabels(r, 0, 3, r.Chance(5, 6))
	ownerL := append(append([][]byte{}, extra...), zoneL...)
	// wildcard: the signed owner is "*." + closest encloser, the presented owner an expansion of it
	signedL := ownerL
	labels := len(ownerL)
	if o.wild != 0 && len(extra) == 0 {
		extra = genLabels(r, 1, 2, true)
		ownerL = append(append([][]byte{}, extra...), zoneL...)
		labels = len(ownerL)
		signedL = ownerL
	}
	if len(extra) > 0 && ((r.Chance(1, 3) && !o.plain) || o.wild != 0) {
		ce := ownerL[1+r.Intn(len(extra)):]
		signedL = append([][]byte{[]byte("*")}, ce...)
		labels = len(ce)
		if (o.wild == 0 && r.Chance(1, 4)) || o.wild == 2 {
			ownerL = signedL // the wildcard record itself
		}
	}
	owner := joinWireName(ownerL)
	typ := vlib.Pick(r, rrTypes)
	if forceType != 0 {
		typ = forceType
	}
	rrs := genRRset(r, owner, typ)
	if o.key != nil {
		for i := range rrs {
			rrs[i].class = o.key.Hdr.Class
		}
	}
	if forceType != 0 {
		for t := 0; t < 30; t++ {
			upper := false
			for _, rr := range rrs {
				if _, n := nameLayout(typ, rr.rdata); n == 0 || bytes.ContainsAny(rr.rdata, "ABCDEFGHIJKLMNOPQRSTUVWXYZ") {
					upper = true
				}
			}
			if upper {
				break
			}
			rrs = genRRset(r, owner, typ)
		}
	}
	alg := s.alg
	if s.kind == "rsa" {
		alg = vlib.Pick(r, []uint8{5, 7, 8, 10})
	}
	zone := joinWireName(zoneL)
	pk := s.pub
	kb, _ := stdDecode(pk)
	flags := uint16(vlib.Pick(r, []int{256, 257, 256 | 128}))
	proto := uint8(3)
	// a correctly signed RRset under a key that is not a zone key / not protocol 3:
	// the signature is mathematically fine, the key must not be used
	if r.Chance(1, 12) {
		flags = uint16(vlib.Pick(r, []int{0, 1, 128, 0xFEFF}))
	} else if r.Chance(1, 12) {
		proto = uint8(vlib.Pick(r, []int{0, 2, 4, 255}))
	}
	k := &dns.DNSKEY{Hdr: dns.RR_Header{Name: pres(joinWireName(recaseLabels(r, zoneL))), Rrtype: dns.TypeDNSKEY, Class: rrs[0].class, Ttl: 300},
		Flags: flags, Protocol: proto, Algorithm: alg, PublicKey: pk}
	if o.key != nil {
		k = o.key
		flags, proto, alg = k.Flags, k.Protocol, k.Algorithm
	}
	sf := sigFields{typeCovered: typ, alg: alg, labels: uint8(labels), origTTL: vlib.Pick(r, []uint32{0, 60, 3600, 86400, uint32(r.U64())}),
		exp: 3500000000, inc: 1000000000, keyTag: refKeyTag(flags, proto, alg, kb)}
	// sign the RFC form of the *signed* owner (for a wildcard: "*.ce")
	signedSet := make([]wireRR, len(rrs))
	for i, rr := range rrs {
		rr.owner = joinWireName(signedL)
		signedSet[i] = rr
	}
	sfSign := sf
	data, ok := refSignedData(sfSign, zone, signedSet)
	if !ok {
		return vcase{}, nil, false
	}
	raw := s.sign(alg, data)
	if raw == nil {
		raw = r.Bytes(64)
	}
	sig := &dns.RRSIG{Hdr: dns.RR_Header{Name: pres(joinWireName(recaseLabels(r, ownerL))), Rrtype: dns.TypeRRSIG, Class: rrs[0].class, Ttl: 300},
		TypeCovered: typ, Algorithm: alg, Labels: sf.labels, OrigTtl: sf.origTTL, Expiration: sf.exp, Inception: sf.inc, KeyTag: sf.keyTag,
		SignerName: pres(joinWireName(recaseLabels(r, zoneL))), Signature: b64(raw)}
	return vcase{k: k, sig: sig, rrs: rrs}, raw, true
}

// otherRdata: well-formed RDATA of the type that differs from rd.
func otherRdata(r *vlib.R, typ uint16, rd []byte) []byte {
	for t := 0; t < 20; t++ {
		if n := genRdata(r, typ); !bytes.Equal(n, rd) {
			return n
		}
	}
	return append(append([]byte(nil), rd...), 1)
}

// signedCase: a correctly signed RRset with a given zone, owner and records.
func (w *world) signedCase(s *signer, zoneL, ownerL [][]byte, rrs []wireRR) (vcase, bool) {
	r := w.r
	alg := s.alg
	if s.kind == "rsa" {
		alg = 8
	}
	kb, _ := stdDecode(s.pub)
	k := &dns.DNSKEY{Hdr: dns.RR_Header{Name: pres(joinWireName(recaseLabels(r, zoneL))), Rrtype: dns.TypeDNSKEY, Class: 1, Ttl: 300},
		Flags: 257, Protocol: 3, Algorithm: alg, PublicKey: s.pub}
	sf := sigFields{typeCovered: rrs[0].typ, alg: alg, labels: uint8(len(ownerL)), origTTL: 300, exp: 3500000000, inc: 1000000000,
		keyTag: refKeyTag(257, 3, alg, kb)}
	data, ok := refSignedData(sf, joinWireName(zoneL), rrs)
	if !ok {
		return vcase{}, false
	}
	raw := s.sign(alg, data)
	if raw == nil {
		return vcase{}, false
	}
	sig := &dns.RRSIG{Hdr: dns.RR_Header{Name: pres(joinWireName(ownerL)), Rrtype: dns.TypeRRSIG, Class: 1, Ttl: 300},
		TypeCovered: sf.typeCovered, Algorithm: alg, Labels: sf.labels, OrigTtl: sf.origTTL, Expiration: sf.exp, Inception: sf.inc, KeyTag: sf.keyTag,
		SignerName: pres(joinWireName(zoneL)), Signature: b64(raw)}
	return vcase{k: k, sig: sig, rrs: rrs}, true
}

// dsLineFor emits a DS match against the library's own digest of the key.
func (w *world) dsLineFor(owner string, flags, proto, alg int, pk string, dt int) {
	want := libDigest(owner, flags, proto, alg, pk, dt)
	if want == nil {
		want = w.r.Bytes(32)
	}
	w.out(dsLine(owner, flags, proto, alg, pk, dt, want))
}

func cloneCase(c vcase) vcase {
	k, s := *c.k, *c.sig
	return vcase{k: &k, sig: &s, rrs: append([]wireRR(nil), c.rrs...)}
}

func (w *world) variants(c vcase, raw []byte, s *signer) []vcase {
	r := w.r
	var out []vcase
	add := func(f func(v *vcase)) {
		v := cloneCase(c)
		f(&v)
		out = append(out, v)
	}
	var n *big.Int
	if s.kind == "rsa" {
		n = s.mod.n
	}
	// signature material: every shape, always (the first `shapes` variants are all emitted)
	for _, t := range tamper(r, raw, n)[1:] {
		t := t
		add(func(v *vcase) { v.sig.Signature = b64(t) })
	}
	if s.kind == "ecdsa" && len(raw) == 2*s.size { // leading zeros on r and s: the library splits in half and accepts
		z := append(append(append([]byte{0}, raw[:s.size]...), 0), raw[s.size:]...)
		add(func(v *vcase) { v.sig.Signature = b64(z) })
		zz := append(append(append([]byte{0, 0}, raw[:s.size]...), 0, 0), raw[s.size:]...)
		add(func(v *vcase) { v.sig.Signature = b64(zz) })
		// zero-padded r and s followed by extra octets; trailing zeros on each half
		add(func(v *vcase) { v.sig.Signature = b64(append(append([]byte(nil), z...), r.Bytes(2)...)) })
		tz := append(append(append(append([]byte(nil), raw[:s.size]...), 0), raw[s.size:]...), 0)
		add(func(v *vcase) { v.sig.Signature = b64(tz) })
	}
	// key material of every shape, each under the tag a signature naming that key carries, so the
	// preflight passes and the algorithm's own key parsing is what has to refuse it
	if kb, err := stdDecode(c.k.PublicKey); err == nil {
		cpk := func() []byte { return append([]byte(nil), kb...) }
		shapes := [][]byte{nil, {kb[0]}, kb[:len(kb)-1], kb[1:], kb[:len(kb)/2], append(cpk(), byte(r.U64())),
			append(cpk(), kb...), append(cpk(), r.Bytes(1+r.Intn(31))...), make([]byte, len(kb))}
		for _, nb := range shapes {
			nb := nb
			add(func(v *vcase) {
				v.k.PublicKey = b64(nb)
				v.sig.KeyTag = refKeyTag(v.k.Flags, v.k.Protocol, v.k.Algorithm, nb)
			})
		}
	}
	w.shapes = len(out)
	add(func(v *vcase) { v.sig.Signature = wrap(r, v.sig.Signature) })
	add(func(v *vcase) { v.sig.Signature = mangle(r, v.sig.Signature) })
	// RRset: order, duplicates, case, TTLs, content
	add(func(v *vcase) {
		for j := len(v.rrs) - 1; j > 0; j-- {
			k := r.Intn(j + 1)
			v.rrs[j], v.rrs[k] = v.rrs[k], v.rrs[j]
		}
		v.rrs = append(v.rrs, v.rrs[r.Intn(len(v.rrs))])
	})
	add(func(v *vcase) {
		for i := range v.rrs {
			v.rrs[i].ttl = uint32(r.Intn(5000))
			v.rrs[i].rdata = recaseRdataNames(r, v.rrs[i].typ, v.rrs[i].rdata)
		}
	})
	add(func(v *vcase) {
		ls, _, _ := splitWireName(v.rrs[0].owner)
		o := joinWireName(recaseLabels(r, ls))
		for i := range v.rrs {
			v.rrs[i].owner = o
		}
	})
	add(func(v *vcase) {
		i := r.Intn(len(v.rrs))
		rd := append([]byte(nil), v.rrs[i].rdata...)
		if len(rd) > 0 && (v.rrs[i].typ == 1 || v.rrs[i].typ == 28 || v.rrs[i].typ == 65280) {
			rd[r.Intn(len(rd))] ^= 0x40
			v.rrs[i].rdata = rd
		} else {
			v.rrs = append(v.rrs[:i], v.rrs[i+1:]...)
			if len(v.rrs) == 0 {
				v.rrs = c.rrs[:1]
				v.sig.OrigTtl++
			}
		}
	})
	// RRSIG fields that are part of the signed data
	add(func(v *vcase) { v.sig.OrigTtl ^= 1 << uint(r.Intn(32)) })
	add(func(v *vcase) {
		if r.Bool() && v.sig.Labels > 0 {
			v.sig.Labels--
		} else {
			v.sig.Labels++
		}
	})
	add(func(v *vcase) { v.sig.Expiration-- })
	add(func(v *vcase) { v.sig.Labels = 0 })
	// key fields and binding
	add(func(v *vcase) { v.k.Flags ^= uint16(vlib.Pick(r, []int{256, 1, 128})) })
	add(func(v *vcase) { v.k.Protocol = uint8(vlib.Pick(r, []int{0, 2, 4})) })
	add(func(v *vcase) { v.sig.KeyTag++ })
	add(func(v *vcase) { v.k.PublicKey = wrap(r, v.k.PublicKey) })
	add(func(v *vcase) { v.k.PublicKey = mangle(r, v.k.PublicKey) })
	add(func(v *vcase) { v.k.Hdr.Class ^= 2 })
	add(func(v *vcase) {
		a := vlib.Pick(r, []uint8{5, 7, 8, 10, 13, 14, 15, 1, 3, 12, 16, 253})
		v.k.Algorithm, v.sig.Algorithm = a, a
		kb, _ := stdDecode(v.k.PublicKey)
		v.sig.KeyTag = refKeyTag(v.k.Flags, v.k.Protocol, a, kb)
	})
	add(func(v *vcase) { v.sig.SignerName = pres(joinWireName(genLabels(r, 1, 2, true))) })
	if s.kind == "rsa" { // the same key in the long exponent-length form (another key tag, same numbers)
		add(func(v *vcase) {
			v.k.PublicKey = b64(rsaPubBytes(s.e, s.mod.n, 3))
			kb, _ := stdDecode(v.k.PublicKey)
			v.sig.KeyTag = refKeyTag(v.k.Flags, v.k.Protocol, v.k.Algorithm, kb)
		})
	}
	return out
}

func (w *world) genVerify() {
	r := w.r
	w.out("vfy new")
	var s *signer
	if r.Chance(3, 5) {
		s = vlib.Pick(r, w.rsa)
		if r.Chance(1, 2) { // favour keys that can sign
			for t := 0; t < 8 && s.d == nil; t++ {
				s = vlib.Pick(r, w.rsa)
			}
		} else if len(w.wide) > 0 && r.Chance(1, 2) {
			s = vlib.Pick(r, w.wide)
		}
	} else {
		s = vlib.Pick(r, w.others)
	}
	w.verifyGroup(s)
}

// verifyGroup: one correctly signed RRset under s, then every signature shape and every
// key-material shape, then a sample of the other variants.
func (w *world) verifyGroup(s *signer) {
	r := w.r
	c, raw, ok := w.baseCase(s)
	for t := 0; t < 6 && ok && (c.k.Flags&256 == 0 || c.k.Protocol != 3); t++ {
		c, raw, ok = w.baseCase(s) // a zone key, so that the algorithm's own checks are what decides
	}
	if !ok {
		return
	}
	w.out(c.line())
	// the very same key and RRSIG over other contents of the RRset, right after the genuine one verified:
	// a record altered, one added, one removed, and the genuine set once more
	for _, f := range []func(v *vcase){
		func(v *vcase) { v.rrs[0].rdata = otherRdata(r, v.rrs[0].typ, v.rrs[0].rdata) },
		func(v *vcase) {
			extra := v.rrs[0]
			extra.rdata = genRdata(r, extra.typ)
			v.rrs = append(v.rrs, extra)
		},
		func(v *vcase) {
			if len(v.rrs) > 1 {
				v.rrs = v.rrs[1:]
			} else {
				v.rrs[0].rdata = genRdata(r, v.rrs[0].typ)
			}
		},
		func(v *vcase) {},
	} {
		v := cloneCase(c)
		f(&v)
		w.out(v.line())
	}
	vs := w.variants(c, raw, s)
	big := s.kind == "rsa" && s.mod.bits >= 4096
	for _, v := range vs[:w.shapes] {
		if !big || r.Chance(1, 3) {
			w.out(v.line())
		}
	}
	vs = vs[w.shapes:]
	budget := 5
	if big {
		budget = 3
	}
	for i := 0; i < budget && len(vs) > 0; i++ {
		j := r.Intn(len(vs))
		w.out(vs[j].line())
		vs = append(vs[:j], vs[j+1:]...)
	}
}

// sweeps: every algorithm number and every digest type, once per run.
func (w *world) sweeps() {
	r := w.r
	w.out("kt new")
	for a := 0; a < 256; a++ {
		pk := vlib.Pick(r, w.allKeys).pub
		if a == 1 {
			for n := 0; n <= 4; n++ { // the library indexes below the slice at two octets
				b := r.Bytes(n)
				for i := range b {
					b[i] |= 1
				}
				w.out(fmt.Sprintf("kt tag %d 3 1 %s", vlib.Pick(r, flagChoices), hexStr(b64(b))))
				w.out(fmt.Sprintf("kt tag %d 3 1 %s", vlib.Pick(r, flagChoices), hexStr(wrap(r, b64(b)))))
			}
			// wrapped texts longer than one 256-character chunk, at widths that do and do not divide the chunk:
			// a run of material straddles the chunk boundary with every remainder modulo four
			for _, n := range []int{193, 260, 400} {
				text := b64(r.Bytes(n))
				for _, width := range []int{1, 7, 13, 61, 62, 63, 64, 76, 90, 255, 257} {
					nl := vlib.Pick(r, []string{"\n", "\r\n", "\r"})
					var wrapped strings.Builder
					for i := 0; i < len(text); i += width {
						wrapped.WriteString(text[i:min(i+width, len(text))] + nl)
					}
					w.out(fmt.Sprintf("kt tag %d 3 1 %s", vlib.Pick(r, flagChoices), hexStr(wrapped.String())))
				}
			}
			// decoding that fails part-way, in the first and in a later chunk: the library keeps the octets
			// decoded before the error and takes the tag from them
			for _, n := range []int{6, 45, 189, 192, 201, 400} {
				good := b64(r.Bytes(n))
				cut := (len(good) / 2) &^ 3
				for _, bad := range []string{good + "!", good[:len(good)-1], good[:cut] + "*" + good[cut:], good + "A", good[:cut] + " " + good[cut:],
					good[:max(4, cut)-2] + "=" + good[max(4, cut)-2:]} {
					w.out(fmt.Sprintf("kt tag %d 3 1 %s", vlib.Pick(r, flagChoices), hexStr(bad)))
				}
			}
		}
		w.out(fmt.Sprintf("kt tag %d 3 %d %s", vlib.Pick(r, flagChoices), a, hexStr(pk)))
	}
	w.out("ds new")
	for dt := 0; dt < 256; dt++ {
		w.dsCase(dt)
	}
	// owner names with octets a name walker can trip over, under RRsets of unequal RDATA lengths:
	// the canonical order is by RDATA, whatever the owner looks like
	w.out("sd new")
	for i, b := range trickyOctets {
		ls := trickyOwner(r, b, i%6)
		owner := joinWireName(ls)
		typ := vlib.Pick(r, []uint16{16, 15, 65280, 65280})
		rrs := unequalRRset(r, owner, typ)
		w.sdLine(typ, len(ls), joinWireName(ls[1:]), owner, rrs)
		if i%3 == 0 { // and as a wildcard expansion
			w.sdLine(typ, len(ls)-1, joinWireName(ls[1:]), owner, rrs)
		}
	}
	w.out("vfy new")
	for i, b := range trickyOctets {
		ls := trickyOwner(r, b, (i+2)%6)
		if c, ok := w.signedCase(vlib.Pick(r, w.others), ls[1:], ls, unequalRRset(r, joinWireName(ls), vlib.Pick(r, []uint16{16, 15, 65280}))); ok {
			w.out(c.line())
		}
	}
	// DS digests over owner names that the presentation form has to escape (\DDD, \., \\)
	w.out("ds new")
	for i, b := range append([]byte{7, 0x7f, 0xc3, 0xa9}, trickyOctets...) {
		ls := trickyOwner(r, b, i%6)
		w.dsLineFor(pres(joinWireName(recaseLabels(r, ls))), 257, 3, 13, w.others[0].pub, vlib.Pick(r, []int{1, 2, 4}))
	}
	// names at the length ceiling: a signer / owner of 238, 239, 254 and 255 wire octets
	long := func(total int) [][]byte {
		mk := func(n int) []byte {
			b := make([]byte, n)
			for i := range b {
				b[i] = labelAlphabet[r.Intn(52)]
			}
			return b
		}
		return [][]byte{mk(total - 194), mk(63), mk(63), mk(63)} // 1+L + 3*64 + root
	}
	w.out("sd new")
	for _, total := range []int{238, 239, 254, 255} {
		zl := long(total)
		owner := joinWireName(zl)
		rrs := unequalRRset(r, owner, 16)
		w.sdLine(16, len(zl), owner, owner, rrs)
	}
	w.out("vfy new")
	for _, total := range []int{238, 239, 255} {
		zl := long(total)
		if c, ok := w.signedCase(vlib.Pick(r, w.others), zl, zl, unequalRRset(r, joinWireName(zl), 16)); ok {
			w.out(c.line())
		}
	}
	// records exactly as an authoritative server sends them: owner already lower case, TTL equal to
	// the RRSIG's original TTL, no wildcard - and capital letters in the names inside the RDATA
	for _, typ := range []uint16{2, 5, 6, 12, 15, 17, 18, 33, 35, 39, 14, 21, 26, 36, 3, 47, 64} {
		zl := [][]byte{lowerBytes(genLabel(r, true)), lowerBytes(genLabel(r, true))}
		ol := append([][]byte{lowerBytes(genLabel(r, true))}, zl...)
		owner := joinWireName(ol)
		var rrs []wireRR
		for t := 0; t < 30; t++ {
			rrs = genRRset(r, owner, typ)
			up := false
			for i := range rrs {
				rrs[i].ttl, rrs[i].class = 300, 1
				up = up || bytes.ContainsAny(rrs[i].rdata, "ABCDEFGHIJKLMNOPQRSTUVWXYZ")
			}
			if up {
				break
			}
		}
		w.out("sd new")
		w.sdLine(typ, len(ol), joinWireName(zl), owner, rrs)
		if c, ok := w.signedCase(vlib.Pick(r, w.others), zl, ol, rrs); ok {
			w.out("vfy new")
			w.out(c.line())
		}
	}
	// key texts wrapped with LF, bare CR and CRLF around the size ceiling (5456 characters of material)
	w.out("ov new")
	for _, nl := range []string{"\n", "\r", "\r\n"} {
		for _, material := range []int{5456, 5457} {
			body := strings.Repeat("QUJD", 1365)[:material]
			for _, at := range []int{0, 64, 2700, 5455, 5456} {
				if at > material {
					continue
				}
				w.out("ov check " + hexStr(body[:at]+nl+body[at:]))
			}
			var wrapped strings.Builder // every 64 characters
			for i := 0; i < len(body); i += 64 {
				wrapped.WriteString(body[i:min(i+64, len(body))] + nl)
			}
			w.out("ov check " + hexStr(wrapped.String()))
		}
		for _, n := range []int{4065, 4092, 4093} { // real keys: the tag / DS of a wrapped key near the ceiling
			text := b64(r.Bytes(n))
			var wrapped strings.Builder
			for i := 0; i < len(text); i += 64 {
				wrapped.WriteString(text[i:min(i+64, len(text))] + nl)
			}
			w.out("kt new")
			w.out(fmt.Sprintf("kt tag 257 3 8 %s", hexStr(wrapped.String())))
			w.out("ds new")
			w.dsLineFor("example.", 257, 3, 8, wrapped.String(), 2)
			w.out("ov new")
		}
	}
	// RFC 3110 layouts at every boundary: key material that ends inside the length field, inside the
	// exponent, exactly at its end (no modulus octet), one octet later; both length forms
	w.out("rsa new")
	for _, eb := range [][]byte{{3}, {1, 0, 1}, {1, 0, 0, 0, 1}} {
		for form := 1; form <= 3; form += 2 {
			full := rsaPubRaw(eb, []byte{0xc3, 0x55}, form)
			hdr := len(full) - 2 - len(eb)
			for _, cut := range []int{0, 1, hdr - 1, hdr, hdr + len(eb) - 1, hdr + len(eb), hdr + len(eb) + 1, len(full)} {
				if cut < 0 || cut > len(full) {
					continue
				}
				pk := b64(full[:cut])
				w.out("rsa parse " + hexStr(pk))
				if cut >= hdr+len(eb) {
					signed := r.Bytes(20)
					w.out(fmt.Sprintf("rsa vfy 8 %s %s %s %s", hexStr(pk), vlib.Hex(signed), vlib.Hex(refHash(8, signed)), vlib.Hex(r.Bytes(128))))
				}
			}
		}
	}
	// two different keys of one owner, class and algorithm with the same key tag, verified one after the
	// other in this process: nothing may be remembered about a key under the name an RRSIG calls it by
	for _, alg := range []uint8{13, 15} {
		byTag := map[uint16]*signer{}
		var a, b *signer
		for t := 0; t < 3000 && a == nil; t++ {
			var cand *signer
			if alg == 13 {
				cand = newECDSASigner(r, 13)
			} else {
				cand = newEdSigner(r)
			}
			kb, _ := stdDecode(cand.pub)
			tag := refKeyTag(257, 3, alg, kb)
			if prev, ok := byTag[tag]; ok && prev.pub != cand.pub {
				a, b = prev, cand
			}
			byTag[tag] = cand
		}
		if a == nil {
			continue
		}
		zl := genLabels(r, 1, 2, true)
		ol := append(genLabels(r, 1, 1, true), zl...)
		w.out("vfy new")
		var cases []vcase
		for _, s := range []*signer{a, b, a, b} {
			if c, ok := w.signedCase(s, zl, ol, genRRset(r, joinWireName(ol), 1)); ok {
				c.k.Hdr.Name = pres(joinWireName(zl)) // the same spelling of the owner for both keys
				c.sig.SignerName = c.k.Hdr.Name
				cases = append(cases, c)
				w.out(c.line())
			}
		}
		if len(cases) == 4 {
			// each key's signature under the other key (tags agree, so only the arithmetic can refuse it)
			x := cloneCase(cases[0])
			x.k = cases[1].k
			w.out(x.line())
			y := cloneCase(cases[1])
			y.k = cases[0].k
			w.out(y.line())
			// both keys offered, an RRset signed by the second
			w.out(msgLine(cases[1].sig.SignerName, []*dns.DNSKEY{cases[0].k, cases[1].k}, []*dns.RRSIG{cases[1].sig}, cases[1].rrs, len(cases[1].rrs)))
			w.out(msgLine(cases[0].sig.SignerName, []*dns.DNSKEY{cases[1].k, cases[0].k}, []*dns.RRSIG{cases[0].sig}, cases[0].rrs, len(cases[0].rrs)))
		}
	}
	// exponents wider than 64 bits (9, 16, 64, 65 octets): refused whatever their low 64 bits are - also when
	// the signature is valid for the exponent truncated to its low 64 bits
	w.out("rsa new")
	{
		sg := w.rsa[2*len(exponents)+1] // 1024 bits, e = 65537, d known
		signed := r.Bytes(24)
		sig := sg.sign(8, signed)
		for _, n := range []int{9, 16, 64, 65} {
			eb := r.Bytes(n)
			eb[0] |= 1
			copy(eb[n-8:], []byte{0, 0, 0, 0, 0, 1, 0, 1}) // low 64 bits = 65537
			pk := b64(rsaPubRaw(eb, sg.mod.n.Bytes(), 0))
			w.out("rsa parse " + hexStr(pk))
			w.out(fmt.Sprintf("rsa vfy 8 %s %s %s %s", hexStr(pk), vlib.Hex(signed), vlib.Hex(refHash(8, signed)), vlib.Hex(sig)))
		}
		w.out(fmt.Sprintf("rsa vfy 8 %s %s %s %s", hexStr(sg.pub), vlib.Hex(signed), vlib.Hex(refHash(8, signed)), vlib.Hex(sig)))
	}
	// duplicates that are not adjacent in arrival order: A B A, C B A B C
	for _, pat := range [][]int{{0, 1, 0}, {2, 1, 0, 1, 2}, {0, 1, 2, 0}} {
		zl := genLabels(r, 1, 2, true)
		ol := append(genLabels(r, 1, 1, true), zl...)
		owner := joinWireName(ol)
		typ := vlib.Pick(r, []uint16{1, 16, 15, 65280})
		var distinct []wireRR
		for len(distinct) < 3 {
			rr := wireRR{owner: owner, typ: typ, class: 1, ttl: uint32(r.Intn(500)), rdata: genRdata(r, typ)}
			dup := false
			for _, d := range distinct {
				dup = dup || bytes.Equal(d.rdata, rr.rdata)
			}
			if !dup {
				distinct = append(distinct, rr)
			}
		}
		var rrs []wireRR
		for _, i := range pat {
			rrs = append(rrs, distinct[i])
		}
		w.out("sd new")
		w.sdLine(typ, len(ol), joinWireName(zl), owner, rrs)
		if c, ok := w.signedCase(vlib.Pick(r, w.others), zl, ol, rrs); ok {
			w.out("vfy new")
			w.out(c.line())
		}
	}
	// whole messages signed under algorithms the validator does not implement, with key material the
	// library's own routines choke on (RSAMD5 with 0..4 octets: its KeyTag indexes below the slice at
	// two; empty and short keys of DSA, GOST, Ed448, private and reserved numbers): refused up front,
	// never handed to the library, never a panic
	w.out("vfy new")
	for _, c := range []struct {
		alg uint8
		n   int
	}{{1, 0}, {1, 1}, {1, 2}, {1, 3}, {1, 4}, {1, 130}, {3, 0}, {3, 2}, {6, 1}, {12, 2}, {16, 57}, {253, 2}, {254, 0}, {0, 2}, {255, 2}, {2, 2}} {
		kb := r.Bytes(c.n)
		for i := range kb {
			kb[i] |= 1
		}
		zl := genLabels(r, 1, 2, true)
		ol := append(genLabels(r, 1, 1, true), zl...)
		zone := pres(joinWireName(zl))
		var tag uint16
		if c.alg == 1 {
			if len(kb) >= 3 {
				tag = uint16(kb[len(kb)-3])<<8 | uint16(kb[len(kb)-2])
			}
		} else {
			tag = refKeyTag(257, 3, c.alg, kb)
		}
		k := &dns.DNSKEY{Hdr: dns.RR_Header{Name: zone, Rrtype: dns.TypeDNSKEY, Class: 1, Ttl: 300}, Flags: 257, Protocol: 3, Algorithm: c.alg, PublicKey: b64(kb)}
		rrs := genRRset(r, joinWireName(ol), 1)
		for i := range rrs {
			rrs[i].class = 1
		}
		sig := &dns.RRSIG{Hdr: dns.RR_Header{Name: pres(joinWireName(ol)), Rrtype: dns.TypeRRSIG, Class: 1, Ttl: 300}, TypeCovered: 1, Algorithm: c.alg,
			Labels: uint8(len(ol)), OrigTtl: 300, Expiration: 3500000000, Inception: 1000000000, KeyTag: tag, SignerName: zone, Signature: b64(r.Bytes(64))}
		w.out(msgLine(zone, []*dns.DNSKEY{k}, []*dns.RRSIG{sig}, rrs, len(rrs)))
	}
	// every RSA algorithm on the raw (exponent > 2^31) path: a valid signature, and every near miss of the encoding
	if len(w.wide) > 0 {
		sg := w.wide[0]
		w.out("rsa new")
		for _, alg := range []uint8{5, 7, 8, 10} {
			signed := r.Bytes(30)
			hashed := refHash(alg, signed)
			if sig := sg.sign(alg, signed); sig != nil {
				w.out(fmt.Sprintf("rsa vfy %d %s %s %s %s", alg, hexStr(sg.pub), vlib.Hex(signed), vlib.Hex(hashed), vlib.Hex(sig)))
				for _, v := range nearMissSigs(r, sg.mod.n, sg.d, refPrefix[alg], hashed) {
					w.out(fmt.Sprintf("rsa vfy %d %s %s %s %s", alg, hexStr(sg.pub), vlib.Hex(signed), vlib.Hex(hashed), vlib.Hex(v)))
				}
			}
		}
	}
	// key tags of multi-chunk keys whose sum carries at a chunk end and in the final fold
	w.out("kt new")
	for i := 0; i < 12; i++ {
		fl, al := vlib.Pick(r, flagChoices), vlib.Pick(r, []int{5, 8, 10, 13, 253})
		w.out(fmt.Sprintf("kt tag %d 3 %d %s", fl, al, hexStr(b64(carryKey(r, fl, 3, al)))))
	}
	// one full verification group per kind of key, every run: RSA narrow and wide exponent, both curves, Ed25519
	kinds := []*signer{w.rsa[2*len(exponents)+1], w.others[0], w.others[1], w.others[2]}
	if len(w.wide) > 0 {
		kinds = append(kinds, w.wide[0])
	}
	for _, s := range kinds {
		w.out("vfy new")
		w.verifyGroup(s)
	}
	// every record type the generator knows, validly signed, names inside the RDATA in mixed case
	w.out("vfy new")
	seenType := map[uint16]bool{}
	for _, typ := range rrTypes {
		if seenType[typ] {
			continue
		}
		seenType[typ] = true
		if c, _, ok := w.baseCaseType(vlib.Pick(r, w.others), typ); ok {
			w.out(c.line())
		}
	}
	w.out("vfy new")
	ed := w.others[2]
	for a := 0; a < 256; a++ {
		s := ed
		if a == 5 || a == 7 || a == 8 || a == 10 {
			s = w.rsa[2*len(exponents)+1] // 1024 bits, e = 65537
		} else if a == 13 {
			s = w.others[0]
		} else if a == 14 {
			s = w.others[1]
		}
		c, _, ok := w.baseCase(s)
		if !ok {
			continue
		}
		if s == ed && a != 15 {
			c.k.Algorithm, c.sig.Algorithm = uint8(a), uint8(a)
			kb, _ := stdDecode(c.k.PublicKey)
			c.sig.KeyTag = refKeyTag(c.k.Flags, c.k.Protocol, uint8(a), kb)
		} else if s.kind == "rsa" {
			// baseCase picked an RSA algorithm at random: re-sign under this one
			c2, _, ok := w.caseWithAlg(s, uint8(a))
			if ok {
				c = c2
			}
		}
		w.out(c.line())
	}
}

func (w *world) caseWithAlg(s *signer, alg uint8) (vcase, []byte, bool) {
	for t := 0; t < 40; t++ {
		c, raw, ok := w.baseCase(s)
		if ok && c.k.Algorithm == alg {
			return c, raw, true
		}
	}
	return vcase{}, nil, false
}

func gen(r *vlib.R, n int, tier string, emit func(string)) {
	w := newWorld(r, tier, emit, n)
	w.sweeps()
	for w.left > 0 {
		switch k := r.Intn(100); {
		case k < 20:
			w.genKeyTag()
		case k < 26:
			w.genB64()
		case k < 28:
			w.genOversized()
		case k < 36:
			w.genDS()
		case k < 43:
			w.genVerifyDS()
		case k < 49:
			w.genRSAParse()
		case k < 53:
			w.genRSAUsable()
		case k < 60:
			w.genRSARaw()
		case k < 67:
			w.genRSAVerify()
		case k < 82:
			w.genSignedData()
		case k < 87:
			w.genBind()
		case k < 92:
			w.genMessage()
		default:
			w.genVerify()
		}
	}
}
