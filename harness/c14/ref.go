//go:build verif

// Independent reference implementations for C14, written from the RFCs
// (4034 App. B, 4034 §5.1.4/§6, 4035 §5.3, 3110, 8017 §9.2) with plain
// byte slices and math/big. Nothing here calls the dnssec package.
package main

import (
	"bytes"
	"crypto/sha1"
	"crypto/sha256"
	"crypto/sha512"
	"math/big"
	"sort"
)

// ---------------------------------------------------------------- names (wire form)

// splitWireName returns the labels of an uncompressed wire name and the
// number of octets it occupies.
func splitWireName(w []byte) (labels [][]byte, n int, ok bool) {
	off := 0
	for {
		if off >= len(w) {
			return nil, 0, false
		}
		l := int(w[off])
		off++
		if l == 0 {
			return labels, off, true
		}
		if l > 63 || off+l > len(w) {
			return nil, 0, false
		}
		labels = append(labels, w[off:off+l])
		off += l
	}
}

func joinWireName(labels [][]byte) []byte {
	var out []byte
	for _, l := range labels {
		out = append(out, byte(len(l)))
		out = append(out, l...)
	}
	return append(out, 0)
}

func lowerBytes(b []byte) []byte {
	out := make([]byte, len(b))
	for i, c := range b {
		if c >= 'A' && c <= 'Z' {
			c += 'a' - 'A'
		}
		out[i] = c
	}
	return out
}

// lowerWireName lowercases the label contents of the wire name at the
// start of w and returns it with its length.
func lowerWireName(w []byte) ([]byte, int, bool) {
	labels, n, ok := splitWireName(w)
	if !ok {
		return nil, 0, false
	}
	low := make([][]byte, len(labels))
	for i, l := range labels {
		low[i] = lowerBytes(l)
	}
	return joinWireName(low), n, true
}

// ---------------------------------------------------------------- records

type wireRR struct {
	owner []byte // wire, original case
	typ   uint16
	class uint16
	ttl   uint32
	rdata []byte // original
}

func parseWireRR(w []byte) (wireRR, bool) {
	_, n, ok := splitWireName(w)
	if !ok || n+10 > len(w) {
		return wireRR{}, false
	}
	rr := wireRR{owner: w[:n]}
	rr.typ = uint16(w[n])<<8 | uint16(w[n+1])
	rr.class = uint16(w[n+2])<<8 | uint16(w[n+3])
	rr.ttl = uint32(w[n+4])<<24 | uint32(w[n+5])<<16 | uint32(w[n+6])<<8 | uint32(w[n+7])
	rdl := int(w[n+8])<<8 | int(w[n+9])
	if n+10+rdl != len(w) {
		return wireRR{}, false
	}
	rr.rdata = w[n+10:]
	return rr, true
}

func (rr wireRR) pack() []byte {
	out := append([]byte(nil), rr.owner...)
	out = append(out, byte(rr.typ>>8), byte(rr.typ), byte(rr.class>>8), byte(rr.class),
		byte(rr.ttl>>24), byte(rr.ttl>>16), byte(rr.ttl>>8), byte(rr.ttl),
		byte(len(rr.rdata)>>8), byte(len(rr.rdata)))
	return append(out, rr.rdata...)
}

// canonRdata is RFC 4034 §6.2 (3) as clarified by RFC 6840 §5.1: the domain
// names inside the RDATA of the listed types are lowercased; everything
// else is left alone. Only the types the generator produces are handled.
func canonRdata(typ uint16, rd []byte) ([]byte, bool) {
	names := func(skip int, count int, tail int) ([]byte, bool) {
		if len(rd) < skip {
			return nil, false
		}
		out := append([]byte(nil), rd[:skip]...)
		off := skip
		for i := 0; i < count; i++ {
			low, n, ok := lowerWireName(rd[off:])
			if !ok {
				return nil, false
			}
			out = append(out, low...)
			off += n
		}
		if len(rd)-off != tail {
			return nil, false
		}
		return append(out, rd[off:]...), true
	}
	switch typ {
	case 2, 3, 4, 5, 7, 8, 9, 12, 39: // NS MD MF CNAME MB MG MR PTR DNAME
		return names(0, 1, 0)
	case 15, 18, 21, 36: // MX AFSDB RT KX
		return names(2, 1, 0)
	case 33: // SRV
		return names(6, 1, 0)
	case 6: // SOA
		return names(0, 2, 20)
	case 14, 17: // MINFO RP
		return names(0, 2, 0)
	case 26: // PX
		return names(2, 2, 0)
	case 35: // NAPTR: order, preference, flags, services, regexp, replacement
		off := 4
		for i := 0; i < 3; i++ {
			if off >= len(rd) {
				return nil, false
			}
			off += 1 + int(rd[off])
		}
		return names(off, 1, 0)
	}
	// everything else is signed as published: in particular NSEC (RFC 6840 §5.1 takes it off the
	// RFC 4034 §6.2 list), SVCB/HTTPS, LP, TALINK, NSAP-PTR, HINFO, TXT and unknown types
	return append([]byte(nil), rd...), true
}

type sigFields struct {
	typeCovered uint16
	alg         uint8
	labels      uint8
	origTTL     uint32
	exp, inc    uint32
	keyTag      uint16
}

func (s sigFields) wire() []byte {
	return []byte{byte(s.typeCovered >> 8), byte(s.typeCovered), s.alg, s.labels,
		byte(s.origTTL >> 24), byte(s.origTTL >> 16), byte(s.origTTL >> 8), byte(s.origTTL),
		byte(s.exp >> 24), byte(s.exp >> 16), byte(s.exp >> 8), byte(s.exp),
		byte(s.inc >> 24), byte(s.inc >> 16), byte(s.inc >> 8), byte(s.inc),
		byte(s.keyTag >> 8), byte(s.keyTag)}
}

// refCanonOwner is RFC 4035 §5.3.2: an owner with more labels than the RRSIG
// Labels field is replaced by "*." + its rightmost Labels labels; then
// lowercase (RFC 4034 §6.2 (2)). ok=false for Labels=0 below a non-root
// owner: the RFC's arithmetic gives the root wildcard "*.", which the
// library and sdns both refuse to build.
func refCanonOwner(owner []byte, labels uint8) ([]byte, bool) {
	ls, _, ok := splitWireName(owner)
	if !ok {
		return nil, false
	}
	if len(ls) > int(labels) {
		if labels == 0 {
			return nil, false
		}
		ls = append([][]byte{[]byte("*")}, ls[len(ls)-int(labels):]...)
	}
	low := make([][]byte, len(ls))
	for i, l := range ls {
		low[i] = lowerBytes(l)
	}
	return joinWireName(low), true
}

// refSignedData is RFC 4034 §3.1.8.1: RRSIG RDATA (no signature, canonical
// signer) followed by the RRs in canonical form (§6.2) and order (§6.3),
// duplicates removed.
func refSignedData(s sigFields, signerWire []byte, rrs []wireRR) ([]byte, bool) {
	if len(rrs) == 0 {
		return nil, false
	}
	signer, _, ok := lowerWireName(signerWire)
	if !ok {
		return nil, false
	}
	out := append(s.wire(), signer...)
	var rds [][]byte
	var owner []byte
	for i, rr := range rrs {
		rd, ok := canonRdata(rr.typ, rr.rdata)
		if !ok {
			return nil, false
		}
		o, ok := refCanonOwner(rr.owner, s.labels)
		if !ok {
			return nil, false
		}
		if i == 0 {
			owner = o
		}
		rds = append(rds, rd)
	}
	sort.SliceStable(rds, func(i, j int) bool { return bytes.Compare(rds[i], rds[j]) < 0 })
	for i, rd := range rds {
		if i > 0 && bytes.Equal(rd, rds[i-1]) {
			continue
		}
		c := wireRR{owner: owner, typ: rrs[0].typ, class: rrs[0].class, ttl: s.origTTL, rdata: rd}
		out = append(out, c.pack()...)
	}
	return out, true
}

// ---------------------------------------------------------------- key tag

// refKeyTag is RFC 4034 Appendix B over the DNSKEY RDATA.
func refKeyTag(flags uint16, proto, alg uint8, key []byte) uint16 {
	rdata := append([]byte{byte(flags >> 8), byte(flags), proto, alg}, key...)
	var ac uint64
	for i, b := range rdata {
		if i&1 == 1 {
			ac += uint64(b)
		} else {
			ac += uint64(b) << 8
		}
	}
	ac += (ac >> 16) & 0xFFFF
	return uint16(ac & 0xFFFF)
}

// ---------------------------------------------------------------- RSA

// RFC 8017 §9.2 note 1 DigestInfo prefixes.
var refPrefix = map[uint8][]byte{
	5:  {0x30, 0x21, 0x30, 0x09, 0x06, 0x05, 0x2b, 0x0e, 0x03, 0x02, 0x1a, 0x05, 0x00, 0x04, 0x14},
	7:  {0x30, 0x21, 0x30, 0x09, 0x06, 0x05, 0x2b, 0x0e, 0x03, 0x02, 0x1a, 0x05, 0x00, 0x04, 0x14},
	8:  {0x30, 0x31, 0x30, 0x0d, 0x06, 0x09, 0x60, 0x86, 0x48, 0x01, 0x65, 0x03, 0x04, 0x02, 0x01, 0x05, 0x00, 0x04, 0x20},
	10: {0x30, 0x51, 0x30, 0x0d, 0x06, 0x09, 0x60, 0x86, 0x48, 0x01, 0x65, 0x03, 0x04, 0x02, 0x03, 0x05, 0x00, 0x04, 0x40},
}

func refHash(alg uint8, data []byte) []byte {
	switch alg {
	case 5, 7:
		h := sha1.Sum(data)
		return h[:]
	case 8, 13:
		h := sha256.Sum256(data)
		return h[:]
	case 14:
		h := sha512.Sum384(data)
		return h[:]
	case 10:
		h := sha512.Sum512(data)
		return h[:]
	}
	return nil
}

// refParseRSA is RFC 3110 §2: exponent length (1 octet, or 0 followed by
// 2 octets), exponent, modulus; leading zero octets are prohibited in both.
func refParseRSA(kb []byte) (n, e *big.Int, ok bool) {
	if len(kb) == 0 {
		return nil, nil, false
	}
	var elen, off int
	if kb[0] != 0 {
		elen, off = int(kb[0]), 1
	} else {
		if len(kb) < 3 {
			return nil, nil, false
		}
		elen, off = int(kb[1])*256+int(kb[2]), 3
	}
	if elen == 0 || off+elen >= len(kb) {
		return nil, nil, false
	}
	eb, nb := kb[off:off+elen], kb[off+elen:]
	if eb[0] == 0 || nb[0] == 0 {
		return nil, nil, false
	}
	return new(big.Int).SetBytes(nb), new(big.Int).SetBytes(eb), true
}

// refWithinLimits are the documented key limits of the property:
// 1024 <= bits(n) <= 4096, e odd, 3 <= e < n, bits(e) <= 64.
func refWithinLimits(n, e *big.Int) bool {
	if n.BitLen() < 1024 || n.BitLen() > 4096 {
		return false
	}
	return e.Bit(0) == 1 && e.Cmp(big.NewInt(3)) >= 0 && e.Cmp(n) < 0 && e.BitLen() <= 64
}

// refEM is EMSA-PKCS1-v1_5: 00 01 FF..FF 00 prefix hash, k octets, at least
// eight FF. nil when k is too small.
func refEM(prefix, hashed []byte, k int) []byte {
	t := len(prefix) + len(hashed)
	if k < t+11 {
		return nil
	}
	em := make([]byte, 0, k)
	em = append(em, 0, 1)
	for i := 0; i < k-t-3; i++ {
		em = append(em, 0xff)
	}
	em = append(em, 0)
	em = append(em, prefix...)
	return append(em, hashed...)
}

// refModExp is left-to-right square and multiply with Mul/Mod only.
func refModExp(b, e, n *big.Int) *big.Int {
	if n.Sign() == 0 {
		return nil
	}
	r := new(big.Int).Mod(big.NewInt(1), n)
	base := new(big.Int).Mod(b, n)
	for i := e.BitLen() - 1; i >= 0; i-- {
		r.Mul(r, r)
		r.Mod(r, n)
		if e.Bit(i) == 1 {
			r.Mul(r, base)
			r.Mod(r, n)
		}
	}
	return r
}

// refRSAValid is the mathematical acceptance condition:
// |sig| = k, sig < n, sig^e mod n = EM.
func refRSAValid(n, e *big.Int, prefix, hashed, sig []byte) bool {
	k := (n.BitLen() + 7) / 8
	if len(sig) != k || n.Sign() == 0 {
		return false
	}
	s := new(big.Int).SetBytes(sig)
	if s.Cmp(n) >= 0 {
		return false
	}
	em := refEM(prefix, hashed, k)
	if em == nil {
		return false
	}
	return refModExp(s, e, n).Cmp(new(big.Int).SetBytes(em)) == 0
}
