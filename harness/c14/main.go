//go:build verif

// Correspondence driver for C14 (in-house DNSSEC primitives agree with an
// independent reference). Every op line is self-contained: keys, signatures
// and RRsets travel on the line as hex, so the Lean model and a replay see
// exactly what the real code saw.
package main

import (
	"bytes"
	"crypto/ecdsa"
	"crypto/ed25519"
	"crypto/elliptic"
	"encoding/base64"
	"encoding/hex"
	"errors"
	"fmt"
	"math/big"
	"reflect"
	"sort"
	"strings"
	"time"

	"github.com/miekg/dns"
	"github.com/semihalev/sdns/internal/verif/vlib"
	"github.com/semihalev/sdns/middleware/resolver/dnssec"
)

// ---------------------------------------------------------------- helpers

func errEnum(err error) string {
	switch {
	case err == nil:
		return "ok"
	case errors.Is(err, dnssec.ErrMissingSigned):
		return "missing-signed"
	case errors.Is(err, dnssec.ErrMissingDNSKEY):
		return "missing-dnskey"
	case errors.Is(err, dnssec.ErrInvalidSignaturePeriod):
		return "period"
	case errors.Is(err, dnssec.ErrNoSignatures):
		return "nosigs"
	case errors.Is(err, dnssec.ErrMissingKSK):
		return "missing-ksk"
	case errors.Is(err, dnssec.ErrMismatchingDS):
		return "mismatching-ds"
	case errors.Is(err, dnssec.ErrFailedToConvertKSK):
		return "unsupported-ds"
	case errors.Is(err, dns.ErrSig):
		return "badsig"
	case errors.Is(err, dns.ErrAlg):
		return "alg"
	case errors.Is(err, dns.ErrKey):
		return "key"
	case errors.Is(err, dns.ErrRRset):
		return "rrset"
	}
	return "err"
}

func hexStr(s string) string { return vlib.Hex([]byte(s)) }
func unStr(s string) string  { return string(vlib.UnHex(s)) }

func splitList(s, sep string) []string {
	if s == "-" || s == "" {
		return nil
	}
	return strings.Split(s, sep)
}

var maxCall time.Duration

// timed runs f, returns a coarse duration tag and whether the generous
// guard (2 s for one call) was exceeded.
func timed(f func()) (string, bool) {
	t0 := time.Now()
	f()
	d := time.Since(t0)
	if d > maxCall {
		maxCall = d
	}
	switch {
	case d < time.Millisecond:
		return "t<1ms", false
	case d < 10*time.Millisecond:
		return "t<10ms", false
	case d < 100*time.Millisecond:
		return "t<100ms", false
	case d < 2*time.Second:
		return "t<2s", false
	}
	return "t>=2s", true
}

func joinTags(ts ...string) string {
	var out []string
	for _, t := range ts {
		if t != "" {
			out = append(out, t)
		}
	}
	return strings.Join(out, ",")
}

// parseKey: <flags>,<proto>,<alg>,<class>,<ownerpres-hex>,<pkhex>
func parseKey(s string) *dns.DNSKEY {
	f := strings.Split(s, ",")
	if len(f) != 6 {
		panic("bad key token " + s)
	}
	return &dns.DNSKEY{
		Hdr:       dns.RR_Header{Name: unStr(f[4]), Rrtype: dns.TypeDNSKEY, Class: uint16(vlib.Atoi(f[3])), Ttl: 3600},
		Flags:     uint16(vlib.Atoi(f[0])),
		Protocol:  uint8(vlib.Atoi(f[1])),
		Algorithm: uint8(vlib.Atoi(f[2])),
		PublicKey: unStr(f[5]),
	}
}

func keyToken(k *dns.DNSKEY) string {
	return fmt.Sprintf("%d,%d,%d,%d,%s,%s", k.Flags, k.Protocol, k.Algorithm, k.Hdr.Class, hexStr(k.Hdr.Name), hexStr(k.PublicKey))
}

// parseSig: <type>,<alg>,<labels>,<origttl>,<exp>,<inc>,<tag>,<class>,<signerpres-hex>,<ownerpres-hex>,<sigb64-hex>
func parseSig(s string) *dns.RRSIG {
	f := strings.Split(s, ",")
	if len(f) != 11 {
		panic("bad sig token " + s)
	}
	return &dns.RRSIG{
		Hdr:         dns.RR_Header{Name: unStr(f[9]), Rrtype: dns.TypeRRSIG, Class: uint16(vlib.Atoi(f[7])), Ttl: 300},
		TypeCovered: uint16(vlib.Atoi(f[0])),
		Algorithm:   uint8(vlib.Atoi(f[1])),
		Labels:      uint8(vlib.Atoi(f[2])),
		OrigTtl:     uint32(vlib.AtoU64(f[3])),
		Expiration:  uint32(vlib.AtoU64(f[4])),
		Inception:   uint32(vlib.AtoU64(f[5])),
		KeyTag:      uint16(vlib.Atoi(f[6])),
		SignerName:  unStr(f[8]),
		Signature:   unStr(f[10]),
	}
}

func sigToken(s *dns.RRSIG) string {
	return fmt.Sprintf("%d,%d,%d,%d,%d,%d,%d,%d,%s,%s,%s", s.TypeCovered, s.Algorithm, s.Labels, s.OrigTtl, s.Expiration,
		s.Inception, s.KeyTag, s.Hdr.Class, hexStr(s.SignerName), hexStr(s.Hdr.Name), hexStr(s.Signature))
}

func sigFieldsOf(s *dns.RRSIG) sigFields {
	return sigFields{typeCovered: s.TypeCovered, alg: s.Algorithm, labels: s.Labels, origTTL: s.OrigTtl,
		exp: s.Expiration, inc: s.Inception, keyTag: s.KeyTag}
}

// parseRRs unpacks uncompressed wire records into library records.
func parseRRs(s string) ([]dns.RR, []wireRR, bool) {
	var rrs []dns.RR
	var ws []wireRR
	for _, h := range splitList(s, ",") {
		w := vlib.UnHex(h)
		rr, _, err := dns.UnpackRR(w, 0)
		if err != nil {
			return nil, nil, false
		}
		wr, ok := parseWireRR(w)
		if !ok {
			return nil, nil, false
		}
		rrs = append(rrs, rr)
		ws = append(ws, wr)
	}
	return rrs, ws, true
}

// packName packs a presentation name with the library codec (trusted) and
// returns the wire form, original case.
func packName(pres string) ([]byte, bool) {
	buf := make([]byte, 300)
	n, err := dns.PackDomainName(dns.Fqdn(pres), buf, 0, nil, false)
	if err != nil {
		return nil, false
	}
	return buf[:n], true
}

func safeLibTag(k *dns.DNSKEY) (tag uint16, panicked bool) {
	defer func() {
		if recover() != nil {
			panicked = true
		}
	}()
	return k.KeyTag(), false
}

func safeLibVerify(sig *dns.RRSIG, k *dns.DNSKEY, set []dns.RR) (err error, panicked bool) {
	defer func() {
		if recover() != nil {
			panicked = true
		}
	}()
	return sig.Verify(k, set), false
}

func safeLibToDS(k *dns.DNSKEY, dt uint8) (ds *dns.DS) {
	defer func() {
		if recover() != nil {
			ds = nil
		}
	}()
	return k.ToDS(dt)
}

// stdDecode is encoding/base64 the way the library and sdns call it: the
// octets decoded before an error are returned with the error.
func stdDecode(s string) ([]byte, error) {
	buf := make([]byte, base64.StdEncoding.DecodedLen(len(s)))
	n, err := base64.StdEncoding.Decode(buf, []byte(s))
	return buf[:n], err
}

var tagRank = map[string]int{"t<1ms": 0, "t<10ms": 1, "t<100ms": 2, "t<2s": 3, "t>=2s": 4}

func worse(a, b string) string {
	if tagRank[b] > tagRank[a] {
		return b
	}
	return a
}

func material(s string) int {
	n := 0
	for i := 0; i < len(s); i++ {
		if s[i] != '\r' && s[i] != '\n' {
			n++
		}
	}
	return n
}

// ---------------------------------------------------------------- reference preflight (RFC 4034 §3.1, RFC 4035 §5.3.1)

func asciiEqualFold(a, b string) bool {
	return len(a) == len(b) && string(lowerBytes([]byte(a))) == string(lowerBytes([]byte(b)))
}

// labelSuffix: zone's labels are the rightmost labels of name (case folded).
func labelSuffix(name, zone []byte) bool {
	nl, _, ok1 := splitWireName(name)
	zl, _, ok2 := splitWireName(zone)
	if !ok1 || !ok2 || len(zl) > len(nl) {
		return false
	}
	d := len(nl) - len(zl)
	for i := range zl {
		if !bytes.Equal(lowerBytes(nl[d+i]), lowerBytes(zl[i])) {
			return false
		}
	}
	return true
}

func wireEqualFold(a, b []byte) bool {
	la, _, ok1 := lowerWireName(a)
	lb, _, ok2 := lowerWireName(b)
	return ok1 && ok2 && bytes.Equal(la, lb)
}

// refPreflight judges the RFC's binding conditions on wire names; the key
// tag is the RFC checksum when the key decodes.
func refPreflight(k *dns.DNSKEY, sig *dns.RRSIG, ws []wireRR) bool {
	if len(ws) == 0 {
		return false
	}
	for _, w := range ws[1:] {
		if w.typ != ws[0].typ || w.class != ws[0].class || !bytes.Equal(w.owner, ws[0].owner) {
			return false
		}
	}
	if k.Protocol != 3 || k.Flags&256 == 0 || k.Algorithm != sig.Algorithm || k.Hdr.Class != sig.Hdr.Class {
		return false
	}
	kb, err := base64.StdEncoding.DecodeString(k.PublicKey)
	if err != nil || len(kb) > 4092 || refKeyTag(k.Flags, k.Protocol, k.Algorithm, kb) != sig.KeyTag {
		return false
	}
	kn, ok1 := packName(k.Hdr.Name)
	sn, ok2 := packName(sig.SignerName)
	so, ok3 := packName(sig.Hdr.Name)
	if !ok1 || !ok2 || !ok3 || !wireEqualFold(kn, sn) {
		return false
	}
	ls, _, _ := splitWireName(ws[0].owner)
	return ws[0].class == sig.Hdr.Class && ws[0].typ == sig.TypeCovered && len(ls) >= int(sig.Labels) &&
		wireEqualFold(ws[0].owner, so) && labelSuffix(ws[0].owner, sn)
}

// strictReasons lists the deliberate narrowings documented in signature.go
// that apply to this input, judged without the dnssec package.
func strictReasons(k *dns.DNSKEY, sig *dns.RRSIG, ws []wireRR) []string {
	var out []string
	if !dns.IsFqdn(sig.SignerName) || !dns.IsFqdn(k.Hdr.Name) {
		out = append(out, "name-not-fqdn")
	}
	if len(ws) > 0 {
		if sn, ok := packName(sig.SignerName); ok && !labelSuffix(ws[0].owner, sn) {
			out = append(out, "signer-label-boundary")
		}
	}
	if sig.Algorithm == 13 || sig.Algorithm == 14 {
		size := 32
		if sig.Algorithm == 14 {
			size = 48
		}
		if sb, err := base64.StdEncoding.DecodeString(sig.Signature); err == nil && len(sb) != 2*size {
			out = append(out, "ecdsa-sig-width")
		}
	}
	switch sig.Algorithm {
	case 5, 7, 8, 10:
		if kb, err := base64.StdEncoding.DecodeString(k.PublicKey); err == nil {
			if n, e, ok := refParseRSA(kb); ok && !refWithinLimits(n, e) {
				out = append(out, "rsa-limits")
			}
		}
	}
	return out
}

// judgeVerdict classifies one (sdns verdict, library verdict) pair.
func judgeVerdict(entry string, got bool, k *dns.DNSKEY, sig *dns.RRSIG, rrs []dns.RR, ws []wireRR) (oracle, tag string) {
	libErr, libPanic := safeLibVerify(sig, k, rrs)
	lib := libErr == nil && !libPanic
	// plain big-integer reference for RSA
	rsaAlg := sig.Algorithm == 5 || sig.Algorithm == 7 || sig.Algorithm == 8 || sig.Algorithm == 10
	mathOK, wide, inLimits := false, false, false
	if rsaAlg && k.Algorithm == sig.Algorithm {
		kb, err := base64.StdEncoding.DecodeString(k.PublicKey)
		sb, err2 := base64.StdEncoding.DecodeString(sig.Signature)
		if err == nil && err2 == nil {
			if n, e, ok := refParseRSA(kb); ok {
				wide = e.BitLen() > 31
				inLimits = refWithinLimits(n, e)
				if sn, ok := packName(sig.SignerName); ok {
					if data, ok := refSignedData(sigFieldsOf(sig), sn, ws); ok {
						mathOK = refRSAValid(n, e, refPrefix[sig.Algorithm], refHash(sig.Algorithm, data), sb)
					}
				}
			}
		}
	}
	refWide := rsaAlg && wide && inLimits && mathOK && refPreflight(k, sig, ws)
	switch {
	case got && lib:
		if rsaAlg && !mathOK {
			return "FAIL sig=" + entry + "/accepted-but-math-invalid", "agree-accept"
		}
		return "ok", "agree-accept"
	case got && !lib:
		if refWide {
			return "ok", "wide-exponent-accept"
		}
		if !dns.IsFqdn(k.Hdr.Name) && !dns.IsFqdn(sig.SignerName) && errors.Is(libErr, dns.ErrKey) {
			// candidate finding (notes/C14.md): names that are not fully qualified never come off the wire
			return "FAIL sig=" + entry + "/non-fqdn-key-owner-accepted", "permissive"
		}
		return fmt.Sprintf("FAIL sig=%s/more-permissive-than-reference lib=%s panic=%v wide=%v math=%v limits=%v", entry, errEnum(libErr), libPanic, wide, mathOK, inLimits), "permissive"
	case !got && lib:
		rs := strictReasons(k, sig, ws)
		if len(rs) == 0 {
			return "FAIL sig=" + entry + "/stricter-unexplained", "stricter"
		}
		return "ok", "stricter:" + rs[0]
	default:
		if refWide {
			return "FAIL sig=" + entry + "/wide-exponent-valid-rejected", "agree-reject"
		}
		return "ok", "agree-reject"
	}
}

// ---------------------------------------------------------------- exec

func exec(op string) vlib.Res {
	f := strings.Fields(op)
	if len(f) < 2 {
		return vlib.Res{Impl: "bad-op"}
	}
	if f[1] == "new" {
		return vlib.Res{Impl: "ok"}
	}
	switch f[0] + " " + f[1] {
	case "b64 dec":
		b, err := dnssec.VerifC14FromBase64(vlib.UnHex(f[2]))
		// the decoder is encoding/base64 (trusted); this op validates the model's decoder
		want, werr := base64.StdEncoding.DecodeString(unStr(f[2]))
		or := "ok"
		if err == nil && (werr != nil || !bytes.Equal(b, want)) {
			or = "FAIL sig=b64/fromBase64-differs-from-DecodeString"
		}
		if err != nil {
			return vlib.Res{Impl: "err " + vlib.Hex(b), Oracle: or, Tags: "b64err"}
		}
		return vlib.Res{Impl: "ok " + vlib.Hex(b), Oracle: or}

	case "b64 enc":
		// encoding/base64's encoder against the model's RFC 4648 §4 encoder (the reference its decoder is proved against)
		raw := vlib.UnHex(f[2])
		text := base64.StdEncoding.EncodeToString(raw)
		back, derr := dnssec.VerifC14FromBase64([]byte(text))
		or := "ok"
		if derr != nil || !bytes.Equal(back, raw) {
			or = "FAIL sig=b64/fromBase64-does-not-invert-encoding"
		}
		return vlib.Res{Impl: hexStr(text), Oracle: or}

	case "kt tag":
		return execKeyTag(f)

	case "ov check":
		pk := unStr(f[2])
		var got bool
		tt, slow := timed(func() { got = dnssec.VerifC14Oversized(pk) })
		_, _, limit, _, _, _, _ := dnssec.VerifC14Limits()
		_ = limit
		want := material(pk) > base64.StdEncoding.EncodedLen(4092)
		or := "ok"
		if got != want {
			or = fmt.Sprintf("FAIL sig=oversized/%s material=%d", map[bool]string{true: "refuses-key-within-limit", false: "admits-key-over-limit"}[got], material(pk))
		}
		if slow {
			or = "FAIL sig=oversized/super-linear"
		}
		return vlib.Res{Impl: vlib.B(got), Oracle: or, Tags: joinTags("nt", tt)}

	case "ds match":
		return execDSMatch(f)
	case "dsv verify":
		return execVerifyDS(f)

	case "rsa parse":
		pk := unStr(f[2])
		n, e, ok := dnssec.VerifC14ParseRSA(pk)
		kb, derr := base64.StdEncoding.DecodeString(pk)
		var rn, re *big.Int
		rok := false
		if derr == nil {
			rn, re, rok = refParseRSA(kb)
		}
		or := "ok"
		tag := ""
		switch {
		case ok && !rok:
			or = "FAIL sig=rsa/parse/accepts-malformed-key"
		case ok && (n.Cmp(rn) != 0 || e.Cmp(re) != 0):
			or = "FAIL sig=rsa/parse/wrong-value"
		case !ok && rok:
			or = "FAIL sig=rsa/parse/rejects-wellformed-key"
		}
		if ok {
			// the wide-exponent switch must agree with the parsed exponent
			if dnssec.VerifC14ExponentExceedsStdlib(pk) != (e.BitLen() > 31) {
				or = "FAIL sig=rsa/parse/exceeds-stdlib-flag"
			}
			if e.BitLen() > 31 {
				tag = "wide"
			}
			return vlib.Res{Impl: "ok " + vlib.Hex(n.Bytes()) + " " + vlib.Hex(e.Bytes()), Oracle: or, Tags: joinTags("nt", tag)}
		}
		return vlib.Res{Impl: "bad", Oracle: or, Tags: "nt"}

	case "rsa usable":
		n := new(big.Int).SetBytes(vlib.UnHex(f[2]))
		e := new(big.Int).SetBytes(vlib.UnHex(f[3]))
		got := dnssec.VerifC14UsableRSA(n, e)
		want := refWithinLimits(n, e)
		or, tag := "ok", ""
		if got && !want {
			or = fmt.Sprintf("FAIL sig=rsa/usable/outside-documented-limits bits=%d ebits=%d", n.BitLen(), e.BitLen())
		} else if !got && want {
			tag = "stricter:rsa-limits"
		}
		return vlib.Res{Impl: vlib.B(got), Oracle: or, Tags: joinTags("nt", tag)}

	case "rsa raw":
		n := new(big.Int).SetBytes(vlib.UnHex(f[2]))
		e := new(big.Int).SetBytes(vlib.UnHex(f[3]))
		prefix, hashed, sig := vlib.UnHex(f[4]), vlib.UnHex(f[5]), vlib.UnHex(f[6])
		var err error
		tt, slow := timed(func() { err = dnssec.VerifC14RSARaw(n, e, prefix, hashed, sig) })
		want := refRSAValid(n, e, prefix, hashed, sig)
		or := "ok"
		if (err == nil) != want {
			or = fmt.Sprintf("FAIL sig=rsa/raw/%s", map[bool]string{true: "accepts-invalid-signature", false: "rejects-valid-signature"}[err == nil])
		}
		if slow {
			or = "FAIL sig=rsa/raw/super-linear"
		}
		return vlib.Res{Impl: errEnum(err), Oracle: or, Tags: joinTags("nt", tt, map[bool]string{true: "accept"}[err == nil])}

	case "rsa vfy":
		return execRSAVerify(f)

	case "sd data":
		return execSignedData(f)
	case "bind check":
		return execBind(f)
	case "vfy sig":
		return execVerifySig(f)
	case "vfy msg":
		return execVerifyMsg(f)
	}
	return vlib.Res{Impl: "bad-op"}
}

// kt tag <flags> <proto> <alg> <pkhex>
func execKeyTag(f []string) vlib.Res {
	k := &dns.DNSKEY{Hdr: dns.RR_Header{Name: "example.", Rrtype: dns.TypeDNSKEY, Class: 1},
		Flags: uint16(vlib.Atoi(f[2])), Protocol: uint8(vlib.Atoi(f[3])), Algorithm: uint8(vlib.Atoi(f[4])), PublicKey: unStr(f[5])}
	var got uint16
	tt, slow := timed(func() { got = dnssec.KeyTag(k) })
	lib, libPanic := safeLibTag(k)
	or := "ok"
	tags := []string{tt}
	// (1) the library
	if libPanic {
		tags = append(tags, "lib-panic")
	} else if got != lib {
		or = fmt.Sprintf("FAIL sig=keytag/differs-from-library alg=%d got=%d lib=%d", k.Algorithm, got, lib)
	}
	// (2) RFC 4034 Appendix B written out
	kb, derr := stdDecode(k.PublicKey) // encoding/base64, partial output on error
	var want uint16
	switch {
	case k.Algorithm == 1:
		if len(kb) >= 3 {
			want = uint16(kb[len(kb)-3])<<8 | uint16(kb[len(kb)-2])
		}
	case derr == nil && len(kb) <= 4092:
		want = refKeyTag(k.Flags, k.Protocol, k.Algorithm, kb)
	}
	if got != want && or == "ok" {
		or = fmt.Sprintf("FAIL sig=keytag/differs-from-rfc4034-appendix-b alg=%d got=%d want=%d", k.Algorithm, got, want)
	}
	if slow {
		or = "FAIL sig=keytag/super-linear"
	}
	if len(k.PublicKey) > 256 || k.Algorithm == 1 || derr != nil || material(k.PublicKey) != len(k.PublicKey) {
		tags = append(tags, "nt")
	}
	if derr != nil {
		tags = append(tags, "malformed")
	}
	return vlib.Res{Impl: fmt.Sprint(got), Oracle: or, Tags: joinTags(tags...)}
}

func dsRefDigest(dt uint8, data []byte) []byte {
	switch dt {
	case 1:
		return refHash(5, data)
	case 2:
		return refHash(8, data)
	case 4:
		return refHash(14, data)
	}
	return nil
}

// ds match <ownerpres-hex> <flags> <proto> <alg> <pkhex> <dt> <wanthex> <refhex>
func execDSMatch(f []string) vlib.Res {
	k := &dns.DNSKEY{Hdr: dns.RR_Header{Name: unStr(f[2]), Rrtype: dns.TypeDNSKEY, Class: 1, Ttl: 60},
		Flags: uint16(vlib.Atoi(f[3])), Protocol: uint8(vlib.Atoi(f[4])), Algorithm: uint8(vlib.Atoi(f[5])), PublicKey: unStr(f[6])}
	dt := uint8(vlib.Atoi(f[7]))
	want := vlib.UnHex(f[8])
	ref := vlib.UnHex(f[9])
	// the line's digest column must be the RFC 4034 §5.1.4 digest (the model's digest oracle)
	var must []byte
	if kb, err := base64.StdEncoding.DecodeString(k.PublicKey); err == nil {
		if ow, ok := packName(k.Hdr.Name); ok {
			low, _, _ := lowerWireName(ow)
			data := append(append(low, byte(k.Flags>>8), byte(k.Flags), k.Protocol, k.Algorithm), kb...)
			must = dsRefDigest(dt, data)
		}
	}
	if !bytes.Equal(must, ref) {
		return vlib.Res{Impl: "bad-op"}
	}
	var got bool
	tt, slow := timed(func() { got = dnssec.VerifC14DSDigestMatches(k, dt, want) })
	lib := false
	if ds := safeLibToDS(k, dt); ds != nil && len(want) > 0 {
		lib = strings.EqualFold(ds.Digest, hex.EncodeToString(want))
	}
	or, tag := "ok", ""
	switch {
	case got && !lib:
		or = fmt.Sprintf("FAIL sig=ds/match/more-permissive-than-ToDS dt=%d", dt)
	case !got && lib:
		if dt == 5 {
			tag = "stricter:ds-digest-5"
		} else if kb, err := stdDecode(k.PublicKey); err == nil && len(kb) == 0 {
			tag = "stricter:empty-key" // a DNSKEY without key material: ToDS hashes it, dsDigestMatches refuses it
		} else {
			or = fmt.Sprintf("FAIL sig=ds/match/stricter-unexplained dt=%d", dt)
		}
	case got:
		tag = "match"
	}
	// direct statement of the property clause: a match is an equal digest of a supported type
	if got && !(len(ref) > 0 && bytes.Equal(ref, want)) {
		or = fmt.Sprintf("FAIL sig=ds/match/not-the-rfc4034-digest dt=%d", dt)
	}
	if slow {
		or = "FAIL sig=ds/match/super-linear"
	}
	return vlib.Res{Impl: vlib.B(got), Oracle: or, Tags: joinTags("nt", tag, tt)}
}

// sameKey: the same DNSKEY up to the case of its owner name.
func sameKey(a, b *dns.DNSKEY) bool {
	return asciiEqualFold(dns.Fqdn(a.Hdr.Name), dns.Fqdn(b.Hdr.Name)) && a.Hdr.Class == b.Hdr.Class && a.Flags == b.Flags &&
		a.Protocol == b.Protocol && a.Algorithm == b.Algorithm && a.PublicKey == b.PublicKey
}

// keyRefDigests is the RFC 4034 §5.1.4 digest of a key under types 1, 2, 4
// ("-" where the key does not decode): the model's digest oracle column.
func keyRefDigests(k *dns.DNSKEY) string {
	parts := []string{"-", "-", "-"}
	if kb, err := stdDecode(k.PublicKey); err == nil {
		if ow, ok := packName(k.Hdr.Name); ok {
			low, _, _ := lowerWireName(ow)
			data := append(append(low, byte(k.Flags>>8), byte(k.Flags), k.Protocol, k.Algorithm), kb...)
			for i, dt := range []uint8{1, 2, 4} {
				parts[i] = vlib.Hex(dsRefDigest(dt, data))
			}
		}
	}
	return strings.Join(parts, ":")
}

// dsv verify <k;k;...> <d;d;...> <r;r;...>
//
//	d = <ownerpres-hex>,<class>,<tag>,<alg>,<dt>,<digesttext-hex>   r = <sha1>:<sha256>:<sha384> of key i
func execVerifyDS(f []string) vlib.Res {
	if len(f) != 6 {
		return vlib.Res{Impl: "bad-op"}
	}
	var keys []*dns.DNSKEY
	keyMap := map[uint16][]*dns.DNSKEY{}
	for _, t := range splitList(f[2], ";") {
		k := parseKey(t)
		keys = append(keys, k)
		tag := dnssec.KeyTag(k)
		keyMap[tag] = append(keyMap[tag], k)
	}
	refs := splitList(f[4], ";")
	if len(refs) != len(keys) {
		return vlib.Res{Impl: "bad-op"}
	}
	for i, k := range keys {
		if keyRefDigests(k) != refs[i] {
			return vlib.Res{Impl: "bad-op"}
		}
	}
	var dss []*dns.DS
	var set []dns.RR
	for _, t := range splitList(f[3], ";") {
		p := strings.Split(t, ",")
		d := &dns.DS{Hdr: dns.RR_Header{Name: unStr(p[0]), Rrtype: dns.TypeDS, Class: uint16(vlib.Atoi(p[1])), Ttl: 60},
			KeyTag: uint16(vlib.Atoi(p[2])), Algorithm: uint8(vlib.Atoi(p[3])), DigestType: uint8(vlib.Atoi(p[4])), Digest: unStr(p[5])}
		dss = append(dss, d)
		set = append(set, d)
	}
	var unsup bool
	var err error
	tt, slow := timed(func() { unsup, err = dnssec.VerifyDS(keyMap, set) })
	got := err == nil
	// the other two entry points must give the same verdict
	unsup2, err2 := dnssec.VerifyDSWithWork(keyMap, set, nil)
	anchored, unsup3, err3 := dnssec.VerifyDSAnchoredWithWork(keyMap, set, nil)

	// reference: which (DS, key) pairs does DNSKEY.ToDS authenticate
	supAlg := map[uint8]bool{5: true, 7: true, 8: true, 10: true, 13: true, 14: true, 15: true}
	refAny, refPlain, anySupported := false, false, false
	refAnchored := map[*dns.DNSKEY]bool{} // keys a supported DS authenticates, narrowings applied
	mayAnchor := map[*dns.DNSKEY]bool{}   // keys any DS authenticates in the library's eyes
	for _, d := range dss {
		sup := (d.DigestType == 1 || d.DigestType == 2 || d.DigestType == 4) && supAlg[d.Algorithm]
		anySupported = anySupported || sup
		for _, k := range keys {
			ds := safeLibToDS(k, d.DigestType)
			if ds == nil || !strings.EqualFold(ds.Digest, d.Digest) || ds.KeyTag != d.KeyTag || k.Algorithm != d.Algorithm ||
				k.Hdr.Class != d.Hdr.Class || !asciiEqualFold(k.Hdr.Name, d.Hdr.Name) {
				continue
			}
			refAny = true
			mayAnchor[k] = true
			// pairs the documented narrowings do not touch
			if kb, err := stdDecode(k.PublicKey); sup && k.Protocol == 3 && k.Flags&256 != 0 && err == nil && len(kb) > 0 {
				refPlain = true
				refAnchored[k] = true
			}
		}
	}
	or, tag := "ok", ""
	switch {
	case got && !refAny:
		or = "FAIL sig=dsv/accepts-without-matching-ds"
	case !got && refPlain:
		or = "FAIL sig=dsv/rejects-matching-ds err=" + errEnum(err)
	case !got && refAny:
		tag = "stricter:ds-unsupported-or-not-zone-key"
	case got:
		tag = "accept"
	}
	// the verdict pair: "unsupported only" (the caller then treats the zone as insecure) exactly when
	// the set is not empty and holds no DS of a supported digest type and algorithm - whatever else is
	// wrong with a supported DS (no key, undecodable or mismatching digest) makes the zone bogus
	wantUnsup := len(dss) > 0 && !anySupported
	if unsup != wantUnsup {
		or = fmt.Sprintf("FAIL sig=dsv/%s", map[bool]string{true: "bogus-ds-set-reported-unsupported-only", false: "unsupported-only-set-reported-bogus"}[unsup])
	}
	if unsup && err == nil {
		or = "FAIL sig=dsv/unsupported-only-without-error"
	}
	if unsup2 != unsup || (err2 == nil) != got || unsup3 != unsup || (err3 == nil) != got {
		or = "FAIL sig=dsv/entry-points-disagree"
	}
	if err3 == nil {
		n := 0
		for _, ks := range anchored {
			for _, k := range ks {
				n++
				if !mayAnchor[k] {
					or = "FAIL sig=dsv/anchors-key-no-ds-authenticates"
				}
			}
		}
		for k := range refAnchored {
			found := false
			for _, ks := range anchored {
				for _, a := range ks {
					found = found || sameKey(a, k) // one representative per key (owner case aside) is returned
				}
			}
			if !found {
				or = "FAIL sig=dsv/authenticated-key-not-anchored"
			}
		}
		tag = joinTags(tag, fmt.Sprintf("anchored%d", min(n, 3)))
	}
	if or == "ok" {
		if o := guarded("dsv/VerifyDSWithWork", func() {
			if w := checkDSWork(keyMap, set, got, len(dss)*max(1, len(keys)), len(f[3])); w != "" {
				or = w
			}
		}); o != "" {
			or = o
		}
	}
	if slow {
		or = "FAIL sig=dsv/super-linear"
	}
	// which of the offered keys VerifyDSAnchoredWithWork anchored: position of the first offered key
	// that is the same key (duplicates differing only in owner case are collapsed by the validator)
	anch := "-"
	if err3 == nil {
		seen := map[int]bool{}
		var idx []string
		for i, k := range keys {
			hit := false
			for _, ks := range anchored {
				for _, a := range ks {
					hit = hit || a == k
				}
			}
			if !hit {
				continue
			}
			first := i
			for j := 0; j < i; j++ {
				if sameKey(keys[j], k) {
					first = j
					break
				}
			}
			if !seen[first] {
				seen[first] = true
				idx = append(idx, fmt.Sprint(first))
			}
		}
		anch = strings.Join(idx, ".")
	}
	// the same set under the governor named on the line: result and number of digests begun
	gp := strings.Split(strings.TrimPrefix(f[5], "g="), ",")
	gov := &fakeWork{maxCand: uint32(vlib.Atoi(gp[0])), maxSet: 1 << 30, budget: vlib.Atoi(gp[1])}
	wres := "fail"
	if o := guarded("dsv/VerifyDSWithWork", func() {
		_, werr := dnssec.VerifyDSWithWork(keyMap, set, gov)
		switch {
		case dnssec.IsWorkError(werr):
			wres = "work"
		case werr == nil:
			wres = "ok"
		}
	}); o != "" {
		return vlib.Res{Impl: "panic", Oracle: o, Tags: "nt,panic"}
	}
	return vlib.Res{Impl: fmt.Sprintf("unsup=%s ok=%s err=%s anch=%s w=%s:%d", vlib.B(unsup), vlib.B(got), errEnum(err), anch, wres, gov.begins), Oracle: or,
		Tags: joinTags("nt", tag, tt, "err:"+errEnum(err), "dsgov:"+wres)}
}

// rsa vfy <alg> <pkhex> <signedhex> <hashedhex> <sighex>
func execRSAVerify(f []string) vlib.Res {
	alg := uint8(vlib.Atoi(f[2]))
	k := &dns.DNSKEY{Hdr: dns.RR_Header{Name: "example.", Rrtype: dns.TypeDNSKEY, Class: 1}, Flags: 256, Protocol: 3, Algorithm: alg, PublicKey: unStr(f[3])}
	signed, hashed, sig := vlib.UnHex(f[4]), vlib.UnHex(f[5]), vlib.UnHex(f[6])
	if !bytes.Equal(refHash(alg, signed), hashed) || refPrefix[alg] == nil {
		return vlib.Res{Impl: "bad-op"}
	}
	var err error
	tt, slow := timed(func() { err = dnssec.VerifC14VerifyRSA(k, alg, signed, sig) })
	got := err == nil
	want, within, wide := false, false, false
	if kb, derr := base64.StdEncoding.DecodeString(k.PublicKey); derr == nil {
		if n, e, ok := refParseRSA(kb); ok {
			within = refWithinLimits(n, e)
			wide = e.BitLen() > 31
			want = within && refRSAValid(n, e, refPrefix[alg], hashed, sig)
			if want && !wide && n.Bit(0) == 0 {
				want = false // crypto/rsa (the reference for narrow exponents) refuses an even modulus
			}
		}
	}
	or, tag := "ok", ""
	switch {
	case got && !want:
		or = fmt.Sprintf("FAIL sig=rsa/vfy/accepts-invalid within=%v wide=%v", within, wide)
	case !got && want:
		or = fmt.Sprintf("FAIL sig=rsa/vfy/rejects-valid-signature wide=%v err=%s", wide, errEnum(err))
	case got:
		tag = "accept"
	}
	if got && wide {
		tag = "wide-exponent-accept"
	}
	if slow {
		or = "FAIL sig=rsa/vfy/super-linear"
	}
	return vlib.Res{Impl: errEnum(err), Oracle: or, Tags: joinTags("nt", tag, tt)}
}

// sd data <type> <class> <alg> <labels> <origttl> <exp> <inc> <keytag> <signerpres-hex> <signerwire-hex> <ownerwire-hex> <canon rdatas> <rr wires>
func execSignedData(f []string) vlib.Res {
	if len(f) != 15 {
		return vlib.Res{Impl: "bad-op"}
	}
	sig := &dns.RRSIG{TypeCovered: uint16(vlib.Atoi(f[2])), Algorithm: uint8(vlib.Atoi(f[4])), Labels: uint8(vlib.Atoi(f[5])),
		OrigTtl: uint32(vlib.AtoU64(f[6])), Expiration: uint32(vlib.AtoU64(f[7])), Inception: uint32(vlib.AtoU64(f[8])),
		KeyTag: uint16(vlib.Atoi(f[9])), SignerName: unStr(f[10])}
	class := uint16(vlib.Atoi(f[3]))
	signerWire, ownerWire := vlib.UnHex(f[11]), vlib.UnHex(f[12])
	rrs, ws, ok := parseRRs(f[14])
	if !ok || len(rrs) == 0 {
		return vlib.Res{Impl: "bad-op"}
	}
	// the line's oracle columns (canonical signer, canonical RDATA per record) must be what RFC 4034 §6.2 says
	sw, ok := packName(sig.SignerName)
	if !ok {
		return vlib.Res{Impl: "bad-op"}
	}
	if low, _, _ := lowerWireName(sw); !bytes.Equal(low, signerWire) {
		return vlib.Res{Impl: "bad-op"}
	}
	crd := strings.Split(f[13], ",") // "-" is one empty RDATA
	if len(crd) != len(ws) {
		return vlib.Res{Impl: "bad-op"}
	}
	for i, w := range ws {
		c, ok := canonRdata(w.typ, w.rdata)
		if !ok || !bytes.Equal(c, vlib.UnHex(crd[i])) || !bytes.Equal(w.owner, ownerWire) || w.typ != sig.TypeCovered || w.class != class {
			return vlib.Res{Impl: "bad-op"}
		}
	}
	var data []byte
	var err error
	tt, slow := timed(func() { data, err = dnssec.VerifC14SignedData(sig, rrs) })
	ref, rok := refSignedData(sigFieldsOf(sig), sw, ws)
	or := "ok"
	switch {
	case err != nil && rok:
		or = "FAIL sig=signeddata/fails-on-wellformed-rrset"
	case err == nil && !rok:
		or = "FAIL sig=signeddata/builds-root-wildcard"
	case err == nil && !bytes.Equal(data, ref):
		or = "FAIL sig=signeddata/differs-from-rfc4034-canonical-form"
	}
	if slow {
		or = "FAIL sig=signeddata/super-linear"
	}
	tags := []string{tt}
	ls, _, _ := splitWireName(ownerWire)
	if len(ws) > 1 || len(ls) > int(sig.Labels) {
		tags = append(tags, "nt")
	}
	if len(ls) > int(sig.Labels) {
		tags = append(tags, "wildcard")
	}
	if err != nil {
		return vlib.Res{Impl: "err", Oracle: or, Tags: joinTags(tags...)}
	}
	return vlib.Res{Impl: vlib.Hex(data), Oracle: or, Tags: joinTags(tags...)}
}

// bind check k=<key> s=<sig> r=<namepres-hex>:<class>:<type>;...
func execBind(f []string) vlib.Res {
	k := parseKey(strings.TrimPrefix(f[2], "k="))
	sig := parseSig(strings.TrimPrefix(f[3], "s="))
	var set []dns.RR
	for _, t := range splitList(strings.TrimPrefix(f[4], "r="), ";") {
		p := strings.Split(t, ":")
		set = append(set, &dns.ANY{Hdr: dns.RR_Header{Name: unStr(p[0]), Class: uint16(vlib.Atoi(p[1])), Rrtype: uint16(vlib.Atoi(p[2])), Ttl: 60}})
	}
	err := dnssec.VerifC14Binding(k, sig, set)
	own := err == nil
	// the library's preflight, observed through RRSIG.Verify: ErrKey / ErrRRset are raised by the
	// preflight only (the generator uses Ed25519 or unknown algorithms here, whose key parsing cannot fail)
	libErr, libPanic := safeLibVerify(sig, k, set)
	libPre := !libPanic && !errors.Is(libErr, dns.ErrKey) && !errors.Is(libErr, dns.ErrRRset)
	judged := k.Algorithm != 5 && k.Algorithm != 7 && k.Algorithm != 8 && k.Algorithm != 10 && k.Algorithm != 13 && k.Algorithm != 14
	or, tag := "-", ""
	if judged {
		or = "ok"
		switch {
		case own && !libPre && !dns.IsFqdn(k.Hdr.Name) && !dns.IsFqdn(sig.SignerName):
			or = "FAIL sig=bind/non-fqdn-key-owner-accepted"
		case own && !libPre:
			or = "FAIL sig=bind/more-permissive-than-library lib=" + errEnum(libErr)
		case !own && libPre:
			why := ""
			if !dns.IsFqdn(sig.SignerName) {
				why = "name-not-fqdn"
			} else if len(set) > 0 {
				hn := dns.CanonicalName(set[0].Header().Name)
				sn := dns.CanonicalName(sig.SignerName)
				hw, ok1 := packName(hn)
				sw, ok2 := packName(sn)
				if strings.HasSuffix(hn, sn) && ok1 && ok2 && !labelSuffix(hw, sw) {
					why = "signer-label-boundary"
				}
			}
			if why == "" {
				or = "FAIL sig=bind/stricter-unexplained own=" + errEnum(err)
			} else {
				tag = "stricter:" + why
			}
		case own:
			tag = "bound"
		}
	}
	return vlib.Res{Impl: errEnum(err), Oracle: or, Tags: joinTags("nt", tag)}
}

// ---------------------------------------------------------------- oracle columns for the model

// sigCols computes, with the standard library only, what the model takes as
// oracles for one (key, signature, RRset): h = the digest of the RFC 4034
// signed data under the algorithm's hash (RSA algorithms), x = the verdict of
// the curve arithmetic for a key and signature of the RFC widths
// (k = the key octets are not a point on the curve, t/f = ecdsa.Verify /
// ed25519.Verify); "-" where the model must not ask.
func sigCols(k *dns.DNSKEY, sig *dns.RRSIG, ws []wireRR) (h, x string) {
	h, x = "-", "-"
	sn, ok := packName(sig.SignerName)
	if !ok || len(ws) == 0 {
		return
	}
	data, ok := refSignedData(sigFieldsOf(sig), sn, ws)
	if !ok {
		return
	}
	kb, kerr := stdDecode(k.PublicKey)
	sb, serr := stdDecode(sig.Signature)
	switch sig.Algorithm {
	case 5, 7, 8, 10:
		h = vlib.Hex(refHash(sig.Algorithm, data))
	case 13, 14:
		curve, size := elliptic.P256(), 32
		if sig.Algorithm == 14 {
			curve, size = elliptic.P384(), 48
		}
		if kerr != nil || serr != nil || len(kb) != 2*size || len(sb) != 2*size {
			return
		}
		pub, err := ecdsa.ParseUncompressedPublicKey(curve, append([]byte{4}, kb...))
		if err != nil {
			return h, "k"
		}
		x = vlib.B(ecdsa.Verify(pub, refHash(sig.Algorithm, data), new(big.Int).SetBytes(sb[:size]), new(big.Int).SetBytes(sb[size:])))
	case 15:
		if kerr != nil || serr != nil || len(kb) != ed25519.PublicKeySize || len(sb) != ed25519.SignatureSize {
			return
		}
		x = vlib.B(ed25519.Verify(ed25519.PublicKey(kb), data, sb))
	}
	return
}

func signerWireCol(sig *dns.RRSIG) string {
	sn, ok := packName(sig.SignerName)
	if !ok {
		return "-"
	}
	low, _, _ := lowerWireName(sn)
	return vlib.Hex(low)
}

func ownersCol(ws []wireRR) string {
	if len(ws) == 0 {
		return "-"
	}
	parts := make([]string, len(ws))
	for i, w := range ws {
		s, _, err := dns.UnpackDomainName(w.owner, 0)
		if err != nil {
			return "-"
		}
		parts[i] = hexStr(s)
	}
	return strings.Join(parts, ",")
}

func canonCol(ws []wireRR) string {
	if len(ws) == 0 {
		return "-"
	}
	parts := make([]string, len(ws))
	for i, w := range ws {
		c, _ := canonRdata(w.typ, w.rdata)
		parts[i] = vlib.Hex(c)
	}
	return strings.Join(parts, ",")
}

// fakeWork is a work governor with a fixed budget of public-key operations
// and per-RRset / per-signature candidate ceilings.
type fakeWork struct {
	budget, begins, releases int
	maxCand, maxSet          uint32
	refused                  bool
	afterRefusal             int
}

var errBudget = errors.New("verif: work budget exhausted")

func (w *fakeWork) CheckDNSKEYCandidate(used uint32) error {
	if used >= w.maxCand {
		w.refused = true
		return errBudget
	}
	return nil
}
func (w *fakeWork) CheckRRsetSignature(used uint32) error {
	if used >= w.maxSet {
		w.refused = true
		return errBudget
	}
	return nil
}
func (w *fakeWork) begin() (func(), error) {
	if w.refused {
		w.afterRefusal++
	}
	if w.begins >= w.budget {
		w.refused = true
		return nil, errBudget
	}
	w.begins++
	return func() { w.releases++ }, nil
}
func (w *fakeWork) BeginSignature() (func(), error) { return w.begin() }
func (w *fakeWork) BeginDSDigest() (func(), error)  { return w.begin() }

// checkSigWork runs VerifyRRSIGWithWork under an unlimited and under a tight governor: the governor
// may only turn a verdict into a work error, never into an acceptance; every slot taken is released;
// nothing is attempted after a refusal; the number of public-key operations is bounded by
// (signatures x keys).
func checkSigWork(zone string, keyMap map[uint16][]*dns.DNSKEY, msg *dns.Msg, plain bool, bound, salt int) string {
	free := &fakeWork{budget: 1 << 30, maxCand: 1 << 30, maxSet: 1 << 30}
	ok, err := dnssec.VerifyRRSIGWithWork(zone, keyMap, msg, free)
	if (ok && err == nil) != plain || dnssec.IsWorkError(err) {
		return "FAIL sig=vfy/VerifyRRSIGWithWork/unlimited-governor-changes-verdict"
	}
	if free.begins != free.releases {
		return "FAIL sig=vfy/VerifyRRSIGWithWork/slot-not-released"
	}
	if free.begins > bound {
		return fmt.Sprintf("FAIL sig=vfy/VerifyRRSIGWithWork/more-operations-than-candidates begins=%d bound=%d", free.begins, bound)
	}
	tight := &fakeWork{budget: salt % 4, maxCand: uint32(1 + salt%3), maxSet: uint32(1 + (salt/3)%3)}
	ok, err = dnssec.VerifyRRSIGWithWork(zone, keyMap, msg, tight)
	switch {
	case tight.begins != tight.releases:
		return "FAIL sig=vfy/VerifyRRSIGWithWork/slot-not-released"
	case tight.afterRefusal > 0:
		return "FAIL sig=vfy/VerifyRRSIGWithWork/work-after-refusal"
	case ok && err == nil && !plain:
		return "FAIL sig=vfy/VerifyRRSIGWithWork/budget-turns-rejection-into-acceptance"
	case dnssec.IsWorkError(err) && ok:
		return "FAIL sig=vfy/VerifyRRSIGWithWork/work-error-with-ok"
	case !dnssec.IsWorkError(err) && (ok && err == nil) != plain:
		return "FAIL sig=vfy/VerifyRRSIGWithWork/verdict-differs-without-work-error"
	case tight.refused && !dnssec.IsWorkError(err) && !(ok && err == nil):
		// a refusal must surface as a work error (terminal), not as an ordinary validation failure
		return "FAIL sig=vfy/VerifyRRSIGWithWork/refusal-reported-as-bogus"
	}
	return ""
}

// checkDSWork: the same contract for VerifyDSWithWork.
func checkDSWork(keyMap map[uint16][]*dns.DNSKEY, set []dns.RR, plain bool, bound, salt int) string {
	free := &fakeWork{budget: 1 << 30, maxCand: 1 << 30, maxSet: 1 << 30}
	_, err := dnssec.VerifyDSWithWork(keyMap, set, free)
	if (err == nil) != plain || dnssec.IsWorkError(err) {
		return "FAIL sig=dsv/VerifyDSWithWork/unlimited-governor-changes-verdict"
	}
	if free.begins != free.releases {
		return "FAIL sig=dsv/VerifyDSWithWork/slot-not-released"
	}
	if free.begins > bound {
		return fmt.Sprintf("FAIL sig=dsv/VerifyDSWithWork/more-digests-than-candidates begins=%d bound=%d", free.begins, bound)
	}
	tight := &fakeWork{budget: salt % 3, maxCand: uint32(1 + salt%2), maxSet: 1 << 30}
	_, err = dnssec.VerifyDSWithWork(keyMap, set, tight)
	switch {
	case tight.begins != tight.releases:
		return "FAIL sig=dsv/VerifyDSWithWork/slot-not-released"
	case tight.afterRefusal > 0:
		return "FAIL sig=dsv/VerifyDSWithWork/work-after-refusal"
	case err == nil && !plain:
		return "FAIL sig=dsv/VerifyDSWithWork/budget-turns-rejection-into-acceptance"
	case !dnssec.IsWorkError(err) && (err == nil) != plain:
		return "FAIL sig=dsv/VerifyDSWithWork/verdict-differs-without-work-error"
	case tight.refused && !dnssec.IsWorkError(err) && err != nil:
		return "FAIL sig=dsv/VerifyDSWithWork/refusal-reported-as-bogus"
	}
	return ""
}

// targetsCol: presentation target of each CNAME / DNAME record as the library unpacked it.
func targetsCol(rrs []dns.RR) string {
	if len(rrs) == 0 {
		return "-"
	}
	parts := make([]string, len(rrs))
	for i, rr := range rrs {
		switch x := rr.(type) {
		case *dns.CNAME:
			parts[i] = hexStr(x.Target)
		case *dns.DNAME:
			parts[i] = hexStr(x.Target)
		default:
			parts[i] = "-"
		}
	}
	return strings.Join(parts, ",")
}

// guarded runs f and turns a panic of the code under test into a named failure.
func guarded(entry string, f func()) (oracle string) {
	defer func() {
		if p := recover(); p != nil {
			oracle = "FAIL sig=" + entry + "/panic " + strings.ReplaceAll(fmt.Sprint(p), "\n", " ")
		}
	}()
	f()
	return ""
}

// vfy sig k=<key> s=<sig> rr=<wires> o=<owner pres per record> c=<canonical RDATA per record> sw=<signer wire> h=<digest> x=<curve verdict>
func execVerifySig(f []string) vlib.Res {
	if len(f) != 10 {
		return vlib.Res{Impl: "bad-op"}
	}
	k := parseKey(strings.TrimPrefix(f[2], "k="))
	sig := parseSig(strings.TrimPrefix(f[3], "s="))
	rrs, ws, ok := parseRRs(strings.TrimPrefix(f[4], "rr="))
	if !ok {
		return vlib.Res{Impl: "bad-op"}
	}
	h, x := sigCols(k, sig, ws)
	if f[5] != "o="+ownersCol(ws) || f[6] != "c="+canonCol(ws) || f[7] != "sw="+signerWireCol(sig) || f[8] != "h="+h || f[9] != "x="+x {
		return vlib.Res{Impl: "bad-op"}
	}
	var own, cv error
	var tt, tt2 string
	var slow, slow2 bool
	if o := guarded("vfy/verifySignature", func() {
		tt, slow = timed(func() { own = dnssec.VerifC14VerifySignature(k, sig, rrs) })
		tt2, slow2 = timed(func() { cv = dnssec.VerifC14CryptoVerify(k, sig, rrs) })
	}); o != "" {
		return vlib.Res{Impl: "panic", Oracle: o, Tags: "nt,panic"}
	}
	or, tag := judgeVerdict("vfy/cryptoVerify", cv == nil, k, sig, rrs, ws)
	ownSup := dnssec.VerifC14VerifySignatureSupported(k.Algorithm)
	if ownSup {
		if (own == nil) != (cv == nil) {
			or = "FAIL sig=vfy/dispatch/own-verifier-and-cryptoVerify-disagree"
		}
	} else if own == nil {
		or = "FAIL sig=vfy/verifySignature/accepts-unimplemented-algorithm"
	}
	if slow || slow2 {
		or = "FAIL sig=vfy/super-linear"
	}
	tt = worse(tt, tt2)
	cvs := errEnum(cv)
	if !ownSup { // the library's own error text is not modelled, only that it refuses
		cvs = "lib:" + map[bool]string{true: "ok", false: "reject"}[cv == nil]
	}
	rrTag := ""
	if len(ws) > 0 {
		rrTag = fmt.Sprintf("rr%d", ws[0].typ)
	}
	return vlib.Res{Impl: "own=" + errEnum(own) + " cv=" + cvs, Oracle: or, Tags: joinTags("nt", tag, tt, fmt.Sprintf("alg%d", sig.Algorithm), "own:"+errEnum(own), rrTag)}
}

// collectedIdx: the records a validator has to see signed (RFC 4035 §5.3): answer records, and
// authority records other than NS that lie inside the zone; an answer record outside the zone is fatal.
func collectedIdx(ws []wireRR, nAns int, zw []byte) (keep []int, fatal bool) {
	for i, w := range ws {
		inZone := labelSuffix(w.owner, zw)
		auth := i >= nAns
		switch {
		case refSynthesised(ws, i, zw): // RFC 6672 §5.3.1: the DNAME's signature covers it
		case auth && w.typ == dns.TypeNS:
		case !inZone && auth:
		case !inZone:
			fatal = true
		default:
			keep = append(keep, i)
		}
	}
	return
}

// refSynthesised is RFC 6672 §3.3 on wire labels: record i is a CNAME, and some DNAME of the
// message inside the zone (not at the root) owns a proper ancestor D of its owner O with
// target(CNAME) = (O minus D) + target(DNAME), compared case-insensitively.
func refSynthesised(ws []wireRR, i int, zw []byte) bool {
	if ws[i].typ != dns.TypeCNAME {
		return false
	}
	ol, _, ok1 := splitWireName(ws[i].owner)
	tl, n, ok2 := splitWireName(ws[i].rdata)
	if !ok1 || !ok2 || n != len(ws[i].rdata) {
		return false
	}
	for _, d := range ws {
		if d.typ != dns.TypeDNAME || !labelSuffix(d.owner, zw) {
			continue
		}
		dl, _, ok3 := splitWireName(d.owner)
		dtl, m, ok4 := splitWireName(d.rdata)
		if !ok3 || !ok4 || m != len(d.rdata) || len(dl) == 0 || len(ol) <= len(dl) || !labelSuffix(ws[i].owner, d.owner) {
			continue
		}
		want := append(append([][]byte{}, ol[:len(ol)-len(dl)]...), dtl...)
		if len(want) != len(tl) {
			continue
		}
		same := true
		for k := range want {
			same = same && bytes.Equal(lowerBytes(want[k]), lowerBytes(tl[k]))
		}
		if same {
			return true
		}
	}
	return false
}

// denialExpanded: an NSEC / NSEC3 RRset whose RRSIG counts fewer labels than the owner has (a leading
// "*" label not counted): RFC 4035 §2.3 / RFC 4592 §4.6, a denial record is never synthesised from a
// wildcard, so VerifyRRSIG refuses it although the signature verifies (documented narrowing).
func denialExpanded(sig *dns.RRSIG, ws []wireRR) bool {
	if len(ws) == 0 || (sig.TypeCovered != dns.TypeNSEC && sig.TypeCovered != dns.TypeNSEC3) {
		return false
	}
	ls, _, ok := splitWireName(ws[0].owner)
	if !ok {
		return false
	}
	n := len(ls)
	if n > 0 && bytes.Equal(ls[0], []byte("*")) {
		n--
	}
	return int(sig.Labels) < n
}

// rootTargetSynthesis: some CNAME of the message is the RFC 6672 synthesis of an in-zone DNAME whose target is the root.
func rootTargetSynthesis(ws []wireRR, zw []byte) bool {
	for i := range ws {
		if !refSynthesised(ws, i, zw) {
			continue
		}
		var nonRoot []wireRR
		for _, w := range ws {
			if !(w.typ == dns.TypeDNAME && len(w.rdata) == 1) {
				nonRoot = append(nonRoot, w)
			}
		}
		for j := range nonRoot {
			if bytes.Equal(nonRoot[j].owner, ws[i].owner) && nonRoot[j].typ == ws[i].typ && bytes.Equal(nonRoot[j].rdata, ws[i].rdata) &&
				!refSynthesised(nonRoot, j, zw) {
				return true
			}
		}
	}
	return false
}

type rrGroup struct {
	name  string
	typ   uint16
	class uint16
	idx   []int
}

// groupRRs is RFC 2181 §5 grouping: owner (case folded), type, class.
func groupRRs(ws []wireRR) []rrGroup {
	var gs []rrGroup
	for i, w := range ws {
		low, _, _ := lowerWireName(w.owner)
		found := false
		for j := range gs {
			if gs[j].name == string(low) && gs[j].typ == w.typ && gs[j].class == w.class {
				gs[j].idx = append(gs[j].idx, i)
				found = true
			}
		}
		if !found {
			gs = append(gs, rrGroup{name: string(low), typ: w.typ, class: w.class, idx: []int{i}})
		}
	}
	return gs
}

func groupOfSig(gs []rrGroup, sig *dns.RRSIG) int {
	sn, ok := packName(sig.Hdr.Name)
	if !ok {
		return -1
	}
	low, _, _ := lowerWireName(sn)
	for j, g := range gs {
		if g.name == string(low) && g.typ == sig.TypeCovered && g.class == sig.Hdr.Class {
			return j
		}
	}
	return -1
}

func pick[T any](xs []T, idx []int) []T {
	out := make([]T, len(idx))
	for i, j := range idx {
		out[i] = xs[j]
	}
	return out
}

// msgCols: per signature the signer wire, the validity verdict at `now`, and per key the (h, x) columns
// relative to the RRset the signature is filed under.
func msgCols(zone string, nAns int, keys []*dns.DNSKEY, sigs []*dns.RRSIG, all []wireRR, now int64) (sw, per, hx string) {
	if len(sigs) == 0 {
		return "-", "-", "-"
	}
	ws := all
	if zw, ok := packName(zone); ok {
		keep, _ := collectedIdx(all, nAns, zw)
		ws = pick(all, keep)
	}
	gs := groupRRs(ws)
	var sws, pers, hxs []string
	for _, s := range sigs {
		sws = append(sws, signerWireCol(s))
		pers = append(pers, vlib.B(int64(s.Inception) <= now && now <= int64(s.Expiration)))
		var cols []string
		g := groupOfSig(gs, s)
		for _, k := range keys {
			h, x := "-", "-"
			if g >= 0 {
				h, x = sigCols(k, s, pick(ws, gs[g].idx))
			}
			cols = append(cols, h+":"+x)
		}
		if len(cols) == 0 {
			cols = []string{"-"}
		}
		hxs = append(hxs, strings.Join(cols, ","))
	}
	return strings.Join(sws, ";"), strings.Join(pers, ";"), strings.Join(hxs, ";")
}

// vfy msg z=<zonepres-hex> k=<k;k> s=<s;s> rr=<wires> a=<records in the answer section> o= c= sw= p= hx=
func execVerifyMsg(f []string) vlib.Res {
	if len(f) != 14 {
		return vlib.Res{Impl: "bad-op"}
	}
	zone := unStr(strings.TrimPrefix(f[2], "z="))
	var keys []*dns.DNSKEY
	keyMap := map[uint16][]*dns.DNSKEY{}
	for _, t := range splitList(strings.TrimPrefix(f[3], "k="), ";") {
		k := parseKey(t)
		keys = append(keys, k)
		tag := dnssec.KeyTag(k)
		keyMap[tag] = append(keyMap[tag], k)
	}
	var sigs []*dns.RRSIG
	for _, t := range splitList(strings.TrimPrefix(f[4], "s="), ";") {
		sigs = append(sigs, parseSig(t))
	}
	rrs, ws, ok := parseRRs(strings.TrimPrefix(f[5], "rr="))
	if !ok {
		return vlib.Res{Impl: "bad-op"}
	}
	nAns := vlib.Atoi(strings.TrimPrefix(f[6], "a="))
	if nAns > len(rrs) {
		return vlib.Res{Impl: "bad-op"}
	}
	now := time.Now().Unix()
	sw, per, hx := msgCols(zone, nAns, keys, sigs, ws, now)
	if f[7] != "o="+ownersCol(ws) || f[8] != "c="+canonCol(ws) || f[9] != "sw="+sw || f[10] != "p="+per || f[11] != "hx="+hx ||
		f[12] != "tg="+targetsCol(rrs) {
		return vlib.Res{Impl: "bad-op"}
	}
	msg := new(dns.Msg)
	msg.Answer = append(msg.Answer, rrs[:nAns]...)
	msg.Ns = append(msg.Ns, rrs[nAns:]...)
	for _, s := range sigs {
		msg.Answer = append(msg.Answer, s)
	}
	var good bool
	var err error
	var tt string
	var slow bool
	if o := guarded("vfy/VerifyRRSIG", func() {
		tt, slow = timed(func() { good, err = dnssec.VerifyRRSIG(zone, keyMap, msg) })
	}); o != "" {
		return vlib.Res{Impl: "panic", Oracle: o, Tags: "nt,panic"}
	}
	got := good && err == nil
	workOracle := ""
	if o := guarded("vfy/VerifyRRSIGWithWork", func() { workOracle = checkSigWork(zone, keyMap, msg, got, len(sigs)*max(1, len(keys)), len(f[5])) }); o != "" {
		workOracle = o
	}

	// reference, written from RFC 4035 §5.3: every RRset of the zone that has to be signed (answer
	// records; authority records other than NS) is covered by a signature that is inside its validity
	// period and verifies under an offered key; a record outside the zone in the answer section is fatal
	zw, zok := packName(zone)
	want, wantStrict, denialRefused := zok && len(keys) > 0, false, false
	var need [][]int
	if want {
		keep, fatal := collectedIdx(ws, nAns, zw)
		if fatal {
			want = false
		}
		for _, g := range groupRRs(pick(ws, keep)) {
			idx := make([]int, len(g.idx))
			for a, b := range g.idx {
				idx[a] = keep[b]
			}
			need = append(need, idx)
		}
	}
	for _, idx := range need {
		if !want {
			break
		}
		set, wset := pick(rrs, idx), pick(ws, idx)
		plain, strict, denialOnly := false, false, false
		for _, s := range sigs {
			if !(int64(s.Inception) <= now && now <= int64(s.Expiration)) {
				continue
			}
			so, ok := packName(s.Hdr.Name)
			if !ok || !wireEqualFold(so, wset[0].owner) || s.TypeCovered != wset[0].typ || s.Hdr.Class != wset[0].class || !labelSuffix(so, zw) {
				continue
			}
			for _, k := range keys {
				o, t := judgeVerdict("x", true, k, s, set, wset)
				if o == "ok" && (t == "agree-accept" || t == "wide-exponent-accept") {
					if denialExpanded(s, wset) {
						denialOnly = true
					}
					if len(strictReasons(k, s, wset)) > 0 || denialExpanded(s, wset) {
						strict = true
					} else {
						plain = true
					}
				}
			}
		}
		if !plain {
			want = false
			wantStrict = wantStrict || strict
			denialRefused = denialRefused || denialOnly
		}
	}
	or, tag := "ok", "agree-reject"
	switch {
	case got && !want && denialRefused:
		// RFC 4035 §2.3 / RFC 4592 §4.6: an RRset of the message is covered only by a signature that
		// verifies as the wildcard's NSEC / NSEC3 renamed to an expansion
		or = "FAIL sig=vfy/VerifyRRSIG/wildcard-expanded-denial-record-accepted"
		tag = "permissive"
	case got && !want && !wantStrict:
		or = "FAIL sig=vfy/VerifyRRSIG/accepts-unverifiable-rrset"
		tag = "permissive"
	case !got && want && rootTargetSynthesis(ws, zw):
		// candidate finding (notes/C14.md): owner[:prev] + "." is spelled "x..", so the synthesis of a
		// DNAME whose target is the root is not recognised and its CNAME is asked for a signature
		tag = "stricter:dname-root-target"
	case !got && want:
		or = "FAIL sig=vfy/VerifyRRSIG/rejects-verifiable-rrset err=" + errEnum(err)
		tag = "stricter"
	case got:
		tag = "agree-accept"
	case wantStrict:
		tag = "stricter:documented"
	}
	if workOracle != "" && or == "ok" {
		or = workOracle
	}
	if slow {
		or = "FAIL sig=vfy/VerifyRRSIG/super-linear"
	}
	// the same message under the governor named on the line: result and number of operations begun
	gp := strings.Split(strings.TrimPrefix(f[13], "g="), ",")
	gov := &fakeWork{maxCand: uint32(vlib.Atoi(gp[0])), maxSet: uint32(vlib.Atoi(gp[1])), budget: vlib.Atoi(gp[2])}
	wres := "fail"
	if o := guarded("vfy/VerifyRRSIGWithWork", func() {
		wok, werr := dnssec.VerifyRRSIGWithWork(zone, keyMap, msg, gov)
		switch {
		case dnssec.IsWorkError(werr):
			wres = "work"
		case wok && werr == nil:
			wres = "ok"
		}
	}); o != "" {
		return vlib.Res{Impl: "panic", Oracle: o, Tags: "nt,panic"}
	}
	return vlib.Res{Impl: fmt.Sprintf("ok=%s err=%s w=%s:%d", vlib.B(got), errEnum(err), wres, gov.begins), Oracle: or,
		Tags: joinTags("nt", tag, tt, "err:"+errEnum(err), fmt.Sprintf("sets%d", min(len(need), 3)), "gov:"+wres)}
}

// ---------------------------------------------------------------- facts

func facts() map[string]any {
	chunk, maxMat, limit, minBits, maxBits, maxExp, maxStd := dnssec.VerifC14Limits()
	var dsTypes, dsSizes, dsSupported, algs, ownAlgs, prefixAlgs []int
	for t := 0; t < 256; t++ {
		if size, ok := dnssec.VerifC14DSDigestHash(uint8(t)); ok {
			dsTypes = append(dsTypes, t)
			dsSizes = append(dsSizes, size)
		}
		if dnssec.IsSupportedDSDigest(uint8(t)) {
			dsSupported = append(dsSupported, t)
		}
		if dnssec.IsSupportedDNSKEYAlgorithm(uint8(t)) {
			algs = append(algs, t)
		}
		if dnssec.VerifC14VerifySignatureSupported(uint8(t)) {
			ownAlgs = append(ownAlgs, t)
		}
		if _, ok := dnssec.VerifC14RSAPrefix(uint8(t)); ok {
			prefixAlgs = append(prefixAlgs, t)
		}
	}
	ints := func(b []byte) []int {
		out := make([]int, len(b))
		for i, x := range b {
			out[i] = int(x)
		}
		return out
	}
	var prefixes [][]int
	for _, a := range prefixAlgs {
		p, _ := dnssec.VerifC14RSAPrefix(uint8(a))
		prefixes = append(prefixes, ints(p))
	}
	foldAll, foldAny, nameTypes := rdataFoldTable()
	none := func(x []int) []int {
		if x == nil {
			return []int{}
		}
		return x
	}
	return map[string]any{
		"key_tag_chunk":           chunk,
		"max_ds_key_material":     maxMat,
		"oversized_limit":         limit,
		"min_rsa_modulus_bits":    minBits,
		"max_rsa_modulus_bits":    maxBits,
		"max_rsa_exponent_bits":   maxExp,
		"max_stdlib_exponent":     maxStd,
		"ds_hash_types":           none(dsTypes),
		"ds_hash_sizes":           none(dsSizes),
		"ds_supported_types":      none(dsSupported),
		"dnskey_algorithms":       none(algs),
		"own_verifier_algorithms": none(ownAlgs),
		"rsa_prefix_algorithms":   none(prefixAlgs),
		"rsa_prefixes":            prefixes,
		"rdata_fold_all":          none(foldAll),
		"rdata_fold_any":          none(foldAny),
		"rdata_name_types":        none(nameTypes),
	}
}

// rdataFoldTable runs canonicalizeRdataNames over every record type the
// library knows: each domain-name field of the RDATA (struct tag
// "domain-name"/"cdomain-name", the header excluded) is set to a mixed-case
// name; a type is in foldAll when every such field came back lowercased, in
// foldAny when at least one did, in nameTypes when it has such a field.
func rdataFoldTable() (foldAll, foldAny, nameTypes []int) {
	const probe = "UPPER.Example."
	var types []int
	for t := range dns.TypeToRR {
		types = append(types, int(t))
	}
	sort.Ints(types)
	for _, t := range types {
		rr := dns.TypeToRR[uint16(t)]()
		var fields []reflect.Value
		var walk func(v reflect.Value)
		walk = func(v reflect.Value) {
			for i := 0; i < v.NumField(); i++ {
				f, sf := v.Field(i), v.Type().Field(i)
				if sf.Name == "Hdr" {
					continue
				}
				if sf.Anonymous && f.Kind() == reflect.Struct {
					walk(f)
					continue
				}
				if !strings.Contains(sf.Tag.Get("dns"), "domain-name") {
					continue
				}
				switch f.Kind() {
				case reflect.String:
					f.SetString(probe)
					fields = append(fields, f)
				case reflect.Slice:
					if f.Type().Elem().Kind() == reflect.String {
						f.Set(reflect.ValueOf([]string{probe}))
						fields = append(fields, f.Index(0))
					}
				}
			}
		}
		walk(reflect.ValueOf(rr).Elem())
		if len(fields) == 0 {
			continue
		}
		nameTypes = append(nameTypes, t)
		dnssec.VerifC14CanonicalizeRdataNames(rr)
		folded := 0
		for _, f := range fields {
			if f.String() == strings.ToLower(probe) {
				folded++
			}
		}
		if folded == len(fields) {
			foldAll = append(foldAll, t)
		}
		if folded > 0 {
			foldAny = append(foldAny, t)
		}
	}
	return
}

func main() { vlib.Main(&vlib.Driver{Facts: facts, Exec: exec, Gen: gen}) }
