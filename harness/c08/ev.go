//go:build verif

// Refinement ops of the C08 driver: the model's descent event system (Model/Lease.lean
// `step`) against the REAL Resolver.resolve / processDelegation /
// resolveWithCachedNameservers, driven one step at a time through
// resolver.VerifC08Descent (see harness/export/middleware/resolver/c08_descent_verif.go).
//
//	ev new | ev tick <s> | ev start <q> | ev sub <q> | ev nsl <q> | ev chase <q> | ev ref <zone> <ttl,ttl…>
//	ev fin <t|f> | ev purge <zone> | ev ans
//
// Names are dotted numeric labels, leaf first (`7.3.1` = n7.n3.n1.); times are printed
// as whole seconds of virtual time since `ev new`.
package main

import (
	"fmt"
	"strings"
	"time"

	"github.com/semihalev/sdns/config"
	"github.com/semihalev/sdns/internal/verif/vlib"
	"github.com/semihalev/sdns/middleware"
	"github.com/semihalev/sdns/middleware/cache"
	"github.com/semihalev/sdns/middleware/resolver"
)

var (
	evRes   *resolver.Resolver
	evD     *resolver.VerifC08Descent
	evT0    time.Time
	evShift time.Duration
	evOps   []string
)

func evName(s string) string {
	if s == "." || s == "" {
		return "."
	}
	var b strings.Builder
	for _, l := range strings.Split(strings.Trim(s, "."), ".") {
		b.WriteString("n" + l + ".")
	}
	return b.String()
}

func evShow(zone string) string {
	if zone == "." || zone == "" {
		return "."
	}
	var p []string
	for _, l := range strings.Split(strings.Trim(zone, "."), ".") {
		p = append(p, strings.TrimPrefix(l, "n"))
	}
	return strings.Join(p, ".")
}

func evAbs(t time.Time) string {
	if t.IsZero() {
		return "z"
	}
	d := t.Sub(evT0) + evShift
	s := d / time.Second
	if d < 0 && d%time.Second != 0 {
		s--
	}
	return fmt.Sprint(int64(s))
}

func evState(st resolver.VerifC08State) string {
	return fmt.Sprintf("z=%s cut=%s meta=%s", evShow(st.Zone), evAbs(st.Cut), evAbs(st.Meta))
}

func evRun(f []string) string {
	switch f[1] {
	case "new":
		if evRes == nil {
			cfg := new(config.Config)
			cfg.RootServers = []string{"192.0.2.250:53"}
			cfg.Maxdepth = 30
			cfg.Timeout.Duration = 50 * time.Millisecond
			cfg.QueryTimeout.Duration = time.Second
			cfg.DNSSEC = "off"
			cfg.Directory = "/verif/build/tmp-l3"
			evRes = resolver.NewResolver(cfg)
		}
		evD = resolver.VerifC08NewDescent(evRes)
		evT0, evShift = time.Now(), 0
		return "ok"
	}
	if evD == nil {
		return "idle"
	}
	switch f[1] {
	case "tick":
		d := time.Duration(vlib.AtoI64(f[2])) * time.Second
		evD.Shift(d)
		evShift += d
		return "ok"
	case "start", "sub", "nsl", "chase":
		return evState(evD.Start(f[1], evName(f[2])))
	case "ref":
		var ttls []uint32
		for _, t := range strings.Split(f[3], ",") {
			ttls = append(ttls, uint32(vlib.AtoU64(t)))
		}
		st, ok := evD.Referral(evName(f[2]), ttls)
		if !ok {
			return "idle"
		}
		if st.Rejected {
			return "rejected " + evState(st)
		}
		lease := "none"
		if l := evD.Lease(evName(f[2])); !l.IsZero() {
			lease = evAbs(l)
		}
		return evState(st) + " lease=" + lease
	case "fin":
		st, ok := evD.Finish(f[2] == "t", func(p, c *middleware.ResponseMeta) { cache.VerifC08Inherit(p, c) })
		if !ok {
			return "idle"
		}
		return evState(st)
	case "purge":
		evD.Purge(evName(f[2]))
		return "ok"
	case "ans":
		st, ok := evD.Current()
		if !ok {
			return "idle"
		}
		return "cut=" + evAbs(st.Meta)
	}
	return "bad-op"
}

// execEv runs one ev op. The virtual clock is real time plus shifts, so a case is
// replayed from its `ev new` when too much real time has passed since it started.
func execEv(f []string) vlib.Res {
	op := strings.Join(f, " ")
	if f[1] == "new" {
		evOps = nil
	}
	evOps = append(evOps, op)
	out := evRun(f)
	for try := 0; try < 3 && time.Since(evT0) > 300*time.Millisecond && len(evOps) > 1; try++ {
		for _, o := range evOps {
			out = evRun(strings.Fields(o))
		}
	}
	// oracle (property text), on what the real step left behind: the cut handed on and the
	// cut reported to the answer cache never exceed the lease just granted / the cached lease
	or := "ok"
	if f[1] == "ref" && len(f) > 3 && strings.HasPrefix(out, "z=") {
		var z, cut, meta, lease string
		fmt.Sscanf(strings.NewReplacer("z=", "", "cut=", "", "meta=", "", "lease=", "").Replace(out), "%s %s %s %s", &z, &cut, &meta, &lease)
		minTTL := int64(-1)
		for _, t := range strings.Split(f[3], ",") {
			if v := vlib.AtoI64(t); minTTL < 0 || v < minTTL {
				minTTL = v
			}
		}
		now := int64(evShift / time.Second)
		limit := now + minTTL
		if minTTL > 43200 {
			limit = now + 43200
		}
		if lease != "none" && vlib.AtoI64(lease) > now && vlib.AtoI64(lease) < limit {
			limit = vlib.AtoI64(lease) // a cached delegation is used: its lease bounds everything
		}
		for _, v := range []string{cut, meta} {
			if v == "z" || vlib.AtoI64(v) > limit {
				or = fmt.Sprintf("FAIL sig=descent/cut-later-than-lease-in-use limit=%d got=%s", limit, v)
			}
		}
		if lease != "none" && vlib.AtoI64(lease) > now+minTTL && z == f[2] {
			// only a fresh insert is bounded by THIS referral; a live cached entry may be older — accept ≤ 12 h
			if vlib.AtoI64(lease) > now+43200 {
				or = "FAIL sig=descent/lease-exceeds-12h"
			}
		}
	}
	if (f[1] == "start" || f[1] == "sub" || f[1] == "nsl" || f[1] == "chase") && strings.HasPrefix(out, "z=") && !strings.HasPrefix(out, "z=. ") {
		// seeded from a cached delegation: its deadline bounds the descent and is reported at once
		if strings.Contains(out, "cut=z") || strings.Contains(out, "meta=z") {
			or = "FAIL sig=descent/seed-not-bounded-by-cached-delegation"
		}
	}
	return vlib.Res{Impl: out, Oracle: or, Tags: "nt,ev"}
}

func genEvCase(r *vlib.R, emit func(string)) int {
	n := 0
	e := func(s string) { emit(s); n++ }
	lab := func() string { return fmt.Sprint(1 + r.Intn(3)) }
	mk := func(depth int) []string { // root-first labels
		var l []string
		for i := 0; i < depth; i++ {
			l = append(l, lab())
		}
		return l
	}
	show := func(l []string) string { // leaf first
		var p []string
		for i := len(l) - 1; i >= 0; i-- {
			p = append(p, l[i])
		}
		return strings.Join(p, ".")
	}
	ttls := func() string {
		k := 1 + r.Intn(3)
		var p []string
		for i := 0; i < k; i++ {
			p = append(p, fmt.Sprint(vlib.Pick(r, []int{0, 1, 2, 5, 30, 300, 3600, 43199, 43200, 43201, 172800})))
		}
		return strings.Join(p, ",")
	}
	tick := func() {
		if r.Chance(1, 2) {
			e(fmt.Sprintf("ev tick %d", vlib.Pick(r, []int{0, 1, 2, 4, 5, 6, 29, 30, 31, 299, 300, 301, 3600, 43199, 43200, 43201})))
		}
	}
	e("ev new")
	q := mk(3 + r.Intn(2))
	descend := func(q []string) {
		level := 0
		for level < len(q)-1 && r.Chance(5, 6) {
			step := 1
			if r.Chance(1, 6) && level+2 < len(q) {
				step = 2 // the parent delegates two labels down
			}
			level += step
			switch r.Intn(12) {
			case 0: // self / upward referral
				up := level - step
				if up == 0 {
					e("ev ref . " + ttls())
				} else {
					e("ev ref " + show(q[:up]) + " " + ttls())
				}
				level -= step
			case 1: // sideways / off-path
				o := append([]string(nil), q[:level]...)
				o[level-1] = "9"
				e("ev ref " + show(o) + " " + ttls())
				level -= step
			default:
				e("ev ref " + show(q[:level]) + " " + ttls())
			}
			tick()
		}
		if r.Chance(2, 3) {
			e("ev ans")
		}
	}
	for round := 0; round < 2+r.Intn(2); round++ {
		if round > 0 && r.Chance(1, 3) {
			q = append(append([]string(nil), q[:1+r.Intn(len(q)-1)]...), lab(), lab())
		}
		e("ev start " + show(q))
		descend(q)
		if r.Chance(1, 2) {
			kind := vlib.Pick(r, []string{"sub", "nsl", "chase"})
			q2 := q
			if r.Chance(1, 2) {
				q2 = mk(3)
			}
			e("ev " + kind + " " + show(q2))
			descend(q2)
			e("ev fin " + vlib.B(r.Bool()))
			e("ev ans")
		}
		if r.Chance(1, 4) {
			e("ev purge " + show(q[:1+r.Intn(len(q)-1)]))
		}
		tick()
	}
	return n
}
