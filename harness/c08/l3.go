//go:build verif

// System-level part of the C08 driver: scripted parent/child(/grandchild)
// hierarchies on loopback, the real edns → cache → resolver pipeline, a
// virtual clock, and an oracle written from the property text.
//
//	l3 new k=v …                       build world + pipeline (see parseSpec)
//	l3 q <name> <type> [do] [cd] [ecs] [wire]   client query (ecs: carries a client-subnet option; wire: arrives as raw bytes,
//	                                   undecoded, like on the UDP listener); the reply is judged
//	l3 adv <ms>                        advance the virtual clock
//	l3 end <zone> <delta_ms>           advance to the oracle's lease end of <zone> (+delta)
//	l3 withdraw <zone>                 the parent removes the delegation (old servers stay alive)
//	l3 repoint <zone> <same|new> <nsttl> <dsttl>   the parent re-points the zone to new servers with new data
//	l3 behave <zone> <honest|nsauth|nschange|sfail>       what the (current) child says about itself
//	l3 qcross <zone> <ttl> [cd]        a second question crosses the first one's referral for <zone>; the parent raises the TTL
//	l3 qrace <zone> [cd]               sr.<zone> is asked while the zone's lease runs out (self-referral race)
//	l3 lostprobe lease= ttl=           self-contained case: the minimised probe is lost, the un-minimised retry meets a long-TTL referral
//	l3 slowval delay= ttl=             self-contained real-time case (slow validation of a referral: the lease is anchored at its observation)
//	l3 inflight delay=                 self-contained real-time case (a lookup in flight at the old servers vs a resolution after the lease end)
//	l3 slowref sec= delay= act=        self-contained real-time case (slow child referral, 1 s ancestor lease)
//	l3 audit                           only run the state audit
//
// Every op ends with the state audit (stored leases against what the parents
// granted).  The Lean side prints `unmodelled` for all of them.
package main

import (
	"context"
	"fmt"
	"os"
	"net"
	"sort"
	"strings"
	"sync"
	"time"

	"github.com/miekg/dns"
	"github.com/semihalev/sdns/config"
	"github.com/semihalev/sdns/internal/authority"
	icache "github.com/semihalev/sdns/internal/cache"
	"github.com/semihalev/sdns/internal/mock"
	"github.com/semihalev/sdns/internal/verif/l3"
	"github.com/semihalev/sdns/internal/verif/vlib"
	"github.com/semihalev/sdns/middleware"
	"github.com/semihalev/sdns/middleware/cache"
	"github.com/semihalev/sdns/middleware/resolver"
)

// slack absorbs real-time scheduling noise. Every judgement is one-directional
// (a lease may be shorter / data may disappear earlier than the bound), so
// noise can only hide a violation, never raise one.
const slack = 2500 * time.Millisecond

const ceiling = 12 * time.Hour

const hugeTTL = 604800

// inst is one incarnation of a zone: its data, keys and server. Re-pointing a
// zone creates a new incarnation; the old one stays alive on its old server.
type inst struct {
	name   string
	idx    int // position in the chain (1 = directly below the root)
	gen    int
	z      *l3.Zone
	srv    *l3.Server
	parent *inst // incarnation whose servers hand out this delegation (nil: the root)
	kids   map[string]*inst

	nsTTL, dsTTL uint32
	signed       bool
	nsHost       string

	withdrawn   bool          // the parent no longer publishes THIS incarnation's delegation
	withdrawnAt time.Duration // virtual

	// Oracle bounds, per lineage: [0] resolution with validation (CD=0 bucket:
	// the referral's DS set is retained, so its TTL counts), [1] CD=1 bucket
	// (no DS set is ever retained there; the lease is the NS TTL).
	hasBound [2]bool
	bound    [2]time.Duration // latest permissible end of any lease granted for this incarnation (virtual, absolute)
	ownEnd   [2]time.Duration // observation + min(NS, DS, 12 h) of the referral that set `bound`
	ubound   [2]time.Duration // the same bound computed WITHOUT the 12 h ceiling (diagnosis only)
	refs     int

	mu        sync.Mutex
	mode      string
	slowBelow string
	slowType  uint16 // 0: any query type
	dropMin   bool   // drop the minimised probes for this zone's children

	refAt    time.Time     // real time this incarnation's referral was last handed out (server side)
	refLease time.Duration // min(NS, DS) TTL of that referral, 12 h at most
	slowFor   time.Duration
}

type refRec struct {
	from, to *inst
	nsTTL    uint32
	dsTTL    uint32
	hasDS    bool
}

type scenario struct {
	w       *l3.World
	p       *l3.Pipe
	t0      time.Time
	root    *inst
	insts   []*inst
	byIP    map[string]*inst
	names   []string // chain, shallow → deep
	dnssec  bool
	oob     bool
	host    *inst
	attl    uint32
	negttl  uint32
	refMu   sync.Mutex
	pending []refRec

	prevAbs  map[uint64]time.Duration
	prevRefs map[uint64]int
	queries  int
	prefetch int
	ecsID    int
	unquiet  int

	// race: while set, the incarnation's server moves the virtual clock past its own
	// lease end just before it answers an `sr.` query with a self-referral — the
	// delegation expires while its servers are still being asked (l3 qrace).
	race    *inst
	raceLin int

	alias *inst
	twoNS bool // the deepest delegation has a glued and a glue-less name server
	cross *crossSpec
	soft string // known-finding verdict of the last audit (reported only if nothing else failed)
}

// grantOver12h: some incarnation of the zone is delegated with min(NS, DS) TTL ≥ 12 h,
// i.e. the 12 h ceiling (not the TTLs) decided its stored lease.
func (s *scenario) grantOver12h(zone string, lin int) bool {
	for _, i := range s.named(zone) {
		l := i.nsTTL
		if i.signed && lin == 0 && i.dsTTL < l {
			l = i.dsTTL
		}
		if time.Duration(l)*time.Second >= ceiling {
			return true
		}
	}
	return false
}

var cur *scenario

func closeScen() {
	if cur == nil {
		return
	}
	if cur.p != nil {
		if cur.p.Cache != nil {
			cur.p.Cache.Stop()
		}
		cur.p.Close()
	}
	if cur.w != nil {
		cur.w.Close()
	}
	cur = nil
}

func lcn(s string) string { return strings.ToLower(dns.Fqdn(s)) }

func (s *scenario) vnow() time.Duration { return s.p.Offset + time.Since(s.t0) }

func (s *scenario) current(name string) *inst {
	name = lcn(name)
	var best *inst
	for _, i := range s.insts {
		if i.name == name && (best == nil || i.gen > best.gen) {
			best = i
		}
	}
	return best
}

func (s *scenario) named(name string) []*inst {
	var out []*inst
	for _, i := range s.insts {
		if i.name == lcn(name) {
			out = append(out, i)
		}
	}
	return out
}

func kv(f []string) map[string]string {
	m := map[string]string{}
	for _, t := range f {
		if k, v, ok := strings.Cut(t, "="); ok {
			m[k] = v
		}
	}
	return m
}

func u32list(s string) []uint32 {
	var out []uint32
	for _, f := range strings.Split(s, ",") {
		if f != "" {
			out = append(out, uint32(vlib.AtoU64(f)))
		}
	}
	return out
}

var chainNames = []string{"test.", "vic.test.", "deep.vic.test."}

// marker A records: 10.<idx>.<gen>.<n> identifies the incarnation that published them
func marker(idx, gen, n int) string { return fmt.Sprintf("10.%d.%d.%d", idx, gen, n) }

func (s *scenario) addInst(idx, gen int, parent *inst, nsTTL, dsTTL uint32, signed bool, hostMode string) *inst {
	var name string
	switch idx {
	case 9:
		name = "host.test."
	case 8:
		name = "al." // the alias zone: long lease, never withdrawn, CNAMEs into every chain zone
	default:
		name = chainNames[idx-1]
	}
	i := &inst{name: name, idx: idx, gen: gen, parent: parent, kids: map[string]*inst{}, nsTTL: nsTTL, dsTTL: dsTTL, signed: signed, mode: "honest"}
	opts := l3.ZoneOpts{Signed: signed, PublishDS: signed, NSTTL: nsTTL, DSTTL: dsTTL}
	switch {
	case s.oob && idx == 2:
		// the victim's name servers live in a sibling zone: no glue, addresses are looked up
		i.nsHost = fmt.Sprintf("ns%d-vic.host.test.", gen+1)
		opts.NSHosts = []string{i.nsHost}
		opts.NoGlue = true
	case hostMode == "same":
		i.nsHost = "ns1." + name
	default:
		i.nsHost = fmt.Sprintf("ns%d.%s", gen+1, name)
		opts.NSHosts = []string{i.nsHost}
		if s.twoNS && idx == 3 {
			// one glued and one glue-less in-zone host: the referral makes lookupV4Nss
			// write a provisional entry before it looks the second host up
			opts.NSHosts = append(opts.NSHosts, fmt.Sprintf("nsb%d.%s", gen+1, name))
		}
	}
	i.z = s.w.AddZone(name, opts)
	if s.twoNS && idx == 3 {
		if d := s.w.Delegation(name); d != nil && len(d.Glue) > 1 {
			d.Glue = d.Glue[:1]
		}
	}
	i.srv = i.z.Servers[len(i.z.Servers)-1]
	if signed && i.z.Keys[0].Key.KeyTag() == 0 {
		// miekg refuses to sign with key tag 0 (the l3 server would panic): take another key
		for i.z.Keys[0].Key.KeyTag() == 0 {
			i.z.Keys[0] = l3.NewKey(name, 257, dns.ECDSAP256SHA256)
		}
		i.z.Records[name][dns.TypeDNSKEY] = []dns.RR{i.z.Keys[0].Key}
		dsrr := i.z.Keys[0].Key.ToDS(dns.SHA256)
		dsrr.Hdr.Ttl = dsTTL
		s.w.Delegation(name).DS = []dns.RR{dsrr}
	}
	i.z.SOA.Serial = uint32(1000*idx + gen + 1)
	i.z.SOA.Minttl = s.negttl
	i.z.SOA.Hdr.Ttl = s.negttl
	i.z.Add(
		fmt.Sprintf("www.%s %d IN A %s", name, s.attl, marker(idx, gen, 1)),
		fmt.Sprintf("long.%s 86400 IN A %s", name, marker(idx, gen, 2)),
		fmt.Sprintf("short.%s 1 IN A %s", name, marker(idx, gen, 3)),
	)
	if idx <= 3 {
		// names that exist in every other incarnation only: what the OLD servers deny the
		// NEW ones answer (and vice versa), so a stale denial / answer shows in the rcode
		if gen%2 == 1 {
			i.z.Add(fmt.Sprintf("flip.%s %d IN A %s", name, s.attl, marker(idx, gen, 4)),
				fmt.Sprintf("bflip.%s %d IN A %s", name, s.attl, marker(idx, gen, 5)))
		} else {
			i.z.Add(fmt.Sprintf("flop.%s %d IN A %s", name, s.attl, marker(idx, gen, 6)))
		}
	}
	// what the child says about itself: its own apex NS RRset carries a huge TTL
	for _, rr := range i.z.Records[name][dns.TypeNS] {
		rr.Header().Ttl = hugeTTL
	}
	if s.oob && idx == 2 && s.host != nil {
		s.host.z.Add(fmt.Sprintf("%s 3600 IN A %s", i.nsHost, i.srv.IP.String()))
	}
	s.byIP[i.srv.IP.String()] = i
	s.insts = append(s.insts, i)
	if parent != nil {
		parent.kids[name] = i
	} else {
		s.root.kids[name] = i
	}
	s.hook(i)
	return i
}

// hook installs the observer (which referrals do the servers hand out, and
// when) and the scripted child behaviours on an incarnation's server.
func (s *scenario) hook(i *inst) {
	i.srv.SetBehaviour(l3.Behaviour{
		Drop: func(q dns.Question, tcp bool) bool {
			// lostprobe: the MINIMISED probe for one of this zone's delegated children never gets an answer
			i.mu.Lock()
			defer i.mu.Unlock()
			if !i.dropMin || q.Qtype != dns.TypeA {
				return false
			}
			_, isKid := i.kids[lcn(q.Name)]
			return isKid
		},
		Delay: func(q dns.Question, tcp bool) time.Duration {
			// slowref: the FIRST referral for a name below slowBelow is slow (real time)
			i.mu.Lock()
			defer i.mu.Unlock()
			if i.slowBelow != "" && i.slowFor > 0 && dns.IsSubDomain(i.slowBelow, lcn(q.Name)) && (i.slowType == 0 || i.slowType == q.Qtype) {
				d := i.slowFor
				i.slowFor = 0
				return d
			}
			return 0
		},
		Tamper: func(q dns.Question, honest *dns.Msg, tcp bool) *dns.Msg {
			honest = s.crossOver(i, q, honest)
			s.observe(i, honest)
			return s.tamper(i, q, honest)
		}})
}

// crossOver (l3 qcross): while this server's referral for the crossed zone is "on the
// wire", another client question for a name in that zone is resolved to the end (so the
// zone's delegation is now cached under the referral the parent gave THEN), and the parent
// raises the delegation's TTLs; the referral the waiting resolution finally receives is the
// parent's new, longer one. That resolution descends through the CACHED delegation, so
// everything it learns ends with the cached lease, not with the fresher referral's.
func (s *scenario) crossOver(i *inst, q dns.Question, honest *dns.Msg) *dns.Msg {
	c := s.cross
	if c == nil || c.from != i || honest == nil || honest.Authoritative || len(honest.Answer) > 0 {
		return honest
	}
	isRef := false
	for _, rr := range honest.Ns {
		if ns, ok := rr.(*dns.NS); ok && lcn(ns.Hdr.Name) == c.child {
			isRef = true
		}
	}
	if !isRef {
		return honest
	}
	s.cross = nil
	s.p.Query("long."+c.child, dns.TypeA, l3.Flags{CD: c.cd, DO: true})
	if d := s.w.Delegation(c.child); d != nil {
		d.NSTTL, d.DSTTL = c.ttl, c.ttl
		for _, rr := range d.DS {
			rr.Header().Ttl = c.ttl
		}
		for _, rr := range d.Glue {
			rr.Header().Ttl = c.ttl
		}
	}
	if k := i.kids[c.child]; k != nil {
		k.nsTTL, k.dsTTL = c.ttl, c.ttl
	}
	req := new(dns.Msg)
	req.SetQuestion(q.Name, q.Qtype)
	req.Id = honest.Id
	if o := honest.IsEdns0(); o != nil {
		req.SetEdns0(4096, o.Do())
	}
	return i.srv.Honest(req)
}

type crossSpec struct {
	from  *inst
	child string
	ttl   uint32
	cd    bool
}

func (s *scenario) observe(from *inst, m *dns.Msg) {
	if m == nil || m.Authoritative || len(m.Answer) > 0 || m.Rcode != dns.RcodeSuccess {
		return
	}
	var child string
	var nsTTL, dsTTL uint32
	hasNS, hasDS := false, false
	for _, rr := range m.Ns {
		switch v := rr.(type) {
		case *dns.SOA:
			return
		case *dns.NS:
			if !hasNS || v.Hdr.Ttl < nsTTL {
				nsTTL = v.Hdr.Ttl
			}
			hasNS = true
			child = lcn(v.Hdr.Name)
		case *dns.DS:
			if !hasDS || v.Hdr.Ttl < dsTTL {
				dsTTL = v.Hdr.Ttl
			}
			hasDS = true
		}
	}
	if !hasNS {
		return
	}
	to := from.kids[child]
	if to == nil {
		return
	}
	s.refMu.Lock()
	s.pending = append(s.pending, refRec{from: from, to: to, nsTTL: nsTTL, dsTTL: dsTTL, hasDS: hasDS})
	to.refAt = time.Now()
	to.refLease = time.Duration(nsTTL) * time.Second
	if hasDS && s.dnssec && time.Duration(dsTTL)*time.Second < to.refLease {
		to.refLease = time.Duration(dsTTL) * time.Second
	}
	if to.refLease > ceiling {
		to.refLease = ceiling
	}
	s.refMu.Unlock()
}

// tamper: what a delegated server says about itself. Labels `sr.` / `up.`
// always trigger a self / upward referral with a huge TTL; modes `nsauth` /
// `nschange` decorate every authoritative answer with the zone's own NS set.
func (s *scenario) tamper(i *inst, q dns.Question, honest *dns.Msg) *dns.Msg {
	if i.idx == 0 {
		return honest
	}
	qn := lcn(q.Name)
	first := strings.SplitN(qn, ".", 2)[0]
	if strings.HasPrefix(first, "sr-") {
		first = "sr"
	}
	glue := &dns.A{Hdr: dns.RR_Header{Name: i.nsHost, Rrtype: dns.TypeA, Class: dns.ClassINET, Ttl: hugeTTL}, A: i.srv.IP}
	if dns.IsSubDomain(i.name, qn) && (first == "sr" || first == "up") && honest != nil {
		if s.race == i && i.hasBound[s.raceLin] {
			s.race = nil
			if d := i.bound[s.raceLin] + slack + 500*time.Millisecond - s.vnow(); d > 0 {
				s.p.Advance(d)
			}
		}
		m := new(dns.Msg)
		m.MsgHdr = honest.MsgHdr
		m.Question = honest.Question
		m.Rcode = dns.RcodeSuccess
		m.Authoritative = false
		owner := i.name
		if first == "up" && i.parent != nil {
			owner = i.parent.name
		} else if first == "up" {
			owner = "."
		}
		m.Ns = []dns.RR{&dns.NS{Hdr: dns.RR_Header{Name: owner, Rrtype: dns.TypeNS, Class: dns.ClassINET, Ttl: hugeTTL}, Ns: i.nsHost}}
		m.Extra = []dns.RR{glue}
		if o := honest.IsEdns0(); o != nil {
			m.Extra = append(m.Extra, o)
		}
		return m
	}
	i.mu.Lock()
	failing := i.mode == "sfail"
	i.mu.Unlock()
	if failing && honest != nil {
		// the (old) child stops answering properly: every query gets a bare SERVFAIL
		m := new(dns.Msg)
		m.MsgHdr = honest.MsgHdr
		m.Question = honest.Question
		m.Rcode = dns.RcodeServerFailure
		m.Authoritative = false
		if o := honest.IsEdns0(); o != nil {
			m.Extra = []dns.RR{o}
		}
		return m
	}
	if first == "bflip" && honest != nil && honest.Rcode == dns.RcodeNameError && !i.signed {
		// a BARE denial: rcode only, no SOA, nothing in any section
		honest.Ns = nil
		var extra []dns.RR
		if o := honest.IsEdns0(); o != nil {
			extra = append(extra, o)
		}
		honest.Extra = extra
		return honest
	}
	i.mu.Lock()
	mode := i.mode
	i.mu.Unlock()
	if mode == "honest" || honest == nil || !honest.Authoritative || len(honest.Answer) == 0 {
		return honest
	}
	// append the zone's own (signed, when the zone is signed) NS RRset and glue
	nsq := new(dns.Msg)
	nsq.SetQuestion(i.name, dns.TypeNS)
	do := false
	if o := honest.IsEdns0(); o != nil {
		do = o.Do()
	}
	nsq.SetEdns0(4096, do)
	own := new(dns.Msg)
	own.SetReply(nsq)
	i.z.Answer(nsq.Question[0], do, own)
	if q.Qtype != dns.TypeNS || qn != i.name {
		honest.Ns = append(honest.Ns, own.Answer...)
	}
	g := dns.Copy(glue).(*dns.A)
	if mode == "nschange" {
		g.Hdr.Name = "nsx." + i.name
	}
	honest.Extra = append([]dns.RR{g}, honest.Extra...)
	return honest
}

func execNew(f []string) vlib.Res {
	closeScen()
	m := kv(f)
	get := func(k, d string) string {
		if v, ok := m[k]; ok {
			return v
		}
		return d
	}
	s := &scenario{byIP: map[string]*inst{}, prevAbs: map[uint64]time.Duration{}, prevRefs: map[uint64]int{}}
	depth := vlib.Atoi(get("d", "2"))
	if depth < 1 || depth > 3 {
		return vlib.Res{Impl: "bad-op"}
	}
	s.dnssec = get("sec", "1") == "1"
	s.oob = get("oob", "0") == "1" && depth >= 2
	ns := u32list(get("ns", "300,300,300"))
	ds := u32list(get("ds", "300,300,300"))
	sg := get("sg", "111")
	s.attl = uint32(vlib.AtoU64(get("attl", "300")))
	s.negttl = uint32(vlib.AtoU64(get("neg", "300")))
	pf := vlib.Atoi(get("pf", "0"))
	s.prefetch = pf
	s.twoNS = get("two", "0") == "1"
	upstreamTimeout := vlib.Atoi(get("to", "0"))
	hostTTL := uint32(vlib.AtoU64(get("hns", "3600"))) // lease of the zone hosting glue-less name servers
	qmin := vlib.Atoi(get("qmin", "0"))
	for len(ns) < depth {
		ns = append(ns, 300)
	}
	for len(ds) < depth {
		ds = append(ds, 300)
	}
	for len(sg) < depth {
		sg += "0"
	}
	s.w = l3.NewWorld(s.dnssec)
	for s.dnssec && s.w.Root.Keys[0].Key.KeyTag() == 0 {
		s.w.Close()
		s.w = l3.NewWorld(s.dnssec)
	}
	s.root = &inst{name: ".", idx: 0, kids: map[string]*inst{}, z: s.w.Root, srv: s.w.Root.Servers[0], mode: "honest"}
	s.byIP[s.root.srv.IP.String()] = s.root
	s.hook(s.root)
	signed := s.dnssec
	var parent *inst
	for k := 1; k <= depth; k++ {
		// a signed zone below an unsigned one has no chain of trust: its DS would
		// never be retained. Keep "DS present" = "DS retained" (see notes/C08.md).
		signed = signed && sg[k-1] == '1'
		if s.oob && k == 2 {
			s.host = s.addInst(9, 0, parent, hostTTL, hostTTL, false, "new")
		}
		i := s.addInst(k, 0, parent, ns[k-1], ds[k-1], signed, "new")
		s.names = append(s.names, i.name)
		parent = i
	}
	// the alias zone: a sibling TLD with a long lease and long-lived CNAMEs pointing at
	// existing, flipping and barely-denied names of every chain zone
	s.alias = s.addInst(8, 0, nil, 3600, 3600, false, "new")
	for k, n := range s.names {
		for _, p := range [][2]string{{"w", "www"}, {"f", "flip"}, {"b", "bflip"}, {"p", "flop"}} {
			s.alias.z.Add(fmt.Sprintf("%s%d.al. 3600 IN CNAME %s.%s", p[0], k+1, p[1], n))
		}
		// and a long-lived DNAME whose target is the whole chain zone (Resolver.answer splices the target leg)
		s.alias.z.Add(fmt.Sprintf("dn%d.al. 3600 IN DNAME %s", k+1, n))
	}
	s.p = l3.NewPipe(s.w, l3.PipeOpts{DNSSEC: s.dnssec, Tweak: func(cfg *config.Config) {
		cfg.Prefetch = uint32(pf)
		cfg.QnameMinLevel = qmin
		if get("ecs", "0") == "1" {
			// ECS-aware caching: client subnets are forwarded and the cache writer takes its ECS routes
			cfg.ECS.Enabled = true
			cfg.ECS.CacheLimitTTL.Duration = time.Duration(vlib.Atoi(get("ecscap", "0"))) * time.Second
		}
		if upstreamTimeout > 0 {
			cfg.Timeout.Duration = time.Duration(upstreamTimeout) * time.Millisecond
			cfg.QueryTimeout.Duration = 8 * time.Second
		}
	}})
	// quiesce must also see the tail of a background refresh (see VerifC08TrackPrefetch)
	if os.Getenv("VERIF_C08_NOTRACK") == "" { // (diagnosis switch: reproduce the pre-tracker quiesce)
		cache.VerifC08TrackPrefetch(s.p.Cache)
	}
	s.t0 = time.Now()
	cur = s
	tags := "l3,world"
	for _, k := range []string{"k", "d", "sec", "pf", "qmin", "oob", "ecs"} {
		if v, ok := m[k]; ok {
			tags += "," + k + v
		}
	}
	return vlib.Res{Impl: "ok", Oracle: "ok", Tags: tags}
}

// quiesce waits until no background refresh is queued or running, so that
// the clock is only moved (and the state only audited) on a quiet pipeline.
func (s *scenario) quiesce() {
	deadline := time.Now().Add(12 * time.Second)
	for time.Now().Before(deadline) {
		if !cache.VerifC08PrefetchBusy(s.p.Cache) {
			return
		}
		time.Sleep(time.Millisecond)
	}
	s.unquiet++ // a refresh outlived every wait: the virtual clock can no longer be trusted in this scenario
}

func minDur(a, b time.Duration) time.Duration {
	if a < b {
		return a
	}
	return b
}

// absorb turns the referrals the servers handed out since the last audit into
// the oracle's bounds: a lease granted by such a referral ends no later than
// (now + min(NS TTL, DS TTL if present, 12 h)), and no later than the bound
// of the incarnation whose servers handed it out.
func (s *scenario) absorb(now time.Duration) {
	s.refMu.Lock()
	recs := s.pending
	s.pending = nil
	s.refMu.Unlock()
	sort.SliceStable(recs, func(a, b int) bool { return dns.CountLabel(recs[a].to.name) < dns.CountLabel(recs[b].to.name) })
	for _, r := range recs {
		r.to.refs++
		for lin := 0; lin < 2; lin++ {
			l := time.Duration(r.nsTTL) * time.Second
			if r.hasDS && s.dnssec && lin == 0 {
				l = minDur(l, time.Duration(r.dsTTL)*time.Second)
			}
			l = minDur(l, ceiling)
			own := now + l
			cand := own
			if r.from.idx != 0 && r.from.hasBound[lin] {
				cand = minDur(cand, r.from.bound[lin])
			}
			ul := time.Duration(r.nsTTL) * time.Second
			if r.hasDS && s.dnssec && lin == 0 {
				ul = minDur(ul, time.Duration(r.dsTTL)*time.Second)
			}
			ucand := now + ul
			if r.from.idx != 0 && r.from.hasBound[lin] {
				ucand = minDur(ucand, r.from.ubound[lin])
			}
			if !r.to.hasBound[lin] || ucand > r.to.ubound[lin] {
				r.to.ubound[lin] = ucand
			}
			if !r.to.hasBound[lin] || cand > r.to.bound[lin] {
				r.to.hasBound[lin], r.to.bound[lin], r.to.ownEnd[lin] = true, cand, own
			}
		}
	}
}

// bucket tells which CD partition of the delegation cache an entry lives in.
func bucket(e authority.VerifC08Entry) int {
	if e.Key == icache.Key(dns.Question{Name: e.Zone, Qtype: dns.TypeNS, Qclass: dns.ClassINET}, true) {
		return 1
	}
	return 0
}

// finish runs the state audit and picks the op's verdict: a violation found by the
// op itself, else one found by the audit, else a known-finding verdict (lowest
// priority, so it never hides anything else).
func (s *scenario) finish(verdict string, softs ...string) string {
	a := s.audit()
	if s.unquiet > 0 {
		return "-" // not judged: the pipeline could not be quiesced before a clock move
	}
	if verdict != "ok" {
		return verdict
	}
	if a != "ok" {
		return a
	}
	for _, x := range append(softs, s.soft) {
		if x != "" {
			return x
		}
	}
	return "ok"
}

// audit judges the stored delegation leases.
func (s *scenario) audit() string {
	s.quiesce()
	now := s.vnow()
	s.absorb(now)
	entries := authority.VerifC08Entries(resolver.VerifDelegations(s.p.Resolver))
	sort.Slice(entries, func(a, b int) bool { return entries[a].Key < entries[b].Key })
	verdict := "ok"
	soft := ""
	fail := func(v string) {
		if verdict == "ok" {
			verdict = v
		}
	}
	defer func() { s.soft = soft }()
	for _, e := range entries {
		rem := time.Until(e.ExpiresAt)
		zone := lcn(e.Zone)
		cands := s.named(zone)
		if len(cands) == 0 {
			continue
		}
		refs := 0
		for _, c := range cands {
			refs += c.refs
		}
		abs := now + rem
		lin := bucket(e)
		if rem > 0 {
			if rem > ceiling+slack {
				fail(fmt.Sprintf("FAIL sig=l3/lease/exceeds-12h zone=%s rem=%s", zone, rem))
			}
			var best *inst
			for _, c := range cands {
				if c.hasBound[lin] && (best == nil || c.bound[lin] > best.bound[lin]) {
					best = c
				}
			}
			switch {
			case best == nil:
				fail(fmt.Sprintf("FAIL sig=l3/lease/stored-without-parent-referral zone=%s rem=%s", zone, rem))
			case abs > best.bound[lin]+slack:
				why := "exceeds-ancestor-lease"
				if abs > best.ownEnd[lin]+slack {
					why = "exceeds-min-ns-ds-ttl"
				}
				fail(fmt.Sprintf("FAIL sig=l3/lease/%s zone=%s cdbucket=%d nds=%d rem=%s allowed=%s", why, zone, lin, e.NDS, rem, best.bound[lin]-now))
			}
			if lin == 1 && strictDS() {
				// strict reading of the property text: the DS TTL bounds the lease in every bucket
				var b0 *inst
				for _, c := range cands {
					if c.hasBound[0] && (b0 == nil || c.bound[0] > b0.bound[0]) {
						b0 = c
					}
				}
				if b0 != nil && abs > b0.bound[0]+slack && soft == "" {
					soft = fmt.Sprintf("FAIL sig=l3/lease/cd1-bucket-ignores-ds-ttl zone=%s nds=%d rem=%s allowed=%s", zone, e.NDS, rem, b0.bound[0]-now)
				}
			}
			if prev, ok := s.prevAbs[e.Key]; ok && abs > prev+slack && s.prevRefs[e.Key] == refs {
				fail(fmt.Sprintf("FAIL sig=l3/lease/extended-without-parent-referral zone=%s by=%s", zone, abs-prev))
			}
		}
		s.prevAbs[e.Key] = abs
		s.prevRefs[e.Key] = refs
	}
	// exact (no slack needed: both values are stored absolute deadlines): a live
	// delegation never outlives a live delegation for one of its ancestors.
	// Only judged on a strictly sequential pipeline (no background refresh):
	// two concurrent resolutions may store the same ancestor in either order.
	for _, e := range entries {
		if s.prefetch != 0 || !time.Now().Before(e.ExpiresAt) {
			continue
		}
		for _, a := range entries {
			if a.Key == e.Key || bucket(a) != bucket(e) || !time.Now().Before(a.ExpiresAt) {
				continue
			}
			az, ez := lcn(a.Zone), lcn(e.Zone)
			if az != ez && dns.IsSubDomain(az, ez) && e.ExpiresAt.After(a.ExpiresAt) {
				d := e.ExpiresAt.Sub(a.ExpiresAt)
				if s.grantOver12h(az, bucket(a)) && s.grantOver12h(ez, bucket(e)) && d < time.Minute {
					fail(fmt.Sprintf("FAIL sig=l3/lease/descendant-outlives-ancestor/ceiling-reanchored zone=%s ancestor=%s by=%s", ez, az, d))
				} else {
					fail(fmt.Sprintf("FAIL sig=l3/lease/descendant-outlives-ancestor zone=%s ancestor=%s by=%s", ez, az, d))
				}
			}
		}
	}
	// exact, sequential pipeline only: a live answer-cache entry is cut no later than the
	// live delegation (same CD partition) of every zone its records were learned through
	if s.prefetch == 0 {
		for _, ce := range cache.VerifC08CacheEntries(s.p.Cache) {
			if ce.Msg == nil {
				continue
			}
			end := ce.Stored.Add(ce.TTL)
			if !ce.CutUntil.IsZero() && ce.CutUntil.Before(end) {
				end = ce.CutUntil
			}
			if !time.Now().Before(end) {
				continue
			}
			lin := 0
			if ce.CD {
				lin = 1
			}
			seen := map[*inst]bool{}
			for _, sec := range [][]dns.RR{ce.Msg.Answer, ce.Msg.Ns} {
				for _, rr := range sec {
					o, _ := s.origin(rr)
					for a := o; a != nil; a = a.parent {
						if seen[a] {
							continue
						}
						seen[a] = true
						for _, d := range entries {
							if lcn(d.Zone) != a.name || bucket(d) != lin || !time.Now().Before(d.ExpiresAt) {
								continue
							}
							switch {
							case ce.CutUntil.IsZero():
								fail(fmt.Sprintf("FAIL sig=l3/cache/answer-without-cut q=%s/%d learned-through=%s", lcn(ce.Question.Name), ce.Question.Qtype, a.name))
							case ce.CutUntil.After(d.ExpiresAt):
								fail(fmt.Sprintf("FAIL sig=l3/cache/answer-cut-outlives-delegation q=%s/%d learned-through=%s by=%s", lcn(ce.Question.Name), ce.Question.Qtype, a.name, ce.CutUntil.Sub(d.ExpiresAt)))
							}
						}
					}
				}
			}
		}
	}
	return verdict
}

// diagEntries describes, for a reply judged stale, every live answer-cache entry holding one of
// its marker records and the stored delegations: what a reader needs to tell a served-too-long
// entry from a harness artefact.
func (s *scenario) diagEntries(resp *dns.Msg) string {
	now := time.Now()
	want := map[string]bool{}
	for _, sec := range [][]dns.RR{resp.Answer, resp.Ns} {
		for _, rr := range sec {
			if o, _ := s.origin(rr); o != nil {
				c := dns.Copy(rr)
				c.Header().Ttl = 0
				want[c.String()] = true
			}
		}
	}
	var out []string
	for _, ce := range cache.VerifC08CacheEntries(s.p.Cache) {
		if ce.Msg == nil {
			continue
		}
		hit := false
		for _, sec := range [][]dns.RR{ce.Msg.Answer, ce.Msg.Ns} {
			for _, rr := range sec {
				c := dns.Copy(rr)
				c.Header().Ttl = 0
				if want[c.String()] {
					hit = true
				}
			}
		}
		if hit {
			cut := "none"
			if !ce.CutUntil.IsZero() {
				cut = ce.CutUntil.Sub(now).Round(time.Millisecond).String()
			}
			out = append(out, fmt.Sprintf("%s/%d(cd=%v age=%s ttl-left=%s cut-left=%s)", lcn(ce.Question.Name), ce.Question.Qtype, ce.CD,
				now.Sub(ce.Stored).Round(time.Millisecond), ce.Stored.Add(ce.TTL).Sub(now).Round(time.Millisecond), cut))
		}
	}
	for _, e := range authority.VerifC08Entries(resolver.VerifDelegations(s.p.Resolver)) {
		out = append(out, fmt.Sprintf("deleg:%s#b%d left=%s", lcn(e.Zone), bucket(e), e.ExpiresAt.Sub(now).Round(time.Millisecond)))
	}
	sort.Strings(out)
	return fmt.Sprintf(" | diag vnow=%s offset=%s prefetches=%d entries=[%s]", s.vnow().Round(time.Millisecond), s.p.Offset, cache.VerifC08Prefetches(s.p.Cache), strings.Join(out, " "))
}

// origin identifies which incarnation published a record (nil: cannot tell).
func (s *scenario) origin(rr dns.RR) (*inst, string) {
	switch v := rr.(type) {
	case *dns.A:
		ip := v.A.To4()
		if ip != nil && ip[0] == 10 {
			for _, i := range s.insts {
				if i.idx == int(ip[1]) && i.gen == int(ip[2]) {
					return i, "answer"
				}
			}
		}
	case *dns.SOA:
		for _, i := range s.insts {
			if i.name == lcn(v.Hdr.Name) && v.Serial == uint32(1000*i.idx+i.gen+1) {
				return i, "negative"
			}
		}
	case *dns.DNSKEY:
		for _, i := range s.insts {
			if i.signed && i.name == lcn(v.Hdr.Name) && len(i.z.Keys) > 0 && i.z.Keys[0].Key.PublicKey == v.PublicKey {
				return i, "dnskey"
			}
		}
	case *dns.DS:
		for _, i := range s.insts {
			if i.signed && i.name == lcn(v.Hdr.Name) && len(i.z.Keys) > 0 {
				if d := i.z.Keys[0].Key.ToDS(v.DigestType); d != nil && strings.EqualFold(d.Digest, v.Digest) {
					// a DS is published by (learned through) the parent incarnation
					if i.parent != nil {
						return i.parent, "ds"
					}
					return nil, ""
				}
			}
		}
	case *dns.RRSIG:
		var hit *inst
		for _, i := range s.insts {
			if i.signed && i.name == lcn(v.SignerName) && len(i.z.Keys) > 0 && i.z.Keys[0].Key.KeyTag() == v.KeyTag {
				if hit != nil {
					return nil, ""
				}
				hit = i
			}
		}
		if hit != nil {
			return hit, "rrsig"
		}
	}
	return nil, ""
}

func execQuery(s *scenario, f []string) vlib.Res {
	if len(f) < 4 {
		return vlib.Res{Impl: "bad-op"}
	}
	qt, ok := dns.StringToType[strings.ToUpper(f[3])]
	if !ok {
		return vlib.Res{Impl: "bad-op"}
	}
	fl := l3.Flags{}
	withECS, wireBorn := false, false
	for _, x := range f[4:] {
		switch x {
		case "do":
			fl.DO = true
		case "cd":
			fl.CD = true
		case "ecs":
			withECS = true // the client's query carries an EDNS Client Subnet option
		case "wire":
			wireBorn = true // the query arrives as raw bytes on a UDP listener (Chain.ResetWire), undecoded
		}
	}
	ask := func() *dns.Msg {
		if wireBorn {
			q := new(dns.Msg)
			q.SetQuestion(dns.Fqdn(f[2]), qt)
			s.ecsID++
			q.Id = uint16(50000 + s.ecsID)
			q.RecursionDesired = true
			q.CheckingDisabled = fl.CD
			q.SetEdns0(1232, fl.DO)
			if withECS {
				o := q.IsEdns0()
				o.Option = append(o.Option, &dns.EDNS0_SUBNET{Code: dns.EDNS0SUBNET, Family: 1, SourceNetmask: 24, Address: net.IPv4(198, 51, 100, 0).To4()})
			}
			raw, err := q.Pack()
			req := new(middleware.Request)
			if err != nil || !req.ParseWire(raw, time.Now(), nil) {
				return nil
			}
			w := mock.NewWriter("udp", "10.1.2.3:4242")
			ch := s.p.P.NewChain()
			defer s.p.P.PutChain(ch)
			ch.ResetWire(w, req)
			ctx, cancel := context.WithTimeout(context.Background(), s.p.Cfg.QueryTimeout.Duration)
			defer cancel()
			ch.Next(ctx)
			defer ch.Finish()
			if !w.Written() {
				return nil
			}
			return w.Msg()
		}
		if !withECS {
			return s.p.Query(f[2], qt, fl)
		}
		req := new(dns.Msg)
		req.SetQuestion(dns.Fqdn(f[2]), qt)
		s.ecsID++
		req.Id = uint16(40000 + s.ecsID)
		req.RecursionDesired = true
		req.CheckingDisabled = fl.CD
		req.SetEdns0(1232, fl.DO)
		o := req.IsEdns0()
		o.Option = append(o.Option, &dns.EDNS0_SUBNET{Code: dns.EDNS0SUBNET, Family: 1, SourceNetmask: 24, Address: net.IPv4(198, 51, 100, 0).To4()})
		return s.p.Exchange(req, fl)
	}
	s.quiesce()
	vq := s.vnow()
	lin := 0
	if fl.CD {
		lin = 1
	}
	resp := ask()
	s.queries++
	verdict := "ok"
	softQ := ""
	impl := "noreply"
	if resp != nil {
		var olds, news int
		stale := ""
		for _, sec := range [][]dns.RR{resp.Answer, resp.Ns, resp.Extra} {
			for _, rr := range sec {
				o, kind := s.origin(rr)
				if o == nil {
					continue
				}
				if s.current(o.name) == o && !o.withdrawn {
					news++
				} else {
					olds++
				}
				// "once the parent withdraws or changes the delegation … everything learned
				// through the old delegation has stopped being served by [the lease end]"
				for a := o; a != nil; a = a.parent {
					if a.withdrawn && a.hasBound[lin] && vq >= a.bound[lin]+slack && stale == "" {
						rel := "self"
						if a != o {
							rel = "deeper"
						}
						sig := fmt.Sprintf("l3/reply/stale-%s/%s", kind, rel)
						if vq < a.ubound[lin] {
							// the lease ended only because of the 12 h ceiling; the NS/DS TTLs alone would still run
							sig = "l3/reply/served-past-12h-ceiling"
						}
						stale = fmt.Sprintf("FAIL sig=%s kind=%s/%s q=%s/%s from=%s#%d lease-of=%s#%d ended=%s ago rr=%q",
							sig, kind, rel, lcn(f[2]), f[3], o.name, o.gen, a.name, a.gen, (vq - a.bound[lin]).Round(time.Millisecond), strings.Join(strings.Fields(rr.String()), " "))
					}
				}
			}
		}
		if stale != "" {
			verdict = stale + s.diagEntries(resp)
		}
		impl = fmt.Sprintf("rcode=%s an=%d old=%d new=%d", dns.RcodeToString[resp.Rcode], len(resp.Answer), olds, news)
	}
	// A denial (or an empty answer) carries no record that names its origin: judge the
	// rcode / presence of the answer against what the parent side now says, once every
	// lease of a withdrawn or re-pointed delegation the name (or its alias chain)
	// depends on is over.
	if resp != nil && resp.Rcode != dns.RcodeServerFailure && verdict == "ok" {
		tr := s.w.Truth(f[2], qt)
		names := []string{lcn(f[2])}
		for _, rrs := range [][]dns.RR{resp.Answer, tr.Answer} {
			for _, rr := range rrs {
				if c, ok := rr.(*dns.CNAME); ok {
					names = append(names, lcn(c.Target))
				}
			}
		}
		past := false
		for _, i := range s.insts {
			if !i.withdrawn || !i.hasBound[0] || vq < i.bound[0]+slack || vq < i.bound[1]+slack {
				continue
			}
			for _, n := range names {
				if dns.IsSubDomain(i.name, n) {
					past = true
				}
			}
		}
		if past && tr.Status != l3.Bogus && (tr.Kind == "answer" || tr.Kind == "nodata" || tr.Kind == "nxdomain") {
			has := false
			for _, rr := range resp.Answer {
				if rr.Header().Rrtype == qt {
					has = true
				}
			}
			switch {
			case resp.Rcode != tr.Rcode:
				verdict = fmt.Sprintf("FAIL sig=l3/reply/stale-rcode q=%s/%s got=%s want=%s(%s) — a denial/answer learned through the old delegation outlived its lease",
					lcn(f[2]), f[3], dns.RcodeToString[resp.Rcode], dns.RcodeToString[tr.Rcode], tr.Kind)
			case tr.Kind == "answer" && !has && qt != dns.TypeCNAME:
				verdict = fmt.Sprintf("FAIL sig=l3/reply/stale-nodata q=%s/%s the parent side now has an answer", lcn(f[2]), f[3])
			}
		}
	}
	tags := "nt,l3"
	if resp == nil || resp.Rcode == dns.RcodeServerFailure {
		first := strings.SplitN(lcn(f[2]), ".", 2)[0]
		if first != "sr" && first != "up" && !strings.HasPrefix(first, "sr-") {
			tags += ",servfail"
			// "sdns follows the parent as soon as that lease ends": past the lease end of a
			// withdrawn / re-pointed delegation the name must resolve to what the parent now
			// says. Judged only when three attempts (10 virtual seconds apart, so no cached
			// failure is replayed) all fail — a single upstream timeout raises nothing.
			// The internal name-server address lookups of an insecure zone ride the CD=1
			// bucket even for a CD=0 client, so "past the lease" means past both lineages.
			past, pastOwn := false, false
			for _, i := range s.insts {
				if !i.withdrawn || !dns.IsSubDomain(i.name, lcn(f[2])) {
					continue
				}
				if i.hasBound[lin] && vq >= i.bound[lin]+slack {
					pastOwn = true
					if o := 1 - lin; !i.hasBound[o] || vq >= i.bound[o]+slack {
						past = true
					}
				}
			}
			sig := "l3/reply/not-following-parent"
			if !past && pastOwn && strictDS() {
				past, sig = true, "l3/reply/not-following-parent/cd1-lineage-live"
			}
			if tr := s.w.Truth(f[2], qt); past && verdict == "ok" && (tr.Kind == "answer" || tr.Kind == "nodata" || tr.Kind == "nxdomain") && tr.Status != l3.Bogus {
				failed := 1
				for try := 0; try < 2; try++ {
					s.quiesce()
					s.p.Advance(10 * time.Second)
					if r2 := ask(); r2 == nil || r2.Rcode == dns.RcodeServerFailure {
						failed++
					}
				}
				if failed == 3 && sig == "l3/reply/not-following-parent" {
					// earlier failures of the scenario may have built up a cached-failure backoff
					// (RFC 9520, ≤ 5 min — C13's subject): only a failure that survives it counts
					for try := 0; try < 2 && failed == 3; try++ {
						s.quiesce()
						s.p.Advance(301 * time.Second)
						if r2 := ask(); r2 != nil && r2.Rcode != dns.RcodeServerFailure {
							failed = 0
						}
					}
				}
				if failed == 3 {
					v := fmt.Sprintf("FAIL sig=%s q=%s/%s want=%s", sig, lcn(f[2]), f[3], tr.Kind)
					if sig == "l3/reply/not-following-parent" {
						verdict = v
					} else {
						softQ = v
					}
				}
			}
		}
	}
	return vlib.Res{Impl: impl, Oracle: s.finish(verdict, softQ), Tags: tags}
}

// execSlowRef is the one real-time case: a 1 s (real) ancestor lease runs out while
// the ancestor's servers are slow to hand out the child referral, whose NS set has a
// glued and a glue-less host. Nothing learned from that referral may be kept past a
// lease the grandparent actually granted; after the grandparent withdraws the ancestor
// and its last lease is over, replies follow the grandparent.
//
//	l3 slowref sec=<0|1> delay=<ms> act=<withdraw|repoint>
//
// Self-contained (builds its own world). All judgements are the usual one-directional
// ones; on a FAIL the whole case is repeated once on a fresh world and only a failure
// with the same signature both times is reported.
func execSlowRef(f []string) vlib.Res {
	m := kv(f)
	sec, delay, act := "0", "1200", "withdraw"
	if v, ok := m["sec"]; ok {
		sec = v
	}
	if v, ok := m["delay"]; ok {
		delay = v
	}
	if v, ok := m["act"]; ok {
		act = v
	}
	once := func() (string, string) {
		steps := []string{
			"l3 new d=3 sec=" + sec + " ns=300,1,3600 ds=300,300,3600 sg=111 attl=300 neg=300 pf=0 qmin=0 oob=0 two=1 to=2500",
			"@slow " + delay,
			"l3 q www.deep.vic.test. A",
			"l3 audit",
		}
		if act == "repoint" {
			steps = append(steps, "l3 repoint vic.test. new 300 300")
		} else {
			steps = append(steps, "l3 withdraw vic.test.")
		}
		steps = append(steps, fmt.Sprintf("l3 end vic.test. %d", int(slack/time.Millisecond)+200),
			"l3 q www.deep.vic.test. A", "l3 q long.deep.vic.test. A", "l3 q nx.deep.vic.test. A", "l3 q www.vic.test. A")
		var impls []string
		for _, st := range steps {
			if strings.HasPrefix(st, "@slow ") {
				if v := cur.current("vic.test."); v != nil {
					v.mu.Lock()
					v.slowBelow, v.slowFor = "deep.vic.test.", time.Duration(vlib.Atoi(strings.Fields(st)[1]))*time.Millisecond
					v.mu.Unlock()
				}
				continue
			}
			r := execL3(strings.Fields(st))
			impls = append(impls, r.Impl)
			if strings.HasPrefix(r.Oracle, "FAIL") && !strings.Contains(r.Oracle, "sig=l3/lease/cd1-bucket-ignores-ds-ttl") &&
				!strings.Contains(r.Oracle, "cd1-lineage-live") {
				return r.Oracle + " step=" + strings.Join(strings.Fields(st)[1:], "_"), strings.Join(impls, ";")
			}
		}
		return "ok", strings.Join(impls, ";")
	}
	return twice(once)
}

// twice runs a self-contained real-time case; a FAIL is only reported when it
// reproduces with the same signature on a fresh world.
func twice(once func() (string, string)) vlib.Res {
	v1, impl := once()
	if v1 != "ok" {
		v2, impl2 := once()
		sig := func(v string) string {
			for _, w := range strings.Fields(v) {
				if strings.HasPrefix(w, "sig=") {
					return w
				}
			}
			return ""
		}
		if v2 == "ok" || sig(v2) != sig(v1) {
			v1 = "ok"
		} else {
			v1, impl = v2, impl2
		}
	}
	closeScen()
	return vlib.Res{Impl: impl, Oracle: v1, Tags: "nt,l3,realtime"}
}

// execSlowVal (l3 slowval delay=<ms> ttl=<s>): the lease is measured from the moment the
// referral was OBSERVED, however long its validation takes. The signed parent's DNSKEY
// answer (needed to validate the child's referral) is slow; afterwards the stored lease of
// the child, measured from the instant the parent's server handed the referral out, may
// exceed the granted TTL only by network latency (tolerance 1 s, retried on a fresh world).
func execSlowVal(f []string) vlib.Res {
	m := kv(f)
	delay, ttl := "1500", "3"
	if v, ok := m["delay"]; ok {
		delay = v
	}
	if v, ok := m["ttl"]; ok {
		ttl = v
	}
	return twice(func() (string, string) {
		execL3(strings.Fields("l3 new d=2 sec=1 ns=300," + ttl + " ds=300,300 sg=11 attl=300 neg=300 pf=0 qmin=0 oob=0 to=3000"))
		s := cur
		t := s.current("test.")
		t.mu.Lock()
		t.slowBelow, t.slowType, t.slowFor = "test.", dns.TypeDNSKEY, time.Duration(vlib.Atoi(delay))*time.Millisecond
		t.mu.Unlock()
		r := execL3(strings.Fields("l3 q www.vic.test. A do"))
		if strings.HasPrefix(r.Oracle, "FAIL") && !strings.Contains(r.Oracle, "cd1-") {
			return r.Oracle, r.Impl
		}
		v := s.current("vic.test.")
		for _, e := range authority.VerifC08Entries(resolver.VerifDelegations(s.p.Resolver)) {
			if lcn(e.Zone) != "vic.test." || v.refAt.IsZero() {
				continue
			}
			if excess := e.ExpiresAt.Sub(v.refAt) - v.refLease; excess > time.Second {
				return fmt.Sprintf("FAIL sig=l3/lease/anchored-after-observation zone=vic.test. bucket=%d granted=%s stored-from-observation=%s", bucket(e), v.refLease, e.ExpiresAt.Sub(v.refAt).Round(time.Millisecond)), r.Impl
			}
		}
		return "ok", r.Impl
	})
}

// execLostProbe (l3 lostprobe lease=<s> ttl=<s>): QNAME minimisation on; the minimised probe sdns
// sends to the servers of vic.test. (short lease) for `deep.vic.test.` is lost, so the resolver
// retries un-minimised and is then referred to deep.vic.test. with a long NS TTL. The retry is
// the same descent: the deeper delegation still ends with vic.test.'s lease. Deterministic (a
// dropped datagram, no timing judgement) but slow: the upstream timeout has to run out.
func execLostProbe(f []string) vlib.Res {
	m := kv(f)
	lease, ttl := "5", "43200"
	if v, ok := m["lease"]; ok {
		lease = v
	}
	if v, ok := m["ttl"]; ok {
		ttl = v
	}
	return twice(func() (string, string) {
		execL3(strings.Fields("l3 new d=3 sec=0 ns=300," + lease + "," + ttl + " ds=300,300,300 sg=000 attl=300 neg=300 pf=0 qmin=5 oob=0"))
		s := cur
		v := s.current("vic.test.")
		v.mu.Lock()
		v.dropMin = true
		v.mu.Unlock()
		var impls []string
		for _, st := range []string{"l3 q www.deep.vic.test. A", "l3 q long.deep.vic.test. A", "l3 withdraw vic.test.",
			fmt.Sprintf("l3 end vic.test. %d", int(slack/time.Millisecond)+200), "l3 q www.deep.vic.test. A", "l3 q long.deep.vic.test. A do"} {
			r := execL3(strings.Fields(st))
			impls = append(impls, r.Impl)
			if strings.HasPrefix(r.Oracle, "FAIL") && !strings.Contains(r.Oracle, "cd1-") {
				return r.Oracle + " step=" + strings.Join(strings.Fields(st)[1:], "_"), strings.Join(impls, ";")
			}
		}
		return "ok", strings.Join(impls, ";")
	})
}

// execInflight (l3 inflight delay=<ms>): a lookup still in flight at the OLD servers of a
// re-pointed zone must not be shared with a resolution that started after the lease end and
// already follows the parent. Client A's question makes the old vic.test. server sit on the
// minimised question `deep.vic.test.`; meanwhile the parent re-points vic.test. and its 1 s
// (real) lease ends; client B then asks another name that minimises to the same question.
func execInflight(f []string) vlib.Res {
	m := kv(f)
	delay := "1600"
	if v, ok := m["delay"]; ok {
		delay = v
	}
	return twice(func() (string, string) {
		execL3(strings.Fields("l3 new d=3 sec=0 ns=300,1,3600 ds=300,300,3600 sg=000 attl=300 neg=300 pf=0 qmin=5 oob=0 to=3000"))
		s := cur
		old := s.current("vic.test.")
		old.mu.Lock()
		old.slowBelow, old.slowFor = "deep.vic.test.", time.Duration(vlib.Atoi(delay))*time.Millisecond
		old.mu.Unlock()
		done := make(chan struct{})
		go func() {
			defer close(done)
			s.p.Query("long.deep.vic.test.", dns.TypeA, l3.Flags{})
		}()
		time.Sleep(150 * time.Millisecond)
		if old.refAt.IsZero() {
			<-done
			return "ok", "no-referral"
		}
		s.markWithdrawn(old)
		par := old.parent
		for k := 2; k <= 3; k++ {
			o := s.current(chainNames[k-1])
			par = s.addInst(k, o.gen+1, par, 300, 300, false, "new")
		}
		if w := time.Until(old.refAt.Add(old.refLease + 150*time.Millisecond)); w > 0 {
			time.Sleep(w)
		}
		resp := s.p.Query("www.deep.vic.test.", dns.TypeA, l3.Flags{})
		verdict, impl := "ok", "noreply"
		if resp != nil {
			impl = "rcode=" + dns.RcodeToString[resp.Rcode]
			for _, sec := range [][]dns.RR{resp.Answer, resp.Ns} {
				for _, rr := range sec {
					if o, kind := s.origin(rr); o != nil && o.gen == 0 && (o.idx == 2 || o.idx == 3) {
						verdict = fmt.Sprintf("FAIL sig=l3/reply/shared-inflight-lookup-from-old-servers kind=%s from=%s#%d rr=%q", kind, o.name, o.gen, strings.Join(strings.Fields(rr.String()), " "))
					}
				}
			}
		}
		<-done
		return verdict, impl
	})
}

func execL3(f []string) vlib.Res {
	if f[1] == "new" {
		return execNew(f)
	}
	switch f[1] {
	case "slowref":
		return execSlowRef(f)
	case "slowval":
		return execSlowVal(f)
	case "inflight":
		return execInflight(f)
	case "lostprobe":
		return execLostProbe(f)
	}
	s := cur
	if s == nil {
		return vlib.Res{Impl: "no-scenario"}
	}
	switch f[1] {
	case "q":
		return execQuery(s, f)
	case "adv":
		s.quiesce()
		s.p.Advance(time.Duration(vlib.AtoI64(f[2])) * time.Millisecond)
		return vlib.Res{Impl: "ok", Oracle: s.finish("ok"), Tags: "l3"}
	case "end":
		// advance to the (old) delegation's lease end as the oracle computes it, plus delta
		s.quiesce()
		s.absorb(s.vnow())
		lin := 0
		if len(f) > 4 && f[4] == "cd" {
			lin = 1
		}
		var target *inst
		for _, i := range s.named(f[2]) {
			if i.hasBound[lin] && (target == nil || (i.withdrawn && !target.withdrawn) || (i.withdrawn == target.withdrawn && i.gen > target.gen)) {
				target = i
			}
		}
		if target == nil {
			return vlib.Res{Impl: "nolease", Oracle: s.finish("ok"), Tags: "l3"}
		}
		d := target.bound[lin] + time.Duration(vlib.AtoI64(f[3]))*time.Millisecond - s.vnow()
		if d > 0 {
			s.p.Advance(d)
		}
		return vlib.Res{Impl: "ok", Oracle: s.finish("ok"), Tags: "l3"}
	case "withdraw":
		i := s.current(f[2])
		if i == nil || i.idx == 0 || i.withdrawn {
			return vlib.Res{Impl: "nozone", Oracle: "-"}
		}
		s.quiesce()
		s.w.Delegation(i.name).Removed = true
		s.markWithdrawn(i)
		return vlib.Res{Impl: "ok", Oracle: s.finish("ok"), Tags: "l3"}
	case "repoint":
		i := s.current(f[2])
		if i == nil || i.idx == 0 || i.idx == 9 || len(f) < 6 {
			return vlib.Res{Impl: "nozone", Oracle: "-"}
		}
		s.quiesce()
		s.markWithdrawn(i)
		// new incarnations of the zone and of everything below it (new servers, new keys, new data)
		par := i.parent
		for k := i.idx; k <= len(s.names); k++ {
			old := s.current(chainNames[k-1])
			if s.oob && k == 2 && i.idx == 1 {
				// the sibling zone hosting the victim's name servers moves with its parent
				s.host = s.addInst(9, s.host.gen+1, par, 3600, 3600, false, "new")
			}
			nsTTL, dsTTL := old.nsTTL, old.dsTTL
			mode := "new"
			if k == i.idx {
				nsTTL, dsTTL = uint32(vlib.AtoU64(f[4])), uint32(vlib.AtoU64(f[5]))
				mode = f[3]
			}
			n := s.addInst(k, old.gen+1, par, nsTTL, dsTTL, old.signed, mode)
			par = n
		}
		return vlib.Res{Impl: "ok", Oracle: s.finish("ok"), Tags: "l3"}
	case "behave":
		i := s.current(f[2])
		if i == nil || i.idx == 0 {
			return vlib.Res{Impl: "nozone", Oracle: "-"}
		}
		i.mu.Lock()
		i.mode = f[3]
		i.mu.Unlock()
		if f[3] == "nschange" {
			// the child now claims a different name server for itself
			delete(i.z.Records[i.name], dns.TypeNS)
			i.z.Add(fmt.Sprintf("%s %d IN NS nsx.%s", i.name, hugeTTL, i.name), fmt.Sprintf("nsx.%s %d IN A %s", i.name, hugeTTL, i.srv.IP))
		}
		return vlib.Res{Impl: "ok", Oracle: s.finish("ok"), Tags: "l3"}
	case "qcross":
		// l3 qcross <zone> <newTTL> [cd]: a question below <zone> is asked while <zone> is not cached;
		// see crossOver. The deepest chain zone's www name is the question.
		v := s.current(f[2])
		if v == nil || v.idx == 0 || v.idx > 3 || len(f) < 4 {
			return vlib.Res{Impl: "nozone", Oracle: "-"}
		}
		if s.p.Cfg.QnameMinLevel != 0 {
			// minimised, both questions ask the parent the same thing and singleflight would
			// merge them into ONE concurrent pair of descents: not the sequential crossing meant here
			return vlib.Res{Impl: "noqmin", Oracle: "-"}
		}
		from := v.parent
		if from == nil {
			from = s.root
		}
		s.quiesce()
		cd := len(f) > 4 && f[4] == "cd"
		s.cross = &crossSpec{from: from, child: v.name, ttl: uint32(vlib.AtoU64(f[3])), cd: cd}
		g := []string{"l3", "q", "www." + s.names[len(s.names)-1], "A", "do"}
		if cd {
			g = append(g, "cd")
		}
		res := execQuery(s, g)
		if s.cross != nil {
			s.cross = nil
			res.Impl += " nocross"
		}
		return res
	case "qrace":
		// l3 qrace <zone> [cd]: ask the zone's (old) servers for sr.<zone>; they let their own
		// lease run out and then answer with a self-referral carrying a one-week TTL.
		var target *inst
		lin := 0
		if len(f) > 3 && f[3] == "cd" {
			lin = 1
		}
		for _, i := range s.named(f[2]) {
			if i.hasBound[lin] && (target == nil || i.gen < target.gen) {
				target = i
			}
		}
		if target == nil || target.idx == 0 {
			return vlib.Res{Impl: "nozone", Oracle: "-"}
		}
		s.quiesce()
		s.race, s.raceLin = target, lin
		g := []string{"l3", "q", "sr-race." + target.name, "A"}
		if lin == 1 {
			g = append(g, "cd")
		}
		res := execQuery(s, g)
		s.race = nil
		return res
	case "audit":
		return vlib.Res{Impl: "ok", Oracle: s.finish("ok"), Tags: "l3"}
	}
	return vlib.Res{Impl: "bad-op"}
}

// markWithdrawn records that the parent stopped publishing this incarnation
// (and with it everything reachable only through it).
func (s *scenario) markWithdrawn(i *inst) {
	now := s.vnow()
	var rec func(x *inst)
	rec = func(x *inst) {
		if !x.withdrawn {
			x.withdrawn, x.withdrawnAt = true, now
		}
	}
	rec(i)
}

// ---- scenario generator

var leaseTTLs = []int{1, 2, 3, 5, 10, 30, 60, 300, 3600, 43199, 43200}
var longTTLs = []int{43201, 86400, 172800}

// strictDS: the CD=1 bucket of the delegation cache is judged by min(NS, DS) as
// well — the literal property text ("the smaller of the referral's NS and DS
// TTLs"). On the current tree that bucket retains no DS set and leases for the
// NS TTL; the two signatures this produces are recorded as known findings
// (l3/lease/cd1-bucket-ignores-ds-ttl, l3/reply/not-following-parent/cd1-lineage-live).
// They are reported only when nothing else is wrong with the same op, so they
// can never mask a different violation.
func strictDS() bool { return true }

func pickTTL(r *vlib.R) int {
	if r.Chance(1, 5) {
		return vlib.Pick(r, longTTLs)
	}
	switch r.Intn(4) {
	case 0:
		return vlib.Pick(r, []int{1, 2, 3, 5})
	case 1:
		return vlib.Pick(r, []int{10, 30, 60})
	}
	return vlib.Pick(r, leaseTTLs)
}

func genL3Case(r *vlib.R, n int, emit func(string)) int {
	cnt := 0
	e := func(s string) { emit(s); cnt++ }
	kind := n % 10
	depth := 2 + r.Intn(2)
	sec := r.Chance(3, 5)
	nsT := make([]int, depth)
	dsT := make([]int, depth)
	sg := ""
	for k := 0; k < depth; k++ {
		nsT[k], dsT[k] = pickTTL(r), pickTTL(r)
		if r.Chance(4, 5) {
			sg += "1"
		} else {
			sg += "0"
		}
	}
	attl := vlib.Pick(r, []int{1, 5, 60, 300, 86400, 86400})
	neg := vlib.Pick(r, []int{1, 60, 3600, 86400})
	pf := vlib.Pick(r, []int{0, 0, 10, 50, 90})
	qmin := vlib.Pick(r, []int{0, 0, 5})
	oob := 0
	vic := 1 + r.Intn(depth) // which level the parent withdraws / re-points
	quiet := false           // no queries between the parent's action and the lease end
	hotNeg := false          // NXDOMAIN / NODATA names are kept hot too
	aliases := false         // every alias of the victim zone is asked every time
	forceRepoint := false
	switch kind {
	case 0: // a 1–2 s lease against the 5 s cache floor
		nsT[vic-1] = 1 + r.Intn(2)
		attl, neg, quiet = 1, 1, true
	case 1: // DS TTL shorter than NS TTL on a validated chain
		sec, sg = true, "111"[:depth]
		nsT[vic-1], dsT[vic-1] = vlib.Pick(r, []int{60, 300, 3600}), vlib.Pick(r, []int{2, 5, 10})
	case 2: // the grandchild's own lease is longer than the child's
		depth = 3
		for len(nsT) < 3 {
			nsT, dsT, sg = append(nsT, 0), append(dsT, 0), sg+"1"
		}
		vic = 2
		nsT[1], dsT[1] = vlib.Pick(r, []int{3, 5, 10}), 3600
		nsT[2], dsT[2] = 3600, 3600
		if nsT[0] < 30 {
			nsT[0] = 300
		}
		if dsT[0] < 30 {
			dsT[0] = 300
		}
	case 3: // long-TTL answers kept hot with an aggressive prefetch threshold
		attl, pf = 86400, 90
		nsT[vic-1] = vlib.Pick(r, []int{5, 10, 30})
	case 9: // aliases in a long-lease zone pointing into a short-lease zone that denies barely
		aliases, forceRepoint = true, true
		if r.Chance(2, 3) {
			sec = false
		}
		nsT[vic-1], dsT[vic-1] = vlib.Pick(r, []int{5, 10, 30}), vlib.Pick(r, []int{10, 30, 300})
		if r.Chance(1, 2) {
			pf, hotNeg = vlib.Pick(r, []int{50, 90}), true
		}
	case 8: // hot NXDOMAIN / NODATA names with long SOA minimums, refreshed while the lease is live
		neg, pf, hotNeg = vlib.Pick(r, []int{300, 3600, 86400}), vlib.Pick(r, []int{50, 90}), true
		nsT[vic-1], dsT[vic-1] = vlib.Pick(r, []int{5, 10, 30}), vlib.Pick(r, []int{10, 30, 300})
	case 4: // name servers in a sibling zone (no glue: provisional entries, address lookups)
		oob = 1
		if depth == 2 && r.Chance(1, 2) {
			vic = 2
		}
	case 5: // strictly sequential pipeline: the exact ancestor comparison applies
		pf, qmin = 0, 0
	case 6: // the 12 h ceiling decides
		nsT[vic-1], dsT[vic-1] = vlib.Pick(r, []int{43199, 43200}), 43200
		attl, neg = 86400, 86400
	case 7: // NS/DS TTLs beyond the ceiling and data that lives longer than 12 h
		nsT[vic-1], dsT[vic-1] = vlib.Pick(r, longTTLs), vlib.Pick(r, longTTLs)
		if vic < depth {
			nsT[vic], dsT[vic] = vlib.Pick(r, longTTLs), vlib.Pick(r, longTTLs)
		}
		attl, neg = 86400, 86400
	}
	if kind == 4 && r.Chance(1, 2) {
		return genHosterCase(r, emit)
	}
	secI := 0
	if sec {
		secI = 1
	}
	join := func(xs []int) string {
		var p []string
		for _, x := range xs {
			p = append(p, fmt.Sprint(x))
		}
		return strings.Join(p, ",")
	}
	ecsOn := 0
	if r.Chance(1, 4) || (kind == 3 && r.Chance(1, 2)) {
		ecsOn = 1 // ECS-aware caching enabled: ECS clients take the cache writer's scope routes
	}
	e(fmt.Sprintf("l3 new d=%d sec=%d ns=%s ds=%s sg=%s attl=%d neg=%d pf=%d qmin=%d oob=%d ecs=%d k=%d",
		depth, secI, join(nsT), join(dsT), sg, attl, neg, pf, qmin, oob, ecsOn, kind))
	V := chainNames[vic-1]
	deepest := chainNames[depth-1]
	cdMode := 2 // 0 never, 1 always, 2 sometimes
	ecsMode := 2
	if kind == 3 || (kind == 8 && r.Chance(1, 2)) {
		ecsMode = 1 // every hot query (hence every prefetch claim) comes from an ECS client
	}
	fl := func() string {
		s := ""
		if r.Chance(1, 2) {
			s += " do"
		}
		if cdMode == 1 || (cdMode == 2 && r.Chance(1, 8)) {
			s += " cd"
		}
		if ecsMode == 1 || (ecsMode == 2 && r.Chance(1, 5)) {
			s += " ecs" // a client behind an ECS-adding forwarder: its hits may claim the prefetch
		}
		if r.Chance(1, 4) {
			s += " wire" // raw bytes on the UDP listener instead of a decoded message
		}
		return s
	}
	probes := func() {
		e("l3 q www." + V + " A" + fl())
		e("l3 q long." + V + " A" + fl())
		e("l3 q short." + V + " A" + fl())
		e("l3 q nx." + V + " A" + fl())
		e("l3 q www." + V + " AAAA" + fl())
		if sec {
			e("l3 q " + V + " DNSKEY do")
		}
		if vic < depth {
			e("l3 q " + chainNames[vic] + " DS" + fl())
			e("l3 q www." + deepest + " A" + fl())
			e("l3 q nx." + deepest + " A" + fl())
		}
		if aliases || r.Chance(1, 2) {
			// through the long-lived alias zone, and the names only every other incarnation has
			for _, pfx := range []string{"w", "f", "b", "p"} {
				if aliases || r.Chance(1, 2) {
					e(fmt.Sprintf("l3 q %s%d.al. A%s", pfx, vic, fl()))
				}
			}
			e("l3 q flip." + V + " A" + fl())
			e("l3 q bflip." + V + " A" + fl())
			if aliases || r.Chance(1, 2) {
				// below a DNAME in the alias zone: positive, NXDOMAIN (with SOA) and NODATA target legs
				e(fmt.Sprintf("l3 q flip.dn%d.al. A%s", vic, fl()))
				e(fmt.Sprintf("l3 q www.dn%d.al. AAAA%s", vic, fl()))
				e(fmt.Sprintf("l3 q www.dn%d.al. A%s", vic, fl()))
				e(fmt.Sprintf("l3 q flop.dn%d.al. A%s", vic, fl()))
			}
			if vic < depth && r.Chance(1, 2) {
				e(fmt.Sprintf("l3 q b%d.al. A%s", depth, fl()))
				e(fmt.Sprintf("l3 q w%d.al. A%s", depth, fl()))
			}
		}
	}
	// keep the names hot (prefetch) while the virtual clock advances in small steps
	hot := func(k int) {
		for i := 0; i < k; i++ {
			e(fmt.Sprintf("l3 adv %d", vlib.Pick(r, []int{50, 200, 400, 900, 1100})))
			e("l3 q www." + V + " A" + fl())
			if r.Chance(1, 2) {
				e("l3 q long." + V + " A" + fl())
			}
			if hotNeg || r.Chance(1, 3) {
				// denials are refreshed in the background like any other hot entry
				e("l3 q nx." + V + " A" + fl())
				e("l3 q www." + V + " AAAA" + fl())
			}
			if aliases {
				e(fmt.Sprintf("l3 q b%d.al. A%s", vic, fl()))
				e(fmt.Sprintf("l3 q f%d.al. A%s", vic, fl()))
				e(fmt.Sprintf("l3 q flip.dn%d.al. A%s", vic, fl()))
			}
			if vic < depth && r.Chance(1, 2) {
				e("l3 q www." + deepest + " A" + fl())
				if hotNeg {
					e("l3 q nx." + deepest + " A" + fl())
				}
			}
		}
	}
	// warm up: learn the whole chain and data at every level
	if kind == 0 {
		cdMode = 0
	}
	if pf == 0 && qmin == 0 && kind != 0 && r.Chance(2, 3) {
		// cold start with two questions crossing at the victim's referral
		e(fmt.Sprintf("l3 qcross %s %d%s", V, vlib.Pick(r, []int{300, 7200, 43200, 172800}), vlib.Pick(r, []string{"", "", " cd"})))
	}
	e("l3 q www." + deepest + " A" + fl())
	probes()
	if !quiet {
		if r.Chance(1, 2) {
			e("l3 behave " + V + " " + vlib.Pick(r, []string{"nsauth", "nschange"}))
		}
		if r.Chance(2, 3) {
			e("l3 q sr." + V + " A" + fl())
			e("l3 q up." + V + " A" + fl())
			e("l3 q " + V + " NS" + fl())
			e("l3 q www." + V + " A" + fl())
		}
		if hotNeg {
			hot(2 + r.Intn(3))
		} else {
			hot(r.Intn(4))
		}
	}
	if !quiet && pf > 0 && r.Chance(1, 3) {
		// the child starts failing: every background refresh of its hot names comes back SERVFAIL
		e("l3 behave " + V + " sfail")
		hot(1 + r.Intn(3))
	}
	// the parent acts
	if !forceRepoint && r.Chance(1, 2) {
		e("l3 withdraw " + V)
	} else {
		e(fmt.Sprintf("l3 repoint %s %s %d %d", V, vlib.Pick(r, []string{"same", "new"}), pickTTL(r), pickTTL(r)))
	}
	if !quiet {
		hot(r.Intn(3))
		if r.Chance(1, 2) {
			e("l3 q " + V + " NS" + fl())
			e("l3 q sr." + V + " A" + fl())
		}
		if r.Chance(1, 3) {
			// the lease runs out while the old servers are being asked; they answer with a self-referral
			e("l3 qrace " + V)
			e("l3 q www." + V + " A")
			e("l3 q long." + V + " A do")
		}
		// just before the lease end (no judgement possible: the old data may legitimately still be served)
		if r.Chance(1, 2) {
			e("l3 end " + V + " -1000")
			e("l3 q www." + V + " A" + fl())
		}
	}
	// just after the lease end (+ slack): the old delegation and everything learned through it is gone
	cdMode = 0
	e(fmt.Sprintf("l3 end %s %d", V, int(slack/time.Millisecond)+vlib.Pick(r, []int{1, 200, 1000})))
	probes()
	if r.Chance(1, 3) {
		// the CD=1 lineage (no DS set retained: the lease is the NS TTL)
		cdMode = 1
		e(fmt.Sprintf("l3 end %s %d cd", V, int(slack/time.Millisecond)+vlib.Pick(r, []int{1, 200, 1000})))
		probes()
	}
	cdMode = 2
	hot(r.Intn(2))
	switch r.Intn(3) {
	case 0:
		e("l3 adv 5000")
		probes()
	case 1:
		e("l3 adv 43200000")
		probes()
	}
	return cnt
}

// genHosterCase: the zone that HOSTS a glue-less delegation's name servers is the one
// the parent withdraws. What the internal name-server address lookups learned through
// it (and filed in the shared answer cache, in the CD partition they ran in) ends with
// its lease like anything else.
func genHosterCase(r *vlib.R, emit func(string)) int {
	cnt := 0
	e := func(s string) { emit(s); cnt++ }
	sec := r.Intn(2)
	sg := vlib.Pick(r, []string{"11", "10", "00"})
	e(fmt.Sprintf("l3 new d=2 sec=%d ns=%d,%d ds=3600,3600 sg=%s attl=300 neg=300 pf=%d qmin=0 oob=1 hns=%d k=4",
		sec, vlib.Pick(r, []int{3600, 86400}), vlib.Pick(r, []int{3600, 86400, 172800}), sg,
		vlib.Pick(r, []int{0, 0, 50}), vlib.Pick(r, []int{3, 5, 10, 30})))
	flags := []string{"", " do", " cd", " do cd"}
	e("l3 q www.vic.test. A" + vlib.Pick(r, flags))
	e("l3 q www.vic.test. A cd")
	e("l3 q long.vic.test. A")
	hostProbes := func(cd string) {
		e("l3 q ns1-vic.host.test. A" + cd)
		e("l3 q ns1-vic.host.test. A do" + cd)
		e("l3 q www.host.test. A" + cd)
		e("l3 q nx.host.test. A" + cd)
		e("l3 q ns1-vic.host.test. AAAA" + cd)
	}
	if r.Chance(1, 2) {
		hostProbes(vlib.Pick(r, []string{"", " cd"}))
	}
	for i := r.Intn(3); i > 0; i-- {
		e(fmt.Sprintf("l3 adv %d", vlib.Pick(r, []int{200, 900, 1100})))
		e("l3 q short.vic.test. A" + vlib.Pick(r, flags))
	}
	e("l3 withdraw host.test.")
	if r.Chance(1, 2) {
		e("l3 adv 900")
		e("l3 q ns1-vic.host.test. A" + vlib.Pick(r, []string{"", " cd"}))
	}
	e(fmt.Sprintf("l3 end host.test. %d", int(slack/time.Millisecond)+vlib.Pick(r, []int{1, 200, 1000})))
	hostProbes("")
	e(fmt.Sprintf("l3 end host.test. %d cd", int(slack/time.Millisecond)+vlib.Pick(r, []int{1, 200, 1000})))
	hostProbes(" cd")
	e("l3 q www.vic.test. A")
	return cnt
}
