//go:build verif

// Correspondence + witness-search driver for C08 (a delegation never
// outlives the lease its parent granted).
//
// Function level (compared line by line with the Lean model):
//
//	ac new | ac now T | ac set K TAG TTL | ac setuntil K TAG T|z | ac get K | ac remove K
//	mc A AK B BK | mnz A B | mttl L | nsttl L | lease OBS NS DS CUT CK KEY NOW2
//	meta new | meta bound T|z K | rem STORED TTL CUT|z NOW
//
// All times are signed nanoseconds relative to a fixed base instant; `z` is
// the zero time.Time ("unbounded"); TTL lists are comma separated seconds,
// `-` = empty.
//
// System level (oracle only; the model prints `unmodelled`): see l3.go.
package main

import (
	"fmt"
	"go/ast"
	"go/parser"
	"go/token"
	"os"
	"path/filepath"
	"strconv"
	"strings"
	"time"
	"unsafe"

	"github.com/miekg/dns"
	"github.com/semihalev/sdns/config"
	"github.com/semihalev/sdns/internal/authority"
	"github.com/semihalev/sdns/internal/verif/vlib"
	"github.com/semihalev/sdns/middleware"
	"github.com/semihalev/sdns/middleware/cache"
	"github.com/semihalev/sdns/middleware/resolver"
)

// base is the instant op-line time 0 stands for.
// base is the instant op-line time 0 stands for. It is a real clock reading, so it
// (and everything derived from it with Add) carries Go's MONOTONIC reading: op-line
// times are elapsed time, which is what a lease is measured in.
var base = time.Now()

// wallStep is how far the wall clock "was set back" for times written with a
// trailing `~` on an op line (NTP step, VM restored from a snapshot, `date -s`):
// same monotonic reading, wall reading one hour earlier. Nothing a lease is compared
// with may depend on it.
const wallStep = time.Hour

// stepWallBack fabricates t as the process would read it after the wall clock was
// set back by d: time.Time is {wall uint64; ext int64; loc *Location}; with the top
// bit of wall set, bits 30..62 are the wall seconds and ext the monotonic reading.
func stepWallBack(t time.Time, d time.Duration) (time.Time, bool) {
	type repr struct {
		wall uint64
		ext  int64
		loc  *time.Location
	}
	if unsafe.Sizeof(t) != unsafe.Sizeof(repr{}) {
		return t, false
	}
	stepped := t
	r := (*repr)(unsafe.Pointer(&stepped))
	if r.wall&(1<<63) == 0 {
		return t, false
	}
	r.wall -= uint64(d/time.Second) << 30
	if stepped.Sub(t) != 0 || t.Round(0).Sub(stepped.Round(0)) != d {
		return t, false
	}
	return stepped, true
}

func hasMono(t time.Time) bool { return strings.Contains(t.String(), " m=") }

// offs is the numeric part of an op-line time.
func offs(s string) int64 { return vlib.AtoI64(strings.TrimSuffix(s, "~")) }

const twelveH = int64(12 * 3600 * 1e9)

func parseT(s string) time.Time {
	if s == "z" {
		return time.Time{}
	}
	t := base.Add(time.Duration(offs(s)))
	if strings.HasSuffix(s, "~") {
		t, _ = stepWallBack(t, wallStep)
	}
	return t
}

func fmtT(t time.Time) string {
	if t.IsZero() {
		return "z"
	}
	return strconv.FormatInt(int64(t.Sub(base)), 10)
}

func parseTTLs(s string) []uint32 {
	if s == "-" || s == "" {
		return nil
	}
	var out []uint32
	for _, f := range strings.Split(s, ",") {
		out = append(out, uint32(vlib.AtoU64(f)))
	}
	return out
}

func dsRRs(ttls []uint32) []dns.RR {
	var out []dns.RR
	for i, t := range ttls {
		out = append(out, &dns.DS{Hdr: dns.RR_Header{Name: "child.example.", Rrtype: dns.TypeDS, Class: dns.ClassINET, Ttl: t},
			KeyTag: uint16(i + 1), Algorithm: 13, DigestType: 2, Digest: "00"})
	}
	return out
}

// ---- function-level state

var (
	ac     *authority.Cache
	acNow  time.Time
	refMap map[uint64][2]int64 // oracle's reference: key → (tag, expiry ns); written from the property text
	servs  map[uint64]*authority.Servers
	meta   *middleware.ResponseMeta
	replCache *cache.Cache
	glueRes   *resolver.Resolver
	metaIn []int64 // oracle: every non-zero deadline folded so far
)

func tagServers(tag uint64) *authority.Servers {
	return &authority.Servers{Zone: fmt.Sprintf("tag%d.", tag)}
}

func tagOf(s *authority.Servers) string {
	if s == nil {
		return "?"
	}
	return strings.TrimSuffix(strings.TrimPrefix(s.Zone, "tag"), ".")
}

func min64(a, b int64) int64 {
	if a < b {
		return a
	}
	return b
}

func execFn(f []string) vlib.Res {
	switch f[0] + " " + f[1] {
	case "ac new":
		ac = authority.NewCache()
		acNow = base
		authority.VerifC08SetNow(ac, func() time.Time { return acNow })
		refMap = map[uint64][2]int64{}
		return vlib.Res{Impl: "ok"}
	case "ac now":
		acNow = parseT(f[2])
		return vlib.Res{Impl: "ok"}
	case "ac set":
		key, tag, ttl := vlib.AtoU64(f[2]), vlib.AtoU64(f[3]), vlib.AtoI64(f[4])
		ac.Set(key, nil, tagServers(tag), time.Duration(ttl))
		// oracle: non-positive is not stored; otherwise expiry = now + min(ttl, 12 h)
		if ttl > 0 {
			refMap[key] = [2]int64{int64(tag), int64(acNow.Sub(base)) + min64(ttl, twelveH)}
		}
		return vlib.Res{Impl: "ok"}
	case "ac setuntil":
		key, tag := vlib.AtoU64(f[2]), vlib.AtoU64(f[3])
		t := parseT(f[4])
		ac.SetUntil(key, nil, tagServers(tag), t)
		now := int64(acNow.Sub(base))
		if f[4] != "z" {
			if e := offs(f[4]); e > now {
				refMap[key] = [2]int64{int64(tag), min64(e, now+twelveH)}
			}
		}
		return vlib.Res{Impl: "ok"}
	case "ac remove":
		key := vlib.AtoU64(f[2])
		ac.Remove(key)
		delete(refMap, key)
		return vlib.Res{Impl: "ok"}
	case "ac get":
		key := vlib.AtoU64(f[2])
		d, err := ac.Get(key)
		now := int64(acNow.Sub(base))
		var impl string
		switch {
		case err == nil:
			impl = fmt.Sprintf("ok tag=%s exp=%s", tagOf(d.Servers), fmtT(d.ExpiresAt))
		case strings.Contains(err.Error(), "expired"):
			impl = "expired"
		default:
			impl = "notfound"
		}
		want := "notfound"
		if r, ok := refMap[key]; ok {
			if now < r[1] {
				want = fmt.Sprintf("ok tag=%d exp=%d", r[0], r[1])
			} else {
				want = "expired"
			}
		}
		or := "ok"
		if impl != want {
			reason := "wrong-entry"
			switch {
			case strings.HasPrefix(impl, "ok") && want == "expired":
				reason = "visible-at-or-after-expiry"
			case strings.HasPrefix(impl, "ok") && strings.HasPrefix(want, "ok"):
				reason = "deadline-differs"
				var a, b, c, d2 int64
				fmt.Sscanf(impl, "ok tag=%d exp=%d", &a, &b)
				fmt.Sscanf(want, "ok tag=%d exp=%d", &c, &d2)
				if b > d2 {
					reason = "deadline-later-than-granted"
				}
			case strings.HasPrefix(impl, "ok") && want == "notfound":
				reason = "stored-non-positive-or-past"
			}
			or = fmt.Sprintf("FAIL sig=authority.Cache/get/%s want=%q got=%q", reason, want, impl)
		}
		return vlib.Res{Impl: impl, Oracle: or, Tags: "nt"}
	}
	if f[1] == "new" {
		switch f[0] {
		case "mc", "mnz", "mttl", "nsttl", "lease", "rem", "repl", "dpx", "wr", "hit", "glue", "vref":
			return vlib.Res{Impl: "ok"} // case header of a stateless group (shrinker anchor)
		}
	}
	switch f[0] {
	case "mc":
		a, ak, b, bk := parseT(f[1]), vlib.AtoU64(f[2]), parseT(f[3]), vlib.AtoU64(f[4])
		t, k := resolver.VerifC08MinCut(a, ak, b, bk)
		or := "ok"
		// property: the earliest bounded cut wins; never later than any bounded input
		switch {
		case !a.IsZero() && (t.IsZero() || t.After(a)), !b.IsZero() && (t.IsZero() || t.After(b)):
			or = "FAIL sig=resolver.minCut/later-than-an-input"
		case !t.IsZero() && !t.Equal(a) && !t.Equal(b):
			or = "FAIL sig=resolver.minCut/invented-deadline"
		case !t.IsZero() && !((t.Equal(a) && k == ak) || (t.Equal(b) && k == bk)):
			or = "FAIL sig=resolver.minCut/identity-mismatch"
		}
		return vlib.Res{Impl: fmtT(t) + " " + strconv.FormatUint(k, 10), Oracle: or, Tags: "nt"}
	case "mnz":
		a, b := parseT(f[1]), parseT(f[2])
		t := resolver.VerifC08MinNonZero(a, b)
		or := "ok"
		if (!a.IsZero() && (t.IsZero() || t.After(a))) || (!b.IsZero() && (t.IsZero() || t.After(b))) {
			or = "FAIL sig=resolver.minNonZero/later-than-an-input"
		} else if !t.IsZero() && !t.Equal(a) && !t.Equal(b) {
			or = "FAIL sig=resolver.minNonZero/invented-deadline"
		}
		return vlib.Res{Impl: fmtT(t), Oracle: or, Tags: "nt"}
	case "mttl":
		ttls := parseTTLs(f[1])
		got := resolver.VerifC08MinRRSetTTL(dsRRs(ttls))
		or := "ok"
		for _, t := range ttls {
			if got > t {
				or = "FAIL sig=resolver.minRRSetTTL/not-the-minimum"
			}
		}
		return vlib.Res{Impl: strconv.FormatUint(uint64(got), 10), Oracle: or, Tags: "nt"}
	case "nsttl":
		// NS RRset of a referral: entries "<ttl>" (coherent) or "<ttl>x" (other owner)
		m := new(dns.Msg)
		m.SetQuestion("www.child.example.", dns.TypeA)
		var coherentMin uint32
		first := true
		anyOther := false
		if f[1] != "-" {
			for i, e := range strings.Split(f[1], ",") {
				other := strings.HasSuffix(e, "x")
				ttl := uint32(vlib.AtoU64(strings.TrimSuffix(e, "x")))
				owner := "child.example."
				if other && i > 0 {
					owner = "other.example."
					anyOther = true
				}
				if !(other && i > 0) {
					if first || ttl < coherentMin {
						coherentMin = ttl
					}
					first = false
				}
				m.Ns = append(m.Ns, &dns.NS{Hdr: dns.RR_Header{Name: owner, Rrtype: dns.TypeNS, Class: dns.ClassINET, Ttl: ttl}, Ns: fmt.Sprintf("ns%d.child.example.", i)})
			}
		}
		ttl, _, hasNS, _, incoh := resolver.VerifC08DelegationInfo(m)
		or := "ok"
		if hasNS && ttl != coherentMin {
			or = fmt.Sprintf("FAIL sig=resolver.extractDelegationInfo/ns-ttl-not-minimum want=%d got=%d", coherentMin, ttl)
		}
		if incoh != anyOther {
			or = "FAIL sig=resolver.extractDelegationInfo/incoherent-flag"
		}
		return vlib.Res{Impl: fmt.Sprintf("%d %s %s", ttl, vlib.B(hasNS), vlib.B(incoh)), Oracle: or, Tags: "nt"}
	case "lease":
		// the lease computation of processDelegation spelled with the REAL helpers:
		// observedAt, NS ttl, retained DS ttls, ancestor cut → minCut → SetUntil at NOW2 → Get
		obs := parseT(f[1])
		nsTTL := uint32(vlib.AtoU64(f[2]))
		ds := parseTTLs(f[3])
		cut, cutKey, key := parseT(f[4]), vlib.AtoU64(f[5]), vlib.AtoU64(f[6])
		now2 := parseT(f[7])
		leaseDeadline := obs.Add(time.Duration(nsTTL) * time.Second)
		if ceiling := obs.Add(authority.VerifC08LeaseCeiling()); leaseDeadline.After(ceiling) {
			leaseDeadline = ceiling
		}
		if len(ds) > 0 {
			if dsDeadline := obs.Add(time.Duration(resolver.VerifC08MinRRSetTTL(dsRRs(ds))) * time.Second); dsDeadline.Before(leaseDeadline) {
				leaseDeadline = dsDeadline
			}
		}
		childDeadline, childKey := resolver.VerifC08MinCut(cut, cutKey, leaseDeadline, key)
		c := authority.NewCache()
		authority.VerifC08SetNow(c, func() time.Time { return now2 })
		c.SetUntil(key, nil, tagServers(1), childDeadline)
		stored := "none"
		var storedT time.Time
		if d, err := c.Get(key); err == nil {
			stored = fmtT(d.ExpiresAt)
			storedT = d.ExpiresAt
		}
		// oracle from the property text: min(NS, DS) from observation, ancestors, 12 h ceiling
		or := "ok"
		if stored != "none" {
			o := int64(obs.Sub(base))
			lim := o + int64(nsTTL)*1e9
			for _, t := range ds {
				lim = min64(lim, o+int64(t)*1e9)
			}
			if !cut.IsZero() {
				lim = min64(lim, int64(cut.Sub(base)))
			}
			lim = min64(lim, o+twelveH) // the ceiling is measured from the observation
			lim = min64(lim, int64(now2.Sub(base))+twelveH)
			if got := int64(storedT.Sub(base)); got > lim {
				or = fmt.Sprintf("FAIL sig=lease/stored-later-than-granted limit=%d got=%d", lim, got)
			}
		}
		return vlib.Res{Impl: fmt.Sprintf("cut=%s key=%d stored=%s", fmtT(childDeadline), childKey, stored), Oracle: or, Tags: "nt"}
	case "meta":
		if f[1] == "new" {
			meta = new(middleware.ResponseMeta)
			metaIn = nil
			return vlib.Res{Impl: "ok"}
		}
		t, k := parseT(f[2]), vlib.AtoU64(f[3])
		meta.BoundCutFor(t, k)
		if !t.IsZero() {
			metaIn = append(metaIn, int64(t.Sub(base)))
		}
		got, gk := meta.Cut()
		or := "ok"
		if len(metaIn) == 0 {
			if !got.IsZero() {
				or = "FAIL sig=ResponseMeta.BoundCutFor/bounded-from-nothing"
			}
		} else {
			m := metaIn[0]
			for _, x := range metaIn {
				m = min64(m, x)
			}
			if got.IsZero() || int64(got.Sub(base)) != m {
				or = fmt.Sprintf("FAIL sig=ResponseMeta.BoundCutFor/not-the-earliest want=%d got=%s", m, fmtT(got))
			}
		}
		return vlib.Res{Impl: fmtT(got) + " " + strconv.FormatUint(gk, 10), Oracle: or, Tags: "nt"}
	case "vref":
		// the REAL validReferral (the guard in front of the delegation cache, also applied when a lookup
		// picks its winner): vref <referral> <zone asked> <qname> <ns|nons> <coh|incoh> <in|ch>
		// names: dotted labels leaf first, any letter case, `.` = root
		fq := func(x string) string {
			if x == "." {
				return "."
			}
			return strings.Trim(x, ".") + "."
		}
		ref, auth, qn := fq(f[1]), fq(f[2]), fq(f[3])
		resp := new(dns.Msg)
		resp.SetQuestion(qn, dns.TypeA)
		class := uint16(dns.ClassINET)
		if f[6] == "ch" {
			class = dns.ClassCHAOS
		}
		if f[4] == "ns" {
			resp.Ns = append(resp.Ns, &dns.NS{Hdr: dns.RR_Header{Name: ref, Rrtype: dns.TypeNS, Class: class, Ttl: 60}, Ns: "ns1." + strings.TrimPrefix(ref, ".")})
			if f[5] == "incoh" {
				resp.Ns = append(resp.Ns, &dns.NS{Hdr: dns.RR_Header{Name: "other.example.", Rrtype: dns.TypeNS, Class: class, Ttl: 60}, Ns: "ns2.other.example."})
			}
		}
		got := resolver.VerifC08ValidReferral(resp, auth, dns.Question{Name: qn, Qtype: dns.TypeA, Qclass: dns.ClassINET})
		// oracle, spelled on strings: accepted only if it names a zone STRICTLY below the zone asked and at or above qname
		labels := func(x string) []string {
			x = strings.ToLower(strings.Trim(x, "."))
			if x == "" {
				return nil
			}
			l := strings.Split(x, ".")
			for i, j := 0, len(l)-1; i < j; i, j = i+1, j-1 {
				l[i], l[j] = l[j], l[i]
			}
			return l // root first
		}
		pre := func(a, b []string) bool {
			if len(a) > len(b) {
				return false
			}
			for i := range a {
				if a[i] != b[i] {
					return false
				}
			}
			return true
		}
		lr, la, lq := labels(ref), labels(auth), labels(qn)
		want := f[4] == "ns" && f[5] == "coh" && f[6] == "in" && pre(la, lr) && len(la) < len(lr) && pre(lr, lq)
		or := "ok"
		if got != want {
			why := "rejected-a-progressing-referral"
			if got {
				why = "accepted-a-non-progressing-referral"
				switch {
				case len(lr) == len(la) && pre(la, lr):
					why = "accepted-a-self-referral"
				case pre(lr, la):
					why = "accepted-an-upward-referral"
				case !pre(lr, lq):
					why = "accepted-an-off-path-referral"
				}
			}
			or = "FAIL sig=validReferral/" + why
		}
		return vlib.Res{Impl: vlib.B(got), Oracle: or, Tags: "nt,vref"}
	case "hit":
		// a cache hit folds the entry's lifetime into the request: hit <have|z> <stored> <ttl ns> <cut|z> <cutKey>
		have, stored, ttl, cut, ck := parseT(f[1]), parseT(f[2]), time.Duration(vlib.AtoI64(f[3])), parseT(f[4]), vlib.AtoU64(f[5])
		got, gk := cache.VerifC08EntryBound(have, stored, ttl, cut, ck)
		or := "ok"
		end := stored.Add(ttl)
		switch {
		case got.IsZero():
			or = "FAIL sig=cache-hit/request-not-bounded-by-entry"
		case got.After(end):
			or = "FAIL sig=cache-hit/request-outlives-entry-ttl"
		case !cut.IsZero() && got.After(cut):
			or = "FAIL sig=cache-hit/request-outlives-entry-cut"
		case !have.IsZero() && got.After(have):
			or = "FAIL sig=cache-hit/request-bound-raised"
		}
		return vlib.Res{Impl: fmt.Sprintf("%s %d", fmtT(got), gk), Oracle: or, Tags: "nt"}
	case "glue":
		// the referral's glue is what the parent says now: glue <octet in the glue cache|0> <octet in the referral|0>
		if glueRes == nil {
			cfg := new(config.Config)
			cfg.RootServers = []string{"192.0.2.250:53"}
			cfg.Maxdepth = 30
			cfg.DNSSEC = "off"
			cfg.Directory = "/verif/build/tmp-l3"
			glueRes = resolver.NewResolver(cfg)
		}
		servers, inCache := resolver.VerifC08Glue(glueRes, byte(vlib.Atoi(f[1])), byte(vlib.Atoi(f[2])))
		or := "ok"
		ref := vlib.Atoi(f[2])
		if ref != 0 {
			if len(servers) != 1 || servers[0] != ref {
				or = fmt.Sprintf("FAIL sig=checkGlueRR/referral-glue-not-used servers=%v want=%d", servers, ref)
			} else if len(inCache) != 1 || inCache[0] != ref {
				or = fmt.Sprintf("FAIL sig=checkGlueRR/stale-address-kept-in-glue-cache cache=%v want=%d", inCache, ref)
			}
		}
		return vlib.Res{Impl: fmt.Sprintf("servers=%v cache=%v", servers, inCache), Oracle: or, Tags: "nt"}
	case "wr":
		// every REAL write entry point of the answer cache keeps the delegation cut it is handed:
		// wr <key|subq|scoped|prefetch|prefetch-ecs> <pos|nx|nodata> <ttl s> <cut|z> <cutKey> <ecs cap s>
		cut, ck := parseT(f[4]), vlib.AtoU64(f[5])
		capd := time.Duration(vlib.AtoI64(f[6])) * time.Second
		gotCut, gotKey, found := cache.VerifC08Write(f[1], f[2], uint32(vlib.AtoU64(f[3])), cut, ck, capd)
		impl := "none"
		or := "ok"
		if found {
			impl = fmt.Sprintf("cut=%s key=%d", fmtT(gotCut), gotKey)
			if !cut.IsZero() {
				switch {
				case gotCut.IsZero():
					or = fmt.Sprintf("FAIL sig=cache-write/%s/drops-cut/%s", f[1], f[2])
				case gotCut.After(cut):
					or = fmt.Sprintf("FAIL sig=cache-write/%s/extends-cut/%s", f[1], f[2])
				}
			}
		}
		return vlib.Res{Impl: impl, Oracle: or, Tags: "nt,wr-" + f[1]}
	case "dpx":
		// lifetime of a denial proof the cache synthesizes from (RFC 8198 index; the RFC 8020 cut uses the same bounds):
		// dpx <now> <maxTTL s> <cut|z> <soa ttl> <soa minimum> <nsec ttls|->
		now, maxTTL, cut := parseT(f[1]), time.Duration(vlib.AtoI64(f[2]))*time.Second, parseT(f[3])
		soaTTL, soaMin, nsec := uint32(vlib.AtoU64(f[4])), uint32(vlib.AtoU64(f[5])), parseTTLs(f[6])
		exp, ok := cache.VerifC08DenialProofExpiry(now, maxTTL, cut, soaTTL, soaMin, nsec)
		impl := "none"
		or := "ok"
		if ok {
			impl = fmtT(exp)
			// property: a synthesized denial ends with the lease it was learned through, and with every proof component
			switch {
			case !cut.IsZero() && exp.After(cut):
				or = "FAIL sig=denialProofExpiry/outlives-cut"
			case exp.After(now.Add(time.Duration(soaMin)*time.Second)) || exp.After(now.Add(time.Duration(soaTTL)*time.Second)):
				or = "FAIL sig=denialProofExpiry/outlives-soa"
			}
		}
		return vlib.Res{Impl: impl, Oracle: or, Tags: "nt"}
	case "repl":
		// the prefetch write-back on the REAL Store.ReplaceIfCurrent:
		// repl <have> <kind> <ttl s> <cut of the claimed entry|z> <cut of the refresh|z> <cutKey>
		if replCache == nil {
			replCache = cache.New(&config.Config{CacheSize: 1024, Expire: 600})
		}
		have, kind := f[1], f[2]
		ttl := uint32(vlib.AtoU64(f[3]))
		haveCut, cut, ck := parseT(f[4]), parseT(f[5]), vlib.AtoU64(f[6])
		replaced, gotCut, gotKey, found := cache.VerifC08Replace(replCache, have, kind, ttl, haveCut, cut, ck)
		impl := "replaced=" + vlib.B(replaced) + " none"
		if found {
			impl = fmt.Sprintf("replaced=%s cut=%s key=%d", vlib.B(replaced), fmtT(gotCut), gotKey)
		}
		// oracle (property text): what a background refresh writes is still bounded by the
		// lease it was learned through — never unbounded, never later than the refresh's cut
		or := "ok"
		if found && !cut.IsZero() {
			switch {
			case gotCut.IsZero():
				or = fmt.Sprintf("FAIL sig=Store.ReplaceIfCurrent/refresh-drops-cut/%s have=%s", kind, have)
			case gotCut.After(cut):
				or = fmt.Sprintf("FAIL sig=Store.ReplaceIfCurrent/refresh-extends-cut/%s have=%s", kind, have)
			}
		}
		return vlib.Res{Impl: impl, Oracle: or, Tags: "nt"}
	case "rem":
		stored, ttl, cut, now := parseT(f[1]), vlib.AtoI64(f[2]), parseT(f[3]), parseT(f[4])
		got := int64(cache.VerifC08Remaining(stored, time.Duration(ttl), cut, now, f[5:]...))
		or := "ok"
		if !cut.IsZero() && got > int64(cut.Sub(now)) {
			or = "FAIL sig=CacheEntry.remaining/outlives-cut"
		} else if got > ttl-int64(now.Sub(stored)) {
			or = "FAIL sig=CacheEntry.remaining/outlives-ttl"
		}
		return vlib.Res{Impl: strconv.FormatInt(got, 10), Oracle: or, Tags: "nt"}
	}
	return vlib.Res{Impl: "bad-op"}
}

func exec(op string) vlib.Res {
	f := strings.Fields(op)
	if len(f) < 2 {
		return vlib.Res{Impl: "bad-op"}
	}
	if f[0] == "l3" {
		return execL3(f)
	}
	if f[0] == "ev" {
		return execEv(f)
	}
	return execFn(f)
}

// ---- generator

var ttlPool = []int64{-5, -1, 0, 1, 2, 5, 60, 3600, 43199, 43200, 43201, 86400, 604800}

// tilde marks a time as read after the wall clock was stepped back (see wallStep)
func tilde(r *vlib.R, t string) string {
	if t != "z" && r.Chance(1, 4) {
		return t + "~"
	}
	return t
}

func genT(r *vlib.R, around []int64) string { return tilde(r, genT0(r, around)) }

func genT0(r *vlib.R, around []int64) string {
	if r.Chance(1, 8) {
		return "z"
	}
	if len(around) > 0 && r.Chance(1, 2) {
		return strconv.FormatInt(vlib.Pick(r, around)+int64(r.Range(-1, 1)), 10)
	}
	switch r.Intn(4) {
	case 0:
		return strconv.FormatInt(int64(r.Range(-3, 3))*1e9, 10)
	case 1:
		return strconv.FormatInt(vlib.Pick(r, ttlPool)*1e9+int64(r.Range(-1, 1)), 10)
	case 2:
		return strconv.FormatInt(twelveH+int64(r.Range(-2, 2)), 10)
	}
	return strconv.FormatInt(int64(r.Intn(200000))*1e9+int64(r.Intn(1000)), 10)
}

func genTTLs(r *vlib.R, allowEmpty bool) string {
	n := r.Intn(4)
	if !allowEmpty && n == 0 {
		n = 1
	}
	if n == 0 {
		return "-"
	}
	var p []string
	for i := 0; i < n; i++ {
		p = append(p, strconv.Itoa(vlib.Pick(r, []int{0, 1, 2, 3, 5, 30, 60, 300, 3600, 43199, 43200, 43201, 86400, 172800, 4294967295})))
	}
	return strings.Join(p, ",")
}

func genFnCase(r *vlib.R, emit func(string)) int {
	n := 0
	e := func(s string) { emit(s); n++ }
	switch r.Intn(13) {
	case 12: // the referral guard
		e("vref new")
		lab := func() string { return vlib.Pick(r, []string{"a", "B", "c", "Vic", "test", "TEST", "x9"}) }
		for i := 0; i < 10; i++ {
			depth := 1 + r.Intn(4)
			var q []string // root first
			for j := 0; j < depth; j++ {
				q = append(q, lab())
			}
			show := func(l []string) string {
				if len(l) == 0 {
					return "."
				}
				var p []string
				for j := len(l) - 1; j >= 0; j-- {
					x := l[j]
					if r.Chance(1, 4) {
						x = strings.ToUpper(x)
					}
					p = append(p, x)
				}
				return strings.Join(p, ".")
			}
			authLen := r.Intn(depth + 1)
			auth := q[:authLen]
			var ref []string
			switch r.Intn(7) {
			case 0: // self
				ref = auth
			case 1: // upward
				ref = auth[:r.Intn(authLen+1)]
			case 2: // sideways
				ref = append(append([]string(nil), auth...), "zz")
			case 3: // off path deeper
				ref = append(append([]string(nil), q...), lab())
			case 4: // unrelated
				ref = []string{"other", lab()}
			default: // progressing
				if authLen < depth {
					ref = q[:authLen+1+r.Intn(depth-authLen)]
				} else {
					ref = q
				}
			}
			e(fmt.Sprintf("vref %s %s %s %s %s %s", show(ref), show(auth), show(q), vlib.Pick(r, []string{"ns", "ns", "ns", "nons"}),
				vlib.Pick(r, []string{"coh", "coh", "coh", "incoh"}), vlib.Pick(r, []string{"in", "in", "in", "ch"})))
		}
	case 11: // cache hits bound the request; referral glue vs the glue cache
		e("hit new")
		for i := 0; i < 6; i++ {
			stored := int64(r.Intn(1000)) * 1e9
			ttl := vlib.Pick(r, []int64{5e9, 1e9, 60e9, 3600e9, 86400e9})
			cut := "z"
			if r.Chance(3, 4) {
				cut = tilde(r, fmt.Sprint(stored+vlib.Pick(r, []int64{1e9, 2e9, 5e9, 5e9, 60e9, 3600e9})+int64(r.Range(-1, 1))))
			}
			have := "z"
			if r.Chance(1, 2) {
				have = fmt.Sprint(stored + vlib.Pick(r, []int64{1e9, 3e9, 5e9, 30e9, 7200e9}))
			}
			e(fmt.Sprintf("hit %s %d %d %s %d", have, stored, ttl, cut, 1+r.Intn(9)))
		}
		e("glue new")
		for i := 0; i < 4; i++ {
			e(fmt.Sprintf("glue %d %d", vlib.Pick(r, []int{0, 11, 12}), vlib.Pick(r, []int{0, 11, 12, 13})))
		}
	case 10: // the write entry points of the answer cache
		e("wr new")
		for i := 0; i < 6; i++ {
			cut := "z"
			if r.Chance(5, 6) {
				// relative to the real clock at op time: the scoped ECS cap is measured from time.Now()
				cut = tilde(r, fmt.Sprint(vlib.Pick(r, []int64{2e9, 30e9, 300e9, 3600e9, 86400e9})+int64(r.Range(-1, 1))))
			}
			path := vlib.Pick(r, []string{"key", "subq", "scoped", "scoped", "prefetch", "prefetch-ecs"})
			kind := vlib.Pick(r, []string{"pos", "nx", "nodata"})
			if strings.HasPrefix(path, "prefetch") && r.Chance(1, 2) {
				// the refresh comes back with another kind of answer — or fails
				kind += ">" + vlib.Pick(r, []string{"pos", "nx", "nodata", "servfail", "servfail"})
			}
			e(fmt.Sprintf("wr %s %s %d %s %d %d", path, kind, vlib.Pick(r, []int{1, 60, 300, 86400}), cut, 1+r.Intn(9), vlib.Pick(r, []int{0, 0, 1, 60, 3600, 86400})))
		}
	case 9: // synthesized denials
		e("dpx new")
		for i := 0; i < 8; i++ {
			now := int64(r.Intn(100000)) * 1e9
			cut := "z"
			if r.Chance(3, 4) {
				cut = tilde(r, fmt.Sprint(now+vlib.Pick(r, []int64{-1e9, 0, 1, 1e9, 2e9, 5e9, 30e9, 300e9, 3600e9, 86400e9})+int64(r.Range(-1, 1))))
			}
			e(fmt.Sprintf("dpx %s %d %s %d %d %s", tilde(r, fmt.Sprint(now)), vlib.Pick(r, []int{0, -1, 5, 60, 3600, 10800, 10801, 86400}), cut,
				vlib.Pick(r, []int{0, 1, 5, 300, 3600, 86400}), vlib.Pick(r, []int{0, 1, 5, 300, 3600, 86400}), genTTLs(r, true)))
		}
	case 8: // prefetch write-back
		e("repl new")
		for i := 0; i < 8; i++ {
			kinds := []string{"pos", "nx", "nodata", "servfail"}
			cut := genT(r, nil)
			e(fmt.Sprintf("repl %s %s %d %s %s %d", vlib.Pick(r, kinds), vlib.Pick(r, kinds), vlib.Pick(r, []int{1, 5, 60, 300, 86400}), genT(r, nil), cut, 1+r.Intn(9)))
		}
	case 0, 1: // authority cache history
		e("ac new")
		stepped := false
		now := int64(0)
		var marks []int64
		k := 6 + r.Intn(14)
		for i := 0; i < k; i++ {
			key := r.Intn(3) + 1
			switch r.Intn(7) {
			case 0:
				ttl := vlib.Pick(r, ttlPool)*1e9 + int64(r.Range(-1, 1))
				e(fmt.Sprintf("ac set %d %d %d", key, i+1, ttl))
				marks = append(marks, now+ttl, now+twelveH)
			case 1, 2:
				var t string
				switch r.Intn(4) {
				case 0:
					t = strconv.FormatInt(now+int64(r.Range(-2, 2)), 10)
				case 1:
					t = strconv.FormatInt(now+twelveH+int64(r.Range(-2, 2)), 10)
				default:
					t = genT(r, marks)
				}
				e(fmt.Sprintf("ac setuntil %d %d %s", key, i+1, t))
				if t != "z" {
					marks = append(marks, offs(t))
				}
				marks = append(marks, now+twelveH)
			case 3:
				// move the clock forward: to a boundary ±1 ns, or by a random amount
				if len(marks) > 0 && r.Chance(2, 3) {
					if m := vlib.Pick(r, marks) + int64(r.Range(-1, 1)); m > now {
						now = m
					}
				} else {
					now += int64(r.Intn(5000)) * 1e9
				}
				if r.Chance(1, 6) {
					stepped = !stepped // the wall clock is set back (or forward again) while leases are live
				}
				if stepped {
					e(fmt.Sprintf("ac now %d~", now))
				} else {
					e(fmt.Sprintf("ac now %d", now))
				}
			case 4:
				if r.Chance(1, 4) {
					e(fmt.Sprintf("ac remove %d", key))
				} else {
					e(fmt.Sprintf("ac get %d", key))
				}
			default:
				e(fmt.Sprintf("ac get %d", key))
			}
		}
		for key := 1; key <= 3; key++ {
			e(fmt.Sprintf("ac get %d", key))
		}
	case 2:
		e("mc new")
		e("mnz new")
		for i := 0; i < 8; i++ {
			a := genT(r, nil)
			var around []int64
			if a != "z" {
				around = []int64{offs(a)}
			}
			e(fmt.Sprintf("mc %s %d %s %d", a, r.Intn(5), genT(r, around), 5+r.Intn(5)))
			e(fmt.Sprintf("mnz %s %s", a, genT(r, around)))
		}
	case 3:
		e("mttl new")
		e("nsttl new")
		for i := 0; i < 6; i++ {
			e("mttl " + genTTLs(r, true))
			// NS RRset with possibly foreign-owner records mixed in
			k := r.Intn(5)
			if k == 0 {
				e("nsttl -")
				continue
			}
			var p []string
			for j := 0; j < k; j++ {
				s := strconv.Itoa(vlib.Pick(r, []int{0, 1, 2, 30, 300, 3600, 86400}))
				if j > 0 && r.Chance(1, 4) {
					s += "x"
				}
				p = append(p, s)
			}
			e("nsttl " + strings.Join(p, ","))
		}
	case 4, 5: // lease computation
		e("lease new")
		for i := 0; i < 8; i++ {
			obs := int64(r.Intn(100000)) * 1e9
			ns := vlib.Pick(r, []int{0, 1, 2, 5, 60, 300, 3600, 43199, 43200, 43201, 86400, 172800})
			ds := genTTLs(r, true)
			cut := "z"
			if r.Chance(2, 3) {
				switch r.Intn(4) {
				case 0:
					cut = strconv.FormatInt(obs+int64(ns)*1e9+int64(r.Range(-1, 1)), 10)
				case 1:
					cut = strconv.FormatInt(obs+int64(r.Intn(4000))*1e9, 10)
				case 2:
					cut = strconv.FormatInt(obs+twelveH+int64(r.Range(-1, 1)), 10)
				default:
					cut = strconv.FormatInt(obs-int64(r.Intn(3))*1e9, 10)
				}
			}
			// SetUntil happens later than the observation (validation latency)
			now2 := obs + vlib.Pick(r, []int64{0, 1, 5e6, 1e9, 2e9, 5e9, int64(ns) * 1e9, int64(ns)*1e9 - 1})
			e(fmt.Sprintf("lease %d %d %s %s %d %d %s", obs, ns, ds, tilde(r, cut), 7, 9, tilde(r, fmt.Sprint(now2))))
		}
	case 6:
		e("meta new")
		var seen []int64
		for i := 0; i < 4+r.Intn(6); i++ {
			t := genT(r, seen)
			if t != "z" {
				seen = append(seen, offs(t))
			}
			e(fmt.Sprintf("meta bound %s %d", t, r.Intn(9)))
		}
	default:
		e("rem new")
		for i := 0; i < 8; i++ {
			stored := int64(r.Intn(1000)) * 1e9
			ttl := vlib.Pick(r, []int64{5e9, 1e9, 60e9, 86400e9, 3600e9})
			cut := "z"
			if r.Chance(3, 4) {
				cut = strconv.FormatInt(stored+vlib.Pick(r, []int64{1e9, 2e9, 5e9, 4e9, 6e9, 60e9, 3600e9, -1e9})+int64(r.Range(-1, 1)), 10)
			}
			now := stored + vlib.Pick(r, []int64{0, 1e9, 2e9, 2e9 - 1, 2e9 + 1, 5e9, 5e9 - 1, 60e9, 86400e9}) + int64(r.Range(-1, 1))
			if cut != "z" && r.Chance(1, 3) {
				// just after the cut (milliseconds: a refresh "about to land")
				now = offs(cut) + vlib.Pick(r, []int64{0, 1, 1e6, 100e6, 249e6, 250e6, 251e6, 900e6})
			}
			state := ""
			for _, st := range []string{"claimed", "scoped", "limited", "orig"} {
				if r.Chance(1, 3) {
					state += " " + st // non-time state of the entry (a claimed refresh, …): irrelevant to its deadline
				}
			}
			e(fmt.Sprintf("rem %d %d %s %s%s", stored, ttl, tilde(r, cut), tilde(r, fmt.Sprint(now)), state))
		}
	}
	return n
}

func gen(r *vlib.R, n int, tier string, emit func(string)) {
	// system-level scenarios first (they carry the property), then the
	// function-level correspondence stream fills the op budget.
	scen := 150
	if tier == "thorough" {
		scen = 2500
	}
	if v := os.Getenv("VERIF_C08_SCEN"); v != "" {
		scen = vlib.Atoi(v)
	}
	used := 0
	for i := 0; i < scen; i++ {
		used += genL3Case(r, i, emit)
	}
	closeScen()
	// the real-time cases (≈1.5 s of wall clock each): a couple per run
	slow := 2
	if tier == "thorough" {
		slow = 6
	}
	emit(fmt.Sprintf("l3 lostprobe lease=%d ttl=%d", vlib.Pick(r, []int{5, 20, 60}), vlib.Pick(r, []int{3600, 43200, 172800})))
	emit(fmt.Sprintf("l3 slowval delay=%d ttl=%d", vlib.Pick(r, []int{1500, 1800}), vlib.Pick(r, []int{2, 3, 5})))
	emit(fmt.Sprintf("l3 inflight delay=%d", vlib.Pick(r, []int{1600, 1800})))
	if tier == "thorough" {
		emit("l3 slowval delay=2000 ttl=2")
		emit("l3 inflight delay=1700")
	}
	for i := 0; i < slow; i++ {
		emit(fmt.Sprintf("l3 slowref sec=%d delay=%d act=%s", r.Intn(2), vlib.Pick(r, []int{1200, 1300, 1500}), vlib.Pick(r, []string{"withdraw", "repoint"})))
	}
	fn := n
	if fn < 1500 {
		fn = 1500
	}
	for fn > 0 {
		if r.Chance(1, 3) {
			fn -= genEvCase(r, emit)
		} else {
			fn -= genFnCase(r, emit)
		}
	}
}

// ---- facts

func repoDir() string {
	if v := os.Getenv("VERIF_REPO"); v != "" {
		return v
	}
	return "/repo"
}

func facts() map[string]any {
	out := map[string]any{
		"maximumTTL_ns":    int64(authority.VerifC08MaximumTTL()),
		"lease_ceiling_ns": int64(authority.VerifC08LeaseCeiling()),
		"max_denial_proof_ttl_ns": int64(cache.VerifC08MaxDenialProofTTL()),
	}
	for k, v := range monoFacts() {
		out[k] = v
	}
	for k, v := range shapeFacts(filepath.Join(repoDir(), "middleware/resolver/resolver.go")) {
		out[k] = v
	}
	out["shape_flight_key_has_fingerprint"] = flightKeyShape(filepath.Join(repoDir(), "middleware/resolver/resolver.go"))
	out["shape_chase_inherits_lineage"] = chaseShape(filepath.Join(repoDir(), "middleware/cache/cache.go"))
	return out
}

// monoFacts: every place that STORES or hands on a lease deadline keeps the monotonic
// clock reading of the value it was given (a `.UTC()`, `.Round(0)`, `.Local()`, a
// round trip through Unix()… strips it, and from then on a wall-clock step moves the
// lease). Read from the compiled code by passing a real clock reading through.
func monoFacts() map[string]any {
	now := time.Now()
	dl := now.Add(90 * time.Second)
	out := map[string]any{}
	c := authority.NewCache()
	authority.VerifC08SetNow(c, func() time.Time { return now })
	c.SetUntil(1, nil, tagServers(1), dl)
	c.Set(2, nil, tagServers(2), 90*time.Second)
	ok1, ok2 := false, false
	if d, err := c.Get(1); err == nil {
		ok1 = hasMono(d.ExpiresAt) && d.ExpiresAt.Sub(dl) == 0
	}
	if d, err := c.Get(2); err == nil {
		ok2 = hasMono(d.ExpiresAt)
	}
	out["mono_delegation_setuntil"] = ok1
	out["mono_delegation_set"] = ok2
	t1, _ := resolver.VerifC08MinCut(time.Time{}, 0, dl, 1)
	t2, _ := resolver.VerifC08MinCut(dl.Add(time.Second), 0, dl, 1)
	t3, _ := resolver.VerifC08MinCut(dl, 0, dl.Add(time.Second), 1)
	out["mono_mincut"] = hasMono(t1) && hasMono(t2) && hasMono(t3) &&
		hasMono(resolver.VerifC08MinNonZero(dl, time.Time{})) && hasMono(resolver.VerifC08MinNonZero(dl.Add(time.Second), dl))
	var m middleware.ResponseMeta
	m.BoundCutFor(dl, 1)
	got, _ := m.Cut()
	out["mono_meta_cut"] = hasMono(got) && hasMono(m.CutUntil())
	cc := cache.New(&config.Config{CacheSize: 1024, Expire: 600})
	e1, s1, e2 := cache.VerifC08EntryTimes(cc, dl)
	out["mono_entry_cut"] = hasMono(e1)
	out["mono_entry_stored"] = hasMono(s1)
	out["mono_entry_cut_after_refresh"] = hasMono(e2)
	cc.Stop()
	_, stepOK := stepWallBack(now, wallStep)
	out["wallstep_fabrication_works"] = stepOK
	return out
}

func exprStr(fset *token.FileSet, e ast.Expr) string {
	switch v := e.(type) {
	case *ast.Ident:
		return v.Name
	case *ast.SelectorExpr:
		return exprStr(fset, v.X) + "." + v.Sel.Name
	case *ast.CallExpr:
		return exprStr(fset, v.Fun) + "()"
	case *ast.UnaryExpr:
		return v.Op.String() + exprStr(fset, v.X)
	case *ast.ParenExpr:
		return exprStr(fset, v.X)
	}
	return "?"
}

func findFunc(file *ast.File, name string) *ast.FuncDecl {
	for _, d := range file.Decls {
		if fd, ok := d.(*ast.FuncDecl); ok && fd.Name.Name == name {
			return fd
		}
	}
	return nil
}

// assignments returns, for a variable name, every RHS assigned to it inside fn
// (`:=`, `=`, multi-value assignment from one call counts the call).
func assignments(fset *token.FileSet, fn *ast.FuncDecl, name string) (rhs []ast.Expr, pos []token.Pos) {
	ast.Inspect(fn, func(n ast.Node) bool {
		as, ok := n.(*ast.AssignStmt)
		if !ok {
			return true
		}
		for i, l := range as.Lhs {
			if exprStr(fset, l) != name {
				continue
			}
			if len(as.Rhs) == len(as.Lhs) {
				rhs = append(rhs, as.Rhs[i])
			} else {
				rhs = append(rhs, as.Rhs[0])
			}
			pos = append(pos, as.Pos())
		}
		return true
	})
	return
}

func callsOf(fset *token.FileSet, fn ast.Node, fun string) []*ast.CallExpr {
	var out []*ast.CallExpr
	ast.Inspect(fn, func(n ast.Node) bool {
		if c, ok := n.(*ast.CallExpr); ok && exprStr(fset, c.Fun) == fun {
			out = append(out, c)
		}
		return true
	})
	return out
}

func isCall(fset *token.FileSet, e ast.Expr, fun string) (*ast.CallExpr, bool) {
	c, ok := e.(*ast.CallExpr)
	if !ok || exprStr(fset, c.Fun) != fun {
		return nil, false
	}
	return c, true
}

func argNames(fset *token.FileSet, c *ast.CallExpr) []string {
	var out []string
	for _, a := range c.Args {
		out = append(out, exprStr(fset, a))
	}
	return out
}

func has(xs []string, s string) bool {
	for _, x := range xs {
		if x == s {
			return true
		}
	}
	return false
}

// shapeFacts extracts the orderings / data-flow facts of the current
// resolver.go that the abstract event system of the Lean model relies on.
// Every fact is `true` on a tree that has the shape the model assumes.
func shapeFacts(path string) map[string]any {
	keys := []string{"shape_observed_before_validate", "shape_single_clock_read", "shape_lease_anchored_at_observation",
		"shape_lease_clamped_at_observation",
		"shape_ds_bounds_lease", "shape_setuntil_from_mincut", "shape_validreferral_before_setuntil",
		"shape_provisional_bounded_by_cut", "shape_cached_descent_min", "shape_seed_min", "shape_notecut_after_each_cut",
		"shape_subquery_stores_cut", "shape_hit_does_not_store"}
	out := map[string]any{}
	for _, k := range keys {
		out[k] = false
	}
	fset := token.NewFileSet()
	file, err := parser.ParseFile(fset, path, nil, 0)
	if err != nil {
		out["shape_parse_error"] = err.Error()
		return out
	}
	pd := findFunc(file, "processDelegation")
	if pd != nil {
		obsRHS, obsPos := assignments(fset, pd, "observedAt")
		valCalls := callsOf(fset, pd, "r.validateDelegation")
		setCalls := callsOf(fset, pd, "r.delegations.SetUntil")
		nowCalls := callsOf(fset, pd, "time.Now")
		if len(obsRHS) == 1 && len(valCalls) == 1 {
			if _, ok := isCall(fset, obsRHS[0], "time.Now"); ok && obsPos[0] < valCalls[0].Pos() {
				out["shape_observed_before_validate"] = true
			}
		}
		// the only clock read that precedes the final SetUntil is the observation instant
		if len(setCalls) == 1 && len(obsPos) == 1 {
			n := 0
			for _, c := range nowCalls {
				if c.Pos() < setCalls[0].Pos() {
					n++
				}
			}
			out["shape_single_clock_read"] = n == 1
		}
		// leaseDeadline is only ever observedAt.Add(...) or a dsDeadline that is observedAt.Add(...)
		lrhs, _ := assignments(fset, pd, "leaseDeadline")
		drhs, _ := assignments(fset, pd, "dsDeadline")
		crhs0, _ := assignments(fset, pd, "ceiling")
		okLease := len(lrhs) >= 1
		for _, e := range lrhs {
			if _, ok := isCall(fset, e, "observedAt.Add"); ok {
				continue
			}
			if x := exprStr(fset, e); x == "dsDeadline" || x == "ceiling" {
				continue
			}
			okLease = false
		}
		for _, e := range append(drhs, crhs0...) {
			if _, ok := isCall(fset, e, "observedAt.Add"); !ok {
				okLease = false
			}
		}
		out["shape_lease_anchored_at_observation"] = okLease
		// the 12 h ceiling is applied to the lease itself, from the observation, before anything derives from it:
		// `if ceiling := observedAt.Add(authority.MaximumTTL); leaseDeadline.After(ceiling) { leaseDeadline = ceiling }`
		// ahead of validateDelegation, minCut and every noteCut
		ast.Inspect(pd, func(n ast.Node) bool {
			is, ok := n.(*ast.IfStmt)
			if !ok || is.Init == nil {
				return true
			}
			as, ok := is.Init.(*ast.AssignStmt)
			if !ok || len(as.Lhs) != 1 || len(as.Rhs) != 1 || exprStr(fset, as.Lhs[0]) != "ceiling" {
				return true
			}
			c, ok := isCall(fset, as.Rhs[0], "observedAt.Add")
			if !ok || len(c.Args) != 1 || exprStr(fset, c.Args[0]) != "authority.MaximumTTL" {
				return true
			}
			cond, ok := isCall(fset, is.Cond, "leaseDeadline.After")
			if !ok || len(cond.Args) != 1 || exprStr(fset, cond.Args[0]) != "ceiling" {
				return true
			}
			lowers := false
			for _, st := range is.Body.List {
				if a, ok := st.(*ast.AssignStmt); ok && len(a.Lhs) == 1 && exprStr(fset, a.Lhs[0]) == "leaseDeadline" && exprStr(fset, a.Rhs[0]) == "ceiling" {
					lowers = true
				}
			}
			before := len(valCalls) == 1 && is.Pos() < valCalls[0].Pos()
			for _, mc := range callsOf(fset, pd, "minCut") {
				before = before && is.Pos() < mc.Pos()
			}
			for _, nc := range callsOf(fset, pd, "noteCut") {
				before = before && is.Pos() < nc.Pos()
			}
			if lowers && before && is.Else == nil {
				out["shape_lease_clamped_at_observation"] = true
			}
			return true
		})
		// the DS bound: an `if len(rs.parentDS) > 0` whose body lowers leaseDeadline
		// to a dsDeadline built from minRRSetTTL(rs.parentDS), guarded by dsDeadline.Before(leaseDeadline)
		ast.Inspect(pd, func(n ast.Node) bool {
			is, ok := n.(*ast.IfStmt)
			if !ok {
				return true
			}
			be, ok := is.Cond.(*ast.BinaryExpr)
			if !ok || be.Op != token.GTR || exprStr(fset, be.X) != "len()" {
				return true
			}
			if c := be.X.(*ast.CallExpr); len(c.Args) != 1 || exprStr(fset, c.Args[0]) != "rs.parentDS" {
				return true
			}
			lowers, usesMin, guarded := false, false, false
			ast.Inspect(is.Body, func(m ast.Node) bool {
				switch v := m.(type) {
				case *ast.AssignStmt:
					if len(v.Lhs) == 1 && exprStr(fset, v.Lhs[0]) == "leaseDeadline" && exprStr(fset, v.Rhs[0]) == "dsDeadline" {
						lowers = true
					}
				case *ast.CallExpr:
					if exprStr(fset, v.Fun) == "minRRSetTTL" && len(v.Args) == 1 && exprStr(fset, v.Args[0]) == "rs.parentDS" {
						usesMin = true
					}
					if exprStr(fset, v.Fun) == "dsDeadline.Before" && len(v.Args) == 1 && exprStr(fset, v.Args[0]) == "leaseDeadline" {
						guarded = true
					}
				}
				return true
			})
			if lowers && usesMin && guarded && len(setCalls) == 1 && is.Pos() < setCalls[0].Pos() {
				out["shape_ds_bounds_lease"] = true
			}
			return true
		})
		// SetUntil's deadline is the identifier defined once as minCut(rs.cutDeadline, …, leaseDeadline, key)
		if len(setCalls) == 1 && len(setCalls[0].Args) == 4 {
			arg := exprStr(fset, setCalls[0].Args[3])
			rhs, pos := assignments(fset, pd, arg)
			if len(rhs) == 1 && pos[0] < setCalls[0].Pos() {
				if c, ok := isCall(fset, rhs[0], "minCut"); ok {
					an := argNames(fset, c)
					if len(an) == 4 && an[0] == "rs.cutDeadline" && an[2] == "leaseDeadline" {
						out["shape_setuntil_from_mincut"] = true
						// every noteCut / descent assignment uses the same identifier
						notes := callsOf(fset, pd, "noteCut")
						okNote := len(notes) >= 1
						for _, nc := range notes {
							if len(nc.Args) != 3 || exprStr(fset, nc.Args[1]) != arg {
								okNote = false
							}
						}
						crhs, _ := assignments(fset, pd, "rs.cutDeadline")
						for _, e := range crhs {
							if exprStr(fset, e) != arg {
								okNote = false
							}
						}
						out["shape_notecut_after_each_cut"] = okNote && len(crhs) >= 2
					}
				}
			}
		}
		// `if !validReferral(...) { … return … }` precedes validateDelegation and SetUntil
		ast.Inspect(pd, func(n ast.Node) bool {
			is, ok := n.(*ast.IfStmt)
			if !ok {
				return true
			}
			if exprStr(fset, is.Cond) != "!validReferral()" {
				return true
			}
			returns := false
			for _, st := range is.Body.List {
				if _, ok := st.(*ast.ReturnStmt); ok {
					returns = true
				}
			}
			if returns && len(setCalls) == 1 && len(valCalls) == 1 && is.Pos() < valCalls[0].Pos() && is.Pos() < setCalls[0].Pos() {
				out["shape_validreferral_before_setuntil"] = true
			}
			return true
		})
		// a live cached entry is used as is: the `if cached, err := r.delegations.Get(key); err == nil`
		// branch returns before SetUntil and contains no store
		ast.Inspect(pd, func(n ast.Node) bool {
			is, ok := n.(*ast.IfStmt)
			if !ok || is.Init == nil {
				return true
			}
			as, ok := is.Init.(*ast.AssignStmt)
			if !ok || len(as.Rhs) != 1 {
				return true
			}
			if _, ok := isCall(fset, as.Rhs[0], "r.delegations.Get"); !ok {
				return true
			}
			stores := len(callsOf(fset, is.Body, "r.delegations.SetUntil"))+len(callsOf(fset, is.Body, "r.delegations.Set")) > 0
			returns := false
			for _, st := range is.Body.List {
				if rs, ok := st.(*ast.ReturnStmt); ok && len(rs.Results) == 1 {
					if _, ok := isCall(fset, rs.Results[0], "r.resolveWithCachedNameservers"); ok {
						returns = true
					}
				}
			}
			if !stores && returns && len(setCalls) == 1 && is.Pos() < setCalls[0].Pos() {
				out["shape_hit_does_not_store"] = true
			}
			return true
		})
	}
	if fn := findFunc(file, "lookupV4Nss"); fn != nil {
		sets := callsOf(fset, fn, "r.delegations.SetUntil")
		ok := len(sets) >= 1 && len(callsOf(fset, fn, "r.delegations.Set")) == 0
		for _, c := range sets {
			if len(c.Args) != 4 {
				ok = false
				continue
			}
			mc, isMin := isCall(fset, c.Args[3], "minNonZero")
			if !isMin || len(mc.Args) != 2 || exprStr(fset, mc.Args[0]) != "cutDeadline" {
				ok = false
			}
		}
		out["shape_provisional_bounded_by_cut"] = ok
	}
	if fn := findFunc(file, "resolveWithCachedNameservers"); fn != nil {
		rhs, _ := assignments(fset, fn, "rs.cutDeadline")
		ok := len(rhs) == 1
		for _, e := range rhs {
			c, isMin := isCall(fset, e, "minCut")
			if !isMin || len(c.Args) != 4 || exprStr(fset, c.Args[0]) != "rs.cutDeadline" || exprStr(fset, c.Args[2]) != "cached.ExpiresAt" {
				ok = false
			}
		}
		notes := callsOf(fset, fn, "noteCut")
		out["shape_cached_descent_min"] = ok && len(notes) == 1 && exprStr(fset, notes[0].Args[1]) == "rs.cutDeadline"
	}
	if fn := findFunc(file, "resolve"); fn != nil {
		rhs, _ := assignments(fset, fn, "rs.cutDeadline")
		ok := len(rhs) == 1
		for _, e := range rhs {
			c, isMin := isCall(fset, e, "minCut")
			if !isMin || len(c.Args) != 4 || exprStr(fset, c.Args[0]) != "rs.cutDeadline" || exprStr(fset, c.Args[2]) != "m.deadline" {
				ok = false
			}
		}
		notes := callsOf(fset, fn, "noteCut")
		out["shape_seed_min"] = ok && len(notes) == 1 && exprStr(fset, notes[0].Args[1]) == "rs.cutDeadline"
	}
	if fn := findFunc(file, "subQuery"); fn != nil {
		// the stored cut is meta.Cut() of the request tree, passed to both store variants
		rhs, _ := assignments(fset, fn, "cutUntil")
		fromMeta := len(rhs) == 1
		for _, e := range rhs {
			if _, ok := isCall(fset, e, "meta.Cut"); !ok {
				fromMeta = false
			}
		}
		a := callsOf(fset, fn, "cutStore.SetFromResponseWithCut")
		b := callsOf(fset, fn, "(*store).SetFromResponse")
		if len(b) == 0 {
			// exprStr renders (*store).SetFromResponse via Paren/Star: match by selector name instead
			ast.Inspect(fn, func(n ast.Node) bool {
				if c, ok := n.(*ast.CallExpr); ok {
					if s, ok := c.Fun.(*ast.SelectorExpr); ok && s.Sel.Name == "SetFromResponse" {
						b = append(b, c)
					}
				}
				return true
			})
		}
		ok := fromMeta && len(a) == 1 && len(b) == 1
		if ok {
			ok = len(a[0].Args) == 4 && exprStr(fset, a[0].Args[2]) == "cutUntil" && len(b[0].Args) == 3 && exprStr(fset, b[0].Args[2]) == "cutUntil"
		}
		out["shape_subquery_stores_cut"] = ok
	}
	return out
}

// chaseShape: in Cache.additionalAnswer (the CNAME/DNAME chase, whose sub-query runs under a
// forked cut) every branch that lets something of the sub-query's response reach the
// deriving response — an assignment to msg.Rcode / msg.Answer / msg.Ns, or a call handed
// both respCname and msg — also calls lineage.inherit(), and the sub-query is obtained
// together with its lineage.
func chaseShape(path string) bool {
	fset := token.NewFileSet()
	file, err := parser.ParseFile(fset, path, nil, 0)
	if err != nil {
		return false
	}
	fn := findFunc(file, "additionalAnswer")
	if fn == nil {
		return false
	}
	withLineage := false
	ast.Inspect(fn, func(n ast.Node) bool {
		if as, ok := n.(*ast.AssignStmt); ok && len(as.Lhs) == 3 && exprStr(fset, as.Lhs[0]) == "respCname" && exprStr(fset, as.Lhs[1]) == "lineage" {
			withLineage = true
		}
		return true
	})
	consuming, ok := 0, true
	ast.Inspect(fn, func(n ast.Node) bool {
		is, isIf := n.(*ast.IfStmt)
		if !isIf || !strings.Contains(nodeStr(fset, is.Cond), "respCname") {
			return true
		}
		consumes, inherits := false, false
		for _, st := range is.Body.List {
			// direct statements of the branch only: nested ifs are visited on their own
			if _, nested := st.(*ast.IfStmt); nested {
				continue
			}
			ast.Inspect(st, func(m ast.Node) bool {
				switch v := m.(type) {
				case *ast.AssignStmt:
					for _, l := range v.Lhs {
						if x := exprStr(fset, l); x == "msg.Rcode" || x == "msg.Answer" || x == "msg.Ns" {
							consumes = true
						}
					}
				case *ast.CallExpr:
					if exprStr(fset, v.Fun) == "lineage.inherit" {
						inherits = true
					}
					an := argNames(fset, v)
					if has(an, "respCname") && has(an, "msg") {
						consumes = true
					}
				}
				return true
			})
		}
		if consumes {
			consuming++
			if !inherits {
				ok = false
			}
		}
		return true
	})
	return withLineage && ok && consuming >= 2
}

// flightKeyShape: the singleflight key of Resolver.groupLookup names the authority SET the
// lookup goes to (servers.Fingerprint()) next to question, zone and CD, so a lookup in
// flight at a zone's old servers is never shared with one that follows the parent to new ones.
func flightKeyShape(path string) bool {
	fset := token.NewFileSet()
	file, err := parser.ParseFile(fset, path, nil, 0)
	if err != nil {
		return false
	}
	fn := findFunc(file, "groupLookup")
	if fn == nil {
		return false
	}
	ok := false
	ast.Inspect(fn, func(n ast.Node) bool {
		as, isAs := n.(*ast.AssignStmt)
		if !isAs || len(as.Lhs) != 1 || exprStr(fset, as.Lhs[0]) != "key" || as.Tok != token.DEFINE {
			return true
		}
		txt := nodeStr(fset, as.Rhs[0])
		if strings.Contains(txt, "Fingerprint") && strings.Contains(txt, "Zone") && strings.Contains(txt, "cd") && strings.Contains(txt, "Key") {
			ok = true
		}
		return true
	})
	return ok
}

func nodeStr(fset *token.FileSet, n ast.Node) string {
	var b strings.Builder
	ast.Inspect(n, func(m ast.Node) bool {
		if id, ok := m.(*ast.Ident); ok {
			b.WriteString(id.Name + " ")
		}
		return true
	})
	return b.String()
}

func main() { vlib.Main(&vlib.Driver{Facts: facts, Exec: exec, Gen: gen}) }
