//go:build verif

package api

import "net/http"

// VerifServeHTTP hands one request to the API's own router (the routes
// registered by Run), without going through a socket. Accessor only.
func VerifServeHTTP(a *API, w http.ResponseWriter, r *http.Request) { a.router.ServeHTTP(w, r) }

// VerifMaxBlockBatchBody reads the body cap of the batch endpoints.
func VerifMaxBlockBatchBody() int { return maxBlockBatchBody }
