//go:build verif

package config

import (
	"fmt"

	"github.com/BurntSushi/toml"
)

// VerifC19DefaultECS decodes the [ecs] block of the configuration text sdns
// generates for a new installation (accessor only).
func VerifC19DefaultECS() (ECSConfig, error) {
	var c Config
	_, err := toml.Decode(fmt.Sprintf(defaultConfig, configver), &c)
	return c.ECS, err
}

// VerifC19ConfigVer exposes the configuration version Load expects (accessor only).
func VerifC19ConfigVer() string { return configver }
