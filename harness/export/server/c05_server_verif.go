//go:build verif

package server

import "github.com/semihalev/sdns/internal/wire"

// VerifC05AcceptHeader exposes the engines' header admission verdict:
// 0 accept, 1 ignore (no reply), 2 NOTIMP, 3 FORMERR (accessor only).
func VerifC05AcceptHeader(raw []byte) int {
	h, ok := wire.ParseHeader(raw)
	if !ok {
		return 1
	}
	return int(acceptHeader(h))
}

// VerifC05PoisonTX fills the job's transmit slab with b. The owned UDP/TCP
// jobs lease their TX slab unscrubbed (it still holds the previous reply);
// poisoning it before a serve makes every byte a body builder forgets to
// write visible. Test double state only.
func VerifC05PoisonTX(j *VerifJob, b byte) {
	for i := range j.tx {
		j.tx[i] = b
	}
}
