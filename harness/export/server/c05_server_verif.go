//go:build verif

package server

import "github.com/semihalev/sdns/internal/wire"

// VerifC05AcceptHeader exposes the engines' header admission verdict:
// 0 accept, 1 ignore (no reply), 2 NOTIMP, 3 FORMERR (accessor only).
func VerifC05AcceptHeader(raw []byte) int {
	h, ok := wire.ParseHeader(raw)
	if !ok {
		return 1
	}
	return int(acceptHeader(h))
}
