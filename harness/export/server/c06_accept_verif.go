//go:build verif

package server

import "github.com/semihalev/sdns/internal/wire"

// VerifC06AcceptHeader exposes the engines' header admission verdict
// (accessor only): 0 = serve, 1 = ignore (no reply), 2 = NOTIMP, 3 = FORMERR.
func VerifC06AcceptHeader(flags, qd, an, ns, ar uint16) int {
	return int(acceptHeader(wire.Header{Flags: flags, QDCount: qd, ANCount: an, NSCount: ns, ARCount: ar}))
}

// VerifC06VerdictCodes returns the numeric values of the four verdicts in the
// order ok, ignore, notimp, formerr (so the table above can be read by name).
func VerifC06VerdictCodes() [4]int {
	return [4]int{int(acceptOK), int(acceptIgnore), int(acceptNotImplemented), int(acceptFormatError)}
}
