//go:build verif && linux && (amd64 || arm64)

package server

import (
	"encoding/binary"
	"net"

	"golang.org/x/sys/unix"
)

// VerifC17RawPeer runs the batched reader's own sockaddr decoder
// (udpJob.setRemoteRaw) on a raw kernel sockaddr and returns the peer address
// the chain is going to see for that datagram. Accessor only.
func VerifC17RawPeer(v6 bool, addr []byte, port int) (net.Addr, bool) {
	j := &udpJob{}
	var sa [unix.SizeofSockaddrInet6]byte
	n := unix.SizeofSockaddrInet4
	if v6 {
		binary.NativeEndian.PutUint16(sa[0:2], unix.AF_INET6)
		copy(sa[8:24], addr)
		n = unix.SizeofSockaddrInet6
	} else {
		binary.NativeEndian.PutUint16(sa[0:2], unix.AF_INET)
		copy(sa[4:8], addr)
	}
	sa[2], sa[3] = byte(port>>8), byte(port)
	ok := j.setRemoteRaw(sa[:n])
	return j.RemoteAddr(), ok
}
