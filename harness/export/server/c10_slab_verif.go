//go:build verif && linux && (amd64 || arm64)

package server

import (
	"context"
	"net"
	"syscall"
	"net/netip"
	"time"

	"github.com/semihalev/sdns/middleware"
	"golang.org/x/sys/unix"
)

// Accessors for the C10 check: they let the driver single-step the REAL
// udpEngine / udpJob / udpBatchReader / tcpEngine / tcpStream functions on
// its own goroutine. No behaviour change: every step below calls the
// unexported function the engine's own goroutines call, in the order they
// call them; nothing is reimplemented except the loop scaffolding.

// VerifC10Script is the scripted rawHandler of the function-level rigs.
// entry is "raw", "inline" or "replay".
type VerifC10Script func(w middleware.Transport, raw []byte, entry string) bool

type verifC10Handler struct {
	f      VerifC10Script
	inline bool
}

func (h *verifC10Handler) ServeRaw(w middleware.Transport, raw []byte, _ time.Time) bool {
	return h.f(w, raw, "raw")
}
func (h *verifC10Handler) InlineReady() bool { return h.inline }
func (h *verifC10Handler) ServeRawInline(w middleware.Transport, raw []byte, _ time.Time) bool {
	return h.f(w, raw, "inline")
}
func (h *verifC10Handler) ServeRawReplay(w middleware.Transport, raw []byte, _ time.Time) bool {
	return h.f(w, raw, "replay")
}

// VerifC10Slab is the view of one udpJob handed to the scribble hook: every
// buffer and every field that udpJob.release does not reset.
type VerifC10Slab struct{ j *udpJob }

// Scribble overwrites every byte of the slab's buffers with pat and plants a
// stale peer (address, raw sockaddr with a non-zero length, pktinfo bytes)
// the way a previous occupant would have left them. The fields release()
// owns (written, rxLen, pktinfoLen, txLen, replay) are NOT touched.
func (s VerifC10Slab) Scribble(pat byte, stale netip.AddrPort) {
	j := s.j
	for i := range j.rx {
		j.rx[i] = pat
	}
	for i := range j.tx {
		j.tx[i] = pat
	}
	for i := range j.pktinfo {
		j.pktinfo[i] = pat
	}
	for i := range j.ipScratch {
		j.ipScratch[i] = pat
	}
	// a stale raw sockaddr of the previous client, in kernel form
	for i := range j.rawSA {
		j.rawSA[i] = 0
	}
	a4 := stale.Addr().As4()
	j.rawSA[0], j.rawSA[1] = 2, 0 // AF_INET, host order on little endian
	j.rawSA[2], j.rawSA[3] = byte(stale.Port()>>8), byte(stale.Port())
	copy(j.rawSA[4:8], a4[:])
	j.rawSALen = 16
	j.raddr = stale
	j.remote.IP = append(j.ipScratch[:0], a4[:]...)
	j.remote.Port = int(stale.Port())
	j.readTime = time.Unix(1, 0)
}

// Dirty reports whether release left any request-owned length / flag set.
func (s VerifC10Slab) Dirty() bool {
	j := s.j
	return j.written || j.rxLen != 0 || j.pktinfoLen != 0 || j.txLen != 0 || j.replay || j.burst != nil
}

// VerifC10UDP is a udpEngine over one real loopback socket whose reader and
// worker steps are taken by the caller.
type VerifC10UDP struct {
	e       *udpEngine
	pc      *net.UDPConn
	r       *udpBatchReader
	wburst  udpTXBurst
	pending []*udpJob
	txPlan    []int
	txWrapped bool
	// ReaderFlushed counts the replies the reader's own burst has sent.
	ReaderFlushed int
	// OnTake runs on every slab right after take(), before the read.
	OnTake func(s VerifC10Slab, recycled bool)
}

// VerifC10NewUDP builds the engine exactly as udpListener.Bind does (one
// socket, specific bind) but does not start its goroutines. srv, when non
// nil, is the real *Server (ServeRaw / ServeRawInline / ServeRawReplay);
// otherwise the script stands in. slabCap > 0 overrides the admission cap.
func VerifC10NewUDP(script VerifC10Script, srv *Server, inline bool, queue int, slabCap int) (*VerifC10UDP, error) {
	return VerifC10NewUDPBind(script, srv, inline, queue, slabCap, false)
}

// VerifC10NewUDPBind: wildcard=true binds 0.0.0.0 with the listener's own
// pktinfo socket options, so every read carries a destination-address control
// message and every reply is sent with the prepared pktinfo of ITS read.
func VerifC10NewUDPBind(script VerifC10Script, srv *Server, inline bool, queue int, slabCap int, wildcard bool) (*VerifC10UDP, error) {
	var pc *net.UDPConn
	if wildcard {
		// the listener's pktinfo options WITHOUT SO_REUSEPORT: a rig's port must not be
		// shareable with whatever else runs on this machine under the same uid
		lc := net.ListenConfig{Control: func(_, _ string, c syscall.RawConn) error {
			var serr error
			if err := c.Control(func(fd uintptr) {
				serr = unix.SetsockoptInt(int(fd), unix.IPPROTO_IP, unix.IP_PKTINFO, 1)
			}); err != nil {
				return err
			}
			return serr
		}}
		c, err := lc.ListenPacket(context.Background(), "udp4", "0.0.0.0:0")
		if err != nil {
			return nil, err
		}
		pc = c.(*net.UDPConn)
	} else {
		c, err := net.ListenUDP("udp4", &net.UDPAddr{IP: net.IPv4(127, 0, 0, 1)})
		if err != nil {
			return nil, err
		}
		pc = c
	}
	var h rawHandler
	if srv != nil {
		h = srv
	} else {
		h = &verifC10Handler{f: script, inline: inline}
	}
	e := newUDPEngine(h, []*net.UDPConn{pc}, wildcard, 1, queue, defaultResourcePlan(1))
	if slabCap > 0 {
		e.slabCap = int64(slabCap)
	}
	u := &VerifC10UDP{e: e, pc: pc}
	if e.txConns != nil {
		u.r = newUDPBatchReader(e, 0, pc, e.txConns[pc])
	}
	u.wburst.slot = 0
	return u, nil
}

// SetTXPlan scripts what the kernel does with the next sendmmsg calls of this
// engine's senders — all of it behaviour sendmmsg is allowed to show: an item
// n > 0 sends at most n of the armed messages (a partial send), 0 refuses the
// call with EPERM (the engine falls back to direct sends for the unsent rest),
// -1 answers ENOSYS (the engine retires batched TX). With the plan used up the
// real syscall result stands. The engine's own retry / fallback loop
// (udpEngine.sendGroup) runs unchanged; only the syscall's answer is scripted.
func (u *VerifC10UDP) SetTXPlan(plan []int) {
	u.txPlan = append([]int(nil), plan...)
	if u.txWrapped {
		return
	}
	u.txWrapped = true
	for i := range u.e.txSenders {
		s := &u.e.txSenders[i]
		orig := s.writeFn
		s.writeFn = func(fd uintptr) bool {
			if len(u.txPlan) == 0 {
				return orig(fd)
			}
			p := u.txPlan[0]
			u.txPlan = u.txPlan[1:]
			switch {
			case p == 0:
				s.sent, s.werr = 0, unix.EPERM
				return true
			case p < 0:
				s.sent, s.werr = 0, unix.ENOSYS
				return true
			}
			saved := s.count
			if s.start+p < s.count {
				s.count = s.start + p
			}
			r := orig(fd)
			s.count = saved
			return r
		}
	}
}

func (u *VerifC10UDP) Addr() *net.UDPAddr {
	a := *u.pc.LocalAddr().(*net.UDPAddr)
	if a.IP.IsUnspecified() {
		a.IP = net.IPv4(127, 0, 0, 1)
	}
	return &a
}
func (u *VerifC10UDP) Inline() bool       { return u.e.inline != nil }
func (u *VerifC10UDP) Close() {
	_ = u.pc.Close()
}

func (u *VerifC10UDP) drainReady() {
	for {
		select {
		case j := <-u.e.ready:
			u.pending = append(u.pending, j)
		default:
			return
		}
	}
}

// VerifC10Recv describes what one received datagram turned into.
type VerifC10Recv struct {
	From  netip.AddrPort
	RxLen int
	// Fate: "queued", "inline" (reached a terminal on the reader),
	// "handoff" (inline pass declined, queued for replay), "dropped".
	Fate string
}

// ReadBatch runs cycles of udpBatchReader.run until `expect` datagrams (which
// the caller knows are queued on, or in flight to, the socket) or as many as
// the slabs it could take allow have been consumed: take + arm up to max
// slabs, recvmmsg, finishRecv for every filled slot (which runs the inline
// pass or enqueues), flush of the reader's transmit burst, compaction of
// the unfilled slabs — and finally release of the holdover, as run() does
// on exit. With the admission cap reached and no slab held it sheds one
// batch exactly as run() does. Returns one entry per consumed datagram.
func (u *VerifC10UDP) ReadBatch(max, expect int) (out []VerifC10Recv, shed int) {
	r, e := u.r, u.e
	held := 0
	for held < max && held < udpBatchSize {
		before := e.cache.size()
		j := e.take(r.idx)
		if j == nil {
			break
		}
		j.transition(udpJobFree, udpJobReading)
		if u.OnTake != nil {
			u.OnTake(VerifC10Slab{j}, before > 0)
		}
		r.arm(j, held)
		held++
	}
	if held == 0 {
		want := expect
		if want > udpBatchSize {
			want = udpBatchSize
		}
		_ = u.pc.SetReadDeadline(time.Now().Add(5 * time.Second))
		for shed < want {
			if !r.shed() {
				break
			}
			shed += r.received
		}
		_ = u.pc.SetReadDeadline(time.Time{})
		return nil, shed
	}
	want := expect
	if want > held {
		want = held
	}
	got := 0
	for got < want {
		r.armed = held
		// never hang the driver: a datagram that does not show up within 5 s ends the op
		_ = u.pc.SetReadDeadline(time.Now().Add(5 * time.Second))
		err := r.rc.Read(r.readFn)
		_ = u.pc.SetReadDeadline(time.Time{})
		if err != nil || r.rerr != nil {
			break
		}
		n := r.received
		now := time.Now()
		for i := 0; i < n; i++ {
			j := r.jobs[i]
			trunc := r.hdrs[i].hdr.Flags&unix.MSG_TRUNC != 0
			dlen := int(r.hdrs[i].dlen)
			queuedBefore := len(e.ready)
			r.finishRecv(i, now)
			rec := VerifC10Recv{From: j.raddr, RxLen: dlen}
			switch {
			case trunc:
				rec.Fate = "dropped"
			case len(e.ready) > queuedBefore && j.replay:
				rec.Fate = "handoff"
			case len(e.ready) > queuedBefore:
				rec.Fate = "queued"
			case e.inline != nil:
				rec.Fate = "inline"
			default:
				rec.Fate = "dropped"
			}
			out = append(out, rec)
		}
		got += n
		if r.txBurst.n > 0 {
			u.ReaderFlushed += r.txBurst.n
			e.flushTX(&r.txBurst)
		}
		m := 0
		for i := n; i < held; i++ {
			r.arm(r.jobs[i], m)
			m++
		}
		held = m
		u.drainReady()
	}
	for i := 0; i < held; i++ {
		r.jobs[i].release(udpJobReading)
	}
	u.drainReady()
	return out, 0
}

// ReadPortable runs the REAL portable reader goroutine (udpEngine.reader)
// until it has consumed want datagrams that are already queued on the
// socket, then stops it through the read deadline (the engine's own
// admission stop). OnTake is not applied on this path.
func (u *VerifC10UDP) ReadPortable(want int) (out []VerifC10Recv) {
	e := u.e
	e.readers.Add(1)
	go e.reader(0, u.pc)
	timeout := time.After(5 * time.Second)
wait:
	for len(out) < want {
		select {
		case j := <-e.ready:
			u.pending = append(u.pending, j)
			out = append(out, VerifC10Recv{From: j.raddr, RxLen: j.rxLen, Fate: "queued"})
		case <-timeout:
			break wait
		}
	}
	_ = u.pc.SetReadDeadline(time.Unix(1, 0))
	e.readers.Wait()
	_ = u.pc.SetReadDeadline(time.Time{})
	u.drainReady()
	return out
}

// Pending reports how many jobs wait for a worker.
func (u *VerifC10UDP) Pending() int { return len(u.pending) }

// VerifC10Served is what udpEngine.serve left behind for one job.
type VerifC10Served struct {
	Staged  bool   // the job sits in the worker's burst
	Tx      []byte // copy of tx[:txLen] while staged
	To      netip.AddrPort
	State   uint8
	BurstN  int
	Flushed bool // the burst was full and the worker flushed it
}

// ServeNext is one iteration of udpEngine.worker: serve the oldest queued
// job on the worker's burst, flush when the burst is full. overflow=true is
// udpEngine.serveOverflow (no burst: Write sends directly).
func (u *VerifC10UDP) ServeNext(overflow bool) (VerifC10Served, bool) {
	if len(u.pending) == 0 {
		return VerifC10Served{}, false
	}
	j := u.pending[0]
	u.pending = u.pending[1:]
	var res VerifC10Served
	if overflow {
		u.e.serve(j, nil)
		res.State = j.state
		return res, true
	}
	u.e.serve(j, &u.wburst)
	res.State = j.state
	res.BurstN = u.wburst.n
	if j.state == udpJobServing && j.txLen > 0 {
		res.Staged = true
		res.Tx = append([]byte(nil), j.tx[:j.txLen]...)
		res.To = j.raddr
	}
	if u.wburst.full() {
		u.e.flushTX(&u.wburst)
		res.Flushed = true
	}
	return res, true
}

// Flush is the worker's idle flush (udpEngine.flushTX on its burst).
func (u *VerifC10UDP) Flush() int {
	n := u.wburst.n
	u.e.flushTX(&u.wburst)
	return n
}

// Counters: leased slabs, in-flight jobs, parked slabs.
func (u *VerifC10UDP) Counters() (leased, inFlight int64, parked int) {
	return u.e.leased.Load(), u.e.inFlight.Load(), u.e.cache.size()
}

// ParkedDirty reports whether any parked slab still carries a request-owned
// length or flag (what release must have cleared).
func (u *VerifC10UDP) ParkedDirty() bool {
	c := &u.e.cache
	for i := range c.shards {
		s := &c.shards[i]
		s.mu.Lock()
		for _, j := range s.idle {
			if (VerifC10Slab{j}).Dirty() || j.state != udpJobFree {
				s.mu.Unlock()
				return true
			}
		}
		s.mu.Unlock()
	}
	return false
}

// VerifC10UDPLease calls the real udpJob.LeaseWire on a scribbled slab and
// reports (nil?, len, cap, whether a byte beyond cap of the lease is reachable
// from the lease itself).
func VerifC10UDPLease(capacity int) (isNil bool, ln, cp int) {
	j := &udpJob{}
	b := j.LeaseWire(capacity)
	if b == nil {
		return true, 0, 0
	}
	return false, len(b), cap(b)
}

// VerifC10TCPLease calls the real tcpJob.LeaseWire on a slab of the given class.
func VerifC10TCPLease(large bool, capacity int) (isNil bool, ln, cp int) {
	j := newTCPJob(nil, large)
	b := j.LeaseWire(capacity)
	if b == nil {
		return true, 0, 0
	}
	return false, len(b), cap(b)
}

// VerifC10Sizes exposes the buffer-class constants the model is built on.
func VerifC10Sizes() map[string]int {
	return map[string]int{
		"udp_buf":       udpJobBufSize,
		"udp_batch":     udpBatchSize,
		"udp_tx_max":    udpTXMax,
		"tcp_buf":       tcpJobBufSize,
		"tcp_small_rx":  tcpSmallFrame,
		"tcp_small_tx":  tcpSmallReply,
		"tcp_fill":      tcpFillSize,
		"tcp_drain":     tcpDrainSize,
		"tcp_min_frame": minTCPFrame,
	}
}

// VerifC10CarrierScript drives one REAL jobCarrier (the job-owned context of
// the strict path) through a script: p<k> TryPin(key k), q<k> Pinned(key k),
// v TrySetProvider, w "is a provider set?", r reset. Returns one token per op.
type verifC10Key int
type verifC10Provider struct{}

func (verifC10Provider) ContextValue(key any) (any, bool) { return nil, false }

func VerifC10CarrierScript(ops []string) []string {
	var c jobCarrier
	out := make([]string, len(ops))
	for i, op := range ops {
		k := 0
		if len(op) > 1 {
			k = int(op[1] - '0')
		}
		switch op[0] {
		case 'p':
			out[i] = map[bool]string{true: "t", false: "f"}[c.TryPin(verifC10Key(k), k+100)]
		case 'q':
			v, ok := c.Pinned(verifC10Key(k))
			if ok {
				out[i] = "some" + string(rune('0'+v.(int)-100))
			} else {
				out[i] = "none"
			}
		case 'v':
			out[i] = map[bool]string{true: "t", false: "f"}[c.TrySetProvider(verifC10Provider{})]
		case 'w':
			c.mu.Lock()
			out[i] = map[bool]string{true: "t", false: "f"}[c.provider != nil]
			c.mu.Unlock()
		case 'r':
			c.reset(time.Unix(int64(i), 0))
			out[i] = "ok"
		}
	}
	return out
}

// ---- TCP ----

// VerifC10TCP is a tcpEngine whose connection loop (serveConn) is run by the
// caller on a scripted net.Conn.
type VerifC10TCP struct {
	e *tcpEngine
}

// VerifC10NewTCP builds the engine as the TCP listener does. srv, when non
// nil, is the real *Server.
func VerifC10NewTCP(script VerifC10Script, srv *Server, maxConns int) *VerifC10TCP {
	var h rawHandler
	if srv != nil {
		h = srv
	} else {
		h = &verifC10Handler{f: script}
	}
	return &VerifC10TCP{e: newTCPEngine(h, "tcp", maxConns, defaultResourcePlan(1))}
}

// Serve runs the real per-connection loop to completion on conn.
func (t *VerifC10TCP) Serve(conn net.Conn) {
	t.e.register(conn)
	t.e.serveConn(conn)
}

// SeedDirty parks one scribbled slab of each class in the engine's caches
// and makes the stream pool hand out scribbled framing buffers, so the next
// connection runs entirely on recycled, dirty storage.
func (t *VerifC10TCP) SeedDirty(pat byte) {
	e := t.e
	e.trimIdle()
	for _, large := range []bool{false, true} {
		j := newTCPJob(e, large)
		for i := range j.rx {
			j.rx[i] = pat
		}
		for i := range j.tx {
			j.tx[i] = pat
		}
		j.written = true
		j.readTime = time.Unix(1, 0)
		if large {
			e.largeCache.put(0, j)
		} else {
			e.smallCache.put(0, j)
		}
	}
	e.streams.New = func() any {
		s := new(tcpStream)
		for i := range s.fill {
			s.fill[i] = pat
		}
		for i := range s.drain {
			s.drain[i] = pat
		}
		return s
	}
}

// Quiesced reports whether every admission token is home.
func (t *VerifC10TCP) Quiesced() bool { return t.e.quiesced() }
