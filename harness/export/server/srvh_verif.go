//go:build verif

package server

import (
	"net"

	"github.com/miekg/dns"
	"github.com/semihalev/sdns/middleware"
	"github.com/semihalev/sdns/middleware/edns"
)

// VerifJob is a transport offering the strict-path job slots (the same
// shape as the repository's own strictTestJob), so Server.ServeRaw /
// ServeRawInline / ServeRawReplay run exactly as on the owned UDP/TCP jobs,
// with everything written captured. Accessor/test double only.
type VerifJob struct {
	Remote net.Addr // *net.UDPAddr or *net.TCPAddr
	Writes [][]byte // every Write/WriteMsg, in order
	tx     [65535]byte

	req        middleware.Request
	chain      middleware.Chain
	carrier    jobCarrier
	ednsWriter edns.ResponseWriter
}

func (j *VerifJob) LeaseWire(capacity int) []byte {
	if capacity > len(j.tx) {
		return nil
	}
	return j.tx[:0]
}
func (j *VerifJob) LocalAddr() net.Addr {
	if _, ok := j.Remote.(*net.TCPAddr); ok {
		return &net.TCPAddr{IP: net.IPv4(127, 0, 0, 1), Port: 53}
	}
	return &net.UDPAddr{IP: net.IPv4(127, 0, 0, 1), Port: 53}
}
func (j *VerifJob) RemoteAddr() net.Addr { return j.Remote }
func (j *VerifJob) Close() error         { return nil }
func (j *VerifJob) Write(b []byte) (int, error) {
	j.Writes = append(j.Writes, append([]byte(nil), b...))
	return len(b), nil
}
func (j *VerifJob) WriteMsg(m *dns.Msg) error {
	packed, err := m.Pack()
	if err != nil {
		return err
	}
	_, err = j.Write(packed)
	return err
}
func (j *VerifJob) StrictSlots() (*middleware.Request, *middleware.Chain, *jobCarrier, *edns.ResponseWriter) {
	return &j.req, &j.chain, &j.carrier, &j.ednsWriter
}

// VerifTookStrict reports whether the last ServeRaw used the wire-born slots.
func (j *VerifJob) VerifTookStrict() bool { return j.req.Raw() != nil }

// VerifAcceptHeader exposes the engines' header admission verdict, if present.
func VerifListeners(s *Server) []Listener {
	s.listenersMu.Lock()
	defer s.listenersMu.Unlock()
	return append([]Listener(nil), s.listeners...)
}
