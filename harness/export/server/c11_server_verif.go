//go:build verif

package server

import (
	"io"
	"net"
	"time"

	"github.com/semihalev/sdns/middleware"
)

// Accessors for the C11 check. No behaviour change.

// VerifC11QueryTimeout is the effective end-to-end query timeout.
func VerifC11QueryTimeout(s *Server) time.Duration { return s.queryTimeout() }

// VerifC11UDP reports the UDP engine's admission cap, leased slabs and
// in-flight jobs (zeros when no UDP listener is active).
func VerifC11UDP(s *Server) (slabCap, leased, inFlight int64, inline bool) {
	s.listenersMu.Lock()
	defer s.listenersMu.Unlock()
	for _, l := range s.active {
		if u, ok := l.(*udpListener); ok {
			u.mu.Lock()
			e := u.engine
			u.mu.Unlock()
			if e != nil {
				return e.slabCap, e.leased.Load(), e.inFlight.Load(), e.inline != nil
			}
		}
	}
	return 0, 0, 0, false
}

// VerifC11Leased is the UDP engine's slab lease counter (slabs held by
// readers, queue, workers and bursts) and the number of its sockets.
func VerifC11Leased(s *Server) (leased int64, sockets int) {
	s.listenersMu.Lock()
	defer s.listenersMu.Unlock()
	for _, l := range s.active {
		if u, ok := l.(*udpListener); ok {
			u.mu.Lock()
			e := u.engine
			u.mu.Unlock()
			if e != nil {
				return e.leased.Load(), len(e.pcs)
			}
		}
	}
	return 0, 0
}

// VerifC11BeforeWrite runs tcpStream.beforeWrite on a stream (over a pipe)
// whose current deadline lies prevOffset from now (0 = no deadline yet) and
// reports how far from now the deadline it arms lies, and tcpWriteWait.
func VerifC11BeforeWrite(prevOffset time.Duration) (armedOffset, writeWait time.Duration, err error) {
	a, b := net.Pipe()
	defer a.Close()
	defer b.Close()
	s := new(tcpStream)
	s.reset(a)
	if prevOffset != 0 {
		s.deadline = time.Now().Add(prevOffset)
	}
	t0 := time.Now()
	err = s.beforeWrite()
	if s.wait != nil {
		s.wait.Stop()
	}
	return s.deadline.Sub(t0), tcpWriteWait, err
}

type verifC11NoRaw struct{}

func (verifC11NoRaw) ServeRaw(middleware.Transport, []byte, time.Time) bool { return true }

// VerifC11TCPClass reports, for a frame of the given length, the class of
// the admission token tcpEngine.tokens picks and the class of the slab
// acquire leases (largeClass): put returns the token by the slab's class,
// so the two must agree for every length.
func VerifC11TCPClass(length int) (tokenLarge, slabLarge bool) {
	e := newTCPEngine(verifC11NoRaw{}, "tcp", 4, defaultResourcePlan(1))
	return e.tokens(length) == e.largeTokens, largeClass(length)
}

// VerifC11TCPClassMismatches lists every frame length 0..65535 on which the
// two disagree, and the small-class boundary.
func VerifC11TCPClassMismatches() (bad []int, smallFrame int) {
	e := newTCPEngine(verifC11NoRaw{}, "tcp", 4, defaultResourcePlan(1))
	for l := 0; l <= tcpJobBufSize; l++ {
		if (e.tokens(l) == e.largeTokens) != largeClass(l) {
			bad = append(bad, l)
		}
	}
	return bad, tcpSmallFrame
}

// verifC11Listener is a listener whose Accept first returns the scripted
// errors, one per call, and then the connections handed to it.
type verifC11Listener struct {
	errs   []error
	conns  chan net.Conn
	closed chan struct{}
}

func (l *verifC11Listener) Accept() (net.Conn, error) {
	if len(l.errs) > 0 {
		err := l.errs[0]
		l.errs = l.errs[1:]
		return nil, err
	}
	select {
	case c := <-l.conns:
		return c, nil
	case <-l.closed:
		return nil, net.ErrClosed
	}
}
func (l *verifC11Listener) Close() error   { close(l.closed); return nil }
func (l *verifC11Listener) Addr() net.Addr { return &net.TCPAddr{IP: net.IPv4(127, 0, 0, 1), Port: 53} }

// VerifC11AcceptLoop runs the REAL tcpEngine.acceptLoop over a listener whose
// Accept fails with errs (in order) before a client connects, and reports
// whether that client was still admitted (registered and served) within wait.
func VerifC11AcceptLoop(errs []error, wait time.Duration) (admitted bool) {
	e := newTCPEngine(verifC11NoRaw{}, "tcp", 4, defaultResourcePlan(1))
	ln := &verifC11Listener{errs: errs, conns: make(chan net.Conn), closed: make(chan struct{})}
	done := make(chan struct{})
	go func() { defer close(done); e.acceptLoop(ln) }()
	srvSide, cliSide := net.Pipe()
	defer cliSide.Close()
	select {
	case ln.conns <- srvSide: // Accept took the connection: the loop is alive
		deadline := time.Now().Add(wait)
		for time.Now().Before(deadline) && e.active.Load() == 0 {
			time.Sleep(time.Millisecond)
		}
		admitted = e.active.Load() > 0
	case <-done: // the loop returned with the listener still open
		srvSide.Close()
	case <-time.After(wait):
		srvSide.Close()
	}
	cliSide.Close()
	ln.Close()
	select {
	case <-done:
	case <-time.After(wait):
	}
	return admitted
}

// VerifC11ConnCap runs the REAL tcpEngine.acceptLoop with a connection cap of
// maxConns over a scripted listener: `burst` clients connect at once and stay
// idle, then all leave; finally one more client connects. It reports how many
// of the burst were admitted (registered), the engine's active count after
// everybody left, and whether the late client was admitted.
func VerifC11ConnCap(maxConns, burst int, wait time.Duration) (admitted int, activeAfter int64, lateAdmitted bool) {
	e := newTCPEngine(verifC11NoRaw{}, "tcp", maxConns, defaultResourcePlan(1))
	ln := &verifC11Listener{conns: make(chan net.Conn), closed: make(chan struct{})}
	done := make(chan struct{})
	go func() { defer close(done); e.acceptLoop(ln) }()
	var clients []net.Conn
	for i := 0; i < burst; i++ {
		srvSide, cliSide := net.Pipe()
		clients = append(clients, cliSide)
		select {
		case ln.conns <- srvSide:
		case <-time.After(wait):
			srvSide.Close()
		}
	}
	time.Sleep(20 * time.Millisecond)
	e.mu.Lock()
	admitted = len(e.conns)
	e.mu.Unlock()
	for _, c := range clients {
		c.Close()
	}
	deadline := time.Now().Add(wait)
	for time.Now().Before(deadline) {
		e.mu.Lock()
		n := len(e.conns)
		e.mu.Unlock()
		if n == 0 {
			break
		}
		time.Sleep(2 * time.Millisecond)
	}
	time.Sleep(10 * time.Millisecond)
	activeAfter = e.active.Load()
	srvSide, cliSide := net.Pipe()
	select {
	case ln.conns <- srvSide:
		time.Sleep(20 * time.Millisecond)
		e.mu.Lock()
		lateAdmitted = len(e.conns) == 1
		e.mu.Unlock()
	case <-time.After(wait):
		srvSide.Close()
	}
	cliSide.Close()
	ln.Close()
	select {
	case <-done:
	case <-time.After(wait):
	}
	return admitted, activeAfter, lateAdmitted
}

// VerifC11FillMore puts a tcpStream's fill buffer in the state "bytes
// [start,end) are unread" (end may be the buffer's size), lets the client have
// `avail` more bytes ready, and runs the REAL fillMore once. It reports the
// cursors afterwards and the error class ("" = nil).
func VerifC11FillMore(start, end, avail int) (ns, ne int, errs string, size int) {
	a, b := net.Pipe()
	defer a.Close()
	defer b.Close()
	s := new(tcpStream)
	s.reset(a)
	if s.wait != nil {
		s.wait.Stop()
	}
	size = len(s.fill)
	if end > size {
		end = size
	}
	if start > end {
		start = end
	}
	s.start, s.end = start, end
	go func() {
		if avail > 0 {
			_, _ = b.Write(make([]byte, avail))
		}
	}()
	_ = a.SetReadDeadline(time.Now().Add(300 * time.Millisecond))
	err := s.fillMore()
	switch {
	case err == nil:
	case err == io.ErrShortBuffer:
		errs = "short-buffer"
	default:
		errs = "io"
	}
	return s.start, s.end, errs, size
}

// verifC11SocketLike makes a pipe end behave like a socket whose peer left:
// setting a deadline still succeeds (a pipe refuses it), the write is what fails.
type verifC11SocketLike struct{ net.Conn }

func (c verifC11SocketLike) SetDeadline(t time.Time) error      { _ = c.Conn.SetDeadline(t); return nil }
func (c verifC11SocketLike) SetReadDeadline(t time.Time) error  { _ = c.Conn.SetReadDeadline(t); return nil }
func (c verifC11SocketLike) SetWriteDeadline(t time.Time) error { _ = c.Conn.SetWriteDeadline(t); return nil }

// VerifC11DrainOp is one step of a drain-side script: 's' stage a reply of Len
// bytes whose first two bytes carry ID, 'f' flush, 'x' the peer goes away.
type VerifC11DrainOp struct {
	Kind byte
	ID   uint16
	Len  int
}

// VerifC11DrainRun drives the REAL tcpStream drain side (stage / flush, with
// beforeWrite inside stage) over a pipe whose other end collects the frames
// that reach the connection. It returns, per step, whether the call returned
// nil, and the IDs of the frames written, in order.
func VerifC11DrainRun(ops []VerifC11DrainOp) (okays []bool, wire []uint16, drainSize int) {
	a, b := net.Pipe()
	s := new(tcpStream)
	s.reset(verifC11SocketLike{a})
	if s.wait != nil {
		s.wait.Stop()
	}
	drainSize = len(s.drain)
	got := make(chan []uint16, 1)
	go func() {
		var ids []uint16
		for {
			var l [2]byte
			if _, err := io.ReadFull(b, l[:]); err != nil {
				break
			}
			n := int(l[0])<<8 | int(l[1])
			body := make([]byte, n)
			if _, err := io.ReadFull(b, body); err != nil {
				break
			}
			if n >= 2 {
				ids = append(ids, uint16(body[0])<<8|uint16(body[1]))
			}
		}
		got <- ids
	}()
	for _, op := range ops {
		switch op.Kind {
		case 's':
			p := make([]byte, op.Len)
			if op.Len >= 2 {
				p[0], p[1] = byte(op.ID>>8), byte(op.ID)
			}
			okays = append(okays, s.stage(p) == nil)
		case 'f':
			okays = append(okays, s.flush() == nil)
		case 'x':
			_ = b.Close() // the peer is gone: every later write fails
			okays = append(okays, true)
		}
	}
	_ = a.Close()
	_ = b.Close()
	select {
	case wire = <-got:
	case <-time.After(2 * time.Second):
	}
	return okays, wire, drainSize
}
