//go:build verif

package server

import "time"

// Accessors for the C11 check. No behaviour change.

// VerifC11QueryTimeout is the effective end-to-end query timeout.
func VerifC11QueryTimeout(s *Server) time.Duration { return s.queryTimeout() }

// VerifC11UDP reports the UDP engine's admission cap, leased slabs and
// in-flight jobs (zeros when no UDP listener is active).
func VerifC11UDP(s *Server) (slabCap, leased, inFlight int64, inline bool) {
	s.listenersMu.Lock()
	defer s.listenersMu.Unlock()
	for _, l := range s.active {
		if u, ok := l.(*udpListener); ok {
			u.mu.Lock()
			e := u.engine
			u.mu.Unlock()
			if e != nil {
				return e.slabCap, e.leased.Load(), e.inFlight.Load(), e.inline != nil
			}
		}
	}
	return 0, 0, 0, false
}
