//go:build verif && !(linux && (amd64 || arm64))

package server

// VerifC11SendBurst: no batched sender on this platform.
func VerifC11SendBurst(ids []uint16, ports []int) (available bool) { return false }

// VerifC11FlushStaged: no batched sender on this platform.
func VerifC11FlushStaged(ids []uint16, ports []int) (stillStaged int, available bool) { return 0, false }

// VerifC11ServeInline: no inline path on this platform.
func VerifC11ServeInline(wrote, handoff, panics, replayWrote bool) (staged, replays, releases int, available bool) {
	return 0, 0, 0, false
}
