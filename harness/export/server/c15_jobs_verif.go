//go:build verif

package server

import (
	"bytes"
	"io"
	"net"
	"net/netip"
	"time"

	"github.com/semihalev/sdns/middleware"
)

// Accessors for C15: the REAL owned-listener transports (udpJob, tcpJob over
// a tcpStream) built outside an engine, with their TX storage pre-filled as
// if an earlier client's reply were still in it, and a way to read what they
// staged or sent. No behaviour change.

const (
	VerifC15UDPBufSize   = udpJobBufSize
	VerifC15TCPDrainSize = tcpDrainSize
)

// VerifC15UDP wraps one udpJob.
type VerifC15UDP struct {
	j    *udpJob
	peer *net.UDPConn
}

// VerifC15NewUDP: burst=true stages into the job's TX (the worker's burst
// sends it later); burst=false sends on a loopback socket right away.
func VerifC15NewUDP(burst bool, fill byte) (*VerifC15UDP, error) {
	j := new(udpJob)
	for i := range j.tx {
		j.tx[i] = fill
	}
	v := &VerifC15UDP{j: j}
	j.setRemote(netip.MustParseAddrPort("192.0.2.9:5353"))
	if burst {
		j.burst = &udpTXBurst{}
		return v, nil
	}
	pc, err := net.ListenUDP("udp4", &net.UDPAddr{IP: net.IPv4(127, 0, 0, 1)})
	if err != nil {
		return nil, err
	}
	peer, err := net.ListenUDP("udp4", &net.UDPAddr{IP: net.IPv4(127, 0, 0, 1)})
	if err != nil {
		pc.Close()
		return nil, err
	}
	j.pc = pc
	j.setRemote(peer.LocalAddr().(*net.UDPAddr).AddrPort())
	v.peer = peer
	return v, nil
}

func (v *VerifC15UDP) Transport() middleware.Transport { return v.j }

// Sent returns the datagram the job staged (burst) or sent (direct), nil if none.
func (v *VerifC15UDP) Sent() []byte {
	if v.j.burst != nil {
		if !v.j.written || v.j.txLen == 0 {
			return nil
		}
		return append([]byte(nil), v.j.tx[:v.j.txLen]...)
	}
	buf := make([]byte, 70000)
	_ = v.peer.SetReadDeadline(time.Now().Add(30 * time.Millisecond))
	n, _, err := v.peer.ReadFromUDP(buf)
	if err != nil {
		return nil
	}
	return buf[:n]
}

func (v *VerifC15UDP) Close() {
	if v.j.pc != nil {
		v.j.pc.Close()
	}
	if v.peer != nil {
		v.peer.Close()
	}
}

// c15Conn records what a connection is asked to write.
type c15Conn struct{ out bytes.Buffer }

func (c *c15Conn) Read([]byte) (int, error)         { return 0, io.EOF }
func (c *c15Conn) Write(b []byte) (int, error)      { return c.out.Write(b) }
func (c *c15Conn) Close() error                     { return nil }
func (c *c15Conn) LocalAddr() net.Addr              { return &net.TCPAddr{IP: net.IPv4(127, 0, 0, 1), Port: 53} }
func (c *c15Conn) RemoteAddr() net.Addr             { return &net.TCPAddr{IP: net.IPv4(192, 0, 2, 9), Port: 5353} }
func (c *c15Conn) SetDeadline(time.Time) error      { return nil }
func (c *c15Conn) SetReadDeadline(time.Time) error  { return nil }
func (c *c15Conn) SetWriteDeadline(time.Time) error { return nil }

// VerifC15TCP is one connection's stream with jobs served on it.
type VerifC15TCP struct {
	conn   *c15Conn
	stream *tcpStream
	fill   byte
}

func VerifC15NewTCP(fill byte) *VerifC15TCP {
	v := &VerifC15TCP{conn: &c15Conn{}, stream: new(tcpStream), fill: fill}
	v.stream.reset(v.conn)
	for i := range v.stream.drain {
		v.stream.drain[i] = fill
	}
	return v
}

// Job returns a fresh job (small or large class) on this connection.
func (v *VerifC15TCP) Job(large bool) middleware.Transport {
	j := newTCPJob(nil, large)
	for i := range j.tx {
		j.tx[i] = v.fill
	}
	j.conn = v.conn
	j.stream = v.stream
	return j
}

// Frames flushes the stream and returns the payloads of the frames written
// to the connection, in order (nil on a framing error).
func (v *VerifC15TCP) Frames() [][]byte {
	if err := v.stream.beforeWrite(); err == nil {
		_ = v.stream.flush()
	}
	b := v.conn.out.Bytes()
	var out [][]byte
	for len(b) > 0 {
		if len(b) < 2 {
			return nil
		}
		n := int(b[0])<<8 | int(b[1])
		if len(b) < 2+n {
			return nil
		}
		out = append(out, append([]byte(nil), b[2:2+n]...))
		b = b[2+n:]
	}
	return out
}
