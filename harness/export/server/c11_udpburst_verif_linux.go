//go:build verif && linux && (amd64 || arm64)

package server

import (
	"net"
	"time"

	"github.com/miekg/dns"
	"github.com/semihalev/sdns/middleware"
	"golang.org/x/sys/unix"
)

type verifC11Noop struct{}

func (verifC11Noop) ServeRaw(middleware.Transport, []byte, time.Time) bool { return true }

// VerifC11SendBurst stages one worker burst on the REAL batched sender
// (udpEngine.sendGroup over a fresh loopback socket): job i is a reply with
// message id ids[i] staged for 127.0.0.1:ports[i], raw sockaddr armed exactly
// as a batched read leaves it. Port 0 is a destination the kernel refuses.
// available=false: this system has no batch TX (nothing was sent).
func VerifC11SendBurst(ids []uint16, ports []int) (available bool) {
	srv, err := net.ListenUDP("udp", &net.UDPAddr{IP: net.IPv4(127, 0, 0, 1)})
	if err != nil {
		return false
	}
	defer srv.Close()
	e := newUDPEngine(verifC11Noop{}, []*net.UDPConn{srv}, false, 1, 8, defaultResourcePlan(1))
	if e.txConns == nil || e.txConns[srv] == nil {
		return false
	}
	jobs := make([]*udpJob, 0, len(ports))
	for i, port := range ports {
		j := &udpJob{engine: e, pc: srv}
		var sa [unix.SizeofSockaddrInet4]byte
		sa[0] = byte(unix.AF_INET)
		sa[2], sa[3] = byte(port>>8), byte(port)
		copy(sa[4:8], net.IPv4(127, 0, 0, 1).To4())
		if !j.setRemoteRaw(sa[:]) {
			return false
		}
		copy(j.rawSA[:], sa[:])
		j.rawSALen = uint32(len(sa))
		m := new(dns.Msg)
		m.SetQuestion("burst.c11.test.", dns.TypeA)
		m.Id = ids[i]
		m.Response = true
		out, perr := m.PackBuffer(j.tx[:])
		if perr != nil {
			return false
		}
		j.txLen = len(out)
		jobs = append(jobs, j)
	}
	e.sendGroup(&e.txSenders[0], jobs, srv)
	return true
}
