//go:build verif && linux && (amd64 || arm64)

package server

import (
	"net"
	"net/netip"
	"time"

	"github.com/miekg/dns"
	"github.com/semihalev/sdns/middleware"
	"golang.org/x/sys/unix"
)

type verifC11Noop struct{}

func (verifC11Noop) ServeRaw(middleware.Transport, []byte, time.Time) bool { return true }

// VerifC11SendBurst stages one worker burst on the REAL batched sender
// (udpEngine.sendGroup over a fresh loopback socket): job i is a reply with
// message id ids[i] staged for 127.0.0.1:ports[i], raw sockaddr armed exactly
// as a batched read leaves it. Port 0 is a destination the kernel refuses.
// available=false: this system has no batch TX (nothing was sent).
func VerifC11SendBurst(ids []uint16, ports []int) (available bool) {
	srv, err := net.ListenUDP("udp", &net.UDPAddr{IP: net.IPv4(127, 0, 0, 1)})
	if err != nil {
		return false
	}
	defer srv.Close()
	e := newUDPEngine(verifC11Noop{}, []*net.UDPConn{srv}, false, 1, 8, defaultResourcePlan(1))
	if e.txConns == nil || e.txConns[srv] == nil {
		return false
	}
	jobs := make([]*udpJob, 0, len(ports))
	for i, port := range ports {
		j := &udpJob{engine: e, pc: srv}
		var sa [unix.SizeofSockaddrInet4]byte
		sa[0] = byte(unix.AF_INET)
		sa[2], sa[3] = byte(port>>8), byte(port)
		copy(sa[4:8], net.IPv4(127, 0, 0, 1).To4())
		if !j.setRemoteRaw(sa[:]) {
			return false
		}
		copy(j.rawSA[:], sa[:])
		j.rawSALen = uint32(len(sa))
		m := new(dns.Msg)
		m.SetQuestion("burst.c11.test.", dns.TypeA)
		m.Id = ids[i]
		m.Response = true
		out, perr := m.PackBuffer(j.tx[:])
		if perr != nil {
			return false
		}
		j.txLen = len(out)
		jobs = append(jobs, j)
	}
	e.sendGroup(&e.txSenders[0], jobs, srv)
	return true
}

// VerifC11FlushStaged puts the worker of a one-worker engine in the state
// "replies ids[i] → 127.0.0.1:ports[i] are staged on my burst (served requests
// awaiting the send), and the request I serve now leaves the fast path": the
// current job has written nothing yet and calls FlushStaged, as Chain's
// strict-context detach and the decoded fallback do. Returns how many jobs are
// still staged on the burst afterwards. available=false: no batch TX here.
func VerifC11FlushStaged(ids []uint16, ports []int) (stillStaged int, available bool) {
	srv, err := net.ListenUDP("udp", &net.UDPAddr{IP: net.IPv4(127, 0, 0, 1)})
	if err != nil {
		return 0, false
	}
	defer srv.Close()
	e := newUDPEngine(verifC11Noop{}, []*net.UDPConn{srv}, false, 1, 8, defaultResourcePlan(1))
	if e.txConns == nil || e.txConns[srv] == nil {
		return 0, false
	}
	burst := udpTXBurst{slot: 0}
	mk := func(id uint16, port int) *udpJob {
		j := &udpJob{engine: e, pc: srv}
		var sa [unix.SizeofSockaddrInet4]byte
		sa[0] = byte(unix.AF_INET)
		sa[2], sa[3] = byte(port>>8), byte(port)
		copy(sa[4:8], net.IPv4(127, 0, 0, 1).To4())
		if !j.setRemoteRaw(sa[:]) {
			return nil
		}
		copy(j.rawSA[:], sa[:])
		j.rawSALen = uint32(len(sa))
		// owned exactly like a job between serve and send
		e.leased.Add(1)
		e.inFlight.Add(1)
		j.state = udpJobServing
		m := new(dns.Msg)
		m.SetQuestion("burst.c11.test.", dns.TypeA)
		m.Id = id
		m.Response = true
		if out, perr := m.PackBuffer(j.tx[:]); perr == nil {
			j.txLen = len(out)
		}
		return j
	}
	for i, port := range ports {
		j := mk(ids[i], port)
		if j == nil {
			return 0, false
		}
		burst.add(j)
	}
	cur := mk(0, 9)
	if cur == nil {
		return 0, false
	}
	cur.txLen = 0 // nothing written yet: it is only now entering its slow path
	cur.burst = &burst
	cur.FlushStaged()
	return burst.n, true
}

// verifC11Inline is a scripted inlineRawHandler: the inline pass writes a
// reply or not, marks hand-off or not, panics or not.
type verifC11Inline struct {
	wrote, handoff, panics bool
	replays                int
	replayWrote            bool
}

func (h *verifC11Inline) ServeRaw(w middleware.Transport, raw []byte, _ time.Time) bool { return true }
func (h *verifC11Inline) InlineReady() bool                                              { return true }
func (h *verifC11Inline) ServeRawInline(w middleware.Transport, raw []byte, _ time.Time) bool {
	if h.wrote {
		_, _ = w.Write(raw)
	}
	if h.panics {
		panic("c11: scripted inline panic")
	}
	return !h.handoff
}
func (h *verifC11Inline) ServeRawReplay(w middleware.Transport, raw []byte, _ time.Time) bool {
	h.replays++
	if h.replayWrote {
		_, _ = w.Write(raw)
	}
	return true
}

// VerifC11ServeInline runs the REAL udpEngine.serveInline on a job in the
// reading state (and, when it hands the job back, the worker's serve on it)
// against a handler scripted with what the inline pass does. It reports what
// the engine did with the job: datagrams staged for sending, replay passes,
// releases back to the ring.
func VerifC11ServeInline(wrote, handoff, panics, replayWrote bool) (staged, replays, releases int, available bool) {
	srv, err := net.ListenUDP("udp", &net.UDPAddr{IP: net.IPv4(127, 0, 0, 1)})
	if err != nil {
		return 0, 0, 0, false
	}
	defer srv.Close()
	h := &verifC11Inline{wrote: wrote, handoff: handoff, panics: panics, replayWrote: replayWrote}
	e := newUDPEngine(h, []*net.UDPConn{srv}, false, 1, 8, defaultResourcePlan(1))
	if e.inline == nil {
		return 0, 0, 0, false
	}
	j := e.take(0)
	if j == nil {
		return 0, 0, 0, false
	}
	j.transition(udpJobFree, udpJobReading)
	q := new(dns.Msg)
	q.SetQuestion("inline.c11.test.", dns.TypeA)
	pkt, _ := q.Pack()
	j.rxLen = copy(j.rx[:], pkt)
	j.pc = srv
	j.readTime = time.Now()
	j.setRemote(netip.MustParseAddrPort("127.0.0.1:9"))
	leased0 := e.leased.Load()
	readerBurst := udpTXBurst{slot: 1}
	done := e.serveInline(j, &readerBurst)
	staged += readerBurst.n
	workerBurst := udpTXBurst{slot: 0}
	if !done {
		j.state = udpJobQueued // enqueueCounted
		e.serve(j, &workerBurst)
		staged += workerBurst.n
	}
	// the send releases staged jobs; count what came back to the ring
	readerBurst.release()
	workerBurst.release()
	releases = int(leased0 - e.leased.Load())
	return staged, h.replays, releases, true
}
