//go:build verif

package authority

import "time"

// Accessors for the C08 driver (no behaviour change).

// VerifC08SetNow replaces the cache's injectable clock.
func VerifC08SetNow(c *Cache, f func() time.Time) { c.now = f }

// VerifC08MaximumTTL reads the lease ceiling constant.
func VerifC08MaximumTTL() time.Duration { return maximumTTL }

// VerifC08LeaseCeiling reads the exported ceiling the resolver applies to the lease itself.
func VerifC08LeaseCeiling() time.Duration { return MaximumTTL }

// VerifC08Entry is one stored delegation (both CD buckets are listed).
type VerifC08Entry struct {
	Key       uint64
	Zone      string
	CD        bool
	NDS       int
	ExpiresAt time.Time
}

// VerifC08Entries lists every stored delegation, expired ones included.
func VerifC08Entries(c *Cache) []VerifC08Entry {
	var out []VerifC08Entry
	c.cache.ForEach(func(key uint64, value any) bool {
		if dl, ok := value.(*Delegation); ok && dl != nil {
			e := VerifC08Entry{Key: key, NDS: len(dl.DSSet), ExpiresAt: dl.ExpiresAt}
			if dl.Servers != nil {
				e.Zone = dl.Servers.Zone
				e.CD = dl.Servers.CheckingDisable
			}
			out = append(out, e)
		}
		return true
	})
	return out
}
