//go:build verif

package authority

import "time"

// VerifShift moves every stored delegation deadline d into the past
// (emulated clock advance). Entries are immutable, so each is replaced by a
// copy. Accessor only.
func VerifShift(c *Cache, d time.Duration) {
	type kv struct {
		k uint64
		v *Delegation
	}
	var all []kv
	c.cache.ForEach(func(key uint64, value any) bool {
		if dl, ok := value.(*Delegation); ok {
			all = append(all, kv{key, dl})
		}
		return true
	})
	for _, e := range all {
		cp := *e.v
		cp.ExpiresAt = cp.ExpiresAt.Add(-d)
		c.cache.Add(e.k, &cp)
	}
}

// VerifEntries lists zone → remaining lease.
func VerifEntries(c *Cache) map[string]time.Duration {
	out := map[string]time.Duration{}
	c.cache.ForEach(func(key uint64, value any) bool {
		if dl, ok := value.(*Delegation); ok && dl.Servers != nil {
			out[dl.Servers.Zone] = time.Until(dl.ExpiresAt)
		}
		return true
	})
	return out
}
