//go:build verif

package authority

// VerifC07Entries lists every stored delegation as zone -> server addresses
// (accessor only; used by the C07 system-level audit).
func VerifC07Entries(c *Cache) map[string][]string {
	out := map[string][]string{}
	c.cache.ForEach(func(key uint64, value any) bool {
		if dl, ok := value.(*Delegation); ok && dl.Servers != nil {
			dl.Servers.RLock()
			var addrs []string
			for _, s := range dl.Servers.List {
				addrs = append(addrs, s.Addr)
			}
			zone := dl.Servers.Zone
			dl.Servers.RUnlock()
			out[zone] = append(out[zone], addrs...)
		}
		return true
	})
	return out
}
