//go:build verif

package wire

import (
	"fmt"
	"reflect"

	"github.com/miekg/dns"
)

// Accessors for the C15 check (pooled packer). No behaviour change: they
// expose unexported functions/constants and let the harness look at, or
// pre-dirty, the buffers resting in packStatePool.

const (
	VerifPackBufferSize              = packBufferSize
	VerifHeaderLen                   = headerLen
	VerifMaxPooledCompressionEntries = maxPooledCompressionEntries
)

func VerifMsgBits(m *dns.Msg) uint16                       { return msgBits(m) }
func VerifSelectOPT(m *dns.Msg) (*dns.OPT, bool)           { return selectOPT(m) }
func VerifAdmissibleRR(rr dns.RR) bool                     { return admissibleRR(rr) }
func VerifMsgIsCompressible(m *dns.Msg) bool               { return msgIsCompressible(m) }
func VerifLibraryPackImmutable(m *dns.Msg) ([]byte, error) { return libraryPackImmutable(m) }

// VerifPoisonPool takes n states out of the pool, fills their buffers with
// b (as an earlier, larger message would have) and puts them back.
func VerifPoisonPool(n int, b byte) {
	states := make([]*packState, 0, n)
	for i := 0; i < n; i++ {
		states = append(states, packStatePool.Get().(*packState))
	}
	for _, s := range states {
		for i := range s.buf {
			s.buf[i] = b
		}
		packStatePool.Put(s)
	}
}

// VerifInspectPool takes n states out of the pool, reports the first field
// that still holds something of a message ("clean" if none) and puts them
// back untouched.
func VerifInspectPool(n int) string {
	states := make([]*packState, 0, n)
	for i := 0; i < n; i++ {
		states = append(states, packStatePool.Get().(*packState))
	}
	verdict := "clean"
	for _, s := range states {
		switch {
		case s.rr.RR != nil:
			verdict = "shim-holds-record"
		case !reflect.DeepEqual(s.rr.hdr, dns.RR_Header{}):
			verdict = "shim-header-not-zero"
		case !reflect.DeepEqual(s.opt, dns.OPT{}):
			verdict = "opt-copy-not-zero"
		case len(s.compression) != 0:
			verdict = fmt.Sprintf("dictionary-holds-%d-names", len(s.compression))
		}
		if verdict != "clean" {
			break
		}
	}
	for _, s := range states {
		packStatePool.Put(s)
	}
	return verdict
}

// VerifPoolDrain takes n states out of the pool and reports how often the
// most frequent one of them came out (1 = every borrower got a state of its
// own; 2 = the pool handed the same state to two borrowers). Each distinct
// state is put back exactly once.
func VerifPoolDrain(n int) int {
	seen := map[*packState]int{}
	max := 0
	for i := 0; i < n; i++ {
		s := packStatePool.Get().(*packState)
		seen[s]++
		if seen[s] > max {
			max = seen[s]
		}
	}
	for s := range seen {
		packStatePool.Put(s)
	}
	return max
}

// VerifBufferPooled reports whether the pooled state whose buffer b points
// into is resting in the pool right now (looked for among the next n states
// the pool hands out; every state taken is put back once).
func VerifBufferPooled(b []byte, n int) bool {
	if len(b) == 0 {
		return false
	}
	seen := map[*packState]bool{}
	found := false
	for i := 0; i < n; i++ {
		s := packStatePool.Get().(*packState)
		if &s.buf[0] == &b[:1][0] {
			found = true
		}
		seen[s] = true
	}
	for s := range seen {
		packStatePool.Put(s)
	}
	return found
}
