//go:build verif

package dnsutil

import (
	"time"

	"github.com/miekg/dns"
)

// Accessors for the C04 correspondence driver (no behaviour change).

// VerifC04GetRRSIGTTL calls the unexported getRRSIGTTL with an explicit now.
func VerifC04GetRRSIGTTL(sig *dns.RRSIG, now time.Time) time.Duration { return getRRSIGTTL(sig, now) }

// VerifC04HasRecords calls the unexported hasRecords.
func VerifC04HasRecords(m *dns.Msg) bool { return hasRecords(m) }
