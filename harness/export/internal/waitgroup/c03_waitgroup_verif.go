//go:build verif

package waitgroup

import "sort"

// VerifC03Keys lists the keys that have a live leadership generation.
func VerifC03Keys(wg *WaitGroup) []uint64 {
	wg.mu.RLock()
	defer wg.mu.RUnlock()
	out := make([]uint64, 0, len(wg.groups))
	for k := range wg.groups {
		out = append(out, k)
	}
	sort.Slice(out, func(i, j int) bool { return out[i] < out[j] })
	return out
}
