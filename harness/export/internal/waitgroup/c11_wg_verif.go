//go:build verif

package waitgroup

import (
	"context"
	"time"
)

// Accessors for the C11 check. No behaviour change.

// VerifCurrent returns groups[key] (nil when absent).
func VerifCurrent(wg *WaitGroup, key uint64) *Generation {
	wg.mu.RLock()
	defer wg.mu.RUnlock()
	return wg.groups[key]
}

// VerifLen returns the number of registered keys.
func VerifLen(wg *WaitGroup) int {
	wg.mu.RLock()
	defer wg.mu.RUnlock()
	return len(wg.groups)
}

// VerifNext returns generation.next.
func VerifNext(g *Generation) *Generation {
	g.nextMu.Lock()
	defer g.nextMu.Unlock()
	return g.next
}

// VerifTimeout returns the configured bounded wait.
func VerifTimeout(wg *WaitGroup) time.Duration { return wg.timeout }

// VerifExpire emulates the passage of the generation's bounded wait: the
// generation's context is replaced by one whose deadline already lies in
// the past (exactly the state context.WithTimeout reaches when its timer
// fires: Done closed, Err == DeadlineExceeded; a later cancel keeps that
// error). Only used by single-threaded scripted runs in which nobody holds
// the old Done channel; the real timer path is exercised separately.
func VerifExpire(g *Generation) {
	old := g.cancel
	g.ctx, g.cancel = context.WithDeadline(context.Background(), time.Now().Add(-time.Second))
	if old != nil {
		old()
	}
}
