//go:build verif

package cache

// Accessors for the C16 correspondence driver (bounded concurrent tables).
// Read-only views of unexported fields plus calls of unexported functions;
// no behaviour change.

// VerifUMapDataLen is len(m.data).
func VerifUMapDataLen[V any](m *UInt64Map[V]) int { return len(m.data) }

// VerifUMapGrowAt is m.growAt.
func VerifUMapGrowAt[V any](m *UInt64Map[V]) int { return m.growAt }

// VerifUMapSlots lists data[i].Key for every slot, in array order.
func VerifUMapSlots[V any](m *UInt64Map[V]) []uint64 {
	out := make([]uint64, len(m.data))
	for i := range m.data {
		out[i] = m.data[i].Key
	}
	return out
}

// VerifUMapZero returns (hasZeroKey, zeroVal).
func VerifUMapZero[V any](m *UInt64Map[V]) (bool, V) { return m.hasZeroKey, m.zeroVal }

// VerifUMapGrow calls the unexported grow().
func VerifUMapGrow[V any](m *UInt64Map[V]) { m.grow() }

// VerifPrimaryIndex calls the unexported primaryIndex(key).
func VerifPrimaryIndex[V any](m *UInt64Map[V], key uint64) int { return m.primaryIndex(key) }

// VerifSegIndex calls the unexported getSegmentIndex(key).
func VerifSegIndex[V any](m *SegmentUInt64Map[V], key uint64) uint { return m.getSegmentIndex(key) }

// VerifSegmentData returns the table of segment i (no lock taken: the
// driver only uses it while no other goroutine touches the map).
func VerifSegmentData[V any](m *SegmentUInt64Map[V], i int) *UInt64Map[V] {
	return m.segments[i].data
}

// VerifCacheSegMap returns the segmented map inside a Cache.
func VerifCacheSegMap(c *Cache) *SegmentUInt64Map[any] { return c.data.data }

// VerifCacheMaxSize returns c.maxSize.
func VerifCacheMaxSize(c *Cache) int64 { return c.maxSize }

// VerifSegLock / VerifSegUnlock take and release the WRITE lock of key's
// segment (exposes the unexported per-segment mutex; used to stage "several
// goroutines arrive while a writer is busy in this segment").
func VerifSegLock[V any](m *SegmentUInt64Map[V], key uint64) { m.getSegment(key).rwlock.Lock() }

// VerifSegUnlock releases what VerifSegLock took.
func VerifSegUnlock[V any](m *SegmentUInt64Map[V], key uint64) { m.getSegment(key).rwlock.Unlock() }
