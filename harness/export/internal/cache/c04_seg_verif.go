//go:build verif

package cache

// VerifC04SameSegment returns n keys other than key that live in key's lock
// segment (accessor only: lets the C04 stress keep that segment's lock busy
// with ordinary admissions, as a loaded cache does).
func VerifC04SameSegment(c *Cache, key uint64, n int) []uint64 {
	seg := c.data.data.getSegmentIndex(key)
	var out []uint64
	for k := uint64(1); len(out) < n; k++ {
		if k != key && c.data.data.getSegmentIndex(k) == seg {
			out = append(out, k)
		}
	}
	return out
}
