//go:build verif

package cache

// Accessors for the C03 correspondence driver (no behaviour change).

// VerifC03IsPresentationSpecial exposes isPresentationSpecial so the driver
// can evaluate it over all 256 octets.
func VerifC03IsPresentationSpecial(b byte) bool { return isPresentationSpecial(b) }

// VerifC03MaxWireNameOctets exposes the wire-name length bound.
func VerifC03MaxWireNameOctets() int { return maxWireNameOctets }
