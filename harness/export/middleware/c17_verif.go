//go:build verif

package middleware

// VerifAutoWire exposes Pipeline.autoWire (accessor only).
func VerifAutoWire(p *Pipeline) { p.autoWire() }
