//go:build verif

package middleware

// VerifAutoWire exposes Pipeline.autoWire (accessor only).
func VerifAutoWire(p *Pipeline) { p.autoWire() }

// VerifQueryerNames lists, in order, the handlers of the sub-pipeline a
// pipeline queryer dispatches into (accessor only).
func VerifQueryerNames(q Queryer) []string {
	pq, ok := q.(*pipelineQueryer)
	if !ok || pq == nil || pq.sub == nil {
		return nil
	}
	var out []string
	for _, h := range pq.sub.handlers {
		out = append(out, h.Name())
	}
	return out
}
