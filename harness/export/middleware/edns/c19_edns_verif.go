//go:build verif

package edns

import (
	"github.com/miekg/dns"
	"github.com/semihalev/sdns/internal/ecs"
)

// VerifC19StripECS exposes stripECS (accessor only).
func VerifC19StripECS(opts []dns.EDNS0) []dns.EDNS0 { return stripECS(opts) }

// VerifC19Policy reads the policy edns.New built from the configuration.
func VerifC19Policy(e *EDNS) *ecs.Policy { return e.ecsPolicy }
