//go:build verif

package edns

import (
	"github.com/semihalev/sdns/config"
	"github.com/semihalev/sdns/middleware"
)

// VerifC11Wrap builds the per-request edns.ResponseWriter around inner with
// the given client facts (accessor only: the wrapper ServeDNS installs).
func VerifC11Wrap(inner middleware.ResponseWriter, do, noedns, noad bool, size int) middleware.ResponseWriter {
	return &ResponseWriter{
		ResponseWriter: inner,
		EDNS:           New(&config.Config{}),
		do:             do,
		noedns:         noedns,
		noad:           noad,
		size:           size,
		respUDPSize:    uint16(size),
	}
}
