//go:build verif

package edns

import (
	"github.com/semihalev/sdns/internal/wire"
	"github.com/semihalev/sdns/middleware"
)

// VerifC05OPTSpec is the set of writer facts the byte-built OPT depends on.
type VerifC05OPTSpec struct {
	NoEDNS      bool
	DO          bool
	RespUDPSize uint16
	CookieRaw   []byte // 8 bytes or nil (strict-path form)
	CookieHex   string // Msg-path form
	NSIDAsked   bool
	Keepalive   bool
}

// VerifC05WireOPT runs the real wireOPTLen and appendWireOPT of a writer
// carrying spec over inner (accessor only: it fills the wrapper's unexported
// fields exactly as serveWire / ServeDNS do and calls the two functions).
func VerifC05WireOPT(e *EDNS, inner middleware.ResponseWriter, spec VerifC05OPTSpec, info middleware.WireInfo) (optLen int, lenOK bool, opt []byte, ok bool) {
	w := &ResponseWriter{ResponseWriter: inner, EDNS: e}
	w.noedns = spec.NoEDNS
	w.do = spec.DO
	w.respUDPSize = spec.RespUDPSize
	if len(spec.CookieRaw) == 8 {
		copy(w.cookieRaw[:], spec.CookieRaw)
		w.hasCookieRaw = true
	}
	w.cookie = spec.CookieHex
	w.nsid = spec.NSIDAsked
	w.keepalive = spec.Keepalive
	optLen, lenOK = w.wireOPTLen()
	body := make([]byte, 0, 4096)
	out, ok := w.appendWireOPT(body, info)
	return optLen, lenOK, out, ok
}

// VerifC05Consts exposes the fixed sizes the byte-built OPT is made of.
func VerifC05Consts() map[string]int {
	return map[string]int{
		"serverCookieLen":    serverCookieLen,
		"clientCookieHexLen": clientCookieHexLen,
		"cookiePreimageMax":  cookiePreimageMax,
		"maxTextualAddrLen":  maxTextualAddrLen,
		"tcpKeepaliveUnits":  int(tcpKeepaliveUnits),
		"optFixedLen":        wire.OPTFixedLen,
		"optOptionHdrLen":    wire.OPTOptionHdrLen,
	}
}

// VerifC05WF is what the edns handler decided for one client (the fields of
// the per-request writer wrapper both of its branches fill).
type VerifC05WF struct {
	Size                              int
	DO, NoEDNS, NSID, Keepalive, NoAD bool
	RespUDPSize                       uint16
	Cookie                            string // client half, hex ("" = none)
}

// VerifC05WriterFacts reads the wrapper installed on the chain (accessor only).
func VerifC05WriterFacts(w middleware.ResponseWriter) (VerifC05WF, bool) {
	rw, ok := w.(*ResponseWriter)
	if !ok {
		return VerifC05WF{}, false
	}
	f := VerifC05WF{Size: rw.size, DO: rw.do, NoEDNS: rw.noedns, NSID: rw.nsid, Keepalive: rw.keepalive, NoAD: rw.noad,
		RespUDPSize: rw.respUDPSize, Cookie: rw.cookie}
	if rw.hasCookieRaw {
		const hexd = "0123456789abcdef"
		b := make([]byte, 0, 16)
		for _, c := range rw.cookieRaw {
			b = append(b, hexd[c>>4], hexd[c&15])
		}
		f.Cookie = string(b)
	}
	return f, true
}
