//go:build verif

package edns

// VerifC06KeepaliveUnits exposes the idle timeout (in 100 ms units) the
// server advertises in its own edns-tcp-keepalive option (accessor only).
func VerifC06KeepaliveUnits() uint16 { return tcpKeepaliveUnits }
