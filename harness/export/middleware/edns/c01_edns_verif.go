//go:build verif

package edns

// VerifC01NoAD exposes the writer's AD discipline flag (accessor only).
func VerifC01NoAD(w *ResponseWriter) bool { return w.noad }
