//go:build verif

package edns

// VerifC01NoAD reads the writer's AD-discipline flag (accessor only).
func VerifC01NoAD(w *ResponseWriter) bool { return w.noad }
