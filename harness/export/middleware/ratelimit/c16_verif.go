//go:build verif

package ratelimit

import "time"

// verifFind looks key up by iterating, so the accessors do not depend on the
// map's key type (the driver must keep building when the store is re-keyed).
func verifFind(s *LimiterStore, key uint64) (*timestampedLimiter, bool) {
	for k, tl := range s.limiters {
		if uint64(k) == key {
			return tl, true
		}
	}
	return nil, false
}

// VerifLimiterKeys lists the keys currently held by the store (under the
// read lock). Accessor only.
func VerifLimiterKeys(s *LimiterStore) []uint64 {
	s.mu.RLock()
	defer s.mu.RUnlock()
	out := make([]uint64, 0, len(s.limiters))
	for k := range s.limiters {
		out = append(out, uint64(k))
	}
	return out
}

// VerifLimiterHas reports whether key is stored (under the read lock,
// without touching lastSeen). Accessor only.
func VerifLimiterHas(s *LimiterStore, key uint64) bool {
	s.mu.RLock()
	defer s.mu.RUnlock()
	_, ok := verifFind(s, key)
	return ok
}

// VerifLimiterSpend drains the token bucket of key's limiter the way the
// middleware does (rl.Allow() per query) until it refuses; lastSeen is not
// touched. Returns the number of tokens taken. Accessor only.
func VerifLimiterSpend(s *LimiterStore, key uint64) int {
	s.mu.RLock()
	tl, ok := verifFind(s, key)
	s.mu.RUnlock()
	if !ok {
		return 0
	}
	n := 0
	for n < 1<<16 && tl.limiter.rl.Allow() {
		n++
	}
	return n
}

// VerifLimiterSetCookie stores a server cookie on key's limiter as
// ServeDNS does after a cookie round trip. Accessor only.
func VerifLimiterSetCookie(s *LimiterStore, key uint64, cookie string) {
	s.mu.RLock()
	tl, ok := verifFind(s, key)
	s.mu.RUnlock()
	if ok {
		tl.limiter.cookie.Store(cookie)
	}
}

// VerifLimiterLock / VerifLimiterUnlock take and release the store's write
// lock (exposes the unexported mutex; used to stage concurrent arrivals).
func VerifLimiterLock(s *LimiterStore) { s.mu.Lock() }

// VerifLimiterUnlock releases what VerifLimiterLock took.
func VerifLimiterUnlock(s *LimiterStore) { s.mu.Unlock() }

// VerifLimiterAge shifts key's lastSeen back by d (the entry has been idle
// for d) instead of sleeping. Timestamp shifter only.
func VerifLimiterAge(s *LimiterStore, key uint64, d time.Duration) {
	s.mu.RLock()
	tl, ok := verifFind(s, key)
	s.mu.RUnlock()
	if ok {
		tl.lastSeen.Store(tl.lastSeen.Load() - int64(d))
	}
}

// VerifLimiterID returns the limiter as an opaque comparable identity.
func VerifLimiterID(l *limiter) any { return l }
