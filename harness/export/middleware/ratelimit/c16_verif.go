//go:build verif

package ratelimit

// VerifLimiterKeys lists the keys currently held by the store (under the
// read lock). Accessor only.
func VerifLimiterKeys(s *LimiterStore) []uint64 {
	s.mu.RLock()
	defer s.mu.RUnlock()
	out := make([]uint64, 0, len(s.limiters))
	for k := range s.limiters {
		out = append(out, k)
	}
	return out
}

// VerifLimiterHas reports whether key is stored (under the read lock,
// without touching lastSeen). Accessor only.
func VerifLimiterHas(s *LimiterStore, key uint64) bool {
	s.mu.RLock()
	defer s.mu.RUnlock()
	_, ok := s.limiters[key]
	return ok
}
