//go:build verif

package blocklist

import "sort"

// Accessors for the C18 correspondence driver. No behaviour is changed:
// every function below only calls an existing unexported function or reads
// a field under the lock the code itself uses for it.

// VerifSnap is blockSnapshot.
type VerifSnap = blockSnapshot

// VerifSnapVersion reads blockSnapshot.version.
func VerifSnapVersion(s VerifSnap) uint64 { return s.version }

// VerifLock / VerifUnlock take BlockList.mu the way Set/Remove do.
func VerifLock(b *BlockList)   { b.mu.Lock() }
func VerifUnlock(b *BlockList) { b.mu.Unlock() }

// VerifSetLocked is setLocked (caller holds mu).
func VerifSetLocked(b *BlockList, key string) bool { return b.setLocked(key) }

// VerifRemoveLocked is removeLocked (caller holds mu).
func VerifRemoveLocked(b *BlockList, key string) bool { return b.removeLocked(key) }

// VerifSnapshotLocked is snapshotLocked (caller holds mu).
func VerifSnapshotLocked(b *BlockList) VerifSnap { return b.snapshotLocked() }

// VerifPersist is persist.
func VerifPersist(b *BlockList, s VerifSnap) { b.persist(s) }

// VerifDump returns sorted copies of the three maps (keys whose value is true).
func VerifDump(b *BlockList) (m, wild, w []string) {
	b.mu.RLock()
	defer b.mu.RUnlock()
	cp := func(src map[string]bool) []string {
		out := make([]string, 0, len(src))
		for k, v := range src {
			if v {
				out = append(out, k)
			} else {
				out = append(out, k+"\x00false")
			}
		}
		sort.Strings(out)
		return out
	}
	return cp(b.m), cp(b.wild), cp(b.w)
}

// VerifVersions reads version (under mu) and lastPersisted (under saveMu).
func VerifVersions(b *BlockList) (version, lastPersisted uint64) {
	b.mu.RLock()
	version = b.version
	b.mu.RUnlock()
	b.saveMu.Lock()
	lastPersisted = b.lastPersisted
	b.saveMu.Unlock()
	return
}

// VerifMatchHierarchy is matchHierarchy over a set given as a slice.
func VerifMatchHierarchy(name string, set []string) bool {
	m := make(map[string]bool, len(set))
	for _, s := range set {
		m[s] = true
	}
	return matchHierarchy(name, m)
}
