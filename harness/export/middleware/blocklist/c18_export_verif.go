//go:build verif

package blocklist

import (
	"os"
	"reflect"
	"sort"
)

// Accessors for the C18 correspondence driver. No behaviour is changed:
// every function below only calls an existing unexported function or reads
// a field under the lock the code itself uses for it.

// VerifSnap is blockSnapshot.
type VerifSnap = blockSnapshot

// VerifSnapVersion reads blockSnapshot.version.
func VerifSnapVersion(s VerifSnap) uint64 { return verifUint(reflect.ValueOf(s).FieldByName("version")) }

// verifUint reads a counter field whatever its representation: a plain
// unsigned integer, or a sync/atomic.Uint64 / Uint32 (struct with inner "v").
// Reading unexported fields through reflect is allowed; nothing is written.
func verifUint(v reflect.Value) uint64 {
	switch v.Kind() {
	case reflect.Uint, reflect.Uint8, reflect.Uint16, reflect.Uint32, reflect.Uint64, reflect.Uintptr:
		return v.Uint()
	case reflect.Int, reflect.Int8, reflect.Int16, reflect.Int32, reflect.Int64:
		return uint64(v.Int())
	case reflect.Struct:
		if f := v.FieldByName("v"); f.IsValid() {
			return verifUint(f)
		}
	case reflect.Pointer:
		if !v.IsNil() {
			return verifUint(v.Elem())
		}
	}
	panic("c18 export: counter field has an unexpected type " + v.Type().String())
}

// verifKeys returns the sorted keys of a set-like map (map[string]bool with
// true values, or map[string]struct{}); a false value is made visible.
func verifKeys(v reflect.Value) []string {
	out := make([]string, 0, v.Len())
	it := v.MapRange()
	for it.Next() {
		k := it.Key().String()
		if val := it.Value(); val.Kind() == reflect.Bool && !val.Bool() {
			k += "\x00false"
		}
		out = append(out, k)
	}
	sort.Strings(out)
	return out
}

// VerifSaveLock / VerifSaveUnlock take BlockList.saveMu the way persist does.
func VerifSaveLock(b *BlockList)   { b.saveMu.Lock() }
func VerifSaveUnlock(b *BlockList) { b.saveMu.Unlock() }

// VerifLock / VerifUnlock take BlockList.mu the way Set/Remove do.
func VerifLock(b *BlockList)   { b.mu.Lock() }
func VerifUnlock(b *BlockList) { b.mu.Unlock() }

// VerifSetLocked is setLocked (caller holds mu).
func VerifSetLocked(b *BlockList, key string) bool { return b.setLocked(key) }

// VerifRemoveLocked is removeLocked (caller holds mu).
func VerifRemoveLocked(b *BlockList, key string) bool { return b.removeLocked(key) }

// VerifSnapshotLocked is snapshotLocked (caller holds mu).
func VerifSnapshotLocked(b *BlockList) VerifSnap { return b.snapshotLocked() }

// VerifPersist is persist.
func VerifPersist(b *BlockList, s VerifSnap) { b.persist(s) }

// VerifDump returns sorted copies of the three maps (keys whose value is true).
func VerifDump(b *BlockList) (m, wild, w []string) {
	b.mu.Lock()
	defer b.mu.Unlock()
	e := reflect.ValueOf(b).Elem()
	return verifKeys(e.FieldByName("m")), verifKeys(e.FieldByName("wild")), verifKeys(e.FieldByName("w"))
}

// VerifVersions reads version (under mu) and lastPersisted (under saveMu).
func VerifVersions(b *BlockList) (version, lastPersisted uint64) {
	e := reflect.ValueOf(b).Elem()
	b.mu.Lock()
	version = verifUint(e.FieldByName("version"))
	b.mu.Unlock()
	b.saveMu.Lock()
	lastPersisted = verifUint(e.FieldByName("lastPersisted"))
	b.saveMu.Unlock()
	return
}

// VerifMatchHierarchy is matchHierarchy over a set given as a slice.
func VerifMatchHierarchy(name string, set []string) bool {
	m := make(map[string]bool, len(set))
	for _, s := range set {
		m[s] = true
	}
	return matchHierarchy(name, m)
}

// VerifReadBlocklists is what refreshRemote does after its one second wait
// (with no remote list configured fetchBlocklist is a no-op): the directory walk.
func VerifReadBlocklists(b *BlockList) error {
	b.fetchBlocklist()
	return b.readBlocklists()
}

// VerifRefreshBody is refreshRemote without its one second wait: create the
// directory if it is missing, fetch the configured remote lists, walk the directory.
func VerifRefreshBody(b *BlockList) error {
	if _, err := os.Stat(b.cfg.BlockListDir); os.IsNotExist(err) {
		if err := os.Mkdir(b.cfg.BlockListDir, 0750); err != nil {
			return err
		}
	}
	b.fetchBlocklist()
	return b.readBlocklists()
}
