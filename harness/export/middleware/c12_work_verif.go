//go:build verif

package middleware

import "time"

// Accessors for the C12 (bounded work per request) check. No behaviour change.

// VerifC12MaxResolutionAttempts exposes the RFC 9520 per-tuple ceiling.
func VerifC12MaxResolutionAttempts() int { return maxResolutionAttempts }

// VerifC12MaxQueryerRecursion exposes the nested Queryer.Query bound.
func VerifC12MaxQueryerRecursion() int { return maxQueryerRecursion }

// VerifC12Finish is the root owner's completion (RecursionWorkLedger.finish).
func VerifC12Finish(l *RecursionWorkLedger) { l.finish() }

// VerifC12Refs reads the retain count.
func VerifC12Refs(l *RecursionWorkLedger) int64 { return l.refs.Load() }

// VerifC12First reads the first-rejection latch (0 = none, kind+1 otherwise).
func VerifC12First(l *RecursionWorkLedger) uint32 { return l.first.Load() }

// VerifC12Published reports whether the final snapshot was published.
func VerifC12Published(l *RecursionWorkLedger) bool { return l.finished.Load() }

// VerifC12CheckLocal is checkLocal with an explicit latch flag (the
// best-effort entry point CheckRecursionWorkLocalLimit uses latch=false).
func VerifC12CheckLocal(l *RecursionWorkLedger, kind RecursionWorkKind, used uint32, latch bool) error {
	return l.checkLocal(kind, used, latch)
}

// VerifC12Reject is reject with an explicit latch flag.
func VerifC12Reject(l *RecursionWorkLedger, kind RecursionWorkKind, latch bool) error {
	return l.reject(kind, latch)
}

// VerifC12WireRequest returns a wire-born request for raw, as a listener's
// strict path hands it to Chain.ResetWire (nil when ParseWire refuses it).
func VerifC12WireRequest(raw []byte) *Request {
	r := new(Request)
	if !r.ParseWire(raw, time.Now(), nil) {
		return nil
	}
	return r
}

// VerifC12DetachedKeepsPolicy runs the real ResponseMeta.detachedCopy on a meta that has a work
// policy but no request-tree state yet (the normal wire-born cache miss) and reports whether the
// detached meta still carries an enabled policy.
func VerifC12DetachedKeepsPolicy(p RecursionWorkPolicy) bool {
	m := &ResponseMeta{workPolicy: p}
	d := m.detachedCopy()
	return d != nil && d.workPolicy.Enabled() == p.Enabled() && d.workPolicy == p
}
