//go:build verif

package middleware

// VerifC19AutoWire exposes Pipeline.autoWire (accessor only): the production
// wiring of the internal and the prefetch sub-pipelines.
func VerifC19AutoWire(p *Pipeline) { p.autoWire() }
