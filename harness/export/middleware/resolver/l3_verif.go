//go:build verif

package resolver

import (
	"github.com/miekg/dns"
	"github.com/semihalev/sdns/internal/authority"
)

// VerifResolver exposes the handler's resolver.
func VerifResolver(h *DNSHandler) *Resolver { return h.resolver }

// VerifSetResolveTarget installs the repository's own test hook that remaps
// an upstream "ip:53" to the loopback socket serving it.
func VerifSetResolveTarget(r *Resolver, f func(addr string) string) { r.resolveTarget.Store(&f) }

// VerifDelegations exposes the delegation cache.
func VerifDelegations(r *Resolver) *authority.Cache { return r.delegations }

// VerifRootKeys returns the live trust set.
func VerifRootKeys(r *Resolver) []dns.RR {
	r.RLock()
	defer r.RUnlock()
	return append([]dns.RR(nil), r.rootKeys...)
}

// VerifSetRootKeys replaces the live trust set.
func VerifSetRootKeys(r *Resolver, keys []dns.RR) {
	r.Lock()
	r.rootKeys = keys
	r.Unlock()
}
