//go:build verif

package resolver

import (
	"context"
	"errors"
	"fmt"
	"net"
	"net/netip"
	"sort"
	"time"

	"github.com/miekg/dns"
	"github.com/semihalev/sdns/config"
	"github.com/semihalev/sdns/internal/authority"
	"github.com/semihalev/sdns/internal/cache"
	"github.com/semihalev/sdns/middleware"
)

// Accessors for the C07 correspondence driver (no behaviour change).

// VerifC07Referral is what extractDelegationInfo returned, flattened.
type VerifC07Referral struct {
	HasNS      bool
	Owner      string
	Class      uint16
	TTL        uint32
	Hosts      []string // sorted
	HasSOA     bool
	Incoherent bool
}

// VerifC07Extract runs Resolver.extractDelegationInfo on resp.
func VerifC07Extract(resp *dns.Msg) VerifC07Referral {
	info := (&Resolver{}).extractDelegationInfo(resp)
	out := VerifC07Referral{HasSOA: info.hasSOA, Incoherent: info.incoherent, TTL: info.nsTTL}
	if info.nsRecord != nil {
		out.HasNS = true
		out.Owner = info.nsRecord.Header().Name
		out.Class = info.nsRecord.Header().Class
	}
	for h := range info.hosts {
		out.Hosts = append(out.Hosts, h)
	}
	sort.Strings(out.Hosts)
	return out
}

// VerifC07ValidReferral runs extractDelegationInfo + validReferral exactly as
// Resolver.lookup and Resolver.processDelegation do.
func VerifC07ValidReferral(resp *dns.Msg, authZone string, q dns.Question) bool {
	info := (&Resolver{}).extractDelegationInfo(resp)
	return validReferral(info, authZone, q)
}

// VerifC07Progressing exposes progressingReferral.
func VerifC07Progressing(referral, authZone, qname string) bool {
	return progressingReferral(referral, authZone, qname)
}

// VerifC07FilterAuthority exposes Resolver.filterAuthorityRecords.
func VerifC07FilterAuthority(rrs []dns.RR) []dns.RR {
	return (&Resolver{}).filterAuthorityRecords(rrs)
}

// VerifC07ClearAdditional exposes Resolver.clearAdditional.
func VerifC07ClearAdditional(req, resp *dns.Msg, extra ...bool) *dns.Msg {
	return (&Resolver{}).clearAdditional(req, resp, extra...)
}

// VerifC07UsableAddr exposes usableAddr.
func VerifC07UsableAddr(ip net.IP) (netip.Addr, bool) { return usableAddr(ip) }

// VerifC07LocalIPs returns the interface addresses the package captured at init.
func VerifC07LocalIPs() []net.IP { return append([]net.IP(nil), localIPaddrs...) }

// VerifC07Glue is the flattened result of checkGlueRR.
type VerifC07Glue struct {
	Servers []string // authservers.List[i].Addr, in order
	FoundV4 []string // sorted
	FoundV6 []string // sorted
	CacheV4 map[string][]netip.Addr
	CacheV6 map[string][]netip.Addr
}

// VerifC07CheckGlue runs Resolver.checkGlueRR on a bare resolver whose only
// configuration is the IPv6Access switch, and reads back what it put into the
// glue address caches for the given probe names.
func VerifC07CheckGlue(resp *dns.Msg, hosts []string, level int, ipv6 bool, probe []string) VerifC07Glue {
	r := &Resolver{cfg: &config.Config{IPv6Access: ipv6}, glueV4: cache.New(256), glueV6: cache.New(256)}
	hs := make(hostSet)
	for _, h := range hosts {
		hs[h] = struct{}{}
	}
	servers, f4, f6 := r.checkGlueRR(resp, hs, level)
	out := VerifC07Glue{CacheV4: map[string][]netip.Addr{}, CacheV6: map[string][]netip.Addr{}}
	for _, s := range servers.List {
		out.Servers = append(out.Servers, s.Addr)
	}
	for h := range f4 {
		out.FoundV4 = append(out.FoundV4, h)
	}
	for h := range f6 {
		out.FoundV6 = append(out.FoundV6, h)
	}
	sort.Strings(out.FoundV4)
	sort.Strings(out.FoundV6)
	for _, n := range probe {
		if a, ok := r.getIPv4Cache(n); ok {
			out.CacheV4[n] = a
		}
		if a, ok := r.getIPv6Cache(n); ok {
			out.CacheV6[n] = a
		}
	}
	r.glueV4.Stop()
	r.glueV6.Stop()
	return out
}

// VerifC07GlueCached reads the live resolver's glue address caches.
func VerifC07GlueCached(r *Resolver, name string) (v4, v6 []netip.Addr) {
	v4, _ = r.getIPv4Cache(name)
	if r.glueV6 != nil {
		v6, _ = r.getIPv6Cache(name)
	}
	return
}

// VerifC07SearchAddrs exposes searchAddrs.
func VerifC07SearchAddrs(msg *dns.Msg) ([]netip.Addr, bool) { return searchAddrs(msg) }

// VerifC07AgeBreaker moves every circuit-breaker failure timestamp d into the
// past (emulated clock: the 30 s disable window has run out).
func VerifC07AgeBreaker(r *Resolver, d time.Duration) {
	r.circuitBreaker.mu.RLock()
	defer r.circuitBreaker.mu.RUnlock()
	for _, sf := range r.circuitBreaker.failures {
		sf.lastFailure.Store(sf.lastFailure.Load() - int64(d/time.Second))
	}
}

// VerifC07GlueThenLookup runs checkGlueRR for a referral on a bare resolver
// (IPv6Access as given, sub-pipeline = q) and then the name-server address
// lookup lookupNSAddrV4 / lookupNSAddrV6 for host on the same resolver, so
// that whatever the referral left behind is in place when the lookup runs.
func VerifC07GlueThenLookup(ctx context.Context, resp *dns.Msg, hosts []string, level int, ipv6 bool, host string, v6lookup bool, q middleware.Queryer) ([]netip.Addr, error) {
	r := NewBareVerifC07Resolver(ipv6)
	r.queryer.Store(&q)
	hs := make(hostSet)
	for _, h := range hosts {
		hs[h] = struct{}{}
	}
	r.checkGlueRR(resp, hs, level)
	defer r.glueV4.Stop()
	defer r.glueV6.Stop()
	if v6lookup {
		return r.lookupNSAddrV6(ctx, host, true)
	}
	return r.lookupNSAddrV4(ctx, host, true)
}

// NewBareVerifC07Resolver: only the configuration switch and the two glue caches.
func NewBareVerifC07Resolver(ipv6 bool) *Resolver {
	return &Resolver{cfg: &config.Config{IPv6Access: ipv6}, glueV4: cache.New(256), glueV6: cache.New(256)}
}

// VerifC07SearchCache seeds a fresh delegation cache with the given zones
// (client CD = false) and runs Resolver.searchCache for (qname, qtype): which
// cached zone's servers would be asked, and at which level. "." = the root
// servers (nothing cached on the way up).
func VerifC07SearchCache(zones []string, qname string, qtype uint16) (zone string, level int) {
	r := &Resolver{delegations: authority.NewCache(), rootServers: &authority.Servers{Zone: rootzone}}
	for _, z := range zones {
		key := cache.Key(dns.Question{Name: z, Qtype: dns.TypeNS, Qclass: dns.ClassINET}, false)
		r.delegations.Set(key, nil, &authority.Servers{Zone: z}, time.Hour)
	}
	m := r.searchCache(dns.Question{Name: qname, Qtype: qtype, Qclass: dns.ClassINET}, false, qname)
	return m.servers.Zone, m.level
}

// VerifC07Deleg is a bare resolver on which processDelegation can run without
// a network: DNSSEC off, IPv4 only, name-server address lookups answered by q,
// and a recursion depth of 1 so that processDelegation returns (errMaxDepth)
// right after it has stored the delegation, before it would descend.
type VerifC07Deleg struct{ r *Resolver }

func VerifC07NewDeleg(q middleware.Queryer) *VerifC07Deleg {
	r := &Resolver{cfg: &config.Config{}, delegations: authority.NewCache(), glueV4: cache.New(256), glueV6: cache.New(256)}
	r.queryer.Store(&q)
	return &VerifC07Deleg{r: r}
}

// Process runs extractDelegationInfo + processDelegation for one referral
// received from the servers of authZone at the given level, for a CD=1 request.
func (d *VerifC07Deleg) Process(ctx context.Context, authZone string, level int, q dns.Question, resp *dns.Msg) string {
	req := new(dns.Msg)
	req.Question = []dns.Question{q}
	req.CheckingDisabled = true
	rs := &resolveState{req: req, servers: &authority.Servers{Zone: authZone}, depth: 1, level: level}
	info := d.r.extractDelegationInfo(resp)
	if info.nsRecord == nil {
		return "nons"
	}
	_, err := d.r.processDelegation(ctx, rs, resp, info, false)
	switch {
	case err == nil:
		return "nil"
	case errors.Is(err, errParentDetection):
		return "parent"
	case errors.Is(err, errNoReachableAuth):
		return "noauth"
	case errors.Is(err, errMaxDepth):
		return "maxdepth"
	}
	return "other"
}

// Delegations lists zone -> server addresses; Glue reads the IPv4 glue cache.
func (d *VerifC07Deleg) Delegations() map[string][]string {
	return authority.VerifC07Entries(d.r.delegations)
}
func (d *VerifC07Deleg) Glue(name string) []netip.Addr {
	a, _ := d.r.getIPv4Cache(name)
	return a
}

// VerifC07PickFallback runs pickFallbackResponse. fatal: 'w' = ErrRecursionWorkLimit, 'a' =
// ErrResolutionAttemptLimit, anything else = an ordinary network failure. Returns the message
// handed back (nil on error) and "work" / "attempt" / "conn" / "other" for the error.
func VerifC07PickFallback(responseErrors, configErrors []*dns.Msg, fatal string) (*dns.Msg, string) {
	var errs []error
	for _, c := range fatal {
		switch c {
		case 'w':
			errs = append(errs, fmt.Errorf("wrapped: %w", middleware.ErrRecursionWorkLimit))
		case 'a':
			errs = append(errs, fmt.Errorf("wrapped: %w", middleware.ErrResolutionAttemptLimit))
		default:
			errs = append(errs, fatalError(errors.New("read udp: i/o timeout")))
		}
	}
	m, err := pickFallbackResponse(responseErrors, configErrors, errs)
	switch {
	case err == nil:
		return m, ""
	case errors.Is(err, middleware.ErrRecursionWorkLimit):
		return m, "work"
	case errors.Is(err, middleware.ErrResolutionAttemptLimit):
		return m, "attempt"
	case errors.Is(err, errConnectionFailed):
		return m, "conn"
	}
	return m, "other"
}
