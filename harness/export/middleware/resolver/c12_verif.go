//go:build verif

package resolver

import (
	"context"

	"github.com/miekg/dns"
)

// Accessors for the C12 (bounded work per request) check. No behaviour change.

// VerifC12MaxDnameDepth exposes the DNAME chain cap.
func VerifC12MaxDnameDepth() int { return maxDnameDepth }

// VerifC12CheckLoop exposes Resolver.checkLoop.
func VerifC12CheckLoop(r *Resolver, ctx context.Context, qname string, qtype uint16) (context.Context, bool) {
	return r.checkLoop(ctx, qname, qtype)
}

// VerifC12Minimize exposes Resolver.minimize: the minimised qname and whether
// the request was minimised at this level.
func VerifC12Minimize(r *Resolver, name string, qtype uint16, level int, nomin bool) (string, bool) {
	req := newVerifC12Req(name, qtype)
	m, ok := r.minimize(req, level, nomin)
	return m.Question[0].Name, ok
}

// VerifC12QnameMinLevel reads the configured minimisation level.
func VerifC12QnameMinLevel(r *Resolver) int { return r.qnameMinLevel }

// VerifC12DNSSECWork exposes the ledger-backed DNSSEC work budget the resolver
// hands to the dnssec package (Resolver.dnssecWork).
func VerifC12DNSSECWork(r *Resolver, ctx context.Context) dnssecWorkBudget { return r.dnssecWork(ctx) }

// VerifC12PickFallback exposes pickFallbackResponse (what lookup returns when no authority gave a clean answer).
func VerifC12PickFallback(responseErrors, configErrors []*dns.Msg, fatalErrors []error) (*dns.Msg, error) {
	return pickFallbackResponse(responseErrors, configErrors, fatalErrors)
}

// VerifC12IsFatal reports whether err is the "every authority failed" wrapper.
func VerifC12IsFatal(err error) bool { return isFatalError(err) }

// VerifC12BreakerFailures reports the servers the shared circuit breaker currently holds failures
// against (consecutive-failure count, or -1 when the server is disabled). Read-only.
func VerifC12BreakerFailures(r *Resolver) map[string]int32 {
	out := map[string]int32{}
	if r == nil || r.circuitBreaker == nil {
		return out
	}
	r.circuitBreaker.mu.RLock()
	defer r.circuitBreaker.mu.RUnlock()
	for addr, sf := range r.circuitBreaker.failures {
		switch {
		case sf.disabled.Load():
			out[addr] = -1
		case sf.count.Load() > 0:
			out[addr] = sf.count.Load()
		}
	}
	return out
}
