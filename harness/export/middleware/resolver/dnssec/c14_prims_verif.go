//go:build verif

package dnssec

import (
	"encoding/base64"
	"math/big"

	"github.com/miekg/dns"
)

// Accessors for the C14 correspondence driver (no behaviour change).

// VerifC14Limits returns the numeric limits of the in-house primitives.
func VerifC14Limits() (keyTagChunkSize, maxDSKeyMat, encodedLimit, minRSABits, maxRSABits, maxRSAExpBits int, maxStdlibExp uint64) {
	return keyTagChunk, maxDSKeyMaterial, base64.StdEncoding.EncodedLen(maxDSKeyMaterial),
		minRSAModulusBits, maxRSAModulusBits, maxRSAExponentBits, maxStdlibRSAExponent
}

// VerifC14DSDigestHash exposes dsDigestHash as (size, ok); size is 0 when the
// hash is not compiled in.
func VerifC14DSDigestHash(t uint8) (int, bool) {
	h, ok := dsDigestHash(t)
	if !ok {
		return 0, false
	}
	if !h.Available() {
		return 0, true
	}
	return h.Size(), true
}

// VerifC14Oversized exposes oversizedKeyMaterial.
func VerifC14Oversized(publicKey string) bool { return oversizedKeyMaterial(publicKey) }

// VerifC14DSDigestMatches exposes dsDigestMatches.
func VerifC14DSDigestMatches(key *dns.DNSKEY, digestType uint8, want []byte) bool {
	return dsDigestMatches(key, digestType, want)
}

// VerifC14Rsamd5KeyTag exposes rsamd5KeyTag.
func VerifC14Rsamd5KeyTag(publicKey string) uint16 { return rsamd5KeyTag(publicKey) }

// VerifC14FromBase64 exposes fromBase64.
func VerifC14FromBase64(s []byte) ([]byte, error) { return fromBase64(s) }

// VerifC14ParseRSA exposes parseRSAPublicKey.
func VerifC14ParseRSA(pubkey string) (n, e *big.Int, ok bool) { return parseRSAPublicKey(pubkey) }

// VerifC14UsableRSA exposes usableRSAKey.
func VerifC14UsableRSA(n, e *big.Int) bool { return usableRSAKey(n, e) }

// VerifC14ExponentExceedsStdlib exposes rsaExponentExceedsStdlib.
func VerifC14ExponentExceedsStdlib(pubkey string) bool { return rsaExponentExceedsStdlib(pubkey) }

// VerifC14RSAPrefix exposes the DigestInfo prefix of rsaHash.
func VerifC14RSAPrefix(alg uint8) ([]byte, bool) {
	_, p, ok := rsaHash(alg)
	return p, ok
}

// VerifC14RSARaw exposes rsaVerifyPKCS1v15.
func VerifC14RSARaw(n, e *big.Int, prefix, hashed, sig []byte) error {
	return rsaVerifyPKCS1v15(n, e, prefix, hashed, sig)
}

// VerifC14VerifyRSA exposes verifyRSASignature.
func VerifC14VerifyRSA(k *dns.DNSKEY, algorithm uint8, signed, signature []byte) error {
	return verifyRSASignature(k, algorithm, signed, signature)
}

// VerifC14SignedData exposes rrsigSignedData.
func VerifC14SignedData(sig *dns.RRSIG, rrset []dns.RR) ([]byte, error) {
	return rrsigSignedData(sig, rrset)
}

// VerifC14Binding exposes signatureBinding.
func VerifC14Binding(k *dns.DNSKEY, sig *dns.RRSIG, rrset []dns.RR) error {
	return signatureBinding(k, sig, rrset)
}

// VerifC14VerifySignature exposes verifySignature.
func VerifC14VerifySignature(k *dns.DNSKEY, sig *dns.RRSIG, rrset []dns.RR) error {
	return verifySignature(k, sig, rrset)
}

// VerifC14CryptoVerify exposes cryptoVerify.
func VerifC14CryptoVerify(k *dns.DNSKEY, sig *dns.RRSIG, rrset []dns.RR) error {
	return cryptoVerify(k, sig, rrset)
}

// VerifC14VerifySignatureSupported exposes verifySignatureSupported.
func VerifC14VerifySignatureSupported(alg uint8) bool { return verifySignatureSupported(alg) }

// VerifC14UsableSignatureCandidate exposes usableSignatureCandidate.
func VerifC14UsableSignatureCandidate(sig *dns.RRSIG, key *dns.DNSKEY) bool {
	return usableSignatureCandidate(sig, key)
}

// VerifC14SignatureMatchesRRset exposes signatureMatchesRRset.
func VerifC14SignatureMatchesRRset(sig *dns.RRSIG, set []dns.RR) bool {
	return signatureMatchesRRset(sig, set)
}

// VerifC14VerifyOneSig exposes verifyOneSig.
func VerifC14VerifyOneSig(keys map[uint16][]*dns.DNSKEY, set []dns.RR, sig *dns.RRSIG) error {
	return verifyOneSig(keys, set, sig)
}

// VerifC14CanonicalizeRdataNames exposes canonicalizeRdataNames.
func VerifC14CanonicalizeRdataNames(r dns.RR) { canonicalizeRdataNames(r) }
