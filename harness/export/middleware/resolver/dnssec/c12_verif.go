//go:build verif

package dnssec

import "github.com/miekg/dns"

// Accessors for the C12 (bounded work per request) check. No behaviour change.

// VerifC12SigOrder is the order in which the validator examines the RRSIGs of one RRset.
func VerifC12SigOrder(sigs []*dns.RRSIG) []*dns.RRSIG {
	return uniqueSortedRRSIGs(append([]*dns.RRSIG(nil), sigs...))
}

// VerifC12KeyOrder is the order in which the validator tries same-tag candidate keys.
func VerifC12KeyOrder(keys []*dns.DNSKEY) []*dns.DNSKEY {
	return uniqueSortedDNSKEYs(append([]*dns.DNSKEY(nil), keys...))
}

// VerifC12DSOrder is the order in which the validator walks the DS records of one set.
func VerifC12DSOrder(records []dns.RR) []*dns.DS { return uniqueSortedDSRecords(records) }

// VerifC12MaxNSEC3HashMemoEntries is the entry ceiling of one request tree's NSEC3 hash memo.
func VerifC12MaxNSEC3HashMemoEntries() int { return maxNSEC3HashMemoEntries }

// VerifC12MaxNSEC3Iterations is the iteration count above which an NSEC3 record is unusable.
func VerifC12MaxNSEC3Iterations() int { return maxNSEC3Iterations }
