//go:build verif

package dnssec

import "github.com/miekg/dns"

// Accessors for the C02 correspondence driver (no behaviour change).

// VerifC02NsecCovers exposes nsecCovers.
func VerifC02NsecCovers(owner, next, name string) bool { return nsecCovers(owner, next, name) }

// VerifC02ClosestEncloserFromNSEC exposes closestEncloserFromNSEC.
func VerifC02ClosestEncloserFromNSEC(qname string, nsec *dns.NSEC) string {
	return closestEncloserFromNSEC(qname, nsec)
}

// VerifC02MaxNSEC3Iterations reads the iteration cap.
func VerifC02MaxNSEC3Iterations() int { return maxNSEC3Iterations }

// VerifC02NODATAType exposes aggressiveNODATAType.
func VerifC02NODATAType(t uint16) bool { return aggressiveNODATAType(t) }

// VerifC02NSEC3Safe exposes nsec3Safe.
func VerifC02NSEC3Safe(n *dns.NSEC3) bool { return nsec3Safe(n) }

// VerifC02PrepareNSEC3 runs prepareNSEC3Set and reports the ring it built:
// owner hashes in ring order, or the error.
func VerifC02PrepareNSEC3(records []dns.RR, signer string) (owners [][]byte, class uint16, iterations uint16, salt []byte, err error) {
	p, err := prepareNSEC3Set(records, signer)
	if err != nil {
		return nil, 0, 0, nil, err
	}
	for _, e := range p.entries {
		owners = append(owners, append([]byte(nil), e.ownerHash...))
	}
	return owners, p.qclass, p.parameters.iterations, append([]byte(nil), p.parameters.salt...), nil
}

// VerifC02SignatureMatches exposes signatureMatchesRRset (which RRSIG may vouch for which RRset).
func VerifC02SignatureMatches(sig *dns.RRSIG, set []dns.RR) bool { return signatureMatchesRRset(sig, set) }

// VerifC02TypesSet exposes typesSet, the type-bitmap membership test every NSEC
// and NSEC3 check is written in (accessor only).
func VerifC02TypesSet(set []uint16, types ...uint16) bool { return typesSet(set, types...) }
