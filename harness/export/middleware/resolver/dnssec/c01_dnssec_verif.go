//go:build verif

package dnssec

import "github.com/miekg/dns"

// VerifC01IsSynthesizedCNAME exposes isSynthesizedCNAME (accessor only).
func VerifC01IsSynthesizedCNAME(cname *dns.CNAME, dnames []*dns.DNAME) bool {
	return isSynthesizedCNAME(cname, dnames)
}
