//go:build verif

package resolver

import (
	"context"

	"github.com/miekg/dns"
	"github.com/semihalev/sdns/internal/authority"
	"github.com/semihalev/sdns/middleware"
	"github.com/semihalev/sdns/middleware/resolver/dnssec"
)

// Accessors for the C10 check (no behaviour change).

// VerifC10Servers returns the deepest cached delegation for q — the
// *authority.Servers a resolution of q would start from.
func VerifC10Servers(r *Resolver, q dns.Question) *authority.Servers {
	for _, cd := range []bool{false, true} {
		if m := r.searchCache(q, cd, q.Name); m.servers != nil && m.servers.Zone != "." {
			return m.servers
		}
	}
	return r.searchCache(q, false, q.Name).servers
}

// VerifC10GroupLookup calls the REAL Resolver.groupLookup for req against
// servers, on a context prepared the way Resolver.Resolve prepares it. owned
// is groupLookup's own parameter: true = the request is lookup-owned (what
// resolve passes for a QNAME-minimised copy), false = shared with the caller.
func VerifC10GroupLookup(ctx context.Context, r *Resolver, req *dns.Msg, servers *authority.Servers, owned bool) (*dns.Msg, error) {
	ctx = dnssec.EnsureNSEC3HashMemo(ctx)
	ctx, _ = middleware.EnsureResolutionAttemptGuard(ctx)
	rs := &resolveState{req: req, servers: servers, requestID: req.Id}
	return r.groupLookup(ctx, rs, req, servers, owned)
}
