//go:build verif

package resolver

import (
	"context"
	"errors"
	"fmt"
	"time"

	"github.com/miekg/dns"
	"github.com/semihalev/sdns/internal/authority"
	"github.com/semihalev/sdns/internal/cache"
	"github.com/semihalev/sdns/middleware"
)

// VerifC08Descent drives the REAL descent code — Resolver.resolve (searchCache seed,
// minCut, noteCut), Resolver.processDelegation (validReferral guard, lease
// computation, live-hit → resolveWithCachedNameservers, miss → SetUntil) — one step
// at a time against a scripted delegation cache. Requests carry CD=1 (no DS is
// retained, no validation traffic), every referral is fully glued (no address
// lookups) and the context is already cancelled, so the upstream lookup that follows
// each step fails at once without touching the network. Accessor only: it calls the
// code as it is and reads the state it leaves behind.
type VerifC08Descent struct {
	R     *Resolver
	stack []*verifC08Frame
}

type verifC08Frame struct {
	rs   *resolveState
	ctx  context.Context
	meta *middleware.ResponseMeta
	// outer is the deriving request's meta when this frame is a forked chase
	outer *middleware.ResponseMeta
}

// VerifC08NewDescent resets the resolver's delegation cache and starts with no request.
func VerifC08NewDescent(r *Resolver) *VerifC08Descent {
	r.delegations = authority.NewCache()
	hole := func(string) string { return "127.0.0.1:9" }
	r.resolveTarget.Store(&hole)
	return &VerifC08Descent{R: r}
}

// VerifC08State is what a step left behind.
type VerifC08State struct {
	Zone     string    // rs.servers.Zone
	Cut      time.Time // rs.cutDeadline
	Meta     time.Time // ResponseMeta.CutUntil of the frame's request segment
	Rejected bool      // errParentDetection
	Err      string
}

func cancelled(meta *middleware.ResponseMeta) context.Context {
	ctx, cancel := context.WithCancel(context.Background())
	cancel()
	return middleware.WithResponseMeta(ctx, meta)
}

func (d *VerifC08Descent) top() *verifC08Frame {
	if len(d.stack) == 0 {
		return nil
	}
	return d.stack[len(d.stack)-1]
}

func (d *VerifC08Descent) state(f *verifC08Frame, err error) VerifC08State {
	st := VerifC08State{Cut: f.rs.cutDeadline, Meta: f.meta.CutUntil(), Rejected: errors.Is(err, errParentDetection)}
	if f.rs.servers != nil {
		st.Zone = f.rs.servers.Zone
	}
	if err != nil {
		st.Err = err.Error()
	}
	return st
}

// Start begins a resolution for qname. kind: "start" (new request, fresh ResponseMeta),
// "sub" (resolver sub-query: same ResponseMeta), "nsl" (the same, marked as a name-server
// address lookup), "chase" (cache-level sub-query under
// middleware.WithForkedCut).
func (d *VerifC08Descent) Start(kind, qname string) VerifC08State {
	req := new(dns.Msg)
	req.SetQuestion(qname, dns.TypeA)
	req.CheckingDisabled = true
	f := &verifC08Frame{rs: &resolveState{req: req, servers: d.R.rootServers, depth: 30, isRoot: true, nomin: true}}
	switch {
	case kind == "sub" && d.top() != nil:
		f.meta, f.ctx = d.top().meta, d.top().ctx
	case kind == "nsl" && d.top() != nil:
		// a name-server ADDRESS sub-lookup: same ResponseMeta, context marked as lookupNSAddrV4 marks it
		f.meta, f.ctx = d.top().meta, context.WithValue(d.top().ctx, contextKeyNSL, struct{}{})
	case kind == "chase" && d.top() != nil:
		ctx2, child := middleware.WithForkedCut(d.top().ctx)
		f.meta, f.ctx, f.outer = child, ctx2, d.top().meta
	default:
		d.stack = nil
		f.meta = new(middleware.ResponseMeta)
		f.ctx = cancelled(f.meta)
	}
	d.stack = append(d.stack, f)
	_, err := d.R.resolve(f.ctx, f.rs)
	return d.state(f, err)
}

// Referral hands the running resolution a fully glued referral for zone with the given NS TTLs.
func (d *VerifC08Descent) Referral(zone string, nsTTLs []uint32) (VerifC08State, bool) {
	f := d.top()
	if f == nil {
		return VerifC08State{}, false
	}
	resp := new(dns.Msg)
	resp.SetReply(f.rs.req)
	for i, t := range nsTTLs {
		host := fmt.Sprintf("ns%d.%s", i, zone)
		if zone == "." {
			host = fmt.Sprintf("ns%d.", i)
		}
		resp.Ns = append(resp.Ns, &dns.NS{Hdr: dns.RR_Header{Name: zone, Rrtype: dns.TypeNS, Class: dns.ClassINET, Ttl: t}, Ns: host})
		resp.Extra = append(resp.Extra, &dns.A{Hdr: dns.RR_Header{Name: host, Rrtype: dns.TypeA, Class: dns.ClassINET, Ttl: t}, A: []byte{192, 0, 2, byte(10 + i)}})
	}
	info := d.R.extractDelegationInfo(resp)
	if len(info.hosts) == 0 {
		return VerifC08State{}, false
	}
	_, err := d.R.processDelegation(f.ctx, f.rs, resp, info, false)
	return d.state(f, err), true
}

// Finish pops the innermost resolution; for a chase, used=true runs the cache's
// subQueryLineage.inherit() through inherit (supplied by the cache package accessor).
func (d *VerifC08Descent) Finish(used bool, inherit func(parent, child *middleware.ResponseMeta)) (VerifC08State, bool) {
	f := d.top()
	if f == nil {
		return VerifC08State{}, false
	}
	d.stack = d.stack[:len(d.stack)-1]
	if f.outer != nil && used {
		inherit(f.outer, f.meta)
	}
	if t := d.top(); t != nil {
		return d.state(t, nil), true
	}
	return VerifC08State{}, false
}

// Current reports the innermost frame.
func (d *VerifC08Descent) Current() (VerifC08State, bool) {
	if t := d.top(); t != nil {
		return d.state(t, nil), true
	}
	return VerifC08State{}, false
}

// Lease returns the stored expiry of zone's delegation in the CD=1 bucket (zero: none stored).
func (d *VerifC08Descent) Lease(zone string) time.Time {
	key := cache.Key(dns.Question{Name: zone, Qtype: dns.TypeNS, Qclass: dns.ClassINET}, true)
	var out time.Time
	for _, e := range authority.VerifC08Entries(d.R.delegations) {
		if e.Key == key {
			out = e.ExpiresAt
		}
	}
	return out
}

// Purge is delegations.Remove.
func (d *VerifC08Descent) Purge(zone string) {
	d.R.delegations.Remove(cache.Key(dns.Question{Name: zone, Qtype: dns.TypeNS, Qclass: dns.ClassINET}, true))
}

// Shift emulates the passage of dt for everything the descent holds: stored leases,
// the cut every frame carries, every ResponseMeta.
func (d *VerifC08Descent) Shift(dt time.Duration) {
	authority.VerifShift(d.R.delegations, dt)
	seen := map[*middleware.ResponseMeta]bool{}
	for _, f := range d.stack {
		if !f.rs.cutDeadline.IsZero() {
			f.rs.cutDeadline = f.rs.cutDeadline.Add(-dt)
		}
		for _, m := range []*middleware.ResponseMeta{f.meta, f.outer} {
			if m != nil && !seen[m] {
				seen[m] = true
				middleware.VerifC08ShiftMeta(m, dt)
			}
		}
	}
}
