//go:build verif

package resolver

import "github.com/miekg/dns"

func newVerifC12Req(name string, qtype uint16) *dns.Msg {
	m := new(dns.Msg)
	m.SetQuestion(name, qtype)
	return m
}
