//go:build verif

package resolver

import (
	"net/netip"
	"time"

	"github.com/miekg/dns"
)

// Accessors for the C08 driver (no behaviour change).

// VerifC08MinCut exposes minCut.
func VerifC08MinCut(a time.Time, aKey uint64, b time.Time, bKey uint64) (time.Time, uint64) {
	return minCut(a, aKey, b, bKey)
}

// VerifC08MinNonZero exposes minNonZero.
func VerifC08MinNonZero(a, b time.Time) time.Time { return minNonZero(a, b) }

// VerifC08MinRRSetTTL exposes minRRSetTTL.
func VerifC08MinRRSetTTL(rrs []dns.RR) uint32 { return minRRSetTTL(rrs) }

// VerifC08DelegationInfo exposes extractDelegationInfo (the receiver is unused by it).
func VerifC08DelegationInfo(resp *dns.Msg) (nsTTL uint32, hosts int, hasNS, hasSOA, incoherent bool) {
	info := (&Resolver{}).extractDelegationInfo(resp)
	return info.nsTTL, len(info.hosts), info.nsRecord != nil, info.hasSOA, info.incoherent
}

// VerifC08ValidReferral exposes validReferral over a response's authority section.
func VerifC08ValidReferral(resp *dns.Msg, authZone string, q dns.Question) bool {
	return validReferral((&Resolver{}).extractDelegationInfo(resp), authZone, q)
}

// VerifC08Glue runs the real checkGlueRR on a referral for zone `n1.` with one NS host
// `ns.n1.` glued to 192.0.2.<ref>, after the never-expiring glue address cache was primed
// with 192.0.2.<cached> for that host (cached = 0: not primed). Returns the last octets of the
// server addresses the referral yields and of what the glue cache holds afterwards.
func VerifC08Glue(r *Resolver, cached, ref byte) (servers []int, inCache []int) {
	host := "ns.n1."
	r.removeIPv4Cache(host)
	if cached != 0 {
		r.addIPv4Cache(map[string][]netip.Addr{host: {netip.AddrFrom4([4]byte{192, 0, 2, cached})}})
	}
	resp := new(dns.Msg)
	resp.SetQuestion("www.n1.", dns.TypeA)
	resp.Ns = []dns.RR{&dns.NS{Hdr: dns.RR_Header{Name: "n1.", Rrtype: dns.TypeNS, Class: dns.ClassINET, Ttl: 300}, Ns: host}}
	if ref != 0 {
		resp.Extra = []dns.RR{&dns.A{Hdr: dns.RR_Header{Name: host, Rrtype: dns.TypeA, Class: dns.ClassINET, Ttl: 300}, A: []byte{192, 0, 2, ref}}}
	}
	auth, _, _ := r.checkGlueRR(resp, hostSet{host: {}}, 0)
	for _, s := range auth.List {
		if s.UDPAddr != nil {
			servers = append(servers, int(s.UDPAddr.IP.To4()[3]))
		}
	}
	if addrs, ok := r.getIPv4Cache(host); ok {
		for _, a := range addrs {
			b := a.As4()
			inCache = append(inCache, int(b[3]))
		}
	}
	return
}
