//go:build verif

package resolver

import (
	"time"

	"github.com/miekg/dns"
)

// Accessors for the C08 driver (no behaviour change).

// VerifC08MinCut exposes minCut.
func VerifC08MinCut(a time.Time, aKey uint64, b time.Time, bKey uint64) (time.Time, uint64) {
	return minCut(a, aKey, b, bKey)
}

// VerifC08MinNonZero exposes minNonZero.
func VerifC08MinNonZero(a, b time.Time) time.Time { return minNonZero(a, b) }

// VerifC08MinRRSetTTL exposes minRRSetTTL.
func VerifC08MinRRSetTTL(rrs []dns.RR) uint32 { return minRRSetTTL(rrs) }

// VerifC08DelegationInfo exposes extractDelegationInfo (the receiver is unused by it).
func VerifC08DelegationInfo(resp *dns.Msg) (nsTTL uint32, hosts int, hasNS, hasSOA, incoherent bool) {
	info := (&Resolver{}).extractDelegationInfo(resp)
	return info.nsTTL, len(info.hosts), info.nsRecord != nil, info.hasSOA, info.incoherent
}

// VerifC08ValidReferral exposes validReferral over a response's authority section.
func VerifC08ValidReferral(resp *dns.Msg, authZone string, q dns.Question) bool {
	return validReferral((&Resolver{}).extractDelegationInfo(resp), authZone, q)
}
