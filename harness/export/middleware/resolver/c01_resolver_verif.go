//go:build verif

package resolver

import (
	"context"

	"github.com/miekg/dns"
)

// VerifC01FindRRSIGSigners exposes Resolver.findRRSIGSigners (pure; accessor only).
func VerifC01FindRRSIGSigners(resp *dns.Msg, qname string, inAnswer bool) []string {
	return (&Resolver{}).findRRSIGSigners(resp, qname, inAnswer)
}

// VerifC01HasSupportedDS exposes hasSupportedDS (accessor only).
func VerifC01HasSupportedDS(dsset []dns.RR) bool { return hasSupportedDS(dsset) }

// VerifC01RootParentDS exposes Resolver.rootParentDS (accessor only).
func VerifC01RootParentDS(r *Resolver, parentDS []dns.RR, zone string) ([]dns.RR, error) {
	return r.rootParentDS(context.Background(), parentDS, zone)
}

// VerifC01InsecureProofName exposes insecureProofName (accessor only).
func VerifC01InsecureProofName(q dns.Question) string { return insecureProofName(q) }

// VerifC01FilterAuthorityRecords exposes Resolver.filterAuthorityRecords (accessor only).
func VerifC01FilterAuthorityRecords(rrs []dns.RR) []dns.RR {
	return (&Resolver{}).filterAuthorityRecords(rrs)
}
