//go:build verif

package resolver

import (
	"context"
	"strings"
	"time"

	"github.com/miekg/dns"
	"github.com/semihalev/sdns/config"
	"github.com/semihalev/sdns/internal/authority"
	"github.com/semihalev/sdns/middleware"
)

// verifC02Store is the resolver-private cache facade of a warm resolver: it
// holds the DNSKEY response of exactly one zone. Every other DS / DNSKEY
// sub-query gets an empty answer, which the callers read as a failed lookup
// (fail closed), so no socket is ever opened.
type verifC02Store struct {
	zone string
	keys *dns.Msg
	ds   func(req *dns.Msg) *dns.Msg // optional: what a `<name> DS` sub-query brings back
}

func (s *verifC02Store) Get(req *dns.Msg) (*dns.Msg, bool) {
	if len(req.Question) == 1 && req.Question[0].Qtype == dns.TypeDNSKEY && strings.EqualFold(req.Question[0].Name, s.zone) {
		return s.keys.Copy(), true
	}
	if s.ds != nil && len(req.Question) == 1 && req.Question[0].Qtype == dns.TypeDS {
		if m := s.ds(req); m != nil {
			return m, true
		}
	}
	m := new(dns.Msg)
	m.SetReply(req)
	return m, true
}

func (s *verifC02Store) SetFromResponse(*dns.Msg, bool, time.Time) {}

// VerifC02NewAuthorityResolver builds a validating Resolver (accessor only: the
// fields the package's own tests set) whose trust anchor is key and whose
// warm cache answers the DNSKEY question of zone with keyResp.
func VerifC02NewAuthorityResolver(zone string, key *dns.DNSKEY, keyResp *dns.Msg) *Resolver {
	cfg := &config.Config{
		DNSSEC:               "on",
		Maxdepth:             30,
		MaxConcurrentQueries: 16,
		Timeout:              config.Duration{Duration: time.Second},
	}
	r := &Resolver{
		cfg:             cfg,
		delegations:     authority.NewCache(),
		rootServers:     &authority.Servers{Zone: zone},
		dnssec:          true,
		rootKeys:        []dns.RR{key},
		netTimeout:      time.Second,
		sfGroup:         NewSingleflightWrapper(),
		circuitBreaker:  newCircuitBreaker(),
		maxConcurrent:   make(chan struct{}, cfg.MaxConcurrentQueries),
		resolutionSlots: make(chan struct{}, cfg.MaxConcurrentQueries),
	}
	var store middleware.Store = &verifC02Store{zone: zone, keys: keyResp}
	r.store.Store(&store)
	return r
}

// VerifC02Authority runs the real Resolver.authority on one upstream response
// (accessor only) and reports the provenance it attached to the message it
// returned.
func VerifC02Authority(r *Resolver, req, resp *dns.Msg, parentDS []dns.RR, zone string) (out *dns.Msg, proof middleware.ValidatedNegativeProof, marked bool, err error) {
	var meta middleware.ResponseMeta
	ctx := middleware.WithResponseMeta(context.Background(), &meta)
	out, err = r.authority(ctx, req, resp, parentDS, zone)
	if err == nil && out != nil {
		proof, marked = middleware.ValidatedNegativeProofForResponse(ctx, out)
	}
	return out, proof, marked, err
}

// VerifC02SetDSResponder installs (or, with nil, removes) the answer the
// resolver-private cache facade gives to DS sub-queries (accessor only).
func VerifC02SetDSResponder(r *Resolver, f func(req *dns.Msg) *dns.Msg) {
	if p := r.store.Load(); p != nil {
		if s, ok := (*p).(*verifC02Store); ok {
			s.ds = f
		}
	}
}

// VerifC02Answer runs the real Resolver.answer on one upstream response that
// carries an answer section (accessor only).
func VerifC02Answer(r *Resolver, req, resp *dns.Msg, parentDS []dns.RR, zone string) (*dns.Msg, error) {
	var meta middleware.ResponseMeta
	ctx := middleware.WithResponseMeta(context.Background(), &meta)
	return r.answer(ctx, req, resp, parentDS, zone)
}
