//go:build verif

package resolver

import (
	"errors"
	"strconv"

	"github.com/miekg/dns"
)

func itoaC09(n int) string { return strconv.Itoa(n) }

func errorsIsCorruptC09(err error) bool { return errors.Is(err, errCorruptTombstones) }

// Accessors for the C09 (RFC 5011 trust-anchor) check. No behaviour change.

// VerifC09StateFile / VerifC09TombstoneFile expose the file-name constants.
const (
	VerifC09StateFile     = stateFile
	VerifC09TombstoneFile = tombstoneFile
)

// VerifC09AutoTA runs one refresh synchronously (Resolver.AutoTA is exported;
// the wrapper only documents the entry point the driver uses).
func VerifC09AutoTA(r *Resolver) { r.AutoTA() }

// VerifC09Live returns a copy of the live trust set and whether the slice
// is nil (both nil and empty mean "fail closed" to hasTrustAnchors).
func VerifC09Live(r *Resolver) (keys []dns.RR, isNil bool) {
	r.RLock()
	defer r.RUnlock()
	return append([]dns.RR(nil), r.rootKeys...), r.rootKeys == nil
}

// VerifC09HasTrustAnchors exposes Resolver.hasTrustAnchors.
func VerifC09HasTrustAnchors(r *Resolver) bool { return r.hasTrustAnchors() }

// VerifC09Configured returns the immutable startup snapshot.
func VerifC09Configured(r *Resolver) []dns.RR {
	return append([]dns.RR(nil), r.configuredRootKeys...)
}

// VerifC09RefreshCounters reads the terminal-outcome counters of AutoTA
// (success, work_budget, timeout, query_error, validation_error,
// persistence_error) and the lifecycle counter "revoked".
func VerifC09RefreshCounters() [7]int64 {
	return [7]int64{
		taRefreshSuccess.Value(),
		taRefreshWorkBudget.Value(),
		taRefreshTimeout.Value(),
		taRefreshQueryError.Value(),
		taRefreshValidationError.Value(),
		taRefreshPersistenceError.Value(),
		taRevoked.Value(),
	}
}

// VerifC09SameKeyExceptRevoke exposes sameKeyExceptRevoke.
func VerifC09SameKeyExceptRevoke(a, b *dns.DNSKEY) bool { return sameKeyExceptRevoke(a, b) }

// VerifC09MaterialFP exposes dnskeyMaterialFP.
func VerifC09MaterialFP(k *dns.DNSKEY) string { return dnskeyMaterialFP(k) }

// VerifC09ReadTombstones runs the real readTombstones on path and classifies
// the outcome: "store:<n>" (n entries), "corrupt" (errCorruptTombstones) or
// "error" (any other error).
func VerifC09ReadTombstones(path string) string {
	t, err := readTombstones(path)
	switch {
	case err == nil:
		return "store:" + itoaC09(len(t))
	case errorsIsCorruptC09(err):
		return "corrupt"
	default:
		return "error"
	}
}

// VerifC09ReadState runs the real readFromTAFile: "state:<n>" or "error".
func VerifC09ReadState(path string) string {
	t, err := readFromTAFile(path)
	if err != nil {
		return "error"
	}
	return "state:" + itoaC09(len(t))
}
