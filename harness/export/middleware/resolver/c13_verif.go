//go:build verif

package resolver

import (
	"context"
	"time"

	"github.com/miekg/dns"
	"github.com/semihalev/sdns/internal/authority"
	"github.com/semihalev/sdns/middleware"
)

// Accessors for the C13 correspondence driver (no behaviour change).

// VerifC13PickFallback exposes pickFallbackResponse.
func VerifC13PickFallback(responseErrors, configErrors []*dns.Msg, fatalErrors []error) (*dns.Msg, error) {
	return pickFallbackResponse(responseErrors, configErrors, fatalErrors)
}

// VerifC13Fatal wraps err the way the resolver marks authority-path failures.
func VerifC13Fatal(err error) error { return fatalError(err) }

// VerifC13IsFatal exposes isFatalError.
func VerifC13IsFatal(err error) bool { return isFatalError(err) }

// VerifC13ConnFailed is the resolver's "all authoritative servers failed".
func VerifC13ConnFailed() error { return errConnectionFailed }

// VerifC13NSLContext marks ctx as a nameserver-address lookup.
func VerifC13NSLContext(ctx context.Context) context.Context {
	return context.WithValue(ctx, contextKeyNSL, struct{}{})
}

func verifC13Resolver(store middleware.Store) *Resolver {
	r := &Resolver{}
	r.store.Store(&store)
	return r
}

// VerifC13RecordZoneFailure runs Resolver.recordResolutionZoneFailure against store.
func VerifC13RecordZoneFailure(store middleware.Store, ctx context.Context, q dns.Question, zone string, cause error) {
	verifC13Resolver(store).recordResolutionZoneFailure(ctx, q, zone, cause)
}

// VerifC13HandleLookupError runs Resolver.handleLookupError for a
// non-minimized query against store (the minimized branch re-enters
// resolve and needs a network).
func VerifC13HandleLookupError(store middleware.Store, ctx context.Context, err error, q dns.Question, zone string) error {
	req := new(dns.Msg)
	req.Question = []dns.Question{q}
	rs := &resolveState{req: req, servers: &authority.Servers{Zone: zone}}
	_, out := verifC13Resolver(store).handleLookupError(ctx, err, rs, req, false)
	return out
}

// VerifC13LookupV4Nss runs the real Resolver.lookupV4Nss for a glueless
// delegation of zone to hosts, with q answering the name-server address
// sub-lookups. It returns how many servers the delegation ended up with and
// the error. The resolver's queryer is restored afterwards.
func VerifC13LookupV4Nss(r *Resolver, q middleware.Queryer, ctx context.Context, zone string, hosts []string, key uint64) (int, error) {
	old := r.queryer.Load()
	r.queryer.Store(&q)
	defer r.queryer.Store(old)
	set := hostSet{}
	for _, h := range hosts {
		set[h] = struct{}{}
	}
	servers := &authority.Servers{Zone: zone}
	err := r.lookupV4Nss(ctx, dns.Question{Name: zone, Qtype: dns.TypeNS, Qclass: dns.ClassINET}, servers, key, nil, hostSet{}, set, true, time.Now().Add(time.Minute))
	servers.RLock()
	n := len(servers.List)
	servers.RUnlock()
	return n, err
}

// VerifC13LookupV6Nss runs the real Resolver.lookupV6Nss (the detached IPv6
// name-server address job) for hosts, with q answering the AAAA sub-lookups.
func VerifC13LookupV6Nss(r *Resolver, q middleware.Queryer, ctx context.Context, zone string, hosts []string) {
	old := r.queryer.Load()
	r.queryer.Store(&q)
	defer r.queryer.Store(old)
	set := hostSet{}
	for _, h := range hosts {
		set[h] = struct{}{}
	}
	servers := &authority.Servers{Zone: zone}
	r.lookupV6Nss(ctx, dns.Question{Name: zone, Qtype: dns.TypeNS, Qclass: dns.ClassINET}, servers, hostSet{}, set, true)
}

// ---- the per-address circuit breaker (accessors; VerifC13CBShift emulates a
// clock advance by moving every stored lastFailure into the past).

// VerifC13CB is an opaque handle on a circuitBreaker.
type VerifC13CB struct{ cb *circuitBreaker }

// VerifC13NewCB builds a breaker without the background cleanup goroutine.
func VerifC13NewCB() *VerifC13CB {
	return &VerifC13CB{cb: &circuitBreaker{failures: make(map[string]*serverFailure)}}
}

// VerifC13CBOf exposes the breaker of a live resolver.
func VerifC13CBOf(r *Resolver) *VerifC13CB { return &VerifC13CB{cb: r.circuitBreaker} }

func (b *VerifC13CB) CanQuery(server string) bool { return b.cb.canQuery(server) }
func (b *VerifC13CB) RecordFailure(server string) { b.cb.recordFailure(server) }
func (b *VerifC13CB) RecordSuccess(server string) { b.cb.recordSuccess(server) }
func (b *VerifC13CB) CleanupOnce(now int64)       { b.cb.cleanupOnce(now) }

// Shift moves every stored lastFailure secs seconds into the past.
func (b *VerifC13CB) Shift(secs int64) {
	b.cb.mu.Lock()
	defer b.cb.mu.Unlock()
	for _, sf := range b.cb.failures {
		sf.lastFailure.Store(sf.lastFailure.Load() - secs)
	}
}

// State reads one address's record.
func (b *VerifC13CB) State(server string) (count int32, disabled, exists bool) {
	b.cb.mu.RLock()
	defer b.cb.mu.RUnlock()
	sf, ok := b.cb.failures[server]
	if !ok {
		return 0, false, false
	}
	return sf.count.Load(), sf.disabled.Load(), true
}

// Len is the number of tracked addresses.
func (b *VerifC13CB) Len() int {
	b.cb.mu.RLock()
	defer b.cb.mu.RUnlock()
	return len(b.cb.failures)
}

// VerifC13QueryServer runs the real Resolver.queryServer for ONE attempt of
// req against addr (an authority address as the delegation cache spells it),
// under ctx and with the request tree's work ledger (may be nil), and returns
// what the attempt reported to the lookup loop (ok=false: nothing was sent to
// it, as for an attempt whose context had already ended).
func VerifC13QueryServer(r *Resolver, ctx context.Context, work *middleware.RecursionWorkLedger, req *dns.Msg, addr string) (resp *dns.Msg, err error, ok bool) {
	server := authority.NewServer(addr, authority.IPv4)
	rs := &resolveState{req: req, servers: &authority.Servers{Zone: ".", List: []*authority.Server{server}}, work: work}
	results := make(chan lookupResult, 1)
	r.maxConcurrent <- struct{}{} // the slot lookup acquires before launching the worker
	r.queryServer(ctx, rs, nil, req.Id, acquireAttemptReq(req), server, results, false)
	select {
	case res := <-results:
		return res.resp, res.err, true
	default:
		return nil, nil, false
	}
}
