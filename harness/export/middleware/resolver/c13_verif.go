//go:build verif

package resolver

import (
	"context"
	"time"

	"github.com/miekg/dns"
	"github.com/semihalev/sdns/internal/authority"
	"github.com/semihalev/sdns/middleware"
)

// Accessors for the C13 correspondence driver (no behaviour change).

// VerifC13PickFallback exposes pickFallbackResponse.
func VerifC13PickFallback(responseErrors, configErrors []*dns.Msg, fatalErrors []error) (*dns.Msg, error) {
	return pickFallbackResponse(responseErrors, configErrors, fatalErrors)
}

// VerifC13Fatal wraps err the way the resolver marks authority-path failures.
func VerifC13Fatal(err error) error { return fatalError(err) }

// VerifC13IsFatal exposes isFatalError.
func VerifC13IsFatal(err error) bool { return isFatalError(err) }

// VerifC13ConnFailed is the resolver's "all authoritative servers failed".
func VerifC13ConnFailed() error { return errConnectionFailed }

// VerifC13NSLContext marks ctx as a nameserver-address lookup.
func VerifC13NSLContext(ctx context.Context) context.Context {
	return context.WithValue(ctx, contextKeyNSL, struct{}{})
}

func verifC13Resolver(store middleware.Store) *Resolver {
	r := &Resolver{}
	r.store.Store(&store)
	return r
}

// VerifC13RecordZoneFailure runs Resolver.recordResolutionZoneFailure against store.
func VerifC13RecordZoneFailure(store middleware.Store, ctx context.Context, q dns.Question, zone string, cause error) {
	verifC13Resolver(store).recordResolutionZoneFailure(ctx, q, zone, cause)
}

// VerifC13HandleLookupError runs Resolver.handleLookupError for a
// non-minimized query against store (the minimized branch re-enters
// resolve and needs a network).
func VerifC13HandleLookupError(store middleware.Store, ctx context.Context, err error, q dns.Question, zone string) error {
	req := new(dns.Msg)
	req.Question = []dns.Question{q}
	rs := &resolveState{req: req, servers: &authority.Servers{Zone: zone}}
	_, out := verifC13Resolver(store).handleLookupError(ctx, err, rs, req, false)
	return out
}

// VerifC13LookupV4Nss runs the real Resolver.lookupV4Nss for a glueless
// delegation of zone to hosts, with q answering the name-server address
// sub-lookups. It returns how many servers the delegation ended up with and
// the error. The resolver's queryer is restored afterwards.
func VerifC13LookupV4Nss(r *Resolver, q middleware.Queryer, ctx context.Context, zone string, hosts []string, key uint64) (int, error) {
	old := r.queryer.Load()
	r.queryer.Store(&q)
	defer r.queryer.Store(old)
	set := hostSet{}
	for _, h := range hosts {
		set[h] = struct{}{}
	}
	servers := &authority.Servers{Zone: zone}
	err := r.lookupV4Nss(ctx, dns.Question{Name: zone, Qtype: dns.TypeNS, Qclass: dns.ClassINET}, servers, key, nil, hostSet{}, set, true, time.Now().Add(time.Minute))
	servers.RLock()
	n := len(servers.List)
	servers.RUnlock()
	return n, err
}

// VerifC13LookupV6Nss runs the real Resolver.lookupV6Nss (the detached IPv6
// name-server address job) for hosts, with q answering the AAAA sub-lookups.
func VerifC13LookupV6Nss(r *Resolver, q middleware.Queryer, ctx context.Context, zone string, hosts []string) {
	old := r.queryer.Load()
	r.queryer.Store(&q)
	defer r.queryer.Store(old)
	set := hostSet{}
	for _, h := range hosts {
		set[h] = struct{}{}
	}
	servers := &authority.Servers{Zone: zone}
	r.lookupV6Nss(ctx, dns.Question{Name: zone, Qtype: dns.TypeNS, Qclass: dns.ClassINET}, servers, hostSet{}, set, true)
}
