//go:build verif

package resolver

import (
	"context"
	"net"
	"time"

	"github.com/miekg/dns"
	"github.com/semihalev/sdns/internal/authority"
	"github.com/semihalev/sdns/internal/cache"
	"github.com/semihalev/sdns/middleware"
)

// Accessors for the C11 check (limiter slots). No behaviour change.

// VerifC11Slots reports how many slots of each resolver limiter are held:
// maxConcurrent (upstream attempts), resolutionSlots (zone lookups), probeSlots,
// v6LookupSlots and the sum of the per-zone in-flight counters.
func VerifC11Slots(r *Resolver) (attempts, lookups, probes, v6, zones int) {
	attempts, lookups, probes, v6 = len(r.maxConcurrent), len(r.resolutionSlots), len(r.probeSlots), len(r.v6LookupSlots)
	if z := r.zoneInflight; z != nil {
		for i := range z.buckets {
			zones += int(z.buckets[i].Load())
		}
	}
	return
}

// VerifC11AttemptCap is cap(maxConcurrent).
func VerifC11AttemptCap(r *Resolver) int { return cap(r.maxConcurrent) }

// VerifC11LateWorker performs lookup's fan-out step for one upstream attempt
// whose lookup is already over when the worker goroutine first runs (the
// hedged peer answered first, or the client went away): the main loop's half
// — take a maxConcurrent slot (non-blocking here; false = none free), launch
// — then the real queryServer on the already cancelled lookup context.
func VerifC11LateWorker(r *Resolver, addr string) (acquired bool) {
	select {
	case r.maxConcurrent <- struct{}{}:
	default:
		return false
	}
	ctx, cancel := context.WithCancel(context.Background())
	interrupts := NewInterruptGroup(ctx)
	results := make(chan lookupResult)
	cancel() // the winner answered before this worker is scheduled
	interrupts.Close()
	req := new(dns.Msg)
	req.SetQuestion("late-worker.c11.test.", dns.TypeA)
	server := authority.NewServer(addr, authority.IPv4)
	r.queryServer(ctx, &resolveState{}, interrupts, req.Id, req.Copy(), server, results, false)
	return true
}

// VerifC11ZL drives a real zoneInflightLimiter exactly as its one caller, the
// singleflight leader closure of Resolver.groupLookup, does:
//
//	release, ok := acquire(zone); if !ok { return errZoneCapacity }; defer release()
type VerifC11ZL struct {
	l    *zoneInflightLimiter
	held map[string][]func()
}

func VerifC11NewZL(perZone int) *VerifC11ZL {
	return &VerifC11ZL{l: newZoneInflightLimiter(perZone), held: map[string][]func(){}}
}

// Enter is the closure's entry: false = shed (the closure returns at once, nothing deferred).
func (z *VerifC11ZL) Enter(zone string) bool {
	release, ok := z.l.acquire(zone)
	if !ok {
		return false
	}
	z.held[zone] = append(z.held[zone], release)
	return true
}

// Leave is the closure's return for one admitted lookup of zone (the deferred release).
func (z *VerifC11ZL) Leave(zone string) bool {
	h := z.held[zone]
	if len(h) == 0 {
		return false
	}
	h[len(h)-1]()
	z.held[zone] = h[:len(h)-1]
	return true
}

// Count is the sum of all bucket counters.
func (z *VerifC11ZL) Count() int {
	n := 0
	for i := range z.l.buckets {
		n += int(z.l.buckets[i].Load())
	}
	return n
}

// VerifC11ZoneQuota is the per-zone quota of r's limiter (0: none).
func VerifC11ZoneQuota(r *Resolver) int {
	if r.zoneInflight == nil {
		return 0
	}
	return int(r.zoneInflight.perZone)
}

// VerifC11ZoneHold takes up to n reservations of zone on r's own limiter (as
// n lookups in flight would) and returns how many it got and their release.
func VerifC11ZoneHold(r *Resolver, zone string, n int) (got int, release func()) {
	var rel []func()
	for i := 0; i < n; i++ {
		if f, ok := r.zoneInflight.acquire(zone); ok {
			rel = append(rel, f)
		}
	}
	return len(rel), func() {
		for _, f := range rel {
			f()
		}
	}
}

// VerifC11GroupLookup runs the real Resolver.groupLookup for (name, A) against
// one authority of zone at addr, under ctx.
func VerifC11GroupLookup(r *Resolver, ctx context.Context, name, zone, addr string) (*dns.Msg, error) {
	req := new(dns.Msg)
	req.SetQuestion(name, dns.TypeA)
	req.SetEdns0(1232, false)
	servers := &authority.Servers{Zone: zone, List: []*authority.Server{authority.NewServer(addr, authority.IPv4)}}
	return r.groupLookup(ctx, &resolveState{req: req, requestID: req.Id}, req, servers, false)
}

// VerifC11LookupV4Nss runs the real Resolver.lookupV4Nss for a glue-less
// delegation of child to the given name-server host names, on a request
// context prepared the way DNSHandler.handle prepares it.
func VerifC11LookupV4Nss(r *Resolver, ctx context.Context, child string, hosts []string) (servers int, err error) {
	ctx, _ = middleware.EnsureResolutionAttemptGuard(ctx)
	q := dns.Question{Name: child, Qtype: dns.TypeNS, Qclass: dns.ClassINET}
	auth := &authority.Servers{Zone: child}
	hs := hostSet{}
	for _, h := range hosts {
		hs[h] = struct{}{}
	}
	err = r.lookupV4Nss(ctx, q, auth, cache.Key(q, false), nil, hostSet{}, hs, false, time.Now().Add(time.Minute))
	auth.RLock()
	servers = len(auth.List)
	auth.RUnlock()
	return servers, err
}

// VerifC11DialerIndex runs the REAL Resolver.newDialer for a request with the
// given client message id on the TCP / UDP leg and reports which configured
// outbound address it bound (index into outboundIPv4; -1: none configured).
func VerifC11DialerIndex(r *Resolver, reqid uint16, proto string) (index, configured int) {
	ctx, cancel := context.WithTimeout(context.Background(), time.Second)
	defer cancel()
	d := r.newDialer(ctx, &resolveState{requestID: reqid}, proto, authority.IPv4)
	var ip net.IP
	switch a := d.LocalAddr.(type) {
	case *net.TCPAddr:
		ip = a.IP
	case *net.UDPAddr:
		ip = a.IP
	}
	index = -1
	for i, x := range r.outboundIPv4 {
		if len(ip) > 0 && len(x) > 0 && &x[0] == &ip[0] { // identity: the configured entries may all be the same address
			index = i
		}
	}
	return index, len(r.outboundIPv4)
}
