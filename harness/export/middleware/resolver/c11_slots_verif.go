//go:build verif

package resolver

import (
	"context"

	"github.com/miekg/dns"
	"github.com/semihalev/sdns/internal/authority"
)

// Accessors for the C11 check (limiter slots). No behaviour change.

// VerifC11Slots reports how many slots of each resolver limiter are held:
// maxConcurrent (upstream attempts), resolutionSlots (zone lookups), probeSlots,
// v6LookupSlots and the sum of the per-zone in-flight counters.
func VerifC11Slots(r *Resolver) (attempts, lookups, probes, v6, zones int) {
	attempts, lookups, probes, v6 = len(r.maxConcurrent), len(r.resolutionSlots), len(r.probeSlots), len(r.v6LookupSlots)
	if z := r.zoneInflight; z != nil {
		for i := range z.buckets {
			zones += int(z.buckets[i].Load())
		}
	}
	return
}

// VerifC11AttemptCap is cap(maxConcurrent).
func VerifC11AttemptCap(r *Resolver) int { return cap(r.maxConcurrent) }

// VerifC11LateWorker performs lookup's fan-out step for one upstream attempt
// whose lookup is already over when the worker goroutine first runs (the
// hedged peer answered first, or the client went away): the main loop's half
// — take a maxConcurrent slot (non-blocking here; false = none free), launch
// — then the real queryServer on the already cancelled lookup context.
func VerifC11LateWorker(r *Resolver, addr string) (acquired bool) {
	select {
	case r.maxConcurrent <- struct{}{}:
	default:
		return false
	}
	ctx, cancel := context.WithCancel(context.Background())
	interrupts := NewInterruptGroup(ctx)
	results := make(chan lookupResult)
	cancel() // the winner answered before this worker is scheduled
	interrupts.Close()
	req := new(dns.Msg)
	req.SetQuestion("late-worker.c11.test.", dns.TypeA)
	server := authority.NewServer(addr, authority.IPv4)
	r.queryServer(ctx, &resolveState{}, interrupts, req.Id, req.Copy(), server, results, false)
	return true
}
