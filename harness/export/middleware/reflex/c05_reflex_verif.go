//go:build verif

package reflex

import "github.com/semihalev/sdns/middleware"

// VerifC05RequestFacts exposes requestFacts: the question type and request
// size the amplification score is computed from (accessor only).
func VerifC05RequestFacts(req *middleware.Request) (qtype uint16, size int, ok bool) {
	return requestFacts(req)
}
