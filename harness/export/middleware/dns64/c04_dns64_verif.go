//go:build verif

package dns64

import "github.com/miekg/dns"

// Accessors for the C04 correspondence driver (no behaviour change).

// VerifC04Counters: how often a reply was synthesised, and how often the A
// response was used as the basis of the reply (RFC 6147 §5.1.6).
func VerifC04Counters() (synth, basis uint64) {
	return uint64(Synthesised.Value()),
		uint64(aLookupNXDomain.Value()) + uint64(aLookupNoA.Value()) + uint64(aLookupServfail.Value()) + uint64(aLookupOtherRcode.Value())
}

// VerifC04NegativeAAAATTL calls the unexported negativeAAAATTL.
func VerifC04NegativeAAAATTL(m *dns.Msg) (uint32, bool) { return negativeAAAATTL(m) }

// VerifC04NoSOACeiling reads the constant.
func VerifC04NoSOACeiling() uint32 { return noSOATTLCeiling }
