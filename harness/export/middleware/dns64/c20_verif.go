//go:build verif

package dns64

import (
	"context"
	"net"

	"github.com/miekg/dns"
)

// Accessors for the C20 verification driver (no behaviour change).

func VerifValidatePrefix(p *net.IPNet) error                 { return validatePrefix(p) }
func VerifEmbedIPv4(prefix *net.IPNet, v4 net.IP) net.IP     { return embedIPv4(prefix, v4) }
func VerifExtractIPv4(p *net.IPNet, a net.IP) (net.IP, bool) { return extractIPv4(p, a) }
func VerifParseIP6ArpaName(qname string) (net.IP, bool)      { return parseIP6ArpaName(qname) }
func VerifInAddrArpa(v4 net.IP) string                       { return inAddrArpa(v4) }
func VerifIsDNSSECFailure(m *dns.Msg) bool                   { return isDNSSECFailure(m) }
func VerifIsCachedFailure(ctx context.Context, m *dns.Msg) bool {
	return isCachedFailureResponse(ctx, m)
}
func VerifNoSOATTLCeiling() uint32          { return noSOATTLCeiling }
func VerifPtrSynthTTL() uint32              { return ptrSynthTTL }
func VerifWellKnownPrefix() *net.IPNet      { return wellKnownPrefix }
func VerifDefaultExcludeAv4() []*net.IPNet  { return defaultExcludeAv4 }
func VerifDefaultExcludeAAAA() []*net.IPNet { return defaultExcludeAAAA }

// VerifPrefix is one compiled Pref64.
type VerifPrefix struct {
	Net       *net.IPNet
	WellKnown bool
}

// VerifCompiled reads the compiled configuration.
func (d *DNS64) VerifCompiled() (prefixes []VerifPrefix, clients int, zones []string, exA, exAAAA int) {
	for _, p := range d.cfg.prefixes {
		prefixes = append(prefixes, VerifPrefix{Net: p.net, WellKnown: p.wellKnown})
	}
	return prefixes, len(d.cfg.clientNetworks), append([]string(nil), d.cfg.excludeZones...), len(d.cfg.excludeAv4), len(d.cfg.excludeAAAA)
}
