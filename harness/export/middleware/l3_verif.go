//go:build verif

package middleware

// VerifL3AutoWire exposes Pipeline.autoWire (accessor only).
func VerifL3AutoWire(p *Pipeline) { p.autoWire() }
