//go:build verif

package middleware

// Accessors for the C11 check (responseWriter written flag). No behaviour change.

// VerifC11NewWriter returns a fresh base responseWriter bound to t exactly
// as Chain.rebindWriter + (optionally) Chain.AllowDirectPack leave it.
func VerifC11NewWriter(t Transport, directPack bool) ResponseWriter {
	w := &responseWriter{}
	w.Reset(t)
	w.directPack = directPack
	return w
}

// VerifC11ResetWriter is the pooled-chain rebind: Reset, then the declared
// direct-pack capability.
func VerifC11ResetWriter(rw ResponseWriter, t Transport, directPack bool) {
	w := rw.(*responseWriter)
	w.Reset(t)
	w.directPack = directPack
}

// VerifC11IsAlreadyWritten reports whether err is the writer's
// "msg already written" sentinel.
func VerifC11IsAlreadyWritten(err error) bool { return err == errAlreadyWritten }

// VerifC11Size exposes the raw written marker (size; -1 = nothing written).
func VerifC11Size(rw ResponseWriter) int { return rw.(*responseWriter).size }
