//go:build verif

package middleware

import "github.com/miekg/dns"

// VerifC15ProofFingerprint exposes validatedNegativeProofFingerprint
// (accessor only).
func VerifC15ProofFingerprint(proof *dns.Msg) ([32]byte, bool) {
	return validatedNegativeProofFingerprint(proof)
}
