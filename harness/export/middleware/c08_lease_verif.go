//go:build verif

package middleware

import "time"

// VerifC08ShiftMeta moves the accumulated cut d into the past (emulated clock
// advance while a request is in progress). Accessor only.
func VerifC08ShiftMeta(m *ResponseMeta, d time.Duration) {
	if m == nil {
		return
	}
	m.cutMu.Lock()
	if !m.cut.deadline.IsZero() {
		m.cut.deadline = m.cut.deadline.Add(-d)
	}
	m.cutMu.Unlock()
}
