//go:build verif

package cache

// VerifC15EntryWire exposes the bytes an entry stored at admission
// (accessor only; the slice is the entry's own).
func VerifC15EntryWire(e *CacheEntry) []byte {
	if e == nil {
		return nil
	}
	return e.wire
}
