//go:build verif

package cache

// VerifC15EntryWire exposes the bytes an entry stored at admission
// (accessor only; the slice is the entry's own).
func VerifC15EntryWire(e *CacheEntry) []byte {
	if e == nil {
		return nil
	}
	return e.wire
}

// VerifC15EntryStripped exposes the DO=0 body an entry prepared at admission
// (nil: none) — accessor only.
func VerifC15EntryStripped(e *CacheEntry) []byte {
	if e == nil {
		return nil
	}
	return e.stripped
}

// VerifC15WireFlags exposes prepareWireServe's verdict on a packed body.
func VerifC15WireFlags(body []byte) (eligible, hasDNSSEC, chaseSafe bool) {
	f := prepareWireServe(body)
	return f&wireEligible != 0, f&wireHasDNSSEC != 0, f&wireChaseSafe != 0
}
