//go:build verif

package cache

import "time"

// VerifShift emulates a clock advance of d for everything the cache
// middleware has stored: every stored timestamp / absolute deadline moves d
// into the past (answer entries incl. their delegation cut, NXDOMAIN cuts,
// denial proofs, cached failures).  Accessor only: no serving logic changes.
// The caller quiesces the pipeline first.
func VerifShift(c *Cache, d time.Duration) {
	shift := func(_ bool, _ uint64, e *CacheEntry) bool {
		e.stored = e.stored.Add(-d)
		if !e.cutUntil.IsZero() {
			e.cutUntil = e.cutUntil.Add(-d)
		}
		return true
	}
	c.store.ForEach(shift)
	if cc := c.store.nxDomainCuts; cc != nil {
		cc.mu.Lock()
		for _, e := range cc.entries {
			e.stored = e.stored.Add(-d)
			e.expires = e.expires.Add(-d)
		}
		cc.mu.Unlock()
	}
	if pc := c.store.denialProofs; pc != nil {
		pc.mu.Lock()
		for _, e := range pc.byID {
			e.expires = e.expires.Add(-d)
		}
		pc.mu.Unlock()
	}
	if fc := c.failure; fc != nil && fc.entries != nil {
		type kv struct {
			k uint64
			v *failureEntry
		}
		var all []kv
		fc.entries.ForEach(func(key uint64, v any) bool {
			if fe, ok := v.(*failureEntry); ok {
				all = append(all, kv{key, fe})
			}
			return true
		})
		for _, e := range all {
			cp := *e.v
			cp.retryAfter = cp.retryAfter.Add(-d)
			fc.entries.Add(e.k, &cp)
		}
	}
}

// VerifLens exposes the sub-cache sizes.
func VerifLens(c *Cache) (pos, neg, fail, cuts, proofs int) {
	return c.positive.Len(), c.negative.Len(), c.store.FailureLen(), c.store.NXDomainCutLen(), c.store.DenialProofLen()
}
