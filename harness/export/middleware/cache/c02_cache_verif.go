//go:build verif

package cache

import (
	"context"
	"time"

	"github.com/miekg/dns"
	"github.com/semihalev/sdns/middleware"
)

// Accessors for the C02 expiry ops (no behaviour change).

// VerifC02FreezeProofClock pins the denial-proof cache's injectable clock.
func VerifC02FreezeProofClock(c *Cache, t time.Time) {
	pc := c.store.denialProofs
	pc.mu.Lock()
	pc.now = func() time.Time { return t }
	pc.mu.Unlock()
}

// VerifC02MaxTTLs reads the lifetime ceilings of the two shared denial caches.
func VerifC02MaxTTLs(c *Cache) (proof, cut time.Duration) {
	return c.store.denialProofs.maxTTL, c.store.nxDomainCuts.maxTTL
}

// VerifC02LookupProof is Store.LookupDenialProof (what Cache.ServeDNS consults).
func VerifC02LookupProof(c *Cache, req *dns.Msg) (*dns.Msg, bool) {
	msg, _, _, ok := c.store.LookupDenialProof(req, nil)
	return msg, ok
}

// VerifC02LookupCut is Store.LookupNXDomainCut plus the entry's own reply builder.
func VerifC02LookupCut(c *Cache, req *dns.Msg) (*dns.Msg, bool) {
	e, ok := c.store.LookupNXDomainCut(req)
	if !ok || e == nil {
		return nil, false
	}
	m := e.response(req)
	return m, m != nil
}

// VerifC02LookupCutWire is Store.LookupNXDomainCutWire (the wire-born question's cut lookup).
func VerifC02LookupCutWire(c *Cache, wireName []byte, qclass uint16) bool {
	e, ok := c.store.LookupNXDomainCutWire(wireName, qclass)
	return ok && e != nil
}

// VerifC02WriteBack publishes a validated proof the way the prefetch worker's
// write-back does (Store.RecordDenialProof, then Store.RecordNXDomainCut for an
// NXDOMAIN): no exact-entry, cut or proof lookup in front of it.
func VerifC02WriteBack(c *Cache, proof *dns.Msg, subject, zone string, nsec3 bool, cutUntil time.Time) {
	kind := middleware.ValidatedNegativeProofNSEC
	if nsec3 {
		kind = middleware.ValidatedNegativeProofNSEC3
	}
	c.store.RecordDenialProof(proof, zone, kind, cutUntil)
	if proof.Rcode == dns.RcodeNameError {
		c.store.RecordNXDomainCut(proof, subject, zone, cutUntil)
	}
}

// VerifC02PrivateGet is the resolver-private cache route (Store.GetWithContext:
// what answers the resolver's own DS / DNSKEY / NS-address sub-queries) under a
// fresh request tree; it reports whether an exact entry exists for the question
// and the deadline the lookup bound the request tree to (zero: unbounded).
func VerifC02PrivateGet(c *Cache, req *dns.Msg) (msg *dns.Msg, ok bool, exact bool, bound time.Time) {
	_, exact = c.store.Lookup(req)
	var meta middleware.ResponseMeta
	ctx := middleware.WithResponseMeta(context.Background(), &meta)
	msg, ok = c.store.GetWithContext(ctx, req)
	bound, _ = meta.Cut()
	return msg, ok, exact, bound
}

// VerifC02LookupProofExpiry is Store.lookupDenialProofWithExpiry: the synthesised
// answer together with the earliest deadline among the records it was built from.
func VerifC02LookupProofExpiry(c *Cache, req *dns.Msg) (time.Time, bool) {
	_, _, _, expires, ok := c.store.lookupDenialProofWithExpiry(req, nil)
	return expires, ok
}
