//go:build verif

package cache

import (
	"time"

	"github.com/miekg/dns"
	"github.com/semihalev/sdns/middleware"
)

// Accessors for the C02 expiry ops (no behaviour change).

// VerifC02FreezeProofClock pins the denial-proof cache's injectable clock.
func VerifC02FreezeProofClock(c *Cache, t time.Time) {
	pc := c.store.denialProofs
	pc.mu.Lock()
	pc.now = func() time.Time { return t }
	pc.mu.Unlock()
}

// VerifC02MaxTTLs reads the lifetime ceilings of the two shared denial caches.
func VerifC02MaxTTLs(c *Cache) (proof, cut time.Duration) {
	return c.store.denialProofs.maxTTL, c.store.nxDomainCuts.maxTTL
}

// VerifC02LookupProof is Store.LookupDenialProof (what Cache.ServeDNS consults).
func VerifC02LookupProof(c *Cache, req *dns.Msg) (*dns.Msg, bool) {
	msg, _, _, ok := c.store.LookupDenialProof(req, nil)
	return msg, ok
}

// VerifC02LookupCut is Store.LookupNXDomainCut plus the entry's own reply builder.
func VerifC02LookupCut(c *Cache, req *dns.Msg) (*dns.Msg, bool) {
	e, ok := c.store.LookupNXDomainCut(req)
	if !ok || e == nil {
		return nil, false
	}
	m := e.response(req)
	return m, m != nil
}

// VerifC02LookupCutWire is Store.LookupNXDomainCutWire (the wire-born question's cut lookup).
func VerifC02LookupCutWire(c *Cache, wireName []byte, qclass uint16) bool {
	e, ok := c.store.LookupNXDomainCutWire(wireName, qclass)
	return ok && e != nil
}

// VerifC02WriteBack publishes a validated proof the way the prefetch worker's
// write-back does (Store.RecordDenialProof, then Store.RecordNXDomainCut for an
// NXDOMAIN): no exact-entry, cut or proof lookup in front of it.
func VerifC02WriteBack(c *Cache, proof *dns.Msg, subject, zone string, nsec3 bool, cutUntil time.Time) {
	kind := middleware.ValidatedNegativeProofNSEC
	if nsec3 {
		kind = middleware.ValidatedNegativeProofNSEC3
	}
	c.store.RecordDenialProof(proof, zone, kind, cutUntil)
	if proof.Rcode == dns.RcodeNameError {
		c.store.RecordNXDomainCut(proof, subject, zone, cutUntil)
	}
}
