//go:build verif

package cache

import (
	"context"

	"github.com/miekg/dns"
)

// Accessors for the C12 (bounded work per request) check. No behaviour change.

// VerifC12CacheableResolutionFailure exposes cacheableResolutionFailure.
func VerifC12CacheableResolutionFailure(ctx context.Context, res *dns.Msg) bool {
	return cacheableResolutionFailure(ctx, res)
}

// VerifC12MaxCnameChaseDepth exposes the alias chase nesting cap.
func VerifC12MaxCnameChaseDepth() int { return maxCnameChaseDepth }
