//go:build verif

package cache

// Accessors for the C12 (bounded work per request) check. No behaviour change.
// (cacheableResolutionFailure is deliberately NOT exported: the driver observes it through the
// real ResponseWriter.WriteMsg, so a change of its signature cannot break the harness build.)

// VerifC12MaxCnameChaseDepth exposes the alias chase nesting cap.
func VerifC12MaxCnameChaseDepth() int { return maxCnameChaseDepth }
