//go:build verif

package cache

import (
	"net/netip"
	"sort"
	"time"

	"github.com/miekg/dns"
)

// Accessors for the C03 correspondence driver. No behaviour change: they
// expose unexported verifiers/fields and let the driver place a failure
// entry or a cut alias under a CHOSEN 64-bit key (forged collisions).
// Answer entries need no hook: Store.SetFromResponseWithKey /
// SetFromResponseScoped already take the key from the caller.

// VerifC03Ident is the identity an entry was admitted under.
type VerifC03Ident struct {
	Q     dns.Question
	CD    bool
	Scope netip.Prefix
}

// VerifC03BareEntry builds an entry that carries only an identity (for the
// verifier ops; never stored).
func VerifC03BareEntry(id VerifC03Ident) *CacheEntry {
	return &CacheEntry{question: id.Q, cd: id.CD, scope: id.Scope}
}

// VerifC03EntryIdent reads the identity fields of an entry.
func VerifC03EntryIdent(e *CacheEntry) VerifC03Ident {
	return VerifC03Ident{Q: e.question, CD: e.cd, Scope: e.scope}
}

// VerifC03EntryMsg unpacks the stored body.
func VerifC03EntryMsg(e *CacheEntry) *dns.Msg { return e.storedMsg() }

func VerifC03EntryMatchesKey(e *CacheEntry, want CacheKey) bool { return entryMatchesKey(e, want) }

func VerifC03EntryMatchesWireQuestion(e *CacheEntry, wireName []byte, qtype, qclass uint16, cd bool) bool {
	return entryMatchesWireQuestion(e, wireName, qtype, qclass, cd)
}

func VerifC03EntryMatchesPreimage(e *CacheEntry, qtype, qclass uint16, cd bool, scope netip.Prefix) bool {
	return entryMatchesPreimage(e, qtype, qclass, cd, scope)
}

func VerifC03EqualNameASCIIFold(a, b string) bool { return equalNameASCIIFold(a, b) }

func VerifC03NormalizeKeyScope(p netip.Prefix) netip.Prefix { return normalizeKeyScope(p) }

func VerifC03FoldWireNamesEqual(a, b []byte) bool { return foldWireNamesEqual(a, b) }

// VerifC03Store returns the concrete store behind the middleware.
func VerifC03Store(c *Cache) *Store { return c.store }

// VerifC03ScopedLookup exposes (*Cache).scopedLookup (probe only, unverified).
func VerifC03ScopedLookup(c *Cache, q dns.Question, cd bool, client netip.Prefix) (*CacheEntry, uint64, netip.Prefix) {
	return c.scopedLookup(q, cd, client)
}

// VerifC03Salts exposes the three index salts.
func VerifC03Salts() (question, zone, cut uint64) {
	return failureQuestionHashSalt, failureZoneHashSalt, nxDomainCutHashSalt
}

func VerifC03MaxWireChaseHops() int { return maxWireChaseHops }

// ---- failure cache

func VerifC03FailureQuestionHash(k FailureQuestionKey) uint64 {
	return failureQuestionHash(normalizeFailureQuestionKey(k))
}

func VerifC03FailureZoneHash(k FailureZoneKey) uint64 {
	return failureZoneHash(normalizeFailureZoneKey(k))
}

// VerifC03FailureSeed files a live failure state under a chosen hash. The
// key is normalised exactly as RecordQuestion / RecordZone normalise it; the
// harness id travels in the provenance string.
func VerifC03FailureSeed(c *Cache, hash uint64, zoneKind bool, qk FailureQuestionKey, zk FailureZoneKey, id string) {
	e := &failureEntry{provenance: FailureProvenance(id), streak: 1, retryAfter: c.failure.now().Add(time.Hour)}
	if zoneKind {
		e.kind = FailureKindZone
		e.zone = normalizeFailureZoneKey(zk)
	} else {
		e.kind = FailureKindQuestion
		e.question = normalizeFailureQuestionKey(qk)
	}
	c.failure.entries.Add(hash, e)
}

// VerifC03FailureDump lists hash → id of every retained failure state.
func VerifC03FailureDump(c *Cache) map[uint64]string {
	out := map[uint64]string{}
	c.failure.entries.ForEach(func(hash uint64, v any) bool {
		if e, ok := v.(*failureEntry); ok && e != nil {
			out[hash] = string(e.provenance)
		}
		return true
	})
	return out
}

func VerifC03FailureLookup(c *Cache, k FailureQuestionKey) (FailureHit, bool) {
	return c.failure.Lookup(k)
}

func VerifC03FailureLookupWire(c *Cache, name []byte, qtype, qclass uint16, cd bool) (FailureHit, bool) {
	return c.failure.LookupWire(name, qtype, qclass, cd)
}

// ---- RFC 8020 cuts

func VerifC03CutHash(deniedName string, qclass uint16) uint64 {
	return nxDomainCutHash(dns.CanonicalName(deniedName), qclass)
}

// VerifC03CutAlias makes the wire accelerator return the cut recorded for
// (deniedName, qclass) under an additional, chosen hash.
func VerifC03CutAlias(s *Store, hash uint64, deniedName string, qclass uint16) bool {
	c := s.nxDomainCuts
	c.mu.Lock()
	defer c.mu.Unlock()
	e := c.entries[nxDomainCutID{deniedName: dns.CanonicalName(deniedName), qclass: qclass}]
	if e == nil {
		return false
	}
	c.byHash[hash] = e
	return true
}

// VerifC03CutInfo reports whether the cut exists and is wire-servable.
func VerifC03CutInfo(s *Store, deniedName string, qclass uint16) (exists, wireOK bool) {
	c := s.nxDomainCuts
	c.mu.RLock()
	defer c.mu.RUnlock()
	e := c.entries[nxDomainCutID{deniedName: dns.CanonicalName(deniedName), qclass: qclass}]
	if e == nil {
		return false, false
	}
	return true, e.wireFull != nil
}

// VerifC03CutSerial reads the SOA serial of a cut's proof (the harness id).
func verifC03CutSerial(e *nxDomainCutEntry) uint32 {
	for _, rr := range e.msg.Ns {
		if soa, ok := rr.(*dns.SOA); ok {
			return soa.Serial
		}
	}
	return 0
}

// VerifC03CutDump lists the string map (serials) and the hash accelerator.
func VerifC03CutDump(s *Store) (entries []uint32, byHash map[uint64]uint32) {
	c := s.nxDomainCuts
	c.mu.RLock()
	defer c.mu.RUnlock()
	for _, e := range c.entries {
		entries = append(entries, verifC03CutSerial(e))
	}
	sort.Slice(entries, func(i, j int) bool { return entries[i] < entries[j] })
	byHash = map[uint64]uint32{}
	for h, e := range c.byHash {
		byHash[h] = verifC03CutSerial(e)
	}
	return entries, byHash
}

func VerifC03CutLookup(s *Store, q dns.Question) (uint32, bool) {
	e, ok := s.nxDomainCuts.lookup(q)
	if !ok {
		return 0, false
	}
	return verifC03CutSerial(e), true
}

func VerifC03CutLookupWire(s *Store, name []byte, qclass uint16) (uint32, bool) {
	e, ok := s.nxDomainCuts.lookupWire(name, qclass)
	if !ok {
		return 0, false
	}
	return verifC03CutSerial(e), true
}

// VerifC03WireCounters reads the byte-path serve counters (exact, chase, cut, failure).
func VerifC03WireCounters() [4]int64 {
	return [4]int64{wireFastServed.Value(), wireChaseServed.Value(), wireCutServed.Value(), wireFailureServed.Value()}
}

// ---- background refresh

// VerifC03SyncPrefetch replaces the worker goroutines of the prefetch queue by
// a worker-less queue of the same kind, so that the refreshes handleCacheHit
// queues are run by VerifC03DrainPrefetch on the caller's goroutine (the real
// processPrefetch, deterministically). No-op when prefetch is disabled.
func VerifC03SyncPrefetch(c *Cache) {
	if c.prefetchQueue == nil {
		return
	}
	c.prefetchQueue.Stop()
	c.prefetchQueue = NewPrefetchQueue(0, 1024, c.metrics)
}

// VerifC03DrainPrefetch runs every queued refresh through processPrefetch in
// queue order and reports the key and the entry each one was queued for.
func VerifC03DrainPrefetch(c *Cache, after func(key uint64, refreshed *CacheEntry)) int {
	if c.prefetchQueue == nil {
		return 0
	}
	n := 0
	for {
		select {
		case item := <-c.prefetchQueue.items:
			c.prefetchQueue.processPrefetch(item)
			after(item.Key, item.Entry)
			n++
		default:
			return n
		}
	}
}

// VerifC03Age moves the entry's admission time back so that 90% of its
// lifetime has passed (inside any prefetch window, still live).
func VerifC03Age(e *CacheEntry) {
	e.stored = e.stored.Add(-e.ttl / 10 * 9)
}

// VerifC03FailureZones lists the names walkFailureZones visits for name.
func VerifC03FailureZones(name string) []string {
	var out []string
	walkFailureZones(name, func(zone string) bool {
		out = append(out, zone)
		return true
	})
	return out
}

// VerifC03FailureTag relabels (provenance only) every failure state whose
// provenance is `from`: the harness gives a failure recorded by the real
// write-back path its own id. No lookup reads the provenance.
func VerifC03FailureTag(c *Cache, from, to string) {
	c.failure.entries.ForEach(func(_ uint64, v any) bool {
		if e, ok := v.(*failureEntry); ok && e != nil && string(e.provenance) == from {
			e.provenance = FailureProvenance(to)
		}
		return true
	})
}

// VerifC03FailureIdent reads the identity a failure state was filed under.
func VerifC03FailureIdent(c *Cache, hash uint64) (FailureQuestionKey, bool) {
	v, ok := c.failure.entries.Get(hash)
	if !ok {
		return FailureQuestionKey{}, false
	}
	e, ok := v.(*failureEntry)
	if !ok || e == nil || e.kind != FailureKindQuestion {
		return FailureQuestionKey{}, false
	}
	return e.question, true
}

// VerifC03CutExpire moves the expiry of the cut stored for (deniedName, qclass)
// into the past: the state stays in both maps until a lookup meets it.
func VerifC03CutExpire(s *Store, deniedName string, qclass uint16) bool {
	c := s.nxDomainCuts
	c.mu.Lock()
	defer c.mu.Unlock()
	e := c.entries[nxDomainCutID{deniedName: dns.CanonicalName(deniedName), qclass: qclass}]
	if e == nil {
		return false
	}
	e.expires = time.Now().Add(-time.Second)
	return true
}

// VerifC03FailureExpire ends the backoff of every failure state tagged id:
// the state is retained as history, it is no longer a cache hit.
func VerifC03FailureExpire(c *Cache, id string) int {
	n := 0
	c.failure.entries.ForEach(func(_ uint64, v any) bool {
		if e, ok := v.(*failureEntry); ok && e != nil && string(e.provenance) == id {
			e.retryAfter = c.failure.now().Add(-time.Second)
			n++
		}
		return true
	})
	return n
}
