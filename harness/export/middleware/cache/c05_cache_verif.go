//go:build verif

package cache

import (
	"net/netip"
	"time"

	"github.com/miekg/dns"
	internalcache "github.com/semihalev/sdns/internal/cache"
	"github.com/semihalev/sdns/internal/wire"
	"github.com/semihalev/sdns/middleware"
)

// Accessors for the C05 driver. No behaviour change.

// VerifC05Shift emulates a clock advance of d for answer entries, NXDOMAIN
// cuts and cached failures: every stored timestamp moves d into the past.
func VerifC05Shift(c *Cache, d time.Duration) {
	c.store.ForEach(func(_ bool, _ uint64, e *CacheEntry) bool {
		e.stored = e.stored.Add(-d)
		if !e.cutUntil.IsZero() {
			e.cutUntil = e.cutUntil.Add(-d)
		}
		return true
	})
	if cc := c.store.nxDomainCuts; cc != nil {
		cc.mu.Lock()
		for _, e := range cc.entries {
			e.stored = e.stored.Add(-d)
			e.expires = e.expires.Add(-d)
		}
		cc.mu.Unlock()
	}
}

// VerifC05RecordCut records a locally validated NXDOMAIN cut exactly as
// ResponseWriter.WriteMsg does for a response carrying validated-proof
// provenance (the scripted upstream cannot attach that provenance).
func VerifC05RecordCut(c *Cache, proof *dns.Msg, denied, zone string) bool {
	return c.store.RecordNXDomainCut(proof, denied, zone, time.Time{})
}

// VerifC05RecordZoneFailure records a zone-kind RFC 9520 failure.
func VerifC05RecordZoneFailure(c *Cache, q dns.Question, zone string) {
	c.store.RecordZoneFailure(q, zone)
}

// VerifC05RecordFailure records a question-kind RFC 9520 failure with the
// miss witness the ladder would capture now.
func VerifC05RecordFailure(c *Cache, req *dns.Msg) {
	var w []denialWitnessPair
	if !req.CheckingDisabled {
		w = c.store.failureMissWitness(req.Question[0].Name, req.Question[0].Qclass)
	}
	c.store.RecordFailure(req, netip.Prefix{}, FailureProvenance("response"), w)
}

// VerifC05Admit stores resp under its own question key exactly as the
// cache writer does for a shared (unscoped) response.
func VerifC05Admit(c *Cache, resp *dns.Msg) {
	key := CacheKey{Question: resp.Question[0], CD: resp.CheckingDisabled}.Hash()
	c.store.SetFromResponseWithKey(key, resp, time.Time{}, 0)
}

// VerifC05Lens reports sub-cache sizes.
func VerifC05Lens(c *Cache) (pos, neg, fail, cuts int) {
	return c.positive.Len(), c.negative.Len(), c.store.FailureLen(), c.store.NXDomainCutLen()
}

// VerifC05EntryServe builds an entry from resp (as admission does), ages it
// by elapsed, and serves it on both paths for the wire-born request wreq:
// serveWireIntoRequest (the byte body, OPT-less) and ToMsg (decoded).
func VerifC05EntryServe(resp *dns.Msg, ttl, elapsed time.Duration, wreq *middleware.Request, do bool) (wireBody []byte, info middleware.WireInfo, wireOK bool, msg *dns.Msg) {
	e := NewCacheEntryWithKey(resp, ttl, 0, 0)
	if e == nil {
		return nil, middleware.WireInfo{}, false, nil
	}
	e.stored = e.stored.Add(-elapsed)
	stored, _ := e.wireBodyFor(do)
	if stored != nil {
		dst := make([]byte, 0, len(stored)+64)
		wireBody, info, wireOK = e.serveWireIntoRequest(dst, wreq, do)
	}
	msg = e.ToMsg(wreq.Msg())
	return
}

// VerifC05EntryFlags reports the admission-time serving verdict of resp.
func VerifC05EntryFlags(resp *dns.Msg) (eligible, hasDNSSEC, chaseSafe, hasStripped bool) {
	e := NewCacheEntryWithKey(resp, time.Minute, 0, 0)
	if e == nil {
		return
	}
	return e.wireServe&wireEligible != 0, e.wireServe&wireHasDNSSEC != 0, e.wireServe&wireChaseSafe != 0, e.stripped != nil
}

// VerifC05ResetEntryLimiters drops the process-global pool of shared
// per-entry token buckets, so the next lookup builds full ones. The pool is
// keyed by a hash of the cache key modulo 997 and refills per second; without
// this a case would inherit the spending of unrelated earlier cases (test
// hygiene only: no serving logic is touched).
func VerifC05ResetEntryLimiters() {
	poolsMu.Lock()
	rateLimiterPools = make(map[int]*sharedRateLimiterPool)
	poolsMu.Unlock()
}

// VerifC05PrefetchClaims lists the entries that currently hold a prefetch
// claim (a background refresh is queued or running for them). Accessor only.
func VerifC05PrefetchClaims(c *Cache) []*CacheEntry {
	var out []*CacheEntry
	c.store.ForEach(func(_ bool, _ uint64, e *CacheEntry) bool {
		if e.prefetch.Load() {
			out = append(out, e)
		}
		return true
	})
	return out
}

// VerifC05PrefetchBusy reports whether a refresh is still queued or any of the
// given claims is still held (the claim is released as the last act of the
// refresh worker, after write-back and cut publication).
func VerifC05PrefetchBusy(c *Cache, claims []*CacheEntry) bool {
	if c.prefetchQueue != nil && len(c.prefetchQueue.items) > 0 {
		return true
	}
	for _, e := range claims {
		if e.prefetch.Load() {
			return true
		}
	}
	return false
}

// VerifC05WireRecomposable exposes wireRecomposable (accessor only).
func VerifC05WireRecomposable(rrtype uint16) bool { return wireRecomposable(rrtype) }

// VerifC05Chase runs the cache-contained alias walk and the composition of
// Cache.serveChaseHit for the wire-born request wreq, without a writer:
// exact-entry lookup + preimage check (as Cache.serveWire), collectWireChase,
// composeWireChase into a buffer of the size serveChaseHit leases. found =
// the alias entry exists; ok = walk and composition succeeded.
func VerifC05Chase(c *Cache, wreq *middleware.Request, do bool) (body []byte, info middleware.WireInfo, hops int, found, ok bool) {
	key, kok := internalcache.KeyWire(wreq.WireName(), wreq.Qtype(), wreq.Qclass(), wreq.CD())
	if !kok {
		return nil, middleware.WireInfo{}, 0, false, false
	}
	alias := c.checkCache(key)
	if alias == nil || !entryMatchesWire(alias, wreq) {
		return nil, middleware.WireInfo{}, 0, false, false
	}
	var segs [maxWireChaseHops]wireChaseSegment
	n, cok := c.collectWireChase(wreq, alias, do, segs[:])
	if !cok {
		return nil, middleware.WireInfo{}, 0, true, false
	}
	size := wire.HeaderLen + (wreq.WireQuestionEnd() - wire.HeaderLen)
	for i := range n {
		size += len(segs[i].body) + segs[i].anCount*wireChaseHeadroom
	}
	dst := make([]byte, 0, size)
	b, inf, built := composeWireChase(dst, wreq, alias, segs[:n])
	return b, inf, n, true, built
}

// VerifC05RecordDenialProof installs a validated aggressive-denial proof
// exactly as ResponseWriter.WriteMsg does for a response carrying
// validated-proof provenance (the scripted upstream cannot attach it).
func VerifC05RecordDenialProof(c *Cache, proof *dns.Msg, zone string, nsec3 bool) bool {
	kind := middleware.ValidatedNegativeProofNSEC
	if nsec3 {
		kind = middleware.ValidatedNegativeProofNSEC3
	}
	return c.store.RecordDenialProof(proof, zone, kind, time.Time{})
}

// VerifC05SuffixWalks lists, in visiting order, the zones the three ancestor
// walks of the failure / denial state hand their visitor for one name: the
// byte path's walkWireSuffixes over the wire name, and the decoded path's
// walkFailureZones and denialProofAncestors over the presentation name.
func VerifC05SuffixWalks(wireName []byte, presentation string) (wireWalk [][]byte, failureZones, denialZones []string) {
	walkWireSuffixes(wireName, func(zone []byte) bool {
		wireWalk = append(wireWalk, append([]byte(nil), zone...))
		return true
	})
	walkFailureZones(presentation, func(zone string) bool {
		failureZones = append(failureZones, zone)
		return true
	})
	var buf [12]string
	denialZones = append(denialZones, denialProofAncestors(dns.CanonicalName(presentation), buf[:0])...)
	return
}
