//go:build verif

package cache

import (
	"context"
	"time"

	"github.com/miekg/dns"
	"github.com/semihalev/sdns/internal/waitgroup"
	"github.com/semihalev/sdns/middleware"
)

// Accessors for the C11 check. No behaviour change.

// VerifC11RegroupLimit is the dedup loop's failure-probe regroup limit.
func VerifC11RegroupLimit() int { return maxFailureProbeRegroups }

// VerifC11DedupTimeout is the bounded wait of the cache's dedup generations.
func VerifC11DedupTimeout(c *Cache) time.Duration { return waitgroup.VerifTimeout(c.wg) }

// VerifC11SetDedupTimeout replaces the (idle) dedup wait group by one with
// another bounded wait — an injectable clock for runs that cannot wait out
// the production value. Call before the cache serves anything.
func VerifC11SetDedupTimeout(c *Cache, d time.Duration) { c.wg = waitgroup.New(d) }

// VerifC11DedupKeys is the number of keys currently registered for dedup.
func VerifC11DedupKeys(c *Cache) int { return waitgroup.VerifLen(c.wg) }

// VerifC11DedupLeader installs a dedup leader for key exactly as a leading
// request does (JoinGeneration) and returns the function that finishes it
// (DoneGeneration with the same token). ok=false: somebody leads already.
func VerifC11DedupLeader(c *Cache, key uint64) (done func(), ok bool) {
	g, leader := c.wg.JoinGeneration(key)
	if !leader {
		return func() {}, false
	}
	return func() { c.wg.DoneGeneration(key, g) }, true
}

// VerifC11WrapWriter builds the cache's response-writer wrapper around inner
// as Cache.ServeDNS installs it on a miss (accessor only).
func VerifC11WrapWriter(c *Cache, inner middleware.ResponseWriter, req *dns.Msg) middleware.ResponseWriter {
	return &ResponseWriter{ResponseWriter: inner, cache: c, ctx: context.Background(), req: req}
}
