//go:build verif

package cache

import (
	"time"

	"github.com/miekg/dns"
)

// VerifC10Seed admits resp under its own question's key, exactly as the
// store's public SetFromResponseWithKey does for a response that came from
// downstream (accessor only: reaches the unexported store field).
func VerifC10Seed(c *Cache, resp *dns.Msg) {
	c.store.SetFromResponseWithKey(CacheKey{Question: resp.Question[0]}.Hash(), resp, time.Time{}, 0)
}
