//go:build verif

package cache

import (
	"github.com/miekg/dns"
	"github.com/semihalev/sdns/middleware"
)

// VerifC06ServeWire exposes CacheEntry.serveWire: the transport-ready body
// (sans OPT) and the reply facts the byte path hands the writer chain for a
// client whose real DO bit is do (accessor only).
func VerifC06ServeWire(e *CacheEntry, req *dns.Msg, reserve int, do bool) ([]byte, middleware.WireInfo, bool) {
	return e.serveWire(req, reserve, do)
}

// VerifC06WireFlags reads the admission-time byte-serving verdict:
// eligible, hasDNSSEC, chaseSafe, and whether a stripped body was prepared.
func VerifC06WireFlags(e *CacheEntry) (eligible, hasDNSSEC, chaseSafe, stripped bool) {
	return e.wireServe&wireEligible != 0, e.wireServe&wireHasDNSSEC != 0, e.wireServe&wireChaseSafe != 0, e.stripped != nil
}
