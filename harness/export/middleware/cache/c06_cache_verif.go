//go:build verif

package cache

import (
	"time"

	"github.com/miekg/dns"
	"github.com/semihalev/sdns/middleware"
)

// VerifC06ServeWire exposes CacheEntry.serveWire: the transport-ready body
// (sans OPT) and the reply facts the byte path hands the writer chain for a
// client whose real DO bit is do (accessor only).
func VerifC06ServeWire(e *CacheEntry, req *dns.Msg, reserve int, do bool) ([]byte, middleware.WireInfo, bool) {
	return e.serveWire(req, reserve, do)
}

// VerifC06WireFlags reads the admission-time byte-serving verdict:
// eligible, hasDNSSEC, chaseSafe, and whether a stripped body was prepared.
func VerifC06WireFlags(e *CacheEntry) (eligible, hasDNSSEC, chaseSafe, stripped bool) {
	return e.wireServe&wireEligible != 0, e.wireServe&wireHasDNSSEC != 0, e.wireServe&wireChaseSafe != 0, e.stripped != nil
}

// VerifC06WireCounters reads the byte-path counters (accessor only): replies
// composed by the wire alias chase, and chase attempts that declined.
func VerifC06WireCounters() (chaseServed, chaseSkipped int64) {
	return wireChaseServed.Value(), wireSkipChase.Value()
}

// VerifC06Seed admits a response under its own question's shared key, the way
// the cache's response writer does for an unscoped answer (accessor only).
func VerifC06Seed(c *Cache, m *dns.Msg) {
	key := CacheKey{Question: m.Question[0], CD: m.CheckingDisabled}.Hash()
	c.store.SetFromResponseWithKey(key, m, time.Time{}, 0)
}
