//go:build verif

package cache

import (
	"context"
	"net/netip"
	"time"

	"github.com/miekg/dns"
	"github.com/semihalev/sdns/internal/cache"
	"github.com/semihalev/sdns/middleware"
)

// Accessors for the C04 correspondence driver (no behaviour change).

// VerifC04Remaining evaluates the unexported CacheEntry.remaining on an entry
// stored at an arbitrary base instant with the given ttl and optional cut
// (relative to the base), at base+elapsed.
func VerifC04Remaining(ttl, elapsed time.Duration, hasCut bool, cut time.Duration) time.Duration {
	base := time.Now()
	e := &CacheEntry{stored: base, ttl: ttl}
	if hasCut {
		e.cutUntil = base.Add(cut)
	}
	return e.remaining(base.Add(elapsed))
}

// VerifC04PkgTTL reads the package-level minTTL / maxTTL.
func VerifC04PkgTTL() (time.Duration, time.Duration) { return minTTL, maxTTL }

// VerifC04TTLBounds reads the TTL managers cache.New built.
func VerifC04TTLBounds(c *Cache) (posMin, posMax, negMin, negMax time.Duration) {
	return c.positive.ttl.min, c.positive.ttl.max, c.negative.ttl.min, c.negative.ttl.max
}

// VerifC04MaxDenialProofTTL reads the constant.
func VerifC04MaxDenialProofTTL() time.Duration { return maxDenialProofTTL }

// VerifC04CutMaxTTL reads the ceiling of the RFC 8020 cut index.
func VerifC04CutMaxTTL(c *Cache) time.Duration { return c.store.nxDomainCuts.maxTTL }

// VerifC04DenialProofExpiry calls the unexported pure denialProofExpiry.
func VerifC04DenialProofExpiry(now time.Time, maxTTL time.Duration, cutUntil time.Time, records []dns.RR) (time.Time, bool) {
	return denialProofExpiry(now, maxTTL, cutUntil, records)
}

// VerifC04View is a read-only view of a stored answer entry.
type VerifC04View struct {
	Entry    *CacheEntry // identity only
	TTL      time.Duration
	Stored   time.Time
	CutUntil time.Time
	Scoped   bool
}

// VerifC04Peek reads the answer entry physically stored under key without
// the expiry check / delete of PositiveCache.Get.
func VerifC04Peek(c *Cache, key uint64) (VerifC04View, bool) {
	v, ok := c.positive.cache.Get(key)
	if !ok {
		return VerifC04View{}, false
	}
	e := v.(*CacheEntry)
	return VerifC04View{Entry: e, TTL: e.ttl, Stored: e.stored, CutUntil: e.cutUntil, Scoped: e.scoped()}, true
}

// VerifC04Key is CacheKey.Hash.
func VerifC04Key(q dns.Question, cd bool, scope netip.Prefix) uint64 {
	return CacheKey{Question: q, CD: cd, Scope: scope}.Hash()
}

// VerifC04Store exposes the concrete *Store.
func VerifC04Store(c *Cache) *Store { return c.store }

// VerifC04CutExpiry reads the expiry of the recorded RFC 8020 cut for denied.
func VerifC04CutExpiry(c *Cache, denied string, qclass uint16) (time.Time, bool) {
	cc := c.store.nxDomainCuts
	cc.mu.RLock()
	defer cc.mu.RUnlock()
	e := cc.entries[nxDomainCutID{deniedName: dns.CanonicalName(denied), qclass: qclass}]
	if e == nil {
		return time.Time{}, false
	}
	return e.expires, true
}

// VerifC04Counters reads the wire-path serve counters (which route answered).
func VerifC04Counters() (fast, chase, cut uint64) {
	return uint64(wireFastServed.Value()), uint64(wireChaseServed.Value()), uint64(wireCutServed.Value())
}

// VerifC04ProcessPrefetch runs the unexported PrefetchQueue.processPrefetch
// synchronously for one captured entry (the completion half of a refresh).
func VerifC04ProcessPrefetch(c *Cache, req *dns.Msg, key uint64, entry *CacheEntry) {
	pq := &PrefetchQueue{ctx: context.Background(), metrics: c.metrics}
	pq.processPrefetch(PrefetchRequest{Request: req, Key: key, Cache: c, Entry: entry})
}

// VerifC04Inherit runs the unexported subQueryLineage.inherit for a
// (parent, child) pair of metas.
func VerifC04Inherit(parent, child *middleware.ResponseMeta) {
	l := subQueryLineage{parent: parent, child: child}
	l.inherit()
}

// VerifC04HardUntil runs the unexported boundRequestToEntryLifetime on an
// entry stored at an arbitrary base with the given ttl / optional cut and
// returns the deadline it folded into a fresh request meta, relative to base.
func VerifC04HardUntil(ttl time.Duration, hasCut bool, cut time.Duration) time.Duration {
	base := time.Now()
	e := &CacheEntry{stored: base, ttl: ttl}
	if hasCut {
		e.cutUntil = base.Add(cut)
	}
	var meta middleware.ResponseMeta
	ctx := middleware.WithResponseMeta(context.Background(), &meta)
	boundRequestToEntryLifetime(ctx, e)
	return meta.CutUntil().Sub(base)
}

// VerifC04ProofMaxTTL reads the ceiling of the RFC 8198 proof index.
func VerifC04ProofMaxTTL(c *Cache) time.Duration { return c.store.denialProofs.maxTTL }

// VerifC04ProofExpiries reads the expiry of the SOA entry currently held for
// zone and of the NSEC entry held for owner (zero when absent).
func VerifC04ProofExpiries(c *Cache, zone, owner string) (soa, nsec time.Time) {
	pc := c.store.denialProofs
	pc.mu.RLock()
	defer pc.mu.RUnlock()
	zone, owner = dns.CanonicalName(zone), dns.CanonicalName(owner)
	for id, e := range pc.byID {
		if id.zone != zone || id.qclass != dns.ClassINET {
			continue
		}
		switch {
		case id.kind == denialProofSOA:
			soa = e.expires
		case (id.kind == denialProofNSEC || id.kind == denialProofNSEC3) && id.owner == owner:
			nsec = e.expires
		}
	}
	return soa, nsec
}

// VerifC04HoldPrefetch swaps the worker pool for a worker-less queue of the
// same kind, so that the refreshes real hits claim stay queued until the
// driver completes them (nothing else changes).
func VerifC04HoldPrefetch(c *Cache) bool {
	if c.prefetchQueue == nil {
		return false
	}
	c.prefetchQueue.Stop()
	c.prefetchQueue = NewPrefetchQueue(0, 4096, c.metrics)
	return true
}

// VerifC04DrainPrefetch takes the queued refresh requests, in order.
func VerifC04DrainPrefetch(c *Cache) []PrefetchRequest {
	var out []PrefetchRequest
	if c.prefetchQueue == nil {
		return nil
	}
	for {
		select {
		case r := <-c.prefetchQueue.items:
			out = append(out, r)
		default:
			return out
		}
	}
}

// VerifC04RunPrefetch runs the unexported processPrefetch for one queued request.
func VerifC04RunPrefetch(c *Cache, r PrefetchRequest) {
	pq := &PrefetchQueue{ctx: context.Background(), metrics: c.metrics}
	pq.processPrefetch(r)
}

// VerifC04PrefetchPct reads the effective prefetch threshold.
func VerifC04PrefetchPct(c *Cache) int { return c.config.Prefetch }

// VerifC04ECSMax reads the ECS cap the store works with.
func VerifC04ECSMax(c *Cache) time.Duration { return c.store.cfg.ECSMaxTTL }

// VerifC04Positive exposes the bounded map behind the positive answer cache.
func VerifC04Positive(c *Cache) *cache.Cache { return c.positive.cache }
