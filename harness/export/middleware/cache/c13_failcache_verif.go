//go:build verif

package cache

import (
	"context"
	"net/netip"
	"time"

	"github.com/miekg/dns"
	"github.com/semihalev/sdns/middleware"
)

// Accessors for the C13 correspondence driver. No behaviour change: they
// expose unexported functions/fields of the RFC 9520 failure cache and let the
// driver place an entry under a CHOSEN 64-bit key (forged collisions).

// VerifC13QuestionHash is failureQuestionHash over the normalised key.
func VerifC13QuestionHash(k FailureQuestionKey) uint64 {
	return failureQuestionHash(normalizeFailureQuestionKey(k))
}

// VerifC13ZoneHash is failureZoneHash over the normalised key.
func VerifC13ZoneHash(k FailureZoneKey) uint64 {
	return failureZoneHash(normalizeFailureZoneKey(k))
}

// VerifC13NormalizeQuestion exposes normalizeFailureQuestionKey.
func VerifC13NormalizeQuestion(k FailureQuestionKey) FailureQuestionKey {
	return normalizeFailureQuestionKey(k)
}

// VerifC13Backoff exposes FailureCache.backoff.
func VerifC13Backoff(c *FailureCache, streak uint32) time.Duration { return c.backoff(streak) }

// VerifC13TTLs exposes the validated bounds.
func VerifC13TTLs(c *FailureCache) (initial, max time.Duration) { return c.initialTTL, c.maxTTL }

// VerifC13Witness builds a witness value that carries only an id.
func VerifC13Witness(id uint64) []denialWitnessPair {
	if id == 0 {
		return nil
	}
	return []denialWitnessPair{{hash: id}}
}

// VerifC13WitnessID reads the id back from a hit.
func VerifC13WitnessID(h FailureHit) uint64 {
	if len(h.witness) == 0 {
		return 0
	}
	return h.witness[0].hash
}

// VerifC13SeedQuestion stores a question entry for q (normalised, as a real
// record would) under the CHOSEN key hash.
func VerifC13SeedQuestion(c *FailureCache, hash uint64, q FailureQuestionKey, streak uint32, retryAfter time.Time) {
	c.entries.Add(hash, &failureEntry{
		kind:       FailureKindQuestion,
		provenance: "seed",
		streak:     streak,
		retryAfter: retryAfter,
		question:   normalizeFailureQuestionKey(q),
	})
}

// VerifC13SeedZone stores a zone entry for z under the CHOSEN key hash.
func VerifC13SeedZone(c *FailureCache, hash uint64, z FailureZoneKey, streak uint32, retryAfter time.Time) {
	c.entries.Add(hash, &failureEntry{
		kind:       FailureKindZone,
		provenance: "seed",
		streak:     streak,
		retryAfter: retryAfter,
		zone:       normalizeFailureZoneKey(z),
	})
}

// VerifC13Remove deletes whatever is stored under hash (capacity eviction).
func VerifC13Remove(c *FailureCache, hash uint64) { c.entries.Remove(hash) }

// VerifC13Entry is one retained state, for the independent oracle's audit.
type VerifC13Entry struct {
	Hash       uint64
	Kind       FailureKind
	Streak     uint32
	RetryAfter time.Time
	Question   FailureQuestionKey
	Zone       FailureZoneKey
}

// VerifC13Entries lists every retained state.
func VerifC13Entries(c *FailureCache) []VerifC13Entry {
	var out []VerifC13Entry
	c.entries.ForEach(func(hash uint64, v any) bool {
		if e, ok := v.(*failureEntry); ok && e != nil {
			out = append(out, VerifC13Entry{hash, e.kind, e.streak, e.retryAfter, e.question, e.zone})
		}
		return true
	})
	return out
}

// VerifC13SetDisabled flips the RFC 9520 kill switch exactly as Cache.New
// does from Config.RFC9520Enabled().
func VerifC13SetDisabled(s *Store, disabled bool) { s.failureCacheDisabled = disabled }

// VerifC13Disabled reads the switch.
func VerifC13Disabled(s *Store) bool { return s.failureCacheDisabled }

// VerifC13StoreOf exposes the Store of a Cache built by New.
func VerifC13StoreOf(c *Cache) *Store { return c.store }

// VerifC13ResetMatching exposes Store.resetMatchingFailures.
func VerifC13ResetMatching(s *Store, q dns.Question, cd bool, scope netip.Prefix) {
	s.resetMatchingFailures(q, cd, scope)
}

// VerifC13ResetQuestion exposes Store.resetQuestionFailure.
func VerifC13ResetQuestion(s *Store, q dns.Question, cd bool, scope netip.Prefix) {
	s.resetQuestionFailure(q, cd, scope)
}

// VerifC13Cacheable exposes cacheableResolutionFailure.
func VerifC13Cacheable(ctx context.Context, res *dns.Msg) bool {
	return cacheableResolutionFailure(ctx, res)
}

// VerifC13EDEText exposes the EDE text constant.
func VerifC13EDEText() string { return failureCacheEDEText }

// VerifC13UseFailureCache makes a Cache built by New use fc (which carries the
// driver's injectable clock) as its RFC 9520 failure cache. Wiring only.
func VerifC13UseFailureCache(c *Cache, fc *FailureCache) {
	c.failure = fc
	c.store.failure = fc
}

// VerifC13WriteMsg runs the real (*ResponseWriter).WriteMsg for a request
// tree whose client scope and denial-miss witness are given, exactly as
// Cache.ServeDNS sets the pooled writer up.
func VerifC13WriteMsg(c *Cache, ctx context.Context, under middleware.ResponseWriter, req *dns.Msg, scope netip.Prefix, wit []denialWitnessPair, res *dns.Msg) error {
	rw := &ResponseWriter{
		ResponseWriter:    under,
		cache:             c,
		ctx:               ctx,
		req:               req,
		clientScope:       scope,
		denialMissWitness: wit,
		requestCD:         req.CheckingDisabled,
	}
	return rw.WriteMsg(res)
}

// VerifC13ForgetAnswers drops the ordinary answer-cache entries of q (both CD
// partitions, shared audience) and nothing else, so a scripted upstream can be
// asked again; the failure cache is left alone (Store.Purge would clear it).
func VerifC13ForgetAnswers(c *Cache, q dns.Question) {
	for _, cd := range []bool{false, true} {
		key := CacheKey{Question: q, CD: cd}.Hash()
		c.positive.Remove(key)
		c.negative.Remove(key)
	}
}

// VerifC13FailureOf exposes the failure cache of a Cache built by New.
func VerifC13FailureOf(c *Cache) *FailureCache { return c.failure }

// VerifC13ForgetAnswersScoped is VerifC13ForgetAnswers plus every scoped key
// a client with source prefix scope would probe (scopedLookup walks the bits
// downwards).
func VerifC13ForgetAnswersScoped(c *Cache, q dns.Question, scope netip.Prefix) {
	VerifC13ForgetAnswers(c, q)
	if !scope.IsValid() {
		return
	}
	for bits := scope.Addr().BitLen(); bits >= 1; bits-- {
		p, err := scope.Addr().Prefix(bits)
		if err != nil {
			continue
		}
		for _, cd := range []bool{false, true} {
			key := CacheKey{Question: q, CD: cd, Scope: p}.Hash()
			c.positive.Remove(key)
			c.negative.Remove(key)
		}
	}
}

// VerifC13SetNow installs the driver's injectable clock on a failure cache
// that Cache.New built from the configuration (New leaves Now at time.Now).
func VerifC13SetNow(c *FailureCache, now func() time.Time) { c.now = now }
