//go:build verif

package cache

import (
	"context"
	"net/netip"
	"time"

	"github.com/miekg/dns"
	"github.com/semihalev/sdns/internal/ecs"
)

// Accessors for the C19 correspondence driver (no behaviour change).

// VerifC19RequestScope calls the unexported (*Cache).requestScope under policy p.
func VerifC19RequestScope(p *ecs.Policy, req *dns.Msg, client netip.Addr) netip.Prefix {
	return (&Cache{ecsPolicy: p}).requestScope(req, client)
}

// VerifC19Policy reads the policy cache.New built from the configuration.
func VerifC19Policy(c *Cache) *ecs.Policy { return c.ecsPolicy }

// VerifC19Entry is a read-only view of one stored answer entry.
type VerifC19Entry struct {
	Q                dns.Question
	CD               bool
	Scope            netip.Prefix
	TTL              time.Duration
	PrefetchEligible bool
	Msg              *dns.Msg
}

// VerifC19Entries lists the positive-cache entries.
func VerifC19Entries(c *Cache) []VerifC19Entry {
	var out []VerifC19Entry
	c.store.ForEach(func(positive bool, _ uint64, e *CacheEntry) bool {
		if positive {
			out = append(out, VerifC19Entry{Q: e.question, CD: e.cd, Scope: e.scope, TTL: e.ttl,
				PrefetchEligible: e.PrefetchEligible(), Msg: e.storedMsg()})
		}
		return true
	})
	return out
}

// VerifC19AgeFraction emulates a clock advance: every answer entry has
// num/den of its own lifetime behind it afterwards.
func VerifC19AgeFraction(c *Cache, num, den int64) {
	now := time.Now()
	c.store.ForEach(func(_ bool, _ uint64, e *CacheEntry) bool {
		e.stored = now.Add(-time.Duration(int64(e.ttl) / den * num))
		return true
	})
}

// VerifC19HoldPrefetch swaps the worker pool for a worker-less queue of the
// same kind so that queued refreshes stay observable (nothing is refreshed).
func VerifC19HoldPrefetch(c *Cache) bool {
	if c.prefetchQueue == nil {
		return false
	}
	c.prefetchQueue.Stop()
	c.prefetchQueue = NewPrefetchQueue(0, 4096, c.metrics)
	return true
}

// VerifC19DrainPrefetch empties the held queue: number of queued refreshes
// and how many of them are for an entry admitted under an ECS scope.
func VerifC19DrainPrefetch(c *Cache) (n, scoped int) {
	if c.prefetchQueue == nil {
		return 0, 0
	}
	for {
		select {
		case r := <-c.prefetchQueue.items:
			n++
			if r.Entry != nil && r.Entry.scope.IsValid() {
				scoped++
			}
			releasePrefetchClaim(r.Entry)
		default:
			return n, scoped
		}
	}
}

// VerifC19DenialLens: sizes of the shared RFC 8020 cut and RFC 8198 proof indexes.
func VerifC19DenialLens(c *Cache) (cuts, proofs int) {
	return c.store.NXDomainCutLen(), c.store.DenialProofLen()
}

// VerifC19Forge files the entry currently stored for (q, cd, from) under the
// key of (q, cd, to) as well — what a 64-bit key collision between the two
// preimages would look like to the hit path.  Test wiring only.
func VerifC19Forge(c *Cache, q dns.Question, cd bool, from, to netip.Prefix) bool {
	e, ok := c.store.LookupByKey(CacheKey{Question: q, CD: cd, Scope: from}.Hash())
	if !ok {
		return false
	}
	c.positive.Set(CacheKey{Question: q, CD: cd, Scope: to}.Hash(), e)
	return true
}

// VerifC19WithBypass installs the cache's request-tree marker (withSharedDenialBypass).
func VerifC19WithBypass(ctx context.Context) context.Context { return withSharedDenialBypass(ctx) }

// VerifC19Refresh describes one queued refresh that was run.
type VerifC19Refresh struct {
	Q    dns.Question
	CD   bool
	Opts []dns.EDNS0 // options on the queued copy of the triggering request
	// HadECS is PrefetchRequest.RequestHadECS; CutsAfter / ProofsAfter are the sizes
	// of the shared denial indexes right after this refresh ran.
	HadECS                 bool
	CutsAfter, ProofsAfter int
}

// VerifC19RunPrefetch empties the held queue by running the worker's own
// processPrefetch on every queued refresh, synchronously and in queue order.
func VerifC19RunPrefetch(c *Cache) (out []VerifC19Refresh) {
	if c.prefetchQueue == nil {
		return nil
	}
	for {
		select {
		case r := <-c.prefetchQueue.items:
			it := VerifC19Refresh{Q: r.Request.Question[0], CD: r.Request.CheckingDisabled}
			if o := r.Request.IsEdns0(); o != nil {
				it.Opts = append(it.Opts, o.Option...)
			}
			it.HadECS = r.RequestHadECS
			c.prefetchQueue.processPrefetch(r)
			it.CutsAfter, it.ProofsAfter = c.store.NXDomainCutLen(), c.store.DenialProofLen()
			out = append(out, it)
		default:
			return out
		}
	}
}

// VerifC19DedupKey computes the request-deduplication key the way Cache.ServeDNS
// does for a request the edns handler has already normalised: requestScope, then
// CacheKey{Question, CD[, Scope]}.Hash().
func VerifC19DedupKey(p *ecs.Policy, req *dns.Msg, client netip.Addr) uint64 {
	c := &Cache{ecsPolicy: p}
	q := req.Question[0]
	key := CacheKey{Question: q, CD: req.CheckingDisabled}.Hash()
	if scope := c.requestScope(req, client); scope.IsValid() {
		key = CacheKey{Question: q, CD: req.CheckingDisabled, Scope: scope}.Hash()
	}
	return key
}
